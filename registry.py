"""Registry of build configurations and property checks."""

CONFIGS = {
    "mainnet": {"tags": []},
    "testnet": {"tags": ["testnet"]},
    "unittest": {"tags": ["unittest"]},
    # verification-only configuration supplied by the hook file config/config_verif.go (DESIGN 3.3)
    "verifnet": {"tags": ["testnet", "unittest"]},
}

PROPS = {
    "C07": dict(configs=["mainnet"], harness="pure", family="c07",
                check_mods=["Check.C07"], corr="c07_bad_corr", prop="c07_bad_prop",
                assumptions=["heights above MAX_HEIGHT are outside the property's domain (block.reduce recurses once per phase)"],
                technique="Coq proof (induction over heights/phases, potential argument) + differential correspondence",
                level_text="Theorems over the Gallina transcription of block/reward.go and block/coinbase.go with explicit uint64 wrap-around, for every uint64 height and every total up to max supply + one reward, parametric in the configuration (side condition discharged by vm_compute at the constants regenerated from /repo on every run). The transcription is compared with the Go functions at every phase boundary and on random heights/totals; the property predicate is also evaluated on Go's own outputs.",
                level_note="Trusted: Coq kernel, paramdump translator, Gallina printer; the model is hand-written and tied to the code by the correspondence run (about 5 800 cases per quick run). No axioms."),
    "C08": dict(configs=["mainnet", "testnet", "unittest"], harness="pure", family="c08",
                check_mods=["Check.C08"], corr="c08_bad_corr", prop="c08_bad_prop",
                assumptions=["timestamps of consecutive blocks never decrease (protocol rule enforced by checkBlock) and are below 2^63 ms; outside it the uint64 subtraction wraps and the retarget can panic or jump (proved: C08_outside_decreasing_timestamps_*)",
                             "difficulties up to 2^100 (the Mul64 overflow edge 2^128/(N*T) ~ 2^107 is proved to panic: C08_nd_panic_overflow)",
                             "exactness/antitone theorems need parent_height*T + GENESIS_TIMESTAMP < 2^63 (true for every height up to MAX_HEIGHT) and solve time below 2^64/3 ms",
                             "the database error path of GetNextDifficulty (grandparent missing) is not modelled; the harness checks it returns an error and that only the grandparent record is read",
                             "util.GetTarget (stratum job target) is proved correct only below 2^64: it divides by the low word (C08_get_target_refuted)"],
                technique="Coq proof (word-level model of util/uint128 proved equal to exact N arithmetic incl. the 128/128 trial-quotient division; lia/nia over the exact floor formula) + differential correspondence in three build configurations",
                level_text="Theorems over a Gallina transcription of blockchain/difficulty.go (difficultyEMA, the arithmetic of GetNextDifficulty with its uint64 wrap-around, int64 casts, LTTC scaling, clamps and MIN_DIFFICULTY floor), of the util/uint128 operations it uses (Mul64, QuoRem64/Div64, QuoRem/Div, Add, Sub, Cmp: transcribed word by word over math/bits with explicit panic outcomes) and of the proof-of-work target uint128.Max.Div(diff). Proved for every configuration satisfying a boolean side condition (discharged by vm_compute at the constants regenerated from /repo on every run, mainnet/testnet/unittest): result >= MIN_DIFFICULTY and nonzero for all inputs; exact characterisation of the panics; no panic for every height, every difficulty up to 2^100 and all non-decreasing timestamps below 2^63; equality with the exact rational formula rounded down; rise bound next*(N-1) <= prev*N; antitone in the parent timestamp; PoW target (2^128-1)/d defined for every d >= 1. The transcription is compared with the real Go functions (GetNextDifficulty itself over a map-backed store, difficultyEMA through an add-only hook, uint128 methods, ValidPowValue, util.GetTarget) on the DESIGN grid and random inputs in all three builds; the property predicate (with the exact formula recomputed in unbounded integers) is also evaluated on Go's own outputs.",
                level_note="Trusted: Coq kernel, paramdump translator, Gallina printer; math/bits primitives (Mul64, Add64, Sub64, Div64, LeadingZeros64, shifts) are modelled by their documented semantics; the model is hand-written and tied to the code by the correspondence run (about 10 800 cases per quick run, 100 000 per thorough run, including both sides panicking at the Mul64 overflow edge and at the zero denominator). Two statements are refuted, not weakened: util.GetTarget panics when the low 64 bits of the difficulty are zero (witness 2^64) and ignores the high word; with decreasing timestamps the retarget panics or jumps by N*T. No axioms."),
    "C20": dict(configs=["mainnet", "unittest"], harness="pure", family="c20",
                check_mods=["Lib.Pack", "Check.C20"], corr="c20_bad_corr", prop="c20_bad_prop",
                assumptions=["a block is abstracted to (height, validity of its proof of work, hash); the proof-of-work function itself and BLAKE3 are not modelled",
                             "entry i of the embedded data pins height (i+1)*interval (the format written by create_checkpoints); that the entries are the hashes of the real mainnet blocks is outside the property",
                             "'pins it through the hash chain' relies on the parent-hash check of block validation (C05), not proved here"],
                technique="Coq proof (linear arithmetic over the table shape, explicit uint64 wrap-around and slice-bound panics) + exhaustive differential sweep of all heights",
                level_text="Theorems over the Gallina transcription of checkpoints.go / checkpoints_testnet.go (IsSecured, IsCheckpoint, GetCheckpoint with its uint64 index arithmetic and slice-bounds panic) and of the last branch of PrevalidateBlock, for every height, parametric in the configuration; the side condition (table shape, no overflow, digest of the embedded data equals the declared one) is discharged by vm_compute at the constants regenerated from /repo on every run. The Go functions are run on every height 0..(count+3)*interval (exhaustive, shipped to Coq as bitmaps), on boundary/special/random heights up to 2^64-1, and PrevalidateBlock itself on blocks without valid proof of work around every class boundary; model and property predicate are evaluated on each observation, the predicate against the embedded data only.",
                level_note="Trusted: Coq kernel, paramdump translator (computes the BLAKE3 digest comparison), Gallina printer and bitmap packing of the harness; the model is hand-written and tied to the code by the correspondence run. The digest clause is a computed fact (cp_digest_ok), not a Coq theorem about BLAKE3. No axioms. R2 and R3 were found by this check and are fixed in /repo (KNOWN_FINDINGS.json); their witnesses run on every check."),
    "C16": dict(configs=["testnet", "unittest"], harness="pure", family="c16",
                check_mods=["Lib.Pack", "Check.C16"], corr="c16_bad_corr", prop="c16_bad_prop",
                assumptions=["hashes are symbolic: Block.Hash identifies what Block.Serialize writes and the hashing-id hash identifies (base hash, ancestors); both are explicit premises of C16_blob_commits* (BLAKE3 collision-freeness and injectivity of the encoders, the latter is C13's subject), not axioms",
                             "'the proof of work verifies' is read as: the block's own mining blob is byte-for-byte the blob that was mined (the proof-of-work function is applied to those bytes; RandomVirel itself is not modelled)",
                             "a blob whose entry for this network carries another hash is not refused by setMiningBlob; it is never credited because the block's own blob then differs (C16_accept_needs_own_hid)",
                             "the blob commits to OtherChains only up to their order: open finding C16-otherchains-order (consensus-rule change), reported as KNOWN-FINDING on every run",
                             "slices.SortFunc is modelled by insertion sort with a panic on equal network ids; the result of any comparison sort is the same (unique strictly ascending arrangement, panic iff a network id repeats) and is compared with Go's on every run"],
                technique="Coq proof (induction over the chain list with the loop state generalised, uniqueness of strictly sorted permutations, symbolic hashing with injectivity premises) + differential correspondence through a build-tag hook",
                level_text="Theorems over the Gallina transcription of block.setMiningBlob, SortOtherChains, BaseHash's field mask, Commitment.HashingID and Commitment.MiningBlob, for every block, every chain list of any length (so every set of 0..15 other chains, any network ids, any position of this chain's id, every permutation or duplication) and any hash type with a decidable equality; parametric in the configuration (only network_id is used). setMiningBlob is characterised exactly (succeeds iff strictly sorted, contains this network, other chains pairwise distinct; then keeps all other chains and only writes timestamp, nonces and OtherChains), and a valid blob is proved to be reconstructed to the very blob that was mined. The transcription is compared with the Go functions (hook VerifSetMiningBlob) on about 1 300 blobs per configuration: valid ones for 0..17 other chains around this chain's id, permutations, duplications, missing/foreign/doubled own entry; with the two sorts on shuffled/sorted/duplicate lists, and with BaseHash/HashingID/MiningBlob/Hash equalities on pairs of blocks differing in each single field. The property predicate is evaluated on Go's own outputs, including that computing the blob leaves the block intact.",
                level_note="Trusted: Coq kernel, paramdump translator, Gallina printer (chain lists packed 11 bytes per entry, 32-byte values renumbered densely by the harness); the model is hand-written and tied to the code by the correspondence run; Go slice aliasing is outside the functional model and is covered by the harness observation 'block intact after MiningBlob' only. blob_commits holds up to the order of OtherChains (full statement refuted in Coq: C16_blob_commits_full_refuted; open finding). No axioms. R1 and three further defects of the same functions were found by this check and are fixed in /repo; their witnesses run on every check."),
}

HIST_MODS = ["Model.Ledger", "Model.Node", "Check.Hist"]
HIST_TB = ["harness/memdb: in-memory stand-in for LMDB (byte-ordered iteration, all-or-nothing Update)",
           "symbolic cryptography in the model: hashes/keys/addresses are opaque identifiers renumbered by the harness; a signature is (signing key, signed message); proof-of-work values and the lottery value of a hash are inputs computed by the real code",
           "verifnet build configuration (hook config/config_verif.go); theorems are parametric in the configuration"]
PROPS["C01"] = dict(configs=["verifnet"], harness="ledger", family="hist", harness_procs=8, parallel=16,
    check_mods=HIST_MODS + ["Check.C01"], corr="c01_bad_corr", prop="c01_bad_prop", trusted_extra=HIST_TB,
    technique="Coq proof over the ledger/node model + differential correspondence on generated block-tree histories",
    level_text="WORK IN PROGRESS", level_note="WORK IN PROGRESS")
PROPS["C03"] = dict(configs=["verifnet"], harness="ledger", family="hist", harness_procs=8, parallel=16,
    check_mods=HIST_MODS + ["Check.C03"], corr="c03_bad_corr", prop="c03_bad_prop", trusted_extra=HIST_TB,
    technique="Coq proof over the ledger/node model + differential correspondence on generated block-tree histories",
    level_text="WORK IN PROGRESS", level_note="WORK IN PROGRESS")

for _pid, _mods in (("C04", ["Check.C04"]), ("C05", ["Spec.WellFormed", "Check.C05"]), ("C17", ["Check.C01", "Check.C17"]),
                    ("C02", ["Check.C01", "Check.C17", "Spec.Rules", "Check.C02"]),
                    ("C06", ["Check.C01", "Check.C17", "Spec.Rules", "Check.C02", "Spec.WellFormed", "Check.C06"]),
                    ("C10", ["Check.C01", "Check.C17", "Spec.Rules", "Check.C02", "Spec.WellFormed", "Check.C03", "Check.C10"])):
    PROPS[_pid] = dict(configs=["verifnet"], harness="ledger", family="hist", harness_procs=8, parallel=16,
        check_mods=HIST_MODS + _mods, corr=_pid.lower() + "_bad_corr", prop=_pid.lower() + "_bad_prop", trusted_extra=HIST_TB,
        technique="Coq proof over the ledger/node model + differential correspondence on generated block-tree histories",
        level_text="WORK IN PROGRESS", level_note="WORK IN PROGRESS")

# C17 has a second part: the page arithmetic of the get_tx_list RPC handler, driven over HTTP by a test inside /repo
_c17 = dict(PROPS["C17"])
PROPS["C17"] = dict(_c17, parts=[
    dict(configs=["verifnet"], harness="ledger", family="hist", harness_procs=8, parallel=16,
         check_mods=_c17["check_mods"], corr=_c17["corr"], prop=_c17["prop"]),
    dict(configs=["unittest"], gotest=dict(run="TestVerifPaging", pkg="./cmd/virel-node"), family="paging",
         check_mods=["Model.Paging", "Check.C17p"], corr="c17p_bad_corr", prop="c17p_bad_prop"),
])

NOT_APPLICABLE = {}
