"""Registry of build configurations and property checks."""

CONFIGS = {
    "mainnet": {"tags": []},
    "testnet": {"tags": ["testnet"]},
    "unittest": {"tags": ["unittest"]},
    # verification-only configuration supplied by the hook file config/config_verif.go (DESIGN 3.3)
    "verifnet": {"tags": ["testnet", "unittest"]},
}

PROPS = {
    "C07": dict(configs=["mainnet"], harness="pure", family="c07",
                check_mods=["Check.C07"], corr="c07_bad_corr", prop="c07_bad_prop",
                assumptions=["heights above MAX_HEIGHT are outside the property's domain (block.reduce recurses once per phase)"],
                technique="Coq proof (induction over heights/phases, potential argument) + differential correspondence",
                level_text="Theorems over the Gallina transcription of block/reward.go and block/coinbase.go with explicit uint64 wrap-around, for every uint64 height and every total up to max supply + one reward, parametric in the configuration (side condition discharged by vm_compute at the constants regenerated from /repo on every run). The transcription is compared with the Go functions at every phase boundary and on random heights/totals; the property predicate is also evaluated on Go's own outputs.",
                level_note="Trusted: Coq kernel, paramdump translator, Gallina printer; the model is hand-written and tied to the code by the correspondence run (about 5 800 cases per quick run). No axioms."),
    "C08": dict(configs=["mainnet", "testnet", "unittest"], harness="pure", family="c08",
                check_mods=["Check.C08"], corr="c08_bad_corr", prop="c08_bad_prop",
                assumptions=["timestamps of consecutive blocks never decrease (protocol rule enforced by checkBlock) and are below 2^63 ms; outside it the uint64 subtraction wraps and the retarget can panic or jump (proved: C08_outside_decreasing_timestamps_*)",
                             "difficulties up to 2^100 (the Mul64 overflow edge 2^128/(N*T) ~ 2^107 is proved to panic: C08_nd_panic_overflow)",
                             "exactness/antitone theorems need parent_height*T + GENESIS_TIMESTAMP < 2^63 (true for every height up to MAX_HEIGHT) and solve time below 2^64/3 ms",
                             "the database error path of GetNextDifficulty (grandparent missing) is not modelled; the harness checks it returns an error and that only the grandparent record is read",
                             "util.GetTarget (stratum job target) is proved correct only below 2^64: it divides by the low word (C08_get_target_refuted)"],
                technique="Coq proof (word-level model of util/uint128 proved equal to exact N arithmetic incl. the 128/128 trial-quotient division; lia/nia over the exact floor formula) + differential correspondence in three build configurations",
                level_text="Theorems over a Gallina transcription of blockchain/difficulty.go (difficultyEMA, the arithmetic of GetNextDifficulty with its uint64 wrap-around, int64 casts, LTTC scaling, clamps and MIN_DIFFICULTY floor), of the util/uint128 operations it uses (Mul64, QuoRem64/Div64, QuoRem/Div, Add, Sub, Cmp: transcribed word by word over math/bits with explicit panic outcomes) and of the proof-of-work target uint128.Max.Div(diff). Proved for every configuration satisfying a boolean side condition (discharged by vm_compute at the constants regenerated from /repo on every run, mainnet/testnet/unittest): result >= MIN_DIFFICULTY and nonzero for all inputs; exact characterisation of the panics; no panic for every height, every difficulty up to 2^100 and all non-decreasing timestamps below 2^63; equality with the exact rational formula rounded down; rise bound next*(N-1) <= prev*N; antitone in the parent timestamp; PoW target (2^128-1)/d defined for every d >= 1. The transcription is compared with the real Go functions (GetNextDifficulty itself over a map-backed store, difficultyEMA through an add-only hook, uint128 methods, ValidPowValue, util.GetTarget) on the DESIGN grid and random inputs in all three builds; the property predicate (with the exact formula recomputed in unbounded integers) is also evaluated on Go's own outputs.",
                level_note="Trusted: Coq kernel, paramdump translator, Gallina printer; math/bits primitives (Mul64, Add64, Sub64, Div64, LeadingZeros64, shifts) are modelled by their documented semantics; the model is hand-written and tied to the code by the correspondence run (about 10 800 cases per quick run, 100 000 per thorough run, including both sides panicking at the Mul64 overflow edge and at the zero denominator). Two statements are refuted, not weakened: util.GetTarget panics when the low 64 bits of the difficulty are zero (witness 2^64) and ignores the high word; with decreasing timestamps the retarget panics or jumps by N*T. No axioms."),
}

HIST_MODS = ["Model.Ledger", "Model.Node", "Check.Hist"]
HIST_TB = ["harness/memdb: in-memory stand-in for LMDB (byte-ordered iteration, all-or-nothing Update)",
           "symbolic cryptography in the model: hashes/keys/addresses are opaque identifiers renumbered by the harness; a signature is (signing key, signed message); proof-of-work values and the lottery value of a hash are inputs computed by the real code",
           "verifnet build configuration (hook config/config_verif.go); theorems are parametric in the configuration"]
PROPS["C01"] = dict(configs=["verifnet"], harness="ledger", family="hist", harness_procs=8, parallel=16,
    check_mods=HIST_MODS + ["Check.C01"], corr="c01_bad_corr", prop="c01_bad_prop", trusted_extra=HIST_TB,
    technique="Coq proof over the ledger/node model + differential correspondence on generated block-tree histories",
    level_text="WORK IN PROGRESS", level_note="WORK IN PROGRESS")
PROPS["C03"] = dict(configs=["verifnet"], harness="ledger", family="hist", harness_procs=8, parallel=16,
    check_mods=HIST_MODS + ["Check.C03"], corr="c03_bad_corr", prop="c03_bad_prop", trusted_extra=HIST_TB,
    technique="Coq proof over the ledger/node model + differential correspondence on generated block-tree histories",
    level_text="WORK IN PROGRESS", level_note="WORK IN PROGRESS")

for _pid, _mods in (("C04", ["Check.C04"]), ("C05", ["Spec.WellFormed", "Check.C05"]), ("C17", ["Check.C01", "Check.C17"]),
                    ("C02", ["Check.C01", "Check.C17", "Spec.Rules", "Check.C02"]),
                    ("C06", ["Check.C01", "Check.C17", "Spec.Rules", "Check.C02", "Spec.WellFormed", "Check.C06"]),
                    ("C10", ["Check.C01", "Check.C17", "Spec.Rules", "Check.C02", "Spec.WellFormed", "Check.C03", "Check.C10"])):
    PROPS[_pid] = dict(configs=["verifnet"], harness="ledger", family="hist", harness_procs=8, parallel=16,
        check_mods=HIST_MODS + _mods, corr=_pid.lower() + "_bad_corr", prop=_pid.lower() + "_bad_prop", trusted_extra=HIST_TB,
        technique="Coq proof over the ledger/node model + differential correspondence on generated block-tree histories",
        level_text="WORK IN PROGRESS", level_note="WORK IN PROGRESS")

NOT_APPLICABLE = {}
