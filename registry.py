"""Registry of build configurations and property checks."""

CONFIGS = {
    "mainnet": {"tags": []},
    "testnet": {"tags": ["testnet"]},
    "unittest": {"tags": ["unittest"]},
}

PROPS = {
    "C07": dict(configs=["mainnet"], harness="pure", family="c07",
                check_mods=["Check.C07"], corr="c07_bad_corr", prop="c07_bad_prop",
                assumptions=["heights above MAX_HEIGHT are outside the property's domain (block.reduce recurses once per phase)"],
                technique="Coq proof (induction over heights/phases, potential argument) + differential correspondence",
                level_text="Theorems over the Gallina transcription of block/reward.go and block/coinbase.go with explicit uint64 wrap-around, for every uint64 height and every total up to max supply + one reward, parametric in the configuration (side condition discharged by vm_compute at the constants regenerated from /repo on every run). The transcription is compared with the Go functions at every phase boundary and on random heights/totals; the property predicate is also evaluated on Go's own outputs.",
                level_note="Trusted: Coq kernel, paramdump translator, Gallina printer; the model is hand-written and tied to the code by the correspondence run (about 5 800 cases per quick run). No axioms."),
}

NOT_APPLICABLE = {}
