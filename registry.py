"""Registry of build configurations and property checks."""

CONFIGS = {
    "mainnet": {"tags": []},
    "testnet": {"tags": ["testnet"]},
    "unittest": {"tags": ["unittest"]},
    # verification-only configuration supplied by the hook file config/config_verif.go (DESIGN 3.3)
    "verifnet": {"tags": ["testnet", "unittest"]},
}

PROPS = {
    "C07": dict(configs=["mainnet"], harness="pure", family="c07",
                check_mods=["Check.C07"], corr="c07_bad_corr", prop="c07_bad_prop",
                assumptions=["heights above MAX_HEIGHT are outside the property's domain (block.reduce recurses once per phase)"],
                technique="Coq proof (induction over heights/phases, potential argument) + differential correspondence",
                level_text="Theorems over the Gallina transcription of block/reward.go and block/coinbase.go with explicit uint64 wrap-around, for every uint64 height and every total up to max supply + one reward, parametric in the configuration (side condition discharged by vm_compute at the constants regenerated from /repo on every run). The transcription is compared with the Go functions at every phase boundary and on random heights/totals; the property predicate is also evaluated on Go's own outputs.",
                level_note="Trusted: Coq kernel, paramdump translator, Gallina printer; the model is hand-written and tied to the code by the correspondence run (about 5 800 cases per quick run). No axioms."),
}

HIST_MODS = ["Model.Ledger", "Model.Node", "Check.Hist"]
HIST_TB = ["harness/memdb: in-memory stand-in for LMDB (byte-ordered iteration, all-or-nothing Update)",
           "symbolic cryptography in the model: hashes/keys/addresses are opaque identifiers renumbered by the harness; a signature is (signing key, signed message); proof-of-work values and the lottery value of a hash are inputs computed by the real code",
           "verifnet build configuration (hook config/config_verif.go); theorems are parametric in the configuration"]
PROPS["C01"] = dict(configs=["verifnet"], harness="ledger", family="hist", harness_procs=8, parallel=16,
    check_mods=HIST_MODS + ["Check.C01"], corr="c01_bad_corr", prop="c01_bad_prop", trusted_extra=HIST_TB,
    technique="Coq proof over the ledger/node model + differential correspondence on generated block-tree histories",
    level_text="WORK IN PROGRESS", level_note="WORK IN PROGRESS")
PROPS["C03"] = dict(configs=["verifnet"], harness="ledger", family="hist", harness_procs=8, parallel=16,
    check_mods=HIST_MODS + ["Check.C03"], corr="c03_bad_corr", prop="c03_bad_prop", trusted_extra=HIST_TB,
    technique="Coq proof over the ledger/node model + differential correspondence on generated block-tree histories",
    level_text="WORK IN PROGRESS", level_note="WORK IN PROGRESS")

for _pid, _mods in (("C04", ["Check.C04"]), ("C05", ["Spec.WellFormed", "Check.C05"])):
    PROPS[_pid] = dict(configs=["verifnet"], harness="ledger", family="hist", harness_procs=8, parallel=16,
        check_mods=HIST_MODS + _mods, corr=_pid.lower() + "_bad_corr", prop=_pid.lower() + "_bad_prop", trusted_extra=HIST_TB,
        technique="Coq proof over the ledger/node model + differential correspondence on generated block-tree histories",
        level_text="WORK IN PROGRESS", level_note="WORK IN PROGRESS")

NOT_APPLICABLE = {}
