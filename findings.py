"""Known findings: structural predicates over a failing case (never written at run time).

KNOWN_FINDINGS.json lists the findings; an entry with status "open" suppresses exactly the failures whose
(property, failed-conjunct code, case record) satisfy the predicate registered here under its id.
Entries with status "fixed" suppress nothing.
"""
import json, os

_HERE = os.path.dirname(os.path.abspath(__file__))
PREDICATES = {}


def predicate(fid):
    def deco(f):
        PREDICATES[fid] = f
        return f
    return deco


def load():
    p = os.path.join(_HERE, "KNOWN_FINDINGS.json")
    return json.load(open(p)) if os.path.exists(p) else []


def match(pid, payload):
    """returns a description string if payload is an open known finding of pid, else None"""
    for e in load():
        if e.get("property") != pid or e.get("status") != "open":
            continue
        f = PREDICATES.get(e["id"])
        try:
            if f and f(payload):
                return f"{e['id']}: {e['what']}"
        except Exception:
            pass
    return None
