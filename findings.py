"""Known findings: structural predicates over a failing case (never written at run time).

KNOWN_FINDINGS.json lists the findings; an entry with status "open" suppresses exactly the failures whose
(property, failed-conjunct code, case record) satisfy the predicate registered here under its id.
Entries with status "fixed" suppress nothing.
"""
import json, os

_HERE = os.path.dirname(os.path.abspath(__file__))
PREDICATES = {}


def predicate(fid):
    def deco(f):
        PREDICATES[fid] = f
        return f
    return deco


def load():
    p = os.path.join(_HERE, "KNOWN_FINDINGS.json")
    return json.load(open(p)) if os.path.exists(p) else []


def match(pid, payload):
    """returns a description string if payload is an open known finding of pid, else None"""
    for e in load():
        if e.get("property") != pid or e.get("status") != "open":
            continue
        f = PREDICATES.get(e["id"])
        try:
            if f and f(payload):
                return f"{e['id']}: {e['what']}"
        except Exception:
            pass
    return None


@predicate("R13a")
def _r13a(p):
    # the implementation stored a block whose ancestor list differs from its real predecessors (WellFormed clause 7)
    return not p.get("corr") and p.get("code", 0) % 10000 == 7


@predicate("R13a-C03")
def _r13a_c03(p):
    # fresh node refused a main-chain block, in a history where a block with a wrong ancestor list was accepted
    return not p.get("corr") and p.get("code") == 8


@predicate("R13a-C06")
def _r13a_c06(p):
    return not p.get("corr") and p.get("code", 0) % 10000 == 85


@predicate("C16-otherchains-order")
def _c16_otherchains_order(p):
    """two blocks that differ only in the order of OtherChains: same mining blob, different block hash (conjunct 31)"""
    if p.get("corr") or p.get("code") != 31:
        return False
    d = (p.get("record") or {}).get("data") or {}
    if d.get("kind") != "mask" or d.get("mutation") != "other-chains-permuted":
        return False
    key = lambda c: (c["net"], c["hash"])
    a, b = d.get("other_chains_1") or [], d.get("other_chains_2") or []
    return (a != b and sorted(a, key=key) == sorted(b, key=key)
            and d.get("base_hash_equal") is True and d.get("hashing_id_equal") is True
            and d.get("mining_blob") == "equal" and d.get("block_hash_equal") is False)


@predicate("R14")
def _r14(p):
    # branch-valid side-branch block refused by the stake-signature check against main-chain state
    return not p.get("corr") and p.get("code", 0) % 10000 == 4 and p.get("family") == "hist"


@predicate("R13b")
def _r13b(p):
    # the implementation stored a block whose transactions exceed the block size cap (WellFormed clause 9)
    return not p.get("corr") and p.get("code", 0) % 10000 == 9



@predicate("C14-reconnect")
def _c14_reconnect(p):
    # Check/C14.v conn_prop code 5: the only deviation from "tampered => rejected" is that whole frames sealed by the
    # same two nodes in the same network on ANOTHER connection (same direction) were delivered, and everything else
    # was delivered exactly as if those frames were genuine
    return not p.get("corr") and p.get("code") == 5


@predicate("C14-reflect")
def _c14_reflect(p):
    # conn_prop code 6: as above, the spliced frames were sealed by the receiver itself (opposite direction)
    return not p.get("corr") and p.get("code") == 6



# ---------------------------------------------------------------- C18

def _single_edit(a, b):
    """b is a by exactly one substituted, deleted or inserted character"""
    if a == b or abs(len(a) - len(b)) > 1:
        return False
    i = 0
    while i < min(len(a), len(b)) and a[i] == b[i]:
        i += 1
    if len(a) == len(b):
        return a[i + 1:] == b[i + 1:]
    if len(a) > len(b):
        return a[i + 1:] == b[i:]
    return a[i:] == b[i + 1:]


@predicate("R16")
def _c18_delegate_edit(p):
    """exactly: single-character edit of a delegate-form text accepted as a different delegate address"""
    if p.get("corr") or p.get("code") != 16:
        return False
    d = (p.get("record") or {}).get("data") or {}
    if d.get("kind") != "edit" or d.get("form") != "delegate":
        return False
    pre = "delegate"
    text, edited, res = d.get("text", ""), d.get("edited", ""), d.get("parse") or {}
    if not (text.startswith(pre) and text[len(pre):].isascii() and text[len(pre):].isdigit()):
        return False
    if not (edited.startswith(pre) and edited[len(pre):].isascii() and edited[len(pre):].isdigit()):
        return False
    if not _single_edit(text, edited):
        return False
    if res.get("ok") is not True or res.get("payment_id") != 0:
        return False
    orig, got = d.get("addr", ""), res.get("addr", "")
    if len(orig) != len(got) or len(got) < 16 or orig == got:
        return False
    zero_head = "0" * (len(got) - 16)          # delegate form: every byte but the last eight is zero
    return got.startswith(zero_head) and orig.startswith(zero_head) and d.get("payment_id") == 0



@predicate("R13a-C09")
def _r13a_c09(p):
    """a completed template was refused (conjunct 1) and that template's ancestor list is not the list of its real
    predecessors, which happens only on top of an accepted block with a wrong ancestor list (R13a)"""
    if p.get("corr") or p.get("code", 0) % 100 != 1:
        return False
    d = (p.get("record") or {}).get("data") or {}
    op = p.get("code", 0) // 100
    return any(r.get("op") == op and r.get("ancestors_real") is False for r in d.get("rejected_templates") or [])


# ---------------------------------------------------------------- C11

@predicate("C11-long-light-fork")
def _c11_long_light_fork(p):
    """exactly: scenario long-light-fork (the peer's branch overtakes ours in cumulative difficulty only more than
    PARALLEL_BLOCKS_DOWNLOAD + 1 blocks above our own height) ran into the time bound (conjunct 4) with node B still on
    its own tip - no crash, no race or deadlock report, both nodes alive, A on the reference chain"""
    if p.get("corr") or p.get("code") != 4 or p.get("family") != "c11":
        return False
    d = (p.get("record") or {}).get("data") or {}
    if d.get("scenario") not in ("long-light-fork", "race/long-light-fork"):
        return False
    b, b0, a, ref = d.get("B") or {}, d.get("B_before") or {}, d.get("A") or {}, d.get("reference") or {}
    return (d.get("timed_out") is True and d.get("synced") is False and not d.get("crashed")
            and not d.get("race_report") and not d.get("deadlock_report")
            and b.get("Top") and b.get("Top") == b0.get("Top") and b.get("Height") == b0.get("Height") == 14
            and a.get("Top") == ref.get("Top") and a.get("Height") == 75)


@predicate("C11-stale-target-peer-gone")
def _c11_stale_target_peer_gone(p):
    """exactly: scenario stale-target-peer-gone (a scripted peer announced a higher chain, served nothing and left; the
    honest peer A holds a chain heavier than B's but not higher) ran into the time bound with B unchanged and its
    synchronisation target still at the height the scripted peer announced"""
    if p.get("corr") or p.get("code") != 4 or p.get("family") != "c11":
        return False
    d = (p.get("record") or {}).get("data") or {}
    if d.get("scenario") not in ("stale-target-peer-gone", "race/stale-target-peer-gone"):
        return False
    b, b0, a, ref = d.get("B") or {}, d.get("B_before") or {}, d.get("A") or {}, d.get("reference") or {}
    return (d.get("timed_out") is True and d.get("synced") is False and not d.get("crashed")
            and not d.get("race_report") and not d.get("deadlock_report")
            and (d.get("faults_injected") or {}).get("gone") == 1 and (d.get("faults_injected") or {}).get("served") == 0
            and b.get("Top") and b.get("Top") == b0.get("Top") and a.get("Top") == ref.get("Top")
            and d.get("sync_target_height", 0) > max(b.get("Height", 0), a.get("Height", 0)))

