#!/usr/bin/env python3
"""Confirm a seeded mutation in a scratch worktree: build + repository tests with the change, demonstration with and
without the change. usage: seed_confirm.py <seeded dir name>   (writes 'confirmation' into its meta.json)"""
import json, os, re, subprocess, sys
name = sys.argv[1]
D = f"/verif/seeded/{name}"
ID, M = name.split("-")
REPO = os.environ.get("SEEDEVAL_DIR", "/tmp/seedeval") + "/repo"
env = dict(os.environ, GOFLAGS="-mod=mod", GOPROXY="off")
def sh(c, timeout=1800):
    p = subprocess.run(c, shell=True, cwd=REPO, env=env, capture_output=True, text=True, timeout=timeout)
    return p.returncode, p.stdout + p.stderr
meta = json.load(open(f"{D}/meta.json"))
cmd = meta["demo_cmd"]
OVERRIDE = {
 "C15-m1": "cp {D}/demo_c15_m1_test.go blockchain/ && go test -vet=off -count=1 -tags 'verif testnet unittest c15demo' -run TestC15M1 -v ./blockchain",
 "C15-m2": "cp {D}/demo_c15_m2_test.go blockchain/ && go test -vet=off -count=1 -tags 'testnet c15demo' -run TestC15M2 -v ./blockchain",
 "C14-m2": "mkdir -p seeded_out && rm -rf seeded_out/m2 && cp -r {D} seeded_out/m2 && sh seeded_out/m2/run_demo.sh",
}
if name in OVERRIDE:
    cmd = OVERRIDE[name].format(D=D)
cmd = re.split(r"\s+#", cmd)[0]
cmd = re.sub(r"^cd \S+ && ", "", cmd)
cmd = cmd.split("   (")[0]                      # trailing explanation in parentheses
main = cmd.split(" ; rm ")[0]
inplace = "seeded_out/" in main and name not in OVERRIDE   # the demonstration refers to its files in place: a copy is put there
if not inplace and name not in OVERRIDE:
    main = main.replace(f"seeded_out/{M}/", f"{D}/")
created = re.findall(r"cp \S+ (\S+)", main)
import shutil
def place():
    if inplace:
        os.makedirs(f"{REPO}/seeded_out", exist_ok=True)
        shutil.rmtree(f"{REPO}/seeded_out/{M}", ignore_errors=True)
        shutil.copytree(D, f"{REPO}/seeded_out/{M}")
def clean():
    sh("git checkout -- . && git clean -fdq")
def verdict(out):
    if re.search(r"^(--- FAIL|FAIL|VIOLATION)", out, flags=re.M): return "FAIL"
    if re.search(r"^(ok|PASS|OK:)", out, flags=re.M): return "PASS"
    return "UNKNOWN"
sh(f"git checkout -q --detach $(git -C /repo rev-parse HEAD)"); clean()
place(); rc0, out0 = sh(main); v0 = verdict(out0); clean()
rca, _ = sh(f"git apply {D}/patch.diff")
rcb, outb = sh("go build ./...")
shutil.rmtree(f"{REPO}/seeded_out", ignore_errors=True)
rct, outt = sh("go test -vet=off -count=1 ./... 2>&1 | grep -v '^ok\\|no test files\\|ld: \\|^# ' ")
place(); rc1, out1 = sh(main); v1 = verdict(out1); clean()
tests_fail = [l for l in outt.splitlines() if l.startswith(("FAIL", "--- FAIL", "panic"))]
only_teststate = all(("blockchain" in l or "TestState" in l or l.strip() == "FAIL") for l in tests_fail)
meta["confirmation"] = {"demo_on_unchanged_tree": v0, "demo_with_change": v1, "patch_applies": rca == 0, "builds": rcb == 0,
    "repository_tests_with_change": "all pass except blockchain/TestState (fails on the unchanged tree too)" if only_teststate else outt[-600:],
    "commands": [main, "git apply patch.diff && go build ./... && go test -vet=off -count=1 ./..."],
    "demo_with_change_excerpt": "\n".join([l for l in out1.splitlines() if "FAIL" in l or "VIOLATION" in l or "Error" in l or "_test.go" in l][:6])[:900]}
json.dump(meta, open(f"{D}/meta.json", "w"), indent=1)
print(name, "unchanged:", v0, "| with change:", v1, "| builds:", rcb == 0, "| tests ok:", only_teststate)
