#!/bin/sh
# Re-evaluate every seeded change against the current checks (isolated clone /tmp/seedeval/{verif,repo}; /repo itself is
# never modified). usage: tools/seed_regress.sh [ids...]   (default: all of /verif/seeded)
EV=${SEEDEVAL_DIR:-/tmp/seedeval}
export SEEDEVAL_DIR=$EV
[ -d $EV/verif ] || { mkdir -p $EV && git clone -q /verif $EV/verif; }
[ -d $EV/repo ] || git -C /repo worktree add --detach $EV/repo HEAD
cd $EV/verif && git fetch -q origin && git reset -q --hard origin/main && python3 run_check.py --setup >/dev/null 2>&1
ids="$@"
[ -z "$ids" ] && ids=$(ls /verif/seeded)
for d in $ids; do
  id=${d%-*}; m=${d#*-}
  props=$(python3 - "$d" <<'PY'
import json,sys
m=json.load(open(f"/verif/seeded/{sys.argv[1]}/meta.json"))
ps=[m["property"]]+[p for p in m.get("evaluation",{}).get("checks",{}) if p!=m["property"]]
extra={"C08-m2":["C04","C05"],"C12-m2":["C05"],"C09-m2":["C05"],"C10-m1":["C17"],"C17-m1":["C10"],"C17-m2":["C10"],"C11-m2":["C10","C03"],"C16-m2":["C13"],"C19-m2":["C13"],"C07-m2":["C01"],"C20-m2":["C05"]}
for p in extra.get(sys.argv[1],[]):
    if p not in ps: ps.append(p)
print(",".join(ps))
PY
)
  echo "=== $d ($props) $(date +%T)"
  python3 /verif/tools/seed_eval.py $id $m $props --skip-confirm | python3 -c "import json,sys; r=json.load(sys.stdin); print(r['id'], 'DETECTED BY', r['detected_by'])"
done
echo ALLDONE
