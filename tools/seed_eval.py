#!/usr/bin/env python3
"""Evaluate seeded mutations: for each /tmp/seed/<ID>/seeded_out/<m>/ (patch.diff, demo, meta.json)
   1. copy it to /verif/seeded/<ID>-<m>/
   2. in a scratch worktree: apply, build, run the repository's tests, run the demo with and without the change
   3. run the registered quick checks of the listed properties against the mutated scratch repo (isolated clone of
      /verif with VERIF_REPO), record which report VIOLATION.
usage: seed_eval.py <ID> <m> <props comma list> [--skip-confirm]"""
import json, os, re, shutil, subprocess, sys, time
ID, M, PROPS = sys.argv[1], sys.argv[2], sys.argv[3].split(",")
skip_confirm = "--skip-confirm" in sys.argv
SRC = f"/tmp/seed/{ID}/seeded_out/{M}"
DST = f"/verif/seeded/{ID}-{M}"
EV = os.environ.get("SEEDEVAL_DIR", "/tmp/seedeval")
REPO, VERIF = f"{EV}/repo", f"{EV}/verif"
env = dict(os.environ, GOFLAGS="-mod=mod", GOPROXY="off")

def sh(cmd, cwd=None, timeout=3600, e=None):
    p = subprocess.run(cmd, shell=True, cwd=cwd, env=e or env, capture_output=True, text=True, timeout=timeout)
    return p.returncode, (p.stdout + p.stderr)

os.makedirs(DST, exist_ok=True)
for f in (os.listdir(SRC) if os.path.isdir(SRC) else []):
    if not os.path.exists(os.path.join(DST, f)):     # keep what is already there (meta.json carries the confirmation)
        shutil.copy(os.path.join(SRC, f), os.path.join(DST, f))
meta = json.load(open(os.path.join(DST, "meta.json")))
res = {"id": f"{ID}-{M}", "property": ID, "ran": []}

# fresh scratch repo state
sh("git checkout -- . && git clean -fdq -e seeded_out", cwd=REPO)
sh(f"git -C {REPO} checkout -q --detach $(git -C /repo rev-parse HEAD)")
patch = os.path.join(DST, "patch.diff")

if not skip_confirm:
    demo_cmd = meta.get("demo_cmd", "")
    # run demo without the change (must pass), then with (must fail)
    def run_demo():
        c = demo_cmd.replace(f"/tmp/seed/{ID}", REPO).replace("seeded_out/" + M, DST)
        c = re.sub(r"^cd \S+ && ", "", c)
        return sh("export GOFLAGS=-mod=mod GOPROXY=off; " + c, cwd=REPO, timeout=1800)
    rc0, out0 = run_demo()
    sh("git checkout -- . && git clean -fdq", cwd=REPO)
    rca, outa = sh(f"git apply {patch}", cwd=REPO)
    rcb, outb = sh("go build ./...", cwd=REPO)
    rct, outt = sh("go test -vet=off -count=1 ./... 2>&1 | grep -v '^ok\\|no test files' | head -20", cwd=REPO, timeout=1800)
    rc1, out1 = run_demo()
    sh("git checkout -- . && git clean -fdq", cwd=REPO)
    res["confirm"] = {"demo_without_change_rc": rc0, "demo_with_change_rc": rc1, "apply_rc": rca, "build_rc": rcb,
                      "tests_not_ok": outt.strip()[-1500:], "demo_with_change_tail": out1[-800:], "demo_without_tail": out0[-300:]}
    res["ran"] += [demo_cmd, "git apply patch.diff; go build ./...; go test -vet=off -count=1 ./..."]

# checks against the mutated tree
rc_apply, out_apply = sh(f"git apply {patch}", cwd=REPO)
if rc_apply != 0:
    print(json.dumps({"id": f"{ID}-{M}", "detected_by": ["PATCH-DOES-NOT-APPLY"], "error": out_apply[-400:]}))
    sys.exit(0)
res["checks"] = {}
for p in PROPS:
    t0 = time.time()
    rc, out = sh(f"VERIF_REPO={REPO} python3 {VERIF}/run_check.py {p} quick", timeout=3000)
    lines = [l for l in out.splitlines() if l.startswith(("VIOLATION", "KNOWN-FINDING", "OK "))]
    res["checks"][p] = {"rc": rc, "lines": [l[:300] for l in lines][:8], "wall_s": round(time.time() - t0)}
    # keep the first replay for the record
    m = re.search(r"VIOLATION property=\S+ replay=(\S+)", out)
    if m and os.path.exists(m.group(1)):
        try:
            r = json.load(open(m.group(1)))
            res["checks"][p]["first_replay"] = {k: r.get(k) for k in ("kind", "code", "config", "family", "what", "theorem")}
        except Exception:
            pass
    res["ran"].append(f"git apply patch.diff (scratch worktree of /repo HEAD); VERIF_REPO=<scratch> python3 run_check.py {p} quick")
sh("git checkout -- . && git clean -fdq", cwd=REPO)
res["detected_by"] = [p for p, v in res["checks"].items() if any(l.startswith("VIOLATION") for l in v["lines"])]
meta.update({"evaluation": res})
json.dump(meta, open(os.path.join(DST, "meta.json"), "w"), indent=1)
print(json.dumps({"id": res["id"], "detected_by": res["detected_by"], "confirm": res.get("confirm", {}).get("demo_with_change_rc"),
                  "demo_clean": res.get("confirm", {}).get("demo_without_change_rc"), "checks": {p: v["lines"][:2] for p, v in res["checks"].items()}}, indent=1))
