#!/usr/bin/env python3
"""debug aid: evaluate C15's checkers on a harness output directory and print the disagreeing cases.
usage: tools/dbg_c15.py <outdir> [config]"""
import glob, json, os, re, subprocess, sys
ROOT = os.path.dirname(os.path.dirname(os.path.abspath(__file__)))
out = sys.argv[1]
cfg = sys.argv[2] if len(sys.argv) > 2 else "unittest"
HEADER = """From Coq Require Import NArith List Uint63.
Import ListNotations.
From Virel Require Import Lib.Config Lib.CheckLib Gen.Params Model.Stratum Check.C15.
Open Scope N_scope.
"""
for f in sorted(glob.glob(os.path.join(out, "*.cases"))):
    name = os.path.basename(f)[:-6]
    fam, k = name.rsplit("_", 1)
    recs = [json.loads(l) for l in open(os.path.join(out, fam + ".records.jsonl"))]
    meta = json.load(open(os.path.join(out, fam + ".meta.json")))
    v = os.path.join(ROOT, "coq", "cases", "dbg_" + name + ".v")
    os.makedirs(os.path.dirname(v), exist_ok=True)
    open(v, "w").write(HEADER + open(f).read() + f"\nDefinition bc := Eval vm_compute in c15_bad_corr cfg_{cfg} cases.\nDefinition bp := Eval vm_compute in c15_bad_prop cfg_{cfg} cases.\nPrint bc.\nPrint bp.\n")
    p = subprocess.run(f"timeout 600 coqc -Q . Virel -w -notation-overridden cases/dbg_{name}.v", shell=True, cwd=os.path.join(ROOT, "coq"), capture_output=True, text=True)
    o = p.stdout + p.stderr
    m = re.search(r"bc\s*=\s*(.*?)\n\s*:\s*list", o, re.S)
    if not m:
        print(o[-2000:]); continue
    idx = [int(x) for x in re.findall(r"\d+", m.group(1))]
    m2 = re.search(r"bp\s*=\s*(.*?)\n\s*:\s*list", o, re.S)
    print(name, "bad_corr", idx, "bad_prop", re.findall(r"\((\d+),\s*(\d+)\)", m2.group(1)))
    for i in idx[:int(os.environ.get("N", "3"))]:
        r = recs[int(k) * meta["shard_size"] + i]
        print("  ", r["data"]["script"]); print("    " + "\n    ".join(r["data"]["steps"])); print("   ", r["term"])
    for ext in (".vo", ".vok", ".vos", ".glob", ".v"):
        try: os.remove(v[:-2] + ext)
        except OSError: pass
