#!/usr/bin/env python3
"""debug aid: evaluate one .cases shard of the ledger family and print per-history details"""
import subprocess, sys, os
shard = sys.argv[1]
extra = sys.argv[2] if len(sys.argv) > 2 else ""
hdr = """From Coq Require Import NArith List Uint63.
Import ListNotations.
From Virel Require Import Lib.Config Lib.CheckLib Lib.AMap Gen.Params Model.Ledger Model.Node Check.Hist Check.C01 Check.C03 Spec.WellFormed.
Open Scope N_scope.
"""
tr = """
Definition corr := Eval vm_compute in map (hist_corr cfg_verifnet) cases.
Print corr.
Definition c03 := Eval vm_compute in map (c03_hist cfg_verifnet) cases.
Print c03.
Definition c01 := Eval vm_compute in map (c01_hist cfg_verifnet) cases.
Print c01.
""" + extra
open("/verif/coq/cases/dbg.v", "w").write(hdr + open(shard).read() + tr)
p = subprocess.run("coqc -Q . Virel cases/dbg.v", shell=True, cwd="/verif/coq", capture_output=True, text=True)
print(p.stdout[-6000:], p.stderr[-3000:])
