#!/bin/sh
# C15, exploration (not proof): 8 concurrent miners on the real stratum server, built with the Go race detector.
# usage: tools/c15_race.sh [repo] [outdir]      prints the harness' counters and the number of data races reported
REPO=${1:-${VERIF_REPO:-/repo}}
OUT=${2:-/tmp/c15_race}
cd "$(dirname "$0")/../harness" || exit 2
export GOFLAGS=-mod=mod GOPROXY=off
cp "$REPO/go.sum" . && go mod edit -replace github.com/virel-project/virel-blockchain/v3="$REPO"
mkdir -p "$OUT"
timeout 900 go build -race -tags verif,unittest -o "$OUT/stratum_race" ./cmd/stratum || exit 2
GORACE="halt_on_error=0" timeout 900 "$OUT/stratum_race" c15race "$OUT" > "$OUT/race.log" 2>&1
grep -A14 '^{' "$OUT/race.log"
echo "data races reported: $(grep -c 'WARNING: DATA RACE' "$OUT/race.log")"
