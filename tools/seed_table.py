#!/usr/bin/env python3
"""Regenerate the 'seeded changes' table of DESIGN.md (between the SEED-TABLE markers) from seeded/*/meta.json."""
import json, os, re, glob
ROOT = os.path.dirname(os.path.dirname(os.path.abspath(__file__)))
rows = []
for d in sorted(glob.glob(f"{ROOT}/seeded/C*-m*")):
    name = os.path.basename(d)
    try:
        m = json.load(open(f"{d}/meta.json"))
    except Exception:
        continue
    ev = m.get("evaluation", {})
    conf = m.get("confirmation", {})
    files = m.get("files_touched") or []
    if isinstance(files, str): files = [files]
    checks = ev.get("checks", {})
    det = ev.get("detected_by", [])
    ran = list(checks.keys())
    how = []
    for p in det:
        fr = checks[p].get("first_replay") or {}
        k = fr.get("kind") or ""
        c = fr.get("code")
        how.append(f"{p} ({k}{' code ' + str(c) if c not in (None, '') else ''})".replace(" ()", ""))
    summ = re.sub(r"\s+", " ", m.get("summary", "")).strip()
    if len(summ) > 230: summ = summ[:227] + "..."
    confirmed = "yes" if conf.get("demo_with_change") == "FAIL" and conf.get("demo_on_unchanged_tree") == "PASS" and conf.get("builds") else "see meta"
    rows.append((name, ", ".join(os.path.basename(f) for f in files[:3]), summ.replace("|", "/"), confirmed,
                 (", ".join(how) if how else ("neutralised by a later fix (see meta)" if m.get("neutralised") else "**none**")), ", ".join(p for p in ran if p not in det) or "-"))
out = ["| id | file(s) | change | demo confirmed | detected by (quick tier) | also run, silent |", "|---|---|---|---|---|---|"]
out += ["| " + " | ".join(r) + " |" for r in rows]
out.append("")
out.append(f"{len(rows)} seeded changes, {sum(1 for r in rows if r[4] != '**none**' and not r[4].startswith('neutralised'))} detected by at least one registered quick check; {sum(1 for r in rows if r[4].startswith('neutralised'))} no longer changes behaviour after a later repair.")
txt = "\n".join(out)
p = f"{ROOT}/DESIGN.md"
s = open(p).read()
a, b = "<!-- SEED-TABLE-BEGIN -->", "<!-- SEED-TABLE-END -->"
if a in s:
    s = s[:s.index(a) + len(a)] + "\n" + txt + "\n" + s[s.index(b):]
    open(p, "w").write(s)
print(txt)
