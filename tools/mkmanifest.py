#!/usr/bin/env python3
"""Regenerates /verif/MANIFEST.json from registry.py (claimed checks) and properties.jsonl."""
import json, os, subprocess, sys
ROOT = os.path.dirname(os.path.dirname(os.path.abspath(__file__)))
sys.path.insert(0, ROOT)
from registry import PROPS, NOT_APPLICABLE  # noqa
props = [json.loads(l) for l in open(os.path.join(ROOT, "properties.jsonl"))]
hooks = subprocess.run("git -C /repo log --format=%H --grep='^verif hook' --reverse", shell=True, capture_output=True, text=True).stdout.split()
checks = []
for p in props:
    pid = p["id"]
    if pid not in PROPS:
        continue
    s = PROPS[pid]
    checks.append({
        "property_id": pid,
        "quick_cmd": f"python3 /verif/run_check.py {pid} quick",
        "thorough_cmd": f"python3 /verif/run_check.py {pid} thorough",
        "evidence_file": f"/verif/evidence/{pid}.json",
        "replay_cmd_template": f"python3 /verif/run_check.py {pid} --replay {{path}}",
        "engine": "coq-proof+correspondence",
        "level_claimed": {"category": "proof", "text": s["level_text"], "design_ref": s.get("design_ref", "DESIGN.md section 6")},
        "level_note": s["level_note"],
        "technique": s["technique"],
    })
m = {
    "version": 1,
    "setup_cmd": "python3 /verif/run_check.py --setup",
    "hooks": {"guard": "verif",
              "enable": "go build -tags verif[,testnet|,unittest] from /verif/harness (go.mod replaces the repository module by /repo)",
              "baseline_off_cmd": "cd /repo && GOFLAGS=-mod=mod GOPROXY=off go test -vet=off -count=1 ./...",
              "source_commits": hooks, "add_only": True},
    "engines": [{"name": "coq-proof+correspondence", "path": "/verif/run_check.py",
                 "serves_properties": sorted(PROPS),
                 "kind_free_text": "Coq 8.16 theorems over Gallina models (coq/), constants regenerated from /repo by harness/cmd/paramdump, differential correspondence of the executable model against the Go implementation evaluated with vm_compute"}],
    "checks": checks,
    "not_applicable": [{"property_id": p["id"], "reason": NOT_APPLICABLE.get(p["id"], "check not built yet (work in progress; see DESIGN.md section 11)")} for p in props if p["id"] not in PROPS],
    "notes": "Machine-checked proof in Coq 8.16.1 over hand-written Gallina models tied to /repo by a constants translator and a differential correspondence check. See DESIGN.md.",
}
json.dump(m, open(os.path.join(ROOT, "MANIFEST.json"), "w"), indent=1)
print("claimed:", [c["property_id"] for c in checks])
