module verifharness

go 1.24.0

require (
	github.com/PowerDNS/lmdb-go v1.9.3
	github.com/tyler-smith/go-bip39 v1.1.0
	github.com/virel-project/go-randomvirel v1.1.5
	github.com/virel-project/virel-blockchain/v3 v3.0.0
	github.com/zeebo/blake3 v0.2.4
)

require (
	github.com/klauspost/cpuid/v2 v2.3.0 // indirect
	github.com/petermattis/goid v0.0.0-20250721140440-ea1c0173183e // indirect
	github.com/sasha-s/go-deadlock v0.3.5 // indirect
	golang.org/x/crypto v0.40.0 // indirect
	golang.org/x/sys v0.34.0 // indirect
	golang.org/x/term v0.33.0 // indirect
)

replace github.com/virel-project/virel-blockchain/v3 => /repo
