// Package coqgen prints Gallina terms for the cases files evaluated by coqc.
package coqgen

import (
	"bufio"
	"encoding/json"
	"fmt"
	"os"
	"path/filepath"
	"strings"
)

func N(u uint64) string { return fmt.Sprintf("%d", u) }

func Bool(b bool) string {
	if b {
		return "true"
	}
	return "false"
}

func List(items []string) string { return "[" + strings.Join(items, "; ") + "]" }

func Some(s string) string { return "(Some " + s + ")" }

func Pair(a, b string) string { return "(" + a + ", " + b + ")" }

// PackBytes packs a byte string seven bytes per Uint63 literal (little endian inside the word);
// the Coq side (Lib/Pack.v) unpacks it given the length.
func PackBytes(b []byte) string {
	var sb strings.Builder
	sb.WriteString(fmt.Sprintf("(mkpacked %d [", len(b)))
	for i := 0; i < len(b); i += 7 {
		var w uint64
		for j := 0; j < 7 && i+j < len(b); j++ {
			w |= uint64(b[i+j]) << (8 * uint(j))
		}
		if i > 0 {
			sb.WriteString("; ")
		}
		sb.WriteString(fmt.Sprintf("%d%%uint63", w))
	}
	sb.WriteString("])")
	return sb.String()
}

// Sink collects cases and writes them as shards "<dir>/<name>_<k>.cases".
type Sink struct {
	Dir       string
	Name      string
	Type      string // Coq type of one case
	ShardSize int
	cases     []string
	Meta      map[string]any
	classes   map[string]int
	samples   []any
	records   []string
	Prelude   string // optional vernacular written at the top of every shard (definitions shared by the cases)
}

func NewSink(dir, name, typ string, shard int) *Sink {
	os.MkdirAll(dir, 0o755)
	return &Sink{Dir: dir, Name: name, Type: typ, ShardSize: shard, Meta: map[string]any{}, classes: map[string]int{}}
}

// Add appends one case; class is the (shape, outcome) class used for the distinct_nontrivial count
// ("" = trivial); sample, when non-nil, is kept (first few per class) for the evidence file.
func (s *Sink) Add(term string, class string, sample any) {
	s.cases = append(s.cases, term)
	rec, _ := json.Marshal(map[string]any{"class": class, "term": term, "data": sample})
	s.records = append(s.records, string(rec))
	if class != "" {
		s.classes[class]++
		if s.classes[class] == 1 && len(s.samples) < 12 && sample != nil {
			s.samples = append(s.samples, sample)
		}
	}
}

func (s *Sink) Len() int { return len(s.cases) }

func (s *Sink) Close() error {
	nsh := 0
	for off := 0; off < len(s.cases) || nsh == 0; off += s.ShardSize {
		end := off + s.ShardSize
		if end > len(s.cases) {
			end = len(s.cases)
		}
		f, err := os.Create(filepath.Join(s.Dir, fmt.Sprintf("%s_%d.cases", s.Name, nsh)))
		if err != nil {
			return err
		}
		w := bufio.NewWriter(f)
		w.WriteString(s.Prelude)
		nch := 0
		for c := off; c < end || nch == 0; c += 50 {
			e := c + 50
			if e > end {
				e = end
			}
			fmt.Fprintf(w, "Definition chunk_%d : list %s := [\n", nch, s.Type)
			for i := c; i < e; i++ {
				if i > c {
					w.WriteString(";\n")
				}
				w.WriteString(s.cases[i])
			}
			w.WriteString("].\n")
			nch++
		}
		fmt.Fprintf(w, "Definition cases : list %s := ", s.Type)
		for i := 0; i < nch; i++ {
			if i > 0 {
				w.WriteString(" ++ ")
			}
			fmt.Fprintf(w, "chunk_%d", i)
		}
		w.WriteString(".\n")
		w.Flush()
		f.Close()
		nsh++
	}
	if err := os.WriteFile(filepath.Join(s.Dir, s.Name+".records.jsonl"), []byte(strings.Join(s.records, "\n")+"\n"), 0o644); err != nil {
		return err
	}
	s.Meta["evaluations"] = len(s.cases)
	s.Meta["shards"] = nsh
	s.Meta["shard_size"] = s.ShardSize
	s.Meta["classes"] = s.classes
	s.Meta["distinct_nontrivial"] = len(s.classes)
	s.Meta["samples"] = s.samples
	b, _ := json.MarshalIndent(s.Meta, "", " ")
	return os.WriteFile(filepath.Join(s.Dir, s.Name+".meta.json"), b, 0o644)
}
