// Package memdb is an in-memory implementation of the repository's adb.DB interface used by the
// verification harness: byte-ordered iteration, all-or-nothing Update (a failing Update leaves no trace by
// construction), snapshots, and a commit counter/log.
package memdb

import (
	"bytes"
	"sort"
	"sync"

	"github.com/virel-project/virel-blockchain/v3/adb"
)

type table map[string][]byte

type DB struct {
	mu      sync.Mutex
	data    map[string]table
	Commits int              // number of successful Update calls that changed nothing or something
	OnCommit func(db *DB)    // called after every successful Update (with the lock released)
}

func New() *DB { return &DB{data: map[string]table{}} }

func (d *DB) Index(name string) adb.Index {
	d.mu.Lock()
	defer d.mu.Unlock()
	if d.data[name] == nil {
		d.data[name] = table{}
	}
	return name
}

func cloneData(src map[string]table) map[string]table {
	out := make(map[string]table, len(src))
	for n, t := range src {
		nt := make(table, len(t))
		for k, v := range t {
			nt[k] = v // values are never mutated in place (Get returns copies, Put stores copies)
		}
		out[n] = nt
	}
	return out
}

// Snapshot returns an independent copy of the database.
func (d *DB) Snapshot() *DB {
	d.mu.Lock()
	defer d.mu.Unlock()
	return &DB{data: cloneData(d.data)}
}

// Dump returns index -> sorted (key,value) pairs.
func (d *DB) Dump() map[string][][2][]byte {
	d.mu.Lock()
	defer d.mu.Unlock()
	out := map[string][][2][]byte{}
	for n, t := range d.data {
		keys := make([]string, 0, len(t))
		for k := range t {
			keys = append(keys, k)
		}
		sort.Strings(keys)
		for _, k := range keys {
			out[n] = append(out[n], [2][]byte{[]byte(k), t[k]})
		}
	}
	return out
}

// Equal compares two databases key by key.
func Equal(a, b *DB) bool {
	da, db := a.Dump(), b.Dump()
	for n := range da {
		if len(da[n]) != len(db[n]) {
			return false
		}
	}
	for n := range db {
		if len(da[n]) != len(db[n]) {
			return false
		}
		for i := range db[n] {
			if !bytes.Equal(da[n][i][0], db[n][i][0]) || !bytes.Equal(da[n][i][1], db[n][i][1]) {
				return false
			}
		}
	}
	return true
}

type txn struct {
	data map[string]table
	ro   bool
}

func (d *DB) View(f func(t adb.Txn) error) error {
	d.mu.Lock()
	snap := d.data
	d.mu.Unlock()
	// readers see the committed state; Update replaces d.data wholesale, never mutates it
	return f(&txn{data: snap, ro: true})
}

func (d *DB) Update(f func(t adb.Txn) error) error {
	d.mu.Lock()
	work := cloneData(d.data)
	d.mu.Unlock()
	err := f(&txn{data: work})
	if err != nil {
		return err
	}
	d.mu.Lock()
	d.data = work
	d.Commits++
	cb := d.OnCommit
	d.mu.Unlock()
	if cb != nil {
		cb(d)
	}
	return nil
}

func (d *DB) Close() error { return nil }

func (t *txn) tab(i adb.Index) table {
	n := i.(string)
	if t.data[n] == nil {
		t.data[n] = table{}
	}
	return t.data[n]
}

func (t *txn) Get(i adb.Index, k []byte) []byte {
	v, ok := t.tab(i)[string(k)]
	if !ok {
		return nil
	}
	return append([]byte{}, v...)
}

func (t *txn) Put(i adb.Index, k []byte, v []byte) error {
	if t.ro {
		panic("memdb: Put in read-only transaction")
	}
	t.tab(i)[string(k)] = append([]byte{}, v...)
	return nil
}

func (t *txn) Del(i adb.Index, k []byte) error {
	if t.ro {
		panic("memdb: Del in read-only transaction")
	}
	delete(t.tab(i), string(k))
	return nil
}

func (t *txn) sortedKeys(i adb.Index) []string {
	tab := t.tab(i)
	keys := make([]string, 0, len(tab))
	for k := range tab {
		keys = append(keys, k)
	}
	sort.Strings(keys)
	return keys
}

func (t *txn) ForEach(i adb.Index, f func(k, v []byte) error) error {
	tab := t.tab(i)
	for _, k := range t.sortedKeys(i) {
		if err := f([]byte(k), append([]byte{}, tab[k]...)); err != nil {
			return err
		}
	}
	return nil
}

func (t *txn) ForEachInterrupt(i adb.Index, f func(k, v []byte) (bool, error)) error {
	tab := t.tab(i)
	for _, k := range t.sortedKeys(i) {
		stop, err := f([]byte(k), append([]byte{}, tab[k]...))
		if err != nil {
			return err
		}
		if stop {
			return nil
		}
	}
	return nil
}

func (t *txn) Entries(i adb.Index) (uint64, error) { return uint64(len(t.tab(i))), nil }
