package main

// Family c12ss: the stratum SERVER's per-connection handler (blockchain.handleConn through the hook
// VerifHandleStratumConn) fed whole lines over net.Pipe, on a real Blockchain over the in-memory store.
//
// One case = one connection.  phase 0: the line under test is the first line of the connection (where a login
// is expected).  phase 1: a valid login first, then the line under test (it may quote the job id and the
// mining blob of the login response).  In both phases a "keepalived" probe with a unique id follows the line under
// test: the connection survived the line iff the probe is answered.  Observed: panic or not, connection kept or
// dropped, number of response lines the line under test produced, whether the first of them carries a result.
// Everything is synchronised by the protocol itself (net.Pipe is unbuffered, the handler is sequential): there
// are no sleeps; the guard timeout only classifies a handler that never returns.
// The JSON layer is not modelled: every line is decoded by the harness with encoding/json into mirror structures
// (custom-typed fields kept as raw tokens); the Coq model decides from there (method, Hex.UnmarshalJSON, nonce
// hex and length, job known or not, mining-blob decoder, Block.setMiningBlob, address parser for the login).

import (
	"bufio"
	"bytes"
	"encoding/hex"
	"encoding/json"
	"fmt"
	"net"
	"runtime"
	"strings"
	"sync"
	"time"

	"verifharness/coqgen"
	"verifharness/hutil"
	"verifharness/memdb"

	"github.com/virel-project/go-randomvirel"
	"github.com/virel-project/virel-blockchain/v3/adb"
	"github.com/virel-project/virel-blockchain/v3/address"
	"github.com/virel-project/virel-blockchain/v3/bitcrypto"
	"github.com/virel-project/virel-blockchain/v3/block"
	"github.com/virel-project/virel-blockchain/v3/blockchain"
	"github.com/virel-project/virel-blockchain/v3/config"
	"github.com/virel-project/virel-blockchain/v3/p2p"
	"github.com/virel-project/virel-blockchain/v3/rpc"
	"github.com/virel-project/virel-blockchain/v3/stratum/stratumsrv"
)

func init() {
	families["c12ss"] = c12ss
	families["c12ss-child"] = func(string) {
		ss := ssSessions()
		w := newSSWorld()
		isoChild(len(ss), func(i int) any { return w.run(i, ss[i]) })
	}
}

// ---------------------------------------------------------------- world

// ssDB serialises Update calls the way LMDB serialises writers (AddBlock starts NewStratumJob, itself an Update).
type ssDB struct {
	*memdb.DB
	wmu sync.Mutex
}

func (d *ssDB) Update(f func(t adb.Txn) error) error {
	d.wmu.Lock()
	defer d.wmu.Unlock()
	return d.DB.Update(f)
}

type ssAddr string

func (a ssAddr) Network() string { return "pipe" }
func (a ssAddr) String() string  { return string(a) }

type ssConn struct {
	net.Conn
	name string
}

func (c ssConn) RemoteAddr() net.Addr { return ssAddr(c.name) }

type ssWorld struct {
	bc *blockchain.Blockchain
}

func ssWallet() string { return address.FromPubKey(bitcrypto.Pubkey{1, 2, 3}).Integrated().String() }

func newSSWorld() *ssWorld {
	blockchain.Log.SetLogLevel(0)
	randomvirel.InitHash(2, false)
	bc := blockchain.New("/nonexistent-verif-datadir", &ssDB{DB: memdb.New()})
	bc.P2P = &p2p.P2P{Connections: map[string]*p2p.Connection{}}
	bc.NewStratumJob(true) // first template
	if bc.Stratum.LastBlock == nil {
		panic("no block template")
	}
	return &ssWorld{bc: bc}
}

// ---------------------------------------------------------------- sessions

// ssJob is what the login response told the miner.
type ssJob struct {
	id   string
	blob block.MiningBlob
}

type ssSession struct {
	gen, shape string
	phase      int
	mk         func(j ssJob) string // the line under test
}

func ssLoginLine(login tok) string {
	return jobj(jf("id", jraw("1", "num")), jf("jsonrpc", jstr("2.0")), jf("method", jstr("login")),
		jf("params", jraw(jobj(jf("login", login), jf("pass", jstr("x")), jf("agent", jstr("verif/1.0")), jf("algo", jraw(`["rx/vrl"]`, "arr"))), "obj")))
}

func ssSubmitParams(j ssJob, r *hutil.Rng) []jfield {
	return []jfield{jf("id", jstr("client1")), jf("job_id", jstr(j.id)), jf("nonce", jstr(hexOf(r.Bytes(4)))), jf("result", jstr(hexOf(r.Bytes(32))))}
}

func ssEnv(method string, params tok) []jfield {
	return []jfield{jf("id", jraw("2", "num")), jf("jsonrpc", jstr("2.0")), jf("method", jstr(method)), jf("params", params)}
}

func ssSubmitLine(p []jfield) string { return jobj(ssEnv("submit", jraw(jobj(p...), "obj"))...) }

// blobs a miner would send in the blob field, derived from the blob of the job
func ssBlobVariants(r *hutil.Rng, j ssJob) []namedTok {
	own := j.blob
	ser := func(m block.MiningBlob) []byte { return m.Serialize() }
	with := func(chains ...block.HashingID) block.MiningBlob {
		m := own
		m.Chains = chains
		return m
	}
	var ownC block.HashingID
	for _, c := range own.Chains {
		if c.NetworkID == config.NETWORK_ID {
			ownC = c
		}
	}
	if ownC.NetworkID != config.NETWORK_ID {
		ownC = block.HashingID{NetworkID: config.NETWORK_ID}
	}
	hid := func(id uint64, tag byte) block.HashingID {
		h := block.HashingID{NetworkID: id}
		h.Hash[0], h.Hash[5] = tag, 0x77
		return h
	}
	lo, hi := config.NETWORK_ID-1, config.NETWORK_ID+1
	out := []namedTok{
		{"own", ser(own)},
		{"own+higher", ser(with(ownC, hid(hi, 1)))},
		{"lower+own", ser(with(hid(lo, 1), ownC))},
		{"lower+own+higher", ser(with(hid(lo, 1), ownC, hid(hi, 2)))},
		{"unsorted", ser(with(hid(hi, 1), ownC))},
		{"own-twice", ser(with(ownC, ownC))},
		{"other-id-twice", ser(with(ownC, hid(hi, 1), hid(hi, 2)))},
		{"other-hash-twice", ser(with(ownC, hid(hi, 1), hid(hi+1, 1)))},
		{"without-own", ser(with(hid(lo, 1), hid(hi, 2)))},
		{"foreign-only", ser(with(hid(hi, 3)))},
		{"own-other-hash", ser(with(block.HashingID{NetworkID: config.NETWORK_ID, Hash: [32]byte{9, 9}}))},
		{"zero-id-first", ser(with(hid(0, 1), ownC))},
	}
	{ // as many chains as allowed, and one more
		for _, n := range []int{config.MAX_MERGE_MINED_CHAINS, config.MAX_MERGE_MINED_CHAINS + 1} {
			cs := []block.HashingID{ownC}
			for k := 1; k < n; k++ {
				cs = append(cs, hid(config.NETWORK_ID+uint64(k), byte(k)))
			}
			out = append(out, namedTok{fmt.Sprintf("chains=%d", n), ser(with(cs...))})
		}
	}
	{ // another seed period (the proof of work is keyed by the blob's own timestamp)
		m := own
		m.Timestamp += 2 * config.SEEDHASH_DURATION * 1000
		out = append(out, namedTok{"later-seed-period", ser(m)})
		m.Timestamp = 0
		out = append(out, namedTok{"timestamp=0", ser(m)})
		m.Timestamp = ^uint64(0)
		out = append(out, namedTok{"timestamp=max", ser(m)})
	}
	b1 := ser(own)
	for n := 0; n <= len(b1)+6; n++ { // every length around the valid one
		v := append([]byte{}, b1...)
		if n <= len(v) {
			v = v[:n]
		} else {
			v = append(v, r.Bytes(n-len(v))...)
		}
		out = append(out, namedTok{fmt.Sprintf("bloblen=%d", n), v})
	}
	for _, c := range []uint64{1 << 31, 1<<31 - 1, 1 << 32, 1 << 62, 1 << 63, 1<<63 - 1, 1<<63 + 1, ^uint64(0), 0, 17, 255, 65536, 1 << 24} {
		v := append([]byte{}, b1...)
		for i := 0; i < 8; i++ {
			v[24+i] = byte(c >> (8 * uint(i)))
		}
		out = append(out, namedTok{fmt.Sprintf("count=%d", c), v})
		out = append(out, namedTok{fmt.Sprintf("count-trunc=%d", c), append([]byte{}, v[:43]...)})
	}
	v := append([]byte{}, b1...)
	v[33] ^= 0x40
	out = append(out, namedTok{"bad-entropy", v})
	return out
}

// addresses a miner would log in with
func ssLoginTexts(r *hutil.Rng) []tok {
	w := ssWallet()
	sub := address.Integrated{Addr: address.FromPubKey(bitcrypto.Pubkey{4, 5, 6}), PaymentId: 77}.String()
	mut := []byte(w)
	mut[len(mut)/2] ^= 1
	out := []tok{
		{w, "account"}, {sub, "account+payment-id"}, {"merge-mining:" + w, "merge:account"}, {"merge-mining:" + sub, "merge:account+payment-id"},
		{"merge-mining:", "merge:empty"}, {"merge-mining:" + string(mut), "merge:bad-checksum"}, {"merge-mining:merge-mining:" + w, "merge:twice"},
		{"Merge-Mining:" + w, "merge:case"}, {"merge-mining:burnaddress", "merge:burn"}, {"merge-mining:" + config.DELEGATE_ADDRESS_PREFIX + "5", "merge:delegate"},
		{"burnaddress", "burn"}, {config.DELEGATE_ADDRESS_PREFIX + "1", "delegate=1"}, {config.DELEGATE_ADDRESS_PREFIX + "0", "delegate=0"},
		{config.DELEGATE_ADDRESS_PREFIX, "delegate-prefix-only"}, {config.DELEGATE_ADDRESS_PREFIX + "18446744073709551615", "delegate=max"},
		{config.DELEGATE_ADDRESS_PREFIX + "18446744073709551616", "delegate=2^64"}, {config.DELEGATE_ADDRESS_PREFIX + "-1", "delegate=-1"},
		{string(mut), "bad-checksum"}, {strings.ToUpper(w), "upper"}, {w + "0", "one-more-digit"}, {" " + w, "leading-space"}, {w + " ", "trailing-space"},
		{"", "empty"}, {w[:1], "prefix-only"}, {w[:1] + "-" + w[2:], "minus"}, {w[:1] + "+" + w[1:], "plus"}, {w[:1] + strings.Repeat("0", 40), "zeros"},
		{w[:1] + strings.Repeat("z", 200), "z200"}, {w[:1] + strings.Repeat("z", 5000), "z5000"}, {string(r.Bytes(30)), "noise"},
		{"x" + w[1:], "other-prefix"}, {w[:1] + "_" + w[2:], "underscore"},
	}
	for k := 0; k < len(w); k += 3 { // truncations
		out = append(out, tok{w[:k], fmt.Sprintf("trunc=%d", k)})
	}
	return out
}

func ssSessions() []ssSession {
	r := hutil.NewRng(12200)
	thorough := hutil.Tier() == "thorough"
	var out []ssSession
	add0 := func(gen, shape, line string) {
		line = noNewline(line)
		out = append(out, ssSession{gen: gen, shape: shape, phase: 0, mk: func(ssJob) string { return line }})
	}
	add1 := func(gen, shape string, mk func(j ssJob) string) {
		out = append(out, ssSession{gen: gen, shape: shape, phase: 1, mk: func(j ssJob) string { return noNewline(mk(j)) }})
	}
	w := ssWallet()

	// ---- phase 0: the login line
	for _, t := range ssLoginTexts(r) {
		add0("login/address", t.shape, ssLoginLine(jstr(t.s)))
	}
	for _, t := range strToks(r, w) {
		add0("login/login", t.shape, ssLoginLine(t))
	}
	validLoginParams := func() []jfield {
		return []jfield{jf("login", jstr(w)), jf("pass", jstr("x")), jf("agent", jstr("verif/1.0")), jf("algo", jraw(`["rx/vrl"]`, "arr"))}
	}
	loginWith := func(params []jfield) string {
		return jobj(jf("id", jraw("1", "num")), jf("jsonrpc", jstr("2.0")), jf("method", jstr("login")), jf("params", jraw(jobj(params...), "obj")))
	}
	for _, f := range []string{"pass", "agent"} {
		for _, t := range strToks(r, "x") {
			t := t
			add0("login/"+f, t.shape, loginWith(replaceField(validLoginParams(), f, &t)))
		}
		add0("login/"+f, "missing", loginWith(replaceField(validLoginParams(), f, nil)))
	}
	add0("login/login", "missing", loginWith(replaceField(validLoginParams(), "login", nil)))
	for _, t := range []tok{{"null", "null"}, {"[]", "empty"}, {"[1]", "arr-num"}, {`"rx/vrl"`, "str"}, {"{}", "obj"}, {`["a",null]`, "arr-null"}, {`[["a"]]`, "arr-arr"},
		{"[" + strings.Repeat(`"a",`, 2000) + `"a"]`, "arr=2001"}} {
		t := t
		add0("login/algo", t.shape, loginWith(replaceField(validLoginParams(), "algo", &t)))
	}
	loginEnv := func() []jfield {
		return []jfield{jf("id", jraw("1", "num")), jf("jsonrpc", jstr("2.0")), jf("method", jstr("login")), jf("params", jraw(jobj(validLoginParams()...), "obj"))}
	}
	for _, t := range append(strToks(r, "login"), jstr("Login"), jstr("LOGIN"), jstr("submit"), jstr("keepalived"), jstr("getjob")) {
		t := t
		add0("login-env/method", t.shape+"/"+firstN(t.s, 12), jobj(replaceField(loginEnv(), "method", &t)...))
	}
	add0("login-env/method", "missing", jobj(replaceField(loginEnv(), "method", nil)...))
	for _, t := range append(wrongTypeToks(), jstr(w)) {
		t := t
		add0("login-env/params", t.shape, jobj(replaceField(loginEnv(), "params", &t)...))
	}
	add0("login-env/params", "missing", jobj(replaceField(loginEnv(), "params", nil)...))
	for _, t := range append(uintToks(), jstr("abc")) {
		t := t
		add0("login-env/id", t.shape, jobj(replaceField(loginEnv(), "id", &t)...))
	}
	add0("login-env/id", "missing", jobj(replaceField(loginEnv(), "id", nil)...))
	for _, t := range strToks(r, "2.0") {
		t := t
		add0("login-env/jsonrpc", t.shape, jobj(replaceField(loginEnv(), "jsonrpc", &t)...))
	}
	for _, t := range lineMalformations(r, ssLoginLine(jstr(w))) {
		add0("login-line", t.shape, t.s)
	}

	// ---- phase 1: one line after a valid login
	valid := func(j ssJob) []jfield { return ssSubmitParams(j, r) }
	for i := 0; i < 6; i++ {
		add1("submit", "valid", func(j ssJob) string { return ssSubmitLine(valid(j)) })
	}
	// nonce: a JSON string decoded by encoding/json, then hex.DecodeString, then at least 4 bytes
	for _, t := range hexToks(r, nil) {
		t := t
		add1("submit/nonce", t.shape, func(j ssJob) string { return ssSubmitLine(replaceField(valid(j), "nonce", &t)) })
		add1("submit-stale/nonce", t.shape, func(j ssJob) string {
			return ssSubmitLine(replaceField(replaceField(valid(j), "nonce", &t), "job_id", &tok{`"nosuchjob"`, ""}))
		})
	}
	add1("submit/nonce", "missing", func(j ssJob) string { return ssSubmitLine(replaceField(valid(j), "nonce", nil)) })
	// nonce_extra and blob: enc.Hex
	for _, t := range hexToks(r, nil) {
		t := t
		add1("submit/nonce_extra", t.shape, func(j ssJob) string { return ssSubmitLine(append(valid(j), jf("nonce_extra", t))) })
		add1("submit/blob", t.shape, func(j ssJob) string { return ssSubmitLine(append(valid(j), jf("blob", t))) })
	}
	nvar := len(ssBlobVariants(r, ssJob{blob: block.MiningBlob{Chains: []block.HashingID{{NetworkID: config.NETWORK_ID}}}}))
	for k := 0; k < nvar; k++ {
		k := k
		name := ssBlobVariants(hutil.NewRng(1), ssJob{blob: block.MiningBlob{Chains: []block.HashingID{{NetworkID: config.NETWORK_ID}}}})[k].name
		add1("submit/blob-bytes", name, func(j ssJob) string {
			bv := ssBlobVariants(hutil.NewRng(12201+uint64(k)), j)[k]
			return ssSubmitLine(append(valid(j), jf("blob", jstr(hexOf(bv.b)))))
		})
		if k%5 == 0 {
			add1("submit-stale/blob-bytes", name, func(j ssJob) string {
				bv := ssBlobVariants(hutil.NewRng(12201+uint64(k)), j)[k]
				return ssSubmitLine(append(replaceField(valid(j), "job_id", &tok{`"nosuchjob"`, ""}), jf("blob", jstr(hexOf(bv.b)))))
			})
		}
	}
	add1("submit/blob+nonce_extra", "both-valid", func(j ssJob) string {
		return ssSubmitLine(append(valid(j), jf("blob", jstr(hexOf(j.blob.Serialize()))), jf("nonce_extra", jstr(hexOf(r.Bytes(16))))))
	})
	for _, f := range []string{"job_id", "result", "id"} {
		for _, t := range strToks(r, "abc") {
			t, f := t, f
			add1("submit/"+f, t.shape, func(j ssJob) string { return ssSubmitLine(replaceField(valid(j), f, &t)) })
		}
		f := f
		add1("submit/"+f, "missing", func(j ssJob) string { return ssSubmitLine(replaceField(valid(j), f, nil)) })
	}
	// envelope
	subEnv := func(j ssJob) []jfield { return ssEnv("submit", jraw(jobj(valid(j)...), "obj")) }
	for _, t := range append(strToks(r, "submit"), jstr("Submit"), jstr("SUBMIT"), jstr("login"), jstr("keepalived"), jstr("Keepalived"), jstr("getjob"), jstr("job")) {
		t := t
		add1("env/method", t.shape+"/"+firstN(t.s, 12), func(j ssJob) string { return jobj(replaceField(subEnv(j), "method", &t)...) })
	}
	add1("env/method", "missing", func(j ssJob) string { return jobj(replaceField(subEnv(j), "method", nil)...) })
	for _, t := range append(wrongTypeToks(), jstr("abc")) {
		t := t
		add1("env/params", t.shape, func(j ssJob) string { return jobj(replaceField(subEnv(j), "params", &t)...) })
		add1("keepalived/params", t.shape, func(j ssJob) string { return jobj(ssEnv("keepalived", t)...) })
	}
	add1("env/params", "missing", func(j ssJob) string { return jobj(replaceField(subEnv(j), "params", nil)...) })
	for _, t := range append(uintToks(), jstr("abc")) {
		t := t
		add1("env/id", t.shape, func(j ssJob) string { return jobj(replaceField(subEnv(j), "id", &t)...) })
	}
	add1("env/id", "missing", func(j ssJob) string { return jobj(replaceField(subEnv(j), "id", nil)...) })
	for _, t := range strToks(r, "2.0") {
		t := t
		add1("env/jsonrpc", t.shape, func(j ssJob) string { return jobj(replaceField(subEnv(j), "jsonrpc", &t)...) })
	}
	add1("login-again", "valid", func(j ssJob) string { return ssLoginLine(jstr(w)) })
	for _, t := range lineMalformations(r, ssSubmitLine(ssSubmitParams(ssJob{id: "k2j4h5g6"}, r))) {
		t := t
		add1("submit-line", t.shape, func(j ssJob) string { return t.s })
	}
	// random combinations
	nrand := 120
	if thorough {
		nrand = 1500
	}
	hp := hexToks(r, nil)
	for i := 0; i < nrand; i++ {
		a, b, c, d := r.Intn(len(hp)), r.Intn(len(hp)), r.Intn(4), r.Intn(nvar)
		stale := r.Intn(4) == 0
		add1("random", fmt.Sprintf("%d", c), func(j ssJob) string {
			f := valid(j)
			if stale {
				f = replaceField(f, "job_id", &tok{`"nosuchjob"`, ""})
			}
			switch c {
			case 0:
				f = replaceField(f, "nonce", &hp[a])
				f = append(f, jf("nonce_extra", hp[b]))
			case 1:
				f = append(f, jf("blob", jstr(hexOf(ssBlobVariants(hutil.NewRng(uint64(i)), j)[d].b))), jf("nonce_extra", hp[b]))
			case 2:
				f = append(f, jf("blob", hp[a]))
				f = replaceField(f, "nonce", &hp[b])
			default:
				f = append(f, jf("nonce_extra", hp[a]), jf("blob", jstr(hexOf(ssBlobVariants(hutil.NewRng(uint64(i)), j)[d].b))))
			}
			return ssSubmitLine(f)
		})
	}
	return out
}

// ---------------------------------------------------------------- driver

type ssObs struct {
	Class     int    `json:"class"` // 0 the handler returned, 2 panic, 4 no return within the guard time
	LoginOk   bool   `json:"login_ok"`
	Alive     bool   `json:"alive"`
	NResp     int    `json:"nresp"`
	HasResult bool   `json:"has_result"`
	Line      string `json:"line"` // hex of the line under test
	JobID     string `json:"job_id"`
	Sent      int    `json:"sent"`
	Alloc     uint64 `json:"alloc"`
	Pmsg      string `json:"pmsg,omitempty"`
}

type ssResp struct {
	Id     any             `json:"id"`
	Result json.RawMessage `json:"result"`
	Error  json.RawMessage `json:"error"`
	Method string          `json:"method"`
}

type ssLoginRes struct {
	Job struct {
		Blob  string `json:"blob"`
		JobID string `json:"job_id"`
	} `json:"job"`
}

// quiesce waits until the template the server advertises is the one on top of the current tip: a found block makes
// AddBlock start NewStratumJob in a goroutine of its own; the next session must neither log in on the old template
// nor have that goroutine's allocations counted as its own.  A condition wait (the outcome of no session depends on
// how long it takes); the guard only ends a wait that can never succeed.
func (w *ssWorld) quiesce() {
	deadline := time.Now().Add(scGuard)
	for {
		var top uint64
		w.bc.DB.View(func(txn adb.Txn) error {
			top = w.bc.GetStats(txn).TopHeight
			return nil
		})
		w.bc.Stratum.RLock()
		h := w.bc.Stratum.LastBlock.Height
		w.bc.Stratum.RUnlock()
		if h == top+1 {
			return
		}
		if time.Now().After(deadline) {
			panic(fmt.Sprintf("no template for height %d (advertised: %d)", top+1, h))
		}
		time.Sleep(100 * time.Microsecond)
	}
}

func (w *ssWorld) run(i int, s ssSession) ssObs {
	o := ssObs{}
	w.quiesce()
	srv, cli := net.Pipe()
	conn := stratumsrv.VerifNewConn(ssConn{srv, fmt.Sprintf("pipe-%d", i)})
	probeId := float64(900000 + i)
	lines := make(chan []byte, 256)
	go func() { // reader of everything the handler writes
		defer close(lines)
		rd := bufio.NewReaderSize(cli, 512) // small: the harness' own allocations are counted by the measurement
		for {
			l, err := rd.ReadBytes('\n')
			if len(l) > 0 {
				lines <- l
			}
			if err != nil {
				return
			}
		}
	}()
	clientDone := make(chan struct{})
	go func() { // the miner
		defer close(clientDone)
		var job ssJob
		if s.phase == 1 {
			login := ssLoginLine(jstr(ssWallet())) + "\n"
			o.Sent += len(login)
			if _, err := cli.Write([]byte(login)); err != nil {
				return
			}
			l, ok := <-lines
			if !ok {
				return
			}
			var resp ssResp
			var lr ssLoginRes
			if json.Unmarshal(l, &resp) != nil || json.Unmarshal(resp.Result, &lr) != nil || lr.Job.JobID == "" {
				return
			}
			bb, _ := hex.DecodeString(lr.Job.Blob)
			if job.blob.Deserialize(bb) != nil {
				return
			}
			job.id = lr.Job.JobID
			o.LoginOk, o.JobID = true, job.id
		}
		line := s.mk(job)
		o.Line = hex.EncodeToString([]byte(line))
		o.Sent += len(line) + 1
		if _, err := cli.Write([]byte(line + "\n")); err != nil {
			return
		}
		probe := fmt.Sprintf("{\"id\":%d,\"jsonrpc\":\"2.0\",\"method\":\"keepalived\",\"params\":{\"id\":\"x\"}}\n", int(probeId))
		if _, err := cli.Write([]byte(probe)); err != nil {
			// the handler is gone: what it wrote before is still in the channel
		}
		for l := range lines {
			var resp ssResp
			if json.Unmarshal(l, &resp) == nil {
				if f, ok := resp.Id.(float64); ok && f == probeId {
					o.Alive = true
					cli.Close() // end of the conversation: the handler's next read fails
					continue
				}
			}
			if !o.Alive {
				if o.NResp == 0 {
					o.HasResult = len(resp.Result) > 0 && string(resp.Result) != "null"
				}
				o.NResp++
			}
		}
	}()
	var m1, m2 runtime.MemStats
	runtime.ReadMemStats(&m1)
	o.Class, o.Pmsg = guarded(func() { w.bc.VerifHandleStratumConn(conn) })
	runtime.ReadMemStats(&m2)
	srv.Close()
	<-clientDone
	cli.Close()
	o.Alloc = m2.TotalAlloc - m1.TotalAlloc
	return o
}

// ---------------------------------------------------------------- oracle and family

type submitMirror struct {
	ID         string          `json:"id,omitempty"`
	JobID      string          `json:"job_id"`
	Nonce      string          `json:"nonce"`
	Blob       json.RawMessage `json:"blob,omitempty"`
	NonceExtra json.RawMessage `json:"nonce_extra,omitempty"`
	Result     string          `json:"result"`
}

type loginReqMirror struct {
	Login string   `json:"login"`
	Pass  string   `json:"pass"`
	Agent string   `json:"agent"`
	Algo  []string `json:"algo"`
}

var ssClassNames = map[int]string{0: "returned", 2: "panic", 4: "hang", 5: "process-died"}

func c12ss(out string) {
	sink := coqgen.NewSink(out, "c12ss", "c12ss_case", 300)
	sessions := ssSessions()
	obs, died := isoParent("c12ss", len(sessions))
	for i, s := range sessions {
		var o ssObs
		if died[i] != "" {
			o = ssObs{Class: 5, Pmsg: died[i], LoginOk: s.phase == 1}
		} else if err := json.Unmarshal(obs[i], &o); err != nil {
			panic(fmt.Sprintf("session %d: %v", i, err))
		}
		if s.phase == 1 && !o.LoginOk && o.Class == 0 {
			panic(fmt.Sprintf("session %d: the valid login was not answered with a job", i))
		}
		line, _ := hex.DecodeString(o.Line)
		// what encoding/json makes of the line (the server reads with a bufio.Scanner: one line, trailing CR dropped)
		var req rpc.RequestIn
		scan := bufio.NewScanner(bytes.NewReader(append(append([]byte{}, line...), '\n')))
		jsonOk := stratumsrv.ReadJSON(&req, scan) == nil
		stdOk, known := false, false
		var sm submitMirror
		var lm loginReqMirror
		if jsonOk {
			if s.phase == 0 {
				stdOk = json.Unmarshal(req.Params, &lm) == nil
			} else {
				stdOk = json.Unmarshal(req.Params, &sm) == nil
				known = sm.JobID == o.JobID && o.JobID != ""
			}
		}
		term := fmt.Sprintf("C12SS %d %s %s %s %s %s %s %s %s %d %s %d %s %d %d", s.phase, coqgen.Bool(jsonOk), coqgen.PackBytes([]byte(req.Method)),
			coqgen.Bool(stdOk), coqgen.PackBytes([]byte(lm.Login)), coqgen.PackBytes([]byte(sm.Nonce)), optTok(sm.Blob), optTok(sm.NonceExtra), coqgen.Bool(known),
			o.Class, coqgen.Bool(o.Alive), o.NResp, coqgen.Bool(o.HasResult), o.Sent, o.Alloc)
		kept := "dropped"
		if o.Alive {
			kept = "kept"
		}
		class := fmt.Sprintf("stratum-server/%s/%s/%s/%s/resp=%d", s.gen, s.shape, ssClassNames[o.Class], kept, o.NResp)
		rec := map[string]any{"handler": "blockchain.handleConn", "gen": s.gen, "shape": s.shape, "phase": s.phase, "line": clip(string(line)),
			"go_class": ssClassNames[o.Class], "go_panic": o.Pmsg, "go_connection_kept": o.Alive, "go_responses": o.NResp, "go_first_has_result": o.HasResult,
			"job_known": known, "bytes_sent": o.Sent, "go_alloc": o.Alloc}
		sink.Add(term, class, rec)
	}
	sink.Meta["rule"] = "stratum server per-connection handler over net.Pipe on a real Blockchain (in-memory store): the login line (addresses of every form: account, payment id, delegate, burn, merge-mining prefix, truncated, bad checksum; every field missing / wrong JSON type; method and envelope variants) and, after a valid login, one submit / keepalived / other line: nonce, nonce_extra and blob as hex of every byte length 0..40, odd length, non-hex, upper case, escapes, wrong JSON types, missing; mining blobs derived from the job's own (other chains added, unsorted, duplicated, own entry missing, 16 and 17 chains, every length around the valid one, hostile chain counts 2^31/2^63/2^64-1, other seed period), with a known and with a stale job id; job_id/result/id variants; unknown methods; truncated lines, non-JSON, batches, deep nesting, lines of 4 KiB..4 MiB around the scanner's 64 KiB limit; random combinations. A keepalived probe after the line tells whether the connection was kept. The handler runs under recover() in a child process (a dead child = observation). A class is (generator, shape, outcome, kept/dropped, responses)."
	if err := sink.Close(); err != nil {
		panic(err)
	}
}
