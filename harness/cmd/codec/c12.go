package main

import (
	"fmt"

	"verifharness/coqgen"
	"verifharness/hutil"
)

func init() { families["c12"] = c12 }

func c12(out string) {
	sink := coqgen.NewSink(out, "c12", "c12_case", 400)
	thorough := hutil.Tier() == "thorough"
	nvals, scale := 40, 2
	if thorough {
		nvals, scale = 300, 8
	}
	// network-facing decoders first (the first few failures become replay files)
	order := []*codec{}
	for _, w := range []bool{true, false} {
		for _, c := range codecs {
			if c.wire == w && inThisConfig(c) {
				order = append(order, c)
			}
		}
	}
	for _, c := range order {
		rng := hutil.NewRng(1200 + uint64(c.id))
		var encs [][]byte
		var ins []input
		var vals []any
		for i := 0; i < nvals; i++ {
			v, shape := c.gen(rng, i)
			b := c.enc(v)
			encs = append(encs, b)
			vals = append(vals, v)
			ins = append(ins, input{b: b, gen: "valid", shape: shape})
		}
		c.hot = pickHot(c, vals)
		ins = append(ins, decoderStream(c, rng, pickSamples(rng, encs, 3), scale)...)
		// pure noise of several lengths
		for i := 0; i < 10*scale; i++ {
			ins = append(ins, input{b: rng.Bytes(rng.Intn(1 + 40*(i%8))), gen: "random", shape: ""})
		}
		for _, in := range ins {
			o := observeSafe(c, in.b)
			term := fmt.Sprintf("C12 %d %s %s %d %d", c.id, coqgen.Bool(c.wire), coqgen.PackBytes(in.b), o.class, o.alloc)
			class := fmt.Sprintf("%s/%s/%s/%s", c.name, in.gen, in.shape, classNames[o.class])
			sink.Add(term, class, map[string]any{"decoder": c.name, "gen": in.gen, "shape": in.shape, "input_hex": fmt.Sprintf("%x", in.b),
				"go_class": classNames[o.class], "go_panic": o.pmsg, "go_alloc": o.alloc, "wire": c.wire})
		}
	}
	sink.Meta["rule"] = "per decoder/handler: valid encodings, truncations, single-byte mutations, extensions, hostile varints and length prefixes (2^31, 2^63, 2^64-1, overflowing, non-canonical, truncated) spliced at byte offsets of sample encodings, random noise, the always-run corpus; observed under recover() with the runtime's TotalAlloc delta. A class is (decoder, generator, shape, Go outcome)."
	if err := sink.Close(); err != nil {
		panic(err)
	}
}
