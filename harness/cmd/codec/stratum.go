package main

import (
	"encoding/hex"
	"errors"
	"fmt"
	"io"
	"net"
	"time"

	"verifharness/hutil"

	"github.com/virel-project/virel-blockchain/v3/adb"
	"github.com/virel-project/virel-blockchain/v3/address"
	"github.com/virel-project/virel-blockchain/v3/bitcrypto"
	"github.com/virel-project/virel-blockchain/v3/block"
	"github.com/virel-project/virel-blockchain/v3/blockchain"
	"github.com/virel-project/virel-blockchain/v3/stratum/stratumsrv"
	"github.com/virel-project/virel-blockchain/v3/util/uint128"
)

// stub store: one key space, enough for GetStats / GetMempool of the stratum handler
type stubDB struct{ t memTxn }

func (d *stubDB) Index(n string) adb.Index               { return n }
func (d *stubDB) View(f func(txn adb.Txn) error) error   { return f(d.t) }
func (d *stubDB) Update(f func(txn adb.Txn) error) error { return f(d.t) }
func (d *stubDB) Close() error                           { return nil }

var errHandled = errors.New("handled")

// stratumSubmit drives the real per-connection stratum handler (login, then one "submit" line whose nonce is the
// hex form of nonceBin) over an in-memory connection.  Result: nil = the submit was handled and the handler went on
// reading, error = the handler rejected the line and dropped the connection; a panic propagates to the caller.
func stratumSubmit(nonceBin []byte) error {
	db := &stubDB{t: memTxn{}}
	db.t["stats"] = (&blockchain.Stats{}).Serialize()
	db.t["mempool"] = (&blockchain.Mempool{}).Serialize()
	bc := &blockchain.Blockchain{DB: db}
	bc.Index.Info = db.Index("info")
	bl := &block.Block{Difficulty: uint128.From64(1000), CumulativeDiff: uint128.From64(1000)}
	bc.Stratum = &stratumsrv.Server{LastBlock: bl, LastMinDiff: uint128.From64(1000)}
	srv, cli := net.Pipe()
	defer srv.Close()
	addr := address.FromPubKey(bitcrypto.Pubkey{1, 2, 3}).Integrated().String()
	go func() {
		go io.Copy(io.Discard, cli)
		fmt.Fprintf(cli, "{\"id\":1,\"jsonrpc\":\"2.0\",\"method\":\"login\",\"params\":{\"login\":%q,\"pass\":\"x\"}}\n", addr)
		fmt.Fprintf(cli, "{\"id\":2,\"jsonrpc\":\"2.0\",\"method\":\"submit\",\"params\":{\"job_id\":\"nosuchjob\",\"nonce\":%q,\"result\":\"\"}}\n", hex.EncodeToString(nonceBin))
		time.Sleep(2 * time.Millisecond)
		cli.Close()
	}()
	err := bc.VerifHandleStratumConn(stratumsrv.VerifNewConn(srv))
	if err == io.EOF || errors.Is(err, io.ErrClosedPipe) || (err != nil && err.Error() == "EOF") {
		return nil // the handler survived the submit and ended on the closed connection
	}
	return err
}

func init() {
	codecs = append(codecs,
		&codec{id: 19, name: "stratum-nonce", wire: false, c12only: true,
			gen: func(r *hutil.Rng, i int) (any, string) {
				n := []int{4, 4, 0, 1, 2, 3, 5, 8, 16}[i%9]
				return r.Bytes(n), fmt.Sprintf("len=%d", n)
			},
			enc:    func(v any) []byte { return v.([]byte) },
			dec:    func(b []byte) (any, error) { return nil, stratumSubmit(b) },
			corpus: [][]byte{{}, {1}, {1, 2, 3}, {1, 2, 3, 4}, {1, 2, 3, 4, 5}}, // R5: fewer than 4 bytes
		},
	)
}
