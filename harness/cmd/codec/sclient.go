package main

// Family c12sc: the merge-mining stratum CLIENT of a masterchain node (blockchain.AddStratum over
// stratum/stratumclient) fed by a fake stratum server on loopback TCP.
//
// One case = one script: a login response line followed by further lines (job notifications, other requests,
// responses, garbage).  The real code is called synchronously in a goroutine of the harness under recover():
//   step 1  stratumclient.Client.Start(true) against the login line alone: accepted / refused / panic;
//   step 2  (only when step 1 accepted) blockchain.AddStratum(ip, wallet, false) against the whole script.
//           AddStratum returns when the job channel is closed (the stream ended or a line was refused by the
//           reader) or after it closed the client itself because it refused a job.  Observed: which of the two,
//           and the job it holds at that moment (job id, difficulty, network id of the hashing id), read from
//           the mergestratum entry the function registered in Blockchain.Merges.
// Two properties of the client shape the driver (both are reported, neither is a crash):
//   * Start reads the login response through a bufio.Reader of its own and scanJobs creates a second one: bytes
//     that arrived together with the login response are lost.  In step 2 the login line is therefore padded with
//     blanks to exactly the reader's buffer size (10 KiB), so that the first reader cannot read past it whatever
//     the TCP segmentation; what the client sees is then independent of timing.
//   * after a failed login AddStratum waits forever on a channel nobody closes; step 2 is not run in that case
//     (a guard timeout classifies any other wait as "hang").
// The JSON layer (encoding/json) is not modelled: the harness decodes every line with the same library into mirror
// structures whose custom-typed fields (enc.Hex) are kept as raw tokens; the Coq model decides on the raw tokens
// (Hex.UnmarshalJSON), the mining blob, the chain count and the target length.

import (
	"bufio"
	"bytes"
	"encoding/hex"
	"encoding/json"
	"fmt"
	"net"
	"runtime"
	"sort"
	"strings"
	"time"

	"verifharness/coqgen"
	"verifharness/hutil"

	"github.com/virel-project/virel-blockchain/v3/block"
	"github.com/virel-project/virel-blockchain/v3/blockchain"
	"github.com/virel-project/virel-blockchain/v3/config"
	"github.com/virel-project/virel-blockchain/v3/rpc"
	"github.com/virel-project/virel-blockchain/v3/stratum/stratumclient"
)

const scBuf = 10 * 1024 // max_read_size of stratum/stratumclient/client.go (checked by the "padded-to" shapes)
const scGuard = 90 * time.Second

func init() {
	families["c12sc"] = c12sc
	families["c12sc-child"] = func(string) {
		blockchain.Log.SetLogLevel(0)
		sc := scScripts()
		srv := newFakeSrv()
		isoChild(len(sc), func(i int) any { return scRun(srv, sc[i]) })
	}
}

type scScript struct {
	gen, shape string
	login      string
	rest       []string
}

// ---------------------------------------------------------------- valid values

func scBlob(r *hutil.Rng, nchains int) []byte {
	m := block.MiningBlob{Timestamp: 1700000000000 + uint64(r.Intn(1000)), Nonce: uint32(r.U64())}
	copy(m.NonceExtra[:], r.Bytes(16))
	ids := map[uint64]bool{}
	for len(ids) < nchains {
		ids[uint64(r.Intn(1000))+1] = true
	}
	var ks []uint64
	for k := range ids {
		ks = append(ks, k)
	}
	sort.Slice(ks, func(i, j int) bool { return ks[i] < ks[j] })
	for _, k := range ks {
		h := block.HashingID{NetworkID: k}
		copy(h.Hash[:], r.Bytes(32))
		m.Chains = append(m.Chains, h)
	}
	return m.Serialize()
}

func scTarget(r *hutil.Rng, n int) []byte {
	b := r.Bytes(n)
	switch r.Intn(6) {
	case 0:
		for i := range b {
			b[i] = 0
		}
	case 1:
		for i := range b {
			b[i] = 0xff
		}
	case 2:
		for i := range b {
			b[i] = 0
		}
		if n > 0 {
			b[0] = 1
		}
	}
	return b
}

var scJobSeq int

func scJobFields(r *hutil.Rng) []jfield {
	scJobSeq++
	tl := []int{4, 8, 16}[r.Intn(3)]
	return []jfield{
		jf("algo", jstr("rx/vrl")),
		jf("blob", jstr(hexOf(scBlob(r, 1)))),
		jf("job_id", jstr(fmt.Sprintf("j%d", scJobSeq))),
		jf("target", jstr(hexOf(scTarget(r, tl)))),
		jf("height", jraw(fmt.Sprint(1+r.Intn(100000)), "num")),
		jf("seed_hash", jstr(hexOf(r.Bytes(32)))),
	}
}

func scLoginEnv(result tok) []jfield {
	return []jfield{jf("id", jraw("1", "num")), jf("jsonrpc", jstr("2.0")), jf("result", result), jf("error", jraw("null", "null"))}
}

func scLoginResult(job tok) []jfield {
	return []jfield{jf("id", jstr("client1")), jf("job", job), jf("extensions", jraw(`["algo","keepalive"]`, "arr")), jf("status", jstr("OK"))}
}

func scLoginLine(jobFields []jfield) string {
	return jobj(scLoginEnv(jraw(jobj(scLoginResult(jraw(jobj(jobFields...), "obj"))...), "obj"))...)
}

func scJobEnv(params tok) []jfield {
	return []jfield{jf("jsonrpc", jstr("2.0")), jf("method", jstr("job")), jf("params", params)}
}

func scJobLine(jobFields []jfield) string { return jobj(scJobEnv(jraw(jobj(jobFields...), "obj"))...) }

// blob byte strings an attacker would try in the blob field
func scBlobVariants(r *hutil.Rng) []namedTok {
	var out []namedTok
	b1, b2 := scBlob(r, 1), scBlob(r, 2)
	for n := 0; n <= len(b1)+6; n++ { // every length around the valid one (83 bytes), by truncation / extension
		v := append([]byte{}, b1...)
		if n <= len(v) {
			v = v[:n]
		} else {
			v = append(v, r.Bytes(n-len(v))...)
		}
		out = append(out, namedTok{fmt.Sprintf("bloblen=%d", n), v})
	}
	for _, n := range []int{len(b2) - 41, len(b2) - 40, len(b2) - 39, len(b2) - 1, len(b2), len(b2) + 1, len(b2) + 40} {
		v := append([]byte{}, b2...)
		if n <= len(v) {
			v = v[:n]
		} else {
			v = append(v, r.Bytes(n-len(v))...)
		}
		out = append(out, namedTok{fmt.Sprintf("blob2len=%d", n), v})
	}
	for _, nc := range []int{0, 2, 3, config.MAX_MERGE_MINED_CHAINS - 1, config.MAX_MERGE_MINED_CHAINS, config.MAX_MERGE_MINED_CHAINS + 1} {
		v := scBlob(r, max(nc, 1))
		if nc == 0 {
			v = v[:43]
			for i := 24; i < 32; i++ {
				v[i] = 0
			}
		}
		out = append(out, namedTok{fmt.Sprintf("chains=%d", nc), v})
	}
	// hostile counts at the offset of the chain count (bytes 24..32), with and without the rest
	for _, c := range []uint64{1 << 31, 1<<31 - 1, 1 << 32, 1 << 62, 1 << 63, 1<<63 - 1, 1<<63 + 1, ^uint64(0), 17, 255, 256, 65536, 1 << 24} {
		v := append([]byte{}, b1...)
		for i := 0; i < 8; i++ {
			v[24+i] = byte(c >> (8 * uint(i)))
		}
		out = append(out, namedTok{fmt.Sprintf("count=%d", c), v})
		out = append(out, namedTok{fmt.Sprintf("count-trunc=%d", c), append([]byte{}, v[:43]...)})
	}
	v := append([]byte{}, b1...)
	v[33] ^= 0x40
	out = append(out, namedTok{"bad-entropy", v})
	return out
}

// ---------------------------------------------------------------- scripts

func scScripts() []scScript {
	r := hutil.NewRng(12100)
	scJobSeq = 0
	thorough := hutil.Tier() == "thorough"
	var out []scScript
	add := func(gen, shape, login string, rest ...string) {
		for i := range rest {
			rest[i] = noNewline(rest[i])
		}
		out = append(out, scScript{gen: gen, shape: shape, login: noNewline(login), rest: scAtMostOneResponse(rest)})
	}
	validJob := func() string { return scJobLine(scJobFields(r)) }
	validLogin := func() string { return scLoginLine(scJobFields(r)) }

	// 1. valid conversations: 0..3 notifications, every accepted target size and boundary target values
	for i := 0; i < 12; i++ {
		var rest []string
		for k := 0; k < i%4; k++ {
			rest = append(rest, validJob())
		}
		add("valid", fmt.Sprintf("jobs=%d", i%4), validLogin(), rest...)
	}
	for _, tl := range []int{4, 8, 16} {
		for _, tv := range [][]byte{bytes.Repeat([]byte{0}, tl), bytes.Repeat([]byte{0xff}, tl), append([]byte{1}, make([]byte, tl-1)...), append(make([]byte, tl-1), 0x80)} {
			f := replaceField(scJobFields(r), "target", &tok{`"` + hexOf(tv) + `"`, ""})
			add("valid", fmt.Sprintf("target%d=%x", tl, tv), scLoginLine(f), scJobLine(replaceField(scJobFields(r), "target", &tok{`"` + hexOf(tv) + `"`, ""})))
		}
	}

	// 2./3. one field of the job at a time, in the login response and in a notification between two valid ones
	sweep := func(field string, toks []tok) {
		for _, t := range toks {
			t := t
			add("login-job/"+field, t.shape, scLoginLine(replaceField(scJobFields(r), field, &t)), validJob())
			add("notify-job/"+field, t.shape, validLogin(), validJob(), scJobLine(replaceField(scJobFields(r), field, &t)), validJob())
		}
		add("login-job/"+field, "missing", scLoginLine(replaceField(scJobFields(r), field, nil)), validJob())
		add("notify-job/"+field, "missing", validLogin(), scJobLine(replaceField(scJobFields(r), field, nil)), validJob())
	}
	sweep("target", hexToks(r, func(n int) []byte { return scTarget(r, n) }))
	sweep("blob", hexToks(r, nil))
	sweep("seed_hash", hexToks(r, nil))
	sweep("job_id", strToks(r, "job77"))
	sweep("algo", strToks(r, "rx/vrl"))
	sweep("height", uintToks())
	for _, bv := range scBlobVariants(r) {
		t := tok{`"` + hexOf(bv.b) + `"`, bv.name}
		add("login-job/blob-bytes", bv.name, scLoginLine(replaceField(scJobFields(r), "blob", &t)), validJob())
		add("notify-job/blob-bytes", bv.name, validLogin(), scJobLine(replaceField(scJobFields(r), "blob", &t)), validJob())
	}
	// a duplicated custom-typed field (both occurrences valid: the last one wins in encoding/json)
	{
		f := scJobFields(r)
		f = append(f, jf("target", jstr(hexOf(scTarget(r, 8)))))
		add("notify-job/target", "duplicate-valid", validLogin(), scJobLine(f), validJob())
		g := scJobFields(r)
		g = append(g, jf("Target", jstr(hexOf(scTarget(r, 4))))) // keys match case-insensitively
		add("notify-job/target", "duplicate-case", validLogin(), scJobLine(g), validJob())
	}

	// 4. envelope of the login response
	jobTok := func() tok { return jraw(jobj(scJobFields(r)...), "obj") }
	resTok := func() tok { return jraw(jobj(scLoginResult(jobTok())...), "obj") }
	for _, t := range append(uintToks(), jstr("abc")) {
		t := t
		add("login-env/id", t.shape, jobj(replaceField(scLoginEnv(resTok()), "id", &t)...), validJob())
	}
	add("login-env/id", "missing", jobj(replaceField(scLoginEnv(resTok()), "id", nil)...), validJob())
	for _, t := range []tok{{"null", "null"}, {`{"code":-1,"message":"x"}`, "error-obj"}, {`{}`, "empty-obj"}, {`"boom"`, "str"}, {"1", "num"}, {"[]", "arr"},
		{`{"code":"x"}`, "code-str"}, {`{"code":1e99}`, "code-huge"}, {"false", "bool"}} {
		t := t
		add("login-env/error", t.shape, jobj(replaceField(scLoginEnv(resTok()), "error", &t)...), validJob())
	}
	add("login-env/error", "missing", jobj(replaceField(scLoginEnv(resTok()), "error", nil)...), validJob())
	for _, t := range append(wrongTypeToks(), tok{`"` + jobj(scLoginResult(jobTok())...) + `"`, "obj-in-string"}) {
		t := t
		add("login-env/result", t.shape, jobj(replaceField(scLoginEnv(resTok()), "result", &t)...), validJob())
	}
	add("login-env/result", "missing", jobj(replaceField(scLoginEnv(resTok()), "result", nil)...), validJob())
	for _, t := range append(wrongTypeToks(), tok{`"job"`, "str"}) {
		t := t
		add("login-result/job", t.shape, jobj(scLoginEnv(jraw(jobj(replaceField(scLoginResult(jobTok()), "job", &t)...), "obj"))...), validJob())
	}
	add("login-result/job", "missing", jobj(scLoginEnv(jraw(jobj(replaceField(scLoginResult(jobTok()), "job", nil)...), "obj"))...), validJob())
	for _, f := range []string{"id", "status"} {
		for _, t := range strToks(r, "OK") {
			t := t
			add("login-result/"+f, t.shape, jobj(scLoginEnv(jraw(jobj(replaceField(scLoginResult(jobTok()), f, &t)...), "obj"))...), validJob())
		}
	}
	for _, t := range []tok{{"null", "null"}, {"[]", "empty"}, {"[1]", "arr-num"}, {`"algo"`, "str"}, {"{}", "obj"}, {`["a",null]`, "arr-null"}} {
		t := t
		add("login-result/extensions", t.shape, jobj(scLoginEnv(jraw(jobj(replaceField(scLoginResult(jobTok()), "extensions", &t)...), "obj"))...), validJob())
	}

	// 5. envelope of a notification
	ptok := func() tok { return jraw(jobj(scJobFields(r)...), "obj") }
	for _, t := range append(strToks(r, "job"), jstr("Job"), jstr("login"), jstr("submit"), jstr("keepalived")) {
		t := t
		add("notify-env/method", t.shape+"/"+firstN(t.s, 12), validLogin(), validJob(), jobj(replaceField(scJobEnv(ptok()), "method", &t)...), validJob())
	}
	add("notify-env/method", "missing", validLogin(), validJob(), jobj(replaceField(scJobEnv(ptok()), "method", nil)...), validJob())
	for _, t := range append(wrongTypeToks(), tok{`"` + hexOf(r.Bytes(8)) + `"`, "str"}) {
		t := t
		add("notify-env/params", t.shape, validLogin(), validJob(), jobj(replaceField(scJobEnv(ptok()), "params", &t)...), validJob())
	}
	add("notify-env/params", "missing", validLogin(), validJob(), jobj(replaceField(scJobEnv(ptok()), "params", nil)...), validJob())
	for _, t := range uintToks() {
		t := t
		add("notify-env/id", t.shape, validLogin(), jobj(append(scJobEnv(ptok()), jf("id", t))...), validJob())
		// a response (no method) with this id: unsolicited, parked in the response channel
		add("response/id", t.shape, validLogin(), validJob(), jobj(jf("jsonrpc", jstr("2.0")), jf("id", t), jf("result", jraw(`{"status":"OK"}`, "obj"))), validJob())
	}
	add("notify-env", "method+result", validLogin(), jobj(append(scJobEnv(ptok()), jf("result", jraw("{}", "obj")), jf("error", jraw(`{"code":1,"message":"m"}`, "obj")))...), validJob())

	// 6. whole-line malformations
	for _, t := range lineMalformations(r, validLogin()) {
		add("login-line", t.shape, t.s, validJob())
	}
	for _, t := range lineMalformations(r, validJob()) {
		add("notify-line", t.shape, validLogin(), validJob(), t.s, validJob())
	}

	// 7. random conversations from the pools above
	nrand := 150
	if thorough {
		nrand = 1500
	}
	hexPool := hexToks(r, func(n int) []byte { return scTarget(r, n) })
	blobPool := scBlobVariants(r)
	for i := 0; i < nrand; i++ {
		mk := func() []jfield {
			f := scJobFields(r)
			switch r.Intn(6) {
			case 0:
				t := hexPool[r.Intn(len(hexPool))]
				f = replaceField(f, "target", &t)
			case 1:
				bv := blobPool[r.Intn(len(blobPool))]
				f = replaceField(f, "blob", &tok{`"` + hexOf(bv.b) + `"`, bv.name})
			case 2:
				f = replaceField(f, []string{"target", "blob", "job_id", "seed_hash"}[r.Intn(4)], nil)
			}
			return f
		}
		var rest []string
		for k := r.Intn(6); k > 0; k-- {
			switch r.Intn(8) {
			case 0:
				rest = append(rest, jobj(jf("jsonrpc", jstr("2.0")), jf("method", jstr("ping"))))
			case 1:
				rest = append(rest, jobj(jf("id", jraw("7", "num")), jf("result", jraw("{}", "obj"))))
			default:
				rest = append(rest, scJobLine(mk()))
			}
		}
		add("random", fmt.Sprintf("lines=%d", len(rest)), scLoginLine(mk()), rest...)
	}
	return out
}

func firstN(s string, n int) string {
	if len(s) > n {
		return s[:n]
	}
	return s
}

// ---------------------------------------------------------------- oracle (encoding/json, same library, mirror types)

type jobMirror struct {
	Algo     string          `json:"algo"`
	Blob     json.RawMessage `json:"blob"`
	JobID    string          `json:"job_id"`
	Target   json.RawMessage `json:"target"`
	Height   uint64          `json:"height,omitempty"`
	SeedHash json.RawMessage `json:"seed_hash"`
}
type loginMirror struct {
	ID         string    `json:"id"`
	Job        jobMirror `json:"job"`
	Extensions []string  `json:"extensions"`
	Status     string    `json:"status"`
}

type scLine struct {
	kind  int // 0 the reader ends, 1 skipped (response or other method), 2 job notification
	resp  bool
	stdOk bool
	job   jobMirror
}

// scOracleRest mirrors the control flow of Client.scanJobs on the bytes following the login line.
func scOracleRest(rest []string) (lines []scLine) {
	var sb strings.Builder
	for _, l := range rest {
		sb.WriteString(l)
		sb.WriteByte('\n')
	}
	rd := bufio.NewReaderSize(strings.NewReader(sb.String()), scBuf)
	for {
		rr := rpc.RequestOrResponse{}
		if err := rpc.ReadJSON(&rr, rd); err != nil {
			lines = append(lines, scLine{kind: 0})
			return
		}
		if rr.Method == "" {
			lines = append(lines, scLine{kind: 1, resp: true})
			continue
		}
		if rr.Method != "job" {
			lines = append(lines, scLine{kind: 1})
			continue
		}
		var j jobMirror
		err := json.Unmarshal(rr.Params, &j)
		lines = append(lines, scLine{kind: 2, stdOk: err == nil, job: j})
		if err != nil {
			return // the real reader ends here as well (whatever the custom-typed fields say)
		}
	}
}

// scAtMostOneResponse drops lines so that the reader meets at most one response: a second one parks the reader
// goroutine for ever (channel of capacity 1 nobody reads) and AddStratum would never return.
func scAtMostOneResponse(rest []string) []string {
	var keep []string
	for _, l := range rest {
		n := 0
		for _, x := range scOracleRest(append(append([]string{}, keep...), l)) {
			if x.resp {
				n++
			}
		}
		if n <= 1 {
			keep = append(keep, l)
		}
	}
	return keep
}

// scOracleLogin mirrors Client.Start up to the custom-typed fields: nil = refused by the JSON layer / error response.
func scOracleLogin(login string) *jobMirror {
	rd := bufio.NewReaderSize(strings.NewReader(login+"\n"), scBuf)
	resp := rpc.ResponseIn{}
	if err := rpc.ReadJSON(&resp, rd); err != nil || resp.Error != nil {
		return nil
	}
	var lm loginMirror
	if err := json.Unmarshal(resp.Result, &lm); err != nil {
		return nil
	}
	return &lm.Job
}

// ---------------------------------------------------------------- fake server and driver

type fakeSrv struct {
	ln   net.Listener
	addr string
}

func newFakeSrv() *fakeSrv {
	ln, err := net.Listen("tcp", "127.0.0.1:0")
	if err != nil {
		panic(err)
	}
	return &fakeSrv{ln: ln, addr: ln.Addr().String()}
}

// serve accepts one connection, reads the client's login request line, calls onAccept, writes payload and closes.
// The returned channel is closed when it is done.
func (f *fakeSrv) serve(payload []byte, onAccept func()) chan struct{} {
	done := make(chan struct{})
	go func() {
		defer close(done)
		f.ln.(*net.TCPListener).SetDeadline(time.Now().Add(scGuard))
		c, err := f.ln.Accept()
		if err != nil {
			return
		}
		defer c.Close()
		if onAccept != nil {
			onAccept()
		}
		c.SetDeadline(time.Now().Add(scGuard))
		if _, err := bufio.NewReaderSize(c, 4096).ReadString('\n'); err != nil {
			return
		}
		c.Write(payload)
	}()
	return done
}

type scObs struct {
	A1    int    `json:"a1"` // step 1: 0 accepted, 1 refused, 2 panic, 4 no return within the guard time
	A2    int    `json:"a2"` // step 2: 0 returned, client alive (stream ended), 1 returned, client closed by AddStratum, 2 panic, 3 not run, 4 hang
	JobID string `json:"jobid"`
	Diff  uint64 `json:"diff"`
	Net   uint64 `json:"net"`
	Alloc uint64 `json:"alloc"`
	Sent  int    `json:"sent"`
	Pmsg  string `json:"pmsg,omitempty"`
}

// guarded runs f in a goroutine of the harness under recover; class 0 returned, 2 panic, 4 no return in time.
func guarded(f func()) (class int, pmsg string) {
	type res struct {
		class int
		msg   string
	}
	ch := make(chan res, 1)
	go func() {
		defer func() {
			if r := recover(); r != nil {
				ch <- res{2, fmt.Sprint(r)}
			}
		}()
		f()
		ch <- res{0, ""}
	}()
	select {
	case x := <-ch:
		return x.class, x.msg
	case <-time.After(scGuard):
		return 4, "no return within the guard time"
	}
}

func scPaddable(login string) bool { return len(login) <= scBuf-1 }

func scRun(srv *fakeSrv, s scScript) scObs {
	o := scObs{A2: 3}
	var m1, m2 runtime.MemStats
	// step 1: the login response alone
	pay1 := []byte(s.login + "\n")
	d1 := srv.serve(pay1, nil)
	cl, _ := stratumclient.New(srv.addr, "wallet")
	var serr error
	runtime.ReadMemStats(&m1)
	o.A1, o.Pmsg = guarded(func() { serr = cl.Start(true) })
	runtime.ReadMemStats(&m2)
	o.Alloc, o.Sent = m2.TotalAlloc-m1.TotalAlloc, len(pay1)
	if o.A1 == 0 && serr != nil {
		o.A1 = 1
	}
	guarded(cl.Close)
	<-d1
	if o.A1 != 0 || !scPaddable(s.login) {
		return o
	}
	// step 2: the whole script through AddStratum; the login line padded to the size of the client's read buffer
	var sb strings.Builder
	sb.WriteString(s.login)
	sb.WriteString(strings.Repeat(" ", scBuf-1-len(s.login)))
	sb.WriteByte('\n')
	for _, l := range s.rest {
		sb.WriteString(l)
		sb.WriteByte('\n')
	}
	pay2 := []byte(sb.String())
	bc := &blockchain.Blockchain{}
	var grab func() (string, uint64, uint64, bool)
	var closeClient func()
	d2 := srv.serve(pay2, func() {
		bc.MergesMut.RLock()
		if n := len(bc.Merges); n > 0 {
			mm := bc.Merges[n-1]
			grab = func() (string, uint64, uint64, bool) {
				return mm.JobID, mm.Difficulty, mm.HashingID.NetworkID, mm.Client.Alive()
			}
			closeClient = mm.Client.Close
		}
		bc.MergesMut.RUnlock()
	})
	runtime.ReadMemStats(&m1)
	o.A2, o.Pmsg = guarded(func() { bc.AddStratum(srv.addr, "wallet", false) })
	runtime.ReadMemStats(&m2)
	o.Alloc, o.Sent = m2.TotalAlloc-m1.TotalAlloc, len(pay2)
	if grab == nil {
		o.A2, o.Pmsg = 4, "the connection of AddStratum was never accepted"
		return o
	}
	if o.A2 != 4 {
		var alive bool
		o.JobID, o.Diff, o.Net, alive = grab()
		o.JobID = hex.EncodeToString([]byte(o.JobID))
		if o.A2 == 0 && !alive {
			o.A2 = 1
		}
	}
	guarded(closeClient)
	<-d2
	return o
}

// ---------------------------------------------------------------- family

func optTok(raw json.RawMessage) string {
	if raw == nil {
		return "None"
	}
	return coqgen.Some(coqgen.PackBytes(raw))
}

func scJobTerm(stdOk bool, j jobMirror) string {
	return fmt.Sprintf("(SCJob %s %s %s %s %s)", coqgen.Bool(stdOk), optTok(j.Blob), optTok(j.Target), optTok(j.SeedHash), coqgen.PackBytes([]byte(j.JobID)))
}

var scA1Names = map[int]string{0: "login-accepted", 1: "login-refused", 2: "login-panic", 4: "login-hang", 5: "process-died"}
var scA2Names = map[int]string{0: "stream-ended", 1: "job-refused", 2: "panic", 3: "-", 4: "hang"}

func c12sc(out string) {
	sink := coqgen.NewSink(out, "c12sc", "c12sc_case", 300)
	scripts := scScripts()
	obs, died := isoParent("c12sc", len(scripts))
	for i, s := range scripts {
		var o scObs
		if died[i] != "" {
			o = scObs{A1: 5, A2: 3, Pmsg: died[i]}
		} else if err := json.Unmarshal(obs[i], &o); err != nil {
			panic(fmt.Sprintf("session %d: %v", i, err))
		}
		login := "None"
		if j := scOracleLogin(s.login); j != nil {
			login = coqgen.Some(scJobTerm(true, *j))
		}
		var lt []string
		for _, l := range scOracleRest(s.rest) {
			switch l.kind {
			case 0:
				lt = append(lt, "SLEnd")
			case 1:
				lt = append(lt, "SLSkip")
			default:
				lt = append(lt, "(SLJobLine "+scJobTerm(l.stdOk, l.job)+")")
			}
		}
		jid, _ := hex.DecodeString(o.JobID)
		term := fmt.Sprintf("C12SC %s %s %s %d %d %s %d %d %d %d", login, coqgen.List(lt), coqgen.Bool(scPaddable(s.login)),
			o.A1, o.A2, coqgen.PackBytes(jid), o.Diff, o.Net, o.Sent, o.Alloc)
		class := fmt.Sprintf("stratum-client/%s/%s/%s/%s", s.gen, s.shape, scA1Names[o.A1], scA2Names[o.A2])
		rec := map[string]any{"handler": "blockchain.AddStratum / stratumclient.Client.Start", "gen": s.gen, "shape": s.shape,
			"login_line": clip(s.login), "following_lines": clipAll(s.rest), "go_login": scA1Names[o.A1], "go_addstratum": scA2Names[o.A2],
			"go_panic": o.Pmsg, "go_job_id": string(jid), "go_difficulty": o.Diff, "go_network_id": o.Net, "bytes_sent": o.Sent, "go_alloc": o.Alloc}
		sink.Add(term, class, rec)
	}
	sink.Meta["rule"] = "merge-mining stratum client: scripts of a fake stratum server on loopback TCP (login response + following lines) built from a grammar: valid conversations; every field of the job (target, blob, seed_hash as hex of every byte length 0..40, odd length, non-hex, upper case, escapes, wrong JSON types, missing; job_id, algo, height likewise) in the login response and in a notification; mining-blob byte strings of every length around the valid one, chain counts 0..MAX+1 and hostile counts (2^31, 2^63, 2^64-1) at the count offset; envelope fields (id, error, result, method, params) missing/wrong type/huge; truncated lines, non-JSON, batches, deep nesting, lines of 4 KiB..4 MiB around the reader's 10 KiB buffer; random conversations. stratumclient.Client.Start and blockchain.AddStratum are called synchronously under recover() in a child process (a dead child = observation). A class is (generator, shape, login outcome, AddStratum outcome)."
	if err := sink.Close(); err != nil {
		panic(err)
	}
}

func clip(s string) string {
	if len(s) > 600 {
		return fmt.Sprintf("%s...(%d bytes)...%s", s[:300], len(s), s[len(s)-100:])
	}
	return s
}
func clipAll(l []string) []string {
	out := make([]string, len(l))
	for i, s := range l {
		out[i] = clip(s)
	}
	return out
}
