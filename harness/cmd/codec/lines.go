package main

// Grammar of JSON lines / request bodies shared by the C12 line families (stratum client c12sc, stratum server
// c12ss).  A value is a raw JSON token text plus a shape label; a line is an object built from named fields.
// The generators are exhaustive over the small dimensions the property names (hex fields of every byte length
// 0..40, odd length, non-hex, wrong JSON type, huge numbers, missing fields) and sample the large ones.

import (
	"fmt"
	"strings"

	"verifharness/hutil"
)

type tok struct {
	s     string // raw JSON text of the value
	shape string
}

type jfield struct {
	name string
	v    *tok // nil: the field is absent
}

func jf(name string, t tok) jfield { return jfield{name, &t} }
func jstr(s string) tok            { return tok{fmt.Sprintf("%q", s), "str"} }
func jraw(s, shape string) tok     { return tok{s, shape} }

// jobj prints the fields in order; duplicates are allowed (the caller decides).
func jobj(fields ...jfield) string {
	var sb strings.Builder
	sb.WriteByte('{')
	first := true
	for _, f := range fields {
		if f.v == nil {
			continue
		}
		if !first {
			sb.WriteByte(',')
		}
		first = false
		fmt.Fprintf(&sb, "%q:%s", f.name, f.v.s)
	}
	sb.WriteByte('}')
	return sb.String()
}

// replaceField returns a copy of fields with the named field's value replaced (nil = removed).
func replaceField(fields []jfield, name string, v *tok) []jfield {
	out := make([]jfield, 0, len(fields))
	for _, f := range fields {
		if f.name == name {
			out = append(out, jfield{name, v})
		} else {
			out = append(out, f)
		}
	}
	return out
}

const hexdigits = "0123456789abcdef"

func hexOf(b []byte) string {
	var sb strings.Builder
	for _, x := range b {
		sb.WriteByte(hexdigits[x>>4])
		sb.WriteByte(hexdigits[x&15])
	}
	return sb.String()
}

// wrongTypeToks: JSON values of every other type, for a field that expects a string.
func wrongTypeToks() []tok {
	return []tok{
		{"null", "null"}, {"true", "bool"}, {"false", "bool"}, {"0", "num0"}, {"12", "num"}, {"-1", "neg"}, {"1.5", "frac"},
		{"1e400", "exp-huge"}, {"18446744073709551616", "2^64"}, {"{}", "obj"}, {"[]", "arr"}, {`["00"]`, "arr-str"},
		{`{"a":"00"}`, "obj-str"},
	}
}

// hexToks: values for a field decoded by enc.Hex (or hex.DecodeString after a string decode): every byte length
// 0..40 (content random unless a valid value of that length is supplied by fill), odd lengths, non-hex
// characters, upper case, escapes, surrounding whitespace inside the string, wrong JSON types.
func hexToks(r *hutil.Rng, fill func(n int) []byte) []tok {
	var out []tok
	for n := 0; n <= 40; n++ {
		var b []byte
		if fill != nil {
			b = fill(n)
		}
		if b == nil {
			b = r.Bytes(n)
		}
		out = append(out, tok{`"` + hexOf(b) + `"`, fmt.Sprintf("hexlen=%d", n)})
	}
	for _, n := range []int{1, 3, 7, 9, 15, 17, 31, 33, 63, 65} { // odd number of hex digits
		out = append(out, tok{`"` + hexOf(r.Bytes(n/2 + 1))[:n] + `"`, fmt.Sprintf("hexodd=%d", n)})
	}
	for _, n := range []int{2, 8, 16, 32} {
		h := []byte(hexOf(r.Bytes(n)))
		h[r.Intn(len(h))] = "gzGZ xX-+_/:@`"[r.Intn(14)]
		out = append(out, tok{`"` + string(h) + `"`, fmt.Sprintf("nonhex=%d", n)})
	}
	out = append(out,
		tok{`"` + strings.ToUpper(hexOf(r.Bytes(8))) + `"`, "hexupper=8"},
		tok{`"` + strings.ToUpper(hexOf(r.Bytes(4))) + `"`, "hexupper=4"},
		tok{`"0x` + hexOf(r.Bytes(4)) + `"`, "0x-prefix"},
		tok{`" ` + hexOf(r.Bytes(4)) + `"`, "space-inside"},
		tok{`"\u0030\u0030` + hexOf(r.Bytes(3)) + `"`, "escaped-digits"},
		tok{`"\n"`, "escape-nl"},
		tok{`"\""`, "escape-quote"},
		tok{`"` + "\xff\xfe" + `"`, "invalid-utf8"},
		tok{`"é"`, "non-ascii"},
		tok{`"` + hexOf(r.Bytes(300)) + `"`, "hexlen=300"},
		tok{`"` + hexOf(r.Bytes(5000)) + `"`, "hexlen=5000"},
	)
	out = append(out, wrongTypeToks()...)
	return out
}

// strToks: values for a plain string field.
func strToks(r *hutil.Rng, valid string) []tok {
	out := []tok{
		jstr(valid), {`""`, "empty"}, jstr(" "), jstr(valid + " "), jstr(strings.ToUpper(valid)),
		{`"\u0000"`, "nul"}, {`"` + "\xff\xfe\xfd" + `"`, "invalid-utf8"}, {`"` + strings.Repeat("a", 300) + `"`, "long=300"},
		{`"` + strings.Repeat("Z", 5000) + `"`, "long=5000"}, {`"` + strings.Repeat("\\u00e9", 50) + `"`, "escapes"},
	}
	out[0].shape = "valid"
	out[2].shape, out[3].shape, out[4].shape = "space", "valid+space", "upper"
	return append(out, wrongTypeToks()...)
}

// uintToks: values for a uint64 field (and for the request id).
func uintToks() []tok {
	return []tok{
		{"0", "0"}, {"1", "1"}, {"2147483647", "2^31-1"}, {"2147483648", "2^31"}, {"4294967296", "2^32"}, {"9007199254740993", "2^53+1"},
		{"9223372036854775807", "2^63-1"}, {"9223372036854775808", "2^63"}, {"18446744073709551615", "2^64-1"},
		{"18446744073709551616", "2^64"}, {"1e30", "1e30"}, {"1e3", "1e3"}, {"-1", "-1"}, {"-0", "-0"}, {"1.5", "1.5"}, {"1.0", "1.0"},
		{`"12"`, "str-num"}, {`""`, "str-empty"}, {"null", "null"}, {"true", "bool"}, {"{}", "obj"}, {"[]", "arr"}, {"[1]", "arr1"},
		{strings.Repeat("9", 400), "digits=400"}, {"0" + strings.Repeat("0", 30) + "1", "leading-zeros"},
	}
}

// lineMalformations: whole-line malformations of a valid line (no trailing newline in the results).
func lineMalformations(r *hutil.Rng, valid string) []tok {
	var out []tok
	n := len(valid)
	cuts := map[int]bool{0: true, 1: true, 2: true, n - 1: true, n - 2: true, n / 2: true}
	for len(cuts) < 14 && len(cuts) < n {
		cuts[r.Intn(n)] = true
	}
	for k := 0; k < n; k++ {
		if cuts[k] {
			out = append(out, tok{valid[:k], "trunc"})
		}
	}
	out = append(out,
		tok{"", "empty-line"}, tok{" ", "space-line"}, tok{"\t \t", "blank-line"}, tok{"null", "json-null"}, tok{"true", "json-true"},
		tok{"0", "json-num"}, tok{`"x"`, "json-str"}, tok{"[]", "json-arr"}, tok{"{}", "json-empty-obj"},
		tok{"[" + valid + "]", "batch1"}, tok{"[" + valid + "," + valid + "]", "batch2"},
		tok{valid + valid, "two-objects"}, tok{valid + " x", "trailing-garbage"}, tok{"  " + valid + "  ", "padded"},
		tok{"\xef\xbb\xbf" + valid, "bom"}, tok{"\x00" + valid, "nul-prefix"}, tok{valid + "\r", "crlf"},
		tok{strings.Repeat("[", 200) + strings.Repeat("]", 200), "nest=200"},
		tok{strings.Repeat("[", 10001) + strings.Repeat("]", 10001), "nest=10001"},
		tok{strings.Repeat(`{"a":`, 12000) + "1" + strings.Repeat("}", 12000), "nest-obj=12000"},
		tok{strings.Repeat("[", 30000), "open-brackets=30000"},
		// exactly one read buffer of the client / one maximal token of the server's scanner full of open brackets:
		// the worst allocation per input byte of encoding/json's scanner
		tok{strings.Repeat("[", 10239), "open-brackets=10239"}, tok{strings.Repeat("[", 10240), "open-brackets=10240"},
		tok{strings.Repeat("[", 65535), "open-brackets=65535"}, tok{strings.Repeat("{\"a\":[", 13000), "open-mixed=13000"},
		tok{string(r.Bytes(40)), "noise"}, tok{strings.ReplaceAll(string(r.Bytes(400)), "\n", "x"), "noise400"},
		tok{"{" + strings.Repeat(`"k":1,`, 3000) + `"k":1}`, "many-keys"},
	)
	// very long lines: the valid object with blanks before the closing brace, total lengths around the buffer
	// sizes of the readers (bufio.Reader of 10 KiB in the client, bufio.Scanner limit of 64 KiB in the server)
	for _, total := range []int{4095, 4096, 4097, 10238, 10239, 10240, 10241, 20480, 65534, 65535, 65536, 65537, 1 << 20, 4 << 20} {
		if total > n {
			out = append(out, tok{valid[:n-1] + strings.Repeat(" ", total-n) + "}", fmt.Sprintf("padded-to=%d", total)})
		}
	}
	return out
}

func noNewline(s string) string { return strings.ReplaceAll(s, "\n", " ") }
