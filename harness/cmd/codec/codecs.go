package main

import (
	"fmt"
	"runtime"
	"strings"

	"verifharness/coqgen"
	"verifharness/hutil"

	"github.com/virel-project/virel-blockchain/v3/binary"
	"github.com/virel-project/virel-blockchain/v3/chaintype"
	"github.com/virel-project/virel-blockchain/v3/config"
	"github.com/virel-project/virel-blockchain/v3/transaction"
)

// A codec is one Go encoder/decoder pair under test; id is the decoder id of Check/CodecVal.v.
type codec struct {
	id   int
	name string
	wire bool                                    // bytes of this decoder come from the network (C12 allocation clause)
	gen  func(r *hutil.Rng, i int) (any, string) // i-th generated value and its shape label
	enc  func(v any) []byte
	dec  func(b []byte) (any, error) // may panic
	term func(v any) string          // Gallina term of the value (also used as the equality of Go values)
	// hand-written hostile inputs that are always run (witnesses of fixed defects stay here)
	corpus  [][]byte
	c12only bool // handler without a value-level codec (not part of the C13 families)
	// variants of a value with one length-prefixed field / counted list changed: the first byte where the
	// encodings differ is the offset of that length prefix or count (grammar-aware hostile inputs go there)
	variants func(v any) []any
	hot      []hotField // filled per run from a few generated values
}

var codecs []*codec

type obs struct {
	class int // 0 ok, 1 error, 2 panic
	val   any
	alloc uint64
	pmsg  string
}

// observe runs the decoder on a private copy of b under recover and measures the bytes allocated meanwhile.
// runtime.MemStats.TotalAlloc counts the whole process: an allocation by any other goroutine (logger, timers, a
// finishing stratum handler) that falls between the two readings is added to the decoder's. The decoders are
// deterministic, such noise can only add, so the measurement is repeated and the minimum is kept.
func observe(c *codec, b []byte) (o obs) {
	o = observeOnce(c, b)
	for i := 0; i < 2; i++ {
		o2 := observeOnce(c, b)
		if o2.class != o.class {
			panic(fmt.Sprintf("decoder %s is not deterministic on %x", c.name, b))
		}
		if o2.alloc < o.alloc {
			o.alloc = o2.alloc
		}
	}
	return
}

func observeOnce(c *codec, b []byte) (o obs) {
	in := append([]byte{}, b...)
	var m1, m2 runtime.MemStats
	runtime.ReadMemStats(&m1)
	func() {
		defer func() {
			if r := recover(); r != nil {
				o.class = 2
				o.pmsg = fmt.Sprint(r)
			}
		}()
		v, err := c.dec(in)
		if err != nil {
			o.class = 1
		} else {
			o.val = v
		}
	}()
	runtime.ReadMemStats(&m2)
	o.alloc = m2.TotalAlloc - m1.TotalAlloc
	return
}

func (o obs) term(c *codec) string {
	switch o.class {
	case 0:
		return "(GOk " + c.term(o.val) + ")"
	case 1:
		return "GErr"
	}
	return "GPanic"
}

var classNames = []string{"ok", "err", "panic"}

// ---------------------------------------------------------------- terms

func tBytes(b []byte) string { return "(B " + coqgen.PackBytes(b) + ")" }

func tOutput(o transaction.Output) string {
	return fmt.Sprintf("(mkoutput %s %d %d)", tBytes(o.Recipient[:]), o.PaymentId, o.Amount)
}

func tTxData(d transaction.TransactionData) string {
	switch x := d.(type) {
	case *transaction.Transfer:
		it := []string{}
		for _, o := range x.Outputs {
			it = append(it, tOutput(o))
		}
		return "(Transfer " + coqgen.List(it) + ")"
	case *transaction.RegisterDelegate:
		return fmt.Sprintf("(RegisterDelegate %s %d)", tBytes(x.Name), x.Id)
	case *transaction.SetDelegate:
		return fmt.Sprintf("(SetDelegate %d %d)", x.DelegateId, x.PreviousDelegate)
	case *transaction.Stake:
		return fmt.Sprintf("(Stake %d %d %d)", x.Amount, x.DelegateId, x.PrevUnlock)
	case *transaction.Unstake:
		return fmt.Sprintf("(Unstake %d %d)", x.Amount, x.DelegateId)
	}
	panic("unknown tx data")
}

func tTx(t *transaction.Transaction) string {
	return fmt.Sprintf("(mktx %d %s %s %s %d %d)", t.Version, tBytes(t.Signer[:]), tBytes(t.Signature[:]), tTxData(t.Data), t.Nonce, t.Fee)
}

func tState(s *chaintype.State) string {
	return fmt.Sprintf("(mkstate %d %d %d %d)", s.Balance, s.LastNonce, s.LastIncoming, s.DelegateId)
}

func tDelegate(d *chaintype.Delegate) string {
	it := []string{}
	for _, f := range d.Funds {
		it = append(it, fmt.Sprintf("(mkfund %s %d %d)", tBytes(f.Owner[:]), f.Amount, f.Unlock))
	}
	return fmt.Sprintf("(mkdelegate %d %s %s %s)", d.Id, tBytes(d.Owner[:]), tBytes(d.Name), coqgen.List(it))
}

// ---------------------------------------------------------------- generators

func fill(r *hutil.Rng, b []byte) {
	switch r.Intn(6) {
	case 0: // zero
	case 1:
		for i := range b {
			b[i] = 0xff
		}
	case 2:
		for i := range b {
			b[i] = 0x80
		}
	default:
		copy(b, r.Bytes(len(b)))
	}
}

func genOutput(r *hutil.Rng) transaction.Output {
	o := transaction.Output{PaymentId: r.Interesting(), Amount: r.Interesting()}
	fill(r, o.Recipient[:])
	return o
}

func genName(r *hutil.Rng) []byte {
	switch r.Intn(6) {
	case 0:
		return []byte{}
	case 1:
		return r.Bytes(16)
	case 2:
		return r.Bytes(127 + r.Intn(3)) // around the one-byte varint limit
	case 3:
		return r.Bytes(300)
	}
	return r.Bytes(1 + r.Intn(20))
}

// kind 1..5; shape selects list sizes
func genTx(r *hutil.Rng, kind int, i int) (*transaction.Transaction, string) {
	t := &transaction.Transaction{Version: uint8(kind), Nonce: r.Interesting(), Fee: r.Interesting()}
	fill(r, t.Signer[:])
	fill(r, t.Signature[:])
	shape := ""
	switch kind {
	case 1:
		n := []int{1, 2, config.MAX_OUTPUTS, 1 + r.Intn(config.MAX_OUTPUTS), 0, config.MAX_OUTPUTS + 1}[i%6]
		if i%12 >= 6 && n != 1 {
			n = 1 + r.Intn(4)
		}
		tr := &transaction.Transfer{}
		for j := 0; j < n; j++ {
			tr.Outputs = append(tr.Outputs, genOutput(r))
		}
		t.Data = tr
		shape = fmt.Sprintf("transfer/n=%s", bucket(n, config.MAX_OUTPUTS))
	case 2:
		nm := genName(r)
		t.Data = &transaction.RegisterDelegate{Name: nm, Id: r.Interesting()}
		shape = fmt.Sprintf("register/name=%s", bucket(len(nm), 16))
	case 3:
		t.Data = &transaction.SetDelegate{DelegateId: r.Interesting(), PreviousDelegate: r.Interesting()}
		shape = "setdelegate"
	case 4:
		t.Data = &transaction.Stake{Amount: r.Interesting(), DelegateId: r.Interesting(), PrevUnlock: r.Interesting()}
		shape = "stake"
	case 5:
		t.Data = &transaction.Unstake{Amount: r.Interesting(), DelegateId: r.Interesting()}
		shape = "unstake"
	}
	return t, shape
}

func bucket(n, max int) string {
	switch {
	case n == 0:
		return "0"
	case n == 1:
		return "1"
	case n == max:
		return "max"
	case n > max:
		return ">max"
	}
	return "mid"
}

func decTx(hasVersion bool) func(b []byte) (any, error) {
	return func(b []byte) (any, error) {
		t := &transaction.Transaction{}
		err := t.Deserialize(b, hasVersion)
		return t, err
	}
}

func txVariants(v any) []any {
	t := v.(*transaction.Transaction)
	w := *t
	switch d := t.Data.(type) {
	case *transaction.Transfer:
		w.Data = &transaction.Transfer{Outputs: append(append([]transaction.Output{}, d.Outputs...), transaction.Output{})}
	case *transaction.RegisterDelegate:
		w.Data = &transaction.RegisterDelegate{Name: append(append([]byte{}, d.Name...), 'x'), Id: d.Id}
	default:
		return nil
	}
	return []any{&w}
}

func uvarintBytes(x uint64) []byte { return binary.AppendUvarint(nil, x) }

func init() {
	codecs = append(codecs,
		&codec{id: 1, name: "uvarint",
			gen: func(r *hutil.Rng, i int) (any, string) {
				x := r.Interesting()
				return x, fmt.Sprintf("len=%d", len(uvarintBytes(x)))
			},
			enc:  func(v any) []byte { s := binary.Ser{}; s.AddUvarint(v.(uint64)); return s.Output() },
			dec:  func(b []byte) (any, error) { d := binary.NewDes(b); x := d.ReadUvarint(); return x, d.Error() },
			term: func(v any) string { return fmt.Sprintf("(VU64 %d)", v.(uint64)) },
		},
		&codec{id: 2, name: "byteslice",
			gen: func(r *hutil.Rng, i int) (any, string) {
				n := []int{0, 1, 127, 128, 129, 300, r.Intn(64)}[i%7]
				return r.Bytes(n), fmt.Sprintf("len=%s", bucket(n, 128))
			},
			enc:      func(v any) []byte { s := binary.Ser{}; s.AddByteSlice(v.([]byte)); return s.Output() },
			variants: func(v any) []any { return []any{append(append([]byte{}, v.([]byte)...), 1)} },
			dec:      func(b []byte) (any, error) { d := binary.NewDes(b); x := d.ReadByteSlice(); return x, d.Error() },
			term:     func(v any) string { return "(VBytes " + tBytes(v.([]byte)) + ")" },
			corpus: [][]byte{
				append(uvarintBytes(1<<63), 1, 2, 3),      // R4: int(length) < 0
				append(uvarintBytes(^uint64(0)), 1, 2, 3), // R4
				append(uvarintBytes(1<<63+5), make([]byte, 40)...),
				append(uvarintBytes(1<<63-1), 1, 2, 3),
				append(uvarintBytes(1<<31), 1, 2, 3),
				append(uvarintBytes(4), 1, 2, 3),
			},
		},
		&codec{id: 3, name: "output",
			gen: func(r *hutil.Rng, i int) (any, string) { return genOutput(r), "output" },
			enc: func(v any) []byte { s := binary.Ser{}; v.(transaction.Output).Serialize(&s); return s.Output() },
			dec: func(b []byte) (any, error) {
				d := binary.NewDes(b)
				o := transaction.Output{}
				err := o.Deserialize(&d)
				return o, err
			},
			term: func(v any) string { return "(VOutput " + tOutput(v.(transaction.Output)) + ")" },
		},
		&codec{id: 4, name: "tx", wire: true,
			gen: func(r *hutil.Rng, i int) (any, string) {
				kind := 1 + i%5
				t, shape := genTx(r, kind, i/5)
				if i%61 == 60 { // not well-formed: the version differs from the payload's version
					t.Version = uint8(1 + (kind % 5))
					shape += "/version-mismatch"
				}
				return t, shape
			},
			enc:      func(v any) []byte { return v.(*transaction.Transaction).Serialize() },
			dec:      decTx(true),
			variants: txVariants,
			term:     func(v any) string { return "(VTx " + tTx(v.(*transaction.Transaction)) + ")" },
			corpus: [][]byte{
				// R4: register-delegate transaction whose name length is 2^63 (peer TX packet -> Transaction.Deserialize)
				append(append(append([]byte{2}, make([]byte, 96)...), uvarintBytes(1<<63)...), 1, 1, 1),
				append(append(append([]byte{2}, make([]byte, 96)...), uvarintBytes(^uint64(0))...), 1, 1, 1),
			},
		},
		&codec{id: 5, name: "tx0", wire: true,
			gen: func(r *hutil.Rng, i int) (any, string) {
				t, shape := genTx(r, 1, i)
				t.Version = 0
				if i%41 == 40 {
					t, shape = genTx(r, 2+i%4, i)
					t.Version = 0
					shape += "/v0-nontransfer"
				}
				return t, "v0/" + shape
			},
			enc:      func(v any) []byte { return v.(*transaction.Transaction).Serialize() },
			dec:      decTx(false),
			variants: txVariants,
			term:     func(v any) string { return "(VTx " + tTx(v.(*transaction.Transaction)) + ")" },
		},
		&codec{id: 6, name: "state",
			gen: func(r *hutil.Rng, i int) (any, string) {
				return &chaintype.State{Balance: r.Interesting(), LastNonce: r.Interesting(), LastIncoming: r.Interesting(), DelegateId: r.Interesting()}, "state"
			},
			enc:    func(v any) []byte { return v.(*chaintype.State).Serialize() },
			dec:    func(b []byte) (any, error) { s := &chaintype.State{}; err := s.Deserialize(b); return s, err },
			term:   func(v any) string { return "(VState " + tState(v.(*chaintype.State)) + ")" },
			corpus: [][]byte{{1, 2, 3}, {1, 2, 3, 1}, {1, 2, 3, 1, 0x80}, {1, 2, 3, 2, 1}, {0x80, 0x80}},
		},
		&codec{id: 7, name: "delegate",
			gen: func(r *hutil.Rng, i int) (any, string) {
				d := &chaintype.Delegate{Id: r.Interesting(), Name: genName(r)}
				fill(r, d.Owner[:])
				n := []int{0, 1, 2, 40, r.Intn(8)}[i%5]
				for j := 0; j < n; j++ {
					f := &chaintype.DelegatedFund{Amount: r.Interesting(), Unlock: r.Interesting()}
					fill(r, f.Owner[:])
					d.Funds = append(d.Funds, f)
				}
				return d, fmt.Sprintf("delegate/funds=%s/name=%s", bucket(n, 40), bucket(len(d.Name), 16))
			},
			enc: func(v any) []byte { return v.(*chaintype.Delegate).Serialize() },
			variants: func(v any) []any {
				d := v.(*chaintype.Delegate)
				a, b := *d, *d
				a.Name = append(append([]byte{}, d.Name...), 'x')
				b.Funds = append(append([]*chaintype.DelegatedFund{}, d.Funds...), &chaintype.DelegatedFund{})
				return []any{&a, &b}
			},
			dec:  func(b []byte) (any, error) { d := &chaintype.Delegate{}; err := d.Deserialize(b); return d, err },
			term: func(v any) string { return "(VDelegate " + tDelegate(v.(*chaintype.Delegate)) + ")" },
		},
	)
}

func codecByName(n string) *codec {
	for _, c := range codecs {
		if c.name == n {
			return c
		}
	}
	panic("no codec " + n)
}

var _ = strings.Join
