package main

import (
	"bufio"
	"encoding/hex"
	"fmt"
	"io"
	"os"
	"os/exec"
	"strconv"
	"strings"
	"syscall"
)

// Unrecoverable failures (out of memory, stack exhaustion, fatal runtime errors) kill the process and cannot be
// observed with recover().  Every input is therefore first decoded in a child process ("worker"); when the child
// dies on an input, the input is recorded with outcome class "panic" (message: the child's fatal error) and is
// not decoded in this process.

func init() { families["worker"] = func(string) { workerMain() } }

func workerMain() {
	// fail fast on absurd allocations instead of swapping
	lim := syscall.Rlimit{Cur: 6 << 30, Max: 6 << 30}
	syscall.Setrlimit(syscall.RLIMIT_AS, &lim)
	in := bufio.NewReaderSize(os.Stdin, 1<<20)
	out := bufio.NewWriter(os.Stdout)
	for {
		line, err := in.ReadString('\n')
		if err != nil {
			return
		}
		f := strings.Fields(line)
		if len(f) < 1 {
			continue
		}
		id, _ := strconv.Atoi(f[0])
		var b []byte
		if len(f) > 1 {
			b, _ = hex.DecodeString(f[1])
		}
		var c *codec
		for _, x := range codecs {
			if x.id == id {
				c = x
			}
		}
		o := observe(c, b)
		fmt.Fprintf(out, "%d\n", o.class)
		out.Flush()
	}
}

type isolator struct {
	cmd    *exec.Cmd
	stdin  io.WriteCloser
	stdout *bufio.Reader
	stderr *strings.Builder
}

var iso *isolator

func (w *isolator) start() {
	w.cmd = exec.Command(os.Args[0], "worker", "-")
	w.stdin, _ = w.cmd.StdinPipe()
	so, _ := w.cmd.StdoutPipe()
	w.stdout = bufio.NewReader(so)
	w.stderr = &strings.Builder{}
	w.cmd.Stderr = w.stderr
	if err := w.cmd.Start(); err != nil {
		panic(err)
	}
}

// survives reports whether a child process survives decoding b with codec c; msg is the fatal error otherwise.
func survives(c *codec, b []byte) (bool, string) {
	if iso == nil {
		iso = &isolator{}
		iso.start()
	}
	fmt.Fprintf(iso.stdin, "%d %s\n", c.id, hex.EncodeToString(b))
	_, err := iso.stdout.ReadString('\n')
	if err == nil {
		return true, ""
	}
	iso.cmd.Wait()
	msg := "process died"
	for _, l := range strings.Split(iso.stderr.String(), "\n") {
		if strings.HasPrefix(l, "fatal error:") || strings.HasPrefix(l, "runtime:") || strings.HasPrefix(l, "panic:") {
			msg = "process died: " + l
			break
		}
	}
	iso.start()
	return false, msg
}

// observeSafe = observe, but an input that kills a child process is reported as a panic without running it here.
func observeSafe(c *codec, b []byte) obs {
	if ok, msg := survives(c, b); !ok {
		return obs{class: 2, pmsg: msg}
	}
	return observe(c, b)
}
