// codec: correspondence harness for the serialisation layer (C13 round trips, C12 hostile bytes).
// usage: codec <family> <outdir>
package main

import (
	"fmt"
	"os"
)

var families = map[string]func(out string){}

func main() {
	if len(os.Args) < 3 {
		fmt.Println("usage: codec <family> <outdir>")
		os.Exit(2)
	}
	f, ok := families[os.Args[1]]
	if !ok {
		fmt.Println("unknown family", os.Args[1])
		os.Exit(2)
	}
	f(os.Args[2])
}
