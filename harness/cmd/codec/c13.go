package main

import (
	"bytes"
	"fmt"

	"verifharness/coqgen"
	"verifharness/hutil"

	"github.com/virel-project/virel-blockchain/v3/block"
	"github.com/virel-project/virel-blockchain/v3/config"
)

func init() { families["c13"] = c13 }

// c13Case runs decode / re-encode / decode / re-encode on the Go side and prints the case.
func c13Case(sink *coqgen.Sink, c *codec, src any, in []byte, gen, shape string) {
	o1 := observeSafe(c, in)
	var e1, e2 []byte
	o2 := obs{class: 1}
	if o1.class == 0 {
		e1 = c.enc(o1.val)
		o2 = observeSafe(c, e1)
		if o2.class == 0 {
			e2 = c.enc(o2.val)
		}
	}
	srcT := "None"
	rt := ""
	t1, t2 := o1.term(c), o2.term(c)
	if src != nil {
		st := c.term(src)
		srcT = coqgen.Some(st)
		same := o1.class == 0 && c.term(o1.val) == st
		rt = fmt.Sprintf("/rt=%v", same)
		if same {
			t1 = "GSame"
		}
	}
	stable := o1.class != 0 || (o2.class == 0 && c.term(o2.val) == c.term(o1.val) && bytes.Equal(e1, e2))
	if o1.class == 0 && o2.class == 0 && c.term(o2.val) == c.term(o1.val) {
		t2 = "GSame"
	}
	// byte strings identical to the previous one are abbreviated
	p1, p2 := coqgen.Some(coqgen.PackBytes(e1)), coqgen.Some(coqgen.PackBytes(e2))
	if o1.class == 0 && bytes.Equal(e1, in) {
		p1 = "None"
	}
	if o2.class == 0 && bytes.Equal(e2, e1) {
		p2 = "None"
	}
	term := fmt.Sprintf("C13 %d %s %s %s %s %s %s", c.id, srcT, coqgen.PackBytes(in), t1, p1, t2, p2)
	class := fmt.Sprintf("%s/%s/%s/%s%s/stable=%v/canon=%v", c.name, gen, shape, classNames[o1.class], rt, stable, o1.class == 0 && bytes.Equal(e1, in))
	sink.Add(term, class, map[string]any{"decoder": c.name, "gen": gen, "shape": shape, "input_hex": fmt.Sprintf("%x", in),
		"go_class": classNames[o1.class], "go_panic": o1.pmsg, "reencoded_hex": fmt.Sprintf("%x", e1), "go_class2": classNames[o2.class], "reencoded2_hex": fmt.Sprintf("%x", e2)})
}

func c13(out string) {
	sink := coqgen.NewSink(out, "c13", "c13_case", 250)
	thorough := hutil.Tier() == "thorough"
	nvals, scale := 60, 1
	if thorough {
		nvals, scale = 600, 4
	}
	for _, c := range codecs {
		if c.c12only || !inThisConfig(c) {
			continue
		}
		rng := hutil.NewRng(1300 + uint64(c.id))
		var encs [][]byte
		var vals []any
		for i := 0; i < nvals; i++ {
			v, shape := c.gen(rng, i)
			b := c.enc(v)
			encs = append(encs, b)
			vals = append(vals, v)
			c13Case(sink, c, v, b, "value", shape)
		}
		c.hot = pickHot(c, vals)
		// samples for the decoder stream: the shortest non-empty encoding, the first one, a random one
		samples := pickSamples(rng, encs, 3)
		for _, in := range decoderStream(c, rng, samples, scale) {
			c13Case(sink, c, nil, in.b, in.gen, in.shape)
		}
	}
	// sender's stored form vs wire form of the same block
	{
		rng := hutil.NewRng(1399)
		n := 60
		if thorough {
			n = 400
		}
		for i := 0; i < n; i++ {
			f, shape := genFull(rng, i)
			if len(f.b.OtherChains) > config.MAX_MERGE_MINED_CHAINS-1 || len(f.b.SideBlocks) > config.MAX_SIDE_BLOCKS {
				continue
			}
			stored := f.b.Serialize()
			wire := serializeFull(f)
			rb := &block.Block{}
			rtxs, err := rb.DeserializeFull(wire)
			ok := err == nil
			sameHash := ok && rb.Hash() == f.b.Hash()
			sameIds := ok && len(rb.Transactions) == len(f.b.Transactions) && len(rtxs) == len(f.txs)
			if sameIds {
				for j := range rb.Transactions {
					if rb.Transactions[j] != f.b.Transactions[j] || rtxs[j].Hash() != f.b.Transactions[j] {
						sameIds = false
					}
				}
			}
			it := []string{}
			for _, t := range f.txs {
				it = append(it, tTx(t))
			}
			term := fmt.Sprintf("C13W %s %s %s %s %s %s %s", tBlock(f.b, true), coqgen.List(it), coqgen.PackBytes(wire), coqgen.PackBytes(stored),
				coqgen.Bool(ok), coqgen.Bool(sameHash), coqgen.Bool(sameIds))
			class := fmt.Sprintf("wire/%s/ok=%v/hash=%v/ids=%v", shape, ok, sameHash, sameIds)
			sink.Add(term, class, map[string]any{"decoder": "wire-vs-stored", "shape": shape, "wire_hex": fmt.Sprintf("%x", wire), "stored_hex": fmt.Sprintf("%x", stored),
				"accepted": ok, "same_hash": sameHash, "same_ids": sameIds})
		}
	}
	sink.Meta["rule"] = "per decoder: generated values (boundary-biased fields, empty/maximal lists, all kinds) -> Go encoding, Go decode, re-encode, decode, re-encode; decoder stream = truncations, single-byte mutations, extensions, hostile varints (2^31, 2^63, 2^64-1, overflowing and non-canonical forms) spliced at byte offsets of sample encodings, plus the always-run corpus. A class is (decoder, generator, shape, Go outcome, round-trip flag, stability, canonicity)."
	if err := sink.Close(); err != nil {
		panic(err)
	}
}

func pickSamples(r *hutil.Rng, encs [][]byte, n int) [][]byte {
	var out [][]byte
	short := -1
	for i, e := range encs {
		if len(e) > 0 && (short < 0 || len(e) < len(encs[short])) {
			short = i
		}
	}
	if short >= 0 {
		out = append(out, encs[short])
	}
	// mutation streams multiply the sample size by hundreds of cases: keep samples small
	var small [][]byte
	for _, e := range encs {
		if len(e) > 0 && len(e) < 1500 {
			small = append(small, e)
		}
	}
	for len(out) < n && len(small) > 0 {
		out = append(out, small[r.Intn(len(small))])
	}
	return out
}

// Under the unit-test configuration every codec runs.  Under the other configurations only the codecs whose
// behaviour depends on configuration constants that differ (the version-byte gate HARDFORK_V2_HEIGHT of
// DeserializeFull, transactions) run again.
func inThisConfig(c *codec) bool {
	if config.HARDFORK_V2_HEIGHT == 1 && config.HARDFORK_V3_HEIGHT == 1 {
		return true
	}
	return c.name == "fullblock" || c.name == "tx" || c.name == "tx0"
}

// pickHot: length-prefix / count offsets of a few small generated values (at most 4 fields in total per shape of offset)
func pickHot(c *codec, vals []any) []hotField {
	var out []hotField
	seen := map[int]int{}
	for _, v := range vals {
		if len(out) >= 6 {
			break
		}
		if len(c.enc(v)) == 0 || len(c.enc(v)) > 1500 {
			continue
		}
		for _, h := range hotOffsets(c, v) {
			if seen[h.off] < 2 && len(out) < 6 {
				seen[h.off]++
				out = append(out, h)
			}
		}
	}
	return out
}
