package main

import (
	"fmt"
	"sort"

	"verifharness/hutil"
)

type input struct {
	b     []byte
	gen   string // generator
	shape string
}

type namedTok struct {
	name string
	b    []byte
}

// varints and length prefixes an attacker would try
func hostileTokens() []namedTok {
	rep := func(b byte, n int, last ...byte) []byte {
		o := make([]byte, n)
		for i := range o {
			o[i] = b
		}
		return append(o, last...)
	}
	return []namedTok{
		{"2^31", uvarintBytes(1 << 31)},
		{"2^31-1", uvarintBytes(1<<31 - 1)},
		{"2^32", uvarintBytes(1 << 32)},
		{"2^63", uvarintBytes(1 << 63)},
		{"2^63-1", uvarintBytes(1<<63 - 1)},
		{"2^63+1", uvarintBytes(1<<63 + 1)},
		{"2^64-1", uvarintBytes(^uint64(0))},
		{"ovf10", rep(0xff, 9, 0x02)},  // 10 bytes, last > 1: overflow
		{"ovf11", rep(0x80, 10, 0x01)}, // 11 bytes: overflow
		{"cont9", rep(0x80, 9)},        // continuation bits only (truncated when last)
		{"cont10", rep(0xff, 10)},
		{"noncanon", []byte{0x80, 0x00}},
		{"noncanon9", rep(0x80, 9, 0x00)},
		{"zero", []byte{0}},
		{"small", []byte{3}},
		{"mid", uvarintBytes(1000)},
		{"max+1", uvarintBytes(1001)},
	}
}

func pickOffsets(r *hutil.Rng, n, want int, always ...int) []int {
	set := map[int]bool{}
	for _, a := range always {
		if a >= 0 && a < n {
			set[a] = true
		}
	}
	if want >= n {
		for i := 0; i < n; i++ {
			set[i] = true
		}
	} else {
		for len(set) < want {
			set[r.Intn(n)] = true
		}
	}
	out := make([]int, 0, len(set))
	for k := range set {
		out = append(out, k)
	}
	sort.Ints(out)
	return out
}

// decoderStream derives malformed inputs from valid encodings: truncations, single-byte mutations, extensions,
// hostile varints spliced in at byte offsets, and the always-run corpus of the codec.
func decoderStream(c *codec, r *hutil.Rng, samples [][]byte, scale int) []input {
	var out []input
	add := func(b []byte, gen, shape string) {
		out = append(out, input{b: append([]byte{}, b...), gen: gen, shape: shape})
	}
	// grammar-aware: hostile varints exactly at the offsets of length prefixes and counts
	for _, h := range c.hot {
		for _, t := range hostileTokens() {
			m := append(append([]byte{}, h.enc[:h.off]...), t.b...)
			add(m, "field-trunc", t.name)
			if h.off < len(h.enc) {
				add(append(m, h.enc[h.off+1:]...), "field", t.name)
			}
		}
	}
	for i, cb := range c.corpus {
		add(cb, "corpus", fmt.Sprintf("%d", i))
	}
	add([]byte{}, "empty", "")
	for si, s := range samples {
		n := len(s)
		sname := fmt.Sprintf("s%d", si)
		// truncations
		for _, k := range pickOffsets(r, n, 30*scale, 0, 1, n-1) {
			add(s[:k], "trunc", sname)
		}
		// single-byte mutations
		for _, k := range pickOffsets(r, n, 30*scale, 0, n-1) {
			m := append([]byte{}, s...)
			switch r.Intn(5) {
			case 0:
				m[k] ^= 0x80
			case 1:
				m[k] = 0xff
			case 2:
				m[k] = 0
			case 3:
				m[k]++
			default:
				m[k] ^= byte(1 + r.Intn(255))
			}
			add(m, "mutate", sname)
		}
		// extensions
		add(append(append([]byte{}, s...), 0), "extend", sname)
		add(append(append([]byte{}, s...), 0x80), "extend", sname)
		add(append(append([]byte{}, s...), r.Bytes(1+r.Intn(8))...), "extend", sname)
		// hostile tokens: replace the byte at offset k by the token, with and without the rest of the sample
		for _, t := range hostileTokens() {
			for _, k := range pickOffsets(r, n+1, 3*scale, 0, n) {
				m := append(append([]byte{}, s[:k]...), t.b...)
				if r.Intn(3) == 0 {
					add(m, "token-trunc", t.name)
				} else {
					if k < n {
						m = append(m, s[k+1:]...)
					}
					add(m, "token", t.name)
				}
			}
		}
	}
	return out
}

type hotField struct {
	enc []byte
	off int
}

// hotOffsets finds offsets of length prefixes / counts of the encoding of v by comparing with the encodings of its variants.
func hotOffsets(c *codec, v any) []hotField {
	if c.variants == nil {
		return nil
	}
	e := c.enc(v)
	var out []hotField
	seen := map[int]bool{}
	for _, w := range c.variants(v) {
		f := c.enc(w)
		k := 0
		for k < len(e) && k < len(f) && e[k] == f[k] {
			k++
		}
		if k < len(e) && !seen[k] {
			seen[k] = true
			out = append(out, hotField{enc: e, off: k})
		}
	}
	return out
}
