package main

// Child-process isolation for the session families of C12 (stratum client / server lines).
//
// A session drives real handler code that starts goroutines of its own (job reader, template builder); a panic
// in one of those, an out-of-memory abort or a stack overflow kills the process and cannot be observed with
// recover().  The sessions are therefore run by a child process (same binary, family "<name>-child") that
// announces every session before it starts it ("B <i>") and reports its observation afterwards ("E <i> <json>").
// When the child dies between the two, the parent records session i as "process died" with the child's fatal
// message and starts a new child at session i+1.  Sessions are generated deterministically from the seed on both
// sides, only indices and observations cross the pipe.

import (
	"bufio"
	"encoding/json"
	"fmt"
	"os"
	"os/exec"
	"strconv"
	"strings"
	"syscall"
)

// isoChild runs sessions start..n-1 (start from VERIF_ISO_START) and reports on stdout.
func isoChild(n int, run func(i int) any) {
	// fail fast on absurd allocations instead of swapping
	lim := syscall.Rlimit{Cur: 8 << 30, Max: 8 << 30}
	syscall.Setrlimit(syscall.RLIMIT_AS, &lim)
	start, _ := strconv.Atoi(os.Getenv("VERIF_ISO_START"))
	// the protocol has a pipe of its own (descriptor 3): loggers of the code under test write to stdout/stderr
	out := bufio.NewWriterSize(os.NewFile(3, "iso"), 1<<16)
	for i := start; i < n; i++ {
		fmt.Fprintf(out, "B %d\n", i)
		out.Flush()
		o := run(i)
		b, err := json.Marshal(o)
		if err != nil {
			panic(err)
		}
		fmt.Fprintf(out, "E %d %s\n", i, b)
	}
	out.Flush()
}

// isoParent collects the observation of every session; died[i] is the fatal message when session i killed its child.
func isoParent(family string, n int) (obs []json.RawMessage, died []string) {
	obs = make([]json.RawMessage, n)
	died = make([]string, n)
	next := 0
	for next < n {
		cmd := exec.Command(os.Args[0], family+"-child", "-")
		cmd.Env = append(os.Environ(), "VERIF_ISO_START="+strconv.Itoa(next))
		so, pw, err := os.Pipe()
		if err != nil {
			panic(err)
		}
		cmd.ExtraFiles = []*os.File{pw}
		stderr := &tailBuf{}
		cmd.Stderr = stderr
		if err := cmd.Start(); err != nil {
			panic(err)
		}
		pw.Close()
		rd := bufio.NewReaderSize(so, 1<<20)
		cur := -1
		for {
			line, err := rd.ReadString('\n')
			if err != nil {
				break
			}
			f := strings.SplitN(strings.TrimRight(line, "\n"), " ", 3)
			if len(f) < 2 {
				continue
			}
			i, _ := strconv.Atoi(f[1])
			if f[0] == "B" {
				cur = i
			} else if f[0] == "E" && len(f) == 3 {
				obs[i] = json.RawMessage(f[2])
				cur = -1
				next = i + 1
			}
		}
		so.Close()
		werr := cmd.Wait()
		if next >= n && werr == nil {
			break
		}
		if cur < 0 {
			// the child died outside any session (set-up): nothing to attribute the death to
			panic(fmt.Sprintf("child of family %s died outside a session (%v):\n%s", family, werr, stderr.String()))
		}
		msg := "process died"
		for _, l := range strings.Split(stderr.String(), "\n") {
			if strings.HasPrefix(l, "fatal error:") || strings.HasPrefix(l, "runtime:") || strings.HasPrefix(l, "panic:") {
				msg = "process died: " + l
				break
			}
		}
		died[cur] = msg
		next = cur + 1
	}
	return
}

// tailBuf keeps the first 64 KiB written to it (a dying Go process prints the reason first).
type tailBuf struct{ b []byte }

func (t *tailBuf) Write(p []byte) (int, error) {
	if len(t.b) < 1<<16 {
		t.b = append(t.b, p...)
	}
	return len(p), nil
}
func (t *tailBuf) String() string { return string(t.b) }
