package main

import (
	"fmt"

	"verifharness/coqgen"
	"verifharness/hutil"

	"github.com/virel-project/virel-blockchain/v3/adb"
	"github.com/virel-project/virel-blockchain/v3/binary"
	"github.com/virel-project/virel-blockchain/v3/block"
	"github.com/virel-project/virel-blockchain/v3/blockchain"
	"github.com/virel-project/virel-blockchain/v3/config"
	"github.com/virel-project/virel-blockchain/v3/p2p"
	"github.com/virel-project/virel-blockchain/v3/p2p/packet"
	"github.com/virel-project/virel-blockchain/v3/transaction"
	"github.com/virel-project/virel-blockchain/v3/util/uint128"
)

// ---------------------------------------------------------------- terms

func tU128(u uint128.Uint128) string { return u.Big().String() }

func tHid(h block.HashingID) string {
	return fmt.Sprintf("(mkhid %d %s)", h.NetworkID, tBytes(h.Hash[:]))
}
func tHids(l []block.HashingID) string {
	it := []string{}
	for _, h := range l {
		it = append(it, tHid(h))
	}
	return coqgen.List(it)
}
func tHashes32(n int, at func(i int) []byte) string {
	it := []string{}
	for i := 0; i < n; i++ {
		it = append(it, tBytes(at(i)))
	}
	return coqgen.List(it)
}
func tCommitment(c block.Commitment) string {
	return fmt.Sprintf("(mkcommit %s %s %d %d %s %s)", tBytes(c.BaseHash[:]),
		tHashes32(len(c.Ancestors), func(i int) []byte { return c.Ancestors[i][:] }),
		c.Timestamp, c.Nonce, tBytes(c.NonceExtra[:]), tHids(c.OtherChains))
}
func tHeader(h *block.BlockHeader) string {
	side := []string{}
	for _, c := range h.SideBlocks {
		side = append(side, tCommitment(c))
	}
	return fmt.Sprintf("(mkheader %d %d %d %d %s %s %s %s %s %d %d %s)", h.Version, h.Height, h.Timestamp, h.Nonce,
		tBytes(h.NonceExtra[:]), tHids(h.OtherChains), tBytes(h.Recipient[:]),
		tHashes32(len(h.Ancestors), func(i int) []byte { return h.Ancestors[i][:] }),
		coqgen.List(side), h.DelegateId, h.NextDelegateId, tBytes(h.StakeSignature[:]))
}
func tBlock(b *block.Block, withIds bool) string {
	ids := "[]"
	if withIds {
		ids = tHashes32(len(b.Transactions), func(i int) []byte { return b.Transactions[i][:] })
	}
	return fmt.Sprintf("(mkblock %s %s %s %s)", tHeader(&b.BlockHeader), tU128(b.Difficulty), tU128(b.CumulativeDiff), ids)
}

type fullBlock struct {
	b   *block.Block
	txs []*transaction.Transaction
}

func tFull(f *fullBlock) string {
	it := []string{}
	for _, t := range f.txs {
		it = append(it, tTx(t))
	}
	return fmt.Sprintf("(VFull %s %s)", tBlock(f.b, false), coqgen.List(it))
}
func tBlob(m *block.MiningBlob) string {
	return fmt.Sprintf("(mkblob %d %d %s %s)", m.Timestamp, m.Nonce, tBytes(m.NonceExtra[:]), tHids(m.Chains))
}

// ---------------------------------------------------------------- generators

func genU128(r *hutil.Rng) uint128.Uint128 {
	switch r.Intn(6) {
	case 0:
		return uint128.From64(r.Interesting())
	case 1:
		return uint128.New(r.Interesting(), r.Interesting())
	case 2:
		return uint128.New(0, 1<<uint(r.Intn(64))) // trailing zero bytes in the low word
	case 3:
		return uint128.From64(uint64(1) << uint(8*r.Intn(8)))
	case 4:
		return uint128.Max
	}
	return uint128.New(r.U64(), r.U64()>>uint(r.Intn(64)))
}

func genHids(r *hutil.Rng, n int) []block.HashingID {
	var l []block.HashingID
	for i := 0; i < n; i++ {
		h := block.HashingID{NetworkID: r.Interesting()}
		fill(r, h.Hash[:])
		l = append(l, h)
	}
	return l
}

func pickN(r *hutil.Rng, i int, max int) int {
	return []int{0, 1, max, r.Intn(max + 1), 2 % (max + 1)}[i%5]
}

func genCommitment(r *hutil.Rng, i int) block.Commitment {
	c := block.Commitment{Timestamp: r.Interesting(), Nonce: uint32(r.Interesting())}
	fill(r, c.BaseHash[:])
	for j := range c.Ancestors {
		fill(r, c.Ancestors[j][:])
	}
	fill(r, c.NonceExtra[:])
	c.OtherChains = genHids(r, pickN(r, i, config.MAX_MERGE_MINED_CHAINS-1))
	return c
}

func genHeader(r *hutil.Rng, i int) (block.BlockHeader, string) {
	h := block.BlockHeader{Version: uint8(i % 2), Height: r.Interesting(), Timestamp: r.Interesting(), Nonce: uint32(r.Interesting())}
	if i%23 == 22 {
		h.Version = uint8(2 + r.Intn(254))
	}
	fill(r, h.NonceExtra[:])
	fill(r, h.Recipient[:])
	for j := range h.Ancestors {
		fill(r, h.Ancestors[j][:])
	}
	nc := pickN(r, i/2, config.MAX_MERGE_MINED_CHAINS-1)
	ns := pickN(r, i/3, config.MAX_SIDE_BLOCKS)
	if i%29 == 28 {
		nc = config.MAX_MERGE_MINED_CHAINS // over the limit
	}
	if i%31 == 30 {
		ns = config.MAX_SIDE_BLOCKS + 1
	}
	h.OtherChains = genHids(r, nc)
	for j := 0; j < ns; j++ {
		h.SideBlocks = append(h.SideBlocks, genCommitment(r, i+j))
	}
	if h.Version > 0 {
		h.DelegateId, h.NextDelegateId = r.Interesting(), r.Interesting()
		fill(r, h.StakeSignature[:])
	} else if i%37 == 36 {
		h.DelegateId = 5 // not well-formed: a version-0 header has no stake fields
	}
	return h, fmt.Sprintf("v%d/chains=%s/side=%s", min(int(h.Version), 2), bucket(nc, config.MAX_MERGE_MINED_CHAINS-1), bucket(ns, config.MAX_SIDE_BLOCKS))
}

func genBlock(r *hutil.Rng, i int) (*block.Block, string) {
	h, shape := genHeader(r, i)
	b := &block.Block{BlockHeader: h, Difficulty: genU128(r), CumulativeDiff: genU128(r)}
	if i%17 == 16 {
		b.Difficulty = uint128.Uint128{}
	}
	if b.Difficulty.IsZero() {
		shape += "/diff=0"
	}
	n := []int{0, 1, 3, r.Intn(20), 2}[i%5]
	if i == 7 {
		n = config.MAX_TX_PER_BLOCK
	}
	if i == 12 {
		n = config.MAX_TX_PER_BLOCK + 1
	}
	for j := 0; j < n; j++ {
		var id transaction.TXID
		fill(r, id[:])
		b.Transactions = append(b.Transactions, id)
	}
	return b, shape + "/txs=" + bucket(n, config.MAX_TX_PER_BLOCK)
}

// in-memory adb.Txn holding the stored transactions SerializeFullBlock looks up
type memTxn map[string][]byte

func (m memTxn) Get(_ adb.Index, k []byte) []byte                 { return m[string(k)] }
func (m memTxn) Put(_ adb.Index, k []byte, v []byte) error        { m[string(k)] = v; return nil }
func (m memTxn) Del(_ adb.Index, k []byte) error                  { delete(m, string(k)); return nil }
func (m memTxn) ForEach(adb.Index, func(k, v []byte) error) error { return nil }
func (m memTxn) ForEachInterrupt(adb.Index, func(k, v []byte) (bool, error)) error {
	return nil
}
func (m memTxn) Entries(adb.Index) (uint64, error) { return uint64(len(m)), nil }

var bcStub = &blockchain.Blockchain{}

// wire form through the real blockchain.SerializeFullBlock over a stub store (format of the tx index: uint64 height || tx)
func serializeFull(f *fullBlock) []byte {
	store := memTxn{}
	for _, t := range f.txs {
		id := t.Hash()
		s := binary.Ser{}
		s.AddUint64(f.b.Height)
		s.AddFixedByteArray(t.Serialize())
		store[string(id[:])] = s.Output()
	}
	out, err := bcStub.SerializeFullBlock(store, f.b)
	if err != nil {
		panic(fmt.Sprintf("SerializeFullBlock: %v", err))
	}
	return out
}

func genFull(r *hutil.Rng, i int) (*fullBlock, string) {
	b, shape := genBlock(r, i)
	b.Transactions = nil
	switch i % 4 {
	case 0:
		b.Height = 0
	case 1:
		b.Height = config.HARDFORK_V2_HEIGHT
	case 2:
		b.Height = config.HARDFORK_V2_HEIGHT - 1
	}
	hv := b.Height >= config.HARDFORK_V2_HEIGHT
	n := []int{0, 1, 3, r.Intn(12), 2}[i%5]
	if i == 9 {
		n = 120
	}
	f := &fullBlock{b: b}
	for j := 0; j < n; j++ {
		kind := 1
		if hv {
			kind = 1 + (i+j)%5
		}
		t, _ := genTx(r, kind, 12+r.Intn(4)) // shapes with 1..4 outputs (well-formed)
		if !hv {
			t.Version = 0
		}
		f.txs = append(f.txs, t)
		b.Transactions = append(b.Transactions, t.Hash())
	}
	return f, fmt.Sprintf("hasversion=%v/%s/ntx=%s", hv, shape, bucket(n, 120))
}

func init() {
	codecs = append(codecs,
		&codec{id: 8, name: "commitment",
			gen: func(r *hutil.Rng, i int) (any, string) {
				c := genCommitment(r, i)
				return c, fmt.Sprintf("chains=%s", bucket(len(c.OtherChains), config.MAX_MERGE_MINED_CHAINS-1))
			},
			enc: func(v any) []byte { return v.(block.Commitment).Serialize() },
			variants: func(v any) []any {
				c := v.(block.Commitment)
				c.OtherChains = append(append([]block.HashingID{}, c.OtherChains...), block.HashingID{})
				return []any{c}
			},
			dec: func(b []byte) (any, error) {
				d := binary.NewDes(b)
				c := block.Commitment{}
				err := c.Deserialize(&d)
				return c, err
			},
			term: func(v any) string { return "(VCommitment " + tCommitment(v.(block.Commitment)) + ")" },
		},
		&codec{id: 9, name: "header",
			gen:      func(r *hutil.Rng, i int) (any, string) { h, s := genHeader(r, i); return &h, s },
			enc:      func(v any) []byte { return v.(*block.BlockHeader).Serialize() },
			variants: func(v any) []any { a, b := headerVariants(*v.(*block.BlockHeader)); return []any{&a, &b} },
			dec:      func(b []byte) (any, error) { h := &block.BlockHeader{}; _, err := h.Deserialize(b); return h, err },
			term:     func(v any) string { return "(VHeader " + tHeader(v.(*block.BlockHeader)) + ")" },
		},
		&codec{id: 10, name: "block",
			gen: func(r *hutil.Rng, i int) (any, string) { return genBlock(r, i) },
			enc: func(v any) []byte { return v.(*block.Block).Serialize() },
			variants: func(v any) []any {
				b := v.(*block.Block)
				h1, h2 := headerVariants(b.BlockHeader)
				a1, a2, a3, a4, a5 := *b, *b, *b, *b, *b
				a1.BlockHeader, a2.BlockHeader = h1, h2
				a3.Difficulty = b.Difficulty.Lsh(8).Or64(1)
				if b.Difficulty.Hi>>56 != 0 {
					a3.Difficulty = b.Difficulty.Rsh(8).Or64(1)
				}
				a4.CumulativeDiff = b.CumulativeDiff.Lsh(8).Or64(1)
				if b.CumulativeDiff.Hi>>56 != 0 {
					a4.CumulativeDiff = b.CumulativeDiff.Rsh(8).Or64(1)
				}
				a5.Transactions = append(append([]transaction.TXID{}, b.Transactions...), transaction.TXID{})
				return []any{&a1, &a2, &a3, &a4, &a5}
			},
			dec:  func(b []byte) (any, error) { bl := &block.Block{}; err := bl.Deserialize(b); return bl, err },
			term: func(v any) string { return "(VBlock " + tBlock(v.(*block.Block), true) + ")" },
		},
		&codec{id: 11, name: "fullblock", wire: true,
			gen: func(r *hutil.Rng, i int) (any, string) { return genFull(r, i) },
			enc: func(v any) []byte { return serializeFull(v.(*fullBlock)) },
			variants: func(v any) []any {
				f := v.(*fullBlock)
				t, _ := genTx(hutil.NewRng(77), 1, 12)
				if f.b.Height < config.HARDFORK_V2_HEIGHT {
					t.Version = 0
				}
				b := *f.b
				b.Transactions = append(append([]transaction.TXID{}, f.b.Transactions...), t.Hash())
				g := &fullBlock{b: &b, txs: append(append([]*transaction.Transaction{}, f.txs...), t)}
				out := []any{g}
				if len(f.txs) > 0 { // length prefix of the first transaction
					if tr, ok := f.txs[0].Data.(*transaction.Transfer); ok && len(tr.Outputs) < config.MAX_OUTPUTS {
						t0 := *f.txs[0]
						t0.Data = &transaction.Transfer{Outputs: append(append([]transaction.Output{}, tr.Outputs...), transaction.Output{})}
						b2 := *f.b
						b2.Transactions = append([]transaction.TXID{t0.Hash()}, f.b.Transactions[1:]...)
						out = append(out, &fullBlock{b: &b2, txs: append([]*transaction.Transaction{&t0}, f.txs[1:]...)})
					}
				}
				return out
			},
			dec: func(b []byte) (any, error) {
				bl := &block.Block{}
				txs, err := bl.DeserializeFull(b)
				return &fullBlock{b: bl, txs: txs}, err
			},
			term: func(v any) string { return tFull(v.(*fullBlock)) },
		},
		&codec{id: 12, name: "miningblob", wire: true,
			gen: func(r *hutil.Rng, i int) (any, string) {
				m := &block.MiningBlob{Timestamp: r.Interesting(), Nonce: uint32(r.Interesting())}
				fill(r, m.NonceExtra[:])
				n := []int{1, 2, config.MAX_MERGE_MINED_CHAINS, 1 + r.Intn(config.MAX_MERGE_MINED_CHAINS), 0, config.MAX_MERGE_MINED_CHAINS + 1}[i%6]
				m.Chains = genHids(r, n)
				return m, fmt.Sprintf("chains=%s", bucket(n, config.MAX_MERGE_MINED_CHAINS))
			},
			enc: func(v any) []byte { return v.(*block.MiningBlob).Serialize() },
			variants: func(v any) []any {
				m := *v.(*block.MiningBlob)
				m.Chains = append(append([]block.HashingID{}, m.Chains...), block.HashingID{})
				return []any{&m}
			},
			dec:  func(b []byte) (any, error) { m := &block.MiningBlob{}; err := m.Deserialize(b); return m, err },
			term: func(v any) string { return "(VBlob " + tBlob(v.(*block.MiningBlob)) + ")" },
		},
		&codec{id: 13, name: "pstats", wire: true,
			gen: func(r *hutil.Rng, i int) (any, string) {
				p := packet.PacketStats{Height: r.Interesting(), CumulativeDiff: genU128(r)}
				if i%9 == 8 {
					p.CumulativeDiff = uint128.Uint128{}
				}
				fill(r, p.Hash[:])
				return p, "stats"
			},
			enc: func(v any) []byte { return v.(packet.PacketStats).Serialize() },
			variants: func(v any) []any {
				p := v.(packet.PacketStats)
				if p.CumulativeDiff.Hi>>56 != 0 {
					p.CumulativeDiff = p.CumulativeDiff.Rsh(8).Or64(1)
				} else {
					p.CumulativeDiff = p.CumulativeDiff.Lsh(8).Or64(1)
				}
				return []any{p}
			},
			dec: func(b []byte) (any, error) { p := packet.PacketStats{}; err := p.Deserialize(b); return p, err },
			term: func(v any) string {
				p := v.(packet.PacketStats)
				return fmt.Sprintf("(VStats (mkpstats %d %s %s))", p.Height, tU128(p.CumulativeDiff), tBytes(p.Hash[:]))
			},
		},
		&codec{id: 14, name: "pblockreq", wire: true,
			gen: func(r *hutil.Rng, i int) (any, string) {
				p := packet.PacketBlockRequest{}
				shape := "byhash"
				if i%2 == 0 {
					p.Height, p.Count = r.Interesting(), uint8(r.Interesting())
					shape = "byheight"
					if p.Height == 0 {
						shape = "byheight0"
					}
				} else {
					fill(r, p.Hash[:])
				}
				if i%19 == 18 { // not well-formed: both set
					p.Height, p.Count = 7, 3
					fill(r, p.Hash[:])
					p.Hash[0] = 1
					shape = "both"
				}
				return p, shape
			},
			enc: func(v any) []byte { return v.(packet.PacketBlockRequest).Serialize() },
			dec: func(b []byte) (any, error) { p := packet.PacketBlockRequest{}; err := p.Deserialize(b); return p, err },
			term: func(v any) string {
				p := v.(packet.PacketBlockRequest)
				return fmt.Sprintf("(VBlockReq (mkpblockreq %d %s %d))", p.Height, tBytes(p.Hash[:]), p.Count)
			},
		},
		&codec{id: 15, name: "pstakesig", wire: true,
			gen: func(r *hutil.Rng, i int) (any, string) {
				p := packet.PacketStakeSignature{DelegateId: r.Interesting()}
				fill(r, p.Hash[:])
				fill(r, p.Signature[:])
				return p, "stakesig"
			},
			enc: func(v any) []byte { return v.(packet.PacketStakeSignature).Serialize() },
			dec: func(b []byte) (any, error) {
				p := packet.PacketStakeSignature{}
				err := p.Deserialize(b)
				return p, err
			},
			term: func(v any) string {
				p := v.(packet.PacketStakeSignature)
				return fmt.Sprintf("(VStakeSig (mkpstakesig %d %s %s))", p.DelegateId, tBytes(p.Hash[:]), tBytes(p.Signature[:]))
			},
		},
		&codec{id: 16, name: "handshake", wire: true,
			gen: func(r *hutil.Rng, i int) (any, string) {
				h := &p2p.Handshake{Version: r.Interesting(), P2PVersion: uint8(r.Interesting()), P2PPort: uint16(r.Interesting())}
				fill(r, h.PeerID[:])
				return h, "handshake"
			},
			enc: func(v any) []byte { return v.(*p2p.Handshake).Serialize() },
			dec: func(b []byte) (any, error) { h := &p2p.Handshake{}; err := h.Deserialize(b); return h, err },
			term: func(v any) string {
				h := v.(*p2p.Handshake)
				return fmt.Sprintf("(VHandshake (mkhandshake %d %d %s %d))", h.Version, h.P2PVersion, tBytes(h.PeerID[:]), h.P2PPort)
			},
		},
	)
}

func headerVariants(h block.BlockHeader) (block.BlockHeader, block.BlockHeader) {
	a, b := h, h
	a.OtherChains = append(append([]block.HashingID{}, h.OtherChains...), block.HashingID{})
	b.SideBlocks = append(append([]block.Commitment{}, h.SideBlocks...), block.Commitment{})
	return a, b
}

// handlers without a value-level codec (C12 only)
type peerEntry struct {
	port uint16
	ip   string
}

func init() {
	codecs = append(codecs,
		&codec{id: 17, name: "frametype", wire: true, c12only: true,
			gen: func(r *hutil.Rng, i int) (any, string) {
				return append([]byte{byte(i), byte(i >> 8)}, r.Bytes(r.Intn(6))...), "frame"
			},
			enc: func(v any) []byte { return v.([]byte) },
			dec: func(b []byte) (any, error) { d := binary.NewDes(b); t := d.ReadUint16(); return t, d.Error() },
		},
		&codec{id: 18, name: "addpeer", wire: true, c12only: true,
			gen: func(r *hutil.Rng, i int) (any, string) {
				n := []int{1, 2, 5, 0}[i%4]
				var l []peerEntry
				for j := 0; j < n; j++ {
					l = append(l, peerEntry{port: uint16(1 + r.Intn(65535)), ip: fmt.Sprintf("%d.%d.%d.%d", r.Intn(256), r.Intn(256), r.Intn(256), r.Intn(256))})
				}
				return l, fmt.Sprintf("peers=%d", n)
			},
			enc: func(v any) []byte {
				s := binary.Ser{}
				for _, e := range v.([]peerEntry) {
					s.AddUint16(e.port)
					s.AddString(e.ip)
				}
				return s.Output()
			},
			variants: func(v any) []any {
				l := v.([]peerEntry)
				if len(l) == 0 {
					return nil
				}
				m := append([]peerEntry{}, l...)
				m[0].ip += "9"
				return []any{m}
			},
			dec: func(b []byte) (any, error) {
				p := &p2p.P2P{Exclusive: true} // exclusive: the peer list is left alone, nothing is written to disk
				return nil, p.OnAddPeerPacket(b)
			},
			corpus: [][]byte{
				append(append([]byte{1, 0}, uvarintBytes(1<<63)...), 1, 2, 3, 4), // R4 through ReadString
				append(append([]byte{1, 0}, uvarintBytes(^uint64(0))...), 1, 2, 3, 4),
				{1, 0, 0},
				{1, 0, 7, '1', '.', '2', '.', '3', '.', '4'},
			},
		},
	)
}
