package main

import (
	"encoding/hex"
	"fmt"
	"hash/crc32"
	"math/big"
	"os"
	"strconv"
	"strings"
	"verifharness/coqgen"
	"verifharness/hutil"

	"github.com/virel-project/virel-blockchain/v3/address"
	"github.com/virel-project/virel-blockchain/v3/config"
)

func init() { families["c18"] = c18 }

type c18res struct {
	ok       bool
	panicked bool
	in       address.Integrated
}

func c18parse(s string) (r c18res) {
	defer func() {
		if recover() != nil {
			r = c18res{panicked: true}
		}
	}()
	in, err := address.FromString(s)
	if err != nil {
		return c18res{}
	}
	return c18res{ok: true, in: in}
}

func c18format(in address.Integrated) (s string, panicked bool) {
	defer func() {
		if recover() != nil {
			s, panicked = "", true
		}
	}()
	return in.String(), false
}

func (r c18res) term() string {
	switch {
	case r.panicked:
		return "GPanic"
	case !r.ok:
		return "GErr"
	}
	return fmt.Sprintf("(GOk %s %d)", coqgen.PackBytes(r.in.Addr[:]), r.in.PaymentId)
}

func (r c18res) outcome(orig address.Integrated) string {
	switch {
	case r.panicked:
		return "panic"
	case !r.ok:
		return "err"
	case r.in == orig:
		return "same"
	}
	return "different"
}

func (r c18res) sample() map[string]any {
	if r.panicked {
		return map[string]any{"panic": true}
	}
	if !r.ok {
		return map[string]any{"ok": false}
	}
	return map[string]any{"ok": true, "addr": hex.EncodeToString(r.in.Addr[:]), "payment_id": r.in.PaymentId}
}

// c18sum is the harness's own idea of the checksum (generator steering only: to reach the classes
// "first checksum byte 0", "second checksum byte 0"); the comparison itself never uses it.
func c18sum(in address.Integrated) (byte, byte) {
	b := append(append([]byte{}, in.Addr[:]...), address.Uint64ToCompactLittleEndian(in.PaymentId)...)
	c := crc32.ChecksumIEEE(b)
	return byte(c), byte(c >> 8)
}

func c18isDelegate(a address.Address) bool { return a.IsDelegate() }

func c18charClass(c byte) string {
	switch {
	case c >= '0' && c <= '9':
		return "digit"
	case c >= 'a' && c <= 'z':
		return "lower"
	case c >= 'A' && c <= 'Z':
		return "upper"
	}
	return "other"
}

func c18budget() int {
	if v, err := strconv.Atoi(os.Getenv("VERIF_BUDGET")); err == nil && v >= 1 {
		return v
	}
	return 1
}

func c18pidLen(p uint64) int { return len(address.Uint64ToCompactLittleEndian(p)) }

func c18(out string) {
	sink := coqgen.NewSink(out, "c18", "c18_case", 500)
	rng := hutil.NewRng(18)
	thorough := hutil.Tier() == "thorough"
	budget := c18budget()

	// ------------------------------------------------------------------ format + parse back
	seen := map[address.Integrated]bool{}
	var texts []address.Integrated // candidates for the edit stream
	addF := func(in address.Integrated, gen string) {
		if seen[in] {
			return
		}
		seen[in] = true
		text, fp := c18format(in)
		r := c18parse(text)
		if fp {
			r = c18res{panicked: true}
		}
		s0, s1 := c18sum(in)
		lead := 0
		for lead < len(in.Addr) && in.Addr[lead] == 0 {
			lead++
		}
		form := "account"
		if in.Addr == address.INVALID_ADDRESS {
			form = "burn"
		} else if c18isDelegate(in.Addr) {
			form = "delegate"
		}
		class := fmt.Sprintf("fmt/%s/%s/s0zero=%v/s1zero=%v/leadzero=%d/pidlen=%d/%s", gen, form, s0 == 0, s1 == 0, lead, c18pidLen(in.PaymentId), r.outcome(in))
		sink.Add(fmt.Sprintf("CFmt %s %d %s %s", coqgen.PackBytes(in.Addr[:]), in.PaymentId, coqgen.PackBytes([]byte(text)), r.term()), class,
			map[string]any{"kind": "format", "addr": hex.EncodeToString(in.Addr[:]), "payment_id": in.PaymentId, "form": form,
				"text": text, "parse": r.sample(), "checksum_bytes": []byte{s0, s1}})
	}
	mustHex := func(s string) (a address.Address) {
		b, err := hex.DecodeString(s)
		if err != nil || len(b) != address.SIZE {
			panic("bad witness " + s)
		}
		copy(a[:], b)
		return
	}
	// always-run witnesses.
	// R7: first checksum byte 0, the leading zero byte was lost in the base-36 number ("invalid address size: 23")
	addF(address.Integrated{Addr: mustHex("74e53ab90c554cc1f1d736acde67aff55007fd4b3bec")}, "witness-R7")
	addF(address.Integrated{Addr: mustHex("6c5a01ee3454cba227c7f400f6889a319d7121dcea27")}, "witness-R7")
	// R7, second shape: (B, 111) had the same text as (A, 0) and read back as A
	addF(address.Integrated{Addr: mustHex("7415f208579196feab99b9dd42f4ddeb3522253e2ca8"), PaymentId: 111}, "witness-R7-collision")
	addF(address.Integrated{Addr: mustHex("15f208579196feab99b9dd42f4ddeb3522253e2ca86f")}, "witness-R7-collision")
	addF(address.Integrated{Addr: mustHex("746cd2b07f5f95d0f1dd31ac86e91e4a9497b7386dec"), PaymentId: 222}, "witness-R7-collision")
	addF(address.Integrated{Addr: mustHex("6cd2b07f5f95d0f1dd31ac86e91e4a9497b7386decde")}, "witness-R7-collision")

	pids := func() []uint64 {
		return []uint64{0, 1, 255, 256, 1 << 32, ^uint64(0), rng.U64(), rng.U64() >> uint(rng.Intn(64))}
	}
	randAddr := func() (a address.Address) {
		copy(a[:], rng.Bytes(address.SIZE))
		return
	}
	// burn address, delegate addresses
	addF(address.Integrated{}, "burn")
	texts = append(texts, address.Integrated{})
	dids := []uint64{0, 1, 2, 9, 10, 11, 99, 100, 255, 256, 65535, 65536, 1<<32 - 1, 1 << 32, 1<<63 - 1, 1 << 63, ^uint64(0) - 1, ^uint64(0),
		9999999999999999999, 10000000000000000000, 7042}
	nd := 60 * budget
	if thorough {
		nd = 2000 * budget
	}
	for i := 0; i < nd; i++ {
		dids = append(dids, rng.Interesting())
	}
	for _, id := range dids {
		addF(address.NewDelegateAddress(id).Integrated(), "delegate")
	}
	texts = append(texts, address.NewDelegateAddress(7042).Integrated())
	// delegate-form and burn addresses with a payment id: String() drops it (outside the property; correspondence only)
	for _, id := range []uint64{0, 1, 7042, ^uint64(0)} {
		for _, p := range []uint64{1, 256, ^uint64(0)} {
			addF(address.Integrated{Addr: address.NewDelegateAddress(id), PaymentId: p}, "delegate-with-pid")
		}
	}
	// structured account addresses: leading zero bytes up to the edge of the delegate form, trailing zeros, extremes
	for lead := 0; lead <= address.SIZE-8; lead++ {
		for rep := 0; rep < 2; rep++ {
			a := randAddr()
			for i := 0; i < lead; i++ {
				a[i] = 0
			}
			if lead < address.SIZE && a[lead] == 0 {
				a[lead] = 1
			}
			if lead == address.SIZE-8 {
				// first SIZE-8 bytes zero = delegate form with a random id: also covered
			}
			for _, p := range []uint64{0, 1, ^uint64(0)} {
				addF(address.Integrated{Addr: a, PaymentId: p}, "leading-zeros")
			}
		}
	}
	{
		var ff, one, hi, tail address.Address
		for i := range ff {
			ff[i] = 0xff
		}
		one[0] = 1
		hi[address.SIZE-9] = 1 // last byte outside the delegate id
		tail = randAddr()
		for i := 8; i < address.SIZE; i++ {
			tail[i] = 0
		}
		for _, a := range []address.Address{ff, one, hi, tail} {
			for _, p := range pids() {
				addF(address.Integrated{Addr: a, PaymentId: p}, "extreme")
			}
		}
	}
	// checksum classes: addresses searched so that the first / second / both checksum bytes are 0, with and without payment id
	type want struct {
		name   string
		s0, s1 int // -1 = any
	}
	nper := 12 * budget
	if thorough {
		nper = 200 * budget
	}
	for _, w := range []want{{"sum0-zero", 0, -1}, {"sum1-zero", -1, 0}, {"sum-both-zero", 0, 0}, {"sum0-one", 1, -1}, {"sum0-ff", 255, -1}} {
		found := 0
		for tries := 0; found < nper && tries < 40_000_000; tries++ {
			in := address.Integrated{Addr: randAddr()}
			switch found % 4 {
			case 1:
				in.PaymentId = uint64(1 + rng.Intn(255))
			case 2:
				in.PaymentId = rng.U64()
			case 3:
				in.PaymentId = rng.U64() >> uint(rng.Intn(64))
			}
			s0, s1 := c18sum(in)
			if (w.s0 < 0 || int(s0) == w.s0) && (w.s1 < 0 || int(s1) == w.s1) {
				addF(in, w.name)
				found++
				if found <= 2 && (w.name == "sum0-zero" || w.name == "sum1-zero") {
					texts = append(texts, in)
				}
			}
		}
	}
	// thorough: every value of the 16-bit checksum occurs
	if thorough {
		hit := map[uint16]bool{}
		for tries := 0; len(hit) < 65536 && tries < 80_000_000; tries++ {
			in := address.Integrated{Addr: randAddr()}
			if tries%3 == 1 {
				in.PaymentId = rng.U64() >> uint(rng.Intn(64))
			}
			s0, s1 := c18sum(in)
			k := uint16(s0) | uint16(s1)<<8
			if !hit[k] {
				hit[k] = true
				addF(in, "every-checksum")
			}
		}
		sink.Meta["checksum_values_hit"] = len(hit)
	}
	// random addresses x payment ids
	nr := 90 * budget
	if thorough {
		nr = 7000 * budget
	}
	for i := 0; i < nr; i++ {
		a := randAddr()
		for _, p := range pids() {
			addF(address.Integrated{Addr: a, PaymentId: p}, "random")
		}
		if i < 2 {
			texts = append(texts, address.Integrated{Addr: a}, address.Integrated{Addr: a, PaymentId: rng.U64()})
		}
	}

	// ------------------------------------------------------------------ arbitrary strings
	addP := func(s string, gen string) {
		r := c18parse(s)
		shape := "other"
		switch {
		case s == "burnaddress":
			shape = "burn"
		case strings.HasPrefix(s, config.DELEGATE_ADDRESS_PREFIX):
			shape = "delegate-prefix"
		case strings.HasPrefix(s, config.WALLET_PREFIX):
			shape = fmt.Sprintf("wallet-prefix/len=%d", min64(uint64(len(s)), 60)/10*10)
		}
		out := "err"
		if r.panicked {
			out = "panic"
		} else if r.ok {
			out = "ok"
		}
		sink.Add(fmt.Sprintf("CParse %s %s", coqgen.PackBytes([]byte(s)), r.term()), fmt.Sprintf("parse/%s/%s/%s", gen, shape, out),
			map[string]any{"kind": "parse", "text": s, "text_hex": hex.EncodeToString([]byte(s)), "parse": r.sample()})
	}
	valid, _ := c18format(address.Integrated{Addr: mustHex("0102030405060708090a0b0c0d0e0f101112131415ff")})
	validPid, _ := c18format(address.Integrated{Addr: mustHex("0102030405060708090a0b0c0d0e0f101112131415ff"), PaymentId: 0x0102030405060708})
	dp, wp := config.DELEGATE_ADDRESS_PREFIX, config.WALLET_PREFIX
	fixed := []string{"", wp, wp + "a", wp + "ab", wp + "abc", wp + "0", wp + "00", wp + "000", wp + "0000", wp + "+", wp + "-", wp + "+-1", wp + "--1", wp + "+ab", wp + "-abc", wp + "abc-",
		"burnaddress", "burnaddres", "burnaddresss", "Burnaddress", "burnaddress ", " burnaddress", "vurnaddress",
		dp, dp + "0", dp + "00", dp + "007", dp + "7", dp + "+7", dp + "-7", dp + " 7", dp + "7 ", dp + "1_0", dp + "0x10", dp + "1e3", dp + "a", dp + "١",
		dp + "18446744073709551615", dp + "18446744073709551616", dp + "018446744073709551615", dp + "99999999999999999999", dp + "184467440737095516150",
		dp + strings.Repeat("0", 70) + "5", dp + strings.Repeat("9", 70), strings.ToUpper(dp) + "7", dp[:len(dp)-1] + "7", dp + dp + "7",
		valid, strings.ToUpper(valid), wp + strings.ToUpper(valid[len(wp):]), wp + "+" + valid[len(wp):], wp + "-" + valid[len(wp):], wp + "0" + valid[len(wp):], wp + "00" + valid[len(wp):],
		wp + "+0" + valid[len(wp):], wp + "-00" + valid[len(wp):], valid + " ", " " + valid, valid + "\n", valid + "\x00", valid[:len(valid)-1], valid + "0", valid + valid, wp + valid,
		"x" + valid[len(wp):], valid[len(wp):], validPid, strings.ToUpper(validPid), wp + "-" + validPid[len(wp):],
		wp + "\xff\xfe\xfd", wp + "ab\x80cd", wp + "abc\xc3\xa9", wp + "a_b_c", wp + "a.b", wp + "1e10", wp + "0x1f", wp + strings.Repeat("z", 200), wp + strings.Repeat("0", 60), wp + strings.Repeat("0", 37), wp + strings.Repeat("0", 38),
	}
	for _, s := range fixed {
		addP(s, "fixed")
	}
	// the text of a given byte string as an account text (checksum prepended when withSum), to reach every decoded length
	textOf := func(data []byte) string { return wp + big.NewInt(0).SetBytes(data).Text(36) }
	withSum := func(body []byte) []byte {
		c := crc32.ChecksumIEEE(body)
		return append([]byte{byte(c), byte(c >> 8)}, body...)
	}
	for n := 0; n <= address.SIZE+14; n++ { // decoded lengths 2 .. SIZE+16 (payment id longer than 8 bytes: only the first 8 count)
		for rep := 0; rep < 3; rep++ {
			body := rng.Bytes(n)
			d := withSum(body)
			addP(textOf(d), "valid-sum-by-length")
			if d[0] == 0 || rep == 2 { // leading zero byte kept as a leading '0' digit (the repaired form)
				addP(wp+"0"+big.NewInt(0).SetBytes(d).Text(36), "valid-sum-by-length-zero-digit")
			}
			d2 := append([]byte{}, d...)
			d2[rng.Intn(len(d2))] ^= byte(1 + rng.Intn(255))
			addP(textOf(d2), "bad-sum-by-length")
		}
	}
	for _, z := range []int{1, 2, 3} { // bodies whose checksum starts with z zero bytes, written with and without the zero digits
		for tries, found := 0, 0; found < 3 && tries < 40_000_000; tries++ {
			body := rng.Bytes(address.SIZE + rng.Intn(3))
			d := withSum(body)
			okz := true
			for i := 0; i < z && i < 2; i++ {
				okz = okz && d[i] == 0
			}
			if z == 3 {
				body[0] = 0
				d = withSum(body)
				okz = d[0] == 0 && d[1] == 0
			}
			if okz {
				found++
				t := big.NewInt(0).SetBytes(d).Text(36)
				addP(wp+t, "zero-sum-bytes-plain")
				for k := 1; k <= z+1; k++ {
					addP(wp+strings.Repeat("0", k)+t, "zero-sum-bytes-zero-digits")
				}
			}
		}
	}
	np := 150 * budget
	if thorough {
		np = 6000 * budget
	}
	const b36 = "0123456789abcdefghijklmnopqrstuvwxyz"
	for i := 0; i < np; i++ {
		var s string
		switch rng.Intn(6) {
		case 0: // random bytes after the prefix
			s = wp + string(rng.Bytes(rng.Intn(50)))
		case 1: // random base-36 string
			n := rng.Intn(60)
			b := make([]byte, n)
			for j := range b {
				b[j] = b36[rng.Intn(36)]
			}
			s = wp + string(b)
		case 2: // mixed case and sign
			n := 30 + rng.Intn(15)
			b := make([]byte, n)
			for j := range b {
				b[j] = (b36 + "ABCDEFGHIJKLMNOPQRSTUVWXYZ")[rng.Intn(62)]
			}
			s = wp + []string{"", "+", "-"}[rng.Intn(3)] + string(b)
		case 3: // delegate prefix + junk
			n := rng.Intn(24)
			b := make([]byte, n)
			for j := range b {
				b[j] = "0123456789012345678901234567890123456789+-_ a"[rng.Intn(45)]
			}
			s = dp + string(b)
		case 4: // arbitrary bytes
			s = string(rng.Bytes(rng.Intn(40)))
		default: // random decoded bytes of random length
			s = textOf(rng.Bytes(rng.Intn(40)))
		}
		addP(s, "random")
	}

	// ------------------------------------------------------------------ every single-character edit of a sample of texts
	alphabet := []byte(b36 + "A-_+")
	nmut, nundet := uint64(0), uint64(0)
	var undetected []any
	outcomeCount := map[string]int{}
	addM := func(in address.Integrated, base string, kind int, pos int, ch byte, mutated string, form string) {
		r := c18parse(mutated)
		oc := r.outcome(in)
		if form == "account" {
			nmut++
			if oc == "different" {
				nundet++
				undetected = append(undetected, map[string]any{"text": base, "edited": mutated, "parse": r.sample()})
			}
		}
		outcomeCount[form+"/"+oc]++
		kname := []string{"subst", "delete", "insert"}[kind]
		where := "inner"
		if pos == 0 {
			where = "first"
		} else if pos == 1 {
			where = "second"
		} else if pos >= len(base)-1 {
			where = "last"
		}
		class := fmt.Sprintf("edit/%s/%s/%s/%s/%s", form, kname, where, c18charClass(ch), oc)
		sink.Add(fmt.Sprintf("CMut %s %d %d %d %d %s %s", coqgen.PackBytes(in.Addr[:]), in.PaymentId, kind, pos, ch, coqgen.PackBytes([]byte(mutated)), r.term()), class,
			map[string]any{"kind": "edit", "form": form, "addr": hex.EncodeToString(in.Addr[:]), "payment_id": in.PaymentId, "text": base,
				"edit": kname, "pos": pos, "char": string([]byte{ch}), "edited": mutated, "parse": r.sample(), "outcome": oc})
	}
	ntexts := 5 // burn, delegate, and three account texts (one of them with a payment id)
	if thorough {
		ntexts = 300 * budget
		ndel := 0 // a few delegate texts only: every digit edit of them is an instance of the known finding R16
		for len(texts) < ntexts {
			in := address.Integrated{Addr: randAddr()}
			switch rng.Intn(4) {
			case 0:
				in.PaymentId = rng.U64() >> uint(rng.Intn(64))
			case 1:
				if ndel < 6 {
					ndel++
					in = address.NewDelegateAddress(rng.Interesting()).Integrated()
				}
			}
			texts = append(texts, in)
		}
	}
	if len(texts) > ntexts {
		// quick: burn, delegate 7042, first sum0-zero text, then a random address without and with payment id
		pick := []address.Integrated{texts[0], texts[1], texts[2]}
		pick = append(pick, texts[len(texts)-2], texts[len(texts)-1])
		texts = pick
	}
	for _, in := range texts {
		base, fp := c18format(in)
		if fp {
			continue
		}
		form := "account"
		if in.Addr == address.INVALID_ADDRESS {
			form = "burn"
		} else if c18isDelegate(in.Addr) {
			form = "delegate"
		}
		for pos := 0; pos <= len(base); pos++ {
			if pos < len(base) {
				for _, ch := range alphabet {
					if ch != base[pos] {
						addM(in, base, 0, pos, ch, base[:pos]+string([]byte{ch})+base[pos+1:], form)
					}
				}
				addM(in, base, 1, pos, 0, base[:pos]+base[pos+1:], form)
			}
			for _, ch := range alphabet {
				addM(in, base, 2, pos, ch, base[:pos]+string([]byte{ch})+base[pos:], form)
			}
		}
	}
	sink.Add(fmt.Sprintf("CSummary %d %d", nmut, nundet), "summary",
		map[string]any{"kind": "summary", "edits_of_checksummed_texts": nmut, "accepted_as_different_address": nundet, "cases": undetected})
	frac := 0.0
	if nmut > 0 {
		frac = float64(nundet) / float64(nmut)
	}
	sink.Meta["edited_texts"] = len(texts)
	sink.Meta["edits_of_checksummed_texts"] = nmut
	sink.Meta["undetected_edits"] = nundet
	sink.Meta["undetected_edit_fraction"] = frac
	sink.Meta["undetected_edit_threshold"] = 1.0 / 4096
	sink.Meta["edit_outcomes"] = outcomeCount
	sink.Meta["rule"] = "format+parse of witness, burn, delegate, leading-zero, checksum-byte-zero (searched), extreme and random addresses x payment ids {0,1,255,256,2^32,2^64-1,random}; arbitrary strings (fixed boundary list, every decoded length with valid and broken checksum, zero checksum bytes with and without zero digits, random); every single-character substitution (0-9a-z A - _ +), deletion and insertion of a sample of texts. A class is (stream, generator, form/shape, checksum-byte and leading-zero shape or edit kind/position/character class, outcome)."
	if err := sink.Close(); err != nil {
		panic(err)
	}
}
