package main

import (
	"os"
	"encoding/binary"
	"encoding/hex"
	"fmt"
	"time"
	"verifharness/coqgen"
	"verifharness/hutil"

	"github.com/virel-project/virel-blockchain/v3/block"
	"github.com/virel-project/virel-blockchain/v3/blockchain"
	"github.com/virel-project/virel-blockchain/v3/checkpoints"
	"github.com/virel-project/virel-blockchain/v3/config"
	"github.com/virel-project/virel-blockchain/v3/util/uint128"
	"github.com/zeebo/blake3"
)

func init() { families["c20"] = c20 }

// gc observation codes: 0 = panic, 1 = 32 zero bytes (and not a table entry), 2 = other bytes, 3+i = table entry i
const (
	gcPanic = 0
	gcZero  = 1
	gcOther = 2
)

func c20(out string) {
	sink := coqgen.NewSink(out, "c20", "c20_case", 400)
	rng := hutil.NewRng(20)
	bin := checkpoints.VerifBin()

	// the embedded data, read directly (not through the functions under test)
	var hdr, count uint64
	if len(bin) >= 4 {
		hdr = uint64(binary.LittleEndian.Uint32(bin))
		count = uint64((len(bin) - 4) / 32)
	}
	slotOf := map[[32]byte]uint64{}
	for i := uint64(0); i < count; i++ {
		var k [32]byte
		copy(k[:], bin[4+32*i:])
		if _, dup := slotOf[k]; dup {
			panic(fmt.Sprintf("embedded checkpoint table has a duplicate entry at slot %d", i))
		}
		slotOf[k] = i
	}

	observe := func(h uint64) (sec, cp bool, gc uint64) {
		sec = checkpoints.IsSecured(h)
		cp = checkpoints.IsCheckpoint(h)
		func() {
			defer func() {
				if recover() != nil {
					gc = gcPanic
				}
			}()
			v := checkpoints.GetCheckpoint(h)
			if s, ok := slotOf[v]; ok {
				gc = 3 + s
			} else if v == [32]byte{} {
				gc = gcZero
			} else {
				gc = gcOther
			}
		}()
		return
	}
	gcTerm := func(gc uint64) string {
		switch gc {
		case gcPanic:
			return "OPanic"
		case gcZero:
			return "OZero"
		case gcOther:
			return "OOther"
		}
		return fmt.Sprintf("(OSlot %d)", gc-3)
	}
	gcKind := func(gc uint64) string {
		switch gc {
		case gcPanic:
			return "panic"
		case gcZero:
			return "zero"
		case gcOther:
			return "other"
		}
		return "slot"
	}
	region := func(h uint64) string {
		switch {
		case count == 0 || hdr == 0:
			return "nocp"
		case h == 0:
			return "genesis"
		case h < hdr:
			return "below-first"
		case h > hdr*count+hdr:
			return "beyond"
		case h > hdr*count:
			return "above-last-same-interval"
		case h%hdr == 0:
			return "at-checkpoint"
		}
		return "between"
	}

	// ---- 1. the embedded data and its declared digest
	{
		ok := true
		if len(bin) != 0 || checkpoints.CHECKPOINTS_BLAKE3 != "" {
			d := blake3.Sum256(bin)
			ok = hex.EncodeToString(d[:]) == checkpoints.CHECKPOINTS_BLAKE3
		}
		sink.Add(fmt.Sprintf("CDigest %d %d %s %d %d", len(bin), hdr, coqgen.Bool(ok), checkpoints.CheckpointInterval, checkpoints.MaxCheckpoint),
			fmt.Sprintf("digest/ok=%v/empty=%v", ok, len(bin) == 0),
			map[string]any{"kind": "digest", "len": len(bin), "header": hdr, "digest_ok": ok, "declared": checkpoints.CHECKPOINTS_BLAKE3,
				"interval": checkpoints.CheckpointInterval, "max": checkpoints.MaxCheckpoint})
	}

	// ---- 2. individual heights: every class boundary, special and random heights
	n := (count+3)*hdr + 1 // heights 0 .. (count+3)*interval
	if n < 4097 {
		n = 4097
	}
	hs := map[uint64]string{}
	step := hdr
	if step == 0 {
		step = 1
	}
	// always-run witnesses of the fixed defects R2 (heights just above the last checkpoint) and R3 (height 0)
	hs[0] = "witness-R3"
	for d := uint64(1); d < step; d++ {
		hs[count*step+d] = "witness-R2"
	}
	for _, k := range []uint64{0, 1, 2, 3, count / 2, count - 2, count - 1, count, count + 1, count + 2, count + 3, count + 4} {
		if k > count+4 { // count < 2 wrapped
			continue
		}
		for d := int64(-2); d <= 2; d++ {
			h := int64(k*step) + d
			if h >= 0 {
				if _, ok := hs[uint64(h)]; !ok {
					hs[uint64(h)] = "boundary"
				}
			}
		}
	}
	for i := uint(1); i < 64; i++ {
		for d := int64(-1); d <= 1; d++ {
			h := uint64(int64(uint64(1)<<i) + d)
			if _, ok := hs[h]; !ok {
				hs[h] = "pow2"
			}
		}
	}
	for _, h := range []uint64{^uint64(0), ^uint64(0) - 1, ^uint64(0) - 31, ^uint64(0) - 32, config.MAX_HEIGHT, (1<<59)*step + 32, (1<<59+1)*step - 1} {
		if _, ok := hs[h]; !ok {
			hs[h] = "special"
		}
	}
	nr := 400
	if hutil.Tier() == "thorough" {
		nr = 4000
	}
	for i := 0; i < nr; i++ {
		var h uint64
		switch rng.Intn(8) {
		case 0:
			h = rng.Interesting()
		case 1:
			h = rng.UpTo(step*4) + count*step - min64(count*step, step*2)
		case 2:
			h = rng.UpTo(count) * step
		default:
			h = rng.UpTo(n + 1000)
		}
		if _, ok := hs[h]; !ok {
			hs[h] = "random"
		}
	}
	keys := make([]uint64, 0, len(hs))
	for h := range hs {
		keys = append(keys, h)
	}
	sortU64(keys)
	for _, h := range keys {
		sec, cp, gc := observe(h)
		sink.Add(fmt.Sprintf("CHeight %d %s %s %s", h, coqgen.Bool(sec), coqgen.Bool(cp), gcTerm(gc)),
			fmt.Sprintf("height/%s/%s/sec=%v/cp=%v/gc=%s", hs[h], region(h), sec, cp, gcKind(gc)),
			map[string]any{"kind": "height", "height": h, "IsSecured": sec, "IsCheckpoint": cp, "GetCheckpoint": gcTerm(gc),
				"last_checkpoint_height": hdr * count, "interval": hdr})
	}

	// ---- 3. exhaustive sweep of heights 0..n-1, as bitmaps
	secBits := make([]byte, (n+7)/8)
	cpBits := make([]byte, (n+7)/8)
	chgBits := make([]byte, (n+7)/8)
	var vals []byte
	var prev uint64
	runs := []map[string]any{} // human-readable summary of the sweep for the replay record
	type obs struct {
		sec, cp bool
		kind    string
	}
	var runStart uint64
	var runObs obs
	nSec, nCp, nPanic := 0, 0, 0
	var maxSec, minCp, maxCp uint64
	for h := uint64(0); h < n; h++ {
		sec, cp, gc := observe(h)
		if sec {
			secBits[h/8] |= 1 << (h % 8)
			nSec++
			maxSec = h
		}
		if cp {
			cpBits[h/8] |= 1 << (h % 8)
			if nCp == 0 {
				minCp = h
			}
			nCp++
			maxCp = h
		}
		if gc == gcPanic {
			nPanic++
		}
		if h == 0 || gc != prev {
			chgBits[h/8] |= 1 << (h % 8)
			if gc >= 1<<24 {
				panic("slot index does not fit in three bytes")
			}
			vals = append(vals, byte(gc), byte(gc>>8), byte(gc>>16))
			prev = gc
		}
		o := obs{sec, false, gcKind(gc)} // secured/gc-kind runs (IsCheckpoint alternates, summarised by counts)
		if h == 0 {
			runObs = o
		} else if o != runObs {
			if len(runs) < 40 {
				runs = append(runs, map[string]any{"lo": runStart, "hi": h - 1, "IsSecured": runObs.sec, "GetCheckpoint": runObs.kind})
			}
			runStart, runObs = h, o
		}
	}
	if len(runs) < 40 {
		runs = append(runs, map[string]any{"lo": runStart, "hi": n - 1, "IsSecured": runObs.sec, "GetCheckpoint": runObs.kind})
	}
	sink.Add(fmt.Sprintf("CSweep %d %s %s %s %s", n, coqgen.PackBytes(secBits), coqgen.PackBytes(cpBits), coqgen.PackBytes(chgBits), coqgen.PackBytes(vals)),
		fmt.Sprintf("sweep/secured=%v/checkpoints=%v/panics=%v", nSec > 0, nCp > 0, nPanic > 0),
		map[string]any{"kind": "sweep", "heights": n, "secured_count": nSec, "max_secured": maxSec, "checkpoint_count": nCp,
			"min_checkpoint": minCp, "max_checkpoint": maxCp, "getcheckpoint_panics": nPanic, "runs(IsSecured,GetCheckpoint kind)": runs,
			"last_checkpoint_height": hdr * count, "interval": hdr,
			"note": "a failure code of the sweep is conjunct + 100*(first failing height + 1)"})

	// ---- 4. PrevalidateBlock on blocks without valid proof of work whose hash is not in the table
	ph := map[uint64]string{0: "witness-R3", 1: "boundary", 2: "boundary", 100: "boundary"}
	if count > 0 {
		for d := uint64(1); d < step; d += 5 {
			ph[count*step+d] = "witness-R2"
		}
		ph[count*step+step-1] = "witness-R2"
		for _, k := range []uint64{1, 2, count - 1, count, count + 1, count + 2} {
			for d := int64(-1); d <= 1; d++ {
				h := uint64(int64(k*step) + d)
				if _, ok := ph[h]; !ok {
					ph[h] = "boundary"
				}
			}
		}
	}
	// a dense stretch of heights from 0 (special-cased heights inside PrevalidateBlock itself) and, where the table is
	// not empty, the same stretch just below the last checkpoint plus random secured heights
	dense := uint64(1024)
	if os.Getenv("VERIF_TIER") == "thorough" {
		dense = 16384
	}
	for h := uint64(0); h < dense; h++ {
		if _, ok := ph[h]; !ok {
			ph[h] = "dense"
		}
		if count > 0 && count*step > h {
			if _, ok := ph[count*step-h]; !ok {
				ph[count*step-h] = "dense"
			}
		}
	}
	if count > 0 {
		for i := uint64(0); i < dense; i++ {
			h := rng.UpTo(count * step)
			if _, ok := ph[h]; !ok {
				ph[h] = "random"
			}
		}
	}
	keys = keys[:0]
	for h := range ph {
		keys = append(keys, h)
	}
	sortU64(keys)
	for _, h := range keys {
		b := &block.Block{}
		b.Height = h
		if h >= config.HARDFORK_V3_HEIGHT {
			b.Version = 1
		}
		b.Timestamp = uint64(time.Now().UnixMilli()) - 3600_000
		b.Difficulty = uint128.Max // no hash meets this difficulty
		b.Nonce = uint32(rng.U64())
		if _, ok := slotOf[b.Hash()]; ok {
			panic("random block hash is in the checkpoint table")
		}
		res := uint64(0) // 0 accepted, 1 rejected, 2 panicked
		func() {
			defer func() {
				if recover() != nil {
					res = 2
				}
			}()
			var bc *blockchain.Blockchain // PrevalidateBlock does not touch its receiver
			if err := bc.PrevalidateBlock(b, nil); err != nil {
				res = 1
			}
		}()
		sink.Add(fmt.Sprintf("CPreval %d %d", h, res),
			fmt.Sprintf("prevalidate/%s/%s/res=%d", ph[h], region(h), res),
			map[string]any{"kind": "prevalidate", "height": h, "version": b.Version, "difficulty": "2^128-1 (proof of work invalid)",
				"result": []string{"accepted", "rejected", "panicked"}[res], "last_checkpoint_height": hdr * count, "interval": hdr})
	}

	sink.Meta["exhaustive"] = true
	sink.Meta["sweep_heights"] = n
	sink.Meta["rule"] = "digest of the embedded data; IsSecured/IsCheckpoint/GetCheckpoint (under recover) at every class boundary -2..+2, the witnesses of R2/R3, powers of two, special and random heights as individual cases; one exhaustive sweep of all heights 0..(count+3)*interval as bitmaps (secured, checkpoint, GetCheckpoint change points and values); PrevalidateBlock on blocks without valid proof of work around the boundaries. A class is (kind, generator, region, outcome)."
	if err := sink.Close(); err != nil {
		panic(err)
	}
}
