package main

import (
	"fmt"
	"math/big"
	"os"
	"verifharness/coqgen"
	"verifharness/hutil"

	"github.com/virel-project/virel-blockchain/v3/adb"
	"github.com/virel-project/virel-blockchain/v3/block"
	"github.com/virel-project/virel-blockchain/v3/blockchain"
	"github.com/virel-project/virel-blockchain/v3/config"
	"github.com/virel-project/virel-blockchain/v3/util"
	"github.com/virel-project/virel-blockchain/v3/util/uint128"
)

func init() { families["c08"] = c08 }

// memTxn is a read-only adb.Txn over a map: the store GetNextDifficulty reads the grandparent from.
// Any access other than reading the block index at the parent's PrevHash aborts the harness: the only record
// GetNextDifficulty may read besides the parent it is given is the grandparent block.
type memTxn map[string][]byte

const blockIndexName = "c08-block-index"

var grandKey util.Hash

func (m memTxn) Get(idx adb.Index, k []byte) []byte {
	if name, ok := idx.(string); !ok || name != blockIndexName || string(k) != string(grandKey[:]) {
		fmt.Printf("harness: GetNextDifficulty read an unexpected record: index %v key %x\n", idx, k)
		os.Exit(3)
	}
	return m[string(k)]
}
func (m memTxn) Put(adb.Index, []byte, []byte) error { panic("memTxn: Put not expected") }
func (m memTxn) Del(adb.Index, []byte) error         { panic("memTxn: Del not expected") }
func (m memTxn) ForEach(adb.Index, func(k, v []byte) error) error {
	panic("memTxn: ForEach not expected")
}
func (m memTxn) ForEachInterrupt(adb.Index, func(k, v []byte) (bool, error)) error {
	panic("memTxn: ForEachInterrupt not expected")
}
func (m memTxn) Entries(adb.Index) (uint64, error) { panic("memTxn: Entries not expected") }

type u128 = uint128.Uint128

func bigOf(u u128) *big.Int {
	b := new(big.Int).SetUint64(u.Hi)
	b.Lsh(b, 64)
	return b.Or(b, new(big.Int).SetUint64(u.Lo))
}
func s128(u u128) string { return bigOf(u).String() }
func ofBig(b *big.Int) u128 {
	lo := new(big.Int).And(b, new(big.Int).SetUint64(^uint64(0))).Uint64()
	hi := new(big.Int).Rsh(b, 64).Uint64()
	return uint128.New(lo, hi)
}
func pow2(k uint) u128 { return ofBig(new(big.Int).Lsh(big.NewInt(1), k)) }
func addS(u u128, d int64) u128 {
	return ofBig(new(big.Int).Add(bigOf(u), big.NewInt(d)))
}

// obs runs f under recover and prints Go's observation as a Coq "option N"
func obs128(f func() u128) (term string, js any, panicked bool) {
	var r u128
	func() {
		defer func() {
			if recover() != nil {
				panicked = true
			}
		}()
		r = f()
	}()
	if panicked {
		return "None", nil, true
	}
	return "(Some " + s128(r) + ")", s128(r), false
}

func lenClass(u u128) string {
	n := bigOf(u).BitLen()
	switch {
	case n == 0:
		return "zero"
	case n <= 32:
		return "le32"
	case n <= 64:
		return "le64"
	case n <= 100:
		return "le100"
	case n <= 107:
		return "le107"
	default:
		return "gt107"
	}
}

func stClass(st uint64) string {
	switch {
	case st < 100:
		return "lt100"
	case st <= 15001:
		return "le15001"
	case st <= 3600_000*2:
		return "hours"
	case st < 1<<62:
		return "long"
	default:
		return "huge"
	}
}

func c08(out string) {
	sink := coqgen.NewSink(out, "c08", "c08_case", 150)
	rng := hutil.NewRng(8)
	thorough := hutil.Tier() == "thorough"
	mult := 1
	if thorough {
		mult = 20
	}
	const T = uint64(config.TARGET_BLOCK_TIME) * 1000
	const NN = uint64(config.DIFFICULTY_N)
	const G = uint64(config.GENESIS_TIMESTAMP)
	const MIN = uint64(config.MIN_DIFFICULTY)
	const maxDev = uint64(blockchain.VerifMaxDeviation)

	bc := &blockchain.Blockchain{Index: blockchain.Index{Block: blockIndexName}}
	grandKey[0], grandKey[31] = 0xc0, 0x08
	gkey := grandKey
	errMissing := 0

	// GetNextDifficulty on a store holding (or not) the grandparent
	next := func(h, pts uint64, d u128, gts uint64, store bool) (string, any, bool) {
		grand := &block.Block{}
		grand.Height = h - 1
		grand.Timestamp = gts
		grand.Difficulty = uint128.From64(1)
		parent := &block.Block{}
		parent.Height = h
		parent.Timestamp = pts
		parent.Difficulty = d
		parent.Ancestors[0] = gkey
		txn := memTxn{}
		if store {
			txn[string(gkey[:])] = grand.Serialize()
		}
		return obs128(func() u128 {
			r, err := bc.GetNextDifficulty(txn, parent)
			if err != nil {
				if store {
					panic("harness: unexpected error from GetNextDifficulty: " + err.Error())
				}
				errMissing++
				return uint128.Zero
			}
			return r
		})
	}
	devClass := func(h, pts uint64) string {
		if G == 0 {
			return "lttc-off"
		}
		e := new(big.Int).Mul(new(big.Int).SetUint64(h), new(big.Int).SetUint64(T))
		e.Add(e, new(big.Int).SetUint64(G))
		dv := new(big.Int).Sub(new(big.Int).SetUint64(pts), e)
		md := new(big.Int).SetUint64(maxDev)
		if !e.IsInt64() || pts >= 1<<63 {
			return "lttc-wrapped"
		}
		switch {
		case dv.Cmp(md) > 0:
			return "lttc-late"
		case dv.Cmp(new(big.Int).Neg(md)) < 0:
			return "lttc-early"
		}
		return "lttc-in"
	}
	hClass := func(h uint64) string {
		switch {
		case h < 2:
			return "h<2"
		case h <= config.MAX_HEIGHT:
			return "h-ok"
		}
		return "h-huge"
	}
	outClass := func(term string, panicked bool) string {
		if panicked {
			return "panic"
		}
		if term == fmt.Sprintf("(Some %d)", MIN) {
			return "min"
		}
		return "ok"
	}
	addNext := func(gen string, h, pts uint64, d u128, gts uint64) {
		term, js, p := next(h, pts, d, gts, true)
		class := fmt.Sprintf("next/%s/%s/%s/st=%s/d=%s/%s", gen, hClass(h), devClass(h, pts), stClass(pts-gts), lenClass(d), outClass(term, p))
		if pts < gts {
			class += "/ts-decreasing"
		}
		sink.Add(fmt.Sprintf("CNext %d %d %s %d %s", h, pts, s128(d), gts, term), class,
			map[string]any{"kind": "next", "height": h, "parent_ts": pts, "parent_diff": s128(d), "grand_ts": gts, "go": js, "panic": p})
	}
	addMono := func(gen string, h, pts, pts2 uint64, d u128, gts uint64) {
		t1, j1, p1 := next(h, pts, d, gts, true)
		t2, j2, p2 := next(h, pts2, d, gts, true)
		class := fmt.Sprintf("mono/%s/%s/%s->%s/st=%s->%s/d=%s/%s->%s", gen, hClass(h), devClass(h, pts), devClass(h, pts2), stClass(pts-gts), stClass(pts2-gts), lenClass(d), outClass(t1, p1), outClass(t2, p2))
		sink.Add(fmt.Sprintf("CMono %d %d %d %s %d %s %s", h, pts, pts2, s128(d), gts, t1, t2), class,
			map[string]any{"kind": "mono", "height": h, "parent_ts": pts, "parent_ts2": pts2, "parent_diff": s128(d), "grand_ts": gts, "go": j1, "go2": j2, "panic": p1 || p2})
	}
	bigMismatch := 0
	addEma := func(gen string, st uint64, d u128) {
		term, js, p := obs128(func() u128 { return blockchain.VerifDifficultyEMA(st, d) })
		if !p && st <= 1<<63 {
			// exact floor division with math/big (harness-side sanity; the decision is taken in Coq)
			num := new(big.Int).Mul(bigOf(d), new(big.Int).SetUint64(NN*T))
			den := new(big.Int).Add(new(big.Int).SetUint64((NN-1)*T), new(big.Int).SetUint64(st))
			if num.Div(num, den).String() != js.(string) {
				bigMismatch++
			}
		}
		class := fmt.Sprintf("ema/%s/st=%s/d=%s/%s", gen, stClass(st), lenClass(d), outClass(term, p))
		sink.Add(fmt.Sprintf("CEma %d %s %s", st, s128(d), term), class,
			map[string]any{"kind": "ema", "solve_time": st, "prev_diff": s128(d), "go": js, "panic": p})
	}

	// ---- grids ----
	year := uint64(31_557_600_000)
	// Mul64 overflow edge: largest d with d*N*T < 2^128
	edge := ofBig(new(big.Int).Div(new(big.Int).Sub(new(big.Int).Lsh(big.NewInt(1), 128), big.NewInt(1)), new(big.Int).SetUint64(NN*T)))
	diffs := []u128{uint128.From64(MIN), uint128.From64(MIN + 1), uint128.From64(1<<32 - 1), uint128.From64(1<<32 + 1),
		uint128.From64(^uint64(0)), pow2(64), addS(pow2(64), 1), pow2(100),
		addS(edge, -1), edge, addS(edge, 1), pow2(107), addS(pow2(107), -1), addS(pow2(107), 1), uint128.Max}
	if MIN > 0 {
		diffs = append(diffs, uint128.From64(MIN-1), uint128.Zero)
	}
	sts := []uint64{0, 1, 99, 100, 101, 14999, 15000, 15001, 3600_000, year, 30 * year,
		(1<<62 - 1), ^uint64(0) / 3, ^uint64(0)/3 + 1, 1 << 63,
		12297829382473034411,      // (2^65+1)/3: st*3 wraps to 1
		^uint64(0) - (NN-1)*T + 1, // (N-1)*T + st wraps to 0: division by zero
		^uint64(0) - (NN-1)*T + 2, ^uint64(0)}
	heights := []uint64{0, 1, 2, 3, 1_000_000, 5_000_000_000}
	devs := []int64{-int64(maxDev) - 1, -int64(maxDev), -int64(maxDev) + 1, 0, int64(maxDev) - 1, int64(maxDev), int64(maxDev) + 1, -int64(50 * year), int64(30 * year)}

	// difficultyEMA: solve times x difficulties
	for _, st := range append([]uint64{66, 67, 150}, sts...) {
		for _, d := range diffs {
			addEma("grid", st, d)
		}
	}
	for i := 0; i < 150*mult; i++ {
		var st uint64
		switch rng.Intn(6) {
		case 0:
			st = rng.Interesting()
		case 1:
			st = rng.UpTo(40 * year)
		default:
			st = rng.UpTo(200_000)
		}
		d := uint128.New(rng.U64(), rng.U64()).Rsh(uint(rng.Intn(128)))
		addEma("random", st, d)
	}

	// GetNextDifficulty: (solve time x difficulty) at a fixed height on schedule
	expect := func(h uint64) uint64 { return h*T + G }
	for _, st := range sts {
		for _, d := range diffs {
			h := uint64(1_000_000)
			pts := expect(h) + 40*year // far enough from 0 so that gts = pts - st does not wrap for the in-domain solve times
			if G != 0 {
				pts = expect(h)
			}
			addNext("grid-st-d", h, pts, d, pts-st)
		}
	}
	// (solve time x LTTC deviation x height), difficulties cycling
	k := 0
	for _, st := range sts[:12] {
		for _, dv := range devs {
			for _, h := range heights[2:] {
				pts := expect(h) + uint64(dv)
				d := diffs[k%8]
				k++
				addNext("grid-st-dev-h", h, pts, d, pts-st)
			}
		}
	}
	// heights below 2 (constant), with and without the grandparent in the store; huge heights (LTTC product wraps)
	for _, h := range []uint64{0, 1} {
		for _, d := range diffs[:8] {
			for _, st := range []uint64{0, 15000, ^uint64(0)} {
				addNext("grid-low-height", h, expect(h)+year, d, expect(h)+year-st)
			}
			term, js, p := next(h, expect(h)+year, d, 0, false)
			sink.Add(fmt.Sprintf("CNext %d %d %s %d %s", h, expect(h)+year, s128(d), 0, term), fmt.Sprintf("next/no-grandparent/h<2/d=%s/%s", lenClass(d), outClass(term, p)),
				map[string]any{"kind": "next", "height": h, "parent_ts": expect(h) + year, "parent_diff": s128(d), "grand_ts": 0, "go": js, "panic": p, "grandparent_stored": false})
		}
	}
	next(5, expect(5), uint128.From64(MIN), 0, false) // h >= 2 without grandparent: must be an error, counted
	for _, h := range []uint64{^uint64(0), 1 << 63, (1 << 63) / T, (1<<63)/T + 1, ^uint64(0) / T, 1229782938247304} {
		for _, st := range []uint64{100, 15000, 3600_000} {
			for _, pts := range []uint64{G + year, expect(h), 1<<63 - 1, 1 << 63, ^uint64(0)} {
				addNext("grid-huge-height", h, pts, uint128.From64(MIN+12345), pts-st)
			}
		}
	}
	// random
	randDiff := func() u128 {
		switch rng.Intn(8) {
		case 0:
			return uint128.New(rng.U64(), rng.U64()).Rsh(uint(rng.Intn(128)))
		case 1:
			return diffs[rng.Intn(len(diffs))]
		case 2:
			return uint128.From64(MIN + rng.UpTo(1000))
		default: // inside the domain: min .. 2^100
			return addS(uint128.New(rng.U64(), rng.U64()).Rsh(uint(28+rng.Intn(100))), int64(MIN))
		}
	}
	randST := func() uint64 {
		switch rng.Intn(10) {
		case 0:
			return sts[rng.Intn(len(sts))]
		case 1:
			return rng.UpTo(40 * year)
		case 2:
			return rng.UpTo(300)
		default:
			return rng.UpTo(120_000)
		}
	}
	randH := func() uint64 {
		switch rng.Intn(10) {
		case 0:
			return rng.UpTo(3)
		case 1:
			return rng.Interesting()
		default:
			return rng.UpTo(config.MAX_HEIGHT)
		}
	}
	randDev := func() uint64 {
		switch rng.Intn(6) {
		case 0:
			return uint64(devs[rng.Intn(len(devs))])
		case 1:
			return uint64(int64(rng.UpTo(60*year)) - int64(30*year))
		default:
			return uint64(int64(rng.UpTo(4*maxDev)) - int64(2*maxDev))
		}
	}
	for i := 0; i < 400*mult; i++ {
		h := randH()
		pts := expect(h) + randDev()
		if G == 0 && rng.Intn(2) == 0 {
			pts = rng.UpTo(80 * year)
		}
		st := randST()
		if st > pts && rng.Intn(4) != 0 {
			st = pts // keep most cases inside the domain (grand_ts <= parent_ts)
		}
		addNext("random", h, pts, randDiff(), pts-st)
	}

	// monotonicity: walk the parent timestamp upwards with everything else fixed
	monoD := []u128{uint128.From64(MIN), uint128.From64(MIN + 1), uint128.From64(1<<32 + 1), addS(pow2(64), 1), pow2(100), addS(pow2(100), -12345)}
	for i, h := range []uint64{2, 3, 1_000_000, 5_000_000_000} {
		for j, d := range monoD {
			// across the LTTC thresholds (solve time large and fixed grandparent), and across the small solve times
			base := expect(h)
			if base < 2*maxDev {
				base = 2 * maxDev
			}
			gts := base - maxDev - 20000
			var walk []uint64
			for _, o := range []uint64{0, 1, 99, 100, 101, 150, 151, 14999, 15000, 15001, 19998, 19999, 20000, 20001, 20002} {
				walk = append(walk, gts+o)
			}
			for _, o := range []int64{-1, 0, 1} {
				walk = append(walk, base-maxDev+uint64(o), base+uint64(o), base+maxDev+uint64(o))
			}
			walk = append(walk, base+year, base+30*year)
			sortU64(walk)
			for w := 0; w+1 < len(walk); w++ {
				if (w+i+j)%2 == 0 || w >= 14 { // half of the small steps, all the threshold steps
					addMono("walk", h, walk[w], walk[w+1], d, gts)
				}
			}
			addMono("walk", h, walk[0], walk[len(walk)-1], d, gts)
		}
	}
	for i := 0; i < 150*mult; i++ {
		h := randH()%config.MAX_HEIGHT + 2
		pts := expect(h) + randDev()
		if G == 0 && rng.Intn(2) == 0 {
			pts = rng.UpTo(80 * year)
		}
		if pts >= 1<<62 {
			pts = expect(h)
		}
		st := randST() % (pts + 1)
		var step uint64
		switch rng.Intn(4) {
		case 0:
			step = rng.UpTo(3)
		case 1:
			step = rng.UpTo(2 * maxDev)
		case 2:
			step = rng.UpTo(year)
		default:
			step = rng.UpTo(30000)
		}
		addMono("random", h, pts, pts+step, randDiff(), pts-st)
	}

	// ---- proof-of-work target, side block difficulty, stratum target ----
	tdiffs := append([]u128{uint128.From64(1), uint128.From64(2), uint128.From64(3), addS(pow2(64), -2), addS(pow2(65), -1), pow2(65), addS(pow2(65), 1),
		pow2(127), addS(pow2(127), -1), addS(pow2(127), 1), addS(uint128.Max, -1), pow2(96), addS(pow2(96), 1), pow2(126)}, diffs...)
	for i := 0; i < 60*mult; i++ {
		tdiffs = append(tdiffs, uint128.New(rng.U64(), rng.U64()).Rsh(uint(rng.Intn(128))))
	}
	for i := 0; i < 40*mult; i++ { // divisors with few significant bits below the top: exercise the trial-quotient correction
		sh := uint(rng.Intn(63))
		tdiffs = append(tdiffs, uint128.New(rng.Interesting(), (uint64(1)<<sh)|rng.UpTo(1<<sh-1)|uint64(rng.Intn(2))))
	}
	for _, d := range tdiffs {
		term, js, p := obs128(func() u128 { return uint128.Max.Div(d) })
		sink.Add(fmt.Sprintf("CTarget %s %s", s128(d), term), fmt.Sprintf("target/d=%s/hi=%v/%s", lenClass(d), d.Hi != 0, outClass(term, p)),
			map[string]any{"kind": "target", "diff": s128(d), "go": js, "panic": p})
		// ValidPowValue at the target, just above, and at random
		vals := []u128{uint128.Zero, uint128.Max}
		if !p {
			t := uint128.Max.Div(d)
			vals = append(vals, t, t.AddWrap64(1))
		}
		vals = append(vals, uint128.New(rng.U64(), rng.U64()).Rsh(uint(rng.Intn(128))))
		for vi, v := range vals {
			var r, pp bool
			func() {
				defer func() {
					if recover() != nil {
						pp = true
					}
				}()
				r = block.ValidPowValue(v, d)
			}()
			t := "None"
			if !pp {
				t = coqgen.Some(coqgen.Bool(r))
			}
			sink.Add(fmt.Sprintf("CPow %s %s %s", s128(v), s128(d), t), fmt.Sprintf("pow/v%d/d=%s/hi=%v/valid=%v/panic=%v", min64(uint64(vi), 4), lenClass(d), d.Hi != 0, r, pp),
				map[string]any{"kind": "pow", "val": s128(v), "diff": s128(d), "valid": r, "panic": pp})
		}
	}
	for _, d := range tdiffs[:60] {
		term, js, p := obs128(func() u128 { return d.Mul64(2).Div64(3) })
		sink.Add(fmt.Sprintf("CSide %s %s", s128(d), term), fmt.Sprintf("side/d=%s/%s", lenClass(d), outClass(term, p)),
			map[string]any{"kind": "side", "diff": s128(d), "go": js, "panic": p})
		term, js, p = obs128(func() u128 { return uint128.From64(util.GetTarget(d)) })
		sink.Add(fmt.Sprintf("CGetTarget %s %s", s128(d), term), fmt.Sprintf("gettarget/d=%s/lo0=%v/%s", lenClass(d), d.Lo == 0, outClass(term, p)),
			map[string]any{"kind": "gettarget", "diff": s128(d), "go": js, "panic": p})
	}

	// ---- raw uint128 operations ----
	randU := func() u128 {
		switch rng.Intn(5) {
		case 0:
			return uint128.New(rng.Interesting(), rng.Interesting())
		case 1:
			return uint128.From64(rng.Interesting())
		default:
			return uint128.New(rng.U64(), rng.U64()).Rsh(uint(rng.Intn(128)))
		}
	}
	opn := []string{"mul64", "div64", "mod64", "add", "div", "mod", "sub", "cmp", "cmp64"}
	for i := 0; i < 270*mult; i++ {
		op := i % len(opn)
		a, b := randU(), randU()
		if op == 0 || op == 1 || op == 2 || op == 8 {
			b = uint128.From64(rng.Interesting())
		}
		if op == 0 && rng.Intn(2) == 0 && b.Lo != 0 { // near the overflow edge
			a = addS(uint128.Max.Div64(b.Lo), int64(rng.Intn(3))-1)
		}
		if (op == 4 || op == 5) && rng.Intn(3) == 0 { // quotient near a power of two / divisor near the dividend
			a = uint128.Max
			if rng.Intn(2) == 0 {
				b = addS(a, -int64(rng.Intn(3)))
			}
		}
		cmpN := func(c int) u128 { return uint128.From64(uint64(c + 1)) }
		term, js, p := obs128(func() u128 {
			switch op {
			case 0:
				return a.Mul64(b.Lo)
			case 1:
				return a.Div64(b.Lo)
			case 2:
				return uint128.From64(a.Mod64(b.Lo))
			case 3:
				return a.Add(b)
			case 4:
				return a.Div(b)
			case 5:
				return a.Mod(b)
			case 6:
				return a.Sub(b)
			case 7:
				return cmpN(a.Cmp(b))
			default:
				return cmpN(a.Cmp64(b.Lo))
			}
		})
		sink.Add(fmt.Sprintf("CU128 %d %s %s %s", op, s128(a), s128(b), term), fmt.Sprintf("u128/%s/a=%s/b=%s/%s", opn[op], lenClass(a), lenClass(b), outClass(term, p)),
			map[string]any{"kind": "u128", "op": opn[op], "a": s128(a), "b": s128(b), "go": js, "panic": p})
	}

	if errMissing != 1 {
		panic(fmt.Sprintf("harness: GetNextDifficulty without grandparent returned %d errors, expected exactly 1 (height >= 2)", errMissing))
	}
	sink.Meta["go_big_mismatches"] = bigMismatch
	sink.Meta["rule"] = "difficultyEMA (hook) and Blockchain.GetNextDifficulty (real method over a map-backed adb.Txn holding the grandparent) on the grid solve times x difficulties x LTTC deviations x heights of DESIGN C08 incl. the Mul64 overflow edge, wrapped/decreasing timestamps and huge heights, plus random; timestamp walks for monotonicity; uint128.Max.Div, ValidPowValue at target/target+1, side-block Mul64(2).Div64(3), util.GetTarget, raw uint128 ops. A class is (kind, generator, height class, LTTC branch, solve-time class, difficulty bit-length class, outcome ok/min/panic)."
	if err := sink.Close(); err != nil {
		panic(err)
	}
}
