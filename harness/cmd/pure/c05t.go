package main

// Family c05t (property C05, the clock rule): PrevalidateBlock on blocks whose only possible defect is the timestamp,
// placed at chosen distances (milliseconds) from the limit "now + FUTURE_TIME_LIMIT seconds" and offered at chosen
// positions inside the wall-clock second (a rule evaluated in truncated seconds differs from the rule in milliseconds only
// for some positions). The block needs no history: height 1, minimum difficulty; on networks with checkpoints height 1 is
// secured (no proof of work asked), elsewhere the unit-test difficulty 1 is met by every hash.
// The clock is read before and after the call; the model's verdict at both readings brackets the implementation's.

import (
	"fmt"
	"time"

	"verifharness/coqgen"

	"github.com/virel-project/virel-blockchain/v3/block"
	"github.com/virel-project/virel-blockchain/v3/blockchain"
	"github.com/virel-project/virel-blockchain/v3/checkpoints"
	"github.com/virel-project/virel-blockchain/v3/config"
	"github.com/virel-project/virel-blockchain/v3/util"
	"github.com/virel-project/virel-blockchain/v3/util/uint128"
)

func init() { families["c05t"] = c05t }

func c05t(out string) {
	sink := coqgen.NewSink(out, "c05t", "c05t_case", 400)
	h := uint64(1)
	usable := checkpoints.IsSecured(h) && !checkpoints.IsCheckpoint(h) || config.MIN_DIFFICULTY == 1
	if !usable {
		// proof of work would be asked at a difficulty this harness cannot mine in passing: nothing to observe
		sink.Add("CFutureSkip", "c05t/not-observable-in-this-configuration", map[string]any{"kind": "skip"})
		sink.Close()
		return
	}
	offsets := []int64{-5000, -1500, -999, -500, -1, 0, 300, 500, 700, 900, 999, 1000, 1500, 5000, 60000}
	positions := []int64{40, 350, 650, 940} // milliseconds into the wall-clock second at which the block is offered
	for _, pos := range positions {
		for _, d := range offsets {
			// wait for the position
			for {
				ms := time.Now().UnixMilli() % 1000
				if ms >= pos && ms < pos+25 {
					break
				}
				time.Sleep(time.Millisecond)
			}
			b := &block.Block{}
			b.Height = h
			if h >= config.HARDFORK_V3_HEIGHT {
				b.Version = 1
			}
			b.Difficulty = uint128.From64(config.MIN_DIFFICULTY)
			now0 := util.Time()
			b.Timestamp = uint64(int64(now0) + int64(config.FUTURE_TIME_LIMIT)*1000 + d)
			res := uint64(0) // 0 accepted, 1 refused as too far in the future, 2 refused otherwise, 3 panicked
			var msg string
			func() {
				defer func() {
					if r := recover(); r != nil {
						res, msg = 3, fmt.Sprint(r)
					}
				}()
				var bc *blockchain.Blockchain // PrevalidateBlock does not touch its receiver
				if err := bc.PrevalidateBlock(b, nil); err != nil {
					msg = err.Error()
					if msg == "block is too much in the future" {
						res = 1
					} else {
						res = 2
					}
				}
			}()
			now1 := util.Time()
			sink.Add(fmt.Sprintf("CFuture %d %d %d %d", b.Timestamp, now0, now1, res),
				fmt.Sprintf("c05t/offset=%d/position=%d/res=%d", d, pos, res),
				map[string]any{"kind": "future", "offset_ms": d, "position_ms": pos, "timestamp": b.Timestamp, "clock_before": now0, "clock_after": now1, "result": res, "error": msg})
		}
	}
	sink.Meta["rule"] = "PrevalidateBlock on a block of height 1 at minimum difficulty whose timestamp lies at 15 distances (-5 s .. +60 s) from now + FUTURE_TIME_LIMIT, offered at 4 positions inside the wall-clock second; clock read before and after the call"
	sink.Close()
}
