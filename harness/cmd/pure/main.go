// pure: correspondence harness for the pure consensus functions (C07, C08, C20, ...).
// usage: pure <family> <outdir>
package main

import (
	"fmt"
	"os"
)

var families = map[string]func(out string){}

func main() {
	if len(os.Args) < 3 {
		fmt.Println("usage: pure <family> <outdir>")
		os.Exit(2)
	}
	f, ok := families[os.Args[1]]
	if !ok {
		fmt.Println("unknown family", os.Args[1])
		os.Exit(2)
	}
	f(os.Args[2])
}
