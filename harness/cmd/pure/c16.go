package main

import (
	"bytes"
	"encoding/binary"
	"fmt"
	"reflect"
	"sort"
	"time"
	"verifharness/coqgen"
	"verifharness/hutil"

	"github.com/virel-project/virel-blockchain/v3/address"
	"github.com/virel-project/virel-blockchain/v3/bitcrypto"
	"github.com/virel-project/virel-blockchain/v3/block"
	"github.com/virel-project/virel-blockchain/v3/blockchain"
	"github.com/virel-project/virel-blockchain/v3/config"
	"github.com/virel-project/virel-blockchain/v3/transaction"
	"github.com/virel-project/virel-blockchain/v3/util"
	"github.com/virel-project/virel-blockchain/v3/util/uint128"
)

func init() { families["c16"] = c16 }

// dense renumbering of byte strings (hashes, nonce extras, addresses, signatures, ...): all-zero strings are 0
type denser struct{ m map[string]uint64 }

func (d *denser) id(b []byte) uint64 {
	zero := true
	for _, x := range b {
		if x != 0 {
			zero = false
			break
		}
	}
	if zero {
		return 0
	}
	if v, ok := d.m[string(b)]; ok {
		return v
	}
	v := uint64(len(d.m) + 1)
	if v >= 1<<24-2 {
		panic("too many distinct byte strings for three-byte dense ids")
	}
	d.m[string(b)] = v
	return v
}

func cloneChains(l []block.HashingID) []block.HashingID {
	return append(make([]block.HashingID, 0, len(l)), l...)
}

func chainsEqual(a, b []block.HashingID) bool {
	if len(a) != len(b) {
		return false
	}
	for i := range a {
		if a[i] != b[i] {
			return false
		}
	}
	return true
}

func c16(out string) {
	sink := coqgen.NewSink(out, "c16", "c16_case", 250)
	rng := hutil.NewRng(16)
	thorough := hutil.Tier() == "thorough"
	dn := &denser{m: map[string]uint64{}}
	own := uint64(config.NETWORK_ID) // a variable: arithmetic around it wraps instead of failing to compile

	packChains := func(l []block.HashingID) string {
		buf := make([]byte, 0, 11*len(l))
		for _, v := range l {
			var e [11]byte
			binary.LittleEndian.PutUint64(e[:8], v.NetworkID)
			h := dn.id(v.Hash[:])
			e[8], e[9], e[10] = byte(h), byte(h>>8), byte(h>>16)
			buf = append(buf, e[:]...)
		}
		return coqgen.PackBytes(buf)
	}
	jsonChains := func(l []block.HashingID) []any {
		r := []any{}
		for _, v := range l {
			r = append(r, map[string]any{"net": v.NetworkID, "hash": dn.id(v.Hash[:])})
		}
		return r
	}
	randHash := func() (h [32]byte) { copy(h[:], rng.Bytes(32)); return }
	randBlock := func(version uint8) block.Block {
		b := block.Block{}
		b.Version = version
		b.Height = rng.UpTo(1 << 20)
		b.Timestamp = rng.UpTo(1 << 40)
		b.Nonce = uint32(rng.U64())
		copy(b.NonceExtra[:], rng.Bytes(16))
		copy(b.Recipient[:], rng.Bytes(address.SIZE))
		for i := range b.Ancestors {
			b.Ancestors[i] = util.Hash(randHash())
		}
		if version > 0 {
			b.DelegateId = rng.UpTo(1000)
			b.NextDelegateId = rng.UpTo(1000)
			copy(b.StakeSignature[:], rng.Bytes(bitcrypto.SIGNATURE_SIZE))
		}
		b.Difficulty = uint128.From64(1 + rng.UpTo(1<<30))
		b.CumulativeDiff = uint128.From64(rng.UpTo(1 << 40))
		for i := rng.Intn(3); i > 0; i-- {
			b.Transactions = append(b.Transactions, transaction.TXID(randHash()))
		}
		return b
	}

	// ------------------------------------------------------------------ setMiningBlob
	addSet := func(job block.Block, m block.MiningBlob, gen, shape string) {
		ownHid := job.Commitment().HashingID()
		// the slave receives the blob as bytes: Deserialize(Serialize) is observed for every blob (0 = same value,
		// 1 = refused, 2 = another value, 3 = panic) and its result is what setMiningBlob gets when it is accepted
		via, dec := "struct", uint64(1)
		func() {
			defer func() {
				if recover() != nil {
					dec = 3
				}
			}()
			m2 := block.MiningBlob{}
			if err := m2.Deserialize(m.Serialize()); err == nil {
				if m2.Timestamp == m.Timestamp && m2.Nonce == m.Nonce && m2.NonceExtra == m.NonceExtra && chainsEqual(m2.Chains, m.Chains) {
					dec = 0
				} else {
					dec = 2
				}
				m, via = m2, "bytes"
			}
		}()
		blobBytes := m.Serialize()
		jb := job
		jb.OtherChains = cloneChains(job.OtherChains)
		res := uint64(0)
		func() {
			defer func() {
				if recover() != nil {
					res = 2
				}
			}()
			if err := jb.VerifSetMiningBlob(m); err != nil {
				res = 1
			}
		}()
		after := cloneChains(jb.OtherChains)
		// everything but the four fields setMiningBlob is meant to write
		x, y := jb, job
		x.Timestamp, x.Nonce, x.NonceExtra, x.OtherChains = 0, 0, [16]byte{}, nil
		y.Timestamp, y.Nonce, y.NonceExtra, y.OtherChains = 0, 0, [16]byte{}, nil
		restSame := reflect.DeepEqual(x, y)
		recon, pure := uint64(3), true
		if res == 0 {
			func() {
				defer func() {
					if recover() != nil {
						recon = 2
					}
				}()
				mb := jb.Commitment().MiningBlob()
				if bytes.Equal(mb.Serialize(), blobBytes) {
					recon = 0
				} else {
					recon = 1
				}
			}()
			pure = chainsEqual(jb.OtherChains, after)
		}
		nOthers, hasOwn := 0, false
		for _, v := range m.Chains {
			if v.NetworkID == own {
				hasOwn = true
			} else {
				nOthers++
			}
		}
		class := fmt.Sprintf("set/%s/%s/others=%d/own=%v/dec=%d/res=%d/recon=%d/pure=%v", gen, shape, min64(uint64(nOthers), 4), hasOwn, dec, res, recon, pure)
		term := fmt.Sprintf("CSet %d %d %d %d %s %d %d %d %d %d %s %s %d %s", dn.id(ownHid.Hash[:]),
			m.Timestamp, m.Nonce, dn.id(m.NonceExtra[:]), packChains(m.Chains), dec, res,
			jb.Timestamp, jb.Nonce, dn.id(jb.NonceExtra[:]), packChains(after), coqgen.Bool(restSame), recon, coqgen.Bool(pure))
		sink.Add(term, class, map[string]any{"kind": "set", "generator": gen, "shape": shape, "via": via, "decode": []string{"same value", "refused", "another value", "panic"}[dec], "own_network_id": own,
			"own_hash": dn.id(ownHid.Hash[:]), "blob_chains": jsonChains(m.Chains), "blob_timestamp": m.Timestamp, "blob_nonce": m.Nonce,
			"result": []string{"nil", "error", "panic"}[res], "other_chains_after": jsonChains(after), "other_chains_after_blob": jsonChains(jb.OtherChains),
			"rest_unchanged": restSame, "reconstructed_blob": []string{"equal", "differs", "panic", "not evaluated"}[recon], "MiningBlob_left_block_intact": pure})
	}

	// network ids relative to the own id
	pickIds := func(n int, mode int) []uint64 {
		seen := map[uint64]bool{own: true}
		ids := []uint64{}
		for tries := 0; len(ids) < n; tries++ {
			var v uint64
			m := mode
			if tries > 40*(n+1) { // not enough ids of the requested kind (e.g. below network id 1): anywhere
				m = 3
			}
			switch m {
			case 0: // below
				if own == 0 {
					v = rng.U64()
				} else {
					v = rng.UpTo(own - 1)
				}
			case 1: // above
				if own == ^uint64(0) {
					v = rng.U64()
				} else {
					v = own + 1 + rng.UpTo(^uint64(0)-own-1)
				}
			case 2: // adjacent / extreme
				c := []uint64{own - 1, own + 1, own - 2, own + 2, 0, 1, 2, ^uint64(0), ^uint64(0) - 1, own - 3, own + 3, 1 << 63, 1<<63 - 1, 3, 4, 5, 6, 7, 8, 9, 10, 11, 12}
				v = c[rng.Intn(len(c))]
			default: // anywhere
				v = rng.Interesting()
			}
			if !seen[v] {
				seen[v] = true
				ids = append(ids, v)
			}
		}
		return ids
	}
	sortChains := func(l []block.HashingID) {
		sort.Slice(l, func(i, j int) bool { return l[i].NetworkID < l[j].NetworkID })
	}
	permute := func(l []block.HashingID, k func([]block.HashingID)) {
		// Heap's algorithm
		n := len(l)
		c := make([]int, n)
		a := cloneChains(l)
		k(a)
		for i := 0; i < n; {
			if c[i] < i {
				if i%2 == 0 {
					a[0], a[i] = a[i], a[0]
				} else {
					a[c[i]], a[i] = a[i], a[c[i]]
				}
				k(a)
				c[i]++
				i = 0
			} else {
				c[i] = 0
				i++
			}
		}
	}

	mkBlob := func(job block.Block, chains []block.HashingID) block.MiningBlob {
		m := block.MiningBlob{Timestamp: rng.UpTo(1 << 40), Nonce: uint32(rng.U64()), Chains: cloneChains(chains)}
		copy(m.NonceExtra[:], rng.Bytes(16))
		return m
	}
	newJob := func() block.Block {
		job := randBlock(uint8(rng.Intn(2)))
		// whatever the job held before must be overwritten
		for i := rng.Intn(3); i > 0; i-- {
			job.OtherChains = append(job.OtherChains, block.HashingID{NetworkID: rng.U64(), Hash: randHash()})
		}
		return job
	}

	// always-run witnesses of the defects this check found (KNOWN_FINDINGS.json, status fixed)
	{
		job := newJob()
		hid := job.Commitment().HashingID()
		f := func(id uint64) block.HashingID { return block.HashingID{NetworkID: id, Hash: randHash()} }
		lo, hi := own-1, own+1 // own is neither 0 nor 2^64-1 in the shipped configurations
		// R1: two or more other chains were truncated to the first one
		addSet(job, mkBlob(job, []block.HashingID{hid, f(hi), f(hi + 1)}), "witness-R1", "two-above")
		if own >= 3 {
			addSet(job, mkBlob(job, []block.HashingID{f(lo - 1), f(lo), hid}), "witness-R1", "two-below")
		}
		addSet(job, mkBlob(job, []block.HashingID{f(lo), hid, f(hi)}), "witness-R1", "below-and-above")
		// R1: a blob without this network's id was accepted when a foreign id came first
		addSet(job, mkBlob(job, []block.HashingID{f(hi)}), "witness-R1", "own-missing")
		addSet(job, mkBlob(job, []block.HashingID{f(hi), f(hi + 1)}), "witness-R1", "own-missing")
		// a leading network id 0 was refused as "not sorted"
		addSet(job, mkBlob(job, []block.HashingID{f(0), hid}), "witness-id0", "zero-first")
		addSet(job, mkBlob(job, []block.HashingID{f(0), hid, f(hi)}), "witness-id0", "zero-first")
		// this network's entry was not part of the order check
		addSet(job, mkBlob(job, []block.HashingID{f(hi), hid, f(hi + 1)}), "witness-own-order", "own-after-larger")
		addSet(job, mkBlob(job, []block.HashingID{f(hi), hid}), "witness-own-order", "own-after-larger")
		// Commitment.MiningBlob sorted the block's own OtherChains array in place (three others leave spare capacity)
		addSet(job, mkBlob(job, []block.HashingID{hid, f(hi), f(hi + 1), f(hi + 2)}), "witness-alias", "three-above")
		addSet(job, mkBlob(job, []block.HashingID{hid, f(hi), f(hi + 1), f(hi + 2), f(hi + 3), f(hi + 4)}), "witness-alias", "five-above")
	}

	nBase := 1
	if thorough {
		nBase = 4
	}
	for n := 0; n <= 15; n++ {
		for mode := 0; mode < 4; mode++ {
			for rep := 0; rep < nBase; rep++ {
				job := newJob()
				hid := job.Commitment().HashingID()
				ids := pickIds(n, mode)
				others := make([]block.HashingID, n)
				for i, id := range ids {
					others[i] = block.HashingID{NetworkID: id, Hash: randHash()}
				}
				valid := append(cloneChains(others), hid)
				sortChains(valid)
				gen := []string{"below", "above", "adjacent", "anywhere"}[mode]
				addSet(job, mkBlob(job, valid), gen, "valid")

				// permutations: all for up to 4 (quick) / 5 (thorough) entries, random ones above
				maxAll, nRand := 4, 12
				if thorough {
					maxAll, nRand = 5, 200
				}
				if len(valid) <= maxAll {
					first := true
					permute(valid, func(p []block.HashingID) {
						if first { // the identity is the valid blob itself
							first = false
							return
						}
						addSet(job, mkBlob(job, p), gen, "permutation")
					})
				} else {
					for i := 0; i < nRand; i++ {
						p := cloneChains(valid)
						switch rng.Intn(3) {
						case 0: // one adjacent transposition
							j := rng.Intn(len(p) - 1)
							p[j], p[j+1] = p[j+1], p[j]
						case 1: // move this network's entry elsewhere
							var oi int
							for k, v := range p {
								if v.NetworkID == own {
									oi = k
								}
							}
							e := p[oi]
							p = append(p[:oi], p[oi+1:]...)
							j := rng.Intn(len(p) + 1)
							p = append(p[:j], append([]block.HashingID{e}, p[j:]...)...)
						default:
							for k := len(p) - 1; k > 0; k-- {
								j := rng.Intn(k + 1)
								p[k], p[j] = p[j], p[k]
							}
						}
						shape := "permutation"
						if chainsEqual(p, valid) {
							shape = "valid"
						}
						addSet(job, mkBlob(job, p), gen, shape)
					}
				}
				// duplication of each position (a few positions in the quick tier), adjacent and at the end
				for i := range valid {
					if !thorough && len(valid) > 4 && rng.Intn(len(valid)) >= 3 {
						continue
					}
					d := append(cloneChains(valid[:i+1]), valid[i:]...)
					addSet(job, mkBlob(job, d), gen, "duplicate-adjacent")
					if i+1 < len(valid) {
						addSet(job, mkBlob(job, append(cloneChains(valid), valid[i])), gen, "duplicate-at-end")
					}
				}
				// this network's entry removed
				noOwn := []block.HashingID{}
				for _, v := range valid {
					if v.NetworkID != own {
						noOwn = append(noOwn, v)
					}
				}
				addSet(job, mkBlob(job, noOwn), gen, "own-missing")
				// this network's id with another hash
				wrong := cloneChains(valid)
				for i := range wrong {
					if wrong[i].NetworkID == own {
						wrong[i].Hash = randHash()
					}
				}
				addSet(job, mkBlob(job, wrong), gen, "own-wrong-hash")
				// two entries of this network
				two := []block.HashingID{}
				for _, v := range valid {
					two = append(two, v)
					if v.NetworkID == own {
						two = append(two, block.HashingID{NetworkID: own, Hash: randHash()})
					}
				}
				addSet(job, mkBlob(job, two), gen, "own-twice")
				if n >= 2 {
					// two other chains with the same hash (distinct ids), two with the same id (distinct hashes)
					i, j := rng.Intn(n), rng.Intn(n-1)
					if j >= i {
						j++
					}
					dh := cloneChains(others)
					dh[j].Hash = dh[i].Hash
					dhb := append(dh, hid)
					sortChains(dhb)
					addSet(job, mkBlob(job, dhb), gen, "duplicate-hash")
					di := cloneChains(others)
					di[j].NetworkID = di[i].NetworkID
					dib := append(di, hid)
					sort.SliceStable(dib, func(a, b int) bool { return dib[a].NetworkID < dib[b].NetworkID })
					addSet(job, mkBlob(job, dib), gen, "duplicate-id")
				}
			}
		}
	}
	// more than 15 other chains (the codec refuses such a blob; setMiningBlob itself has no limit)
	for _, n := range []int{16, 17, 20} {
		job := newJob()
		hid := job.Commitment().HashingID()
		valid := []block.HashingID{hid}
		for _, id := range pickIds(n, 3) {
			valid = append(valid, block.HashingID{NetworkID: id, Hash: randHash()})
		}
		sortChains(valid)
		addSet(job, mkBlob(job, valid), "anywhere", "valid-oversize")
	}

	// ------------------------------------------------------------------ the two sorts
	addSort := func(which int, l []block.HashingID, gen string) {
		inp := cloneChains(l)
		var ownHash uint64
		var res []block.HashingID
		panicked, pure := false, true
		func() {
			defer func() {
				if recover() != nil {
					panicked = true
				}
			}()
			if which == 0 {
				b := block.Block{}
				b.OtherChains = cloneChains(l)
				b.SortOtherChains()
				res = b.OtherChains
			} else {
				c := block.Commitment{BaseHash: util.Hash(randHash()), OtherChains: cloneChains(l)}
				if rng.Intn(2) == 0 { // spare capacity, as left behind by append
					c.OtherChains = append(make([]block.HashingID, 0, len(l)+1+rng.Intn(4)), l...)
				}
				h := c.HashingID()
				ownHash = dn.id(h.Hash[:])
				view := c.OtherChains
				defer func() { pure = chainsEqual(view, inp) }()
				res = c.MiningBlob().Chains
			}
		}()
		term := "None"
		if !panicked {
			term = coqgen.Some(packChains(res))
		}
		sink.Add(fmt.Sprintf("CSort %d %s %d %s %s", which, packChains(inp), ownHash, term, coqgen.Bool(pure)),
			fmt.Sprintf("sort/%d/%s/n=%d/panic=%v/pure=%v", which, gen, min64(uint64(len(l)), 5), panicked, pure),
			map[string]any{"kind": "sort", "function": []string{"SortOtherChains", "Commitment.MiningBlob"}[which], "input": jsonChains(inp),
				"own_network_id": own, "panic": panicked, "output": jsonChains(res), "input_left_intact": pure})
	}
	for which := 0; which < 2; which++ {
		for n := 0; n <= 15; n++ {
			reps := 3
			if thorough {
				reps = 20
			}
			for rep := 0; rep < reps; rep++ {
				ids := pickIds(n, 2+rng.Intn(2))
				l := make([]block.HashingID, n)
				for i, id := range ids {
					l[i] = block.HashingID{NetworkID: id, Hash: randHash()}
				}
				switch rep % 3 {
				case 0:
					addSort(which, l, "shuffled")
				case 1:
					sortChains(l)
					addSort(which, l, "sorted")
				default:
					if n >= 2 {
						l[rng.Intn(n)].NetworkID = l[rng.Intn(n)].NetworkID // maybe a duplicate id
					} else if n == 1 && which == 1 {
						l[0].NetworkID = own // this network's id among the other chains
					}
					addSort(which, l, "duplicate")
				}
			}
		}
	}

	// ------------------------------------------------------------------ what the proof-of-work input commits to
	sideBytes := func(b *block.Block) []byte {
		var o []byte
		for _, s := range b.SideBlocks {
			o = append(o, s.Serialize()...)
		}
		return o
	}
	txBytes := func(b *block.Block) []byte {
		var o []byte
		for _, t := range b.Transactions {
			o = append(o, t[:]...)
		}
		return o
	}
	fbTerm := func(b *block.Block) string {
		return fmt.Sprintf("(fb %d %d %d %d %d %s %d %d %d %d %d %d %d %d %d %d %d)", b.Version, b.Height, b.Timestamp, b.Nonce,
			dn.id(b.NonceExtra[:]), packChains(b.OtherChains), dn.id(b.Recipient[:]),
			dn.id(b.Ancestors[0][:]), dn.id(b.Ancestors[1][:]), dn.id(b.Ancestors[2][:]), dn.id(sideBytes(b)),
			b.DelegateId, b.NextDelegateId, dn.id(b.StakeSignature[:]), b.Difficulty.Lo, b.CumulativeDiff.Lo, dn.id(txBytes(b)))
	}
	if config.MINIDAG_ANCESTORS != 3 {
		panic("the case format assumes three ancestors")
	}
	blobOf := func(b block.Block) (ser []byte, panicked bool) {
		defer func() {
			if recover() != nil {
				panicked = true
			}
		}()
		b.OtherChains = cloneChains(b.OtherChains) // exact capacity: keep the caller's slice out of MiningBlob's reach
		return b.Commitment().MiningBlob().Serialize(), false
	}
	prevalidate := func(b block.Block, observe bool) uint64 {
		if !observe || config.MIN_DIFFICULTY != 1 || b.Difficulty.Cmp64(1) != 0 || len(b.SideBlocks) != 0 {
			return 2
		}
		res := uint64(0)
		func() {
			defer func() {
				if recover() != nil {
					res = 3
				}
			}()
			var bc *blockchain.Blockchain // PrevalidateBlock does not touch its receiver
			bb := b
			bb.OtherChains = cloneChains(b.OtherChains)
			if err := bc.PrevalidateBlock(&bb, nil); err != nil {
				res = 1
			}
		}()
		return res
	}
	addMask := func(b1, b2 block.Block, mut string, observe bool) {
		baseEq := b1.BaseHash() == b2.BaseHash()
		hidEq := b1.Commitment().HashingID() == b2.Commitment().HashingID()
		hashEq := b1.Hash() == b2.Hash()
		s1, p1 := blobOf(b1)
		s2, p2 := blobOf(b2)
		blobEq := uint64(0)
		if p1 || p2 {
			blobEq = 2
		} else if bytes.Equal(s1, s2) {
			blobEq = 1
		}
		pv1, pv2 := prevalidate(b1, observe), prevalidate(b2, observe)
		sink.Add(fmt.Sprintf("CMask %s %s %s %s %s %d %d %d", fbTerm(&b1), fbTerm(&b2), coqgen.Bool(baseEq), coqgen.Bool(hidEq), coqgen.Bool(hashEq), blobEq, pv1, pv2),
			fmt.Sprintf("mask/%s/v%d/base=%v/hash=%v/blob=%d/pv=%d,%d", mut, b1.Version, baseEq, hashEq, blobEq, pv1, pv2),
			map[string]any{"kind": "mask", "mutation": mut, "version": b1.Version, "other_chains_1": jsonChains(b1.OtherChains), "other_chains_2": jsonChains(b2.OtherChains),
				"base_hash_equal": baseEq, "hashing_id_equal": hidEq, "block_hash_equal": hashEq,
				"mining_blob": []string{"differs", "equal", "panic"}[blobEq],
				"PrevalidateBlock_1": []string{"nil", "error", "not observed", "panic"}[pv1], "PrevalidateBlock_2": []string{"nil", "error", "not observed", "panic"}[pv2]})
	}
	type mutation struct {
		name string
		f    func(b *block.Block)
	}
	muts := []mutation{
		{"none", func(b *block.Block) {}},
		{"version", func(b *block.Block) { b.Version ^= 1 }},
		{"height", func(b *block.Block) { b.Height++ }},
		{"timestamp", func(b *block.Block) { b.Timestamp++ }},
		{"nonce", func(b *block.Block) { b.Nonce++ }},
		{"nonce-extra", func(b *block.Block) { b.NonceExtra[rng.Intn(16)] ^= 1 }},
		{"recipient", func(b *block.Block) { b.Recipient[rng.Intn(address.SIZE)] ^= 1 }},
		{"ancestor-0", func(b *block.Block) { b.Ancestors[0][rng.Intn(32)] ^= 1 }},
		{"ancestor-1", func(b *block.Block) { b.Ancestors[1][rng.Intn(32)] ^= 1 }},
		{"ancestor-2", func(b *block.Block) { b.Ancestors[2][rng.Intn(32)] ^= 1 }},
		{"side-blocks", func(b *block.Block) {
			b.SideBlocks = append(append([]block.Commitment{}, b.SideBlocks...), block.Commitment{BaseHash: util.Hash(randHash()), Timestamp: 5})
		}},
		{"delegate-id", func(b *block.Block) { b.DelegateId++ }},
		{"next-delegate-id", func(b *block.Block) { b.NextDelegateId++ }},
		{"stake-signature", func(b *block.Block) { b.StakeSignature[rng.Intn(bitcrypto.SIGNATURE_SIZE)] ^= 1 }},
		{"signature-and-next-delegate", func(b *block.Block) { b.StakeSignature[3] ^= 4; b.NextDelegateId += 7 }},
		{"difficulty", func(b *block.Block) { b.Difficulty = b.Difficulty.Add64(1) }},
		{"difficulty-zero", func(b *block.Block) { b.Difficulty = uint128.Zero }},
		{"cumulative-diff", func(b *block.Block) { b.CumulativeDiff = b.CumulativeDiff.Add64(1) }},
		{"transactions", func(b *block.Block) {
			b.Transactions = append(append([]transaction.TXID{}, b.Transactions...), transaction.TXID(randHash()))
		}},
		{"other-chain-hash", func(b *block.Block) {
			if len(b.OtherChains) > 0 {
				b.OtherChains = cloneChains(b.OtherChains)
				b.OtherChains[rng.Intn(len(b.OtherChains))].Hash[5] ^= 1
			}
		}},
		{"other-chain-id", func(b *block.Block) {
			if len(b.OtherChains) > 0 {
				b.OtherChains = cloneChains(b.OtherChains)
				b.OtherChains[len(b.OtherChains)-1].NetworkID += 1 << 20
			}
		}},
		{"other-chain-added", func(b *block.Block) {
			b.OtherChains = append(cloneChains(b.OtherChains), block.HashingID{NetworkID: own ^ (1 << 62) ^ rng.UpTo(1<<30), Hash: randHash()})
		}},
		{"other-chain-removed", func(b *block.Block) {
			if len(b.OtherChains) > 0 {
				b.OtherChains = cloneChains(b.OtherChains[1:])
			}
		}},
		{"nonce-and-timestamp-and-signature", func(b *block.Block) { b.Nonce += 3; b.Timestamp += 9; b.StakeSignature[0] ^= 1 }},
	}
	nMask := 6
	if thorough {
		nMask = 40
	}
	for i := 0; i < nMask; i++ {
		b1 := randBlock(uint8(i % 2))
		nOc := rng.Intn(4)
		for _, id := range pickIds(nOc, 3) {
			b1.OtherChains = append(b1.OtherChains, block.HashingID{NetworkID: id, Hash: randHash()})
		}
		b1.SortOtherChains()
		for _, mu := range muts {
			b2 := b1
			mu.f(&b2)
			addMask(b1, b2, mu.name, false)
		}
	}
	// the order of OtherChains, duplicates and this network's id in it, on blocks PrevalidateBlock can accept
	// (difficulty 1, no side blocks; observed where MIN_DIFFICULTY = 1)
	for i := 0; i < nMask*2; i++ {
		h := rng.UpTo(100)
		var v uint8
		if h >= config.HARDFORK_V3_HEIGHT {
			v = 1
		}
		b1 := randBlock(v)
		b1.Height = h
		b1.Timestamp = uint64(time.Now().UnixMilli()) - 3600_000 - rng.UpTo(1000)
		b1.Difficulty = uint128.From64(1)
		nOc := 2 + rng.Intn(3)
		for _, id := range pickIds(nOc, 2+rng.Intn(2)) {
			b1.OtherChains = append(b1.OtherChains, block.HashingID{NetworkID: id, Hash: randHash()})
		}
		b1.SortOtherChains()
		b2 := b1
		b2.OtherChains = cloneChains(b1.OtherChains)
		switch i % 4 {
		case 0, 1:
			j := rng.Intn(nOc - 1)
			b2.OtherChains[j], b2.OtherChains[j+1] = b2.OtherChains[j+1], b2.OtherChains[j]
			addMask(b1, b2, "other-chains-permuted", true)
		case 2:
			b2.OtherChains[0].NetworkID = b2.OtherChains[1].NetworkID
			addMask(b1, b2, "other-chains-duplicate-id", true)
			b3 := b1
			b3.OtherChains = cloneChains(b1.OtherChains)
			b3.OtherChains[1].Hash = b3.OtherChains[0].Hash
			addMask(b1, b3, "other-chains-duplicate-hash", true)
		default:
			b2.OtherChains[rng.Intn(nOc)].NetworkID = own
			addMask(b1, b2, "other-chains-own-id", true)
		}
	}

	sink.Meta["rule"] = "setMiningBlob (hook VerifSetMiningBlob) on blobs with 0..15 other chains whose ids lie below / above / adjacent to / anywhere around this network's id: the valid blob, permutations (all up to 4 entries, random ones above; 5 and 200 in the thorough tier), duplicated positions, own entry missing / with a wrong hash / twice, duplicate hash, duplicate id, oversize; observed: error, the block afterwards, byte equality of Commitment().MiningBlob().Serialize() with the blob, whether computing it left the block intact. SortOtherChains and Commitment.MiningBlob on shuffled / sorted / duplicate lists. Pairs of blocks differing in one field (every field) or in the order / duplicates of OtherChains: equality of BaseHash, HashingID, MiningBlob bytes, Block.Hash, PrevalidateBlock result where MIN_DIFFICULTY = 1. A class is (kind, generator, shape, size, outcome)."
	if err := sink.Close(); err != nil {
		panic(err)
	}
}
