package main

import (
	"fmt"
	"verifharness/coqgen"
	"verifharness/hutil"

	"github.com/virel-project/virel-blockchain/v3/bitcrypto"
	"github.com/virel-project/virel-blockchain/v3/block"
	"github.com/virel-project/virel-blockchain/v3/config"
)

func init() { families["c07"] = c07 }

func c07(out string) {
	sink := coqgen.NewSink(out, "c07", "c07_case", 400)
	rng := hutil.NewRng(7)
	thorough := hutil.Tier() == "thorough"
	const RI = uint64(config.REDUCTION_INTERVAL)

	addH := func(h uint64, why string) {
		r, r1 := block.Reward(h), block.Reward(h+1)
		s, s1 := block.GetSupplyAtHeight(h), block.GetSupplyAtHeight(h+1)
		class := fmt.Sprintf("reward/%s/phase=%d/zero=%v", why, min64(h/RI, 300), r == 0)
		if (h+1)%RI == 0 {
			class += "/boundary"
		}
		sink.Add(fmt.Sprintf("CReward %d %d %d %d %d", h, r, r1, s, s1), class,
			map[string]any{"kind": "reward", "height": h, "reward": r, "reward_next": r1, "supply": s, "supply_next": s1})
	}
	// every phase boundary -2..+1 until well after the reward is 0
	nph := uint64(280)
	if thorough {
		nph = 420
	}
	for k := uint64(0); k <= nph; k++ {
		for d := int64(-2); d <= 1; d++ {
			h := int64(k*RI) + d
			if h >= 0 {
				addH(uint64(h), "boundary")
			}
		}
	}
	for _, h := range []uint64{0, 1, 2, config.MAX_HEIGHT - 1, config.MAX_HEIGHT, 1 << 32, 1<<32 - 1} { // heights far above MAX_HEIGHT overflow the Go stack in reduce (recursion depth = phase); outside the property's domain
		addH(h, "special")
	}
	nrand := 300
	if thorough {
		nrand = 3000
	}
	for i := 0; i < nrand; i++ {
		var h uint64
		switch rng.Intn(10) {
		case 0:
			h = rng.UpTo(config.MAX_HEIGHT) // anywhere (long loops in the model: few)
		case 1:
			h = rng.UpTo(1200 * RI)
		default:
			h = rng.UpTo(420 * RI)
		}
		addH(h, "random")
	}

	// coinbase
	bound := uint64(config.MAX_SUPPLY) + uint64(config.BLOCK_REWARD)
	addC := func(version uint8, signed bool, total uint64, why string) {
		b := block.Block{}
		b.Version = version
		b.DelegateId = 7
		if signed {
			b.StakeSignature = bitcrypto.Signature{1}
		}
		var outs []block.CoinbaseOutput
		panicked := false
		func() {
			defer func() {
				if recover() != nil {
					panicked = true
				}
			}()
			outs = b.CoinbaseTransaction(total)
		}()
		term := "None"
		var sm []any
		if !panicked {
			items := []string{}
			for _, o := range outs {
				items = append(items, coqgen.Pair(coqgen.N(uint64(o.Type)), coqgen.N(o.Amount)))
				sm = append(sm, []uint64{uint64(o.Type), o.Amount})
			}
			term = coqgen.Some(coqgen.List(items))
		}
		class := fmt.Sprintf("coinbase/%s/v%d/signed=%v/n=%d/inbound=%v", why, version, signed, len(outs), total <= bound)
		sink.Add(fmt.Sprintf("CCoinbase %d %s %d %s", version, coqgen.Bool(signed), total, term), class,
			map[string]any{"kind": "coinbase", "version": version, "signed": signed, "total": total, "outs": sm, "panic": panicked})
	}
	totals := map[uint64]string{}
	for t := uint64(0); t <= 120; t++ {
		totals[t] = "small"
	}
	for _, m := range []uint64{2, 4, 10, 100} {
		for k := uint64(1); k*m <= 2000; k += 7 {
			for d := int64(-1); d <= 1; d++ {
				totals[uint64(int64(k*m)+d)] = "multiple"
			}
		}
	}
	for i := uint(1); i < 64; i++ {
		for d := int64(-1); d <= 1; d++ {
			totals[uint64(int64(uint64(1)<<i)+d)] = "pow2"
		}
	}
	totals[bound], totals[bound-1], totals[bound+1] = "bound", "bound", "bound"
	totals[config.BLOCK_REWARD], totals[config.MAX_SUPPLY], totals[^uint64(0)] = "bound", "bound", "bound"
	nr := 200
	if thorough {
		nr = 3000
	}
	for i := 0; i < nr; i++ {
		if rng.Intn(4) == 0 {
			totals[rng.U64()] = "random64"
		} else {
			totals[rng.UpTo(bound)] = "random"
		}
	}
	keys := make([]uint64, 0, len(totals))
	for t := range totals {
		keys = append(keys, t)
	}
	sortU64(keys)
	for _, t := range keys {
		for _, v := range []uint8{0, 1} {
			for _, s := range []bool{false, true} {
				addC(v, s, t, totals[t])
			}
		}
	}
	addC(2, false, 100, "badversion")
	sink.Meta["rule"] = "reward/supply at every phase boundary -2..+1, special and random heights; coinbase on small, multiple, power-of-two, bound and random totals x versions x stake status. A class is (kind, generator, phase or version/signed/output count/in-bound)."
	if err := sink.Close(); err != nil {
		panic(err)
	}
}
