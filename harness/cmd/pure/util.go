package main

import "sort"

func min64(a, b uint64) uint64 {
	if a < b {
		return a
	}
	return b
}

func sortU64(k []uint64) { sort.Slice(k, func(i, j int) bool { return k[i] < k[j] }) }
