// p2pframe: correspondence harness for the peer-to-peer transport (property C14).
// usage: p2pframe c14 <outdir>        cases for the build configuration this binary was compiled under
//
//	p2pframe c14peer <ignored>   child mode: one P2P endpoint driven over stdin/stdout (cross-build connections)
//
// Everything observed here is produced by the real code: bitcrypto.Cipher, p2p.Handshake, and live p2p.P2P values
// (created by the verif hook VerifNew, sockets attached by VerifAttach = NewConnection + handleConnection) talking
// over loopback TCP through a relay that records and rewrites the byte stream.
package main

import (
	"crypto/ecdh"
	"crypto/rand"
	"encoding/binary"
	"fmt"
	"os"
	"path/filepath"
	"strings"
	"time"

	"verifharness/coqgen"
	"verifharness/hutil"

	"github.com/virel-project/virel-blockchain/v3/bitcrypto"
	"github.com/virel-project/virel-blockchain/v3/config"
	"github.com/virel-project/virel-blockchain/v3/logger"
	"github.com/virel-project/virel-blockchain/v3/p2p"
	"github.com/zeebo/blake3"
)

func main() {
	if len(os.Args) < 3 {
		fmt.Println("usage: p2pframe <c14|c14peer> <outdir>")
		os.Exit(2)
	}
	// a stuck socket must never turn into a silent partial result
	go func() {
		time.Sleep(20 * time.Minute)
		fmt.Fprintln(os.Stderr, "p2pframe: watchdog expired")
		os.Exit(3)
	}()
	switch os.Args[1] {
	case "c14":
		c14(os.Args[2])
	case "c14peer":
		childMain()
	case "c14trunc1": // development aid: the one-byte truncation with the prefix kept, many times (see truncateCase)
		sink := coqgen.NewSink(os.Args[2], "c14", "c14_case", 250)
		w := newWorld(sink, hutil.NewRng(14), false)
		for i := 0; i < 1500; i++ {
			w.truncateCase(1, 0)
		}
		sink.Meta["config"] = configName()
		if err := sink.Close(); err != nil {
			panic(err)
		}
		for k, v := range sink.Meta["classes"].(map[string]int) {
			fmt.Printf("%6d %s\n", v, k)
		}
	case "c14hammer": // development aid: only the concurrent-sender rounds; prints the class histogram
		if os.Getenv("HAMMER_LOG") != "" {
			l := logger.New()
			l.SetLogLevel(2)
			l.SetStdout(os.Stderr)
			p2p.Log = l
		}
		sink := coqgen.NewSink(os.Args[2], "c14", "c14_case", 250)
		t0 := time.Now()
		hammerCases(sink, hutil.NewRng(1414), hutil.Tier() == "thorough")
		if err := sink.Close(); err != nil {
			panic(err)
		}
		fmt.Printf("%d cases in %v\n%v\n", sink.Len(), time.Since(t0), sink.Meta["hammer_round_wall"])
		for k, v := range sink.Meta["classes"].(map[string]int) {
			fmt.Printf("%6d %s\n", v, k)
		}
	default:
		fmt.Println("unknown family", os.Args[1])
		os.Exit(2)
	}
}

func fatal(format string, a ...any) {
	fmt.Fprintf(os.Stderr, "p2pframe: "+format+"\n", a...)
	os.Exit(4)
}

// configName: the build configuration, from the binary name p2pframe_<config> (run_check.py) or the network name
func configName() string {
	exe, err := os.Executable()
	if err == nil {
		b := filepath.Base(exe)
		if i := strings.LastIndex(b, "_"); i >= 0 && strings.HasPrefix(b, "p2pframe_") {
			return b[i+1:]
		}
	}
	return config.NETWORK_NAME
}

// deriveCipher is the key derivation as this harness understands the protocol, written independently of p2p.go:
// AES-256-GCM key = BLAKE3-256( u64le network id || X25519(own private key, peer public key) ).
// Every frame captured on a live connection must open under it (go_key_ok), otherwise the model's kdf is wrong.
func deriveCipher(netid uint64, priv *ecdh.PrivateKey, peerPub []byte) (bitcrypto.Cipher, error) {
	pub, err := ecdh.X25519().NewPublicKey(peerPub)
	if err != nil {
		return bitcrypto.Cipher{}, err
	}
	shared, err := priv.ECDH(pub)
	if err != nil {
		return bitcrypto.Cipher{}, err
	}
	in := make([]byte, 8, 40)
	binary.LittleEndian.PutUint64(in, netid)
	in = append(in, shared...)
	return bitcrypto.NewCipher(blake3.Sum256(in))
}

func newKey() *ecdh.PrivateKey {
	k, err := ecdh.X25519().GenerateKey(rand.Reader)
	if err != nil {
		panic(err)
	}
	return k
}

// ---------------------------------------------------------------- numbering of opaque values

type numbering struct {
	m    map[string]uint64
	next uint64
}

func newNumbering(first uint64) *numbering { return &numbering{m: map[string]uint64{}, next: first} }
func (n *numbering) id(b []byte) uint64 {
	if v, ok := n.m[string(b)]; ok {
		return v
	}
	v := n.next
	n.next++
	n.m[string(b)] = v
	return v
}

var nonceIDs = newNumbering(1)
var nodeIDs = newNumbering(1) // 0 is reserved for the all-zero peer id

func nodeID(pub []byte) uint64 {
	zero := true
	for _, b := range pub {
		if b != 0 {
			zero = false
		}
	}
	if zero {
		return 0
	}
	return nodeIDs.id(pub)
}

// ---------------------------------------------------------------- Gallina printing

func allEqual(b []byte) bool {
	for _, x := range b {
		if x != b[0] {
			return false
		}
	}
	return true
}

// dspec prints a byte string; long runs of one value are printed as DRep (a 4 MiB literal would cost minutes)
func dspec(b []byte) string {
	if len(b) > 600 {
		if allEqual(b) {
			return fmt.Sprintf("(DRep %d %d)", b[0], len(b))
		}
		if allEqual(b[2:]) {
			return fmt.Sprintf("(DApp (DBytes %s) (DRep %d %d))", coqgen.PackBytes(b[:2]), b[2], len(b)-2)
		}
	}
	return "(DBytes " + coqgen.PackBytes(b) + ")"
}

func nlist(v []uint64) string {
	s := make([]string, len(v))
	for i, x := range v {
		s[i] = coqgen.N(x)
	}
	return coqgen.List(s)
}

type pkt struct {
	Type uint16
	Data []byte
}

func pktList(ps []pkt) string {
	s := make([]string, len(ps))
	for i, p := range ps {
		s[i] = fmt.Sprintf("(%d, %s)", p.Type, dspec(p.Data))
	}
	return coqgen.List(s)
}

func pktSample(ps []pkt) []any {
	var out []any
	for _, p := range ps {
		d := p.Data
		if len(d) > 24 {
			out = append(out, map[string]any{"type": p.Type, "len": len(d), "head": fmt.Sprintf("%x", d[:24])})
		} else {
			out = append(out, map[string]any{"type": p.Type, "data": fmt.Sprintf("%x", d)})
		}
	}
	return out
}
