package main

import (
	"bufio"
	"crypto/ecdh"
	"encoding/binary"
	"encoding/hex"
	"encoding/json"
	"fmt"
	"io"
	"net"
	"os"
	"os/exec"
	"sync"
	"sync/atomic"
	"time"

	"github.com/virel-project/virel-blockchain/v3/config"
	"github.com/virel-project/virel-blockchain/v3/p2p"
	"github.com/virel-project/virel-blockchain/v3/p2p/packet"
)

const ioTimeout = 30 * time.Second

// ---------------------------------------------------------------- sockets

var listeners []net.Listener
var nextListener int

// sockpair: (socket handed to the node, socket kept by the relay). The node gets the ACCEPTED side, so that its
// RemoteAddr (the key of P2P.Connections) is a fresh ephemeral port for every connection.
func sockpair() (net.Conn, net.Conn) {
	if listeners == nil {
		for i := 0; i < 8; i++ {
			l, err := net.Listen("tcp", "127.0.0.1:0")
			if err != nil {
				fatal("listen: %v", err)
			}
			listeners = append(listeners, l)
		}
	}
	l := listeners[nextListener%len(listeners)]
	nextListener++
	relay, err := net.Dial("tcp", l.Addr().String())
	if err != nil {
		fatal("dial: %v", err)
	}
	node, err := l.Accept()
	if err != nil {
		fatal("accept: %v", err)
	}
	return node, relay
}

// rsock: the relay's end of one socket; a goroutine cuts the incoming bytes at the length prefixes
// (handshake and frames have the same outer shape: u32le length || body)
type rsock struct {
	c      net.Conn
	frames chan []byte // prefix+body
	closed chan struct{}
}

func newRsock(c net.Conn) *rsock {
	s := &rsock{c: c, frames: make(chan []byte, 256), closed: make(chan struct{})}
	go func() {
		defer close(s.closed)
		for {
			h := make([]byte, 4)
			if _, err := io.ReadFull(c, h); err != nil {
				return
			}
			l := binary.LittleEndian.Uint32(h)
			if l > 64<<20 {
				return
			}
			b := make([]byte, 4+int(l))
			copy(b, h)
			if _, err := io.ReadFull(c, b[4:]); err != nil {
				return
			}
			s.frames <- b
		}
	}()
	return s
}

func (s *rsock) next(what string) []byte {
	select {
	case f := <-s.frames:
		return f
	case <-s.closed:
		select {
		case f := <-s.frames:
			return f
		default:
		}
		return nil
	case <-time.After(ioTimeout):
		fatal("timeout waiting for %s", what)
		return nil
	}
}

func (s *rsock) write(b []byte) {
	s.c.SetWriteDeadline(time.Now().Add(ioTimeout))
	s.c.Write(b) // an error means the node already hung up; what was delivered is observed separately
}

func (s *rsock) closeWrite() {
	if t, ok := s.c.(*net.TCPConn); ok {
		t.CloseWrite()
	}
}

func (s *rsock) waitClosed(what string) {
	select {
	case <-s.closed:
	case <-time.After(ioTimeout):
		fatal("timeout: %s did not hang up", what)
	}
}

// ---------------------------------------------------------------- endpoints

type endpoint interface {
	ID() uint64                  // node number
	Net() uint64                 // network id of the process
	Pub() []byte                 // peer id
	attach(outgoing bool) *rsock // new socket into the endpoint; returns the relay's end
	waitOpen(r *rsock) bool      // true: NewConnections fired; false: the endpoint hung up instead
	send(p pkt)                  // SendPacket on the connection opened last
	sync() []pkt                 // everything delivered to PacketsIn since the last sync
	waitIdle()                   // until the endpoint has no registered connection
}

const sentinelType = 0xFFFF

// localNode: a p2p.P2P value in this process
type localNode struct {
	p      *p2p.P2P
	id     uint64
	mu     sync.Mutex
	got    []pkt
	synced chan struct{}
	last   *p2p.Connection
	// hammer rounds (hammer.go): pause of the consumer after every packet, wake-up of the round's waiter, markers seen
	slow    atomic.Int64
	wake    chan struct{}
	markers map[string]bool
}

func newLocalNode(key *ecdh.PrivateKey) *localNode {
	p := p2p.VerifNew()
	if key != nil {
		p.Privkey = key
	}
	pid := p.PeerId()
	n := &localNode{p: p, id: nodeID(pid[:]), synced: make(chan struct{}), wake: make(chan struct{}, 1), markers: map[string]bool{}}
	go func() {
		for pk := range p.PacketsIn {
			if pk.Conn == nil && uint16(pk.Type) == sentinelType {
				n.synced <- struct{}{}
				continue
			}
			n.mu.Lock()
			n.got = append(n.got, pkt{Type: uint16(pk.Type), Data: append([]byte{}, pk.Data...)})
			if uint16(pk.Type) == hammerMarkerTyp {
				n.markers[string(pk.Data)] = true
			}
			n.mu.Unlock()
			select {
			case n.wake <- struct{}{}:
			default:
			}
			if d := n.slow.Load(); d > 0 {
				time.Sleep(time.Duration(d)) // a slow consumer of PacketsIn (unbuffered): the read loop of the connection stalls
			}
		}
	}()
	return n
}

func (n *localNode) ID() uint64  { return n.id }
func (n *localNode) Net() uint64 { return config.NETWORK_ID }
func (n *localNode) Pub() []byte { b := n.p.PeerId(); return b[:] }

func (n *localNode) attach(outgoing bool) *rsock {
	node, relay := sockpair()
	if _, err := n.p.VerifAttach(node, outgoing); err != nil {
		fatal("attach: %v", err)
	}
	return newRsock(relay)
}

func (n *localNode) waitOpen(r *rsock) bool {
	select {
	case c := <-n.p.NewConnections:
		n.last = c
		return true
	case <-r.closed:
		// the handler may have completed the handshake and died on a later error: NewConnections has priority
		select {
		case c := <-n.p.NewConnections:
			n.last = c
			return true
		default:
		}
		return false
	case <-time.After(ioTimeout):
		fatal("timeout: neither NewConnections nor hang-up")
		return false
	}
}

func (n *localNode) send(p pkt) {
	deadline := time.Now().Add(ioTimeout)
	for {
		err := n.last.SendPacket(&p2p.Packet{Type: packet.Type(p.Type), Data: p.Data})
		if err == nil {
			return
		}
		if time.Now().After(deadline) {
			fatal("SendPacket: %v", err)
		}
		time.Sleep(time.Millisecond) // write channel full
	}
}

func (n *localNode) sync() []pkt {
	select {
	case n.p.PacketsIn <- p2p.Packet{Type: packet.Type(sentinelType)}:
	case <-time.After(ioTimeout):
		fatal("timeout: sentinel")
	}
	<-n.synced
	n.mu.Lock()
	defer n.mu.Unlock()
	g := n.got
	n.got = nil
	return g
}

func (n *localNode) sawMarker(data []byte) bool {
	n.mu.Lock()
	defer n.mu.Unlock()
	return n.markers[string(data)]
}

func (n *localNode) waitIdle() { n.waitIdleFor(ioTimeout) }

func (n *localNode) waitIdleFor(d time.Duration) {
	deadline := time.Now().Add(d)
	for {
		n.p.RLock()
		k := len(n.p.Connections)
		n.p.RUnlock()
		if k == 0 {
			return
		}
		if time.Now().After(deadline) {
			fatal("timeout: connections not released")
		}
		time.Sleep(200 * time.Microsecond)
	}
}

// remoteNode: a p2pframe process (possibly another build) in child mode
type remoteNode struct {
	cmd   *exec.Cmd
	in    io.WriteCloser
	out   *bufio.Reader
	id    uint64
	netid uint64
	pub   []byte
	port  int
}

type childMsg struct {
	Cmd   string `json:"cmd,omitempty"`
	Type  uint16 `json:"type,omitempty"`
	Data  string `json:"data,omitempty"`
	Port  int    `json:"port,omitempty"`
	NetID uint64 `json:"netid,omitempty"`
	ID    string `json:"id,omitempty"`
	Name  string `json:"name,omitempty"`
	Open  bool   `json:"open,omitempty"`
	Pkts  []struct {
		Type uint16 `json:"type"`
		Data string `json:"data"`
	} `json:"pkts,omitempty"`
	OK bool `json:"ok,omitempty"`
}

func startChild(bin string) *remoteNode {
	cmd := exec.Command(bin, "c14peer", "-")
	cmd.Stderr = os.Stderr
	in, _ := cmd.StdinPipe()
	out, _ := cmd.StdoutPipe()
	if err := cmd.Start(); err != nil {
		fatal("start %s: %v", bin, err)
	}
	r := &remoteNode{cmd: cmd, in: in, out: bufio.NewReaderSize(out, 1<<20)}
	m := r.read()
	r.port, r.netid = m.Port, m.NetID
	r.pub, _ = hex.DecodeString(m.ID)
	r.id = nodeID(r.pub)
	return r
}

func (r *remoteNode) read() childMsg {
	type res struct {
		m   childMsg
		err error
	}
	ch := make(chan res, 1)
	go func() {
		line, err := r.out.ReadBytes('\n')
		var m childMsg
		if err == nil {
			err = json.Unmarshal(line, &m)
		}
		ch <- res{m, err}
	}()
	select {
	case x := <-ch:
		if x.err != nil {
			fatal("child: %v", x.err)
		}
		return x.m
	case <-time.After(ioTimeout):
		fatal("child: timeout")
		return childMsg{}
	}
}

func (r *remoteNode) call(m childMsg) childMsg {
	b, _ := json.Marshal(m)
	r.in.Write(append(b, '\n'))
	return r.read()
}

func (r *remoteNode) ID() uint64  { return r.id }
func (r *remoteNode) Net() uint64 { return r.netid }
func (r *remoteNode) Pub() []byte { return r.pub }
func (r *remoteNode) attach(outgoing bool) *rsock {
	c, err := net.Dial("tcp", fmt.Sprintf("127.0.0.1:%d", r.port))
	if err != nil {
		fatal("dial child: %v", err)
	}
	if !r.call(childMsg{Cmd: "accept"}).OK {
		fatal("child accept failed")
	}
	return newRsock(c)
}
func (r *remoteNode) waitOpen(*rsock) bool { return r.call(childMsg{Cmd: "waitopen"}).Open }
func (r *remoteNode) send(p pkt) {
	r.call(childMsg{Cmd: "send", Type: p.Type, Data: hex.EncodeToString(p.Data)})
}
func (r *remoteNode) sync() []pkt {
	m := r.call(childMsg{Cmd: "sync"})
	var out []pkt
	for _, p := range m.Pkts {
		d, _ := hex.DecodeString(p.Data)
		out = append(out, pkt{Type: p.Type, Data: d})
	}
	return out
}
func (r *remoteNode) waitIdle() { r.call(childMsg{Cmd: "idle"}) }
func (r *remoteNode) quit() {
	b, _ := json.Marshal(childMsg{Cmd: "quit"})
	r.in.Write(append(b, '\n'))
	r.in.Close()
	r.cmd.Wait()
}

// ---------------------------------------------------------------- child mode

func childMain() {
	n := newLocalNode(nil)
	l, err := net.Listen("tcp", "127.0.0.1:0")
	if err != nil {
		fatal("child listen: %v", err)
	}
	w := bufio.NewWriter(os.Stdout)
	reply := func(m childMsg) {
		b, _ := json.Marshal(m)
		w.Write(append(b, '\n'))
		w.Flush()
	}
	reply(childMsg{Port: l.Addr().(*net.TCPAddr).Port, NetID: config.NETWORK_ID, ID: hex.EncodeToString(n.Pub()), Name: config.NETWORK_NAME})
	rd := bufio.NewReaderSize(os.Stdin, 16<<20)
	for {
		line, err := rd.ReadBytes('\n')
		if err != nil {
			return
		}
		var m childMsg
		if json.Unmarshal(line, &m) != nil {
			return
		}
		switch m.Cmd {
		case "accept":
			c, err := l.Accept()
			if err != nil {
				reply(childMsg{})
				continue
			}
			_, err = n.p.VerifAttach(c, false)
			reply(childMsg{OK: err == nil})
		case "waitopen":
			open := false
			deadline := time.Now().Add(ioTimeout)
			for time.Now().Before(deadline) {
				select {
				case c := <-n.p.NewConnections:
					n.last = c
					open = true
				default:
				}
				if open {
					break
				}
				n.p.RLock()
				k := len(n.p.Connections)
				n.p.RUnlock()
				if k == 0 {
					select {
					case c := <-n.p.NewConnections:
						n.last = c
						open = true
					default:
					}
					break
				}
				time.Sleep(200 * time.Microsecond)
			}
			reply(childMsg{Open: open, OK: true})
		case "send":
			d, _ := hex.DecodeString(m.Data)
			n.send(pkt{Type: m.Type, Data: d})
			reply(childMsg{OK: true})
		case "sync":
			var r childMsg
			r.OK = true
			for _, p := range n.sync() {
				r.Pkts = append(r.Pkts, struct {
					Type uint16 `json:"type"`
					Data string `json:"data"`
				}{p.Type, hex.EncodeToString(p.Data)})
			}
			reply(r)
		case "idle":
			n.waitIdle()
			reply(childMsg{OK: true})
		case "quit":
			return
		}
	}
}
