package main

// Concurrent senders on ONE connection (class: "frames of concurrent senders are never interleaved on the wire").
//
// Every round is a fresh connection between two live p2p.P2P values that belong to the round's worker. As soon as
// NewConnections fires on a side, G goroutines call Connection.SendPacket of that side concurrently (both directions
// at once), each with its own sequence of packets of mixed sizes. The senders the production code has on a connection
// are all running: the Writer goroutine started by NewConnection (draining WriteChan) and the peer-list goroutine that
// connectionMainHandling starts right before it announces the connection - the harness's first SendPacket calls race
// with it by construction. The receiving side is the real read loop (connectionMainHandling -> onPacketReceived ->
// PacketsIn); what comes out of PacketsIn is recorded in order.
//
// Transports: 0 = the two nodes hold the two ends of one loopback TCP connection; 1 = the same with the smallest socket
// buffers the kernel grants and a consumer of PacketsIn that pauses after every packet (PacketsIn is unbuffered: the read
// loop stops reading, the peer's Write blocks in the middle of a body); 2 = a byte pipe between two TCP connections that
// forwards in small reads of random size with pauses and cuts a copy of the stream at the length prefixes (the wire view).
//
// Nothing in the verdict depends on a pause: a round ends when the marker packet (handed to SendPacket after every
// sender returned, so it is the last one in the write channel) came out of the peer's PacketsIn in both directions, or
// when a side dropped the connection; both are observed, under a deadline that only a stuck process reaches.

import (
	"bytes"
	"encoding/binary"
	"fmt"
	"io"
	"net"
	"os"
	"runtime"
	"sort"
	"strconv"
	"sync"
	"sync/atomic"
	"time"

	"verifharness/coqgen"
	"verifharness/hutil"

	"github.com/virel-project/virel-blockchain/v3/bitcrypto"
	"github.com/virel-project/virel-blockchain/v3/config"
	"github.com/virel-project/virel-blockchain/v3/p2p"
	"github.com/virel-project/virel-blockchain/v3/p2p/packet"
)

const (
	hammerTimeout   = 90 * time.Second
	hammerTypeBase  = 32 // packet type of sender i is hammerTypeBase + i
	hammerMarkerTyp = 31
)

const (
	trDirect = iota
	trSlowConsumer
	trPipe
)

var trNames = []string{"direct", "small-buffers+slow-consumer", "chunking-pipe"}

type hspec struct {
	no        int
	kind      string // "burst" / "heavy"
	transport int
	sizes     [2][][]int // per direction, per sender: payload lengths
}

type wireFrame struct {
	hdr         uint32
	kind        int // 0 not a frame under the connection key, 1 peer list, 2 packet of a sender, 3 marker, 4 a packet nobody sent
	sender, seq int
}

type hdirResult struct {
	delivered  [][3]int // sender+1 (0 = nobody sent this), seq, len
	markerSeen bool
	aliveTx    bool
	aliveRx    bool
	haveWire   bool
	wire       []wireFrame
	wireClean  bool
	nsent      int
}

type hresult struct {
	spec hspec
	wall time.Duration
	dir  [2]hdirResult
}

type hworker struct {
	id   int
	n    [2]*localNode
	l    net.Listener
	ciph bitcrypto.Cipher
}

func newHworker(id int) *hworker {
	w := &hworker{id: id}
	w.n[0], w.n[1] = newLocalNode(nil), newLocalNode(nil)
	l, err := net.Listen("tcp", "127.0.0.1:0")
	if err != nil {
		fatal("hammer listen: %v", err)
	}
	w.l = l
	c, err := deriveCipher(config.NETWORK_ID, w.n[0].p.Privkey, w.n[1].Pub())
	if err != nil {
		fatal("hammer derive: %v", err)
	}
	w.ciph = c
	return w
}

func (w *hworker) socks() (net.Conn, net.Conn) {
	type res struct {
		c   net.Conn
		err error
	}
	ch := make(chan res, 1)
	go func() {
		c, err := w.l.Accept()
		ch <- res{c, err}
	}()
	d, err := net.Dial("tcp", w.l.Addr().String())
	if err != nil {
		fatal("hammer dial: %v", err)
	}
	r := <-ch
	if r.err != nil {
		fatal("hammer accept: %v", r.err)
	}
	return r.c, d
}

func smallBuffers(c net.Conn) {
	if t, ok := c.(*net.TCPConn); ok {
		// far below the big frames (a body write blocks many times) but not below what loopback TCP needs to flow: with
		// 2 KiB the kernel's silly-window avoidance lets 27 KB/s through and the 5 s write deadline of sendPacketLock
		// (a property of the link, not of the framing) closes the connection
		t.SetReadBuffer(131072)
		t.SetWriteBuffer(131072)
	}
}

func connCount(n *localNode) int {
	n.p.RLock()
	defer n.p.RUnlock()
	return len(n.p.Connections)
}

// payload of packet seq of a sender: its first bytes carry seq, the rest is a cheap pseudo-random fill
func hammerPayload(round, dir, sender, seq, n int) []byte {
	d := make([]byte, n)
	x := uint64(round)*0x9E3779B97F4A7C15 ^ uint64(dir+1)*0xD1B54A32D192ED03 ^ uint64(sender+1)<<32 ^ uint64(seq+1)<<48 | 1
	for i := 0; i < n; i += 8 {
		x ^= x << 13
		x ^= x >> 7
		x ^= x << 17
		v := x
		for j := i; j < i+8 && j < n; j++ {
			d[j] = byte(v)
			v >>= 8
		}
	}
	if n >= 1 {
		d[0] = byte(seq)
	}
	if n >= 2 {
		d[1] = byte(seq >> 8)
	}
	return d
}

// pipe: one direction of the chunking pipe; forwards src -> dst and cuts a copy of the stream at the length prefixes
type pipeDir struct {
	mu      sync.Mutex
	frames  [][]byte // whole frames after the handshake message
	pending []byte
	first   bool // the handshake message has been skipped
	broken  bool // a length prefix that cannot be a frame: the copy is not cut any further
	done    chan struct{}
}

func (p *pipeDir) feed(b []byte) {
	p.mu.Lock()
	defer p.mu.Unlock()
	if p.broken {
		p.pending = append(p.pending, b...)
		return
	}
	p.pending = append(p.pending, b...)
	for len(p.pending) >= 4 {
		l := binary.LittleEndian.Uint32(p.pending[:4])
		if l > 64<<20 {
			p.broken = true
			return
		}
		if len(p.pending) < 4+int(l) {
			return
		}
		f := append([]byte{}, p.pending[:4+int(l)]...)
		p.pending = p.pending[4+int(l):]
		if !p.first {
			p.first = true
			continue
		}
		p.frames = append(p.frames, f)
	}
}

func (p *pipeDir) snapshot() (frames [][]byte, clean bool) {
	p.mu.Lock()
	defer p.mu.Unlock()
	return append([][]byte{}, p.frames...), !p.broken && len(p.pending) == 0
}

func (p *pipeDir) count() int {
	p.mu.Lock()
	defer p.mu.Unlock()
	return len(p.frames)
}

func runPipe(src, dst net.Conn, rng *hutil.Rng) *pipeDir {
	p := &pipeDir{done: make(chan struct{})}
	go func() {
		defer close(p.done)
		buf := make([]byte, 16384)
		// the handshake message (u32le length || body) is forwarded in up to three pieces with pauses in between, the way
		// TCP may deliver it: the handshake reader must assemble it (finding C14-handshake-short-read: Handshake.ReadFrom
		// took whatever one Read returned for the whole message)
		if _, err := io.ReadFull(src, buf[:4]); err != nil {
			dst.Close()
			return
		}
		hl := int(binary.LittleEndian.Uint32(buf[:4]))
		if hl > len(buf)-4 {
			fatal("pipe: handshake of %d bytes", hl)
		}
		if _, err := io.ReadFull(src, buf[4:4+hl]); err != nil {
			dst.Close()
			return
		}
		p.feed(buf[:4+hl])
		cuts := []int{0, 4 + hl}
		for i := rng.Intn(3); i > 0; i-- {
			cuts = append(cuts, 1+rng.Intn(4+hl-1))
		}
		sort.Ints(cuts)
		for i := 0; i+1 < len(cuts); i++ {
			if cuts[i] == cuts[i+1] {
				continue
			}
			if _, err := dst.Write(buf[cuts[i]:cuts[i+1]]); err != nil {
				src.Close()
				return
			}
			if cuts[i+1] < 4+hl {
				time.Sleep(time.Duration(1+rng.Intn(4)) * time.Millisecond)
			}
		}
		k := 0
		for {
			want := 1 + rng.Intn(len(buf))
			if rng.Intn(4) == 0 {
				want = 1 + rng.Intn(64)
			}
			n, err := src.Read(buf[:want])
			if n > 0 {
				p.feed(buf[:n])
				dst.SetWriteDeadline(time.Now().Add(hammerTimeout))
				if _, werr := dst.Write(buf[:n]); werr != nil {
					src.Close()
					return
				}
			}
			if err != nil {
				if t, ok := dst.(*net.TCPConn); ok {
					t.CloseWrite()
				}
				return
			}
			k++
			if k%4 == 0 {
				time.Sleep(time.Duration(rng.Intn(300)) * time.Microsecond)
			}
		}
	}()
	return p
}

func (w *hworker) run(sp hspec) (res hresult) {
	res = hresult{spec: sp}
	t0 := time.Now()
	defer func() { res.wall = time.Since(t0) }()
	a, b := w.n[0], w.n[1]
	var socks []net.Conn
	var pipes [2]*pipeDir
	var ca, cb net.Conn
	switch sp.transport {
	case trPipe:
		ca2, pa := w.socks()
		cb2, pb := w.socks()
		ca, cb = ca2, cb2
		for _, c := range []net.Conn{ca, cb, pa, pb} {
			smallBuffers(c)
		}
		socks = []net.Conn{ca, cb, pa, pb}
		pipes[0] = runPipe(pa, pb, hutil.NewRng(uint64(140000+sp.no*2)))
		pipes[1] = runPipe(pb, pa, hutil.NewRng(uint64(140001+sp.no*2)))
	default:
		ca, cb = w.socks()
		if sp.transport == trSlowConsumer {
			smallBuffers(ca)
			smallBuffers(cb)
		}
		socks = []net.Conn{ca, cb}
	}
	slow := int64(0)
	if sp.transport == trSlowConsumer {
		slow = int64(400 * time.Microsecond)
	}
	a.slow.Store(slow)
	b.slow.Store(slow)

	// the packets
	var pkts [2][][]pkt
	var markers [2]pkt
	ident := [2]map[string][2]int{{}, {}}
	for d := 0; d < 2; d++ {
		for s, lens := range sp.sizes[d] {
			var q []pkt
			for i, n := range lens {
				p := pkt{Type: uint16(hammerTypeBase + s), Data: hammerPayload(sp.no, d, s, i, n)}
				q = append(q, p)
				ident[d][identKey(p)] = [2]int{s + 1, i}
				res.dir[d].nsent++
			}
			pkts[d] = append(pkts[d], q)
		}
		markers[d] = pkt{Type: hammerMarkerTyp, Data: []byte(fmt.Sprintf("marker-%d-%d", sp.no, d))}
	}

	if _, err := a.p.VerifAttach(ca, true); err != nil {
		fatal("hammer attach: %v", err)
	}
	if _, err := b.p.VerifAttach(cb, false); err != nil {
		fatal("hammer attach: %v", err)
	}
	nodes := [2]*localNode{a, b}
	var sides sync.WaitGroup
	for d := 0; d < 2; d++ {
		d := d
		n := nodes[d]
		sides.Add(1)
		go func() {
			defer sides.Done()
			var c *p2p.Connection
			select {
			case c = <-n.p.NewConnections:
			case <-time.After(hammerTimeout / 3):
				// the handshake never completed on this side (a handshake misread, for instance): nothing is sent; the
				// round is recorded with this side not alive
				return
			}
			// every sender at once: the peer-list goroutine of this side is starting right now
			var wg sync.WaitGroup
			for _, q := range pkts[d] {
				q := q
				wg.Add(1)
				go func() {
					defer wg.Done()
					for _, p := range q {
						if !hammerSend(n, c, p) {
							return
						}
					}
				}()
			}
			wg.Wait()
			hammerSend(n, c, markers[d])
		}()
	}
	sides.Wait()

	// until both markers came out of the peers' PacketsIn, or a side dropped the connection
	deadline := time.Now().Add(hammerTimeout)
	tick := time.NewTicker(500 * time.Microsecond)
	for {
		m0 := nodes[1].sawMarker(markers[0].Data)
		m1 := nodes[0].sawMarker(markers[1].Data)
		if m0 && m1 {
			break
		}
		if connCount(a) == 0 || connCount(b) == 0 {
			break
		}
		if time.Now().After(deadline) {
			fatal("hammer round %d (%s, %s): neither the markers nor a hang-up", sp.no, sp.kind, trNames[sp.transport])
		}
		select {
		case <-nodes[0].wake:
		case <-nodes[1].wake:
		case <-tick.C:
		}
	}
	tick.Stop()
	aliveA, aliveB := connCount(a) == 1, connCount(b) == 1
	if sp.transport == trPipe && aliveA && aliveB {
		// the peer-list frame of each side is written by its own goroutine: wait until the wire view has it
		for d := 0; d < 2; d++ {
			for pipes[d].count() < res.dir[d].nsent+2 && time.Now().Before(deadline) && connCount(a) == 1 && connCount(b) == 1 {
				time.Sleep(200 * time.Microsecond)
			}
		}
		aliveA, aliveB = connCount(a) == 1, connCount(b) == 1
	}
	var wires [2][][]byte
	var cleans [2]bool
	if sp.transport == trPipe {
		for d := 0; d < 2; d++ {
			wires[d], cleans[d] = pipes[d].snapshot()
		}
	}
	for _, c := range socks {
		c.Close()
	}
	if sp.transport == trPipe {
		<-pipes[0].done
		<-pipes[1].done
	}
	a.waitIdleFor(hammerTimeout)
	b.waitIdleFor(hammerTimeout)
	a.slow.Store(0)
	b.slow.Store(0)
	got := [2][]pkt{b.sync(), a.sync()} // direction 0 is delivered at b
	alive := [2][2]bool{{aliveA, aliveB}, {aliveB, aliveA}}
	for d := 0; d < 2; d++ {
		r := &res.dir[d]
		r.aliveTx, r.aliveRx = alive[d][0], alive[d][1]
		for _, g := range got[d] {
			if g.Type == hammerMarkerTyp && bytes.Equal(g.Data, markers[d].Data) {
				r.markerSeen = true
				continue
			}
			id := ident[d][identKey(g)]
			r.delivered = append(r.delivered, [3]int{id[0], id[1], len(g.Data)})
		}
		if sp.transport == trPipe {
			r.haveWire, r.wireClean = true, cleans[d]
			for _, raw := range wires[d] {
				f := wireFrame{hdr: binary.LittleEndian.Uint32(raw[:4])}
				if pl, err := w.ciph.Decrypt(raw[4:]); err == nil && len(pl) >= 2 {
					wt := binary.LittleEndian.Uint16(pl[:2])
					g := pkt{Type: wt - 2, Data: pl[2:]}
					switch {
					case wt == 1:
						f.kind = 1
					case wt >= 2 && g.Type == hammerMarkerTyp && bytes.Equal(g.Data, markers[d].Data):
						f.kind = 3
					case wt >= 2 && ident[d][identKey(g)][0] != 0:
						id := ident[d][identKey(g)]
						f.kind, f.sender, f.seq = 2, id[0], id[1]
					default:
						f.kind = 4
					}
				}
				r.wire = append(r.wire, f)
			}
		}
	}
	return res
}

func identKey(p pkt) string {
	return string([]byte{byte(p.Type), byte(p.Type >> 8)}) + string(p.Data)
}

// hammerSend: SendPacket until the write channel takes the packet; false when the connection is gone
func hammerSend(n *localNode, c *p2p.Connection, p pkt) bool {
	deadline := time.Now().Add(hammerTimeout)
	for i := 0; ; i++ {
		if c.SendPacket(&p2p.Packet{Type: packet.Type(p.Type), Data: p.Data}) == nil {
			return true
		}
		if connCount(n) == 0 {
			return false
		}
		if time.Now().After(deadline) {
			fatal("hammer: SendPacket refused a packet for %v", hammerTimeout)
		}
		if i < 20 {
			runtime.Gosched()
		} else {
			time.Sleep(50 * time.Microsecond) // write channel full: the writer is behind
		}
	}
}

// ---------------------------------------------------------------- plan and emission

func hammerPlan(rng *hutil.Rng, thorough bool) []hspec {
	nburst, nheavy := 1200, 36
	if thorough {
		nburst, nheavy = 12000, 360
	}
	if v, err := strconv.Atoi(os.Getenv("HAMMER_BURST")); err == nil { // development aid
		nburst = v
	}
	if v, err := strconv.Atoi(os.Getenv("HAMMER_HEAVY")); err == nil {
		nheavy = v
	}
	tiny := []int{1, 1, 2, 3, 5, 8, 16, 31, 64}
	mixed := []int{1, 1, 2, 3, 7, 16, 33, 100, 255, 1000, 1460, 4096, 9000, 65535, 65536, 70000, 150000, 262144, 400000}
	var plan []hspec
	for i := 0; i < nburst; i++ {
		sp := hspec{no: len(plan), kind: "burst", transport: trDirect}
		switch i % 8 {
		case 6:
			sp.transport = trPipe
		case 7:
			sp.transport = trSlowConsumer
		}
		for d := 0; d < 2; d++ {
			g := 1 + rng.Intn(4)
			for s := 0; s < g; s++ {
				k := 2 + rng.Intn(6)
				lens := make([]int, k)
				for j := range lens {
					lens[j] = tiny[rng.Intn(len(tiny))]
				}
				sp.sizes[d] = append(sp.sizes[d], lens)
			}
		}
		plan = append(plan, sp)
	}
	for i := 0; i < nheavy; i++ {
		sp := hspec{no: len(plan), kind: "heavy", transport: i % 3}
		for d := 0; d < 2; d++ {
			g := 8 + rng.Intn(9)
			for s := 0; s < g; s++ {
				k := 3 + rng.Intn(6)
				lens := make([]int, k)
				for j := range lens {
					lens[j] = mixed[rng.Intn(len(mixed))]
					if rng.Intn(3) == 0 {
						lens[j] = 1 + rng.Intn(3000)
					}
				}
				sp.sizes[d] = append(sp.sizes[d], lens)
			}
		}
		plan = append(plan, sp)
	}
	return plan
}

func hammerCases(sink *coqgen.Sink, rng *hutil.Rng, thorough bool) {
	plan := hammerPlan(rng, thorough)
	results := make([]hresult, len(plan))
	nw := 8
	var next atomic.Int64
	var wg sync.WaitGroup
	for i := 0; i < nw; i++ {
		w := newHworker(i)
		wg.Add(1)
		go func() {
			defer wg.Done()
			for {
				k := int(next.Add(1)) - 1
				if k >= len(plan) {
					return
				}
				results[k] = w.run(plan[k])
			}
		}()
	}
	wg.Wait()
	walls := map[string][]time.Duration{}
	for _, r := range results {
		k := r.spec.kind + "/" + trNames[r.spec.transport]
		walls[k] = append(walls[k], r.wall)
	}
	wsum := map[string]string{}
	for k, v := range walls {
		sort.Slice(v, func(i, j int) bool { return v[i] < v[j] })
		wsum[k] = fmt.Sprintf("n=%d median=%v max=%v", len(v), v[len(v)/2].Round(10*time.Microsecond), v[len(v)-1].Round(10*time.Microsecond))
	}
	sink.Meta["hammer_round_wall"] = wsum
	for _, r := range results {
		for d := 0; d < 2; d++ {
			hammerEmit(sink, r.spec, d, &r.dir[d])
		}
	}
	sink.Meta["hammer"] = fmt.Sprintf("%d rounds (fresh connection each, both directions hammered): %d workers in parallel", len(plan), nw)
}

func hammerEmit(sink *coqgen.Sink, sp hspec, d int, r *hdirResult) {
	sent := make([]string, len(sp.sizes[d]))
	npk := 0
	maxLen := 0
	for i, lens := range sp.sizes[d] {
		v := make([]uint64, len(lens))
		for j, n := range lens {
			v[j] = uint64(n)
			if n > maxLen {
				maxLen = n
			}
		}
		npk += len(lens)
		sent[i] = nlist(v)
	}
	del := make([]string, len(r.delivered))
	perSender := map[int][]int{}
	unknown := 0
	for i, x := range r.delivered {
		del[i] = fmt.Sprintf("(%d, %d, %d)", x[0], x[1], x[2])
		if x[0] == 0 {
			unknown++
		} else {
			perSender[x[0]-1] = append(perSender[x[0]-1], x[1])
		}
	}
	exact := unknown == 0
	for s, lens := range sp.sizes[d] {
		got := perSender[s]
		if len(got) != len(lens) || !sort.IntsAreSorted(got) {
			exact = false
			continue
		}
		for i, q := range got {
			if q != i {
				exact = false
			}
		}
	}
	wire := "None"
	if r.haveWire {
		fs := make([]string, len(r.wire))
		for i, f := range r.wire {
			fs[i] = fmt.Sprintf("(%d, %d, %d, %d)", f.hdr, f.kind, f.sender, f.seq)
		}
		wire = "(Some " + coqgen.List(fs) + ")"
	}
	term := fmt.Sprintf("CHammer %d %s %s %s %s %s %s %s", sp.transport, coqgen.List(sent), coqgen.List(del),
		coqgen.Bool(r.markerSeen), coqgen.Bool(r.aliveTx), coqgen.Bool(r.aliveRx), wire, coqgen.Bool(r.wireClean || !r.haveWire))
	gb := "1"
	switch g := len(sp.sizes[d]); {
	case g >= 8:
		gb = "8-16"
	case g >= 2:
		gb = "2-4"
	}
	sb := "<=64"
	switch {
	case maxLen >= 65536:
		sb = ">=64K"
	case maxLen > 64:
		sb = "65-65535"
	}
	cls := fmt.Sprintf("hammer/%s/%s/senders=%s/max-size=%s/exact=%v/alive=%v", sp.kind, trNames[sp.transport], gb, sb, exact, r.markerSeen && r.aliveTx && r.aliveRx)
	sample := map[string]any{"kind": "hammer", "round": sp.no, "direction": d, "round_kind": sp.kind, "transport": trNames[sp.transport],
		"senders": len(sp.sizes[d]), "packets": npk, "sizes": sp.sizes[d], "delivered": len(r.delivered), "delivered_unknown": unknown,
		"exactly_once_in_sender_order": exact, "marker_delivered": r.markerSeen, "alive_tx": r.aliveTx, "alive_rx": r.aliveRx,
		"wire_frames": len(r.wire), "wire_clean": r.wireClean || !r.haveWire}
	sink.Add(term, cls, sample)
}
