package main

import (
	"bytes"
	"crypto/ecdh"
	"encoding/binary"
	"fmt"
	"os"
	"path/filepath"
	"strings"

	"verifharness/coqgen"
	"verifharness/hutil"

	"github.com/virel-project/virel-blockchain/v3/bitcrypto"
	"github.com/virel-project/virel-blockchain/v3/config"
	"github.com/virel-project/virel-blockchain/v3/p2p"
)

const frameLimit = p2p.VerifMaxFrameSize

func c14(out string) {
	sink := coqgen.NewSink(out, "c14", "c14_case", 250)
	rng := hutil.NewRng(14)
	thorough := hutil.Tier() == "thorough"
	cipherCases(sink, rng, thorough)
	hsCodecCases(sink, rng, thorough)
	w := newWorld(sink, rng, thorough)
	w.distinctCases()
	w.liveCases()
	w.handshakeCases()
	w.crossProcessCases()
	hammerCases(sink, hutil.NewRng(1414), thorough)
	sink.Meta["config"] = configName()
	sink.Meta["network_id"] = fmt.Sprintf("%#x", uint64(config.NETWORK_ID))
	sink.Meta["rule"] = "bitcrypto.Cipher directly (layout; every bit of nonce/ciphertext/tag of sampled boxes flipped; every truncation length; extensions; other key; swapped nonce), " +
		"p2p.Handshake codec on complete inputs, and live p2p.P2P endpoints over loopback TCP with a relay that records the sender's frames and replays a script to the receiver " +
		"(untouched; every single bit of two frames flipped; every truncation; extensions; missing/changed length prefix; nonce swap; frames of another node pair, of an earlier connection, of the opposite direction; replay/reorder/drop; frame-limit boundary), " +
		"handshake refusals (self, duplicate id, outdated version, low-order key), a connection to a child process of the same build and, under testnet, of the unittest build. " +
		"Concurrent senders (hammer.go): fresh connections between two live endpoints, 1-4 (burst rounds) or 8-16 (heavy rounds) goroutines calling SendPacket of the same " +
		"connection from the moment NewConnections fires (the Writer goroutine and the peer-list goroutine of connectionMainHandling are writing then), both directions at once, " +
		"payloads of 1 byte .. 400 000 bytes, over a direct loopback socket, over small socket buffers with a pausing consumer of PacketsIn, and through a pipe that forwards in " +
		"small reads with pauses and records the stream cut at the length prefixes; observed: what came out of the peer's PacketsIn in order, whether the connection survived, the frames on the wire. " +
		"A class is (generator, shape, outcome of the implementation)."
	if err := sink.Close(); err != nil {
		panic(err)
	}
}

// ---------------------------------------------------------------- bitcrypto.Cipher directly

func bucket(n int) string {
	switch {
	case n == 0:
		return "0"
	case n < 16:
		return "1-15"
	case n == 16:
		return "16"
	case n < 64:
		return "17-63"
	default:
		return "64+"
	}
}

func cipherCases(sink *coqgen.Sink, rng *hutil.Rng, thorough bool) {
	nframes := 200
	if thorough {
		nframes = 1500
	}
	sizes := []int{0, 1, 2, 3, 15, 16, 17, 31, 32, 33, 47, 48, 63, 64, 65}
	addT := func(kind, mlen, tried, rejected int, what string) {
		oc := "all-rejected"
		if rejected != tried {
			oc = fmt.Sprintf("ACCEPTED-%d", tried-rejected)
		}
		if kind == 0 {
			oc = fmt.Sprintf("rejected=%d", rejected)
		}
		sink.Add(fmt.Sprintf("CTamper %d %d %d %d", kind, mlen, tried, rejected), fmt.Sprintf("cipher/%s/mlen=%s/%s", what, bucket(mlen), oc),
			map[string]any{"kind": "cipher-" + what, "mlen": mlen, "tried": tried, "rejected": rejected})
	}
	for i := 0; i < nframes; i++ {
		mlen := sizes[i%len(sizes)]
		if i >= len(sizes)*4 {
			mlen = rng.Intn(200)
		}
		var key [32]byte
		copy(key[:], rng.Bytes(32))
		c, err := bitcrypto.NewCipher(key)
		if err != nil {
			fatal("NewCipher: %v", err)
		}
		msg := rng.Bytes(mlen)
		enc, err := c.Encrypt(msg)
		if err != nil {
			fatal("Encrypt: %v", err)
		}
		dec, derr := c.Decrypt(enc)
		sink.Add(fmt.Sprintf("CSeal %d %d %s", mlen, len(enc), coqgen.Bool(derr == nil && bytes.Equal(dec, msg))),
			fmt.Sprintf("cipher/seal/mlen=%s/len-ok=%v", bucket(mlen), len(enc) == 12+mlen+16),
			map[string]any{"kind": "cipher-seal", "mlen": mlen, "out_len": len(enc), "roundtrip": derr == nil && bytes.Equal(dec, msg)})
		rej := 0
		if derr != nil {
			rej = 1
		}
		addT(0, mlen, 1, rej, "untouched")
		// every single bit, by region
		regions := []struct {
			kind     int
			name     string
			from, to int
		}{{1, "flip-nonce", 0, 12}, {2, "flip-ct", 12, 12 + mlen}, {3, "flip-tag", 12 + mlen, len(enc)}}
		for _, r := range regions {
			tried, rejected := 0, 0
			for pos := r.from; pos < r.to && pos < len(enc); pos++ {
				for bit := 0; bit < 8; bit++ {
					m := append([]byte{}, enc...)
					m[pos] ^= 1 << uint(bit)
					tried++
					if _, err := c.Decrypt(m); err != nil {
						rejected++
					}
				}
			}
			if tried > 0 {
				addT(r.kind, mlen, tried, rejected, r.name)
			}
		}
		// every truncation length
		tried, rejected := 0, 0
		for l := 0; l < len(enc); l++ {
			tried++
			if _, err := c.Decrypt(enc[:l]); err != nil {
				rejected++
			}
		}
		addT(4, mlen, tried, rejected, "truncate")
		// extensions
		tried, rejected = 0, 0
		for e := 1; e <= 8; e++ {
			tried++
			if _, err := c.Decrypt(append(append([]byte{}, enc...), rng.Bytes(e)...)); err != nil {
				rejected++
			}
		}
		addT(5, mlen, tried, rejected, "extend")
		// another key
		var key2 [32]byte
		copy(key2[:], rng.Bytes(32))
		c2, _ := bitcrypto.NewCipher(key2)
		rejected = 0
		if _, err := c2.Decrypt(enc); err != nil {
			rejected++
		}
		addT(6, mlen, 1, rejected, "other-key")
		// nonce of another seal of the same message under the same key
		enc2, _ := c.Encrypt(msg)
		rejected = 0
		if _, err := c.Decrypt(append(append([]byte{}, enc2[:12]...), enc[12:]...)); err != nil {
			rejected++
		}
		if _, err := c.Decrypt(append(append([]byte{}, enc[:12]...), enc2[12:]...)); err != nil {
			rejected++
		}
		addT(7, mlen, 2, rejected, "swap-nonce")
	}
	var key [32]byte
	c, _ := bitcrypto.NewCipher(key)
	_, err := c.Encrypt(nil)
	sink.Add("CNilSeal "+coqgen.Bool(err != nil), fmt.Sprintf("cipher/nil/refused=%v", err != nil), map[string]any{"kind": "cipher-nil", "refused": err != nil})
}

// ---------------------------------------------------------------- p2p.Handshake codec

func hsCodecCases(sink *coqgen.Sink, rng *hutil.Rng, thorough bool) {
	n := 60
	if thorough {
		n = 600
	}
	add := func(in []byte, why string) {
		h := &p2p.Handshake{}
		_, err := h.ReadFrom(bytes.NewReader(in))
		term := "None"
		if err == nil {
			term = fmt.Sprintf("(Some (%d, %d, %s, %d))", h.Version, h.P2PVersion, coqgen.PackBytes(h.PeerID[:]), h.P2PPort)
		}
		sink.Add(fmt.Sprintf("CHs %s %s", coqgen.PackBytes(in), term), fmt.Sprintf("hscodec/%s/ok=%v", why, err == nil),
			map[string]any{"kind": "handshake-codec", "why": why, "len": len(in), "ok": err == nil})
	}
	for i := 0; i < n; i++ {
		h := &p2p.Handshake{Version: rng.Interesting(), P2PVersion: uint8(rng.Intn(256)), P2PPort: uint16(rng.U64())}
		copy(h.PeerID[:], rng.Bytes(32))
		var buf bytes.Buffer
		h.WriteTo(&buf)
		good := buf.Bytes()
		add(good, "valid")
		add(append(append([]byte{}, good...), rng.Bytes(1+rng.Intn(9))...), "valid+trailing")
		if i%6 != 0 {
			continue
		}
		// only complete inputs: Handshake.ReadFrom uses Read, not io.ReadFull, so what it does with a short body
		// depends on how the transport happens to segment the bytes (see the note in the rule text)
		for _, l := range []uint32{0, 1, 42, 44, 100, 1024, 1025, 4096, 1 << 31, 0xFFFFFFFF} {
			in := make([]byte, 4)
			binary.LittleEndian.PutUint32(in, l)
			body := int(l)
			if l > 1100 {
				body = 1100
			}
			in = append(in, rng.Bytes(body)...)
			add(in, fmt.Sprintf("len=%d", l))
		}
		in := append([]byte{}, good...)
		in[4+8] ^= 0xFF
		add(in, "mutated-body")
	}
}

// ---------------------------------------------------------------- live endpoints

type capFrame struct {
	raw   []byte // length prefix + body as the sender wrote it
	hdr   uint32
	nonce uint64 // dense number of the 12 nonce bytes
	plain []byte
	ok    bool // opened under the harness-derived key
}

type streamDesc struct {
	net, sk, peer uint64
	frames        []capFrame
}

func (s *streamDesc) term() string {
	fs := make([]string, len(s.frames))
	for i, f := range s.frames {
		fs[i] = fmt.Sprintf("(%d, %d, %s)", f.hdr, f.nonce, dspec(f.plain))
	}
	return fmt.Sprintf("(mkstream %d %d %d %s)", s.net, s.sk, s.peer, coqgen.List(fs))
}

type item struct {
	term  string
	bytes []byte
}

type world struct {
	sink     *coqgen.Sink
	rng      *hutil.Rng
	thorough bool
	A, B, C  *localNode
	markerNo int
	// frames recorded on earlier connections, to be spliced into later ones
	libAC, libCA, libPrevAB, libPrevBA *streamDesc
}

func newWorld(sink *coqgen.Sink, rng *hutil.Rng, thorough bool) *world {
	return &world{sink: sink, rng: rng, thorough: thorough, A: newLocalNode(nil), B: newLocalNode(nil), C: newLocalNode(nil)}
}

func privOf(e endpoint) *ecdh.PrivateKey {
	if l, ok := e.(*localNode); ok {
		return l.p.Privkey
	}
	return nil
}

// cipherBetween: the key two endpoints share when the sealing process runs under network id netid
func cipherBetween(netid uint64, x, y endpoint) bitcrypto.Cipher {
	var c bitcrypto.Cipher
	var err error
	if p := privOf(x); p != nil {
		c, err = deriveCipher(netid, p, y.Pub())
	} else if p := privOf(y); p != nil {
		c, err = deriveCipher(netid, p, x.Pub())
	} else {
		fatal("no private key available")
	}
	if err != nil {
		fatal("deriveCipher: %v", err)
	}
	return c
}

func decodeFrame(raw []byte, c *bitcrypto.Cipher) capFrame {
	f := capFrame{raw: raw, hdr: binary.LittleEndian.Uint32(raw[:4])}
	body := raw[4:]
	if len(body) >= 12 {
		f.nonce = nonceIDs.id(body[:12])
	}
	p, err := c.Decrypt(body)
	if err == nil {
		f.plain, f.ok = p, true
		if f.plain == nil {
			f.plain = []byte{}
		}
	}
	return f
}

// conn: one connection A <-> B through the relay, handshakes already exchanged
type conn struct {
	tx, rx         endpoint
	ra, rb         *rsock
	openTx, openRx bool
	cur, rev       *streamDesc
	cipherTx       bitcrypto.Cipher // what tx seals with (its own network id)
	cipherRx       bitcrypto.Cipher
}

func (w *world) dial(tx, rx endpoint) *conn {
	c := &conn{tx: tx, rx: rx}
	c.ra = tx.attach(true)
	c.rb = rx.attach(false)
	ha := c.ra.next("handshake of the dialling side")
	hb := c.rb.next("handshake of the accepting side")
	if ha == nil || hb == nil {
		fatal("no handshake")
	}
	c.rb.write(ha)
	c.ra.write(hb)
	c.openTx = tx.waitOpen(c.ra)
	c.openRx = rx.waitOpen(c.rb)
	c.cipherTx = cipherBetween(tx.Net(), tx, rx)
	c.cipherRx = cipherBetween(rx.Net(), rx, tx)
	c.cur = &streamDesc{net: tx.Net(), sk: tx.ID(), peer: rx.ID()}
	c.rev = &streamDesc{net: rx.Net(), sk: rx.ID(), peer: tx.ID()}
	if c.openTx {
		c.capture(c.ra, c.cur, &c.cipherTx, 1, "peer list of the dialling side")
	}
	if c.openRx {
		c.capture(c.rb, c.rev, &c.cipherRx, 1, "peer list of the accepting side")
	}
	return c
}

func (c *conn) capture(s *rsock, into *streamDesc, ci *bitcrypto.Cipher, n int, what string) {
	for i := 0; i < n; i++ {
		raw := s.next(what)
		if raw == nil {
			fatal("connection closed while waiting for %s", what)
		}
		into.frames = append(into.frames, decodeFrame(raw, ci))
	}
}

func (c *conn) sendTx(ps []pkt) {
	for _, p := range ps {
		c.tx.send(p)
	}
	c.capture(c.ra, c.cur, &c.cipherTx, len(ps), "frames of the sender")
}

func (c *conn) sendRx(ps []pkt) {
	for _, p := range ps {
		c.rx.send(p)
	}
	c.capture(c.rb, c.rev, &c.cipherRx, len(ps), "frames of the receiver")
}

func (c *conn) close() {
	c.ra.c.Close()
	c.rb.c.Close()
	c.tx.waitIdle()
	c.rx.waitIdle()
}

// script building ------------------------------------------------

type sctx struct {
	streams []*streamDesc // 0 = this connection, sender -> receiver
	rng     *hutil.Rng
}

func (s *sctx) f(src, idx int) *capFrame { return &s.streams[src].frames[idx] }
func (s *sctx) frame(src, idx int) item {
	return item{fmt.Sprintf("IFrame %d %d", src, idx), s.f(src, idx).raw}
}
func (s *sctx) frames(src, from, to int) []item {
	var out []item
	for i := from; i < to; i++ {
		out = append(out, s.frame(src, i))
	}
	return out
}
func (s *sctx) hdr(v uint32) item {
	b := make([]byte, 4)
	binary.LittleEndian.PutUint32(b, v)
	return item{fmt.Sprintf("IHdr %d", v), b}
}
func (s *sctx) clear(b []byte) item {
	v := make([]uint64, len(b))
	for i, x := range b {
		v[i] = uint64(x)
	}
	return item{"IClear " + nlist(v), b}
}
func (s *sctx) box(src, idx int) item {
	return item{fmt.Sprintf("IBox %d %d", src, idx), s.f(src, idx).raw[4:]}
}
func (s *sctx) boxNonce(src, idx, nsrc, nidx int) item {
	b := append([]byte{}, s.f(nsrc, nidx).raw[4:16]...)
	b = append(b, s.f(src, idx).raw[16:]...)
	return item{fmt.Sprintf("IBoxNonce %d %d %d %d", src, idx, nsrc, nidx), b}
}
func (s *sctx) junk(b []byte) item { return item{fmt.Sprintf("IJunk %d", len(b)), b} }

type scenario struct {
	class   string
	sent    []pkt
	revSent []pkt
	extra   []*streamDesc
	rxConns []uint64
	build   func(s *sctx, nsent int) []item // nsent: frames 1..nsent are the data frames, nsent+1 is the marker
	tx, rx  endpoint
	keep    func(c *conn) // called before the connection is closed (to record its frames)
}

func (w *world) marker() pkt {
	w.markerNo++
	return pkt{Type: 0, Data: []byte(fmt.Sprintf("marker-%d", w.markerNo))}
}

// run one scenario on a fresh connection and emit its case
func (w *world) run(sc scenario) {
	tx, rx := sc.tx, sc.rx
	if tx == nil {
		tx, rx = w.A, w.B
	}
	c := w.dial(tx, rx)
	if !c.openTx || !c.openRx {
		fatal("scenario %s: handshake refused (tx=%v rx=%v)", sc.class, c.openTx, c.openRx)
	}
	sent := append(append([]pkt{}, sc.sent...), w.marker())
	c.sendTx(sent)
	streams := []*streamDesc{c.cur}
	if len(sc.revSent) > 0 {
		c.sendRx(sc.revSent)
	}
	streams = append(streams, c.rev)
	streams = append(streams, sc.extra...)
	s := &sctx{streams: streams, rng: w.rng}
	script := sc.build(s, len(sc.sent))
	var wire []byte
	for _, it := range script {
		wire = append(wire, it.bytes...)
	}
	c.rb.write(wire)
	c.rb.closeWrite()
	c.rb.waitClosed("the receiver")
	delivered := rx.sync()
	if sc.keep != nil {
		sc.keep(c)
	}
	c.close()
	tx.sync()
	w.emit(sc.class, c, streams, true, sent, script, sc.rxConns, int(config.P2P_VERSION), true, delivered)
}

func (w *world) emit(class string, c *conn, streams []*streamDesc, p2pSender bool, sent []pkt, script []item,
	rxConns []uint64, ver int, accepted bool, delivered []pkt) {
	keyOK := true
	st := make([]string, len(streams))
	for i, s := range streams {
		st[i] = s.term()
		for _, f := range s.frames {
			keyOK = keyOK && f.ok
		}
	}
	it := make([]string, len(script))
	for i, x := range script {
		it[i] = x.term
	}
	term := fmt.Sprintf("CConn %d %d %d %s %d %s %s %s %s %s %s %s",
		c.rx.Net(), c.rx.ID(), c.tx.ID(), nlist(rxConns), ver, coqgen.List(st), coqgen.Bool(p2pSender), pktList(sent),
		coqgen.List(it), coqgen.Bool(accepted), pktList(delivered), coqgen.Bool(keyOK))
	// outcome class of the implementation: how many packets came out, and whether the marker did
	markerSeen := false
	if len(sent) > 0 && len(delivered) > 0 && bytes.Equal(delivered[len(delivered)-1].Data, sent[len(sent)-1].Data) && strings.HasPrefix(string(sent[len(sent)-1].Data), "marker-") {
		markerSeen = true
	}
	nd := len(delivered)
	if nd > 6 {
		nd = 6
	}
	cls := fmt.Sprintf("conn/%s/accepted=%v/delivered=%d/alive=%v", class, accepted, nd, markerSeen)
	w.sink.Add(term, cls, map[string]any{"kind": "conn", "class": class, "rx_net": fmt.Sprintf("%#x", c.rx.Net()), "tx_net": fmt.Sprintf("%#x", c.tx.Net()),
		"sent": pktSample(sent), "script": it, "accepted": accepted, "delivered": pktSample(delivered), "marker_delivered": markerSeen, "key_ok": keyOK})
}

func (w *world) somePkts(n int, sizes []int) []pkt {
	types := []uint16{0, 1, 2, 3, 4, 5, 6, 255, 256, 1000, 65533}
	var out []pkt
	for i := 0; i < n; i++ {
		n := sizes[w.rng.Intn(len(sizes))]
		d := w.rng.Bytes(n)
		if n > 600 { // long payloads are runs of one byte value: a literal of that size would dominate the Coq evaluation
			d = bytes.Repeat([]byte{byte(w.rng.Intn(256))}, n)
		}
		out = append(out, pkt{Type: types[w.rng.Intn(len(types))], Data: d})
	}
	return out
}

func all(s *sctx, nsent int) []item { return s.frames(0, 0, nsent+2) }

func (w *world) distinctCases() {
	// 10^4 seals of one packet on one live connection: a measurement of the random-nonce claim, not a proof
	n := 10000
	c := w.dial(w.A, w.B)
	p := pkt{Type: 2, Data: []byte("the same packet")}
	frames, nonces := map[string]bool{}, map[string]bool{}
	done := make(chan bool)
	go func() {
		for i := 0; i < n; i++ {
			raw := c.ra.next("seal")
			if raw == nil {
				fatal("connection closed during the distinctness run")
			}
			frames[string(raw)] = true
			nonces[string(raw[4:16])] = true
		}
		done <- true
	}()
	for i := 0; i < n; i++ {
		w.A.send(p)
	}
	<-done
	c.close()
	w.sink.Add(fmt.Sprintf("CDistinct %d %d %d", n, len(frames), len(nonces)), fmt.Sprintf("distinct/live/all-distinct=%v", len(frames) == n && len(nonces) == n),
		map[string]any{"kind": "distinct", "seals": n, "distinct_frames": len(frames), "distinct_nonces": len(nonces), "note": "measurement of the random-nonce claim on a live connection"})
	// both directions of one live connection share the session key: the frames and nonces of the two senders together
	// must be pairwise distinct (the same packet sealed at both ends must never give the same frame)
	n2 := 2000
	c = w.dial(w.A, w.B)
	frames, nonces = map[string]bool{}, map[string]bool{}
	type rd struct{ f, n []string }
	res := make(chan rd, 2)
	for _, s := range []*rsock{c.ra, c.rb} {
		go func(s *rsock) {
			var r rd
			for i := 0; i < n2; i++ {
				raw := s.next("seal")
				if raw == nil {
					fatal("connection closed during the two-direction distinctness run")
				}
				r.f = append(r.f, string(raw))
				r.n = append(r.n, string(raw[4:16]))
			}
			res <- r
		}(s)
	}
	for i := 0; i < n2; i++ {
		w.A.send(p)
		w.B.send(p)
	}
	for k := 0; k < 2; k++ {
		r := <-res
		for i := range r.f {
			frames[r.f[i]] = true
			nonces[r.n[i]] = true
		}
	}
	c.close()
	w.sink.Add(fmt.Sprintf("CDistinct %d %d %d", 2*n2, len(frames), len(nonces)), fmt.Sprintf("distinct/live-both-directions/all-distinct=%v", len(frames) == 2*n2 && len(nonces) == 2*n2),
		map[string]any{"kind": "distinct", "seals": 2 * n2, "distinct_frames": len(frames), "distinct_nonces": len(nonces), "note": "the same packet sealed by both ends of one live connection (one session key)"})
	// two Cipher values over one key (what the two ends of a connection hold)
	{
		var key [32]byte
		copy(key[:], w.rng.Bytes(32))
		c1, _ := bitcrypto.NewCipher(key)
		c2, _ := bitcrypto.NewCipher(key)
		frames, nonces = map[string]bool{}, map[string]bool{}
		for i := 0; i < n; i++ {
			e1, _ := c1.Encrypt(p.Data)
			e2, _ := c2.Encrypt(p.Data)
			frames[string(e1)], frames[string(e2)] = true, true
			nonces[string(e1[:12])], nonces[string(e2[:12])] = true, true
		}
		w.sink.Add(fmt.Sprintf("CDistinct %d %d %d", 2*n, len(frames), len(nonces)), fmt.Sprintf("distinct/two-ciphers-one-key/all-distinct=%v", len(frames) == 2*n && len(nonces) == 2*n),
			map[string]any{"kind": "distinct", "seals": 2 * n, "distinct_frames": len(frames), "distinct_nonces": len(nonces), "note": "Cipher.Encrypt of one plaintext by two Cipher values made from the same key"})
	}
	// and on the Cipher alone
	var key [32]byte
	copy(key[:], w.rng.Bytes(32))
	ci, _ := bitcrypto.NewCipher(key)
	frames, nonces = map[string]bool{}, map[string]bool{}
	for i := 0; i < n; i++ {
		e, _ := ci.Encrypt(p.Data)
		frames[string(e)] = true
		nonces[string(e[:12])] = true
	}
	w.sink.Add(fmt.Sprintf("CDistinct %d %d %d", n, len(frames), len(nonces)), fmt.Sprintf("distinct/cipher/all-distinct=%v", len(frames) == n && len(nonces) == n),
		map[string]any{"kind": "distinct", "seals": n, "distinct_frames": len(frames), "distinct_nonces": len(nonces), "note": "Cipher.Encrypt of one plaintext"})
}

func (w *world) liveCases() {
	rng := w.rng
	small := []int{0, 1, 2, 3, 5, 8, 13, 16, 31, 32, 33, 64, 100, 255, 256, 257}
	medium := []int{1000, 1024, 4096, 65535, 65536, 100000}

	// --- frames recorded on other connections, for the splices
	record := func(tx, rx *localNode, into **streamDesc, intoRev **streamDesc) {
		w.run(scenario{class: "genuine/library", tx: tx, rx: rx, sent: w.somePkts(3, small), revSent: w.somePkts(3, small), build: all,
			keep: func(c *conn) { *into = c.cur; *intoRev = c.rev }})
	}
	record(w.A, w.C, &w.libAC, &w.libCA)
	record(w.A, w.B, &w.libPrevAB, &w.libPrevBA)

	// --- untouched traffic: every size class, every type class, 0..40 packets
	ng := 40
	if w.thorough {
		ng = 400
	}
	for i := 0; i < ng; i++ {
		n := rng.Intn(13)
		if i%10 == 9 {
			n = 20 + rng.Intn(60)
		}
		sz := small
		if i%4 == 3 {
			sz = append(append([]int{}, small...), medium...)
		}
		w.run(scenario{class: "genuine", sent: w.somePkts(n, sz), build: all})
	}
	for _, n := range small {
		w.run(scenario{class: "genuine/size", sent: []pkt{{Type: 2, Data: rng.Bytes(n)}}, build: all})
	}
	// the frame limit: |data| + 30 = limit is delivered; one byte more and the sender (which checks nothing) emits a
	// frame the receiver refuses
	// (evaluating a 4 MiB case in Coq costs about 7 s: the quick tier does the two boundary cases under one
	// configuration only)
	if w.thorough || configName() != "testnet" {
		bigs := []int{frameLimit - 30}
		if w.thorough {
			bigs = []int{1 << 20, frameLimit - 31, frameLimit - 30}
		}
		for _, d := range bigs {
			w.run(scenario{class: fmt.Sprintf("genuine/big=%d", d), sent: []pkt{{Type: 1, Data: make([]byte, d)}, {Type: 3, Data: []byte("after")}}, build: all})
		}
		w.run(scenario{class: "oversize/limit+1", sent: []pkt{{Type: 1, Data: make([]byte, frameLimit-29)}, {Type: 3, Data: []byte("after")}}, build: all})
	}
	// packet types that wrap onto the reserved wire types 0 and 1
	w.run(scenario{class: "type-wrap/65534", sent: []pkt{{Type: 65534, Data: []byte("x")}, {Type: 2, Data: []byte("y")}}, build: all})
	w.run(scenario{class: "type-wrap/65535", sent: []pkt{{Type: 65535, Data: []byte("x")}, {Type: 2, Data: []byte("y")}}, build: all})

	// --- every single bit of a frame
	flip := func(sizes []int, target int) {
		nbits := (4 + 12 + 2 + sizes[target-1] + 16) * 8
		step := 1
		for bit := 0; bit < nbits; bit += step {
			bit := bit
			pk := make([]pkt, len(sizes))
			for i, n := range sizes {
				pk[i] = pkt{Type: uint16(1 + i), Data: rng.Bytes(n)}
			}
			region := "tag"
			switch {
			case bit < 32:
				region = "prefix"
			case bit < 32+96:
				region = "nonce"
			case bit < 32+96+16:
				region = "type"
			case bit < 32+96+16+8*sizes[target-1]:
				region = "data"
			}
			w.run(scenario{class: fmt.Sprintf("bitflip/%s/bit%d", region, bit%8), sent: pk, build: func(s *sctx, nsent int) []item {
				out := s.frames(0, 0, target)
				f := s.f(0, target)
				mod := append([]byte{}, f.raw...)
				bit := bit % (len(mod) * 8) // (the frames can arrive in another order than they were sent, see finding C14-order)
				mod[bit/8] ^= 1 << uint(bit%8)
				if bit < 32 {
					out = append(out, s.hdr(binary.LittleEndian.Uint32(mod[:4])), s.box(0, target))
				} else {
					out = append(out, s.hdr(f.hdr), s.junk(mod[4:]))
				}
				return append(out, s.frames(0, target+1, nsent+2)...)
			}})
		}
	}
	flip([]int{3, 0, 7}, 2)
	flip([]int{4, 11, 2}, 2)
	if w.thorough {
		flip([]int{9, 64, 1}, 2)
		flip([]int{0}, 1)
	}

	// --- every truncation of a frame
	for cut := 1; cut <= truncBodyLen; cut++ {
		for variant := 0; variant < 3; variant++ {
			w.truncateCase(cut, variant)
		}
	}

	// --- the remaining shapes, a few instances each
	reps := 4
	if w.thorough {
		reps = 40
	}
	base := func() []pkt { return w.somePkts(3, small) }
	type shape struct {
		name    string
		rev     int
		extra   func() []*streamDesc
		builder func(s *sctx, nsent int) []item
	}
	t := 2 // the tampered frame (second data frame)
	around := func(s *sctx, nsent int, mid ...item) []item {
		return append(append(s.frames(0, 0, t), mid...), s.frames(0, t+1, nsent+2)...)
	}
	shapes := []shape{
		{"extend/prefix-adjusted", 0, nil, func(s *sctx, n int) []item {
			e := rng.Bytes(1 + rng.Intn(40))
			return around(s, n, s.hdr(s.f(0, t).hdr+uint32(len(e))), s.junk(append(append([]byte{}, s.f(0, t).raw[4:]...), e...)))
		}},
		{"extend/prefix-kept", 0, nil, func(s *sctx, n int) []item {
			return around(s, n, s.frame(0, t), s.junk(rng.Bytes(1+rng.Intn(40))))
		}},
		{"prefix-missing", 0, nil, func(s *sctx, n int) []item { return around(s, n, s.box(0, t)) }},
		{"prefix-only/limit+1", 0, nil, func(s *sctx, n int) []item { return around(s, n, s.hdr(frameLimit+1)) }},
		{"prefix-only/max", 0, nil, func(s *sctx, n int) []item { return around(s, n, s.hdr(0xFFFFFFFF)) }},
		{"prefix-only/zero", 0, nil, func(s *sctx, n int) []item { return around(s, n, s.hdr(0)) }},
		{"prefix-only/limit", 0, nil, func(s *sctx, n int) []item { return around(s, n, s.hdr(frameLimit)) }},
		{"short-body/5", 0, nil, func(s *sctx, n int) []item { return around(s, n, s.hdr(5), s.junk(rng.Bytes(5))) }},
		{"short-body/12", 0, nil, func(s *sctx, n int) []item { return around(s, n, s.hdr(12), s.junk(rng.Bytes(12))) }},
		{"short-body/28", 0, nil, func(s *sctx, n int) []item { return around(s, n, s.hdr(28), s.junk(rng.Bytes(28))) }},
		{"random-frame", 0, nil, func(s *sctx, n int) []item {
			b := rng.Bytes(30 + rng.Intn(100))
			return around(s, n, s.hdr(uint32(len(b))), s.junk(b))
		}},
		{"partial-prefix-then-eof", 0, nil, func(s *sctx, n int) []item {
			return append(s.frames(0, 0, t), s.clear(s.f(0, t).raw[:1+rng.Intn(3)]))
		}},
		{"nonce-swapped", 0, nil, func(s *sctx, n int) []item {
			return around(s, n, s.hdr(s.f(0, t).hdr), s.boxNonce(0, t, 0, 1))
		}},
		{"nonce-from-other-connection", 0, func() []*streamDesc { return []*streamDesc{w.libAC} }, func(s *sctx, n int) []item {
			return around(s, n, s.hdr(s.f(0, t).hdr), s.boxNonce(0, t, 2, 1))
		}},
		{"splice/other-pair", 0, func() []*streamDesc { return []*streamDesc{w.libAC} }, func(s *sctx, n int) []item {
			return around(s, n, s.frame(2, 1+rng.Intn(3)))
		}},
		{"splice/other-pair-reverse", 0, func() []*streamDesc { return []*streamDesc{w.libCA} }, func(s *sctx, n int) []item {
			return around(s, n, s.frame(2, 1+rng.Intn(3)))
		}},
		{"splice/other-pair-box-under-own-prefix", 0, func() []*streamDesc { return []*streamDesc{w.libAC} }, func(s *sctx, n int) []item {
			j := 1 + rng.Intn(3)
			return around(s, n, s.hdr(s.f(2, j).hdr), s.box(2, j))
		}},
		// same two nodes, earlier connection (KNOWN finding: nothing of the connection enters the key)
		{"splice/earlier-connection", 0, func() []*streamDesc { return []*streamDesc{w.libPrevAB} }, func(s *sctx, n int) []item {
			return around(s, n, s.frame(2, 1+rng.Intn(3)))
		}},
		{"splice/earlier-connection-inserted", 0, func() []*streamDesc { return []*streamDesc{w.libPrevAB} }, func(s *sctx, n int) []item {
			return around(s, n, s.frame(2, 1+rng.Intn(3)), s.frame(0, t))
		}},
		// the receiver's own frames sent back to it (KNOWN finding: one key for both directions)
		{"reflect/same-connection", 2, nil, func(s *sctx, n int) []item { return around(s, n, s.frame(1, 1+rng.Intn(2))) }},
		{"reflect/peer-list-frame", 0, nil, func(s *sctx, n int) []item { return around(s, n, s.frame(1, 0)) }},
		{"reflect/earlier-connection", 0, func() []*streamDesc { return []*streamDesc{w.libPrevBA} }, func(s *sctx, n int) []item {
			return around(s, n, s.frame(2, 1+rng.Intn(3)))
		}},
		// whole frames of this connection replayed, reordered, dropped: outside the wording of C14; the model must still agree
		{"outside/replay", 0, nil, func(s *sctx, n int) []item { return around(s, n, s.frame(0, t), s.frame(0, t)) }},
		{"outside/replay-earlier", 0, nil, func(s *sctx, n int) []item { return around(s, n, s.frame(0, t), s.frame(0, 1)) }},
		{"outside/reorder", 0, nil, func(s *sctx, n int) []item {
			return append(append(s.frames(0, 0, t), s.frame(0, t+1), s.frame(0, t)), s.frames(0, t+2, n+2)...)
		}},
		{"outside/drop", 0, nil, func(s *sctx, n int) []item { return around(s, n) }},
	}
	for _, sh := range shapes {
		for r := 0; r < reps; r++ {
			sc := scenario{class: sh.name, sent: base(), build: sh.builder}
			if sh.rev > 0 {
				sc.revSent = w.somePkts(sh.rev, small)
			}
			if sh.extra != nil {
				sc.extra = sh.extra()
			}
			w.run(sc)
		}
	}
}

var truncSizes = []int{4, 11, 2}

const truncTarget = 2

var truncBodyLen = 12 + 2 + truncSizes[truncTarget-1] + 16

// truncateCase: the second data frame loses its last cut bytes; variant 0 keeps the length prefix (the receiver reads
// into the next frame), 1 adjusts it, 2 ends the stream there
func (w *world) truncateCase(cut, variant int) {
	sizes, target := truncSizes, truncTarget
	pk := make([]pkt, len(sizes))
	for i, n := range sizes {
		pk[i] = pkt{Type: uint16(1 + i), Data: w.rng.Bytes(n)}
	}
	name := []string{"prefix-kept", "prefix-adjusted", "then-eof"}[variant]
	w.run(scenario{class: "truncate/" + name, sent: pk, build: func(s *sctx, nsent int) []item {
		out := s.frames(0, 0, target)
		f := s.f(0, target)
		cut := cut
		if cut > len(f.raw)-4 {
			cut = len(f.raw) - 4
		}
		body := f.raw[4 : len(f.raw)-cut]
		h := f.hdr
		if next := s.f(0, target+1).raw; variant == 0 && cut <= len(next) && bytes.Equal(next[:cut], f.raw[len(f.raw)-cut:]) {
			// the bytes that follow happen to be the bytes that were cut off (1 in 256 for a cut of one byte: the tag
			// ends in the low byte of the next length prefix). What is on the wire is then the intact frame, followed
			// by a frame that lost its first bytes: describe it as that
			out = s.frames(0, 0, target+1)
			out = append(out, s.junk(next[cut:]))
			return append(out, s.frames(0, target+2, nsent+2)...)
		}
		if variant == 1 {
			h -= uint32(cut)
		}
		out = append(out, s.hdr(h))
		if len(body) > 0 {
			out = append(out, s.junk(body))
		}
		if variant == 2 {
			return out
		}
		return append(out, s.frames(0, target+1, nsent+2)...)
	}})
}

// ---------------------------------------------------------------- handshake refusals

// refusal: the handshake of a connection between two P2P values must be refused by both
func (w *world) refused(class string, tx, rx *localNode, txConns, rxConns []uint64) {
	c := w.dial(tx, rx)
	for _, side := range []struct {
		me, peer endpoint
		open     bool
		conns    []uint64
		sock     *rsock
	}{{rx, tx, c.openRx, rxConns, c.rb}, {tx, rx, c.openTx, txConns, c.ra}} {
		cc := &conn{tx: side.peer, rx: side.me}
		st := &streamDesc{net: side.peer.Net(), sk: side.peer.ID(), peer: side.me.ID()}
		w.emit(class, cc, []*streamDesc{st}, false, nil, nil, side.conns, 3, side.open, nil)
	}
	c.ra.c.Close()
	c.rb.c.Close()
}

func (w *world) handshakeCases() {
	small := []int{0, 1, 7, 40}
	// self-connection: a second P2P value with the same node key
	w.A.waitIdle()
	self := newLocalNode(w.A.p.Privkey)
	for i := 0; i < 3; i++ {
		w.refused("handshake/self", w.A, self, nil, nil)
		w.A.waitIdle()
		self.waitIdle()
	}
	// duplicate id: a second connection between two connected nodes is refused, the first one keeps working
	for i := 0; i < 3; i++ {
		w.run(scenario{class: "handshake/duplicate-first-survives", sent: w.somePkts(3, small), build: func(s *sctx, n int) []item {
			w2 := w // the second connection is attempted while the first is open and idle
			c := w2.dial(w.A, w.B)
			for _, side := range []struct {
				me, peer endpoint
				open     bool
			}{{w.B, w.A, c.openRx}, {w.A, w.B, c.openTx}} {
				cc := &conn{tx: side.peer, rx: side.me}
				st := &streamDesc{net: side.peer.Net(), sk: side.peer.ID(), peer: side.me.ID()}
				w.emit("handshake/duplicate", cc, []*streamDesc{st}, false, nil, nil, []uint64{side.peer.ID()}, 3, side.open, nil)
			}
			c.ra.c.Close()
			c.rb.c.Close()
			return all(s, n)
		}})
	}
	// a peer implemented by this harness from the protocol description: version gate, low-order key, short plaintexts
	type rawCase struct {
		name   string
		ver    uint8
		id     string // "own" key of the raw peer, "zero", "victim"
		plains [][]byte
	}
	p := func(wt uint16, data string) []byte {
		b := make([]byte, 2)
		binary.LittleEndian.PutUint16(b, wt)
		return append(b, data...)
	}
	cases := []rawCase{
		{"raw/version=3", 3, "own", [][]byte{p(2, "hello"), p(7, ""), p(4, "marker-raw")}},
		{"raw/version=2", 2, "own", [][]byte{p(3, "v2"), p(4, "marker-raw")}},
		{"raw/version=255", 255, "own", [][]byte{p(3, "v255"), p(4, "marker-raw")}},
		{"raw/version=1", 1, "own", nil},
		{"raw/version=0", 0, "own", nil},
		{"raw/zero-key", 3, "zero", nil},
		{"raw/claims-victims-id", 3, "victim", nil},
		{"raw/wire-type-0-dropped", 3, "own", [][]byte{p(0, "reserved"), p(2, "next"), p(4, "marker-raw")}},
		{"raw/wire-type-1-internal", 3, "own", [][]byte{p(1, ""), p(1, "ab"), p(2, "next"), p(4, "marker-raw")}},
		{"raw/plaintext-1-byte", 3, "own", [][]byte{p(2, "before"), {7}, p(4, "marker-raw")}},
		{"raw/plaintext-empty", 3, "own", [][]byte{p(2, "before"), {}, p(4, "marker-raw")}},
	}
	for _, rc := range cases {
		w.raw(rc.name, rc.ver, rc.id, rc.plains)
	}
}

type rawPeer struct {
	key *ecdh.PrivateKey
	pub []byte
	id  uint64
}

func (r *rawPeer) ID() uint64           { return r.id }
func (r *rawPeer) Net() uint64          { return config.NETWORK_ID }
func (r *rawPeer) Pub() []byte          { return r.pub }
func (r *rawPeer) attach(bool) *rsock   { return nil }
func (r *rawPeer) waitOpen(*rsock) bool { return false }
func (r *rawPeer) send(pkt)             {}
func (r *rawPeer) sync() []pkt          { return nil }
func (r *rawPeer) waitIdle()            {}

func (w *world) raw(class string, ver uint8, idKind string, plains [][]byte) {
	B := w.B
	B.waitIdle()
	key := newKey()
	peer := &rawPeer{key: key, pub: key.PublicKey().Bytes()}
	switch idKind {
	case "zero":
		peer.pub = make([]byte, 32)
	case "victim":
		peer.pub = B.Pub()
	}
	peer.id = nodeID(peer.pub)
	rb := B.attach(false)
	h := &p2p.Handshake{Version: config.VERSION, P2PVersion: ver}
	copy(h.PeerID[:], peer.pub)
	var hb bytes.Buffer
	h.WriteTo(&hb)
	rb.write(hb.Bytes())
	if rb.next("handshake of the node") == nil {
		fatal("raw: no handshake from the node")
	}
	open := B.waitOpen(rb)
	st := &streamDesc{net: config.NETWORK_ID, sk: peer.id, peer: B.ID()}
	var script []item
	var delivered []pkt
	if open {
		rb.next("peer list of the node")
		ci, err := deriveCipher(config.NETWORK_ID, key, B.Pub())
		if err != nil {
			fatal("raw derive: %v", err)
		}
		var wire []byte
		for i, pl := range plains {
			if pl == nil {
				pl = []byte{}
			}
			body, err := ci.Encrypt(pl)
			if err != nil {
				fatal("raw encrypt: %v", err)
			}
			raw := make([]byte, 4)
			binary.LittleEndian.PutUint32(raw, uint32(len(body)))
			raw = append(raw, body...)
			f := decodeFrame(raw, &ci)
			st.frames = append(st.frames, f)
			script = append(script, item{fmt.Sprintf("IFrame 0 %d", i), raw})
			wire = append(wire, raw...)
		}
		rb.write(wire)
		rb.closeWrite()
		rb.waitClosed("the node")
		delivered = B.sync()
	} else {
		rb.waitClosed("the node")
	}
	rb.c.Close()
	B.waitIdle()
	w.emit(class, &conn{tx: peer, rx: B}, []*streamDesc{st}, false, nil, script, nil, int(ver), open, delivered)
}

// ---------------------------------------------------------------- a second process (same build; another build)

func (w *world) crossProcessCases() {
	exe, err := os.Executable()
	if err != nil {
		fatal("executable: %v", err)
	}
	peers := []struct{ name, bin string }{{"same-build", exe}}
	if configName() == "testnet" {
		// run_check.py builds and runs the configurations in registry order: the unittest binary of this tree exists
		sib := filepath.Join(filepath.Dir(exe), "p2pframe_unittest")
		if _, err := os.Stat(sib); err != nil {
			fatal("cross-build: %s is missing (the registry must list unittest before testnet)", sib)
		}
		peers = append(peers, struct{ name, bin string }{"other-build-unittest", sib})
	}
	small := []int{0, 1, 9, 33, 200}
	for _, pr := range peers {
		child := startChild(pr.bin)
		w.sink.Meta["child/"+pr.name] = fmt.Sprintf("network id %#x", child.netid)
		for rep := 0; rep < 3; rep++ {
			A := w.A
			A.waitIdle()
			c := w.dial(A, child)
			toChild := append(w.somePkts(3, small), w.marker())
			toParent := append(w.somePkts(3, small), w.marker())
			class := "process/" + pr.name
			if !c.openTx || !c.openRx {
				// no packet can be exchanged if the connection is not even opened
				w.emit(class+"/refused", &conn{tx: A, rx: child}, []*streamDesc{c.cur}, false, nil, nil, nil, 3, c.openRx, nil)
				c.close()
				continue
			}
			c.sendTx(toChild)
			c.sendRx(toParent)
			// parent -> child
			var wire []byte
			var s1, s2 []item
			for i, f := range c.cur.frames {
				wire = append(wire, f.raw...)
				s1 = append(s1, item{fmt.Sprintf("IFrame 0 %d", i), f.raw})
			}
			c.rb.write(wire)
			// child -> parent
			wire = nil
			for i, f := range c.rev.frames {
				wire = append(wire, f.raw...)
				s2 = append(s2, item{fmt.Sprintf("IFrame 0 %d", i), f.raw})
			}
			c.ra.write(wire)
			c.rb.closeWrite()
			c.ra.closeWrite()
			c.rb.waitClosed("the child")
			c.ra.waitClosed("the parent")
			gotChild := child.sync()
			gotParent := A.sync()
			c.close()
			w.emit(class+"/to-child", &conn{tx: A, rx: child}, []*streamDesc{c.cur}, true, toChild, s1, nil, 3, true, gotChild)
			w.emit(class+"/to-parent", &conn{tx: child, rx: A}, []*streamDesc{c.rev}, true, toParent, s2, nil, 3, true, gotParent)
		}
		child.quit()
	}
}
