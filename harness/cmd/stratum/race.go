package main

// Concurrent exploration (NOT part of the proof): 8 miners on the real server, no scheduling control. Every miner
// logs in, submits a nonce for every job it receives and checks what the server answers; the main goroutine
// produces templates. Built with `go build -race` (tools/c15_race.sh) the Go race detector reports the
// goroutine-level races of the server, which are outside the model.

import (
	"encoding/hex"
	"encoding/json"
	"fmt"
	"os"
	"sync"
	"sync/atomic"
	"time"

	"github.com/virel-project/virel-blockchain/v3/adb"
	"github.com/virel-project/virel-blockchain/v3/block"
	"github.com/virel-project/virel-blockchain/v3/config"
	"github.com/virel-project/virel-blockchain/v3/util"
)

func raceExploration(nMiners, rounds int) map[string]any {
	w := newWorld(theAddrs, theLogins)
	w.bc.NewStratumJob(true)
	var wrongRecipient, wrongBlob, lowDiff, found, unknown, refused, jobsSeen, badJobBlob int64
	var wg sync.WaitGroup
	stop := make(chan struct{})
	var mu sync.Mutex
	for i := 1; i <= nMiners; i++ {
		wg.Add(1)
		go func(cid int) {
			defer wg.Done()
			ai := 1 + (cid-1)%(len(theAddrs)-1)
			mu.Lock()
			m := w.connect(cid)
			mu.Unlock()
			m.send(map[string]any{"jsonrpc": "2.0", "id": 1, "method": "login", "params": map[string]any{"login": theLogins[ai]}})
			l, ok := m.waitReply(waitT)
			if !ok || l.Error != nil {
				return
			}
			var res struct {
				Job jobMsg `json:"job"`
			}
			json.Unmarshal(l.Result, &res)
			jobs := []jobMsg{res.Job}
			id := 1
			for {
				for _, j := range jobs {
					atomic.AddInt64(&jobsSeen, 1)
					raw, _ := hex.DecodeString(j.Blob)
					var sent block.MiningBlob
					if sent.Deserialize(raw) != nil {
						atomic.AddInt64(&badJobBlob, 1)
						continue
					}
					id++
					m.send(map[string]any{"jsonrpc": "2.0", "id": id, "method": "submit",
						"params": map[string]any{"job_id": j.JobID, "nonce": nonceHex(uint32(cid*100000 + id))}})
					l, ok := m.waitReply(waitT)
					if !ok {
						return
					}
					if l.Error != nil {
						switch classifyError(l.Error.Message) {
						case "low-diff":
							atomic.AddInt64(&lowDiff, 1)
						case "unknown-job":
							atomic.AddInt64(&unknown, 1)
						default:
							atomic.AddInt64(&refused, 1)
						}
						continue
					}
					var sr struct {
						Blocks []struct {
							Hash      string `json:"hash"`
							NetworkID uint64 `json:"network_id"`
						} `json:"blocks"`
					}
					json.Unmarshal(l.Result, &sr)
					for _, b := range sr.Blocks {
						if b.NetworkID != config.NETWORK_ID {
							continue
						}
						hb, _ := hex.DecodeString(b.Hash)
						var bl *block.Block
						w.db.View(func(txn adb.Txn) error {
							bl, _ = w.bc.GetBlock(txn, util.Hash(hb))
							return nil
						})
						if bl == nil {
							continue
						}
						atomic.AddInt64(&found, 1)
						if bl.Recipient != theAddrs[ai] {
							atomic.AddInt64(&wrongRecipient, 1)
						}
						jb := bl.Commitment().MiningBlob()
						if jb.NonceExtra != sent.NonceExtra || jb.Timestamp != sent.Timestamp || len(jb.Chains) != len(sent.Chains) || jb.Chains[0] != sent.Chains[0] {
							atomic.AddInt64(&wrongBlob, 1)
						}
					}
				}
				jobs = jobs[:0]
				select {
				case <-stop:
					return
				default:
				}
				j, ok := m.waitJob(300 * time.Millisecond)
				if ok {
					jobs = append(jobs, j)
				}
			}
		}(i)
	}
	for r := 0; r < rounds; r++ {
		time.Sleep(15 * time.Millisecond)
		w.bc.NewStratumJob(true)
	}
	time.Sleep(300 * time.Millisecond)
	close(stop)
	wg.Wait()
	w.closeAll()
	return map[string]any{
		"what":   "exploration, not proof: concurrent miners on the real server without scheduling control",
		"miners": nMiners, "template_rounds": rounds, "jobs_received": jobsSeen, "blocks_found": found,
		"blocks_paying_another_address": wrongRecipient, "blocks_from_another_blob": wrongBlob,
		"rejected_low_difficulty": lowDiff, "unknown_job": unknown, "refused_other": refused, "undecodable_job_blobs": badJobBlob,
	}
}

func famC15Race(out string) {
	initShared()
	theAddrs, theLogins = testAddresses(4)
	rounds := 50
	res := raceExploration(8, rounds)
	b, _ := json.MarshalIndent(res, "", " ")
	fmt.Println(string(b))
	os.MkdirAll(out, 0o755)
	os.WriteFile(out+"/c15race.json", b, 0o644)
}
