package main

// Driver of the REAL stratum server code (stratum/stratumsrv.Server + blockchain.handleConn + NewStratumJob)
// over net.Pipe connections and an in-memory store. Nothing of the server is re-implemented here:
//   * a miner is a net.Pipe; its server end is registered with Server.VerifAddConn and served by
//     Blockchain.VerifHandleStratumConn (= handleConn) in a goroutine of the harness;
//   * a template is produced by Blockchain.NewStratumJob(true) (GetBlockTemplate + Server.SendJob);
//   * SendJob starts one goroutine per connection which does its work inside Conn.Update (the connection's
//     lock). The harness makes the order of these critical sections deterministic by HOLDING the lock of every
//     connection (through the exported Conn.Update) before the template is produced and releasing them one by one
//     ("Notify cid" events). Consequence (documented limitation): a connection's own login/submit cannot be
//     scheduled between a template and that connection's notification in the scripted part.
//     In the scenario scripts (Run.multi) a further template may be produced while a connection is still held:
//     the goroutines of several SendJob calls are then queued on that connection's lock - overlapping broadcasts.
//     When the lock is released they run in an order the harness does not control; it reads the order back from
//     the connection's own job list (Conn.View) and records one Notify event per critical section in that order.
//   * a found block makes AddBlock start `go NewStratumJob(true)`: the harness holds the locks of the other
//     connections during a submit, detects the new top block, waits for the submitter's own notification and
//     records the automatic template as events of the script.

import (
	"bufio"
	"encoding/hex"
	"encoding/json"
	"fmt"
	"net"
	"sync"
	"time"

	"verifharness/memdb"

	"github.com/virel-project/go-randomvirel"
	"github.com/virel-project/virel-blockchain/v3/adb"
	"github.com/virel-project/virel-blockchain/v3/address"
	"github.com/virel-project/virel-blockchain/v3/block"
	"github.com/virel-project/virel-blockchain/v3/blockchain"
	"github.com/virel-project/virel-blockchain/v3/config"
	"github.com/virel-project/virel-blockchain/v3/p2p"
	"github.com/virel-project/virel-blockchain/v3/stratum/stratumsrv"
	"github.com/virel-project/virel-blockchain/v3/util"
	"github.com/virel-project/virel-blockchain/v3/util/uint128"
)

// serialDB serialises Update calls the way LMDB serialises writers (memdb.Update clones, runs and swaps:
// two overlapping Updates would lose one commit; AddBlock starts NewStratumJob from inside its Update).
type serialDB struct {
	*memdb.DB
	wmu sync.Mutex
}

func (d *serialDB) Update(f func(t adb.Txn) error) error {
	d.wmu.Lock()
	defer d.wmu.Unlock()
	return d.DB.Update(f)
}

type pipeAddr string

func (a pipeAddr) Network() string { return "pipe" }
func (a pipeAddr) String() string  { return string(a) }

// srvConn gives every pipe its own RemoteAddr (Server.conns is keyed by it).
type srvConn struct {
	net.Conn
	name string
}

func (c srvConn) RemoteAddr() net.Addr { return pipeAddr(c.name) }

type line struct {
	Method string          `json:"method"`
	Params json.RawMessage `json:"params"`
	Result json.RawMessage `json:"result"`
	Error  *struct {
		Code    int    `json:"code"`
		Message string `json:"message"`
	} `json:"error"`
	Id any `json:"id"`
}

type jobMsg struct {
	Blob     string `json:"blob"`
	JobID    string `json:"job_id"`
	Target   string `json:"target"`
	Height   uint64 `json:"height"`
	SeedHash string `json:"seed_hash"`
}

type sentJob struct {
	JobID  string
	Blob   []byte
	Tpl    int    // template content class the harness attributes the blob to (0 = unknown)
	Target []byte // the target bytes sent with the job
	Height uint64 // the height sent with the job
}

type Miner struct {
	cid     int
	addrIdx int // index into World.addrs (0 = invalid)
	client  net.Conn
	conn    *stratumsrv.Conn
	lines   chan line
	done    chan struct{}
	herr    error
	panicv  any
	jobq    []jobMsg
	alive   bool
	held    bool
	release chan struct{}
	pendK   []int // numbers of the SendJob calls whose goroutine for this connection is waiting for the connection's lock
	sent    []sentJob
	nextId  int
}

type tplInfo struct {
	ptr     *block.Block
	copy    block.Block     // taken right after SendJob's prologue; only fields no job ever changes are used
	mindiff uint128.Uint128 // Server.LastMinDiff read together with LastBlock: the diff argument of that SendJob call
	num     int             // k-th template the server produced
	// content class: two templates that differ only in timestamp and extra nonce (same height, parent,
	// transactions, ...) have the same base hash, hence the same own-chain hashing id for a given recipient;
	// the model's b_tpl is this class, not the template's number.
	class int
}

type World struct {
	bc     *blockchain.Blockchain
	db     *serialDB
	addrs  []address.Address // index 0 = INVALID_ADDRESS
	logins []string
	miners map[int]*Miner
	tpls   []*tplInfo
	hid    map[[32]byte][2]int // own-chain hashing id -> (template content class, address index)
	tclass map[[32]byte]int
	extras map[[16]byte]uint64
	fhash  map[[32]byte]uint64
	jobids map[string]uint64
	notes  []string
}

var sharedBC *blockchain.Blockchain
var genesisDB *memdb.DB

func initShared() {
	blockchain.Log.SetLogLevel(0)
	randomvirel.InitHash(4, false)
	db := memdb.New()
	sharedBC = blockchain.New("/nonexistent-verif-datadir", db)
	sharedBC.P2P = &p2p.P2P{Connections: map[string]*p2p.Connection{}}
	genesisDB = db.Snapshot()
	if config.IS_MASTERCHAIN != (config.NETWORK_ID == 0xd38dab1d4676d0c5) {
		panic("IS_MASTERCHAIN is no longer NETWORK_ID == 0xd38dab1d4676d0c5: update Model/Stratum.v")
	}
}

func newWorld(addrs []address.Address, logins []string) *World {
	w := &World{bc: sharedBC, addrs: addrs, logins: logins, miners: map[int]*Miner{}, hid: map[[32]byte][2]int{},
		extras: map[[16]byte]uint64{{}: 0}, fhash: map[[32]byte]uint64{}, jobids: map[string]uint64{}}
	w.db = &serialDB{DB: genesisDB.Snapshot()}
	w.bc.DB = w.db
	w.bc.Stratum = &stratumsrv.Server{NewConnections: make(chan *stratumsrv.Conn)}
	// the Blockchain value is shared by all scripts: put back what blockchain.New computes from the store
	// (SyncHeight above the chain's height makes AddBlock start its NewStratumJob unforced, i.e. throttled)
	w.bc.SyncMut.Lock()
	w.db.View(func(txn adb.Txn) error {
		st := w.bc.GetStats(txn)
		w.bc.SyncDiff = st.CumulativeDiff
		w.bc.SyncHeight = st.TopHeight
		return nil
	})
	w.bc.SyncLastRequestHeight = 0
	w.bc.SyncMut.Unlock()
	return w
}

func (w *World) note(f string, a ...any) { w.notes = append(w.notes, fmt.Sprintf(f, a...)) }

func (w *World) topHash() util.Hash {
	var h util.Hash
	w.db.View(func(txn adb.Txn) error {
		h = w.bc.GetStats(txn).TopHash
		return nil
	})
	return h
}
func (w *World) topHeight() uint64 {
	var h uint64
	w.db.View(func(txn adb.Txn) error {
		h = w.bc.GetStats(txn).TopHeight
		return nil
	})
	return h
}

// ---- symbolic renumbering (the model never looks inside hashes, extra nonces, job ids) ----

func (w *World) extraId(e [16]byte) uint64 {
	if v, ok := w.extras[e]; ok {
		return v
	}
	w.extras[e] = uint64(len(w.extras))
	return w.extras[e]
}
func (w *World) jobId(s string) uint64 {
	if v, ok := w.jobids[s]; ok {
		return v
	}
	w.jobids[s] = uint64(len(w.jobids) + 1)
	return w.jobids[s]
}
func (w *World) foreignId(h [32]byte) uint64 {
	if v, ok := w.fhash[h]; ok {
		return v
	}
	w.fhash[h] = uint64(len(w.fhash) + 1)
	return w.fhash[h]
}

// registerTemplate records the template the server now advertises and computes, with the real block code, the
// own-chain hashing id the template has for every known recipient.
func (w *World) registerTemplate() *tplInfo {
	w.bc.Stratum.RLock()
	p := w.bc.Stratum.LastBlock
	md := w.bc.Stratum.LastMinDiff
	w.bc.Stratum.RUnlock()
	for _, t := range w.tpls {
		if t.ptr == p {
			return t
		}
	}
	t := &tplInfo{ptr: p, copy: *p, mindiff: md, num: len(w.tpls) + 1}
	w.tpls = append(w.tpls, t)
	b0 := t.copy
	b0.Recipient = address.INVALID_ADDRESS
	ch := b0.Commitment().HashingID().Hash
	if w.tclass == nil {
		w.tclass = map[[32]byte]int{}
	}
	if _, ok := w.tclass[ch]; !ok {
		w.tclass[ch] = len(w.tclass) + 1
	}
	t.class = w.tclass[ch]
	for ai, a := range w.addrs {
		b := t.copy
		b.Recipient = a
		w.hid[b.Commitment().HashingID().Hash] = [2]int{t.class, ai}
	}
	return t
}

// classInfo returns a template of the given content class (height and difficulty are part of the content).
func (w *World) classInfo(class int) *tplInfo {
	for _, t := range w.tpls {
		if t.class == class {
			return t
		}
	}
	return nil
}

// chainTerm prints one (network id, hashing id) entry of a mining blob symbolically.
func (w *World) chainTerm(c block.HashingID) string {
	if c.NetworkID == config.NETWORK_ID {
		if v, ok := w.hid[c.Hash]; ok {
			return fmt.Sprintf("(%d, Own %d %d)", c.NetworkID, v[0], v[1])
		}
	}
	return fmt.Sprintf("(%d, Foreign %d)", c.NetworkID, w.foreignId(c.Hash))
}

func (w *World) blobTerm(m block.MiningBlob) string {
	s := "["
	for i, c := range m.Chains {
		if i > 0 {
			s += "; "
		}
		s += w.chainTerm(c)
	}
	return fmt.Sprintf("(mkblob %d %d %d %s])", m.Timestamp, w.extraId(m.NonceExtra), m.Nonce, s)
}

func (w *World) ownOf(m block.MiningBlob) (tpl, addr int) {
	for _, c := range m.Chains {
		if c.NetworkID == config.NETWORK_ID {
			if v, ok := w.hid[c.Hash]; ok {
				return v[0], v[1]
			}
		}
	}
	return 0, -1
}

// ---- connections ----

const waitT = 8 * time.Second

func (m *Miner) next(timeout time.Duration) (line, bool) {
	select {
	case l, ok := <-m.lines:
		return l, ok
	case <-time.After(timeout):
		return line{}, false
	}
}

// waitReply returns the next line that is not a job notification (notifications are queued).
func (m *Miner) waitReply(timeout time.Duration) (line, bool) {
	for {
		l, ok := m.next(timeout)
		if !ok {
			return l, false
		}
		if l.Method == "job" {
			var j jobMsg
			json.Unmarshal(l.Params, &j)
			m.jobq = append(m.jobq, j)
			continue
		}
		if l.Method != "" {
			continue
		}
		return l, true
	}
}

// waitReplyOrDone is waitReply that also gives up shortly after the connection handler has returned.
func (m *Miner) waitReplyOrDone(timeout time.Duration) (line, bool) {
	deadline := time.After(timeout)
	done := m.done
	for {
		select {
		case l, ok := <-m.lines:
			if !ok {
				return l, false
			}
			if l.Method == "job" {
				var j jobMsg
				json.Unmarshal(l.Params, &j)
				m.jobq = append(m.jobq, j)
				continue
			}
			if l.Method != "" {
				continue
			}
			return l, true
		case <-done:
			// net.Pipe writes are synchronous: whatever the handler wrote has reached the reader goroutine
			done = nil
			deadline = time.After(40 * time.Millisecond)
		case <-deadline:
			return line{}, false
		}
	}
}

func (m *Miner) waitJob(timeout time.Duration) (jobMsg, bool) {
	for len(m.jobq) == 0 {
		l, ok := m.next(timeout)
		if !ok {
			return jobMsg{}, false
		}
		if l.Method == "job" {
			var j jobMsg
			json.Unmarshal(l.Params, &j)
			m.jobq = append(m.jobq, j)
		}
	}
	j := m.jobq[0]
	m.jobq = m.jobq[1:]
	return j, true
}

func (m *Miner) send(v any) error {
	b, _ := json.Marshal(v)
	m.client.SetWriteDeadline(time.Now().Add(waitT))
	_, err := m.client.Write(append(b, '\n'))
	return err
}

// hold takes the connection's lock through the exported Conn.Update and keeps it until unhold.
func (m *Miner) hold() {
	if m.held || !m.alive {
		return
	}
	acq := make(chan struct{})
	m.release = make(chan struct{})
	rel := m.release
	go m.conn.Update(func(c *stratumsrv.ConnData) error {
		close(acq)
		<-rel
		return nil
	})
	<-acq
	m.held = true
}
func (m *Miner) pending() bool { return len(m.pendK) > 0 }

func (m *Miner) unhold() {
	if m.held {
		close(m.release)
		m.held = false
	}
}

func (w *World) connect(cid int) *Miner {
	cl, sv := net.Pipe()
	m := &Miner{cid: cid, client: cl, lines: make(chan line, 256), done: make(chan struct{}), alive: true}
	m.conn = w.bc.Stratum.VerifAddConn(srvConn{Conn: sv, name: fmt.Sprintf("miner-%d", cid)})
	go func() {
		defer close(m.done)
		defer func() {
			if r := recover(); r != nil {
				m.panicv = r // in the node this goroutine has no recover: the process dies
			}
		}()
		m.herr = w.bc.VerifHandleStratumConn(m.conn)
	}()
	go func() {
		sc := bufio.NewScanner(cl)
		sc.Buffer(make([]byte, 1<<16), 1<<22)
		for sc.Scan() {
			var l line
			if json.Unmarshal(sc.Bytes(), &l) == nil {
				m.lines <- l
			}
		}
		close(m.lines)
	}()
	w.miners[cid] = m
	return m
}

// drop does what the goroutine started by Blockchain.StartStratum does when handleConn returns an error.
func (w *World) drop(m *Miner) {
	m.unhold()
	m.client.Close()
	<-m.done
	w.bc.Stratum.Lock()
	w.bc.Stratum.Kick(m.conn)
	w.bc.Stratum.Unlock()
	m.alive = false
	m.pendK = nil
}

func (w *World) closeAll() {
	for _, m := range w.miners {
		if m.alive {
			w.drop(m)
		}
	}
}

func decodeBlob(h string) (block.MiningBlob, []byte, error) {
	raw, err := hex.DecodeString(h)
	if err != nil {
		return block.MiningBlob{}, nil, err
	}
	var mb block.MiningBlob
	err = mb.Deserialize(raw)
	return mb, raw, err
}
