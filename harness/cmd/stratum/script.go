package main

import (
	"encoding/binary"
	"encoding/hex"
	"encoding/json"
	"errors"
	"fmt"
	"strings"

	"github.com/virel-project/go-randomvirel"
	"github.com/virel-project/virel-blockchain/v3/adb"
	"github.com/virel-project/virel-blockchain/v3/block"
	"github.com/virel-project/virel-blockchain/v3/config"
	"github.com/virel-project/virel-blockchain/v3/util"
)

// Op is one scripted event before execution.
type Op struct {
	Kind   byte   // 'L' login, 'T' new template, 'N' notify, 'S' submit, 'D' disconnect
	Cid    int    // connection
	Addr   int    // L: address index (0 = a login string that is not an address)
	Sel    int    // S: k-th newest job ever sent to Cid (0 = newest); -1 = an id nobody was given; -2 = newest job of another miner
	Nonce  string // S: hex text of the nonce field
	Extra  string // S: hex text of nonce_extra ("" = absent)
	Merge  string // S: shape of the merge-mining blob: "", "own", "own+f", "f+own", "garbage", "ownown", "empty"
	ExtraB []byte
}

func (o Op) String() string {
	switch o.Kind {
	case 'L':
		return fmt.Sprintf("L%d:a%d", o.Cid, o.Addr)
	case 'T':
		return "T"
	case 'N':
		return fmt.Sprintf("N%d", o.Cid)
	case 'D':
		return fmt.Sprintf("D%d", o.Cid)
	}
	s := fmt.Sprintf("S%d:j%d:n%s", o.Cid, o.Sel, o.Nonce)
	if o.Extra != "" {
		s += ":x" + o.Extra
	}
	if o.Merge != "" {
		s += ":m" + o.Merge
	}
	return s
}

// Step is one executed event with what the server answered.
type Step struct {
	Event string // Gallina term of the event (inputs, including the random draws the server made)
	Obs   string // Gallina term of Go's observation
	Kind  string // short outcome class
	Human string
	Auto  bool // produced by the server itself (template after a found block)
}

var errPruned = errors.New("script outside the deterministic discipline")
var errDisturbed = errors.New("unexpected message order")

type Run struct {
	w          *World
	steps      []Step
	pendingTpl int // number of the template whose SendJob goroutines are waiting
}

func (r *Run) add(ev, obs, kind, human string, auto bool) {
	r.steps = append(r.steps, Step{Event: ev, Obs: obs, Kind: kind, Human: human, Auto: auto})
}

func (r *Run) anyPending(except int) bool {
	for _, m := range r.w.miners {
		if m.alive && m.pending && m.cid != except {
			return true
		}
	}
	return false
}

func (r *Run) jobObs(m *Miner, j jobMsg) (term string, human string, mb block.MiningBlob, err error) {
	mb, raw, err := decodeBlob(j.Blob)
	if err != nil {
		return "", "", mb, err
	}
	tn, ai := r.w.ownOf(mb)
	m.sent = append(m.sent, sentJob{JobID: j.JobID, Blob: raw, Tpl: tn})
	return fmt.Sprintf("OJob %d %s", r.w.jobId(j.JobID), r.w.blobTerm(mb)),
		fmt.Sprintf("job %s to miner %d: content %d pays address %d extra#%d", j.JobID, m.cid, tn, ai, r.w.extraId(mb.NonceExtra)), mb, nil
}

func (r *Run) login(op Op) error {
	w := r.w
	if w.miners[op.Cid] != nil {
		return errPruned
	}
	m := w.connect(op.Cid)
	m.addrIdx = op.Addr
	m.nextId++
	err := m.send(map[string]any{"jsonrpc": "2.0", "id": m.nextId, "method": "login",
		"params": map[string]any{"login": w.logins[op.Addr], "pass": "x", "agent": "verif-harness"}})
	if err != nil {
		return err
	}
	l, ok := m.waitReply(waitT)
	if !ok {
		return errDisturbed
	}
	if l.Error != nil {
		w.drop(m)
		r.add(fmt.Sprintf("ELogin %d %d 0", op.Cid, op.Addr), "GO OLoginRefused false", "login-refused", "login of miner refused", false)
		return nil
	}
	var res struct {
		Job jobMsg `json:"job"`
	}
	if err := json.Unmarshal(l.Result, &res); err != nil {
		return err
	}
	t, h, _, err := r.jobObs(m, res.Job)
	if err != nil {
		return err
	}
	r.add(fmt.Sprintf("ELogin %d %d %d", op.Cid, op.Addr, w.jobId(res.Job.JobID)), "GO ("+t+") false", "login-job", "login: "+h, false)
	return nil
}

func (r *Run) templateEvent(t *tplInfo, auto bool) {
	ch := "["
	for i, c := range t.copy.OtherChains {
		if i > 0 {
			ch += "; "
		}
		ch += r.w.chainTerm(c)
	}
	ch += "]"
	r.add(fmt.Sprintf("ETemplate %d %d %d %s", t.class, t.copy.Timestamp, r.w.extraId(t.copy.NonceExtra), ch), "GO ONone false", "template",
		fmt.Sprintf("template %d (content %d) height %d difficulty %s", t.num, t.class, t.copy.Height, t.copy.Difficulty.String()), auto)
}

func (r *Run) template() error {
	w := r.w
	if r.anyPending(-1) {
		return errPruned
	}
	for _, m := range w.miners {
		m.hold()
	}
	w.bc.NewStratumJob(true)
	t := w.registerTemplate()
	for _, m := range w.miners {
		if m.alive {
			m.pending = true
		}
	}
	r.pendingTpl = t.num
	r.templateEvent(t, false)
	return nil
}

func (r *Run) notify(op Op) error {
	m := r.w.miners[op.Cid]
	if m == nil || !m.alive || !m.pending {
		return errPruned
	}
	m.unhold()
	j, ok := m.waitJob(waitT)
	if !ok {
		return errDisturbed
	}
	m.pending = false
	t, h, mb, err := r.jobObs(m, j)
	if err != nil {
		return err
	}
	r.add(fmt.Sprintf("ENotify %d %d %d %d", op.Cid, r.pendingTpl, r.w.extraId(mb.NonceExtra), r.w.jobId(j.JobID)),
		"GO ("+t+") false", "notify-job", "notify: "+h, false)
	return nil
}

func (r *Run) disconnect(op Op) error {
	m := r.w.miners[op.Cid]
	if m == nil || !m.alive {
		return errPruned
	}
	r.w.drop(m)
	r.add(fmt.Sprintf("EDisconnect %d", op.Cid), "GO ONone false", "disconnect", fmt.Sprintf("miner %d disconnects", op.Cid), false)
	return nil
}

// mergeBlob builds the merge-mining blob a masterchain node would submit for the job whose sent blob is `sent`.
func (r *Run) mergeBlob(shape string, sent block.MiningBlob, salt byte) []byte {
	own := block.HashingID{NetworkID: config.NETWORK_ID}
	for _, c := range sent.Chains {
		if c.NetworkID == config.NETWORK_ID {
			own = c
		}
	}
	var fh [32]byte
	fh[0], fh[1] = 0xf0, salt
	hi := block.HashingID{NetworkID: config.NETWORK_ID + 7, Hash: fh}
	lo := block.HashingID{NetworkID: config.NETWORK_ID - 1, Hash: fh} // 0 on unittest: refused by setMiningBlob ("not sorted")
	mb := block.MiningBlob{Timestamp: sent.Timestamp + uint64(salt%3), NonceExtra: sent.NonceExtra, Nonce: 77}
	mb.NonceExtra[0] ^= salt
	switch shape {
	case "own":
		mb.Chains = []block.HashingID{own}
	case "own+f":
		mb.Chains = []block.HashingID{own, hi}
	case "f+own":
		mb.Chains = []block.HashingID{lo, own}
	case "ownown":
		mb.Chains = []block.HashingID{own, own}
	case "garbage":
		return []byte{1, 2, 3, salt}
	}
	return mb.Serialize()
}

func classifyError(msg string) string {
	switch {
	case strings.HasPrefix(msg, "stale job"):
		return "unknown-job"
	case strings.HasPrefix(msg, "malformed job"), strings.HasPrefix(msg, "failed to unmarshal json"):
		return "malformed"
	case strings.HasPrefix(msg, "failed to deserialize mining blob"), strings.HasPrefix(msg, "failed to set mining blob"),
		strings.HasPrefix(msg, "masterchain node cannot accept"):
		return "blob-refused"
	case strings.HasPrefix(msg, "invalid block: block does not match minimum difficulty"):
		return "low-diff"
	case strings.HasPrefix(msg, "invalid block:"):
		return "chain-refused"
	}
	return "other-error"
}

func (r *Run) submit(op Op) error {
	w := r.w
	m := w.miners[op.Cid]
	if m == nil || !m.alive || m.pending {
		return errPruned
	}
	// which job
	var jobid string
	var sentRaw []byte
	var jobTpl int
	switch {
	case op.Sel >= 0:
		if op.Sel >= len(m.sent) {
			return errPruned
		}
		sj := m.sent[len(m.sent)-1-op.Sel]
		jobid, sentRaw, jobTpl = sj.JobID, sj.Blob, sj.Tpl
	case op.Sel == -1:
		jobid = "nobodysjob"
	default:
		for _, o := range w.miners {
			if o.cid != m.cid && len(o.sent) > 0 {
				jobid = o.sent[len(o.sent)-1].JobID
			}
		}
		if jobid == "" {
			return errPruned
		}
	}
	// the automatic template after a block on top of the chain needs every other connection without a pending
	// notification (two queued SendJob goroutines on one connection have no deterministic order)
	if ti := w.classInfo(jobTpl); ti != nil && ti.copy.Height == w.topHeight()+1 && r.anyPending(m.cid) {
		return errPruned
	}
	var sentMb block.MiningBlob
	if sentRaw != nil {
		sentMb.Deserialize(sentRaw)
	}
	params := map[string]any{"id": "x", "job_id": jobid, "nonce": op.Nonce, "result": ""}
	if op.Extra != "" {
		params["nonce_extra"] = op.Extra
	}
	var mergeRaw []byte
	if op.Merge != "" {
		mergeRaw = r.mergeBlob(op.Merge, sentMb, byte(len(r.steps)+1))
		params["blob"] = hex.EncodeToString(mergeRaw)
	}
	// event term
	nonceTerm := "NBadHex"
	nb, nerr := hex.DecodeString(op.Nonce)
	if nerr == nil {
		var v uint32
		if len(nb) >= 4 {
			v = binary.LittleEndian.Uint32(nb)
		}
		nonceTerm = fmt.Sprintf("(NBytes %d %d)", len(nb), v)
	}
	extraTerm := "XNone"
	xb, _ := hex.DecodeString(op.Extra)
	if len(xb) > 0 {
		if len(xb) == 16 {
			extraTerm = fmt.Sprintf("(XBytes 16 %d)", w.extraId([16]byte(xb)))
		} else {
			extraTerm = fmt.Sprintf("(XBytes %d 0)", len(xb))
		}
	}
	mergeTerm := "MNone"
	var mergeMb block.MiningBlob
	if len(mergeRaw) > 0 {
		if err := mergeMb.Deserialize(mergeRaw); err != nil {
			mergeTerm = "MBad"
		} else {
			mergeTerm = "(MBlob " + w.blobTerm(mergeMb) + ")"
		}
	}
	ev := fmt.Sprintf("ESubmit %d %d %s %s %s", op.Cid, w.jobId(jobid), nonceTerm, extraTerm, mergeTerm)

	// does the submitted nonce solve the blob the miner was given (as completed by the miner's own fields)?
	solves := false
	if sentRaw != nil && nerr == nil && len(nb) >= 4 && w.classInfo(jobTpl) != nil {
		raw := append([]byte{}, sentRaw...)
		if mergeTerm != "MNone" && mergeTerm != "MBad" {
			raw = append([]byte{}, mergeRaw...)
		}
		if len(raw) >= 43 {
			if len(xb) == 16 {
				copy(raw[8:24], xb)
			}
			copy(raw[39:43], nb[:4])
			var mb block.MiningBlob
			if mb.Deserialize(raw) == nil {
				diff := w.classInfo(jobTpl).copy.Difficulty
				worst := [16]byte{0xff, 0xff, 0xff, 0xff, 0xff, 0xff, 0xff, 0xff, 0xff, 0xff, 0xff, 0xff, 0xff, 0xff, 0xff, 0xff}
				if block.ValidPowHash(worst, diff) {
					solves = true // the largest hash value meets this difficulty: every nonce solves (unittest: difficulty 1)
				} else {
					pow := randomvirel.PowHash(mb.GetSeed(), raw)
					solves = block.ValidPowHash([16]byte(pow[16:]), diff)
				}
			}
		}
	}

	// hold the others: a found block makes the node send a new template to everybody
	var spec []*Miner
	for _, o := range w.miners {
		if o.alive && o.cid != m.cid && !o.held {
			o.hold()
			spec = append(spec, o)
		}
	}
	before := w.topHash()
	m.nextId++
	if err := m.send(map[string]any{"jsonrpc": "2.0", "id": m.nextId, "method": "submit", "params": params}); err != nil {
		// the handler died while reading (panic) or closed the connection
	}
	l, got := m.waitReplyOrDone(waitT)
	kind, obs, human := "", "", ""
	dead := false
	switch {
	case !got:
		<-m.done
		if m.panicv != nil {
			kind, obs, human = "panic", "GO OPanic "+boolTerm(solves), fmt.Sprintf("handler goroutine panicked: %v", m.panicv)
		} else {
			return errDisturbed
		}
		dead = true
	case l.Error != nil:
		kind = classifyError(l.Error.Message)
		switch kind {
		case "unknown-job":
			obs = "GO OUnknownJob " + boolTerm(solves)
		case "malformed":
			obs, dead = "GO OMalformed "+boolTerm(solves), true
		case "blob-refused":
			obs, dead = "GO OBlobRefused "+boolTerm(solves), true
		case "low-diff":
			obs = "GO ORejectedLowDiff " + boolTerm(solves)
		case "chain-refused":
			obs = "GRefusedByChain"
		default:
			return fmt.Errorf("unclassified error reply %q", l.Error.Message)
		}
		human = "submit answered: " + kind
	default:
		var res struct {
			Status string `json:"status"`
			Blocks []struct {
				Hash      string `json:"hash"`
				NetworkID uint64 `json:"network_id"`
			} `json:"blocks"`
		}
		if err := json.Unmarshal(l.Result, &res); err != nil {
			return err
		}
		found := false
		for _, b := range res.Blocks {
			if b.NetworkID != config.NETWORK_ID {
				continue
			}
			hb, _ := hex.DecodeString(b.Hash)
			var bl *block.Block
			w.db.View(func(txn adb.Txn) error {
				var err error
				bl, err = w.bc.GetBlock(txn, util.Hash(hb))
				return err
			})
			if bl == nil {
				return fmt.Errorf("found block %s is not in the store", b.Hash)
			}
			ai := -1
			for i, a := range w.addrs {
				if a == bl.Recipient {
					ai = i
				}
			}
			if ai < 0 {
				ai = 99
			}
			jmb := bl.Commitment().MiningBlob()
			tn, _ := w.ownOf(jmb)
			kind = "found"
			obs = fmt.Sprintf("GO (OFound %d %s) %s", ai, w.blobTerm(jmb), boolTerm(solves))
			human = fmt.Sprintf("block found at height %d with content %d paying address %d (submitter logged in with address %d)", bl.Height, tn, ai, m.addrIdx)
			found = true
		}
		if !found {
			return fmt.Errorf("OK reply without a block of this chain")
		}
	}
	r.add(ev, obs, kind, fmt.Sprintf("miner %d submits job %s: %s", m.cid, jobid, human), false)
	if dead {
		for _, o := range spec {
			o.unhold()
		}
		w.drop(m)
		return nil
	}
	if after := w.topHash(); after != before {
		j, ok := m.waitJob(waitT)
		if !ok {
			return errDisturbed
		}
		t := w.registerTemplate()
		r.pendingTpl = t.num
		for _, o := range w.miners {
			if o.alive && o.cid != m.cid {
				o.pending = true
			}
		}
		r.templateEvent(t, true)
		jt, h, mb, err := r.jobObs(m, j)
		if err != nil {
			return err
		}
		r.add(fmt.Sprintf("ENotify %d %d %d %d", m.cid, t.num, w.extraId(mb.NonceExtra), w.jobId(j.JobID)),
			"GO ("+jt+") false", "notify-job", "notify (automatic): "+h, true)
	} else {
		for _, o := range spec {
			o.unhold()
		}
	}
	return nil
}

func boolTerm(b bool) string {
	if b {
		return "true"
	}
	return "false"
}

func (r *Run) exec(op Op) error {
	switch op.Kind {
	case 'L':
		return r.login(op)
	case 'T':
		return r.template()
	case 'N':
		return r.notify(op)
	case 'S':
		return r.submit(op)
	case 'D':
		return r.disconnect(op)
	}
	return fmt.Errorf("bad op")
}

// finish flushes pending notifications (not recorded: the script ends before them) and closes everything.
func (r *Run) finish() {
	for _, m := range r.w.miners {
		if m.alive && m.held {
			m.unhold()
			if m.pending {
				m.waitJob(waitT)
			}
		}
	}
	r.w.closeAll()
}
