package main

import (
	"encoding/binary"
	"encoding/hex"
	"encoding/json"
	"errors"
	"fmt"
	"strconv"
	"strings"

	"github.com/virel-project/virel-blockchain/v3/adb"
	"github.com/virel-project/virel-blockchain/v3/block"
	"github.com/virel-project/virel-blockchain/v3/config"
	"github.com/virel-project/virel-blockchain/v3/stratum/stratumsrv"
	"github.com/virel-project/virel-blockchain/v3/util"
)

// Op is one scripted event before execution.
type Op struct {
	Kind   byte   // 'L' login, 'T' new template, 'N' notify, 'S' submit, 'D' disconnect
	Cid    int    // connection
	Addr   int    // L: address index (0 = a login string that is not an address)
	Sel    int    // S: k-th newest job ever sent to Cid (0 = newest); -1 = an id nobody was given; -2 = newest job of another miner
	Nonce  string // S: hex text of the nonce field (with Mine: where the search for a nonce starts)
	Extra  string // S: hex text of nonce_extra ("" = absent)
	Merge  string // S: shape of the merge-mining blob: "", "own", "own+f", "f+own", "garbage", "ownown", "empty", "own+15f", "own+16f"
	ExtraB []byte
	// S: which job, when the order in which overlapping broadcasts reached the connection is not known to the script:
	// "" = Sel; "low" / "high" = the job of the lowest / highest height among the jobs the server still holds for Cid
	// (the last STRATUM_JOBS_HISTORY sent); ties: the newer
	Pick string
	// S: the nonce is searched for, as a miner does, with the consensus proof-of-work function keyed with the seed of
	// the blob that is hashed: "hit" = a nonce whose value meets the target SENT WITH THE JOB (the weakest such value
	// among a batch of nonces: a share right at the advertised target); "any" = the first nonce found that meets it;
	// "miss" = a nonce that just fails it
	Mine string
	// S with Merge: timestamp of the merge-mining blob: "" = the job's (+0..2 ms); "prev" / "next" = last millisecond
	// of the seed period before / first millisecond of the seed period after the job's blob; "prev-<ms>" = <ms> before
	// "prev"; "par+<ms>" = <ms> after the parent block of the job's block; "now-<ms>" = <ms> before the current time
	Ts string
}

func (o Op) String() string {
	switch o.Kind {
	case 'L':
		return fmt.Sprintf("L%d:a%d", o.Cid, o.Addr)
	case 'T':
		return "T"
	case 'N':
		return fmt.Sprintf("N%d", o.Cid)
	case 'D':
		return fmt.Sprintf("D%d", o.Cid)
	}
	s := fmt.Sprintf("S%d:j%d:n%s", o.Cid, o.Sel, o.Nonce)
	if o.Pick != "" {
		s = fmt.Sprintf("S%d:j%s:n%s", o.Cid, o.Pick, o.Nonce)
	}
	if o.Mine != "" {
		s += ":" + o.Mine
	}
	if o.Extra != "" {
		s += ":x" + o.Extra
	}
	if o.Merge != "" {
		s += ":m" + o.Merge
	}
	if o.Ts != "" {
		s += "@" + o.Ts
	}
	return s
}

// Step is one executed event with what the server answered.
type Step struct {
	Event string // Gallina term of the event (inputs, including the random draws the server made)
	Obs   string // Gallina term of Go's observation
	Kind  string // short outcome class
	Human string
	Auto  bool // produced by the server itself (template after a found block)
}

var errPruned = errors.New("script outside the deterministic discipline")
var errDisturbed = errors.New("unexpected message order")

type Run struct {
	w          *World
	steps      []Step
	pendingTpl int  // number of the newest template (SendJob call)
	multi      bool // scenario scripts: a template may be produced while notifications of earlier ones are still queued
	// a share whose value meets the target sent with its job was not accepted (the property fails at that step): the
	// rest of a scenario script, which counts on the block, may then not be executable
	validRejected bool
}

func (r *Run) add(ev, obs, kind, human string, auto bool) {
	r.steps = append(r.steps, Step{Event: ev, Obs: obs, Kind: kind, Human: human, Auto: auto})
}

func (r *Run) anyPending(except int) bool {
	for _, m := range r.w.miners {
		if m.alive && m.pending() && m.cid != except {
			return true
		}
	}
	return false
}

func (r *Run) jobObs(m *Miner, j jobMsg) (term string, human string, mb block.MiningBlob, err error) {
	mb, raw, err := decodeBlob(j.Blob)
	if err != nil {
		return "", "", mb, err
	}
	tb, err := hex.DecodeString(j.Target)
	if err != nil || len(tb) != 8 {
		return "", "", mb, fmt.Errorf("job %s: target %q is not eight bytes", j.JobID, j.Target)
	}
	tn, ai := r.w.ownOf(mb)
	m.sent = append(m.sent, sentJob{JobID: j.JobID, Blob: raw, Tpl: tn, Target: tb, Height: j.Height})
	return fmt.Sprintf("OJob %d %s %d", r.w.jobId(j.JobID), r.w.blobTerm(mb), binary.LittleEndian.Uint64(tb)),
		fmt.Sprintf("job %s to miner %d: content %d height %d pays address %d extra#%d target %s (difficulty %s)", j.JobID, m.cid, tn, j.Height, ai,
			r.w.extraId(mb.NonceExtra), j.Target, util.ByteTargetToDiff(tb).String()), mb, nil
}

func (r *Run) login(op Op) error {
	w := r.w
	if w.miners[op.Cid] != nil {
		return errPruned
	}
	m := w.connect(op.Cid)
	m.addrIdx = op.Addr
	m.nextId++
	err := m.send(map[string]any{"jsonrpc": "2.0", "id": m.nextId, "method": "login",
		"params": map[string]any{"login": w.logins[op.Addr], "pass": "x", "agent": "verif-harness"}})
	if err != nil {
		return err
	}
	l, ok := m.waitReply(waitT)
	if !ok {
		return errDisturbed
	}
	if l.Error != nil {
		w.drop(m)
		r.add(fmt.Sprintf("ELogin %d %d 0", op.Cid, op.Addr), "GO OLoginRefused None", "login-refused", "login of miner refused", false)
		return nil
	}
	var res struct {
		Job jobMsg `json:"job"`
	}
	if err := json.Unmarshal(l.Result, &res); err != nil {
		return err
	}
	t, h, _, err := r.jobObs(m, res.Job)
	if err != nil {
		return err
	}
	r.add(fmt.Sprintf("ELogin %d %d %d", op.Cid, op.Addr, w.jobId(res.Job.JobID)), "GO ("+t+") None", "login-job", "login: "+h, false)
	return nil
}

func (r *Run) templateEvent(t *tplInfo, auto bool) {
	ch := "["
	for i, c := range t.copy.OtherChains {
		if i > 0 {
			ch += "; "
		}
		ch += r.w.chainTerm(c)
	}
	ch += "]"
	r.add(fmt.Sprintf("ETemplate %d %d %d %s %s %s", t.class, t.copy.Timestamp, r.w.extraId(t.copy.NonceExtra), ch, t.copy.Difficulty.String(), t.mindiff.String()),
		"GO ONone None", "template",
		fmt.Sprintf("template %d (content %d) height %d difficulty %s, SendJob called with minimum difficulty %s", t.num, t.class, t.copy.Height,
			t.copy.Difficulty.String(), t.mindiff.String()), auto)
}

func (r *Run) template() error {
	w := r.w
	if r.anyPending(-1) && !r.multi {
		return errPruned
	}
	for _, m := range w.miners {
		if len(m.pendK) >= config.STRATUM_JOBS_HISTORY {
			return errPruned // the order of more critical sections than the job list holds cannot be read back
		}
	}
	for _, m := range w.miners {
		m.hold()
	}
	n0 := len(w.tpls)
	w.bc.NewStratumJob(true)
	t := w.registerTemplate()
	if t.num <= n0 {
		return fmt.Errorf("NewStratumJob did not announce a new template")
	}
	for _, m := range w.miners {
		if m.alive {
			m.pendK = append(m.pendK, t.num)
		}
	}
	r.pendingTpl = t.num
	r.templateEvent(t, false)
	return nil
}

func (r *Run) notify(op Op) error {
	w := r.w
	m := w.miners[op.Cid]
	if m == nil || !m.alive || !m.pending() {
		return errPruned
	}
	n := len(m.pendK)
	m.unhold()
	got := map[string]jobMsg{}
	for i := 0; i < n; i++ {
		j, ok := m.waitJob(waitT)
		if !ok {
			return errDisturbed
		}
		got[j.JobID] = j
	}
	// the order in which the queued critical sections ran: the connection's own job list
	var held []string
	m.conn.View(func(c *stratumsrv.ConnData) error {
		for _, j := range c.Jobs {
			held = append(held, j.JobID)
		}
		return nil
	})
	var order []jobMsg
	for _, id := range held {
		if j, ok := got[id]; ok {
			order = append(order, j)
			delete(got, id)
		}
	}
	if len(order) != n {
		return fmt.Errorf("miner %d was sent %d jobs, %d of them are in the connection's job list %v", m.cid, n, len(order), held)
	}
	pend := append([]int{}, m.pendK...)
	m.pendK = nil
	for _, j := range order {
		t, h, mb, err := r.jobObs(m, j)
		if err != nil {
			return err
		}
		// which SendJob call made this job: the one whose template has the job's content and timestamp
		cls, _ := w.ownOf(mb)
		ki := -1
		for i, k := range pend {
			if ti := w.tpls[k-1]; ti.class == cls && ti.copy.Timestamp == mb.Timestamp {
				ki = i
				break
			}
		}
		if ki < 0 {
			for i, k := range pend {
				if w.tpls[k-1].class == cls {
					ki = i
					break
				}
			}
		}
		if ki < 0 {
			ki = 0 // a job that matches no queued broadcast: the model will disagree
		}
		k := pend[ki]
		pend = append(pend[:ki], pend[ki+1:]...)
		r.add(fmt.Sprintf("ENotify %d %d %d %d", op.Cid, k, w.extraId(mb.NonceExtra), w.jobId(j.JobID)),
			"GO ("+t+") None", "notify-job", fmt.Sprintf("notify (SendJob call %d): %s", k, h), false)
	}
	return nil
}

func (r *Run) disconnect(op Op) error {
	m := r.w.miners[op.Cid]
	if m == nil || !m.alive {
		return errPruned
	}
	r.w.drop(m)
	r.add(fmt.Sprintf("EDisconnect %d", op.Cid), "GO ONone None", "disconnect", fmt.Sprintf("miner %d disconnects", op.Cid), false)
	return nil
}

// blobTime computes the timestamp a merge-mining blob gets (Op.Ts).
func (r *Run) blobTime(ts string, sent block.MiningBlob, tpl *tplInfo) (uint64, error) {
	const period = uint64(config.SEEDHASH_DURATION) * 1000
	switch {
	case ts == "prev":
		return sent.Timestamp/period*period - 1, nil
	case strings.HasPrefix(ts, "prev-"):
		d, err := strconv.ParseUint(ts[5:], 10, 64)
		if err != nil {
			return 0, fmt.Errorf("bad timestamp rule %q", ts)
		}
		return sent.Timestamp/period*period - 1 - d, nil
	case ts == "next":
		return (sent.Timestamp/period + 1) * period, nil
	case strings.HasPrefix(ts, "par+"):
		d, err := strconv.ParseUint(ts[4:], 10, 64)
		if err != nil {
			return 0, fmt.Errorf("bad timestamp rule %q", ts)
		}
		if tpl == nil {
			return sent.Timestamp + d, nil // a job whose template the harness does not know: relative to the job itself
		}
		var pts uint64
		err = r.w.db.View(func(txn adb.Txn) error {
			pb, err := r.w.bc.GetBlock(txn, tpl.copy.PrevHash())
			if err != nil {
				return err
			}
			pts = pb.Timestamp
			return nil
		})
		return pts + d, err
	case strings.HasPrefix(ts, "now-"):
		d, err := strconv.ParseUint(ts[4:], 10, 64)
		if err != nil {
			return 0, fmt.Errorf("bad timestamp rule %q", ts)
		}
		return util.Time() - d, nil
	}
	return 0, fmt.Errorf("bad timestamp rule %q", ts)
}

// mergeBlob builds the merge-mining blob a masterchain node would submit for the job whose sent blob is `sent`.
// The second result is the blob as constructed (nil when the bytes are not a blob by construction: garbage, or more
// chains than MAX_MERGE_MINED_CHAINS): what the model is told does not depend on the decoder under test.
func (r *Run) mergeBlob(shape string, sent block.MiningBlob, salt byte, ts string, tpl *tplInfo) ([]byte, *block.MiningBlob, error) {
	own := block.HashingID{NetworkID: config.NETWORK_ID}
	for _, c := range sent.Chains {
		if c.NetworkID == config.NETWORK_ID {
			own = c
		}
	}
	var fh [32]byte
	fh[0], fh[1] = 0xf0, salt
	hi := block.HashingID{NetworkID: config.NETWORK_ID + 7, Hash: fh}
	lo := block.HashingID{NetworkID: config.NETWORK_ID - 1, Hash: fh} // 0 on unittest: refused by setMiningBlob ("not sorted")
	mb := block.MiningBlob{Timestamp: sent.Timestamp + uint64(salt%3), NonceExtra: sent.NonceExtra, Nonce: 77}
	if ts != "" {
		t, err := r.blobTime(ts, sent, tpl)
		if err != nil {
			return nil, nil, err
		}
		mb.Timestamp = t
	}
	mb.NonceExtra[0] ^= salt
	switch shape {
	case "own":
		mb.Chains = []block.HashingID{own}
	case "own+f":
		mb.Chains = []block.HashingID{own, hi}
	case "f+own":
		mb.Chains = []block.HashingID{lo, own}
	case "ownown":
		mb.Chains = []block.HashingID{own, own}
	case "own+15f", "own+16f":
		// the largest chain list a blob may carry (this chain and MAX_MERGE_MINED_CHAINS-1 others), and one more
		n := config.MAX_MERGE_MINED_CHAINS - 1
		if shape == "own+16f" {
			n++
		}
		mb.Chains = []block.HashingID{own}
		for i := 0; i < n; i++ {
			h := fh
			h[2] = byte(i)
			mb.Chains = append(mb.Chains, block.HashingID{NetworkID: config.NETWORK_ID + 7 + uint64(i), Hash: h})
		}
	case "garbage":
		return []byte{1, 2, 3, salt}, nil, nil
	}
	if len(mb.Chains) == 0 || len(mb.Chains) > config.MAX_MERGE_MINED_CHAINS {
		return mb.Serialize(), nil, nil
	}
	return mb.Serialize(), &mb, nil
}

func classifyError(msg string) string {
	switch {
	case strings.HasPrefix(msg, "stale job"):
		return "unknown-job"
	case strings.HasPrefix(msg, "malformed job"), strings.HasPrefix(msg, "failed to unmarshal json"):
		return "malformed"
	case strings.HasPrefix(msg, "failed to deserialize mining blob"), strings.HasPrefix(msg, "failed to set mining blob"),
		strings.HasPrefix(msg, "masterchain node cannot accept"):
		return "blob-refused"
	case strings.HasPrefix(msg, "invalid block: block does not match minimum difficulty"):
		return "low-diff"
	case strings.HasPrefix(msg, "invalid block:"):
		return "chain-refused"
	}
	return "other-error"
}

// pickJob chooses among the jobs the server still holds for the connection (Op.Pick).
func pickJob(m *Miner, pick string) (sentJob, bool) {
	n := len(m.sent)
	lo := n - config.STRATUM_JOBS_HISTORY
	if lo < 0 {
		lo = 0
	}
	best := -1
	for i := lo; i < n; i++ {
		switch {
		case best < 0:
			best = i
		case pick == "low" && m.sent[i].Height <= m.sent[best].Height:
			best = i
		case pick == "high" && m.sent[i].Height >= m.sent[best].Height:
			best = i
		}
	}
	if best < 0 {
		return sentJob{}, false
	}
	return m.sent[best], true
}

func (r *Run) submit(op Op) error {
	w := r.w
	m := w.miners[op.Cid]
	if m == nil || !m.alive || m.pending() {
		return errPruned
	}
	// which job
	var jobid string
	var sj sentJob
	own := false
	switch {
	case op.Pick != "":
		var ok bool
		if sj, ok = pickJob(m, op.Pick); !ok {
			return errPruned
		}
		jobid, own = sj.JobID, true
	case op.Sel >= 0:
		if op.Sel >= len(m.sent) {
			return errPruned
		}
		sj = m.sent[len(m.sent)-1-op.Sel]
		jobid, own = sj.JobID, true
	case op.Sel == -1:
		jobid = "nobodysjob"
	default:
		for _, o := range w.miners {
			if o.cid != m.cid && len(o.sent) > 0 {
				jobid = o.sent[len(o.sent)-1].JobID
			}
		}
		if jobid == "" {
			return errPruned
		}
	}
	sentRaw, jobTpl := sj.Blob, sj.Tpl
	// the automatic template after a block on top of the chain needs every other connection without a pending
	// notification (two queued SendJob goroutines on one connection have no order the script could name); the
	// scenario scripts read the order back instead
	if ti := w.classInfo(jobTpl); ti != nil && ti.copy.Height == w.topHeight()+1 && r.anyPending(m.cid) {
		if !r.multi {
			return errPruned
		}
		for _, o := range w.miners {
			if o.alive && o.cid != m.cid && len(o.pendK) >= config.STRATUM_JOBS_HISTORY {
				return errPruned
			}
		}
	}
	var sentMb block.MiningBlob
	if sentRaw != nil {
		sentMb.Deserialize(sentRaw)
	}
	params := map[string]any{"id": "x", "job_id": jobid, "result": ""}
	if op.Extra != "" {
		params["nonce_extra"] = op.Extra
	}
	var mergeRaw []byte
	var mergeBuilt *block.MiningBlob
	if op.Merge != "" {
		var err error
		mergeRaw, mergeBuilt, err = r.mergeBlob(op.Merge, sentMb, byte(len(r.steps)+1), op.Ts, w.classInfo(jobTpl))
		if err != nil {
			return err
		}
		params["blob"] = hex.EncodeToString(mergeRaw)
	}
	xb, _ := hex.DecodeString(op.Extra)
	mergeTerm := "MNone"
	var mergeMb block.MiningBlob
	if len(mergeRaw) > 0 {
		if mergeBuilt == nil {
			mergeTerm = "MBad"
		} else {
			mergeMb = *mergeBuilt
			mergeTerm = "(MBlob " + w.blobTerm(mergeMb) + ")"
		}
	}

	// the blob the miner hashes: the blob it was sent or the merge-mining blob it submits, with its extra nonce
	nonceText := op.Nonce
	nb, nerr := hex.DecodeString(nonceText)
	powTerm, powHuman := "None", ""
	meets := false
	if own && sentRaw != nil && mergeTerm != "MBad" && nerr == nil && len(nb) >= 4 {
		base := sentMb
		if mergeTerm != "MNone" {
			base = mergeMb
		}
		if len(xb) == 16 {
			base.NonceExtra = [16]byte(xb)
		}
		base.Nonce = binary.LittleEndian.Uint32(nb)
		dAdv := util.ByteTargetToDiff(sj.Target)
		if !trivialDiff(dAdv) {
			// proof of work is real: the consensus function, keyed with the seed of the blob that is hashed
			var val [16]byte
			if op.Mine != "" {
				var alt *[32]byte
				if js := sentMb.GetSeed(); js != base.GetSeed() {
					alt = &js
				}
				base.Nonce, val = mine(base, dAdv, op.Mine, alt)
				nb = make([]byte, 4)
				binary.LittleEndian.PutUint32(nb, base.Nonce)
				nonceText = hex.EncodeToString(nb)
			} else {
				val = powValue(base.GetSeed(), base)
			}
			v := valNum(val)
			meets = block.ValidPowHash(val, dAdv)
			powTerm = fmt.Sprintf("(Some (mkpow %s %d %s))", w.blobTerm(base), block.GetSeedhashId(base.Timestamp), v)
			powHuman = fmt.Sprintf(" [the miner hashed timestamp %d nonce %d under seed period %d: value %s, meets the advertised target: %v]",
				base.Timestamp, base.Nonce, block.GetSeedhashId(base.Timestamp), v, block.ValidPowHash(val, dAdv))
		}
	}
	params["nonce"] = nonceText

	// event term
	nonceTerm := "NBadHex"
	if nerr == nil {
		var v uint32
		if len(nb) >= 4 {
			v = binary.LittleEndian.Uint32(nb)
		}
		nonceTerm = fmt.Sprintf("(NBytes %d %d)", len(nb), v)
	}
	extraTerm := "XNone"
	if len(xb) > 0 {
		if len(xb) == 16 {
			extraTerm = fmt.Sprintf("(XBytes 16 %d)", w.extraId([16]byte(xb)))
		} else {
			extraTerm = fmt.Sprintf("(XBytes %d 0)", len(xb))
		}
	}
	ev := fmt.Sprintf("ESubmit %d %d %s %s %s", op.Cid, w.jobId(jobid), nonceTerm, extraTerm, mergeTerm)

	// hold the others: a found block makes the node send a new template to everybody
	var spec []*Miner
	for _, o := range w.miners {
		if o.alive && o.cid != m.cid && !o.held {
			o.hold()
			spec = append(spec, o)
		}
	}
	before := w.topHash()
	ntpl := len(w.tpls)
	m.nextId++
	if err := m.send(map[string]any{"jsonrpc": "2.0", "id": m.nextId, "method": "submit", "params": params}); err != nil {
		// the handler died while reading (panic) or closed the connection
	}
	l, got := m.waitReplyOrDone(waitT)
	kind, obs, human := "", "", ""
	dead := false
	switch {
	case !got:
		<-m.done
		if m.panicv != nil {
			kind, obs, human = "panic", "GO OPanic "+powTerm, fmt.Sprintf("handler goroutine panicked: %v", m.panicv)
		} else {
			return errDisturbed
		}
		dead = true
	case l.Error != nil:
		kind = classifyError(l.Error.Message)
		switch kind {
		case "unknown-job":
			obs = "GO OUnknownJob " + powTerm
		case "malformed":
			obs, dead = "GO OMalformed "+powTerm, true
		case "blob-refused":
			obs, dead = "GO OBlobRefused "+powTerm, true
		case "low-diff":
			obs = "GO ORejectedLowDiff " + powTerm
		case "chain-refused":
			obs = "GRefusedByChain " + powTerm
		default:
			return fmt.Errorf("unclassified error reply %q", l.Error.Message)
		}
		human = "submit answered: " + kind
	default:
		var res struct {
			Status string `json:"status"`
			Blocks []struct {
				Hash      string `json:"hash"`
				NetworkID uint64 `json:"network_id"`
			} `json:"blocks"`
		}
		if err := json.Unmarshal(l.Result, &res); err != nil {
			return err
		}
		found := false
		for _, b := range res.Blocks {
			if b.NetworkID != config.NETWORK_ID {
				continue
			}
			hb, _ := hex.DecodeString(b.Hash)
			var bl *block.Block
			w.db.View(func(txn adb.Txn) error {
				var err error
				bl, err = w.bc.GetBlock(txn, util.Hash(hb))
				return err
			})
			if bl == nil {
				return fmt.Errorf("found block %s is not in the store", b.Hash)
			}
			ai := -1
			for i, a := range w.addrs {
				if a == bl.Recipient {
					ai = i
				}
			}
			if ai < 0 {
				ai = 99
			}
			jmb := bl.Commitment().MiningBlob()
			tn, _ := w.ownOf(jmb)
			kind = "found"
			obs = fmt.Sprintf("GO (OFound %d %s) %s", ai, w.blobTerm(jmb), powTerm)
			human = fmt.Sprintf("block found at height %d difficulty %s timestamp %d with content %d paying address %d (submitter logged in with address %d)",
				bl.Height, bl.Difficulty.String(), bl.Timestamp, tn, ai, m.addrIdx)
			found = true
		}
		if !found {
			return fmt.Errorf("OK reply without a block of this chain")
		}
	}
	r.add(ev, obs, kind, fmt.Sprintf("miner %d submits job %s (height %d): %s%s", m.cid, jobid, sj.Height, human, powHuman), false)
	if meets && kind != "found" && kind != "chain-refused" {
		r.validRejected = true
	}
	if dead {
		for _, o := range spec {
			o.unhold()
		}
		w.drop(m)
		return nil
	}
	if after := w.topHash(); after != before {
		j, ok := m.waitJob(waitT)
		if !ok {
			return errDisturbed
		}
		t := w.registerTemplate()
		if t.num <= ntpl {
			return fmt.Errorf("a block on top of the chain was not followed by a new template")
		}
		r.pendingTpl = t.num
		for _, o := range w.miners {
			if o.alive && o.cid != m.cid {
				o.pendK = append(o.pendK, t.num)
			}
		}
		r.templateEvent(t, true)
		jt, h, mb, err := r.jobObs(m, j)
		if err != nil {
			return err
		}
		r.add(fmt.Sprintf("ENotify %d %d %d %d", m.cid, t.num, w.extraId(mb.NonceExtra), w.jobId(j.JobID)),
			"GO ("+jt+") None", "notify-job", fmt.Sprintf("notify (automatic, SendJob call %d): %s", t.num, h), true)
	} else {
		for _, o := range spec {
			o.unhold()
		}
	}
	return nil
}

func boolTerm(b bool) string {
	if b {
		return "true"
	}
	return "false"
}

func (r *Run) exec(op Op) error {
	switch op.Kind {
	case 'L':
		return r.login(op)
	case 'T':
		return r.template()
	case 'N':
		return r.notify(op)
	case 'S':
		return r.submit(op)
	case 'D':
		return r.disconnect(op)
	}
	return fmt.Errorf("bad op")
}

// finish flushes pending notifications (not recorded: the script ends before them) and closes everything.
func (r *Run) finish() {
	for _, m := range r.w.miners {
		if m.alive && m.held {
			m.unhold()
			for range m.pendK {
				m.waitJob(waitT)
			}
		}
	}
	r.w.closeAll()
}
