package main

// Family c15mm (property C15 on the MASTERCHAIN build = default tags = mainnet constants): the node merge-mines other
// chains. Scripted stand-ins for those chains' stratum servers give it jobs (hashing id, difficulty); its own stratum
// server, started on loopback TCP, hands jobs to concurrently connected miners; a job commits to this chain's hashing id
// for a block paying the miner AND to the other chains' hashing ids, at the easiest of the difficulties involved (which
// is what makes a share minable here: the stand-ins advertise difficulties 1..3). The property is decided on what the
// miners and the stand-ins see:
//   own        the job's blob names this network once, with the hashing id of the advertised template for THIS miner's
//              address (computed with the repository's block code from a copy of the template), in a strictly ordered list
//   accepted   a nonce that solves the job's blob at the job's target, submitted while the job is among the miner's last
//              STRATUM_JOBS_HISTORY jobs, is answered OK - in particular never "does not match minimum difficulty"
//   judged     what the node forwards to a merge-mined chain for that share is the blob the miner was given, with the nonce
// There is no model output to compare with (the job bookkeeping model of Model/Stratum.v covers the single-chain server).

import (
	"bufio"
	"crypto/rand"
	"encoding/binary"
	"encoding/hex"
	"encoding/json"
	"fmt"
	"net"
	"os"
	"runtime"
	"sort"
	"strings"
	"sync"
	"time"

	"verifharness/coqgen"
	"verifharness/hutil"
	"verifharness/memdb"

	"github.com/virel-project/go-randomvirel"
	"github.com/virel-project/virel-blockchain/v3/address"
	"github.com/virel-project/virel-blockchain/v3/block"
	"github.com/virel-project/virel-blockchain/v3/blockchain"
	"github.com/virel-project/virel-blockchain/v3/config"
	"github.com/virel-project/virel-blockchain/v3/p2p"
	"github.com/virel-project/virel-blockchain/v3/stratum"
	"github.com/virel-project/virel-blockchain/v3/util"
	"github.com/virel-project/virel-blockchain/v3/util/uint128"
)

// ---------------------------------------------------------------- a merge-mined chain's stratum server (stand-in)

type mmForward struct {
	blob  []byte
	nonce string
	jobID string
	at    time.Time
}

type mmSlave struct {
	l     net.Listener
	netID uint64

	mu       sync.Mutex
	hid      block.HashingID
	diff     uint64
	jobNo    int
	answer   string // ok | stale | garbage | close
	forwards []mmForward
	conns    []net.Conn
}

func targetOf(diff uint64) []byte {
	// eight bytes, little endian, as util.GetTargetBytes writes them for a 64-bit difficulty
	return util.GetTargetBytes(uint128.From64(diff))
}

func (s *mmSlave) jobLocked() stratum.Job {
	blob := block.MiningBlob{Timestamp: uint64(time.Now().UnixMilli()), Chains: []block.HashingID{s.hid}}
	return stratum.Job{Algo: "rx/vrl", Blob: blob.Serialize(), JobID: fmt.Sprintf("s%x-%d", s.netID&0xffff, s.jobNo),
		Target: targetOf(s.diff), SeedHash: make([]byte, 32), Height: 7}
}

func startMmSlave(netID, diff uint64) *mmSlave {
	l, err := net.Listen("tcp", "127.0.0.1:0")
	if err != nil {
		panic(err)
	}
	s := &mmSlave{l: l, netID: netID, diff: diff, answer: "ok", hid: block.HashingID{NetworkID: netID}}
	rand.Read(s.hid.Hash[:])
	go func() {
		for {
			c, err := l.Accept()
			if err != nil {
				return
			}
			s.mu.Lock()
			s.conns = append(s.conns, c)
			s.mu.Unlock()
			go s.serve(c)
		}
	}()
	return s
}

func (s *mmSlave) serve(c net.Conn) {
	defer c.Close()
	rd := bufio.NewReaderSize(c, 1<<20)
	var wmu sync.Mutex
	writeLine := func(v any) {
		b, _ := json.Marshal(v)
		wmu.Lock()
		c.SetWriteDeadline(time.Now().Add(5 * time.Second))
		c.Write(append(b, '\n'))
		wmu.Unlock()
	}
	for {
		line, err := rd.ReadBytes('\n')
		if err != nil {
			return
		}
		var req struct {
			Id     any             `json:"id"`
			Method string          `json:"method"`
			Params json.RawMessage `json:"params"`
		}
		if json.Unmarshal(line, &req) != nil {
			return
		}
		switch req.Method {
		case "login":
			s.mu.Lock()
			j := s.jobLocked()
			s.mu.Unlock()
			writeLine(map[string]any{"jsonrpc": "2.0", "id": req.Id, "result": stratum.LoginResponse{ID: j.JobID, Job: j,
				Extensions: []string{"algo", "keepalive"}, Status: "OK"}})
		case "submit":
			var sr stratum.SubmitRequest
			json.Unmarshal(req.Params, &sr)
			if os.Getenv("VERIF_C15MM_DEBUG") != "" {
				fmt.Fprintf(os.Stderr, "%s slave %x submit id=%v answer=%s\n", time.Now().Format("15:04:05.000"), s.netID&0xffff, req.Id, s.answer)
			}
			s.mu.Lock()
			s.forwards = append(s.forwards, mmForward{blob: append([]byte{}, sr.Blob...), nonce: sr.Nonce, jobID: sr.JobID, at: time.Now()})
			ans := s.answer
			s.mu.Unlock()
			switch ans {
			case "ok":
				writeLine(map[string]any{"jsonrpc": "2.0", "id": req.Id, "result": stratum.SubmitResponse{Status: "OK",
					Blocks: []stratum.FoundBlockInfo{{Hash: make([]byte, 32), Height: 7, NetworkID: s.netID, Difficulty: uint128.From64(s.diff), Ok: true}}}})
			case "stale":
				writeLine(map[string]any{"jsonrpc": "2.0", "id": req.Id, "error": map[string]any{"code": -1, "message": "stale job"}})
			case "garbage":
				writeLine(map[string]any{"jsonrpc": "2.0", "id": req.Id, "result": map[string]any{"status": "OK", "blocks": []int{}}})
			case "close":
				return
			}
		}
	}
}

// newJob: the chain has a new block to mine (new hashing id), possibly at another difficulty; pushed to the connected node
func (s *mmSlave) newJob(diff uint64) {
	s.mu.Lock()
	s.jobNo++
	s.diff = diff
	rand.Read(s.hid.Hash[:])
	j := s.jobLocked()
	conns := append([]net.Conn{}, s.conns...)
	s.mu.Unlock()
	b, _ := json.Marshal(map[string]any{"jsonrpc": "2.0", "method": "job", "params": j})
	for _, c := range conns {
		c.SetWriteDeadline(time.Now().Add(5 * time.Second))
		c.Write(append(b, '\n'))
	}
}

// ---------------------------------------------------------------- miners

type mmJob struct {
	job   stratum.Job
	blob  block.MiningBlob
	at    time.Time
	index int // k-th job this miner received
}

type mmShare struct {
	Miner, JobIndex, JobsAtSubmit int
	JobDiff                       uint64 // difficulty of the job's own target
	NowDiffBefore, NowDiffAfter   uint64 // easiest difficulty recorded by the node for any chain just before / after the submit
	Solves                        bool   // the nonce meets the job's target under the job's seed (computed here)
	MeetsNow                      bool   // ... and also the easiest difficulty the node recorded at submit time
	Reply                         string // OK | error text
	Pow                           [16]byte
	Expected                      []byte // the job's blob with this nonce: what may be judged / forwarded
	OwnOK, SortedOK               bool
	Note                          string
	replied                       time.Time
}

type mmMiner struct {
	idx   int
	addr  address.Address
	conn  net.Conn
	mu    sync.Mutex
	jobs  []mmJob
	reply chan json.RawMessage
	errs  chan string
	dead  chan struct{}
}

type mmMsg struct {
	Id     any             `json:"id"`
	Method string          `json:"method"`
	Params json.RawMessage `json:"params"`
	Result json.RawMessage `json:"result"`
	Error  *struct {
		Code    int    `json:"code"`
		Message string `json:"message"`
	} `json:"error"`
}

func (m *mmMiner) addJob(j stratum.Job) {
	mb := block.MiningBlob{}
	if err := mb.Deserialize(j.Blob); err != nil {
		return
	}
	m.mu.Lock()
	m.jobs = append(m.jobs, mmJob{job: j, blob: mb, at: time.Now(), index: len(m.jobs)})
	m.mu.Unlock()
}

func mmLogin(idx int, dest string) *mmMiner {
	m := &mmMiner{idx: idx, reply: make(chan json.RawMessage, 16), errs: make(chan string, 16), dead: make(chan struct{})}
	rand.Read(m.addr[:])
	var err error
	for i := 0; i < 100; i++ {
		m.conn, err = net.DialTimeout("tcp", dest, time.Second)
		if err == nil {
			break
		}
		time.Sleep(50 * time.Millisecond)
	}
	if err != nil {
		panic(err)
	}
	b, _ := json.Marshal(map[string]any{"id": 1, "method": "login", "params": map[string]any{"login": m.addr.String(), "pass": "x", "agent": "verif"}})
	m.conn.Write(append(b, '\n'))
	first := make(chan bool, 1)
	go func() {
		defer close(m.dead)
		rd := bufio.NewReaderSize(m.conn, 1<<20)
		got := false
		for {
			line, err := rd.ReadBytes('\n')
			if err != nil {
				if !got {
					first <- false
				}
				return
			}
			msg := &mmMsg{}
			if json.Unmarshal(line, msg) != nil {
				continue
			}
			switch {
			case msg.Method == "job":
				var j stratum.Job
				if json.Unmarshal(msg.Params, &j) == nil {
					m.addJob(j)
				}
			case msg.Method != "":
				// TX packets and the like
			case !got:
				got = true
				if msg.Error != nil {
					first <- false
					return
				}
				var lr stratum.LoginResponse
				if json.Unmarshal(msg.Result, &lr) != nil {
					first <- false
					return
				}
				m.addJob(lr.Job)
				first <- true
			case msg.Error != nil:
				m.errs <- msg.Error.Message
			default:
				m.reply <- msg.Result
			}
		}
	}()
	select {
	case ok := <-first:
		if !ok {
			return nil
		}
	case <-time.After(20 * time.Second):
		return nil
	}
	return m
}

func powOf(j stratum.Job, nonce uint32) [16]byte {
	blob := append([]byte{}, j.Blob...)
	binary.LittleEndian.PutUint32(blob[39:43], nonce)
	h := randomvirel.PowHash(randomvirel.Seed(j.SeedHash), blob)
	return [16]byte(h[16:])
}

func meets(p [16]byte, diff uint64) bool {
	if diff == 0 {
		return false
	}
	return uint128.FromBytes(p[:]).Cmp(uint128.Max.Div64(diff)) <= 0
}

// stacksOf keeps the goroutines of a stack dump that mention one of the given functions
func stacksOf(dump string, keys []string) string {
	var out []string
	for _, g := range strings.Split(dump, "\n\n") {
		for _, k := range keys {
			if strings.Contains(g, k) {
				if len(g) > 6000 {
					g = g[:6000]
				}
				out = append(out, g)
				break
			}
		}
	}
	return strings.Join(out, "\n\n")
}

// ---------------------------------------------------------------- one scenario

type mmScenario struct {
	Name    string
	Slaves  []uint64 // initial difficulties of the merge-mined chains
	Miners  int
	Rounds  int
	Raise   bool // chains raise their difficulty while miners hold jobs issued at the easier one
	Answers []string
}

func (w *mmWorld) nowDiff() uint64 {
	// the easiest difficulty the node has recorded for any merge-mined chain (0 = none)
	var d uint64
	w.bc.MergesMut.RLock()
	for _, v := range w.bc.Merges {
		v.RLock()
		if v.Difficulty != 0 && (d == 0 || v.Difficulty < d) {
			d = v.Difficulty
		}
		v.RUnlock()
	}
	w.bc.MergesMut.RUnlock()
	return d
}

type mmWorld struct {
	bc     *blockchain.Blockchain
	slaves []*mmSlave
	tplMu  sync.Mutex
	tpls   []block.Block
}

func (w *mmWorld) snapTemplate() {
	w.bc.Stratum.RLock()
	p := w.bc.Stratum.LastBlock
	var c block.Block
	if p != nil {
		c = *p
		c.OtherChains = append([]block.HashingID{}, p.OtherChains...)
	}
	w.bc.Stratum.RUnlock()
	if p == nil {
		return
	}
	w.tplMu.Lock()
	w.tpls = append(w.tpls, c)
	w.tplMu.Unlock()
}

// ownIDs: the hashing ids the registered templates have for the given recipient
func (w *mmWorld) ownIDs(a address.Address) map[[32]byte]bool {
	out := map[[32]byte]bool{}
	w.tplMu.Lock()
	defer w.tplMu.Unlock()
	for _, t := range w.tpls {
		b := t
		b.Recipient = a
		out[b.Commitment().HashingID().Hash] = true
	}
	return out
}

func runMmScenario(sc mmScenario, rng *hutil.Rng, port uint16) ([]mmShare, map[string]int, []string) {
	stats := map[string]int{}
	var notes []string
	dir, err := os.MkdirTemp(os.Getenv("VERIF_SCRATCH"), "verif-c15mm-")
	if err != nil {
		panic(err)
	}
	defer os.RemoveAll(dir)
	db := &serialDB{DB: memdb.New()}
	bc := blockchain.New(dir, db)
	bc.P2P = &p2p.P2P{Connections: map[string]*p2p.Connection{}}
	w := &mmWorld{bc: bc}
	go bc.StartStratum("127.0.0.1", port)
	dest := fmt.Sprintf("127.0.0.1:%d", port)
	// network ids below and above this chain's
	nid := uint64(config.NETWORK_ID)
	ids := []uint64{0x11, nid + 5, 0x5af15cf1542ba49a, ^uint64(0) - 3, 0x22, nid - 9, 0xfeed00000000beef}
	for i, d := range sc.Slaves {
		s := startMmSlave(ids[i%len(ids)]+uint64(i/len(ids)), d)
		w.slaves = append(w.slaves, s)
		go bc.AddStratum(s.l.Addr().String(), "mergewallet", false)
	}
	defer func() {
		for _, s := range w.slaves {
			s.l.Close()
			s.mu.Lock()
			for _, c := range s.conns {
				c.Close()
			}
			s.mu.Unlock()
		}
	}()
	// wait until the advertised template carries every chain
	for t0 := time.Now(); ; time.Sleep(50 * time.Millisecond) {
		bc.NewStratumJob(true)
		bc.Stratum.RLock()
		ready := bc.Stratum.LastBlock != nil && len(bc.Stratum.LastBlock.OtherChains) == len(sc.Slaves)
		bc.Stratum.RUnlock()
		if ready {
			break
		}
		if time.Since(t0) > 30*time.Second {
			panic("c15mm: the node never picked up the merge-mined chains' jobs")
		}
	}
	w.snapTemplate()
	var miners []*mmMiner
	for i := 0; i < sc.Miners; i++ {
		m := mmLogin(i, dest)
		if m == nil {
			panic("c15mm: login refused")
		}
		miners = append(miners, m)
	}
	var shares []mmShare
	var shMu sync.Mutex
	stop := make(chan struct{})
	var wg sync.WaitGroup
	for _, m := range miners {
		wg.Add(1)
		go func(m *mmMiner) {
			defer wg.Done()
			r := hutil.NewRng(uint64(7000 + m.idx))
			id := 10
			for {
				select {
				case <-stop:
					return
				case <-m.dead:
					return
				default:
				}
				m.mu.Lock()
				n := len(m.jobs)
				var j mmJob
				if n > 0 {
					back := 0
					if n > 1 && r.Intn(3) == 0 {
						back = 1 + r.Intn(min(n-1, config.STRATUM_JOBS_HISTORY-1))
					}
					j = m.jobs[n-1-back]
				}
				m.mu.Unlock()
				if n == 0 {
					time.Sleep(10 * time.Millisecond)
					continue
				}
				jd := util.ByteTargetToDiff(j.job.Target).Lo
				// the weakest nonce that still solves the job: meets the job's target and, if possible, nothing harder
				var nonce uint32
				var pw [16]byte
				found := false
				for try := 0; try < 12; try++ {
					nn := uint32(r.U64())
					p := powOf(j.job, nn)
					if !meets(p, jd) {
						continue
					}
					if !found || !meets(p, jd+1) {
						nonce, pw, found = nn, p, true
					}
					if !meets(p, jd+1) {
						break
					}
				}
				if !found {
					continue
				}
				nb := make([]byte, 4)
				binary.LittleEndian.PutUint32(nb, nonce)
				exp := append([]byte{}, j.job.Blob...)
				copy(exp[39:43], nb)
				sh := mmShare{Miner: m.idx, JobIndex: j.index, JobDiff: jd, Solves: true, Pow: pw, Expected: exp}
				sh.NowDiffBefore = w.nowDiff()
				m.mu.Lock()
				sh.JobsAtSubmit = len(m.jobs)
				m.mu.Unlock()
				id++
				b, _ := json.Marshal(map[string]any{"id": id, "method": "submit", "params": map[string]any{"job_id": j.job.JobID, "nonce": hex.EncodeToString(nb),
					"result": hex.EncodeToString(pw[:])}})
				m.conn.SetWriteDeadline(time.Now().Add(5 * time.Second))
				if _, err := m.conn.Write(append(b, '\n')); err != nil {
					return
				}
				select {
				case <-m.reply:
					sh.Reply = "OK"
				case e := <-m.errs:
					sh.Reply = e
				case <-m.dead:
					sh.Reply = "connection closed by the node"
				case <-time.After(20 * time.Second):
					if os.Getenv("VERIF_C15MM_DEBUG") != "" {
						fmt.Fprintf(os.Stderr, "%s miner %d NO REPLY\n", time.Now().Format("15:04:05.000"), m.idx)
					}
					sh.Reply = "no reply in 20 s"
					buf := make([]byte, 1<<20)
					buf = buf[:runtime.Stack(buf, true)]
					sh.Note = stacksOf(string(buf), []string{"blockFound", "submitMergeMinedBlock", "SendWork", "AddStratum", "scanJobs"})
				}
				sh.replied = time.Now()
				sh.NowDiffAfter = w.nowDiff()
				sh.MeetsNow = sh.NowDiffBefore != 0 && meets(pw, sh.NowDiffBefore) && sh.NowDiffAfter != 0 && meets(pw, sh.NowDiffAfter)
				shMu.Lock()
				shares = append(shares, sh)
				shMu.Unlock()
				time.Sleep(time.Duration(5+r.Intn(25)) * time.Millisecond)
			}
		}(m)
	}
	// the driver: broadcasts, new jobs of the merge-mined chains, answers of the chains to forwarded solutions
	for round := 0; round < sc.Rounds; round++ {
		switch k := rng.Intn(6); {
		case k <= 1:
			bc.NewStratumJob(true)
			stats["forced-broadcasts"]++
		case k == 2:
			s := w.slaves[rng.Intn(len(w.slaves))]
			s.mu.Lock()
			d := s.diff
			s.mu.Unlock()
			s.newJob(d)
			stats["chain-new-job-same-difficulty"]++
		case k == 3 && sc.Raise:
			// every chain raises its difficulty; the node hears it at once, its miners only with the next job it sends
			for _, s := range w.slaves {
				s.mu.Lock()
				d := s.diff
				s.mu.Unlock()
				s.newJob(d + 1 + uint64(rng.Intn(2)))
			}
			stats["all-chains-raise-difficulty"]++
		case k == 4:
			s := w.slaves[rng.Intn(len(w.slaves))]
			s.newJob(1 + uint64(rng.Intn(2)))
			stats["chain-new-job-low-difficulty"]++
		default:
			s := w.slaves[rng.Intn(len(w.slaves))]
			s.mu.Lock()
			s.answer = sc.Answers[rng.Intn(len(sc.Answers))]
			s.mu.Unlock()
			stats["chain-answer-changed"]++
		}
		time.Sleep(time.Duration(40+rng.Intn(160)) * time.Millisecond)
		w.snapTemplate()
	}
	close(stop)
	wg.Wait()
	w.snapTemplate()
	for _, m := range miners {
		m.conn.Close()
	}
	// ---- evaluation of what was seen
	forwarded := map[string]int{}
	for _, s := range w.slaves {
		s.mu.Lock()
		for _, f := range s.forwards {
			forwarded[string(f.blob)]++
		}
		s.mu.Unlock()
	}
	expected := map[string]bool{}
	own := map[int]map[[32]byte]bool{}
	for _, m := range miners {
		own[m.idx] = w.ownIDs(m.addr)
	}
	for i := range shares {
		sh := &shares[i]
		expected[string(sh.Expected)] = true
		m := miners[sh.Miner]
		m.mu.Lock()
		j := m.jobs[sh.JobIndex]
		// the server appends a job to the miner's list before it writes the notification (in a goroutine of its own): the
		// jobs that reached the miner shortly after the reply were already counted by the server when it looked the job up
		for _, x := range m.jobs {
			if x.index >= sh.JobsAtSubmit && x.at.Before(sh.replied.Add(300*time.Millisecond)) {
				sh.JobsAtSubmit = x.index + 1
			}
		}
		m.mu.Unlock()
		cnt := 0
		sh.SortedOK = true
		for k, c := range j.blob.Chains {
			if c.NetworkID == config.NETWORK_ID {
				cnt++
				sh.OwnOK = own[sh.Miner][c.Hash]
				if sh.OwnOK {
					// and nobody else's
					for o, ids := range own {
						if o != sh.Miner && ids[c.Hash] {
							sh.OwnOK = false
							sh.Note = fmt.Sprintf("the job describes the block that pays miner %d", o)
						}
					}
				}
			}
			if k > 0 && j.blob.Chains[k-1].NetworkID >= c.NetworkID {
				sh.SortedOK = false
			}
		}
		if cnt != 1 {
			sh.OwnOK = false
		}
	}
	// everything the node forwarded must be a blob some miner was given (with that miner's nonce)
	var alien []string
	for b := range forwarded {
		if !expected[b] {
			alien = append(alien, fmt.Sprintf("%x", []byte(b)))
		}
	}
	sort.Strings(alien)
	for _, a := range alien {
		notes = append(notes, "forwarded to a merge-mined chain, given to no miner: "+a[:min(len(a), 160)])
	}
	stats["alien-forwards"] = len(alien)
	stats["shares"] = len(shares)
	return shares, stats, notes
}

func famC15mm(out string) {
	if !config.IS_MASTERCHAIN {
		panic("family c15mm is for the masterchain build (default tags)")
	}
	blockchain.Log.SetLogLevel(0)
	randomvirel.InitHash(4, false)
	thorough := hutil.Tier() == "thorough"
	rng := hutil.NewRng(1515)
	rounds := 14
	if thorough {
		rounds = 60
	}
	all := []string{"ok", "stale", "garbage", "close"}
	scs := []mmScenario{
		{Name: "one-chain", Slaves: []uint64{1}, Miners: 2, Rounds: rounds, Answers: []string{"ok", "stale"}},
		{Name: "three-chains", Slaves: []uint64{1, 2, 1}, Miners: 8, Rounds: rounds, Answers: all},
		{Name: "five-chains", Slaves: []uint64{2, 1, 3, 2, 1}, Miners: 6, Rounds: rounds, Answers: all},
		{Name: "three-chains-raising", Slaves: []uint64{1, 1, 1}, Miners: 6, Rounds: rounds, Raise: true, Answers: []string{"ok", "stale"}},
	}
	if thorough {
		scs = append(scs, mmScenario{Name: "seven-chains", Slaves: []uint64{1, 2, 3, 1, 2, 3, 1}, Miners: 12, Rounds: rounds, Raise: true, Answers: all},
			mmScenario{Name: "two-chains-raising", Slaves: []uint64{1, 2}, Miners: 3, Rounds: rounds, Raise: true, Answers: all})
	}
	sink := coqgen.NewSink(out, "c15mm", "c15mm_case", 400)
	allStats := map[string]map[string]int{}
	for si, sc := range scs {
		// a port below the ephemeral range (the stand-ins and the miners' sockets take ephemeral ports: a port released
		// here could be handed to one of them before the server binds it)
		var port uint16
		for try := 0; ; try++ {
			var pb [2]byte
			rand.Read(pb[:])
			port = 20000 + binary.LittleEndian.Uint16(pb[:])%10000
			l, err := net.Listen("tcp", fmt.Sprintf("127.0.0.1:%d", port))
			if err == nil {
				l.Close()
				break
			}
			if try > 200 {
				panic(err)
			}
		}
		shares, stats, notes := runMmScenario(sc, rng, port)
		allStats[sc.Name] = stats
		for _, sh := range shares {
			powRej := strings.Contains(sh.Reply, "difficulty")
			stale := !sh.MeetsNow // the node's record of the chains' difficulties has moved above this share since the job was issued
			inHist := sh.JobsAtSubmit-sh.JobIndex <= config.STRATUM_JOBS_HISTORY
			verdict := "ok"
			if !(sh.OwnOK && sh.SortedOK && (sh.Reply == "OK" || !inHist)) {
				verdict = "FAILED"
			}
			ctx := "current"
			if stale {
				ctx = "chain-difficulty-moved-since-job"
			}
			hist := "in-history"
			if !inHist {
				hist = "out-of-history"
			}
			sample := map[string]any{"scenario": sc.Name, "miner": sh.Miner, "job_index": sh.JobIndex, "jobs_at_submit": sh.JobsAtSubmit, "job_difficulty": sh.JobDiff,
				"node_easiest_difficulty_before": sh.NowDiffBefore, "node_easiest_difficulty_after": sh.NowDiffAfter, "pow": fmt.Sprintf("%x", sh.Pow), "reply": sh.Reply,
				"own_ok": sh.OwnOK, "sorted_ok": sh.SortedOK, "note": sh.Note, "blob_with_nonce": fmt.Sprintf("%x", sh.Expected)}
			sink.Add(fmt.Sprintf("CMmShare %d %d %s %s %s %s %s %s %d %d %d %s", si, len(sc.Slaves), coqgen.Bool(sh.OwnOK), coqgen.Bool(sh.SortedOK), coqgen.Bool(inHist),
				coqgen.Bool(sh.Reply == "OK"), coqgen.Bool(powRej), coqgen.Bool(stale), sh.JobDiff, sh.NowDiffBefore, sh.NowDiffAfter, uint128.FromBytes(sh.Pow[:]).String()),
				fmt.Sprintf("c15mm/%s/%s/%s/%s", sc.Name, ctx, hist, verdict), sample)
		}
		sink.Add(fmt.Sprintf("CMmForwards %d %d", si, stats["alien-forwards"]), fmt.Sprintf("c15mm/%s/forwards/alien=%d", sc.Name, stats["alien-forwards"]),
			map[string]any{"scenario": sc.Name, "notes": notes, "stats": stats})
	}
	sink.Meta["rule"] = "masterchain build: real node + real stratum server on loopback TCP, merge-mined chains played by scripted stratum servers (difficulties 1..3, new jobs, changing answers to forwarded solutions), miners on concurrent goroutines submitting the weakest nonce that solves a job among their last STRATUM_JOBS_HISTORY jobs; per share: job pays the miner (hashing id recomputed from the template for the miner's address), chain list strictly ordered, reply OK; per scenario: everything forwarded to a chain is a blob a miner was given"
	sink.Meta["stats"] = allStats
	sink.Close()
}
