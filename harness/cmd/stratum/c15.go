package main

import (
	"crypto/ed25519"
	"encoding/binary"
	"encoding/hex"
	"fmt"
	"os"
	"sort"
	"strconv"
	"strings"
	"time"

	"verifharness/coqgen"
	"verifharness/hutil"

	"github.com/virel-project/virel-blockchain/v3/address"
	"github.com/virel-project/virel-blockchain/v3/bitcrypto"
	"github.com/virel-project/virel-blockchain/v3/config"
)

func budget() int {
	b, _ := strconv.Atoi(os.Getenv("VERIF_BUDGET"))
	if b < 1 {
		b = 1
	}
	return b
}

// testAddresses returns n wallet addresses whose text form parses back (independent of C18's finding R7).
func testAddresses(n int) ([]address.Address, []string) {
	addrs := []address.Address{address.INVALID_ADDRESS}
	logins := []string{"this-is-not-a-wallet-address"}
	for i := uint64(1); len(addrs) <= n; i++ {
		seed := make([]byte, 32)
		binary.LittleEndian.PutUint64(seed, i*0x7654321)
		k := ed25519.NewKeyFromSeed(seed)
		var priv bitcrypto.Privkey
		copy(priv[:], k)
		a := address.FromPubKey(priv.Public())
		back, err := address.FromString(a.String())
		if err != nil || back.Addr != a || back.PaymentId != 0 {
			continue
		}
		addrs = append(addrs, a)
		logins = append(logins, a.String())
	}
	return addrs, logins
}

func nonceHex(v uint32) string {
	b := make([]byte, 4)
	binary.LittleEndian.PutUint32(b, v)
	return hex.EncodeToString(b)
}

type result struct {
	run   *Run
	err   error
	avail []Op
}

var theAddrs []address.Address
var theLogins []string

// runScenario executes a scenario script (overlapping broadcasts allowed) on a fresh node.
func runScenario(ops []Op) result {
	r := &Run{w: newWorld(theAddrs, theLogins), multi: true}
	var err error
	for _, op := range ops {
		if err = r.exec(op); err != nil {
			if err == errPruned && r.validRejected {
				// the script counted on a block the server refused although the share met its target: what was executed
				// is the case (the property fails in it)
				r.w.note("script stopped before %s: an earlier share that met the target sent with its job was not accepted", op.String())
				err = nil
			} else if err == errPruned {
				err = fmt.Errorf("scenario step %s cannot be executed in the state reached", op.String())
			}
			break
		}
	}
	r.finish()
	return result{run: r, err: err}
}

// runScript executes ops on a fresh node. maxMiners bounds the connections offered by avail.
func runScript(ops []Op, maxMiners int) result {
	r := &Run{w: newWorld(theAddrs, theLogins)}
	var err error
	for _, op := range ops {
		if err = r.exec(op); err != nil {
			break
		}
	}
	res := result{run: r, err: err}
	if err == nil {
		res.avail = availOps(r, maxMiners)
	}
	r.finish()
	return res
}

// availOps lists the next events of the scripted exhaustive part in the current state.
func availOps(r *Run, maxMiners int) []Op {
	w := r.w
	var ops []Op
	n := len(w.miners)
	if n < maxMiners {
		ops = append(ops, Op{Kind: 'L', Cid: n + 1, Addr: n + 1})
	}
	if !r.anyPending(-1) {
		ops = append(ops, Op{Kind: 'T'})
	}
	cids := make([]int, 0, n)
	for c := range w.miners {
		cids = append(cids, c)
	}
	sort.Ints(cids)
	for _, c := range cids {
		m := w.miners[c]
		if !m.alive {
			continue
		}
		if m.pending() {
			ops = append(ops, Op{Kind: 'N', Cid: c})
			continue
		}
		for sel := 0; sel < len(m.sent) && sel < 2; sel++ {
			ops = append(ops, Op{Kind: 'S', Cid: c, Sel: sel, Nonce: nonceHex(uint32(1000 + 17*len(r.steps) + sel))})
		}
	}
	return ops
}

func opsString(ops []Op) string {
	s := make([]string, len(ops))
	for i, o := range ops {
		s[i] = o.String()
	}
	return strings.Join(s, " ")
}

type emitter struct {
	sink        *coqgen.Sink
	pruned      int
	disturbed   int
	failed      []string
	disturbedEx []string
	kinds       map[string]int
	seen        map[string]bool
}

func (e *emitter) emit(gen string, ops []Op, res result) {
	if res.err == errPruned {
		e.pruned++
		return
	}
	if res.err == errDisturbed {
		e.disturbed++
		if len(e.disturbedEx) < 5 {
			e.disturbedEx = append(e.disturbedEx, opsString(ops))
		}
		return
	}
	if res.err != nil {
		e.failed = append(e.failed, opsString(ops)+": "+res.err.Error())
		return
	}
	key := opsString(ops)
	if e.seen[key] {
		return
	}
	e.seen[key] = true
	items := make([]string, len(res.run.steps))
	shape := ""
	human := []string{}
	ks := map[string]bool{}
	for i, s := range res.run.steps {
		items[i] = "(" + s.Event + ", " + s.Obs + ")"
		shape += s.Event[1:2]
		human = append(human, s.Human)
		ks[s.Kind] = true
		e.kinds[s.Kind]++
	}
	kl := []string{}
	for k := range ks {
		kl = append(kl, k)
	}
	sort.Strings(kl)
	class := gen + "/" + shape + "/" + strings.Join(kl, ",")
	e.sink.Add("mkcase "+coqgen.List(items), class, map[string]any{"generator": gen, "script": key, "steps": human, "notes": res.run.w.notes})
}

// witnesses: fixed scripts kept in the corpus for ever (regressions of fixed findings are reported again).
func witnesses() [][]Op {
	n := nonceHex
	return [][]Op{
		// R6: A logs in, B logs in, A submits the nonce that solves the blob A was sent
		{{Kind: 'T'}, {Kind: 'L', Cid: 1, Addr: 1}, {Kind: 'L', Cid: 2, Addr: 2}, {Kind: 'S', Cid: 1, Sel: 0, Nonce: n(7)}},
		// R6 through SendJob: both get a job of the same template, the first one notified submits
		{{Kind: 'T'}, {Kind: 'L', Cid: 1, Addr: 1}, {Kind: 'L', Cid: 2, Addr: 2}, {Kind: 'N', Cid: 0}, {Kind: 'T'}, {Kind: 'N', Cid: 1}, {Kind: 'N', Cid: 2}, {Kind: 'S', Cid: 1, Sel: 0, Nonce: n(8)}},
		{{Kind: 'T'}, {Kind: 'L', Cid: 1, Addr: 1}, {Kind: 'L', Cid: 2, Addr: 2}, {Kind: 'T'}, {Kind: 'N', Cid: 2}, {Kind: 'N', Cid: 1}, {Kind: 'S', Cid: 2, Sel: 0, Nonce: n(9)}},
		// R6: the extra nonce of A's job is overwritten by B's notification
		{{Kind: 'T'}, {Kind: 'L', Cid: 1, Addr: 1}, {Kind: 'L', Cid: 2, Addr: 1}, {Kind: 'T'}, {Kind: 'N', Cid: 1}, {Kind: 'N', Cid: 2}, {Kind: 'S', Cid: 1, Sel: 0, Nonce: n(10)}},
		// R5: a nonce of fewer than four bytes
		{{Kind: 'T'}, {Kind: 'L', Cid: 1, Addr: 1}, {Kind: 'S', Cid: 1, Sel: 0, Nonce: "00"}},
		{{Kind: 'T'}, {Kind: 'L', Cid: 1, Addr: 1}, {Kind: 'L', Cid: 2, Addr: 2}, {Kind: 'S', Cid: 2, Sel: 0, Nonce: ""}, {Kind: 'S', Cid: 1, Sel: 0, Nonce: n(11)}},
		// R-sidediff0: a template with a side block at difficulty 1 (2/3 of the difficulty rounds to zero)
		{{Kind: 'T'}, {Kind: 'L', Cid: 1, Addr: 1}, {Kind: 'S', Cid: 1, Sel: 0, Nonce: n(1034)}, {Kind: 'S', Cid: 1, Sel: 0, Nonce: n(1085)},
			{Kind: 'S', Cid: 1, Sel: 1, Nonce: n(1137)}, {Kind: 'S', Cid: 1, Sel: 0, Nonce: n(1153)}, {Kind: 'S', Cid: 1, Sel: 0, Nonce: n(1204)}},
		// login before any template, login with something that is not an address
		{{Kind: 'L', Cid: 1, Addr: 1}, {Kind: 'T'}, {Kind: 'L', Cid: 2, Addr: 0}, {Kind: 'L', Cid: 3, Addr: 3}, {Kind: 'S', Cid: 3, Sel: 0, Nonce: n(12)}},
	}
}

// ---- scenario scripts: overlapping broadcasts with different difficulties, shares across a seed period ----
//
// The chain is extended through the stratum server itself: a miner submits, for the job it holds, a merge-mining blob
// that names this chain only and carries the timestamp the script wants (the real SetMiningBlob path). With block 1
// dated two hours back and the following blocks 100 ms apart the difficulty of the next block rises by about a third
// per block; a block dated two minutes after its parent makes it fall. Everything is decided by the real
// GetBlockTemplate / GetNextDifficulty; in a configuration with MIN_DIFFICULTY 1 (unittest) the same scripts run with
// every difficulty 1 and exercise the bookkeeping of the queued broadcasts only.

func sub(cid, sel int, nonce uint32, mine, merge, ts string) Op {
	return Op{Kind: 'S', Cid: cid, Sel: sel, Nonce: nonceHex(nonce), Mine: mine, Merge: merge, Ts: ts}
}
func subPick(cid int, pick string, nonce uint32, mine, merge, ts string) Op {
	return Op{Kind: 'S', Cid: cid, Pick: pick, Nonce: nonceHex(nonce), Mine: mine, Merge: merge, Ts: ts}
}

// grow: template, login of miner 1, then n blocks found by miner 1: the first dated `first`, the others 100 ms apart.
func grow(n int, first string) []Op {
	ops := []Op{{Kind: 'T'}, {Kind: 'L', Cid: 1, Addr: 1}}
	for i := 0; i < n; i++ {
		ts := "par+100"
		if i == 0 {
			ts = first
		}
		ops = append(ops, sub(1, 0, uint32(100000*(i+1)), "any", "own", ts))
	}
	return ops
}

type scenario struct {
	name string
	ops  []Op
}

func scenarios() []scenario {
	var sc []scenario
	add := func(name string, ops ...[]Op) {
		var all []Op
		for _, o := range ops {
			all = append(all, o...)
		}
		sc = append(sc, scenario{name, all})
	}
	L := func(cid, addr int) Op { return Op{Kind: 'L', Cid: cid, Addr: addr} }
	N := func(cid int) Op { return Op{Kind: 'N', Cid: cid} }
	T := Op{Kind: 'T'}

	// two broadcasts queued on miner 1's connection, the second one with a LOWER difficulty (miner 2 finds a block
	// dated two minutes after its parent in between); both jobs are then mined at the target they were sent with
	for _, k := range []int{4, 5} {
		add(fmt.Sprintf("overlap-lower-%d", k), grow(k, "now-7200000"), []Op{
			L(2, 2), T, N(2),
			sub(2, 0, 7000, "hit", "own", "par+120000"),
			N(1),
			subPick(1, "low", 7100, "hit", "", ""),
			subPick(1, "high", 7200, "hit", "", ""),
			N(2),
			sub(2, 1, 7300, "hit", "", ""),
		})
	}
	// the second broadcast with a HIGHER difficulty (blocks 100 ms apart)
	add("overlap-higher", grow(3, "now-7200000"), []Op{
		L(2, 2), T, N(2),
		sub(2, 0, 7400, "hit", "own", "par+100"),
		N(1),
		subPick(1, "low", 7500, "hit", "", ""),
		subPick(1, "high", 7600, "hit", "", ""),
	})
	// three broadcasts queued on miner 1 (rising, then falling), a login in between, a near miss
	add("overlap-three", grow(3, "now-7200000"), []Op{
		L(2, 2), T, N(2),
		sub(2, 0, 7700, "hit", "own", "par+100"),
		L(3, 3),
		sub(2, 0, 7800, "hit", "own", "par+120000"),
		N(1), N(3),
		subPick(1, "low", 7900, "miss", "", ""),
		subPick(1, "low", 8000, "hit", "", ""),
		subPick(1, "high", 8200, "hit", "", ""),
		N(3),
		sub(3, 1, 8100, "hit", "", ""),
	})
	// broadcasts queued on two miners and released in the other order; the manual template repeated
	add("overlap-both", grow(4, "now-7200000"), []Op{
		L(2, 2), L(3, 3), T, N(3),
		sub(3, 0, 8300, "hit", "own", "par+120000"),
		T,
		N(2), N(1),
		subPick(2, "low", 8400, "hit", "", ""),
		subPick(1, "low", 8500, "hit", "own+f", "par+200"),
		subPick(1, "high", 8600, "hit", "", ""),
		N(2),
		sub(2, 1, 8700, "miss", "", ""),
	})

	// shares whose merge-mining blob lies in another seed period than the job: last millisecond of the period before
	// (accepted: the chain is still at the genesis block, whose timestamp is 0), first millisecond of the period
	// after (proof of work passes, the chain then refuses a block that far ahead)
	add("seed-prev", []Op{T, L(1, 1),
		sub(1, 0, 9000, "hit", "own", "prev"),
		sub(1, 0, 9100, "hit", "own+f", "prev"),
		sub(1, 0, 9200, "hit", "", ""),
	})
	add("seed-next", []Op{T, L(1, 1),
		sub(1, 0, 9300, "hit", "own", "next"),
		sub(1, 0, 9400, "miss", "own", "next"),
		sub(1, 0, 9500, "hit", "", ""),
	})
	// the same at a raised difficulty: the chain is grown inside the previous seed period
	add("seed-prev-raised", grow(5, "prev-60000"), []Op{
		sub(1, 0, 9600, "hit", "own", "prev"),
		sub(1, 0, 9700, "miss", "own", "prev"),
		sub(1, 0, 9800, "hit", "own", "next"),
		sub(1, 0, 9900, "hit", "", ""),
	})
	// two miners, jobs of two templates, blobs on both sides of both boundaries
	add("seed-both", grow(3, "prev-60000"), []Op{
		L(2, 2),
		sub(2, 0, 10000, "hit", "own+f", "prev"),
		N(1),
		sub(1, 1, 10100, "hit", "own", "prev"),
		sub(1, 0, 10200, "hit", "own", "next"),
		sub(1, 0, 10300, "hit", "own", "prev"),
	})
	// merge-mining blobs with the longest chain list a blob may carry (this chain and MAX_MERGE_MINED_CHAINS-1 others):
	// judged like any other; one chain more is not a blob
	add("chains-max", []Op{T, L(1, 1), L(2, 2),
		sub(1, 0, 10400, "hit", "own+15f", ""),
		N(2),
		sub(2, 0, 10600, "hit", "own+15f", ""),
		N(1),
		sub(2, 0, 10500, "hit", "own+16f", ""), // not a blob: the connection is dropped
		sub(1, 0, 10700, "miss", "own+15f", ""),
		sub(1, 0, 10800, "hit", "", ""),
	})
	return sc
}

func famC15(out string) {
	t0 := time.Now()
	initShared()
	theAddrs, theLogins = testAddresses(4)
	shard, nshards := 0, 1
	if v, err := strconv.Atoi(os.Getenv("VERIF_SHARD")); err == nil {
		shard = v
	}
	if v, err := strconv.Atoi(os.Getenv("VERIF_NSHARDS")); err == nil && v > 0 {
		nshards = v
	}
	sink := coqgen.NewSink(out, fmt.Sprintf("c15s%d", shard), "c15_case", 150)
	e := &emitter{sink: sink, kinds: map[string]int{}, seen: map[string]bool{}}
	thorough := hutil.Tier() == "thorough"

	powReal := config.MIN_DIFFICULTY > 1 // proof of work is real (verifnet, testnet): scenario scripts and mined random scripts only
	for i, sc := range scenarios() {
		if i%nshards != shard {
			continue
		}
		if f := os.Getenv("VERIF_C15_SCENARIO"); f != "" && !strings.HasPrefix(sc.name, f) { // debugging aid
			continue
		}
		ts := time.Now()
		res := runScenario(sc.ops)
		if os.Getenv("VERIF_C15_DEBUG") != "" {
			fmt.Fprintf(os.Stderr, "== %s (%.1fs) err=%v\n", sc.name, time.Since(ts).Seconds(), res.err)
			for _, st := range res.run.steps {
				fmt.Fprintln(os.Stderr, "   ", st.Human)
			}
		}
		e.emit("scenario:"+sc.name, sc.ops, res)
	}
	nScen := sink.Len()
	if os.Getenv("VERIF_C15_SCENARIO") != "" {
		sink.Close()
		return
	}

	for _, ops := range witnesses() {
		if shard != 0 || powReal {
			break
		}
		// the second witness contains a placeholder notify of nobody: drop it
		var o2 []Op
		for _, o := range ops {
			if !(o.Kind == 'N' && o.Cid == 0) {
				o2 = append(o2, o)
			}
		}
		e.emit("witness", o2, runScript(o2, 3))
	}

	// exhaustive part: T, then every sequence of `depth` further events over at most 3 miners
	depth := 6
	if thorough {
		depth = 7
	}
	if v, err := strconv.Atoi(os.Getenv("VERIF_C15_DEPTH")); err == nil && v > 0 {
		depth = v
	}
	executed := 0
	split := 0
	var explore func(prefix []Op)
	explore = func(prefix []Op) {
		if len(prefix) == 4 { // the subtrees below the third event are dealt round-robin to the shard processes
			split++
			if (split-1)%nshards != shard {
				return
			}
		}
		res := runScript(prefix, 3)
		executed++
		if res.err != nil || len(prefix) == depth+1 || len(res.avail) == 0 {
			e.emit("exhaustive", prefix, res)
			return
		}
		for _, op := range res.avail {
			explore(append(append([]Op{}, prefix...), op))
		}
	}
	if !powReal {
		explore([]Op{{Kind: 'T'}})
	}
	nExh := sink.Len() - nScen

	// random part: longer scripts, more miners, malformed and boundary submissions, disconnects, history window
	nr := 240 * budget()
	if thorough {
		nr = 4000 * budget()
	}
	if powReal {
		nr /= 5 // every submission is mined: a few dozen hashes each
	}
	nrun := 0
	for i := 0; i < nr; i++ {
		if i%nshards != shard {
			continue
		}
		nrun++
		rng := hutil.NewRng(1500 + uint64(i))
		ops, res := randomScript(rng)
		e.emit("random", ops, res)
	}

	if powReal {
		sink.Meta["rule"] = "real proof of work (" + config.NETWORK_NAME + ", MIN_DIFFICULTY " + fmt.Sprint(config.MIN_DIFFICULTY) + "): scenario scripts against the real stratum server (net.Pipe miners, in-memory store) - the chain is grown through the server itself so that consecutive templates have different difficulties; two or three SendJob broadcasts queued on one connection (lower, higher, mixed difficulties; logins in between; connections released in either order), every job then mined at the target that was sent with it (weakest share of a batch) and submitted; shares whose merge-mining blob lies in the previous / next seed period (last / first millisecond), mined with the blob's own seed so that they fail under the job's seed; near misses - and random scripts of up to 16 events over up to 5 miners with mined, near-miss and raw nonces, overlapping broadcasts, merge-mining blobs with moved timestamps. A class is (generator, event kinds in order, set of outcomes)."
	} else {
		sink.Meta["rule"] = "scripted interleavings of login / new template / per-connection job notification / submit / disconnect against the real stratum server (net.Pipe miners, in-memory store, " + config.NETWORK_NAME + " configuration): the scenario scripts with overlapping broadcasts and merge-mining blobs across seed periods (difficulty 1 here: bookkeeping only); the fixed witnesses of R6 and R5; every sequence of " + fmt.Sprint(depth) + " events after the first template over at most 3 miners (notification order controlled through the connection locks); random scripts of up to 16 events over up to 5 miners with short/odd nonces, extra-nonce overrides, merge-mining blobs, unknown and foreign job ids, evicted jobs, disconnects. A class is (generator, event kinds in order, set of outcomes)."
	}
	sink.Meta["scenarios"] = nScen
	sink.Meta["exhaustive_depth"] = depth
	sink.Meta["shard0_exhaustive_cases"] = nExh
	sink.Meta["shard0_scripts_executed"] = executed + nrun
	sink.Meta["shard0_pruned_scripts"] = e.pruned
	sink.Meta["shard0_disturbed_scripts"] = e.disturbed
	sink.Meta["shard0_failed_scripts"] = e.failed
	sink.Meta["shard0_disturbed_examples"] = e.disturbedEx
	sink.Meta["shard0_outcome_kinds"] = e.kinds
	sink.Meta["min_difficulty"] = config.MIN_DIFFICULTY
	sink.Meta["jobs_history"] = config.STRATUM_JOBS_HISTORY
	sink.Meta["shard0_harness_wall_s"] = time.Since(t0).Seconds()
	sink.Meta["shards_note"] = "the harness runs as 8 processes; keys starting with shard0_ are those of process 0 only"
	rounds := 12
	if thorough {
		rounds = 50
	}
	if shard == 0 {
		sink.Meta["exploration"] = raceExploration(8, rounds)
	}
	if err := sink.Close(); err != nil {
		panic(err)
	}
	if len(e.failed) > 0 || e.disturbed > 0 { // an answer the harness cannot classify or that never came: never dropped silently
		fmt.Fprintln(os.Stderr, "scripts the harness could not interpret:", e.failed, "scripts with a missing answer:", e.disturbedEx)
		os.Exit(1)
	}
}

// randomScript builds a script step by step against the running node (the next event depends on the state).
func randomScript(rng *hutil.Rng) ([]Op, result) {
	maxM := 2 + rng.Intn(4)
	length := 6 + rng.Intn(11)
	// where proof of work is real, broadcasts may overlap on a connection (the unittest corpus is left as it was)
	r := &Run{w: newWorld(theAddrs, theLogins), multi: config.MIN_DIFFICULTY > 1}
	var ops []Op
	var err error
	if rng.Intn(8) != 0 {
		ops = append(ops, Op{Kind: 'T'})
		err = r.exec(ops[0])
	}
	sameAddr := rng.Intn(5) == 0
	for tries := 0; err == nil && len(ops) < length && tries < 200; tries++ {
		w := r.w
		var cand []Op
		n := len(w.miners)
		if n < maxM {
			a := 1 + n%4
			if sameAddr {
				a = 1
			}
			if rng.Intn(12) == 0 {
				a = 0
			}
			cand = append(cand, Op{Kind: 'L', Cid: n + 1, Addr: a}, Op{Kind: 'L', Cid: n + 1, Addr: a})
		}
		if !r.anyPending(-1) || r.multi {
			cand = append(cand, Op{Kind: 'T'})
		}
		cids := []int{}
		for c := range w.miners {
			cids = append(cids, c)
		}
		sort.Ints(cids)
		for _, c := range cids {
			m := w.miners[c]
			if !m.alive {
				continue
			}
			if m.pending() {
				cand = append(cand, Op{Kind: 'N', Cid: c}, Op{Kind: 'N', Cid: c}, Op{Kind: 'N', Cid: c})
				continue
			}
			if rng.Intn(25) == 0 {
				cand = append(cand, Op{Kind: 'D', Cid: c})
			}
			if len(m.sent) == 0 {
				continue
			}
			op := Op{Kind: 'S', Cid: c, Nonce: nonceHex(uint32(rng.U64()))}
			switch rng.Intn(10) {
			case 0, 1, 2, 3:
				op.Sel = 0
			case 4, 5, 6:
				op.Sel = rng.Intn(len(m.sent)) // may be outside the history window
			case 7:
				op.Sel = -1
			case 8:
				op.Sel = -2
			default:
				op.Sel = len(m.sent) - 1 // the oldest job ever sent
			}
			switch rng.Intn(14) {
			case 0:
				op.Nonce = hex.EncodeToString(rng.Bytes(rng.Intn(4))) // 0..3 bytes
			case 1:
				op.Nonce = "zz" + op.Nonce[2:]
			case 2:
				op.Nonce = op.Nonce + "ab" // 5 bytes: first four are used
			case 3:
				op.Nonce = op.Nonce[:7] // odd number of hex digits
			}
			switch rng.Intn(8) {
			case 0:
				op.Extra = hex.EncodeToString(rng.Bytes(16))
			case 1:
				op.Extra = hex.EncodeToString(rng.Bytes(1 + rng.Intn(20)))
			}
			if op.Sel >= 0 {
				switch rng.Intn(12) {
				case 0:
					op.Merge = "own"
				case 1:
					op.Merge = "own+f"
				case 2:
					op.Merge = "f+own"
				case 3:
					op.Merge = []string{"garbage", "ownown", "empty"}[rng.Intn(3)]
				case 4:
					op.Merge = []string{"own+15f", "own+15f", "own+16f"}[rng.Intn(3)]
				}
			}
			if config.MIN_DIFFICULTY > 1 && op.Sel >= 0 {
				// proof of work is real: most submissions are mined at the target sent with the job
				op.Mine = []string{"hit", "hit", "any", "miss", ""}[rng.Intn(5)]
				if rng.Intn(3) == 0 && (op.Merge == "own" || op.Merge == "own+f" || op.Merge == "f+own" || op.Merge == "ownown" || op.Merge == "own+15f") {
					op.Ts = []string{"prev", "next", "par+100", "par+120000"}[rng.Intn(4)]
				}
			}
			cand = append(cand, op, op)
		}
		if len(cand) == 0 {
			break
		}
		op := cand[rng.Intn(len(cand))]
		e := r.exec(op)
		if e == errPruned {
			continue // not schedulable deterministically in this state: choose again
		}
		ops = append(ops, op)
		err = e
	}
	r.finish()
	return ops, result{run: r, err: err}
}
