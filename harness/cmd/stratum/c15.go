package main

import (
	"crypto/ed25519"
	"encoding/binary"
	"encoding/hex"
	"fmt"
	"os"
	"sort"
	"strconv"
	"strings"
	"time"

	"verifharness/coqgen"
	"verifharness/hutil"

	"github.com/virel-project/virel-blockchain/v3/address"
	"github.com/virel-project/virel-blockchain/v3/bitcrypto"
	"github.com/virel-project/virel-blockchain/v3/config"
)

func budget() int {
	b, _ := strconv.Atoi(os.Getenv("VERIF_BUDGET"))
	if b < 1 {
		b = 1
	}
	return b
}

// testAddresses returns n wallet addresses whose text form parses back (independent of C18's finding R7).
func testAddresses(n int) ([]address.Address, []string) {
	addrs := []address.Address{address.INVALID_ADDRESS}
	logins := []string{"this-is-not-a-wallet-address"}
	for i := uint64(1); len(addrs) <= n; i++ {
		seed := make([]byte, 32)
		binary.LittleEndian.PutUint64(seed, i*0x7654321)
		k := ed25519.NewKeyFromSeed(seed)
		var priv bitcrypto.Privkey
		copy(priv[:], k)
		a := address.FromPubKey(priv.Public())
		back, err := address.FromString(a.String())
		if err != nil || back.Addr != a || back.PaymentId != 0 {
			continue
		}
		addrs = append(addrs, a)
		logins = append(logins, a.String())
	}
	return addrs, logins
}

func nonceHex(v uint32) string {
	b := make([]byte, 4)
	binary.LittleEndian.PutUint32(b, v)
	return hex.EncodeToString(b)
}

type result struct {
	run   *Run
	err   error
	avail []Op
}

var theAddrs []address.Address
var theLogins []string

// runScript executes ops on a fresh node. maxMiners bounds the connections offered by avail.
func runScript(ops []Op, maxMiners int) result {
	r := &Run{w: newWorld(theAddrs, theLogins)}
	var err error
	for _, op := range ops {
		if err = r.exec(op); err != nil {
			break
		}
	}
	res := result{run: r, err: err}
	if err == nil {
		res.avail = availOps(r, maxMiners)
	}
	r.finish()
	return res
}

// availOps lists the next events of the scripted exhaustive part in the current state.
func availOps(r *Run, maxMiners int) []Op {
	w := r.w
	var ops []Op
	n := len(w.miners)
	if n < maxMiners {
		ops = append(ops, Op{Kind: 'L', Cid: n + 1, Addr: n + 1})
	}
	if !r.anyPending(-1) {
		ops = append(ops, Op{Kind: 'T'})
	}
	cids := make([]int, 0, n)
	for c := range w.miners {
		cids = append(cids, c)
	}
	sort.Ints(cids)
	for _, c := range cids {
		m := w.miners[c]
		if !m.alive {
			continue
		}
		if m.pending {
			ops = append(ops, Op{Kind: 'N', Cid: c})
			continue
		}
		for sel := 0; sel < len(m.sent) && sel < 2; sel++ {
			ops = append(ops, Op{Kind: 'S', Cid: c, Sel: sel, Nonce: nonceHex(uint32(1000 + 17*len(r.steps) + sel))})
		}
	}
	return ops
}

func opsString(ops []Op) string {
	s := make([]string, len(ops))
	for i, o := range ops {
		s[i] = o.String()
	}
	return strings.Join(s, " ")
}

type emitter struct {
	sink        *coqgen.Sink
	pruned      int
	disturbed   int
	failed      []string
	disturbedEx []string
	kinds       map[string]int
	seen        map[string]bool
}

func (e *emitter) emit(gen string, ops []Op, res result) {
	if res.err == errPruned {
		e.pruned++
		return
	}
	if res.err == errDisturbed {
		e.disturbed++
		if len(e.disturbedEx) < 5 {
			e.disturbedEx = append(e.disturbedEx, opsString(ops))
		}
		return
	}
	if res.err != nil {
		e.failed = append(e.failed, opsString(ops)+": "+res.err.Error())
		return
	}
	key := opsString(ops)
	if e.seen[key] {
		return
	}
	e.seen[key] = true
	items := make([]string, len(res.run.steps))
	shape := ""
	human := []string{}
	ks := map[string]bool{}
	for i, s := range res.run.steps {
		items[i] = "(" + s.Event + ", " + s.Obs + ")"
		shape += s.Event[1:2]
		human = append(human, s.Human)
		ks[s.Kind] = true
		e.kinds[s.Kind]++
	}
	kl := []string{}
	for k := range ks {
		kl = append(kl, k)
	}
	sort.Strings(kl)
	class := gen + "/" + shape + "/" + strings.Join(kl, ",")
	e.sink.Add("mkcase "+coqgen.List(items), class, map[string]any{"generator": gen, "script": key, "steps": human, "notes": res.run.w.notes})
}

// witnesses: fixed scripts kept in the corpus for ever (regressions of fixed findings are reported again).
func witnesses() [][]Op {
	n := nonceHex
	return [][]Op{
		// R6: A logs in, B logs in, A submits the nonce that solves the blob A was sent
		{{Kind: 'T'}, {Kind: 'L', Cid: 1, Addr: 1}, {Kind: 'L', Cid: 2, Addr: 2}, {Kind: 'S', Cid: 1, Sel: 0, Nonce: n(7)}},
		// R6 through SendJob: both get a job of the same template, the first one notified submits
		{{Kind: 'T'}, {Kind: 'L', Cid: 1, Addr: 1}, {Kind: 'L', Cid: 2, Addr: 2}, {Kind: 'N', Cid: 0}, {Kind: 'T'}, {Kind: 'N', Cid: 1}, {Kind: 'N', Cid: 2}, {Kind: 'S', Cid: 1, Sel: 0, Nonce: n(8)}},
		{{Kind: 'T'}, {Kind: 'L', Cid: 1, Addr: 1}, {Kind: 'L', Cid: 2, Addr: 2}, {Kind: 'T'}, {Kind: 'N', Cid: 2}, {Kind: 'N', Cid: 1}, {Kind: 'S', Cid: 2, Sel: 0, Nonce: n(9)}},
		// R6: the extra nonce of A's job is overwritten by B's notification
		{{Kind: 'T'}, {Kind: 'L', Cid: 1, Addr: 1}, {Kind: 'L', Cid: 2, Addr: 1}, {Kind: 'T'}, {Kind: 'N', Cid: 1}, {Kind: 'N', Cid: 2}, {Kind: 'S', Cid: 1, Sel: 0, Nonce: n(10)}},
		// R5: a nonce of fewer than four bytes
		{{Kind: 'T'}, {Kind: 'L', Cid: 1, Addr: 1}, {Kind: 'S', Cid: 1, Sel: 0, Nonce: "00"}},
		{{Kind: 'T'}, {Kind: 'L', Cid: 1, Addr: 1}, {Kind: 'L', Cid: 2, Addr: 2}, {Kind: 'S', Cid: 2, Sel: 0, Nonce: ""}, {Kind: 'S', Cid: 1, Sel: 0, Nonce: n(11)}},
		// R-sidediff0: a template with a side block at difficulty 1 (2/3 of the difficulty rounds to zero)
		{{Kind: 'T'}, {Kind: 'L', Cid: 1, Addr: 1}, {Kind: 'S', Cid: 1, Sel: 0, Nonce: n(1034)}, {Kind: 'S', Cid: 1, Sel: 0, Nonce: n(1085)},
			{Kind: 'S', Cid: 1, Sel: 1, Nonce: n(1137)}, {Kind: 'S', Cid: 1, Sel: 0, Nonce: n(1153)}, {Kind: 'S', Cid: 1, Sel: 0, Nonce: n(1204)}},
		// login before any template, login with something that is not an address
		{{Kind: 'L', Cid: 1, Addr: 1}, {Kind: 'T'}, {Kind: 'L', Cid: 2, Addr: 0}, {Kind: 'L', Cid: 3, Addr: 3}, {Kind: 'S', Cid: 3, Sel: 0, Nonce: n(12)}},
	}
}

func famC15(out string) {
	t0 := time.Now()
	initShared()
	theAddrs, theLogins = testAddresses(4)
	shard, nshards := 0, 1
	if v, err := strconv.Atoi(os.Getenv("VERIF_SHARD")); err == nil {
		shard = v
	}
	if v, err := strconv.Atoi(os.Getenv("VERIF_NSHARDS")); err == nil && v > 0 {
		nshards = v
	}
	sink := coqgen.NewSink(out, fmt.Sprintf("c15s%d", shard), "c15_case", 150)
	e := &emitter{sink: sink, kinds: map[string]int{}, seen: map[string]bool{}}
	thorough := hutil.Tier() == "thorough"

	for _, ops := range witnesses() {
		if shard != 0 {
			break
		}
		// the second witness contains a placeholder notify of nobody: drop it
		var o2 []Op
		for _, o := range ops {
			if !(o.Kind == 'N' && o.Cid == 0) {
				o2 = append(o2, o)
			}
		}
		e.emit("witness", o2, runScript(o2, 3))
	}

	// exhaustive part: T, then every sequence of `depth` further events over at most 3 miners
	depth := 6
	if thorough {
		depth = 7
	}
	if v, err := strconv.Atoi(os.Getenv("VERIF_C15_DEPTH")); err == nil && v > 0 {
		depth = v
	}
	executed := 0
	split := 0
	var explore func(prefix []Op)
	explore = func(prefix []Op) {
		if len(prefix) == 4 { // the subtrees below the third event are dealt round-robin to the shard processes
			split++
			if (split-1)%nshards != shard {
				return
			}
		}
		res := runScript(prefix, 3)
		executed++
		if res.err != nil || len(prefix) == depth+1 || len(res.avail) == 0 {
			e.emit("exhaustive", prefix, res)
			return
		}
		for _, op := range res.avail {
			explore(append(append([]Op{}, prefix...), op))
		}
	}
	explore([]Op{{Kind: 'T'}})
	nExh := sink.Len()

	// random part: longer scripts, more miners, malformed and boundary submissions, disconnects, history window
	nr := 240 * budget()
	if thorough {
		nr = 4000 * budget()
	}
	nrun := 0
	for i := 0; i < nr; i++ {
		if i%nshards != shard {
			continue
		}
		nrun++
		rng := hutil.NewRng(1500 + uint64(i))
		ops, res := randomScript(rng)
		e.emit("random", ops, res)
	}

	sink.Meta["rule"] = "scripted interleavings of login / new template / per-connection job notification / submit / disconnect against the real stratum server (net.Pipe miners, in-memory store, unittest configuration): the fixed witnesses of R6 and R5; every sequence of " + fmt.Sprint(depth) + " events after the first template over at most 3 miners (notification order controlled through the connection locks); random scripts of up to 16 events over up to 5 miners with short/odd nonces, extra-nonce overrides, merge-mining blobs, unknown and foreign job ids, evicted jobs, disconnects. A class is (generator, event kinds in order, set of outcomes)."
	sink.Meta["exhaustive_depth"] = depth
	sink.Meta["shard0_exhaustive_cases"] = nExh
	sink.Meta["shard0_scripts_executed"] = executed + nrun
	sink.Meta["shard0_pruned_scripts"] = e.pruned
	sink.Meta["shard0_disturbed_scripts"] = e.disturbed
	sink.Meta["shard0_failed_scripts"] = e.failed
	sink.Meta["shard0_disturbed_examples"] = e.disturbedEx
	sink.Meta["shard0_outcome_kinds"] = e.kinds
	sink.Meta["min_difficulty"] = config.MIN_DIFFICULTY
	sink.Meta["jobs_history"] = config.STRATUM_JOBS_HISTORY
	sink.Meta["shard0_harness_wall_s"] = time.Since(t0).Seconds()
	sink.Meta["shards_note"] = "the harness runs as 8 processes; keys starting with shard0_ are those of process 0 only"
	rounds := 12
	if thorough {
		rounds = 50
	}
	if shard == 0 {
		sink.Meta["exploration"] = raceExploration(8, rounds)
	}
	if err := sink.Close(); err != nil {
		panic(err)
	}
	if len(e.failed) > 0 || e.disturbed > 0 { // an answer the harness cannot classify or that never came: never dropped silently
		fmt.Fprintln(os.Stderr, "scripts the harness could not interpret:", e.failed, "scripts with a missing answer:", e.disturbedEx)
		os.Exit(1)
	}
}

// randomScript builds a script step by step against the running node (the next event depends on the state).
func randomScript(rng *hutil.Rng) ([]Op, result) {
	maxM := 2 + rng.Intn(4)
	length := 6 + rng.Intn(11)
	r := &Run{w: newWorld(theAddrs, theLogins)}
	var ops []Op
	var err error
	if rng.Intn(8) != 0 {
		ops = append(ops, Op{Kind: 'T'})
		err = r.exec(ops[0])
	}
	sameAddr := rng.Intn(5) == 0
	for tries := 0; err == nil && len(ops) < length && tries < 200; tries++ {
		w := r.w
		var cand []Op
		n := len(w.miners)
		if n < maxM {
			a := 1 + n%4
			if sameAddr {
				a = 1
			}
			if rng.Intn(12) == 0 {
				a = 0
			}
			cand = append(cand, Op{Kind: 'L', Cid: n + 1, Addr: a}, Op{Kind: 'L', Cid: n + 1, Addr: a})
		}
		if !r.anyPending(-1) {
			cand = append(cand, Op{Kind: 'T'})
		}
		cids := []int{}
		for c := range w.miners {
			cids = append(cids, c)
		}
		sort.Ints(cids)
		for _, c := range cids {
			m := w.miners[c]
			if !m.alive {
				continue
			}
			if m.pending {
				cand = append(cand, Op{Kind: 'N', Cid: c}, Op{Kind: 'N', Cid: c}, Op{Kind: 'N', Cid: c})
				continue
			}
			if rng.Intn(25) == 0 {
				cand = append(cand, Op{Kind: 'D', Cid: c})
			}
			if len(m.sent) == 0 {
				continue
			}
			op := Op{Kind: 'S', Cid: c, Nonce: nonceHex(uint32(rng.U64()))}
			switch rng.Intn(10) {
			case 0, 1, 2, 3:
				op.Sel = 0
			case 4, 5, 6:
				op.Sel = rng.Intn(len(m.sent)) // may be outside the history window
			case 7:
				op.Sel = -1
			case 8:
				op.Sel = -2
			default:
				op.Sel = len(m.sent) - 1 // the oldest job ever sent
			}
			switch rng.Intn(14) {
			case 0:
				op.Nonce = hex.EncodeToString(rng.Bytes(rng.Intn(4))) // 0..3 bytes
			case 1:
				op.Nonce = "zz" + op.Nonce[2:]
			case 2:
				op.Nonce = op.Nonce + "ab" // 5 bytes: first four are used
			case 3:
				op.Nonce = op.Nonce[:7] // odd number of hex digits
			}
			switch rng.Intn(8) {
			case 0:
				op.Extra = hex.EncodeToString(rng.Bytes(16))
			case 1:
				op.Extra = hex.EncodeToString(rng.Bytes(1 + rng.Intn(20)))
			}
			if op.Sel >= 0 {
				switch rng.Intn(12) {
				case 0:
					op.Merge = "own"
				case 1:
					op.Merge = "own+f"
				case 2:
					op.Merge = "f+own"
				case 3:
					op.Merge = []string{"garbage", "ownown", "empty"}[rng.Intn(3)]
				}
			}
			cand = append(cand, op, op)
		}
		if len(cand) == 0 {
			break
		}
		op := cand[rng.Intn(len(cand))]
		e := r.exec(op)
		if e == errPruned {
			continue // not schedulable deterministically in this state: choose again
		}
		ops = append(ops, op)
		err = e
	}
	r.finish()
	return ops, result{run: r, err: err}
}
