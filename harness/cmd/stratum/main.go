// stratum: harness for the stratum server (C15). It drives the real server code of /repo
// (stratum/stratumsrv + blockchain.handleConn + NewStratumJob) over net.Pipe miners and an in-memory store.
// usage: stratum <family> <outdir>
package main

import (
	"fmt"
	"os"
)

func main() {
	if len(os.Args) < 3 {
		fmt.Println("usage: stratum <family> <outdir>")
		os.Exit(2)
	}
	switch os.Args[1] {
	case "c15":
		famC15(os.Args[2])
	case "c15race":
		famC15Race(os.Args[2])
	case "c15mm":
		famC15mm(os.Args[2])
	default:
		fmt.Println("unknown family", os.Args[1])
		os.Exit(2)
	}
}
