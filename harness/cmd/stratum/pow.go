package main

// The miner's side of proof of work. Nothing of the node's decision is re-implemented: the value of a blob is
// randomvirel.PowHash keyed with GetSeed() of THAT blob (the consensus rule of PrevalidateBlock), read as the
// node reads it (uint128.FromBytes of the upper half); "meets the target sent with the job" is decided by the
// repository's own functions (util.ByteTargetToDiff as in mergestratum.go, block.ValidPowHash).

import (
	"sync"

	"github.com/virel-project/go-randomvirel"
	"github.com/virel-project/virel-blockchain/v3/block"
	"github.com/virel-project/virel-blockchain/v3/util/uint128"
)

func powValue(seed [32]byte, mb block.MiningBlob) [16]byte {
	h := randomvirel.PowHash(seed, mb.Serialize())
	return [16]byte(h[16:])
}

func valNum(v [16]byte) string { return uint128.FromBytes(v[:]).String() }

// trivialDiff: the largest hash value meets this difficulty, i.e. every nonce solves (unittest: difficulty 1).
func trivialDiff(d uint128.Uint128) bool {
	worst := [16]byte{0xff, 0xff, 0xff, 0xff, 0xff, 0xff, 0xff, 0xff, 0xff, 0xff, 0xff, 0xff, 0xff, 0xff, 0xff, 0xff}
	return block.ValidPowHash(worst, d)
}

type cand struct {
	nonce uint32
	val   [16]byte
}

// batch hashes n consecutive nonces on the VMs randomvirel was initialised with.
func batch(seed [32]byte, base block.MiningBlob, start uint32, n int) []cand {
	out := make([]cand, n)
	var wg sync.WaitGroup
	for t := 0; t < 4; t++ {
		wg.Add(1)
		go func(t int) {
			defer wg.Done()
			for i := t; i < n; i += 4 {
				mb := base
				mb.Nonce = start + uint32(i)
				out[i] = cand{mb.Nonce, powValue(seed, mb)}
			}
		}(t)
	}
	wg.Wait()
	return out
}

func less(a, b [16]byte) bool { return uint128.FromBytes(a[:]).Cmp(uint128.FromBytes(b[:])) < 0 }

// mine searches nonces base.Nonce, base.Nonce+1, ... the way a miner does.
//
//	"hit":  a nonce whose value meets difficulty d (the target sent with the job). Among the hits of the batch the
//	        WEAKEST one is taken (largest value): a share right at the advertised target, so that a node judging it
//	        against anything stricter refuses it. When the blob's seed period differs from the job's (alt), a hit
//	        that is no solution under the job's seed is preferred, so that a node keying the hash with any seed but
//	        the blob's own refuses it.
//	"any":  the first nonce found whose value meets d (used to extend the chain).
//	"miss": the strongest value of the batch that does NOT meet d.
func mine(base block.MiningBlob, d uint128.Uint128, mode string, alt *[32]byte) (uint32, [16]byte) {
	seed := base.GetSeed()
	n := 520
	if d.Hi == 0 && d.Lo < 64 {
		n = 8 + 8*int(d.Lo)
	}
	if mode == "any" {
		n, mode, alt = 4, "hit", nil
	}
	start := base.Nonce
	var hits, misses []cand
	for round := 0; round < 200 && (len(hits) == 0 || len(misses) == 0); round++ {
		for _, c := range batch(seed, base, start, n) {
			if block.ValidPowHash(c.val, d) {
				hits = append(hits, c)
			} else {
				misses = append(misses, c)
			}
		}
		start += uint32(n)
		if mode == "hit" && len(hits) > 0 || mode == "miss" && len(misses) > 0 {
			break
		}
	}
	if mode == "miss" {
		if len(misses) == 0 {
			return hits[0].nonce, hits[0].val
		}
		best := misses[0]
		for _, c := range misses {
			if less(c.val, best.val) {
				best = c
			}
		}
		return best.nonce, best.val
	}
	if len(hits) == 0 {
		return misses[0].nonce, misses[0].val // no solution within 200 batches: submitted as it is, the value says so
	}
	// weakest first
	for i := range hits {
		for j := i + 1; j < len(hits); j++ {
			if less(hits[i].val, hits[j].val) {
				hits[i], hits[j] = hits[j], hits[i]
			}
		}
	}
	if alt != nil {
		for i := 0; i < len(hits) && i < 3; i++ {
			mb := base
			mb.Nonce = hits[i].nonce
			if !block.ValidPowHash(powValue(*alt, mb), d) {
				return hits[i].nonce, hits[i].val
			}
		}
	}
	return hits[0].nonce, hits[0].val
}
