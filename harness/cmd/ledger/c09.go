package main

// Family "c09": the mempool and the block template of a real node.
// A scenario drives ONE node (an in-memory database under the shared Blockchain value) through
//   - block deliveries (builder blocks: linear growth, forks, reorganisations),
//   - TX packets through the real mempool path (packetTx: Prevalidate at TopHeight+1, AddTransaction(.., true, ..)),
//   - stake signatures through HandleStakeSignature,
//   - GetBlockTemplate (inside DB.Update, as NewStratumJob does), completion of the template with a mined nonce and
//     delivery of the completed block to the SAME node,
//   - expiry of mempool entries (the entry's expiry time is moved into the past; pruning is left to the node).
// After every operation the mempool content is read back.

import (
	"bytes"
	"encoding/gob"
	"fmt"
	"os"
	"time"

	"verifharness/memdb"

	"github.com/virel-project/go-randomvirel"
	"github.com/virel-project/virel-blockchain/v3/adb"
	"github.com/virel-project/virel-blockchain/v3/address"
	"github.com/virel-project/virel-blockchain/v3/bitcrypto"
	"github.com/virel-project/virel-blockchain/v3/block"
	"github.com/virel-project/virel-blockchain/v3/blockchain"
	"github.com/virel-project/virel-blockchain/v3/config"
	"github.com/virel-project/virel-blockchain/v3/p2p/packet"
	"github.com/virel-project/virel-blockchain/v3/transaction"
	"github.com/virel-project/virel-blockchain/v3/util"
)

type c9op struct {
	Kind string // deliver | submit | sig | template | expire
	// deliver
	Node    *TNode
	Now     uint64
	FromTpl bool
	Acc     bool
	Crashed bool
	Conn    []*TNode // blocks that joined the main chain (lowest first)
	Disc    []*TNode // blocks that left the main chain (highest first = order of disconnection)
	// submit
	Tx       int // index into c9.txs
	Admitted bool
	PreOK    bool
	Expires  int64
	// sig
	SigHash  util.Hash
	SigDid   uint64
	SigKey   uint64
	SigMsg   util.Hash
	SigStore bool
	// template
	Rcpt     address.Address
	NowLo    uint64
	NowHi    uint64
	Tpl      *block.Block
	TplTxs   []transaction.TXID
	TplErr   bool
	// expire
	Ids []transaction.TXID
	// all
	NowS int64
	Mp   []transaction.TXID
}

type c9 struct {
	w     *World
	nut   *memdb.DB
	name  string
	ops   []*c9op
	txs   []*transaction.Transaction
	metas []TxMeta
	meta  map[transaction.TXID]TxMeta
	txOf  map[transaction.TXID]*transaction.Transaction
	sigBy map[util.Hash]uint64 // staked block hash -> key id that produced the stored signature
	stats map[string]int
	// findings of the run, for the record
	TplRejected int
	comp        map[*Wallet]uint64 // transactions composed for the block being built (not in the mempool)
}

func newC9(w *World, name string) *c9 {
	w.tsBase = util.Time() - 900_000 // builder chains start a quarter of an hour ago: templates (timestamp = now) share the seed hash epoch
	return &c9{w: w, nut: w.freshDB(), name: name, meta: map[transaction.TXID]TxMeta{}, txOf: map[transaction.TXID]*transaction.Transaction{},
		sigBy: map[util.Hash]uint64{}, stats: map[string]int{}}
}

func (c *c9) mempool() []*blockchain.MempoolEntry {
	var es []*blockchain.MempoolEntry
	c.w.bc.DB = c.nut
	c.nut.View(func(txn adb.Txn) error {
		es = c.w.bc.GetMempool(txn).Entries
		return nil
	})
	return es
}

func (c *c9) mpIds() []transaction.TXID {
	out := []transaction.TXID{}
	for _, e := range c.mempool() {
		out = append(out, e.TXID)
	}
	return out
}

func (c *c9) top() *TNode { return c.w.nodeOfTop(c.nut) }

func (c *c9) topo() map[uint64]util.Hash {
	m := map[uint64]util.Hash{}
	c.w.view(c.nut, func(v *View) {
		st := v.Stats()
		for h := uint64(0); h <= st.TopHeight; h++ {
			x, err := c.w.bc.GetTopo(v.txn, h)
			if err == nil {
				m[h] = x
			}
		}
	})
	return m
}

func (c *c9) remember(n *TNode) {
	for i, t := range n.Txs {
		id := t.Hash()
		if _, ok := c.meta[id]; !ok {
			c.meta[id] = n.TxMeta[i]
			c.txOf[id] = t
		}
	}
}

// deliver hands n to the node under test and records what changed on the main chain.
func (c *c9) deliver(n *TNode, fromTpl bool) *c9op {
	c.remember(n)
	before := c.topo()
	acc, _, crashed, now := c.w.deliverTo(c.nut, n)
	after := c.topo()
	op := &c9op{Kind: "deliver", Node: n, Now: now, FromTpl: fromTpl, Acc: acc, Crashed: crashed, NowS: time.Now().Unix()}
	maxh := uint64(0)
	for h := range before {
		if h > maxh {
			maxh = h
		}
	}
	for h := range after {
		if h > maxh {
			maxh = h
		}
	}
	for h := uint64(0); h <= maxh; h++ {
		b, okb := before[h]
		a, oka := after[h]
		if oka && (!okb || a != b) {
			if x := c.w.byHash[a]; x != nil {
				op.Conn = append(op.Conn, x)
			} else {
				panic("connected block unknown to the harness")
			}
		}
	}
	for h := maxh + 1; h > 0; h-- {
		b, okb := before[h-1]
		a, oka := after[h-1]
		if okb && (!oka || a != b) {
			if x := c.w.byHash[b]; x != nil {
				op.Disc = append(op.Disc, x)
			} else {
				panic("disconnected block unknown to the harness")
			}
		}
	}
	op.Mp = c.mpIds()
	c.ops = append(c.ops, op)
	switch {
	case crashed:
		c.stats["deliver-crashed"]++
	case acc:
		c.stats["deliver-accepted"]++
	default:
		c.stats["deliver-rejected"]++
	}
	if len(op.Disc) > 0 {
		c.stats["reorg"]++
		for _, d := range op.Disc {
			if len(d.Txs) > 0 {
				c.stats["reorg-disconnect-with-txs"]++
			}
		}
	}
	return op
}

// addBuilt registers a builder block with the world (builder snapshot) and delivers it.
func (c *c9) addBuilt(n *TNode) *c9op {
	c.w.admit(n)
	return c.deliver(n, false)
}

// submit sends the transaction as a TX packet.
func (c *c9) submit(t *transaction.Transaction, m TxMeta) *c9op {
	id := t.Hash()
	if _, ok := c.meta[id]; !ok {
		c.meta[id] = m
		c.txOf[id] = t
	}
	c.txs = append(c.txs, t)
	c.metas = append(c.metas, m)
	var topH uint64
	c.w.view(c.nut, func(v *View) { topH = v.Stats().TopHeight })
	was := false
	for _, x := range c.mpIds() {
		if x == id {
			was = true
		}
	}
	pre := func() bool {
		cp := &transaction.Transaction{}
		if err := cp.Deserialize(t.Serialize(), topH >= config.HARDFORK_V2_HEIGHT); err != nil {
			return false
		}
		return cp.Prevalidate(topH+1) == nil
	}()
	op := &c9op{Kind: "submit", Tx: len(c.txs) - 1, PreOK: pre, NowS: time.Now().Unix()}
	c.w.bc.DB = c.nut
	func() {
		defer func() {
			if r := recover(); r != nil {
				op.Crashed = true
			}
		}()
		c.w.bc.VerifPacketTx(t.Serialize())
	}()
	for _, e := range c.mempool() {
		if e.TXID == id && !was {
			op.Admitted = true
			op.Expires = e.Expires
		}
	}
	op.Mp = c.mpIds()
	c.ops = append(c.ops, op)
	switch {
	case op.Crashed:
		c.stats["submit-crashed"]++
	case op.Admitted:
		c.stats[fmt.Sprintf("submit-admitted-v%d", t.Version)]++
	case !pre:
		c.stats["submit-refused-prevalidate"]++
	default:
		c.stats[fmt.Sprintf("submit-refused-v%d", t.Version)]++
	}
	if os.Getenv("VERIF_DEBUG") != "" {
		fmt.Fprintf(os.Stderr, "[%s] submit v%d signer=%d nonce=%d pre=%v admitted=%v mp=%d\n", c.name, t.Version, c.w.ids.Key(t.Signer), t.Nonce, pre, op.Admitted, len(op.Mp))
	}
	return op
}

// stakeSig sends a stake signature over block n's hash, made by wallet `by`, claiming delegate did.
func (c *c9) stakeSig(n *TNode, by *Wallet, did uint64, msg util.Hash) *c9op {
	sig, err := bitcrypto.Sign(append(append([]byte{}, config.STAKE_SIGN_PREFIX...), msg[:]...), by.Priv)
	if err != nil {
		panic(err)
	}
	st := &packet.PacketStakeSignature{DelegateId: did, Hash: n.Hash, Signature: sig}
	c.w.bc.DB = c.nut
	op := &c9op{Kind: "sig", SigHash: n.Hash, SigDid: did, SigKey: c.w.ids.Key(by.Pub), SigMsg: msg, NowS: time.Now().Unix()}
	had := false
	c.nut.View(func(txn adb.Txn) error {
		_, e := c.w.bc.GetStakeSig(txn, n.Hash)
		had = e == nil
		return nil
	})
	func() {
		defer func() {
			if r := recover(); r != nil {
				op.Crashed = true
			}
		}()
		err = c.w.bc.HandleStakeSignature(st)
	}()
	op.SigStore = err == nil && !op.Crashed && !had
	if op.SigStore {
		c.sigBy[n.Hash] = op.SigKey
		c.stats["sig-stored"]++
	} else {
		c.stats["sig-refused"]++
	}
	op.Mp = c.mpIds()
	c.ops = append(c.ops, op)
	return op
}

// template asks the node for a block template (as NewStratumJob does), completes it and returns the block.
func (c *c9) template(rcpt address.Address) (*c9op, *TNode) {
	w := c.w
	w.bc.DB = c.nut
	op := &c9op{Kind: "template", Rcpt: rcpt, NowS: time.Now().Unix()}
	var bl *block.Block
	op.NowLo = util.Time()
	func() {
		defer func() {
			if r := recover(); r != nil {
				op.Crashed = true
			}
		}()
		err := c.nut.Update(func(txn adb.Txn) (err error) {
			bl, _, err = w.bc.GetBlockTemplate(txn, rcpt)
			return err
		})
		if err != nil {
			op.TplErr = true
		}
	}()
	op.NowHi = util.Time()
	op.Mp = c.mpIds()
	c.ops = append(c.ops, op)
	if op.Crashed || op.TplErr || bl == nil {
		op.TplErr = true
		c.stats["template-error"]++
		return op, nil
	}
	op.Tpl = bl
	op.TplTxs = append([]transaction.TXID{}, bl.Transactions...)
	// the miner's part: the transactions are read back from the node, the nonce is searched
	n := &TNode{Parent: w.byHash[bl.PrevHash()], Note: "template"}
	c.nut.View(func(txn adb.Txn) error {
		for _, id := range bl.Transactions {
			t, _, err := w.bc.GetTx(txn, id, bl.Height)
			if err != nil {
				panic(err)
			}
			n.Txs = append(n.Txs, t)
			m, ok := c.meta[id]
			if !ok {
				panic("template lists a transaction the harness never saw")
			}
			n.TxMeta = append(n.TxMeta, m)
		}
		return nil
	})
	if bl.StakeSignature != bitcrypto.BlankSignature {
		n.SigKey, n.SigMsg = c.sigBy[bl.BlockStakedHash()], bl.BlockStakedHash()
		c.stats["template-signed"]++
	}
	if len(bl.SideBlocks) > 0 {
		c.stats[fmt.Sprintf("template-sides-%d", len(bl.SideBlocks))]++
	}
	if len(bl.Transactions) > 0 {
		c.stats["template-with-txs"]++
	}
	n.Pow = mine(bl, false)
	seed := block.MiningBlob{Timestamp: bl.Timestamp}.GetSeed()
	for _, s := range bl.SideBlocks {
		n.SidePow = append(n.SidePow, powVal(randomvirel.PowHash(seed, s.MiningBlob().Serialize())))
	}
	n.Block = bl
	n.Hash = bl.Hash()
	n.Raw = w.serializeFull(bl, n.Txs)
	w.bc.DB = c.nut
	w.ids.H(n.Hash)
	return op, n
}

// mineTemplate = template + delivery of the completed block to the same node.
func (c *c9) mineTemplate(rcpt address.Address) (*c9op, *c9op) {
	top, n := c.template(rcpt)
	if n == nil {
		return top, nil
	}
	// the builder snapshot of the new block (lets later builder blocks extend it); the block joins the world here
	c.w.admit(n)
	d := c.deliver(n, true)
	if !d.Acc {
		c.TplRejected++
		c.stats["TEMPLATE-REJECTED"]++
		if os.Getenv("VERIF_DEBUG") != "" {
			blockchain.Log.SetLogLevel(1)
			c.w.deliverTo(c.nut, n)
			blockchain.Log.SetLogLevel(0)
		}
	} else {
		c.stats["template-accepted"]++
	}
	return top, d
}

// expire moves the expiry time of the given mempool entries into the past (as if MEMPOOL_EXPIRATION had elapsed for
// them); the node prunes them itself at the next serialisation of the mempool.
func (c *c9) expire(ids []transaction.TXID) *c9op {
	c.w.bc.DB = c.nut
	err := c.nut.Update(func(txn adb.Txn) error {
		mem := c.w.bc.GetMempool(txn)
		for _, e := range mem.Entries {
			for _, id := range ids {
				if e.TXID == id {
					e.Expires = 1
				}
			}
		}
		var buf bytes.Buffer
		if err := gob.NewEncoder(&buf).Encode(mem); err != nil {
			return err
		}
		return txn.Put(c.w.bc.Index.Info, []byte("mempool"), buf.Bytes())
	})
	if err != nil {
		panic(err)
	}
	op := &c9op{Kind: "expire", Ids: ids, NowS: time.Now().Unix(), Mp: c.mpIds()}
	c.ops = append(c.ops, op)
	c.stats["expire"]++
	return op
}

// ---------------------------------------------------------------- transaction construction

type pend struct {
	n        uint64 // pending mempool entries of the signer
	delegate uint64 // delegate id after the pending set-delegate entries
	staked   bool   // a stake entry is pending
}

func (c *c9) pending(wal *Wallet) pend {
	p := pend{}
	c.w.view(c.nut, func(v *View) { p.delegate = v.State(wal.Addr).DelegateId })
	for _, e := range c.mempool() {
		if e.Signer != wal.Addr {
			continue
		}
		p.n++
		t := c.txOf[e.TXID]
		if t == nil {
			continue
		}
		switch d := t.Data.(type) {
		case *transaction.SetDelegate:
			p.delegate = d.DelegateId
		case *transaction.Stake:
			p.staked = true
		}
	}
	return p
}

func (c *c9) nextHeight() uint64 {
	var h uint64
	c.w.view(c.nut, func(v *View) { h = v.Stats().TopHeight + 1 })
	return h
}

func (c *c9) finish(t *transaction.Transaction, wal *Wallet, extraFee uint64) (*transaction.Transaction, TxMeta) {
	t.Signer = wal.Pub
	t.Fee = config.FEE_PER_BYTE_V2*t.GetVirtualSize() + extraFee
	m := c.w.sign(t, wal)
	if c.comp != nil {
		c.comp[wal]++
	}
	return t, m
}

func (c *c9) nonceOf(wal *Wallet) uint64 {
	var n uint64
	c.w.view(c.nut, func(v *View) { n = v.State(wal.Addr).LastNonce })
	if c.comp != nil {
		return n + 1 + c.comp[wal] // composing another miner's block: the node's mempool plays no part
	}
	return n + 1 + c.pending(wal).n
}

func (c *c9) txTransfer(wal *Wallet, to address.Address, amt uint64) (*transaction.Transaction, TxMeta) {
	t := &transaction.Transaction{Version: transaction.TX_VERSION_TRANSFER, Nonce: c.nonceOf(wal),
		Data: &transaction.Transfer{Outputs: []transaction.Output{{Recipient: to, Amount: amt}}}}
	return c.finish(t, wal, 0)
}
func (c *c9) txRegister(wal *Wallet, id uint64) (*transaction.Transaction, TxMeta) {
	t := &transaction.Transaction{Version: transaction.TX_VERSION_REGISTER_DELEGATE, Nonce: c.nonceOf(wal),
		Data: &transaction.RegisterDelegate{Name: []byte(fmt.Sprintf("d%d", id)), Id: id}}
	return c.finish(t, wal, 0)
}
func (c *c9) txSetDelegate(wal *Wallet, id, prev uint64) (*transaction.Transaction, TxMeta) {
	t := &transaction.Transaction{Version: transaction.TX_VERSION_SET_DELEGATE, Nonce: c.nonceOf(wal),
		Data: &transaction.SetDelegate{DelegateId: id, PreviousDelegate: prev}}
	return c.finish(t, wal, 0)
}
func (c *c9) txStake(wal *Wallet, id, amt, prevUnlock uint64) (*transaction.Transaction, TxMeta) {
	t := &transaction.Transaction{Version: transaction.TX_VERSION_STAKE, Nonce: c.nonceOf(wal),
		Data: &transaction.Stake{Amount: amt, DelegateId: id, PrevUnlock: prevUnlock}}
	return c.finish(t, wal, 0)
}
func (c *c9) txUnstake(wal *Wallet, id, amt uint64) (*transaction.Transaction, TxMeta) {
	t := &transaction.Transaction{Version: transaction.TX_VERSION_UNSTAKE, Nonce: c.nonceOf(wal),
		Data: &transaction.Unstake{Amount: amt, DelegateId: id}}
	return c.finish(t, wal, 0)
}

func (c *c9) fundOf(wal *Wallet, id uint64) (amt, unlock uint64, ok bool) {
	c.w.view(c.nut, func(v *View) {
		if d := v.Delegate(id); d != nil {
			for _, f := range d.Funds {
				if f.Owner == wal.Addr {
					amt, unlock, ok = f.Amount, f.Unlock, true
					return
				}
			}
		}
	})
	return
}

// ---------------------------------------------------------------- chain construction with the builder

// grow extends the node's main chain by k builder blocks (mined to rotating wallets), with generated transactions.
func (c *c9) grow(k int, maxTx int) {
	for i := 0; i < k; i++ {
		p := c.top()
		spec := BlockSpec{TsDelta: c.delta(p), Recipient: c.w.wallets[int(p.Block.Height)%len(c.w.wallets)].Addr, Sign: 1}
		if maxTx > 0 {
			spec.Txs, spec.TxMeta, _ = c.w.genTxs(p, maxTx, 0)
		}
		n := c.w.build(p, spec)
		if op := c.addBuilt(n); !op.Acc {
			// refused: either the builder produced an invalid block (refused by the builder node as well), or a block the
			// builder node (linear history) accepts is refused by the node under test (recorded as an anomaly)
			if n.Valid {
				c.stats["BUILDER-VALID-BLOCK-REFUSED"]++
				c.anomaly(n)
			} else {
				// the harness's own block builder signed a block whose generated unstakes empty the entitled delegate
				c.stats["builder-made-invalid-block"]++
			}
			return
		}
	}
}

func (c *c9) anomaly(n *TNode) {
	f, err := os.OpenFile(os.Getenv("VERIF_C09_ANOMALIES"), os.O_APPEND|os.O_CREATE|os.O_WRONLY, 0o644)
	if err != nil {
		return
	}
	defer f.Close()
	fmt.Fprintf(f, "==== %s: builder block refused: builder-valid=%v height=%d txs=%d ts=%d now=%d\n", c.name, n.Valid, n.Block.Height, len(n.Txs), n.Block.Timestamp, util.Time())
	for _, t := range n.Txs {
		fmt.Fprintln(f, "  tx:", t.String())
	}
	save := blockchain.Log
	_ = save
	blockchain.Log.SetLogLevel(2)
	c.w.deliverTo(c.nut, n)
	blockchain.Log.SetLogLevel(0)
	for _, l := range c.trace() {
		fmt.Fprintln(f, l)
	}
}

// delta: builder blocks keep the usual spacing while that stays in the past, and crowd together once the chain
// has caught up with the clock (a template block carries the current time)
func (c *c9) delta(parent *TNode) uint64 {
	if parent.Block.Timestamp+40_000 < util.Time() {
		return 9_000 + c.w.rng.UpTo(6_000)
	}
	return 1 + c.w.rng.UpTo(3)
}

// buildOn makes one builder block with the given transactions on parent (not delivered).
func (c *c9) buildOn(parent *TNode, txs []*transaction.Transaction, metas []TxMeta, sign int, rcpt address.Address) *TNode {
	n := c.w.build(parent, BlockSpec{TsDelta: c.delta(parent), Recipient: rcpt, Txs: txs, TxMeta: metas, Sign: sign})
	return n
}

var _ = memdb.New
