package main

// Scenarios of family "c09". The scripted ones are the always-run corpus (each is the witness of one rule or one
// defect found by this check); the random ones walk the same operations with generated parameters.

import (
	"fmt"

	"github.com/virel-project/go-randomvirel"
	"github.com/virel-project/virel-blockchain/v3/address"
	"github.com/virel-project/virel-blockchain/v3/block"
	"github.com/virel-project/virel-blockchain/v3/config"
	"github.com/virel-project/virel-blockchain/v3/transaction"
	"github.com/virel-project/virel-blockchain/v3/util"
)

type txm struct {
	t *transaction.Transaction
	m TxMeta
}

func tm(t *transaction.Transaction, m TxMeta) txm { return txm{t, m} }

// block composes transactions against the node's current chain state (the mempool is ignored: builder blocks come
// from "another miner") and delivers a builder block carrying them.
func (c *c9) block(sign int, rcpt *Wallet, f func() []txm) *c9op {
	c.comp = map[*Wallet]uint64{}
	var list []txm
	if f != nil {
		list = f()
	}
	c.comp = nil
	var txs []*transaction.Transaction
	var metas []TxMeta
	for _, x := range list {
		txs = append(txs, x.t)
		metas = append(metas, x.m)
	}
	n := c.buildOn(c.top(), txs, metas, sign, rcpt.Addr)
	op := c.addBuilt(n)
	if !op.Acc {
		panic(fmt.Sprintf("scenario %s: builder block at height %d refused", c.name, n.Block.Height))
	}
	return op
}

func (c *c9) sub(x txm) *c9op { return c.submit(x.t, x.m) }

const coin = config.COIN

// setupStaked: heights 1..5 by "other miners". Delegate 2 (owner w0) and, when two, delegate 3 (owner w1);
// w0, w2 -> delegate 2, w1 -> delegate 3 (or 2); w0 stakes 5, w1 stakes 3 at height 5 (unlock height 7).
func (c *c9) setupStaked(two bool) {
	w := c.w.wallets
	c.block(0, w[0], nil)
	c.block(0, w[1], nil)
	c.block(0, w[2], func() []txm {
		l := []txm{tm(c.txRegister(w[0], 2))}
		if two {
			l = append(l, tm(c.txRegister(w[1], 3)))
		}
		return l
	})
	d1 := uint64(2)
	if two {
		d1 = 3
	}
	c.block(0, w[3], func() []txm {
		return []txm{tm(c.txSetDelegate(w[0], 2, 0)), tm(c.txSetDelegate(w[1], d1, 0)), tm(c.txSetDelegate(w[2], 2, 0))}
	})
	c.block(0, w[4], func() []txm {
		return []txm{tm(c.txStake(w[0], 2, 5*coin, 0)), tm(c.txStake(w[1], d1, 3*coin, 0))}
	})
}

// recover from a poisoned mempool (only reached while a defect is present): expire the entries, let another miner's
// block arrive (its connection re-serialises the mempool, which prunes them)
func (c *c9) unpoison() {
	if ids := c.mpIds(); len(ids) > 0 {
		c.expire(ids)
	}
	c.block(0, c.w.wallets[4], nil)
}

func (c *c9) mine(rcpt *Wallet) bool {
	_, d := c.mineTemplate(rcpt.Addr)
	return d != nil && d.Acc
}

// ---- R11a: unstake of a fund whose unlock height is the next height
func scenUnlockBoundary(c *c9) {
	w := c.w.wallets
	c.setupStaked(false)
	c.sub(tm(c.txUnstake(w[1], 2, 3*coin))) // next height 6 < unlock 7: refused
	c.mine(w[3])
	c.sub(tm(c.txUnstake(w[1], 2, 3*coin))) // next height 7 = unlock 7: the block at height 7 is applied with tip height 6 < 7
	if !c.mine(w[3]) {
		c.mine(w[3]) // every further template is refused as well
		c.block(0, w[4], nil)
	}
	c.sub(tm(c.txUnstake(w[0], 2, 2*coin))) // next height 8 > unlock: fine
	c.sub(tm(c.txUnstake(w[1], 2, 3*coin)))
	c.mine(w[3])
	c.mine(w[3])
}

// ---- R11b: a pending set-delegate of ANOTHER signer is applied to the current signer's simulated state
func scenForeignSetDelegate(c *c9) {
	w := c.w.wallets
	c.setupStaked(true)
	c.sub(tm(c.txSetDelegate(w[3], 2, 0)))      // w3: 0 -> 2, pending
	c.sub(tm(c.txStake(w[4], 2, 2*coin, 0)))    // w4 still has delegate 0: must not be admitted
	c.sub(tm(c.txSetDelegate(w[2], 3, 2)))      // w2: 2 -> 3 is fine, whatever w3's pending entry says
	c.sub(tm(c.txTransfer(w[2], w[4].Addr, 7))) // unrelated traffic
	if !c.mine(w[3]) {
		c.mine(w[3])
		c.unpoison()
	}
	c.sub(tm(c.txSetDelegate(w[4], 3, 0)))
	c.sub(tm(c.txStake(w[4], 3, 2*coin, 0))) // own pending set-delegate: fine
	c.sub(tm(c.txStake(w[3], 2, 2*coin, 0)))
	c.mine(w[0])
	c.mine(w[0])
}

// ---- R11c: two pending stakes of one signer: which unlock height does the second one have to name?
func scenRestake(c *c9) {
	w := c.w.wallets
	c.setupStaked(false)
	next := c.nextHeight()
	c.sub(tm(c.txStake(w[0], 2, coin, 7)))                              // fund unlock is 7
	c.sub(tm(c.txStake(w[0], 2, coin, next+config.STAKE_UNLOCK_TIME)))  // what the mempool simulation expects (before the fix)
	c.sub(tm(c.txStake(w[0], 2, coin, next-1+config.STAKE_UNLOCK_TIME))) // what ApplyStake will have written
	c.sub(tm(c.txStake(w[2], 2, coin, 99)))                              // new fund: PrevUnlock is not looked at
	c.sub(tm(c.txStake(w[2], 2, coin, next-1+config.STAKE_UNLOCK_TIME)))
	if !c.mine(w[3]) {
		c.mine(w[3])
		c.unpoison()
	}
	c.mine(w[3])
}

// ---- R12: a stored stake signature of a delegate that has been emptied since the lottery
func scenStaleStakeSig(c *c9, two bool) {
	w := c.w.wallets
	c.setupStaked(two)
	c.block(0, w[3], nil) // 6
	c.block(0, w[3], nil) // 7: funds unlocked from here on
	k := c.top()
	d := k.Block.NextDelegateId
	if d == 0 {
		panic("lottery without result although coins are staked")
	}
	owner := w[0]
	if d == 3 {
		owner = w[1]
	}
	c.stakeSig(k, owner, d, k.Hash)
	// everybody leaves delegate d
	if d == 2 {
		c.sub(tm(c.txUnstake(w[0], 2, 5*coin)))
		if !two {
			c.sub(tm(c.txUnstake(w[1], 2, 3*coin)))
		}
	} else {
		c.sub(tm(c.txUnstake(w[1], 3, 3*coin)))
	}
	c.mine(w[4]) // 8
	c.mine(w[4]) // 9
	if !c.mine(w[4]) { // 10: entitled delegate = d, signature on file
		c.mine(w[4])
		c.block(0, w[4], nil)
	}
	c.mine(w[4])
}

// ---- R12, same block: the delegate is emptied by transactions of the very block that carries its signature
func scenStakeSigSameBlock(c *c9, two bool) {
	w := c.w.wallets
	c.setupStaked(two)
	c.block(0, w[3], nil) // 6
	c.block(0, w[3], nil) // 7
	k := c.top()
	d := k.Block.NextDelegateId
	owner := w[0]
	if d == 3 {
		owner = w[1]
	}
	c.stakeSig(k, owner, d, k.Hash)
	c.mine(w[4]) // 8
	c.mine(w[4]) // 9
	if d == 2 {
		c.sub(tm(c.txUnstake(w[0], 2, 5*coin)))
		if !two {
			c.sub(tm(c.txUnstake(w[1], 2, 3*coin)))
		}
	} else {
		c.sub(tm(c.txUnstake(w[1], 3, 3*coin)))
	}
	if !c.mine(w[4]) { // 10: signature of d on file, the pending transactions empty d
		c.mine(w[4])
		c.unpoison()
	}
	c.mine(w[4])
}

// ---- open finding R13a seen from the miner's side: the tip is a block whose ancestor slot 1 is not its grandparent
// (checkBlock never compares the slots); the template copies that slot into its entitlement slot
func scenWrongAncestorsTip(c *c9) {
	w := c.w.wallets
	c.grow(5, 0)
	x := c.w.build(c.top(), BlockSpec{TsDelta: c.delta(c.top()), Recipient: w[1].Addr, Corrupt: "anc1"})
	if op := c.addBuilt(x); !op.Acc {
		return // the rule exists now: nothing to see
	}
	c.sub(tm(c.txTransfer(w[0], w[1].Addr, coin)))
	c.mine(w[2])
	c.mine(w[2])
}

// ---- all kinds, several signers interleaved, everything through the mempool; stake signatures on file
func scenHappy(c *c9) {
	w := c.w.wallets
	c.block(0, w[0], nil)
	c.block(0, w[1], nil)
	c.sub(tm(c.txTransfer(w[0], w[3].Addr, 20*coin)))
	c.sub(tm(c.txRegister(w[0], 2)))
	c.sub(tm(c.txTransfer(w[1], w[3].Addr, coin)))
	c.sub(tm(c.txRegister(w[1], 3)))
	c.sub(tm(c.txRegister(w[1], 2))) // taken by the pending entry
	c.mine(w[2])                     // 3
	c.sub(tm(c.txSetDelegate(w[0], 2, 0)))
	c.sub(tm(c.txSetDelegate(w[3], 2, 0)))
	c.sub(tm(c.txSetDelegate(w[1], 3, 0)))
	c.sub(tm(c.txStake(w[0], 2, 5*coin, 0))) // after the own pending set-delegate
	c.sub(tm(c.txTransfer(w[3], address.NewDelegateAddress(2), 5)))
	c.sub(tm(c.txSetDelegate(w[3], 3, 2))) // chain of two pending set-delegates
	c.mine(w[4])                           // 4
	c.sub(tm(c.txStake(w[1], 3, 3*coin, 0)))
	c.sub(tm(c.txStake(w[3], 3, 2*coin, 5)))
	c.sub(tm(c.txUnstake(w[0], 2, coin))) // locked
	c.mine(w[2])                          // 5
	for i := 0; i < 6; i++ {
		k := c.top()
		if d := k.Block.NextDelegateId; d != 0 {
			c.stakeSig(k, w[int(d)-2], d, k.Hash)
			c.stakeSig(k, w[int(d)-2], d, k.Hash) // duplicate
		}
		nh := c.nextHeight()
		switch i {
		case 0:
			c.sub(tm(c.txTransfer(w[2], w[4].Addr, 3*coin)))
			c.stakeSig(k, w[4], k.Block.NextDelegateId, k.Hash)   // wrong key
			c.stakeSig(k, w[0], k.Block.NextDelegateId+1, k.Hash) // wrong delegate
		case 1:
			if _, u, ok := c.fundOf(w[0], 2); ok {
				c.sub(tm(c.txStake(w[0], 2, coin, u)))
			}
		case 2, 3, 4:
			for j, wl := range []*Wallet{w[0], w[1], w[3]} {
				did := uint64(2)
				if j > 0 {
					did = 3
				}
				if a, u, ok := c.fundOf(wl, did); ok && (int(nh)+j)%2 == 0 {
					_ = u
					c.sub(tm(c.txUnstake(wl, did, a/3+config.FEE_PER_BYTE_V2*200)))
				}
			}
			c.sub(tm(c.txTransfer(w[4], w[2].Addr, coin/2)))
		}
		c.mine(w[i%5])
	}
}

// ---- reorganisation: transactions of disconnected blocks return, those of connected blocks leave
func scenReorg(c *c9) {
	w := c.w.wallets
	c.setupStaked(false)
	fork := c.top()
	a := tm(c.txTransfer(w[2], w[3].Addr, coin))
	b := tm(c.txTransfer(w[3], w[2].Addr, 2*coin))
	s := tm(c.txStake(w[2], 2, 2*coin, 0))
	c.sub(a)
	c.sub(b)
	c.mine(w[4]) // A6: a, b
	c.sub(s)
	c.sub(tm(c.txTransfer(w[3], w[4].Addr, 5)))
	c.mine(w[4]) // A7: s, transfer
	c.sub(tm(c.txTransfer(w[4], w[0].Addr, 11))) // stays pending across the reorganisation
	// the other miners' branch from height 5: contains a (same transaction) and a transaction of w3 that
	// conflicts with b (same nonce)
	c.comp = map[*Wallet]uint64{}
	saveNut := c.nut
	c.nut = fork.Snap // compose against the fork point's state
	conflict := tm(c.txTransfer(w[3], w[1].Addr, 3*coin))
	c.nut = saveNut
	c.comp = nil
	p := fork
	for i := 0; i < 6; i++ {
		var txs []*transaction.Transaction
		var ms []TxMeta
		if i == 0 {
			txs, ms = []*transaction.Transaction{a.t, conflict.t}, []TxMeta{a.m, conflict.m}
		}
		n := c.buildOn(p, txs, ms, 0, w[1].Addr)
		op := c.addBuilt(n)
		p = n
		if len(op.Disc) > 0 {
			break
		}
	}
	c.mine(w[4]) // b conflicts now, s and the two small transfers are fine
	c.mine(w[4])
}

// ---- candidate side blocks among the tips
func scenSideTips(c *c9) {
	w := c.w.wallets
	c.grow(5, 0)
	top := c.top()
	s1 := c.buildOn(top.Parent, nil, nil, 0, w[1].Addr)
	c.addBuilt(s1) // sibling of the tip
	c.mine(w[0])   // 6 with side block s1
	c.mine(w[0])   // 7: s1 is already referenced
	t7 := c.top()
	s2 := c.buildOn(t7.Parent, nil, nil, 0, w[2].Addr)
	s3 := c.buildOn(t7.Parent, nil, nil, 0, w[3].Addr)
	s4 := c.buildOn(t7.Parent.Parent, nil, nil, 0, w[3].Addr)
	c.addBuilt(s2)
	c.addBuilt(s3)
	c.addBuilt(s4)
	s5 := c.buildOn(s4, nil, nil, 0, w[3].Addr) // extends the tip s4 (tip entry keeps its old key)
	c.addBuilt(s5)
	c.mine(w[0]) // three or four candidates, two places
	c.mine(w[0])
	c.mine(w[0])
}

// twin returns a second block with the same proof of work as s: only NextDelegateId differs, a field that neither the
// base hash nor the mining blob covers (and that is only checked when a block is applied to the main chain)
func (c *c9) twin(s *TNode) *TNode {
	bl := *s.Block
	bl.NextDelegateId += 7
	n := &TNode{Block: &bl, Parent: s.Parent, Pow: s.Pow, SidePow: s.SidePow, Note: "twin"}
	n.Hash = bl.Hash()
	n.Raw = c.w.serializeFull(&bl, nil)
	c.w.ids.H(n.Hash)
	return n
}

// twinTs: the same block with another timestamp (same base hash, nonce and extra nonce: a duplicate for the
// three-field test of PrevalidateBlock and of the template builder, but not for Commitment.Equals) whose proof of work
// still holds; nil when no nearby timestamp gives a valid proof of work under the same nonce
func (c *c9) twinTs(s *TNode) *TNode {
	for d := uint64(1); d < 400; d++ {
		bl := *s.Block
		bl.Timestamp += d
		if block.GetSeedhashId(bl.Timestamp) != block.GetSeedhashId(s.Block.Timestamp) {
			return nil
		}
		mb := bl.Commitment().MiningBlob()
		h := randomvirel.PowHash(mb.GetSeed(), mb.Serialize())
		if !block.ValidPowHash32(h, bl.Difficulty) {
			continue
		}
		n := &TNode{Block: &bl, Parent: s.Parent, Pow: powVal(h), SidePow: s.SidePow, Note: "twin-ts"}
		n.Hash = bl.Hash()
		n.Raw = c.w.serializeFull(&bl, nil)
		c.w.ids.H(n.Hash)
		return n
	}
	return nil
}

// ---- two tips that differ in the timestamp only
func scenTwinTsSideBlocks(c *c9) {
	w := c.w.wallets
	c.grow(5, 0)
	top := c.top()
	s := c.buildOn(top.Parent, nil, nil, 0, w[1].Addr)
	c.addBuilt(s)
	if t := c.twinTs(s); t != nil {
		c.addBuilt(t)
	} else {
		c.stats["twin-ts-not-found"]++
	}
	if !c.mine(w[0]) {
		c.mine(w[0])
	}
	c.mine(w[0])
}

// ---- two tips with equal commitments
func scenTwinSideBlocks(c *c9) {
	w := c.w.wallets
	c.grow(5, 0)
	top := c.top()
	s := c.buildOn(top.Parent, nil, nil, 0, w[1].Addr)
	c.addBuilt(s)
	c.addBuilt(c.twin(s))
	if !c.mine(w[0]) {
		c.mine(w[0])
	}
	c.mine(w[0])
}

// ---- a block that takes transactions of the mempool with it and is refused only when it is applied (a later transaction of
// it has a nonce gap): the refusal must leave the mempool as it was - also for the next operations, which read it again
func scenRefusedBlockWithMempoolTxs(c *c9) {
	w := c.w.wallets
	c.setupStaked(false)
	t1 := tm(c.txTransfer(w[2], w[3].Addr, coin))
	c.sub(t1)
	t2 := tm(c.txTransfer(w[3], w[2].Addr, coin))
	c.sub(t2)
	t3 := tm(c.txTransfer(w[4], w[2].Addr, coin))
	c.sub(t3)
	// another miner's block: t1, t3 and a transfer of w0 whose nonce skips one
	bad := &transaction.Transaction{Version: transaction.TX_VERSION_TRANSFER, Nonce: c.nonceOf(w[0]) + 1,
		Data: &transaction.Transfer{Outputs: []transaction.Output{{Recipient: w[1].Addr, Amount: coin}}}}
	bx, bm := c.finish(bad, w[0], 0)
	blk := c.buildOn(c.top(), []*transaction.Transaction{t1.t, t3.t, bx}, []TxMeta{t1.m, t3.m, bm}, 0, w[1].Addr)
	c.addBuilt(blk) // refused
	c.sub(t1)       // known transaction: silently ignored; the mempool is read again
	c.block(0, w[1], nil)
	c.mine(w[4]) // the node's own template: t1, t2, t3
	c.mine(w[4])
}

// ---- expiry
func scenExpiry(c *c9) {
	w := c.w.wallets
	c.setupStaked(false)
	x1 := tm(c.txTransfer(w[2], w[3].Addr, coin))
	c.sub(x1)
	x2 := tm(c.txTransfer(w[3], w[2].Addr, coin))
	c.sub(x2)
	x3 := tm(c.txTransfer(w[4], w[2].Addr, coin))
	c.sub(x3)
	c.expire([]transaction.TXID{x1.t.Hash(), x3.t.Hash()})
	c.sub(tm(c.txTransfer(w[0], w[2].Addr, coin))) // the admission re-serialises the mempool: x1, x3 pruned
	c.sub(x1)                                       // known transaction: silently ignored
	c.mine(w[4])
	x4 := tm(c.txTransfer(w[2], w[3].Addr, coin))
	c.sub(x4)
	c.expire([]transaction.TXID{x4.t.Hash()})
	c.mine(w[4]) // the template still lists x4 (nothing was serialised in between); connecting the block removes it
	c.mine(w[4])
}

// ---- more pending transactions than fit into one block
func scenSizeCap(c *c9) {
	w := c.w.wallets
	c.setupStaked(true)
	c.block(0, w[3], nil)
	c.block(0, w[3], nil)
	c.block(0, w[3], nil)
	// w3 has no funds staked and plenty of coins: set-delegate transactions have the largest virtual size
	cur := uint64(0)
	for i := 0; i < 64; i++ {
		nd := uint64(2 + i%2)
		c.sub(tm(c.txSetDelegate(w[3], nd, cur)))
		cur = nd
	}
	c.sub(tm(c.txTransfer(w[2], w[4].Addr, 9)))
	c.mine(w[4])
	c.mine(w[4])
}

// ---------------------------------------------------------------- random walks

func (c *c9) randTx() (txm, bool) {
	r := c.w.rng
	w := c.w.wallets
	wal := w[r.Intn(len(w))]
	p := c.pending(wal)
	next := c.nextHeight()
	var bal uint64
	var dels []uint64
	c.w.view(c.nut, func(v *View) {
		bal = v.State(wal.Addr).Balance
		for d := uint64(1); d < 8; d++ {
			if v.Delegate(d) != nil {
				dels = append(dels, d)
			}
		}
	})
	for _, e := range c.mempool() {
		if t := c.txOf[e.TXID]; t != nil {
			if d, ok := t.Data.(*transaction.RegisterDelegate); ok {
				dels = append(dels, d.Id)
			}
		}
	}
	if bal < 4*coin {
		return txm{}, false
	}
	kind := 1 + r.Intn(5)
	if next < config.HARDFORK_V3_HEIGHT {
		kind = 1
	}
	if r.Intn(100) < 55 {
		switch {
		case len(dels) == 0:
			kind = 2
		case p.delegate == 0:
			kind = 3
		default:
			kind = 4 + r.Intn(2)
		}
	}
	amt, unlock, has := c.fundOf(wal, p.delegate)
	T := uint64(config.STAKE_UNLOCK_TIME)
	switch kind {
	case 2:
		id := uint64(2 + r.Intn(5))
		return tm(c.txRegister(wal, id)), true
	case 3:
		if len(dels) == 0 {
			return txm{}, false
		}
		nd := dels[r.Intn(len(dels))]
		prev := p.delegate
		if r.Intn(6) == 0 {
			c.w.view(c.nut, func(v *View) { prev = v.State(wal.Addr).DelegateId })
		}
		return tm(c.txSetDelegate(wal, nd, prev)), true
	case 4:
		did := p.delegate
		if did == 0 || r.Intn(10) == 0 {
			if len(dels) == 0 {
				return txm{}, false
			}
			did = dels[r.Intn(len(dels))]
		}
		pu := unlock
		if p.staked || !has {
			pu = []uint64{next + T, next - 1 + T, unlock, r.UpTo(12)}[r.Intn(4)]
		} else if r.Intn(8) == 0 {
			pu = unlock + 1
		}
		a := coin + r.UpTo(bal/4)
		if a+3*coin > bal {
			a = coin
		}
		return tm(c.txStake(wal, did, a, pu)), true
	case 5:
		did := p.delegate
		if did == 0 {
			return txm{}, false
		}
		a := amt
		if !has {
			a = coin
		} else if r.Intn(2) == 0 {
			a = amt/2 + config.FEE_PER_BYTE_V2*200
		}
		if r.Intn(12) == 0 {
			a = amt + 1
		}
		return tm(c.txUnstake(wal, did, a)), true
	}
	var to address.Address
	switch r.Intn(6) {
	case 0:
		to = address.NewDelegateAddress(uint64(1 + r.Intn(4)))
	case 1:
		to = wal.Addr
	default:
		to = w[r.Intn(len(w))].Addr
	}
	a := r.UpTo(bal / 5)
	if r.Intn(15) == 0 {
		a = bal // more than can be paid once the fee is added
	}
	return tm(c.txTransfer(wal, to, a)), true
}

func scenRandom(c *c9) {
	r := c.w.rng
	w := c.w.wallets
	c.grow(6+r.Intn(5), 3)
	rounds := 4 + r.Intn(4)
	for i := 0; i < rounds; i++ {
		// stake signatures for the last blocks
		x := c.top()
		for back := 0; back < 3 && x != nil && x.Parent != nil; back, x = back+1, x.Parent {
			d := x.Block.NextDelegateId
			if d == 0 || r.Intn(100) < 40 {
				continue
			}
			var owner *Wallet
			c.w.view(c.nut, func(v *View) {
				if dl := v.Delegate(d); dl != nil {
					owner = c.w.walletOfKey(dl.Owner)
				}
			})
			if owner == nil {
				continue
			}
			if _, done := c.sigBy[x.Hash]; done && r.Intn(4) != 0 {
				continue
			}
			switch r.Intn(10) {
			case 0:
				c.stakeSig(x, w[r.Intn(len(w))], d, x.Hash)
			case 1:
				c.stakeSig(x, owner, d, x.Parent.Hash)
			default:
				c.stakeSig(x, owner, d, x.Hash)
			}
		}
		ns := r.Intn(6)
		for j := 0; j < ns; j++ {
			if t, ok := c.randTx(); ok {
				c.sub(t)
			}
		}
		switch r.Intn(10) {
		case 0, 1: // another miner's block arrives first (its transactions may conflict with pending ones)
			c.grow(1, 3)
		case 2, 3: // a sibling of the tip or of its parent: candidate side block
			top := c.top()
			par := top.Parent
			if r.Intn(2) == 0 && par.Parent != nil {
				par = par.Parent
			}
			if par != nil && par.Snap != nil {
				txs, ms, _ := c.w.genTxs(par, 2, 0)
				c.addBuilt(c.buildOn(par, txs, ms, 1, w[r.Intn(len(w))].Addr))
			}
		case 4: // competing branch that overtakes
			top := c.top()
			p := top.Parent
			if r.Intn(2) == 0 && p != nil && p.Parent != nil && p.Parent.Parent != nil {
				p = p.Parent
			}
			for k := 0; k < 5 && p != nil && p.Snap != nil; k++ {
				txs, ms, _ := c.w.genTxs(p, 2, 0)
				n := c.buildOn(p, txs, ms, 1, w[r.Intn(len(w))].Addr)
				op := c.addBuilt(n)
				p = n
				if len(op.Disc) > 0 || !n.Valid {
					break
				}
			}
		case 5:
			if ids := c.mpIds(); len(ids) > 0 {
				c.expire([]transaction.TXID{ids[r.Intn(len(ids))]})
			}
		}
		if !c.mine(w[r.Intn(len(w))]) {
			c.unpoison()
		}
	}
}

var _ = util.Time
