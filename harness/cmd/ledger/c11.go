package main

// C11 family: a node connected to a peer with a heavier valid chain catches up to it.
// The parent process builds one block tree (verifnet), describes the scenarios, runs every scenario in a child
// process on live nodes (so that a crash, a deadlock report or a data-race report of node code is an observation,
// not the end of the harness), and emits one case per scenario run.

import (
	"bytes"
	"encoding/json"
	"fmt"
	"os"
	"os/exec"
	"path/filepath"
	"strings"
	"sync"
	"time"

	"verifharness/coqgen"
	"verifharness/hutil"

	"github.com/virel-project/virel-blockchain/v3/address"
	"github.com/virel-project/virel-blockchain/v3/bitcrypto"
	"github.com/virel-project/virel-blockchain/v3/transaction"
	"github.com/virel-project/virel-blockchain/v3/util"
)

type c11Tree struct {
	w       *World
	main    []*TNode          // main[h] = block of height h (main[0] = genesis)
	forks   map[int][]*TNode  // depth -> branch a (first block's parent is main[forkK-depth])
	forkK   int
	weightJ int
	weightU []*TNode // unsigned branch on main[weightJ]
	weightA int      // A holds main[1..weightA]
	llOurs   []*TNode // long light fork: 14 blocks 100 ms apart on genesis (difficulty rises every block)
	llTheirs []*TNode // long light fork: 75 blocks 15 s apart on genesis (minimal difficulty); heavier than llOurs only above height 14+51
	invalid map[string]*TNode
	extra   *TNode // c12pk: a valid block on the tip that the node has not seen
	badTx   [][]byte
	idx     map[*TNode]int
	file    *TreeFile
	now     uint64
}

func (t *c11Tree) add(n *TNode) int {
	if i, ok := t.idx[n]; ok {
		return i
	}
	i := len(t.file.Blocks)
	t.idx[n] = i
	p := 0
	if n.Parent != nil {
		p = t.idx[n.Parent]
	}
	var txs [][]byte
	for _, x := range n.Txs {
		txs = append(txs, x.Serialize())
	}
	t.file.Blocks = append(t.file.Blocks, TreeBlock{Raw: n.Raw, Hash: n.Hash, Height: n.Block.Height, Parent: p, Txs: txs,
		CDHi: n.Block.CumulativeDiff.Hi, CDLo: n.Block.CumulativeDiff.Lo})
	return i
}

func (t *c11Tree) ids(ns []*TNode) []int {
	out := []int{}
	for _, n := range ns {
		if n.Parent != nil {
			out = append(out, t.idx[n])
		}
	}
	return out
}

func signed(n *TNode) bool { return n.Block.StakeSignature != bitcrypto.BlankSignature }

// validBlock builds a valid block on parent (retrying without transactions if the generated ones are refused).
func (w *World) validBlock(parent *TNode, sign int, tsDelta uint64, withTx bool) *TNode {
	for try := 0; try < 6; try++ {
		spec := BlockSpec{TsDelta: tsDelta, Recipient: w.wallets[w.rng.Intn(3)].Addr, Sign: sign}
		if try >= 4 {
			// the entitled pool may have been emptied since it was drawn (its signature is then worthless): an unsigned block
			spec.Sign = 0
		}
		if withTx && try < 2 {
			spec.Txs, spec.TxMeta, _ = w.genTxs(parent, 3, 0)
		}
		n := w.build(parent, spec)
		w.admit(n)
		if n.Valid {
			return n
		}
	}
	if os.Getenv("VERIF_DEBUG") != "" {
		n := w.build(parent, BlockSpec{TsDelta: tsDelta, Recipient: w.wallets[0].Addr, Sign: sign})
		w.bc.DB = parent.Snap.Snapshot()
		st, _, err := w.bc.VerifDeliverRaw(n.Raw)
		fmt.Fprintf(os.Stderr, "validBlock: parent height %d sign=%d stage=%d err=%v\n", parent.Block.Height, sign, st, err)
	}
	panic("c11: could not build a valid block")
}

func buildC11Tree(rng *hutil.Rng, nMain int, depths []int) *c11Tree {
	w := worldFromShared(rng, 5)
	t := &c11Tree{w: w, forks: map[int][]*TNode{}, invalid: map[string]*TNode{}, idx: map[*TNode]int{}, file: &TreeFile{Invalid: map[string][]byte{}}}
	t.idx[w.genesis] = 0
	t.file.Blocks = []TreeBlock{{Hash: w.genesis.Hash, CDLo: w.genesis.Block.CumulativeDiff.Lo}}
	t.main = []*TNode{w.genesis}
	for h := 1; h <= nMain; h++ {
		n := w.validBlock(t.main[h-1], 1, 9000+rng.UpTo(3000), true)
		t.main = append(t.main, n)
		t.add(n)
	}
	// competing branches: B holds main[1..K]; branch of depth d leaves main at K-d and is extended until heavier
	t.forkK = 12
	if nMain < t.forkK {
		t.forkK = nMain
	}
	for _, d := range depths {
		if d >= t.forkK {
			continue
		}
		cur := t.main[t.forkK-d]
		var br []*TNode
		for len(br) < d+1 || cur.Block.CumulativeDiff.Cmp(t.main[t.forkK].Block.CumulativeDiff) <= 0 {
			cur = w.validBlock(cur, 1, 8000+rng.UpTo(2000), len(br)%2 == 0)
			br = append(br, cur)
			t.add(cur)
			if len(br) > 4*d+12 {
				break
			}
		}
		t.forks[d] = br
	}
	// heavier by stake weight, not by height: find J with main[J+1], main[J+2] signed; B = main[..J] + 3 unsigned blocks
	for j := 6; j+3 <= nMain && j < 40; j++ {
		if signed(t.main[j+1]) && signed(t.main[j+2]) && signed(t.main[j+3]) {
			cur := t.main[j]
			var u []*TNode
			for k := 0; k < 3; k++ {
				cur = w.validBlock(cur, 0, 9500, false)
				u = append(u, cur)
			}
			// A shorter than B and heavier if possible, else equally high and heavier
			for _, ha := range []int{j + 2, j + 3} {
				if t.main[ha].Block.CumulativeDiff.Cmp(cur.Block.CumulativeDiff) > 0 {
					t.weightJ, t.weightU, t.weightA = j, u, ha
					break
				}
			}
			if t.weightJ != 0 {
				for _, n := range u {
					t.add(n)
				}
				break
			}
		}
	}
	// invalid payloads on top of main[K] (what a scripted peer relays to a node whose tip is main[K])
	base := t.main[t.forkK]
	for _, c := range []string{"bad-pow", "diff+1", "cumdiff+1", "ts-before-parent"} {
		n := w.build(base, BlockSpec{TsDelta: 9000, Recipient: w.wallets[0].Addr, Sign: 1, Corrupt: c})
		w.admit(n)
		if n.Valid {
			panic("c11: corrupted block " + c + " was accepted by the builder")
		}
		t.invalid[c] = n
		t.file.Invalid[c] = n.Raw
	}
	// a block carrying a transaction with a wrong signature
	if tx := w.c11BadSigTx(base); tx != nil {
		n := w.build(base, BlockSpec{TsDelta: 9000, Recipient: w.wallets[0].Addr, Sign: 1, Txs: []*transaction.Transaction{tx},
			TxMeta: []TxMeta{{SigBy: 0, MsgOK: false, Note: "sig-bit"}}})
		w.admit(n)
		if n.Valid {
			panic("c11: block with a badly signed transaction was accepted by the builder")
		}
		t.invalid["bad-sig-tx"] = n
		t.file.Invalid["bad-sig-tx"] = n.Raw
		t.file.BadTx = append(t.file.BadTx, tx.Serialize())
	}
	t.file.BadTx = append(t.file.BadTx, rng.Bytes(120), []byte{1, 2, 3}, []byte{})
	t.file.Invalid["garbage"] = rng.Bytes(300)
	t.file.Invalid["truncated"] = t.main[t.forkK].Raw[:len(t.main[t.forkK].Raw)/2]
	// long light fork (Proofs/Sync2Stuck.v, livelock 1): two branches on genesis, unsigned blocks without transactions.
	// B's branch: 14 blocks 100 ms apart; A's branch: 75 blocks 15 s apart.  A's branch is heavier in total, but at
	// height 14 + PARALLEL_BLOCKS_DOWNLOAD + 1 = 65 it is still lighter than B's tip; the control gives B only 13 blocks.
	cur := w.genesis
	for k := 0; k < 14; k++ {
		cur = w.validBlock(cur, 0, 100, false)
		t.llOurs = append(t.llOurs, cur)
		t.add(cur)
	}
	cur = w.genesis
	for k := 0; k < 75; k++ {
		cur = w.validBlock(cur, 0, 15000, false)
		t.llTheirs = append(t.llTheirs, cur)
		t.add(cur)
	}
	oursCD, ctlCD := t.llOurs[13].Block.CumulativeDiff, t.llOurs[12].Block.CumulativeDiff
	if !(t.llTheirs[64].Block.CumulativeDiff.Cmp(oursCD) <= 0 && t.llTheirs[74].Block.CumulativeDiff.Cmp(oursCD) > 0 &&
		t.llTheirs[63].Block.CumulativeDiff.Cmp(ctlCD) > 0) {
		panic("c11: the long light fork does not have the intended cumulative difficulties")
	}
	return t
}

// c11BadSigTx: a transfer from a funded wallet, valid on top of parent except for one flipped signature bit.
func (w *World) c11BadSigTx(parent *TNode) *transaction.Transaction {
	var out *transaction.Transaction
	w.view(parent.Snap, func(v *View) {
		for _, wal := range w.wallets {
			s := v.State(wal.Addr)
			t := &transaction.Transaction{Version: transaction.TX_VERSION_TRANSFER, Signer: wal.Pub, Nonce: s.LastNonce + 1,
				Data: &transaction.Transfer{Outputs: []transaction.Output{{Recipient: address.GenesisAddress, Amount: 1}}}}
			t.Fee = minFee(parent.Block.Height+1, t.GetVirtualSize())
			if s.Balance > t.Fee+1 {
				w.sign(t, wal)
				t.Signature[7] ^= 4
				out = t
				return
			}
		}
	})
	return out
}

func seq(t *c11Tree, upto int) []int { return t.ids(t.main[1 : upto+1]) }

func (t *c11Tree) scenarios(tier string) []*Scen {
	nMain := len(t.main) - 1
	K := t.forkK
	var sc []*Scen
	add := func(s *Scen) {
		s.Id = len(sc)
		if s.TimeoutMs == 0 {
			s.TimeoutMs = 20000
		}
		if s.Expect == "" {
			s.Expect = "sync"
		}
		if s.Dir == "" {
			s.Dir = "b"
		}
		sc = append(sc, s)
	}
	small := 30
	if small > nMain {
		small = nMain
	}
	// ---- pairs, no faults ----
	add(&Scen{Name: "genesis-full", Kind: "pair", Shape: fmt.Sprintf("genesis/N=%d", nMain), A: seq(t, nMain), Ref: seq(t, nMain), TimeoutMs: 30000})
	for _, n := range []int{1, 52} {
		if n <= nMain {
			add(&Scen{Name: fmt.Sprintf("genesis-N%d", n), Kind: "pair", Shape: fmt.Sprintf("genesis/N=%d", n), A: seq(t, n), Ref: seq(t, n),
				Dir: []string{"a", "b"}[n%2], DelayMs: t.w.rng.Intn(120)})
		}
	}
	add(&Scen{Name: "genesis-short-clientloop", Kind: "pair", Shape: "genesis/N=7", A: seq(t, 7), Ref: seq(t, 7), Dir: "client", DelayMs: 50})
	add(&Scen{Name: "prefix-a-dials", Kind: "pair", Shape: fmt.Sprintf("prefix/%d->%d", K, small), A: seq(t, small), B: seq(t, K), Ref: seq(t, small), Dir: "a"})
	for d, br := range t.forks {
		if tier == "quick" && d != 1 && d != 3 {
			continue
		}
		a := append(seq(t, K-d), t.ids(br)...)
		add(&Scen{Name: fmt.Sprintf("fork-depth-%d", d), Kind: "pair", Shape: fmt.Sprintf("fork%d", d), A: a, B: seq(t, K), Ref: a, TimeoutMs: 25000 + 8000*d})
	}
	// the peer's branch overtakes ours only more than PARALLEL_BLOCKS_DOWNLOAD + 1 blocks above our height; control: it
	// overtakes within that window
	add(&Scen{Name: "long-light-fork", Kind: "pair", Shape: "longlight/hA=75/hB=14", A: t.ids(t.llTheirs), B: t.ids(t.llOurs), Ref: t.ids(t.llTheirs), TimeoutMs: 120000})
	add(&Scen{Name: "long-light-control", Kind: "pair", Shape: "longlight/hA=75/hB=13", A: t.ids(t.llTheirs), B: t.ids(t.llOurs[:13]), Ref: t.ids(t.llTheirs), TimeoutMs: 120000})
	if t.weightJ != 0 {
		b := append(seq(t, t.weightJ), t.ids(t.weightU)...)
		add(&Scen{Name: "heavier-by-stake-weight", Kind: "pair", Shape: fmt.Sprintf("weight/hA=%d/hB=%d", t.weightA, t.weightJ+3), A: seq(t, t.weightA), B: b, Ref: seq(t, t.weightA), TimeoutMs: 25000})
	}
	add(&Scen{Name: "grow-while-syncing", Kind: "pair", Shape: "genesis+grow", A: seq(t, small-8), Grow: t.ids(t.main[small-7 : small+1]), Param: 120, Ref: seq(t, small)})
	add(&Scen{Name: "kick-mid-sync", Kind: "pair", Shape: "genesis+kick", A: seq(t, small), Ref: seq(t, small), Fault: "kick", Param: 5})
	add(&Scen{Name: "close-mid-sync", Kind: "pair", Shape: fmt.Sprintf("genesis/N=%d+close", nMain), A: seq(t, nMain), Ref: seq(t, nMain), Fault: "close-mid-sync", Param: 3, Expect: "none"})
	// ---- relay faults (real A behind a frame-level relay) ----
	add(&Scen{Name: "relay-cut-reconnect", Kind: "relay", Shape: "genesis+cut", A: seq(t, nMain), Ref: seq(t, nMain), Fault: "cut", Param: 20, TimeoutMs: 45000})
	add(&Scen{Name: "relay-duplicate-frames", Kind: "relay", Shape: "genesis+dup", A: seq(t, small), Ref: seq(t, small), Fault: "dup"})
	add(&Scen{Name: "relay-reorder-frames", Kind: "relay", Shape: "genesis+reorder", A: seq(t, small), Ref: seq(t, small), Fault: "reorder"})
	// ---- scripted peer ----
	add(&Scen{Name: "fake-reverse-order", Kind: "fake", Shape: "genesis+reverse", FakeChain: seq(t, small), Ref: seq(t, small), Fault: "reverse"})
	add(&Scen{Name: "fake-duplicates", Kind: "fake", Shape: "prefix+dup", B: seq(t, K), FakeChain: seq(t, small), Ref: seq(t, small), Fault: "dup"})
	far := []string{fmt.Sprintf("tree:%d", t.idx[t.main[small]]), fmt.Sprintf("tree:%d", t.idx[t.main[small-3]]), fmt.Sprintf("tree:%d", t.idx[t.main[2]])}
	add(&Scen{Name: "fake-unsolicited-then-honest", Kind: "fake", Shape: "prefix+unsolicited", B: seq(t, K), FakeChain: seq(t, small), Ref: seq(t, small), FakePush: far, Fault: "unsolicited"})
	if nMain > 52 {
		// STATS packets overtake each other (every broadcast is its own goroutine): an older announcement arrives last
		add(&Scen{Name: "fake-stale-stats-last", Kind: "fake", Shape: fmt.Sprintf("genesis/N=%d+stale-stats", nMain), FakeChain: seq(t, nMain), Ref: seq(t, nMain),
			FakeStale: t.idx[t.main[5]], Fault: "stale-stats", TimeoutMs: 40000})
	}
	if t.weightJ != 0 {
		// a peer announces a higher and heavier chain, serves nothing and leaves; the honest peer A holds a chain that is
		// heavier than B's but not higher (Proofs/Sync2Stuck.v, livelock 2)
		b := append(seq(t, t.weightJ), t.ids(t.weightU)...)
		add(&Scen{Name: "stale-target-peer-gone", Kind: "fake", Shape: fmt.Sprintf("weight/hA=%d/hB=%d+announce-and-leave", t.weightA, t.weightJ+3),
			A: seq(t, t.weightA), B: b, Ref: seq(t, t.weightA), FakeChain: seq(t, nMain), Fault: "gone", Param: 300, TimeoutMs: 30000})
	}
	// the transactions of the next blocks reach the node as TX packets before the blocks that carry them (the normal order
	// on a live network): the blocks must still be adopted
	{
		var of []int
		ntx := 0
		for h := K + 1; h <= K+3 && h <= small; h++ {
			of = append(of, t.idx[t.main[h]])
			ntx += len(t.main[h].Txs)
		}
		if ntx > 0 {
			add(&Scen{Name: "fake-txs-relayed-before-their-blocks", Kind: "fake", Shape: "prefix+txs-first", B: seq(t, K), FakeChain: seq(t, small), Ref: seq(t, small),
				FakeTxOf: of, Fault: "txs-first"})
		}
	}
	// a burst of valid blocks relayed before they are announced (each wakes the post-processor up at once) to a node whose
	// store is slow: the wake-up signals pile up behind the post-processor
	{
		var push []string
		for h := K + 1; h <= small; h++ {
			push = append(push, fmt.Sprintf("tree:%d", t.idx[t.main[h]]))
		}
		add(&Scen{Name: "fake-unannounced-burst-slow-store", Kind: "fake", Shape: "prefix+burst+slow-store", B: seq(t, K), FakeChain: seq(t, small), Ref: seq(t, small),
			FakePush: push, FakeFirst: t.idx[t.main[K]], SlowStoreMs: 40, Fault: "unsolicited", TimeoutMs: 40000})
	}
	inv := map[string]string{}
	names := []string{"bad-pow", "diff+1", "bad-sig-tx"}
	for i, nm := range names {
		if _, ok := t.file.Invalid[nm]; ok {
			inv[fmt.Sprint(K+1+i)] = nm
		}
	}
	push := []string{"bad-pow", "diff+1", "cumdiff+1", "ts-before-parent", "garbage", "truncated"}
	if _, ok := t.file.Invalid["bad-sig-tx"]; ok {
		push = append(push, "bad-sig-tx")
	}
	add(&Scen{Name: "fake-invalid-blocks-and-txs", Kind: "fake", Shape: "prefix+invalid", B: seq(t, K), FakeChain: seq(t, K+3), FakeReplace: inv,
		FakePush: push, FakePushTx: true, Fault: "invalid", Expect: "unchanged", Param: 2, TimeoutMs: 8000, Ref: seq(t, K)})
	// ---- triples ----
	add(&Scen{Name: "triple-chain-C-B-A", Kind: "triple", Shape: "triple/chain", A: seq(t, small), Ref: seq(t, small), Fault: "chain", DelayMs: 30, TimeoutMs: 30000})
	if br, ok := t.forks[1]; ok {
		c := append(seq(t, K-1), t.ids(br)...)
		add(&Scen{Name: "triple-two-sources", Kind: "triple", Shape: "triple/two-sources", A: seq(t, small), C: c, Ref: seq(t, small), Fault: "both", DelayMs: 5, TimeoutMs: 60000})
	}
	// ---- the same under the race detector ----
	if os.Getenv("VERIF_RACE_BIN") != "" {
		add(&Scen{Name: "race/genesis", Kind: "pair", Shape: "race/genesis", A: seq(t, small), Ref: seq(t, small), Race: true, TimeoutMs: 60000})
		add(&Scen{Name: "race/triple-chain", Kind: "triple", Shape: "race/triple", A: seq(t, K), Ref: seq(t, K), Fault: "chain", Race: true, TimeoutMs: 60000})
		add(&Scen{Name: "race/relay-cut-reconnect", Kind: "relay", Shape: "race/genesis+cut", A: seq(t, small), Ref: seq(t, small), Fault: "cut", Param: 8, Race: true, TimeoutMs: 60000})
		add(&Scen{Name: "race/peer-exchange", Kind: "triple", Shape: "race/triple+peer-exchange", A: seq(t, K), Ref: seq(t, K), Fault: "peer-exchange", Open: true, Race: true, TimeoutMs: 60000})
		add(&Scen{Name: "race/kick-and-grow", Kind: "pair", Shape: "race/genesis+kick+grow", A: seq(t, small-8), Grow: t.ids(t.main[small-7 : small+1]), Param: 5, Fault: "kick",
			Ref: seq(t, small), Race: true, TimeoutMs: 60000})
	}
	if tier == "thorough" {
		// more schedules: every chain length class, connection timing and direction
		for i, n := range []int{1, 2, 49, 50, 51, 52, 99, 100, 101, 102, nMain} {
			if n > nMain {
				continue
			}
			add(&Scen{Name: fmt.Sprintf("genesis-N%d", n), Kind: "pair", Shape: fmt.Sprintf("genesis/N=%d", n), A: seq(t, n), Ref: seq(t, n),
				Dir: []string{"b", "a", "client"}[i%3], DelayMs: []int{0, 7, 120, 700}[i%4], TimeoutMs: 45000})
		}
		for _, cut := range []int{1, 3, 49, 51, 70} {
			add(&Scen{Name: fmt.Sprintf("relay-cut-%d", cut), Kind: "relay", Shape: "genesis+cut", A: seq(t, nMain), Ref: seq(t, nMain), Fault: "cut", Param: cut, TimeoutMs: 45000})
		}
		for rep := 0; rep < 6; rep++ {
			d := t.w.rng.Intn(400)
			add(&Scen{Name: fmt.Sprintf("rep%d/prefix", rep), Kind: "pair", Shape: "prefix/rep", A: seq(t, small), B: seq(t, K), Ref: seq(t, small), Dir: []string{"a", "b", "client"}[rep%3], DelayMs: d})
			if br, ok := t.forks[1+rep%5]; ok {
				a := append(seq(t, K-(1+rep%5)), t.ids(br)...)
				add(&Scen{Name: fmt.Sprintf("rep%d/fork", rep), Kind: "pair", Shape: fmt.Sprintf("fork%d/rep", 1+rep%5), A: a, B: seq(t, K), Ref: a, DelayMs: d, TimeoutMs: 60000})
			}
			add(&Scen{Name: fmt.Sprintf("rep%d/triple-chain", rep), Kind: "triple", Shape: "triple/chain/rep", A: seq(t, small), Ref: seq(t, small), Fault: "chain", DelayMs: d, TimeoutMs: 40000})
		}
		for rep := 0; rep < 3; rep++ {
			add(&Scen{Name: fmt.Sprintf("relay-reorder-long-%d", rep), Kind: "relay", Shape: "genesis+reorder/long", A: seq(t, nMain), Ref: seq(t, nMain), Fault: "reorder", TimeoutMs: 45000})
			add(&Scen{Name: fmt.Sprintf("fake-reverse-long-%d", rep), Kind: "fake", Shape: "genesis+reverse/long", FakeChain: seq(t, nMain), Ref: seq(t, nMain), Fault: "reverse", TimeoutMs: 45000})
		}
	}
	return sc
}

type c11Run struct {
	Scen     *Scen
	Res      *ScenResult
	Attempts int
	Crashed  bool
	Race     bool
	Deadlock bool
	Exit     int
	WallMs   int64
	Stderr   string
}

func c11RunChild(bin string, sc *Scen, treePath, dir string, attempt int) *c11Run {
	scPath := filepath.Join(dir, fmt.Sprintf("scen_%d.json", sc.Id))
	outPath := filepath.Join(dir, fmt.Sprintf("res_%d_%d.json", sc.Id, attempt))
	writeJSON(scPath, sc)
	os.Remove(outPath)
	cmd := exec.Command(bin, "c11", dir)
	cmd.Env = append(os.Environ(), "VERIF_C11_CHILD="+scPath, "VERIF_C11_TREE="+treePath, "VERIF_C11_OUT="+outPath,
		"GORACE=halt_on_error=0")
	var errb bytes.Buffer
	cmd.Stderr = &errb
	cmd.Stdout = &errb
	t0 := time.Now()
	cmd.Start()
	done := make(chan error, 1)
	go func() { done <- cmd.Wait() }()
	r := &c11Run{Scen: sc, Attempts: attempt + 1}
	hard := time.Duration(sc.TimeoutMs)*time.Millisecond + 60*time.Second
	select {
	case err := <-done:
		if err != nil {
			r.Exit = 1
			if ee, ok := err.(*exec.ExitError); ok {
				r.Exit = ee.ExitCode()
			}
		}
	case <-time.After(hard):
		cmd.Process.Kill()
		<-done
		r.Exit = -9
	}
	r.WallMs = time.Since(t0).Milliseconds()
	se := errb.String()
	r.Race = strings.Contains(se, "WARNING: DATA RACE")
	r.Deadlock = strings.Contains(se, "POSSIBLE DEADLOCK")
	if len(se) > 6000 {
		se = se[:3000] + "\n...\n" + se[len(se)-3000:]
	}
	r.Stderr = se
	if b, err := os.ReadFile(outPath); err == nil {
		res := &ScenResult{}
		if json.Unmarshal(b, res) == nil {
			r.Res = res
		}
	}
	// exit code 66 is the race detector's (reports were printed, the run itself completed)
	r.Crashed = r.Res == nil || (r.Exit != 0 && r.Exit != 66)
	return r
}

func famC11(out string) {
	if sp := os.Getenv("VERIF_C11_CHILD"); sp != "" {
		c11Child(os.Getenv("VERIF_C11_TREE"), sp, os.Getenv("VERIF_C11_OUT"))
		return
	}
	t0 := time.Now()
	initShared()
	tier := hutil.Tier()
	nMain, depths := 60, []int{1, 3}
	if tier == "thorough" {
		nMain, depths = 120, []int{1, 2, 3, 4, 5}
	}
	rng := hutil.NewRng(11000)
	tree := buildC11Tree(rng, nMain, depths)
	tree.now = util.Time()
	dir, err := os.MkdirTemp("", "verif-c11-run-")
	if err != nil {
		panic(err)
	}
	if os.Getenv("VERIF_C11_KEEP") == "" {
		defer os.RemoveAll(dir)
	} else {
		fmt.Fprintln(os.Stderr, "c11 work directory:", dir)
	}
	treePath := filepath.Join(dir, "tree.json")
	writeJSON(treePath, tree.file)
	buildMs := time.Since(t0).Milliseconds()
	scs := tree.scenarios(tier)
	self, _ := os.Executable()
	raceBin := os.Getenv("VERIF_RACE_BIN")
	if raceBin != "" && (tier == "thorough" || os.Getenv("VERIF_C11_ALLRACE") != "") {
		// every scenario once more under the race detector
		n := len(scs)
		for _, s := range scs[:n] {
			if !s.Race {
				c := *s
				c.Id = len(scs)
				c.Name = "race/" + s.Name
				c.Shape = "race/" + s.Shape
				c.Race = true
				c.TimeoutMs = 2 * s.TimeoutMs
				scs = append(scs, &c)
			}
		}
	}
	if only := os.Getenv("VERIF_C11_ONLY"); only != "" {
		var f []*Scen
		for _, s := range scs {
			if strings.Contains(s.Name, only) {
				f = append(f, s)
			}
		}
		scs = f
	}
	par := 4
	runs := make([]*c11Run, len(scs))
	sem := make(chan bool, par)
	var wg sync.WaitGroup
	for i, s := range scs {
		wg.Add(1)
		go func(i int, s *Scen) {
			defer wg.Done()
			sem <- true
			defer func() { <-sem }()
			bin := self
			if s.Race {
				bin = raceBin
			}
			r := c11RunChild(bin, s, treePath, dir, 0)
			// a timeout (not a wrong result) is retried once before it counts
			if !r.Crashed && r.Res.TimedOut && !r.Race && !r.Deadlock {
				r2 := c11RunChild(bin, s, treePath, dir, 1)
				r2.Attempts = 2
				r = r2
			}
			runs[i] = r
		}(i, s)
	}
	wg.Wait()

	sink := coqgen.NewSink(out, "c11", "c11case", 1000)
	for _, r := range runs {
		term, class, sample := tree.caseTerm(r)
		sink.Add(term, class, sample)
		if os.Getenv("VERIF_DEBUG") != "" {
			b, _ := json.Marshal(sample)
			fmt.Fprintln(os.Stderr, string(b))
			if r.Crashed || r.Race || r.Deadlock {
				fmt.Fprintln(os.Stderr, r.Stderr)
			}
		}
	}
	sink.Prelude = tree.prelude()
	sink.Meta["tree_build_ms"] = buildMs
	sink.Meta["schedules"] = len(runs)
	// the part of the evidence that is measurement, not theorem
	expl := map[string]any{"statement": "each live scenario is ONE schedule chosen by the operating system, the Go runtime and loopback TCP; a clean result shows no defect on that schedule only. Data-race freedom, deadlock freedom, bounded time and clean shutdown are explored, not proved.",
		"schedules_run": len(runs)}
	var nrace, raceRep, dlRep, crashes, timeouts, retried int
	var slow int64
	var rows []map[string]any
	for _, r := range runs {
		if r.Scen.Race {
			nrace++
		}
		if r.Race {
			raceRep++
		}
		if r.Deadlock {
			dlRep++
		}
		if r.Crashed {
			crashes++
		}
		if r.Attempts > 1 {
			retried++
		}
		row := map[string]any{"scenario": r.Scen.Name, "attempts": r.Attempts, "timeout_ms": r.Scen.TimeoutMs}
		if r.Res != nil {
			if r.Res.TimedOut {
				timeouts++
			}
			if r.Res.ElapsedMs > slow {
				slow = r.Res.ElapsedMs
			}
			row["elapsed_ms"] = r.Res.ElapsedMs
			row["faults_injected"] = r.Res.Faults
		}
		rows = append(rows, row)
	}
	expl["under_race_detector"] = nrace
	expl["race_reports"] = raceRep
	expl["deadlock_reports"] = dlRep
	expl["crashes"] = crashes
	expl["timeouts_after_retry"] = timeouts
	expl["scenarios_retried_once"] = retried
	expl["slowest_ms"] = slow
	expl["per_scenario"] = rows
	sink.Meta["exploration"] = expl
	sink.Meta["rule"] = "live runs (exploration, not proof): real blockchain.Blockchain values, each over its own in-memory store, connected over loopback TCP through the real p2p stack (handshake, key agreement, encrypted framing, handleConnection, Synchronize, validator pool, post-processor); one child process per scenario. Shapes: from genesis (chains long enough for several 50-block request rounds), common prefix, forks where the peer's branch is heavier, heavier by stake weight but not higher, chain growing during the synchronisation, three nodes; faults: connection cut mid-sync and redialled by the node's own client loop, kicked connection, duplicated and reordered frames through a frame-level relay, a scripted peer speaking the real protocol that answers in reverse order, twice, pushes unsolicited blocks, relays invalid blocks (bad proof of work, bad difficulty, bad cumulative difficulty, timestamp before parent, transaction with a wrong signature, garbage, truncated) and invalid transactions; two scenarios under the race detector. A class is (kind, shape, fault, outcome)."
	if err := sink.Close(); err != nil {
		panic(err)
	}
}
