package main

// C11: scenario description, the child process that runs one scenario on live nodes, and its result.

import (
	"encoding/json"
	"fmt"
	"os"
	"sync"
	"time"

	"github.com/virel-project/go-randomvirel"
	"github.com/virel-project/virel-blockchain/v3/block"
	"github.com/virel-project/virel-blockchain/v3/blockchain"
	"github.com/virel-project/virel-blockchain/v3/p2p"
	"github.com/virel-project/virel-blockchain/v3/p2p/packet"
	"github.com/virel-project/virel-blockchain/v3/util"
	"github.com/virel-project/virel-blockchain/v3/util/uint128"
)

// TreeBlock is one block of the generated tree in wire form (what a BLOCK packet carries).
type TreeBlock struct {
	Raw    []byte
	Hash   util.Hash
	Height uint64
	Parent int
	Txs    [][]byte // its transactions in wire form (what TX packets carry)
	CDHi   uint64
	CDLo   uint64
}

type TreeFile struct {
	Blocks  []TreeBlock       // index 0 = genesis (Raw empty)
	Invalid map[string][]byte // named invalid BLOCK payloads
	BadTx   [][]byte          // invalid TX payloads
}

type Scen struct {
	Id    int
	Name  string
	Kind  string // pair | relay | fake | triple
	Shape string // genesis | prefix | fork<d> | weight | ...
	A, B, C []int // initial chains (tree indices in delivery order)
	Fault   string
	Param   int
	Dir     string // who dials: "b" (B dials A), "a" (A dials B), "client" (B's own outgoing-connection loop)
	DelayMs int    // connection timing: delay before the connection is made
	TimeoutMs int
	Expect  string // "sync": B must end equal to the reference; "unchanged": B must end as it started
	Ref     []int  // the chain B has to end with when Expect = sync (tree indices; last = expected tip)
	// scripted peer
	FakeChain   []int            // what it serves by height
	FakeReplace map[string]string // height -> name of an invalid payload served instead
	FakePush    []string         // names of invalid payloads / "tree:<idx>" pushed unsolicited after STATS
	FakePushTx  bool
	FakeTxOf    []int            // tree indices of blocks whose (valid) transactions are relayed as TX packets before any block is served
	FakeFirst   int              // tree index of the block whose statistics are announced at connect; the real ones follow after the pushed blocks (0 = none)
	SlowStoreMs int              // B's store takes this long for every write transaction
	FakeStale   int              // tree index of a block whose (older) statistics are announced after the current ones (0 = none)
	Grow        []int            // blocks A receives (and broadcasts) while B is synchronising
	Race        bool             // run under the race detector
	Open        bool             // nodes are not exclusive: the peer-list exchange is active
}

type ObsJ struct {
	Top    string
	Height uint64
	CD     string
	Staked uint64
	Digest string
}

func obsJ(o LiveObs) ObsJ {
	return ObsJ{Top: fmt.Sprintf("%x", o.Top), Height: o.Height, CD: o.CD.String(), Staked: o.Staked, Digest: o.Digest}
}

type ScenResult struct {
	Id         int
	Name       string
	A0, B0, C0 ObsJ
	A, B, C    ObsJ
	R          ObsJ // a node fed the reference chain block by block, without networking
	HaveC      bool
	Synced     bool
	TimedOut   bool
	ElapsedMs  int64
	Faults     map[string]int64
	ShutdownOK bool
	SyncTarget uint64
}

func loadTree(path string) *TreeFile {
	b, err := os.ReadFile(path)
	if err != nil {
		panic(err)
	}
	t := &TreeFile{}
	if err := json.Unmarshal(b, t); err != nil {
		panic(err)
	}
	return t
}

func (t *TreeFile) raws(idx []int) [][]byte {
	var out [][]byte
	for _, i := range idx {
		if i != 0 {
			out = append(out, t.Blocks[i].Raw)
		}
	}
	return out
}

// c11Child runs one scenario and writes its result; any crash of node code kills this process (reported by the parent).
func c11Child(treePath, scenPath, outPath string) {
	tree := loadTree(treePath)
	sc := &Scen{}
	b, err := os.ReadFile(scenPath)
	if err != nil {
		panic(err)
	}
	if err := json.Unmarshal(b, sc); err != nil {
		panic(err)
	}
	blockchain.Log.SetLogLevel(0)
	if os.Getenv("VERIF_C11_LOG") != "" {
		blockchain.Log.SetLogLevel(3)
	}
	randomvirel.InitHash(4, false)

	liveExclusive = !sc.Open
	res := &ScenResult{Id: sc.Id, Name: sc.Name, Faults: map[string]int64{}}
	cnt := &counters{m: map[string]int64{}}
	timeout := time.Duration(sc.TimeoutMs) * time.Millisecond
	var want util.Hash
	if len(sc.Ref) > 0 {
		want = tree.Blocks[sc.Ref[len(sc.Ref)-1]].Hash
	}

	var A, B, C *Live
	var relay *Relay
	var fake *FakePeer
	B = newLive("B", tree.raws(sc.B))
	res.B0 = obsJ(B.observe())
	B.db.delay = time.Duration(sc.SlowStoreMs) * time.Millisecond
	if sc.Kind != "fake" || len(sc.A) > 0 {
		A = newLive("A", tree.raws(sc.A))
		res.A0 = obsJ(A.observe())
	}
	if sc.Kind == "triple" {
		C = newLive("C", tree.raws(sc.C))
		res.C0 = obsJ(C.observe())
		res.HaveC = true
	}
	if A != nil && len(sc.Grow) == 0 && fmt.Sprint(sc.A) == fmt.Sprint(sc.Ref) {
		res.R = res.A0
	} else {
		R := newLive("R", tree.raws(sc.Ref))
		res.R = obsJ(R.observe())
		os.RemoveAll(R.dir)
	}
	t0 := time.Now()
	switch sc.Kind {
	case "pair":
		A.start(true, nil, false)
		switch sc.Dir {
		case "client":
			time.Sleep(time.Duration(sc.DelayMs) * time.Millisecond)
			B.start(true, []string{A.addr()}, true)
		case "a":
			B.start(true, nil, false)
			time.Sleep(time.Duration(sc.DelayMs) * time.Millisecond)
			must(A.connectTo(B.addr()))
		default:
			B.start(true, nil, false)
			time.Sleep(time.Duration(sc.DelayMs) * time.Millisecond)
			must(B.connectTo(A.addr()))
		}
		if sc.Fault == "kick" {
			// disconnect in the middle of the synchronisation, reconnect after a pause
			go func() {
				// in the middle of the first batch: some blocks validated, the rest still streaming in
				for t1 := time.Now(); time.Since(t1) < timeout && B.bc.Validator.PostprocessLength() < sc.Param && B.observeHeight() < uint64(sc.Param); {
					time.Sleep(time.Millisecond)
				}
				for _, c := range conns(B) {
					B.bc.P2P.Kick(c)
					cnt.add("kicks")
				}
				time.Sleep(300 * time.Millisecond)
				B.connectTo(A.addr())
			}()
		}
	case "relay":
		A.start(true, nil, false)
		relay = newRelay(A.addr(), sc.Fault)
		relay.CutAt = int64(sc.Param)
		time.Sleep(time.Duration(sc.DelayMs) * time.Millisecond)
		// B's own client loop dials the relay (and dials again after the cut)
		B.start(true, []string{relay.addr()}, true)
	case "fake":
		fake = newFakePeer()
		last := tree.Blocks[sc.FakeChain[len(sc.FakeChain)-1]]
		fake.Stats = packet.PacketStats{Height: last.Height, CumulativeDiff: uint128.Uint128{Hi: last.CDHi, Lo: last.CDLo}, Hash: last.Hash}
		if sc.FakeFirst != 0 {
			fb := tree.Blocks[sc.FakeFirst]
			fake.First = &packet.PacketStats{Height: fb.Height, CumulativeDiff: uint128.Uint128{Hi: fb.CDHi, Lo: fb.CDLo}, Hash: fb.Hash}
		}
		if sc.FakeStale != 0 {
			sb := tree.Blocks[sc.FakeStale]
			fake.Stale = &packet.PacketStats{Height: sb.Height, CumulativeDiff: uint128.Uint128{Hi: sb.CDHi, Lo: sb.CDLo}, Hash: sb.Hash}
		}
		for _, i := range sc.FakeChain {
			if i != 0 {
				fake.ByHeight[tree.Blocks[i].Height] = tree.Blocks[i].Raw
				fake.ByHash[tree.Blocks[i].Hash] = tree.Blocks[i].Raw
			}
		}
		for hs, name := range sc.FakeReplace {
			var h uint64
			fmt.Sscanf(hs, "%d", &h)
			fake.ReplaceServed[h] = tree.Invalid[name]
		}
		for _, name := range sc.FakePush {
			var idx int
			if n, _ := fmt.Sscanf(name, "tree:%d", &idx); n == 1 {
				fake.OnConnect = append(fake.OnConnect, tree.Blocks[idx].Raw)
			} else {
				fake.OnConnect = append(fake.OnConnect, tree.Invalid[name])
			}
		}
		if sc.FakePushTx {
			fake.OnConnectTx = tree.BadTx
		}
		for _, i := range sc.FakeTxOf {
			fake.OnConnectTx = append(fake.OnConnectTx, tree.Blocks[i].Txs...)
		}
		switch sc.Fault {
		case "reverse", "dup", "silent":
			fake.Script = sc.Fault
		case "gone":
			fake.Script = "silent"
		}
		fake.run()
		B.start(true, nil, false)
		time.Sleep(time.Duration(sc.DelayMs) * time.Millisecond)
		must(fake.connectTo(B.addr()))
		if A != nil {
			// an honest peer next to the scripted one
			A.start(true, nil, false)
			if sc.Fault == "gone" {
				// the scripted peer announces its statistics, serves nothing and leaves; only then B meets A
				for t1 := time.Now(); time.Since(t1) < 5*time.Second; time.Sleep(5 * time.Millisecond) {
					if h, _, _ := B.bc.VerifSyncState(); h == fake.Stats.Height {
						break
					}
				}
				time.Sleep(time.Duration(sc.Param) * time.Millisecond)
				fake.disconnect()
				cnt.add("gone")
			}
			must(B.connectTo(A.addr()))
		}
	case "triple":
		A.start(true, nil, false)
		C.start(true, nil, false)
		switch sc.Fault {
		case "peer-exchange": // B's own client loop dials A while C dials B: two handshakes (and peer lists) on B at once
			B.start(true, []string{A.addr()}, true)
			must(C.connectTo(B.addr()))
		case "chain": // C <- B <- A : C can only learn A's chain through B
			B.start(true, nil, false)
			must(B.connectTo(A.addr()))
			time.Sleep(time.Duration(sc.DelayMs) * time.Millisecond)
			must(C.connectTo(B.addr()))
		default: // B dials both A and C at (almost) the same time
			B.start(true, nil, false)
			go func() { must(B.connectTo(A.addr())) }()
			time.Sleep(time.Duration(sc.DelayMs) * time.Millisecond)
			must(B.connectTo(C.addr()))
		}
	}
	if len(sc.Grow) > 0 {
		go func() {
			for _, i := range sc.Grow {
				time.Sleep(time.Duration(sc.Param) * time.Millisecond)
				raw := tree.Blocks[i].Raw
				A.bc.VerifDeliverRaw(raw)
				bl := &block.Block{}
				if _, err := bl.DeserializeFull(raw); err == nil {
					A.bc.BroadcastBlock(bl)
				}
				cnt.add("grown")
			}
		}()
	}

	switch sc.Expect {
	case "none":
		// shut the node down in the middle of the synchronisation: some blocks of the first batch have been
		// validated, the others are still streaming in
		for t1 := time.Now(); time.Since(t1) < timeout && B.bc.Validator.PostprocessLength() < sc.Param; {
			time.Sleep(time.Millisecond)
		}
	case "sync":
		ok, _ := B.waitTop(want, timeout)
		if ok && C != nil {
			ok, _ = C.waitTop(want, timeout-time.Since(t0))
		}
		if ok && A != nil {
			ok, _ = A.waitTop(want, timeout-time.Since(t0))
		}
		res.Synced = ok
		res.TimedOut = !ok
	case "unchanged":
		// observation window: the scripted peer has pushed/served everything it has, then a grace period
		deadline := time.Now().Add(timeout)
		for time.Now().Before(deadline) {
			if fake != nil && fake.Requests.Load() >= int64(sc.Param) && fake.Pushed.Load() >= int64(len(fake.OnConnect)+len(fake.OnConnectTx)) {
				break
			}
			time.Sleep(20 * time.Millisecond)
		}
		time.Sleep(1200 * time.Millisecond)
	}
	res.ElapsedMs = time.Since(t0).Milliseconds()
	if os.Getenv("VERIF_C11_HANG") != "" && res.TimedOut {
		// keep the process alive long enough for the lock-wait detector (30 s) to report
		time.Sleep(32 * time.Second)
	}
	cnt.into(res.Faults)
	res.B = obsJ(B.observe())
	res.SyncTarget, _, _ = B.bc.VerifSyncState()
	if A != nil {
		res.A = obsJ(A.observe())
	}
	if C != nil {
		res.C = obsJ(C.observe())
	}
	if relay != nil {
		res.Faults["cuts"] = relay.Cuts.Load()
		res.Faults["dup_frames"] = relay.Dups.Load()
		res.Faults["reordered_groups"] = relay.Reorders.Load()
		res.Faults["relay_connections"] = relay.conns.Load()
		res.Faults["block_frames"] = relay.bigSeen.Load()
	}
	if fake != nil {
		res.Faults["requests"] = fake.Requests.Load()
		res.Faults["served"] = fake.Served.Load()
		res.Faults["pushed"] = fake.Pushed.Load()
	}
	// write the observations before shutting down: a crash during shutdown must not lose them
	writeJSON(outPath, res)

	// shutdown (the node's own Close: validator, P2P, block queue, database)
	done := make(chan bool, 1)
	go func() {
		if relay != nil {
			relay.close()
		}
		if fake != nil {
			fake.close()
		}
		for _, n := range []*Live{B, C, A} {
			if n != nil {
				n.bc.Close()
				os.RemoveAll(n.dir)
			}
		}
		done <- true
	}()
	select {
	case <-done:
		res.ShutdownOK = true
	case <-time.After(10 * time.Second):
		res.ShutdownOK = false
	}
	// let goroutines that were in flight when the channels closed run into whatever they run into
	time.Sleep(150 * time.Millisecond)
	writeJSON(outPath, res)
}

func must(err error) {
	if err != nil {
		fmt.Fprintln(os.Stderr, "c11 harness: connection failed:", err)
	}
}

func writeJSON(path string, v any) {
	b, _ := json.MarshalIndent(v, "", " ")
	os.WriteFile(path+".tmp", b, 0o644)
	os.Rename(path+".tmp", path)
}

type counters struct {
	mu sync.Mutex
	m  map[string]int64
}

func (c *counters) add(k string) {
	c.mu.Lock()
	c.m[k]++
	c.mu.Unlock()
}
func (c *counters) into(dst map[string]int64) {
	c.mu.Lock()
	for k, v := range c.m {
		dst[k] = v
	}
	c.mu.Unlock()
}

func conns(n *Live) []*p2p.Connection {
	n.bc.P2P.RLock()
	defer n.bc.P2P.RUnlock()
	var cs []*p2p.Connection
	for _, c := range n.bc.P2P.Connections {
		cs = append(cs, c)
	}
	return cs
}

func waitHeight(n *Live, h uint64, timeout time.Duration) bool {
	t0 := time.Now()
	for time.Since(t0) < timeout {
		if n.observeHeight() >= h {
			return true
		}
		time.Sleep(5 * time.Millisecond)
	}
	return false
}
