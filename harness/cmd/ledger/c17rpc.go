package main

// Family c17rpc (property C17, the JSON-RPC layer): the deliveries of generated histories (forks, reorganisations,
// branches left behind above and below the tip, all transaction kinds, refused blocks) are replayed on a fresh node over
// the real LMDB store inside the repository's own package (cmd/virel-node, add-only test TestVerifRpcHistory, build tag
// verif), which starts the node's real JSON-RPC server and records what get_info, get_transaction (for every transaction id
// and for every block hash: the coinbase), get_block_by_height, get_block_by_hash, get_address and get_tx_list (every page)
// answer over HTTP. Expected is what the node under test of this harness holds in its indexes after the same deliveries
// (the dump that the hist family compares with the model: height index, transaction heights, numbered histories).

import (
	"encoding/hex"
	"encoding/json"
	"fmt"
	"os"
	"os/exec"
	"path/filepath"
	"strings"

	"verifharness/coqgen"
	"verifharness/hutil"

	"github.com/virel-project/virel-blockchain/v3/address"
	"github.com/virel-project/virel-blockchain/v3/util"
)

type rpcIn struct {
	Blocks    []string
	TxIDs     []string
	Hashes    []string
	Addresses []string
	MaxHeight uint64
}

type rpcTx struct {
	Found    bool
	Height   uint64
	Coinbase bool
	Err      string
}
type rpcBlock struct {
	Found  bool
	Hash   string
	Height uint64
}
type rpcList struct {
	OK           bool
	LastIncoming uint64
	LastNonce    uint64
	Incoming     []string
	Outgoing     []string
	Pages        int
}
type rpcOut struct {
	Height   uint64
	TopHash  string
	Tx       map[string]rpcTx
	Coinbase map[string]rpcTx
	ByHeight []rpcBlock
	ByHash   map[string]rpcBlock
	Lists    map[string]rpcList
	Stages   []int
}

func famC17rpc(out string) {
	initShared()
	repo := os.Getenv("VERIF_REPO_DIR")
	tags := os.Getenv("VERIF_GO_TAGS")
	if repo == "" || tags == "" {
		panic("c17rpc: VERIF_REPO_DIR / VERIF_GO_TAGS not set")
	}
	scratch, err := os.MkdirTemp(os.Getenv("VERIF_SCRATCH"), "verif-c17rpc-")
	if err != nil {
		panic(err)
	}
	defer os.RemoveAll(scratch)
	testBin := filepath.Join(scratch, "virel-node.test")
	cmd := exec.Command("go", "test", "-c", "-tags", tags, "-vet=off", "-o", testBin, "./cmd/virel-node")
	cmd.Dir = repo
	if b, err := cmd.CombinedOutput(); err != nil {
		panic(fmt.Sprintf("c17rpc: go test -c failed: %v\n%s", err, b))
	}
	nh := 8
	if hutil.Tier() == "thorough" {
		nh = 60
	}
	nh *= budget()
	sink := coqgen.NewSink(out, "c17rpc", "c17r_case", 400)
	tot := map[string]int{}
	for i := 0; i < nh; i++ {
		rng := hutil.NewRng(1700 + uint64(i))
		w := worldFromShared(rng, 5)
		// no header corruptions: a block refused for a timestamp too far ahead of the clock becomes acceptable once the clock
		// has moved on, and the replay happens later than the original delivery
		p := HistParams{Steps: 18 + rng.Intn(16), Wallets: 5, PBadTx: 10, PCorrupt: 0, PFork: 25, PReorg: 15, DumpEvery: 1000, Crashes: 0}
		switch i % 8 {
		case 1:
			p.PFork = 45
		case 2:
			p.Steps, p.PBadTx, p.Scenario = 6, 0, "deepfork"
		case 3:
			p.Steps, p.PBadTx, p.Scenario = 8, 0, "shortheavy"
		case 4:
			p.Steps, p.PBadTx, p.PFork, p.PReorg, p.Scenario = 20, 0, 5, 5, "undokinds"
		case 5:
			p.Steps, p.PBadTx, p.PFork, p.PReorg, p.Scenario = 24, 0, 5, 5, "sharedtx"
		case 6:
			p.Steps, p.PBadTx, p.PFork, p.PReorg, p.Scenario = 6, 0, 0, 0, "stalekey"
		case 7:
			p.Steps, p.PBadTx, p.PFork, p.PReorg, p.Scenario = 10, 0, 0, 0, "highlight"
		}
		h := w.genHistory(p)
		for k, v := range h.Stats {
			tot[k] += v
		}
		exp := w.dump(h.NUT)
		in := rpcIn{MaxHeight: exp.TopH}
		for _, op := range h.Ops {
			in.Blocks = append(in.Blocks, hex.EncodeToString(op.Node.Raw))
		}
		seenTx := map[util.Hash]bool{}
		for _, n := range w.nodes {
			if n.Parent == nil {
				continue
			}
			in.Hashes = append(in.Hashes, n.Hash.String())
			if n.Block.Height > in.MaxHeight {
				in.MaxHeight = n.Block.Height
			}
			for _, t := range n.Txs {
				if id := util.Hash(t.Hash()); !seenTx[id] {
					seenTx[id] = true
					in.TxIDs = append(in.TxIDs, id.String())
				}
			}
		}
		in.Hashes = append(in.Hashes, w.genesis.Hash.String())
		addrText := map[string]address.Address{}
		for _, a := range exp.Accts {
			t := a.Addr.Integrated().String()
			addrText[t] = a.Addr
			in.Addresses = append(in.Addresses, t)
		}
		inPath, outPath := filepath.Join(scratch, fmt.Sprintf("in%d.json", i)), filepath.Join(scratch, fmt.Sprintf("out%d.json", i))
		writeJSON(inPath, in)
		run := exec.Command(testBin, "-test.run", "^TestVerifRpcHistory$", "-test.count=1")
		run.Dir = filepath.Join(repo, "cmd", "virel-node")
		run.Env = append(os.Environ(), "VERIF_RPC_HIST="+inPath, "VERIF_RPC_OUT="+outPath)
		if b, err := run.CombinedOutput(); err != nil {
			panic(fmt.Sprintf("c17rpc: the RPC replay of history %d failed: %v\n%s", i, err, tail(string(b), 3000)))
		}
		var got rpcOut
		b, err := os.ReadFile(outPath)
		if err != nil || json.Unmarshal(b, &got) != nil {
			panic(fmt.Sprintf("c17rpc: no answers for history %d", i))
		}
		os.Remove(inPath)
		os.Remove(outPath)

		// ---- expected, from the indexes of the node under test of this harness
		mainAt := map[uint64]string{}
		onMain := map[string]uint64{}
		for _, r := range exp.Topo {
			mainAt[r[0].(uint64)] = r[1].(util.Hash).String()
			onMain[r[1].(util.Hash).String()] = r[0].(uint64)
		}
		txH := map[string]uint64{}
		for _, r := range exp.TxH {
			txH[r[0].(util.Hash).String()] = r[1].(uint64)
		}
		hclass := fmt.Sprintf("h%d:%s", i%8, p.Scenario)
		add := func(term, class string, sample map[string]any) {
			sample["history"] = i
			sink.Add(term, "c17rpc/"+hclass+"/"+class, sample)
		}
		add(fmt.Sprintf("CRInfo %d %d %s", exp.TopH, got.Height, coqgen.Bool(exp.Top.String() == got.TopHash)), "info",
			map[string]any{"kind": "info", "expected_height": exp.TopH, "rpc_height": got.Height, "expected_top": exp.Top.String(), "rpc_top": got.TopHash})
		// transactions: found with the height of the main-chain block that holds it, 0 if none (a transaction the node
		// never stored is not found)
		for _, id := range in.TxIDs {
			g := got.Tx[id]
			eh, stored := txH[id]
			where := "never-stored"
			if stored && eh > 0 {
				where = "main-chain"
			} else if stored {
				where = "side-or-pending"
			}
			add(fmt.Sprintf("CRTx %s %d %s %d %s", coqgen.Bool(stored), eh, coqgen.Bool(g.Found), g.Height, coqgen.Bool(g.Coinbase)), "tx/"+where,
				map[string]any{"kind": "tx", "txid": id, "stored": stored, "expected_height": eh, "rpc": g})
		}
		// block hashes asked as transaction ids (the coinbase), and by hash
		stored := map[string]uint64{}
		w.view(h.NUT, func(v *View) {
			for _, hs := range in.Hashes {
				var hh util.Hash
				hb, _ := hex.DecodeString(hs)
				copy(hh[:], hb)
				if b := v.Block(hh); b != nil {
					stored[hs] = b.Height
				}
			}
		})
		for _, hs := range in.Hashes {
			g := got.Coinbase[hs]
			bh := got.ByHash[hs]
			mh, main := onMain[hs]
			sh, isStored := stored[hs]
			where := "not-stored"
			switch {
			case main:
				where = "main-chain"
			case isStored && sh > exp.TopH:
				where = "side-above-tip"
			case isStored:
				where = "side-at-or-below-tip"
			}
			add(fmt.Sprintf("CRCoinbase %s %d %s %d %s", coqgen.Bool(main), mh, coqgen.Bool(g.Found), g.Height, coqgen.Bool(g.Coinbase)), "coinbase/"+where,
				map[string]any{"kind": "coinbase", "block": hs, "on_main_chain": main, "height": mh, "rpc": g})
			// get_block_by_hash serves main-chain blocks only ("block is orphan" for the others)
			add(fmt.Sprintf("CRByHash %s %d %s %d %s", coqgen.Bool(main), mh, coqgen.Bool(bh.Found), bh.Height, coqgen.Bool(bh.Hash == hs)), "by-hash/"+where,
				map[string]any{"kind": "by-hash", "block": hs, "stored": isStored, "on_main_chain": main, "height": mh, "rpc": bh})
		}
		for hgt, g := range got.ByHeight {
			eh, ok := mainAt[uint64(hgt)]
			where := "on-chain"
			if !ok {
				where = "above-tip"
			}
			add(fmt.Sprintf("CRByHeight %d %s %s %s %d", hgt, coqgen.Bool(ok), coqgen.Bool(g.Found), coqgen.Bool(g.Hash == eh), g.Height), "by-height/"+where,
				map[string]any{"kind": "by-height", "height": hgt, "expected_hash": eh, "rpc": g})
		}
		// numbered histories
		inc, outg := map[address.Address][]string{}, map[address.Address][]string{}
		for _, r := range exp.InTx {
			a := r[0].(address.Address)
			for uint64(len(inc[a])) < r[1].(uint64) {
				inc[a] = append(inc[a], "")
			}
			inc[a][r[1].(uint64)-1] = r[2].(util.Hash).String()
		}
		for _, r := range exp.OutTx {
			a := r[0].(address.Address)
			for uint64(len(outg[a])) < r[1].(uint64) {
				outg[a] = append(outg[a], "")
			}
			outg[a][r[1].(uint64)-1] = r[2].(util.Hash).String()
		}
		for _, a := range exp.Accts {
			t := a.Addr.Integrated().String()
			g := got.Lists[t]
			ei, eo := inc[a.Addr], outg[a.Addr]
			if uint64(len(ei)) > a.St.LastIncoming {
				ei = ei[:a.St.LastIncoming] // entries above the counter are leftovers of disconnected blocks: not part of the history
			}
			if uint64(len(eo)) > a.St.LastNonce {
				eo = eo[:a.St.LastNonce]
			}
			same := func(x, y []string) bool { return strings.Join(x, ",") == strings.Join(y, ",") && len(x) == len(y) }
			// (get_address adds the signer's pending mempool transactions to last_nonce: the counters are compared through
			// the number of entries the history pages list)
			add(fmt.Sprintf("CRList %d %d %s %d %d %s %s", a.St.LastIncoming, a.St.LastNonce, coqgen.Bool(g.OK), len(g.Incoming), len(g.Outgoing),
				coqgen.Bool(same(ei, g.Incoming)), coqgen.Bool(same(eo, g.Outgoing))), fmt.Sprintf("list/in=%d/out=%d", min(len(ei), 30), min(len(eo), 30)),
				map[string]any{"kind": "list", "address": t, "expected_incoming": ei, "expected_outgoing": eo, "rpc": g})
		}
	}
	sink.Meta["totals"] = tot
	sink.Meta["rule"] = "histories generated as in family hist (without header corruptions), replayed delivery by delivery on a fresh node over LMDB inside cmd/virel-node (TestVerifRpcHistory), answers of the real JSON-RPC server over HTTP compared with the indexes of the harness' node after the same deliveries"
	if err := sink.Close(); err != nil {
		panic(err)
	}
}

func tail(s string, n int) string {
	if len(s) > n {
		return s[len(s)-n:]
	}
	return s
}
