package main

// C11 live runs: real blockchain.Blockchain values, each over its own in-memory database, connected over
// loopback TCP through the real p2p stack (handshake, encrypted framing, handleConnection, the goroutines of
// StartP2P). Only the listener is supplied by the harness (ephemeral port, hook VerifStartP2P).

import (
	"crypto/sha256"
	"encoding/binary"
	"fmt"
	"io"
	"net"
	"os"
	"sort"
	"sync"
	"sync/atomic"
	"time"

	"verifharness/memdb"

	"github.com/virel-project/virel-blockchain/v3/adb"
	"github.com/virel-project/virel-blockchain/v3/blockchain"
	"github.com/virel-project/virel-blockchain/v3/chaintype"
	"github.com/virel-project/virel-blockchain/v3/p2p"
	"github.com/virel-project/virel-blockchain/v3/p2p/packet"
	"github.com/virel-project/virel-blockchain/v3/util"
	"github.com/virel-project/virel-blockchain/v3/util/uint128"
)

// serialDB serialises write transactions, as LMDB does (memdb.Update alone is optimistic: two concurrent
// updates would both start from the same committed state).
type serialDB struct {
	*memdb.DB
	mu    sync.Mutex
	delay time.Duration // a slow disk: every write transaction takes this much longer
}

func (s *serialDB) Update(f func(t adb.Txn) error) error {
	s.mu.Lock()
	defer s.mu.Unlock()
	if s.delay > 0 {
		time.Sleep(s.delay)
	}
	return s.DB.Update(f)
}

type Live struct {
	Name string
	bc   *blockchain.Blockchain
	db   *serialDB
	l    net.Listener
	dir  string
}

// newLive creates a node and feeds it its initial chain synchronously (before any networking exists).
func newLive(name string, initial [][]byte) *Live {
	dir, err := os.MkdirTemp("", "verif-c11-"+name+"-")
	if err != nil {
		panic(err)
	}
	db := &serialDB{DB: memdb.New()}
	if len(initial) > 0 {
		// The initial chain is written by a throw-away Blockchain value over the same database; the node under
		// observation is then created over the populated database, exactly like a node restarted on its data
		// directory (New reads its statistics; no goroutine of the observed node exists before its P2P is set).
		loader := blockchain.New(dir, db)
		loader.Stratum = nil
		loader.P2P = &p2p.P2P{Connections: map[string]*p2p.Connection{}}
		for _, raw := range initial {
			loader.VerifDeliverRaw(raw)
		}
	}
	bc := blockchain.New(dir, db)
	bc.Stratum = nil
	return &Live{Name: name, bc: bc, db: db, dir: dir}
}

// exclusive = false lets the node take part in the peer-list exchange (AddPeer packets, peer list on disk)
var liveExclusive = true

func (n *Live) start(listen bool, peers []string, dial bool) {
	if listen {
		l, err := net.Listen("tcp", "127.0.0.1:0")
		if err != nil {
			panic(err)
		}
		n.l = l
		n.bc.VerifStartP2P(peers, l, false, liveExclusive, dial)
	} else {
		n.bc.VerifStartP2P(peers, nil, true, liveExclusive, dial)
	}
}

func (n *Live) addr() string { return n.l.Addr().String() }

// connectTo dials addr and hands the connection to the node as an outgoing connection (what startClient does).
func (n *Live) connectTo(addr string) error {
	c, err := net.DialTimeout("tcp", addr, 3*time.Second)
	if err != nil {
		return err
	}
	return n.bc.P2P.VerifAttachConn(c, true, n.l == nil)
}

type LiveObs struct {
	Top    util.Hash
	Height uint64
	CD     uint128.Uint128
	Staked uint64
	Digest string // digest of the canonical ledger dump (accounts, delegates with their funds, staked total, main chain index)
}

func (n *Live) observe() LiveObs {
	var o LiveObs
	h := sha256.New()
	n.db.View(func(txn adb.Txn) error {
		st := n.bc.GetStats(txn)
		o.Top, o.Height, o.CD, o.Staked = st.TopHash, st.TopHeight, st.CumulativeDiff, st.StakedAmount
		fmt.Fprintf(h, "top %x %d %s %d\n", o.Top, o.Height, o.CD, o.Staked)
		txn.ForEach(n.bc.Index.State, func(k, val []byte) error {
			s := &chaintype.State{}
			if err := s.Deserialize(val); err != nil {
				fmt.Fprintf(h, "acct %x UNDECODABLE\n", k)
				return nil
			}
			if s.Balance == 0 && s.LastNonce == 0 && s.LastIncoming == 0 && s.DelegateId == 0 {
				return nil // an absent account is the all-zero account
			}
			fmt.Fprintf(h, "acct %x %d %d %d %d\n", k, s.Balance, s.LastNonce, s.LastIncoming, s.DelegateId)
			return nil
		})
		var dl []*chaintype.Delegate
		n.bc.GetDelegates(txn, func(d *chaintype.Delegate) (bool, error) {
			dl = append(dl, d)
			return false, nil
		})
		sort.Slice(dl, func(i, j int) bool { return dl[i].Id < dl[j].Id })
		for _, d := range dl {
			fmt.Fprintf(h, "dlg %d %x %x\n", d.Id, d.Owner, d.Name)
			fs := append([]*chaintype.DelegatedFund{}, d.Funds...)
			sort.Slice(fs, func(i, j int) bool { return string(fs[i].Owner[:]) < string(fs[j].Owner[:]) })
			for _, f := range fs {
				fmt.Fprintf(h, " fund %x %d %d\n", f.Owner, f.Amount, f.Unlock)
			}
		}
		txn.ForEach(n.bc.Index.Topo, func(k, val []byte) error {
			if binary.LittleEndian.Uint64(k) <= o.Height {
				fmt.Fprintf(h, "topo %x %x\n", k, val)
			}
			return nil
		})
		return nil
	})
	o.Digest = fmt.Sprintf("%x", h.Sum(nil)[:12])
	return o
}

func (n *Live) top() util.Hash {
	var t util.Hash
	n.db.View(func(txn adb.Txn) error {
		t = n.bc.GetStats(txn).TopHash
		return nil
	})
	return t
}

func (n *Live) observeHeight() uint64 {
	var h uint64
	n.db.View(func(txn adb.Txn) error {
		h = n.bc.GetStats(txn).TopHeight
		return nil
	})
	return h
}

func (n *Live) connCount() int {
	n.bc.P2P.RLock()
	defer n.bc.P2P.RUnlock()
	return len(n.bc.P2P.Connections)
}

// waitTop polls until the node's tip is want or the deadline passes.
func (n *Live) waitTop(want util.Hash, timeout time.Duration) (bool, time.Duration) {
	t0 := time.Now()
	for time.Since(t0) < timeout {
		if n.top() == want {
			return true, time.Since(t0)
		}
		time.Sleep(20 * time.Millisecond)
	}
	return n.top() == want, time.Since(t0)
}

// ---------------------------------------------------------------- relay

// Relay is a TCP proxy between a dialling node and a listening node. The payload is encrypted end to end, so the
// relay works on frames (u32 length, ciphertext): it can cut the connection, duplicate frames and reorder frames.
// Frames longer than bigFrame bytes are taken to be BLOCK packets (STATS, PING, requests and peer lists are short).
type Relay struct {
	l       net.Listener
	target  string
	Mode    string // "", "cut", "dup", "reorder"
	CutAt   int64  // cut the connection when this many big frames have gone from target to client (first connection only)
	Window  int    // reorder window
	bigSeen atomic.Int64
	Cuts    atomic.Int64
	Dups    atomic.Int64
	Reorders atomic.Int64
	conns   atomic.Int64
	mu      sync.Mutex
	open    []net.Conn
}

const bigFrame = 200

func newRelay(target, mode string) *Relay {
	l, err := net.Listen("tcp", "127.0.0.1:0")
	if err != nil {
		panic(err)
	}
	r := &Relay{l: l, target: target, Mode: mode, Window: 6}
	go r.serve()
	return r
}
func (r *Relay) addr() string { return r.l.Addr().String() }
func (r *Relay) close() {
	r.l.Close()
	r.mu.Lock()
	for _, c := range r.open {
		c.Close()
	}
	r.mu.Unlock()
}

func (r *Relay) serve() {
	for {
		c, err := r.l.Accept()
		if err != nil {
			return
		}
		t, err := net.DialTimeout("tcp", r.target, 3*time.Second)
		if err != nil {
			c.Close()
			continue
		}
		id := r.conns.Add(1)
		r.mu.Lock()
		r.open = append(r.open, c, t)
		r.mu.Unlock()
		closeBoth := func() { c.Close(); t.Close() }
		go func() { r.pipe(c, t, false, id, closeBoth); closeBoth() }()
		go func() { r.pipe(t, c, true, id, closeBoth); closeBoth() }()
	}
}

func readFrame(src net.Conn) ([]byte, error) {
	hd := make([]byte, 4)
	if _, err := io.ReadFull(src, hd); err != nil {
		return nil, err
	}
	n := binary.LittleEndian.Uint32(hd)
	if n > 8<<20 {
		return nil, fmt.Errorf("frame too long")
	}
	buf := make([]byte, 4+n)
	copy(buf, hd)
	if _, err := io.ReadFull(src, buf[4:]); err != nil {
		return nil, err
	}
	return buf, nil
}

// pipe forwards frames from src to dst; faults apply to the direction target -> client (toClient).
func (r *Relay) pipe(src, dst net.Conn, toClient bool, id int64, cut func()) {
	first := true
	var held [][]byte
	flush := func() bool {
		if len(held) > 1 {
			r.Reorders.Add(1)
		}
		for i := len(held) - 1; i >= 0; i-- {
			if _, err := dst.Write(held[i]); err != nil {
				return false
			}
		}
		held = nil
		return true
	}
	for {
		if len(held) > 0 {
			src.SetReadDeadline(time.Now().Add(120 * time.Millisecond))
		} else {
			src.SetReadDeadline(time.Time{})
		}
		f, err := readFrame(src)
		if err != nil {
			if ne, ok := err.(net.Error); ok && ne.Timeout() && len(held) > 0 {
				if !flush() {
					return
				}
				continue
			}
			flush()
			return
		}
		if first { // the handshake (same framing: u32 length, data) passes untouched
			first = false
			if _, err := dst.Write(f); err != nil {
				return
			}
			continue
		}
		big := toClient && len(f) > bigFrame
		if big {
			seen := r.bigSeen.Add(1)
			if r.Mode == "cut" && id == 1 && seen > r.CutAt {
				r.Cuts.Add(1)
				cut()
				return
			}
		}
		switch {
		case big && r.Mode == "dup":
			r.Dups.Add(1)
			if _, err := dst.Write(append(append([]byte{}, f...), f...)); err != nil {
				return
			}
		case big && r.Mode == "reorder":
			held = append(held, f)
			if len(held) >= r.Window {
				if !flush() {
					return
				}
			}
		default:
			if !flush() {
				return
			}
			if _, err := dst.Write(f); err != nil {
				return
			}
		}
	}
}

// ---------------------------------------------------------------- scripted peer

// FakePeer speaks the real protocol through a real p2p.P2P value (handshake, key agreement, encrypted framing,
// packet numbering are the repository's code) but its "blockchain layer" is a script: it announces the statistics
// it is told to and answers block requests from a table of wire-form blocks, with faults.
type FakePeer struct {
	p        *p2p.P2P
	dir      string
	Stats    packet.PacketStats
	First    *packet.PacketStats   // announced at connect instead of Stats; Stats follow after the pushed blocks
	Stale    *packet.PacketStats // sent right after Stats: an older announcement overtaken by a newer one
	ByHeight map[uint64][]byte    // what a by-height request returns
	ByHash   map[util.Hash][]byte // what a by-hash request returns
	Script   string               // "", "reverse", "dup", "silent"
	OnConnect [][]byte            // BLOCK payloads pushed right after the statistics (unsolicited)
	OnConnectTx [][]byte          // TX payloads pushed after them
	ReplaceServed map[uint64][]byte // by-height answers replaced by these payloads (invalid blocks)
	Requests atomic.Int64
	Served   atomic.Int64
	Pushed   atomic.Int64
	stop     chan struct{}
}

func newFakePeer() *FakePeer {
	dir, _ := os.MkdirTemp("", "verif-c11-fake-")
	f := &FakePeer{p: p2p.Start(nil, dir), dir: dir, ByHeight: map[uint64][]byte{}, ByHash: map[util.Hash][]byte{},
		ReplaceServed: map[uint64][]byte{}, stop: make(chan struct{})}
	f.p.Exclusive = true
	return f
}

func (f *FakePeer) send(c *p2p.Connection, t packet.Type, data []byte) {
	// the connection's write channel holds 2*PARALLEL_BLOCKS_DOWNLOAD packets; wait instead of dropping
	for i := 0; i < 400; i++ {
		if c.SendPacket(&p2p.Packet{Type: t, Data: data}) == nil {
			return
		}
		time.Sleep(5 * time.Millisecond)
	}
}

func (f *FakePeer) run() {
	go func() {
		for {
			select {
			case c := <-f.p.NewConnections:
				go func() {
					if f.First != nil {
						// announce an older state first, relay the newer blocks unannounced, announce them afterwards
						f.send(c, packet.STATS, f.First.Serialize())
						for _, b := range f.OnConnect {
							f.send(c, packet.BLOCK, b)
							f.Pushed.Add(1)
						}
						// (well after the blocks: an announcement that overtakes them turns them into announced blocks, which
						// wake the post-processor up only once enough of them are queued)
						time.Sleep(3 * time.Second)
						f.send(c, packet.STATS, f.Stats.Serialize())
						return
					}
					f.send(c, packet.STATS, f.Stats.Serialize())
					if f.Stale != nil {
						f.send(c, packet.STATS, f.Stale.Serialize())
					}
					for _, b := range f.OnConnect {
						f.send(c, packet.BLOCK, b)
						f.Pushed.Add(1)
					}
					for _, t := range f.OnConnectTx {
						f.send(c, packet.TX, t)
						f.Pushed.Add(1)
					}
				}()
			case <-f.stop:
				return
			}
		}
	}()
	go func() {
		for {
			select {
			case pk := <-f.p.PacketsIn:
				if pk.Type != packet.BLOCK_REQUEST {
					continue
				}
				req := packet.PacketBlockRequest{}
				if req.Deserialize(pk.Data) != nil {
					continue
				}
				f.Requests.Add(1)
				var out [][]byte
				if req.Height == 0 {
					if b, ok := f.ByHash[req.Hash]; ok {
						out = append(out, b)
					}
				} else {
					for h := req.Height; h <= req.Height+uint64(req.Count); h++ {
						b, ok := f.ByHeight[h]
						if !ok {
							break
						}
						if rb, ok := f.ReplaceServed[h]; ok {
							b = rb
						}
						out = append(out, b)
					}
				}
				switch f.Script {
				case "silent":
					out = nil
				case "reverse":
					for i, j := 0, len(out)-1; i < j; i, j = i+1, j-1 {
						out[i], out[j] = out[j], out[i]
					}
				case "dup":
					d := make([][]byte, 0, 2*len(out))
					for _, b := range out {
						d = append(d, b, b)
					}
					out = d
				}
				conn := pk.Conn
				go func() {
					for _, b := range out {
						f.send(conn, packet.BLOCK, b)
						f.Served.Add(1)
					}
					if f.Stale != nil {
						f.send(conn, packet.STATS, f.Stale.Serialize())
					}
				}()
			case <-f.stop:
				return
			}
		}
	}()
}

// connectTo dials a node and attaches the connection to the scripted peer's P2P value.
func (f *FakePeer) connectTo(addr string) error {
	c, err := net.DialTimeout("tcp", addr, 3*time.Second)
	if err != nil {
		return err
	}
	return f.p.VerifAttachConn(c, true, true)
}

// disconnect closes the scripted peer's connections (the peer "has left"); the peer itself keeps running
func (f *FakePeer) disconnect() {
	f.p.RLock()
	var cs []*p2p.Connection
	for _, c := range f.p.Connections {
		cs = append(cs, c)
	}
	f.p.RUnlock()
	for _, c := range cs {
		f.p.Kick(c)
	}
}

func (f *FakePeer) close() {
	close(f.stop)
	f.p.RLock()
	var cs []*p2p.Connection
	for _, c := range f.p.Connections {
		cs = append(cs, c)
	}
	f.p.RUnlock()
	for _, c := range cs {
		f.p.Kick(c)
	}
	os.RemoveAll(f.dir)
}
