package main

import (
	"bytes"
	"fmt"
	"os"

	"github.com/virel-project/virel-blockchain/v3/adb/lmdb"
	"github.com/virel-project/virel-blockchain/v3/blockchain"
	"github.com/virel-project/virel-blockchain/v3/logger"

	"github.com/virel-project/virel-blockchain/v3/bitcrypto"
	"encoding/binary"
	"sort"

	"verifharness/memdb"

	"github.com/virel-project/virel-blockchain/v3/adb"
	"github.com/virel-project/virel-blockchain/v3/address"
	"github.com/virel-project/virel-blockchain/v3/chaintype"
	"github.com/virel-project/virel-blockchain/v3/config"
	"github.com/virel-project/virel-blockchain/v3/transaction"
	"github.com/virel-project/virel-blockchain/v3/util"
	"github.com/virel-project/virel-blockchain/v3/util/uint128"
)

type Obs struct {
	Accepted bool
	Crashed  bool
	Top      util.Hash
	TopH     uint64
	TopCD    uint128.Uint128
	Staked   uint64
	Sum      uint64 // sum of balances (wrapping uint64)
	NAccts   uint64
	Commits  int  // database commits made by this delivery
	NoTrace  bool // commits == 0 implies the database is byte-identical to before (checked key by key)
	Skip     bool // member of a batch other than the last one worked off: the node was not observed after this block
}

type AcctRow struct {
	Addr address.Address
	St   chaintype.State
}
type Dump struct {
	Accts  []AcctRow
	Dlgs   []*chaintype.Delegate
	Staked uint64
	Top    util.Hash
	TopH   uint64
	TopCD  uint128.Uint128
	Topo   [][2]any // height, hash
	TxH    [][2]any // txid hash, height
	InTx   [][3]any // addr, counter, hash
	OutTx  [][3]any
}

type Op struct {
	Node *TNode
	Now  uint64
	Obs  Obs
	Dump *Dump
	// commits made by this delivery on the node under test and, for crash testing, a snapshot after it
	Commits int
}

type History struct {
	W      *World
	Ops    []*Op
	Fresh  *Dump // dump of a fresh node fed only the final main chain
	FreshOK bool
	NUT    *memdb.DB
	Stats  map[string]int
	BranchValidRefused []int // op indexes where a block valid on its own branch (builder accepted) was refused though parent known
	Crashes []*Crash
	LMDBChecked bool // the same deliveries were replayed on a node over the real LMDB back-end
	LMDBSame    bool // ... and its store equals the in-memory store key by key (statistics compared field by field)
	snaps   map[int]*memdb.DB
}

// Crash: the process is stopped after operation Op (every commit up to then is on disk), restarted, and the
// deliveries from Resume on are offered again.
type Crash struct {
	Op, Resume int
	RestartErr bool
	Restart    *Dump
	Final      *Dump
}

func (w *World) observe(db *memdb.DB, acc, crashed bool) Obs {
	o := Obs{Accepted: acc, Crashed: crashed}
	w.view(db, func(v *View) {
		st := v.Stats()
		o.Top, o.TopH, o.TopCD, o.Staked = st.TopHash, st.TopHeight, st.CumulativeDiff, st.StakedAmount
		v.txn.ForEach(w.bc.Index.State, func(k, val []byte) error {
			s := &chaintype.State{}
			if err := s.Deserialize(val); err == nil {
				o.Sum += s.Balance
			}
			o.NAccts++
			return nil
		})
	})
	return o
}

func (w *World) dump(db *memdb.DB) *Dump {
	d := &Dump{}
	w.view(db, func(v *View) {
		st := v.Stats()
		d.Top, d.TopH, d.TopCD, d.Staked = st.TopHash, st.TopHeight, st.CumulativeDiff, st.StakedAmount
		v.txn.ForEach(w.bc.Index.State, func(k, val []byte) error {
			s := &chaintype.State{}
			if err := s.Deserialize(val); err != nil {
				panic(err)
			}
			d.Accts = append(d.Accts, AcctRow{address.Address(k), *s})
			return nil
		})
		w.bc.GetDelegates(v.txn, func(dl *chaintype.Delegate) (bool, error) {
			d.Dlgs = append(d.Dlgs, dl)
			return false, nil
		})
		v.txn.ForEach(w.bc.Index.Topo, func(k, val []byte) error {
			d.Topo = append(d.Topo, [2]any{binary.LittleEndian.Uint64(k), util.Hash(val)})
			return nil
		})
		sort.Slice(d.Topo, func(i, j int) bool { return d.Topo[i][0].(uint64) < d.Topo[j][0].(uint64) })
		v.txn.ForEach(w.bc.Index.Tx, func(k, val []byte) error {
			d.TxH = append(d.TxH, [2]any{util.Hash(k), binary.LittleEndian.Uint64(val[:8])})
			return nil
		})
		split := func(k []byte) (address.Address, uint64) {
			a := address.Address(k[:address.SIZE])
			c, _ := binary.Uvarint(k[address.SIZE:])
			return a, c
		}
		v.txn.ForEach(w.bc.Index.InTx, func(k, val []byte) error {
			a, c := split(k)
			d.InTx = append(d.InTx, [3]any{a, c, util.Hash(val)})
			return nil
		})
		v.txn.ForEach(w.bc.Index.OutTx, func(k, val []byte) error {
			a, c := split(k)
			d.OutTx = append(d.OutTx, [3]any{a, c, util.Hash(val)})
			return nil
		})
	})
	return d
}

func (w *World) nodeOfTop(db *memdb.DB) *TNode {
	var h util.Hash
	w.view(db, func(v *View) { h = v.Stats().TopHash })
	return w.byHash[h]
}

func isAncestor(a, of *TNode) bool {
	for x := of; x != nil; x = x.Parent {
		if x == a {
			return true
		}
	}
	return false
}

var corruptions = []string{"side-is-parent", "side-is-grandparent", "side-rereference","diff+1", "diff-1", "cumdiff+1", "cumdiff-1", "height+1", "height-1", "ts-before-parent",
	"ts-future", "version", "bad-pow", "next-delegate", "delegate-id", "anc1", "anc2", "anc2-other",
	"otherchain-own", "otherchain-dup", "otherchain-ok", "side-dup"}

type HistParams struct {
	Steps    int
	Wallets  int
	PBadTx   int // percent of blocks with one corrupted transaction
	PCorrupt int // percent of blocks with one header corruption
	PFork    int
	PReorg   int
	DumpEvery int
	Crashes  int
	Scenario string
	LMDB     bool
}

func (w *World) genHistory(p HistParams) *History {
	h := &History{W: w, NUT: w.freshDB(), Stats: map[string]int{}}
	rng := w.rng
	deliver := func(n *TNode) *Op {
		pre := h.NUT.Commits
		parentKnown, dup := false, false
		w.view(h.NUT, func(v *View) {
			parentKnown = v.Block(n.Block.PrevHash()) != nil
			dup = v.Block(n.Hash) != nil
		})
		before := h.NUT.Snapshot()
		oldTop := w.nodeOfTop(h.NUT)
		acc, _, crashed, now := w.deliverTo(h.NUT, n)
		if newTop := w.nodeOfTop(h.NUT); newTop != nil && oldTop != nil && newTop != oldTop && newTop.Parent != oldTop {
			h.Stats["reorg"]++
			// which transaction kinds were connected / disconnected
			for x := newTop; x != nil && !isAncestor(x, oldTop); x = x.Parent {
				for _, t := range x.Txs {
					h.Stats[fmt.Sprintf("reorg-connect-tx%d", t.Version)]++
				}
				if x.Block.StakeSignature != bitcrypto.BlankSignature {
					h.Stats["reorg-connect-staked"]++
				}
			}
			for x := oldTop; x != nil && !isAncestor(x, newTop); x = x.Parent {
				for _, t := range x.Txs {
					h.Stats[fmt.Sprintf("reorg-disconnect-tx%d", t.Version)]++
				}
				if x.Block.StakeSignature != bitcrypto.BlankSignature {
					h.Stats["reorg-disconnect-staked"]++
				}
			}
		}
		op := &Op{Node: n, Now: now, Obs: w.observe(h.NUT, acc, crashed), Commits: h.NUT.Commits - pre}
		op.Obs.Commits = op.Commits
		op.Obs.NoTrace = op.Commits > 0 || memdb.Equal(before, h.NUT)
		h.Ops = append(h.Ops, op)
		if p.DumpEvery > 0 && len(h.Ops)%p.DumpEvery == 0 {
			op.Dump = w.dump(h.NUT)
			if h.snaps == nil {
				h.snaps = map[int]*memdb.DB{}
			}
			h.snaps[len(h.Ops)-1] = h.NUT.Snapshot()
		}
		if n.Valid && !acc && parentKnown && !dup {
			h.BranchValidRefused = append(h.BranchValidRefused, len(h.Ops)-1)
		}
		switch {
		case crashed:
			h.Stats["crashed"]++
		case acc:
			h.Stats["accepted"]++
		default:
			h.Stats["rejected"]++
		}
		return op
	}
	// deliverBatch hands several blocks to the node at once: each is prevalidated and queued for the validator's
	// post-processor, which then works the queue off (lowest height first). The operations are recorded in the order
	// the post-processor takes them - selectAndPostprocess: first entry of minimal height, the last entry moves into its
	// place - and only the last one carries an observation of the node.
	deliverBatch := func(ns []*TNode) {
		raws := make([][]byte, len(ns))
		for i, n := range ns {
			raws[i] = n.Raw
		}
		w.bc.DB = h.NUT
		pre := h.NUT.Commits
		now := util.Time()
		crashed := false
		var stages []int
		func() {
			defer func() {
				if recover() != nil {
					crashed = true
				}
			}()
			stages = w.bc.VerifDeliverBatch(raws)
		}()
		var q []*TNode
		for i, n := range ns {
			if i < len(stages) && stages[i] == 2 {
				q = append(q, n)
			} else {
				h.Stats["batch-member-not-queued"]++
			}
		}
		var order []*TNode
		for len(q) > 0 {
			mi := 0
			for i := 1; i < len(q); i++ {
				if q[i].Block.Height < q[mi].Block.Height {
					mi = i
				}
			}
			order = append(order, q[mi])
			q[mi] = q[len(q)-1]
			q = q[:len(q)-1]
		}
		final := w.observe(h.NUT, false, crashed)
		for i, n := range order {
			acc := false
			w.view(h.NUT, func(v *View) { acc = v.Block(n.Hash) != nil })
			op := &Op{Node: n, Now: now, Obs: final}
			op.Obs.Accepted, op.Obs.Skip = acc, i < len(order)-1
			op.Obs.Commits, op.Obs.NoTrace = 0, true // the commits of a batch are not attributed to its members
			if i == len(order)-1 {
				op.Commits = h.NUT.Commits - pre
				op.Dump = w.dump(h.NUT)
			}
			h.Ops = append(h.Ops, op)
		}
		h.Stats["batch"]++
		h.Stats[fmt.Sprintf("batch-size-%d", len(ns))]++
	}
	_ = deliverBatch
	burst := 0           // remaining blocks of a competing branch being built
	var burstTip *TNode
	for step := 0; step < p.Steps; step++ {
		// choose the parent
		var parent *TNode
		if burst > 0 && burstTip != nil && burstTip.Snap != nil {
			parent = burstTip
			burst--
		} else if top := w.nodeOfTop(h.NUT); rng.Intn(100) < p.PReorg && top != nil && top.Block.Height >= 2 {
			// start a competing branch from 1..4 blocks below the tip and make it overtake
			depth := 1 + rng.Intn(4)
			fp := top
			for i := 0; i < depth && fp.Parent != nil && fp.Parent.Parent != nil; i++ {
				fp = fp.Parent
			}
			parent = fp
			burst = int(top.Block.Height-fp.Block.Height) + rng.Intn(2)
			burstTip = nil
			h.Stats["reorg-burst"]++
		} else if rng.Intn(100) < p.PFork {
			var cands []*TNode
			for i := len(w.nodes) - 1; i >= 0 && len(cands) < 8; i-- {
				if w.nodes[i].Snap != nil {
					cands = append(cands, w.nodes[i])
				}
			}
			parent = cands[rng.Intn(len(cands))]
			h.Stats["fork-parent"]++
		} else {
			parent = w.nodeOfTop(h.NUT)
		}
		if parent == nil || parent.Snap == nil {
			parent = w.genesis
		}
		spec := BlockSpec{}
		switch rng.Intn(10) {
		case 0:
			spec.TsDelta = 0
		case 1:
			spec.TsDelta = uint64(1 + rng.Intn(200))
		case 2:
			spec.TsDelta = 30000 + rng.UpTo(60000)
		default:
			spec.TsDelta = 10000 + rng.UpTo(10000)
		}
		switch rng.Intn(12) {
		case 0:
			spec.Recipient = address.NewDelegateAddress(uint64(1 + rng.Intn(6)))
		case 1:
			spec.Recipient = address.INVALID_ADDRESS
		default:
			spec.Recipient = w.wallets[rng.Intn(len(w.wallets))].Addr
		}
		var bad string
		spec.Txs, spec.TxMeta, bad = w.genTxs(parent, 4, p.PBadTx)
		if bad != "" {
			h.Stats["badtx:"+bad]++
		}
		// side blocks: propose recent blocks that are not ancestors of the new block
		if rng.Intn(100) < 30 {
			var cands []*TNode
			for _, n := range w.nodes {
				if n.Block.Height >= 1 && n.Block.Height+4 > parent.Block.Height+1 && n.Block.Height <= parent.Block.Height+1 &&
					!isAncestor(n, parent) && n.Parent != nil {
					cands = append(cands, n)
				}
			}
			k := 1 + rng.Intn(2)
			if rng.Intn(15) == 0 {
				k = 3
			}
			for i := 0; i < k && len(cands) > 0; i++ {
				j := rng.Intn(len(cands))
				spec.Sides = append(spec.Sides, cands[j])
				if rng.Intn(6) != 0 {
					cands = append(cands[:j], cands[j+1:]...)
				}
			}
			if len(spec.Sides) > 0 {
				h.Stats["with-sides"]++
			}
		}
		switch r := rng.Intn(100); {
		case r < 60:
			spec.Sign = 1
		case r < 64:
			spec.Sign = 2
		case r < 68:
			spec.Sign = 3
		case r < 71:
			spec.Sign = 4
		}
		if rng.Intn(100) < p.PCorrupt {
			spec.Corrupt = corruptions[rng.Intn(len(corruptions))]
			h.Stats["corrupt:"+spec.Corrupt]++
		}
		n := w.build(parent, spec)
		if len(spec.Sides) > config.MAX_SIDE_BLOCKS || spec.Corrupt == "side-dup" && len(n.Block.SideBlocks) > config.MAX_SIDE_BLOCKS {
			// more than MAX_SIDE_BLOCKS cannot even be decoded: not a deliverable block for the model
			h.Stats["undecodable"]++
			if acc, st, _, _ := w.deliverTo(h.NUT, n); acc || st != 0 {
				panic("block with too many side blocks was decoded")
			}
			continue
		}
		w.admit(n)
		if burst > 0 || parent == burstTip {
			burstTip = n
		}
		if burst > 0 && burstTip == nil {
			burstTip = n
		}
		if n.Valid {
			h.Stats["built-valid"]++
		} else {
			h.Stats["built-invalid"]++
		}
		// orphan scenario: child first
		if n.Valid && rng.Intn(100) < 8 {
			ctxs, cmeta, _ := w.genTxs(n, 2, 0)
			c := w.build(n, BlockSpec{TsDelta: 15000, Recipient: w.wallets[0].Addr, Txs: ctxs, TxMeta: cmeta, Sign: 1})
			w.admit(c)
			deliver(c)
			deliver(n)
			deliver(c)
			h.Stats["orphan-scenario"]++
			continue
		}
		deliver(n)
		if rng.Intn(100) < 6 {
			deliver(w.nodes[1+rng.Intn(len(w.nodes)-1)]) // duplicate / late re-delivery
			h.Stats["redelivery"]++
		}
	}
	if len(h.Ops) > 0 {
		h.Ops[len(h.Ops)-1].Dump = w.dump(h.NUT)
	}
	switch p.Scenario {
	case "deepfork":
		w.scenarioDeepFork(h, deliver)
	case "bigblock":
		w.scenarioBigBlock(h, deliver)
	case "undokinds":
		w.scenarioUndoKinds(h, deliver)
	case "shortheavy":
		w.scenarioShortHeavy(h, deliver)
	case "corruptsweep":
		w.scenarioCorruptSweep(h, deliver)
	case "stalekey":
		w.scenarioStaleKey(h, deliver)
	case "badfork":
		w.scenarioBadFork(h, deliver)
	case "h440":
		w.scenarioH440(h, deliver)
	case "badtxsweep":
		w.scenarioBadTxSweep(h, deliver)
		w.scenarioUnlockEdge(h, deliver)
	case "batches":
		w.scenarioBatches(h, deliver, deliverBatch)
		w.scenarioSidePow(h, deliver)
		w.scenarioSideChains(h, deliver)
	case "sharedtx":
		w.scenarioSharedTx(h, deliver)
	case "highlight":
		w.scenarioHighLight(h, deliver)
	}
	if len(h.Ops) > 0 && h.Ops[len(h.Ops)-1].Dump == nil {
		h.Ops[len(h.Ops)-1].Dump = w.dump(h.NUT)
	}
	// crash / restart: from a committed state, start up again and offer the lost deliveries (with overlap)
	for opi, snap := range h.snaps {
		if len(h.Crashes) >= p.Crashes {
			break
		}
		db := snap.Snapshot()
		c := &Crash{Op: opi}
		w.bc.DB = db
		func() {
			defer func() {
				if recover() != nil {
					c.RestartErr = true
				}
			}()
			// start-up as in cmd/virel-node/node.go: (genesis exists) check for reorganisations
			err := db.Update(func(txn adb.Txn) error {
				stats := w.bc.GetStats(txn)
				reorged, err := w.bc.CheckReorgs(txn, stats)
				if err != nil {
					return err
				}
				if reorged {
					return w.bc.SetStats(txn, stats)
				}
				return nil
			})
			if err != nil {
				c.RestartErr = true
			}
		}()
		c.Restart = w.dump(db)
		c.Resume = opi + 1 - rng.Intn(4)
		if c.Resume < 0 {
			c.Resume = 0
		}
		for _, op := range h.Ops[c.Resume:] {
			w.deliverTo(db, op.Node)
		}
		c.Final = w.dump(db)
		h.Crashes = append(h.Crashes, c)
		h.Stats["crash-restart"]++
	}
	if p.LMDB {
		h.LMDBChecked, h.LMDBSame = true, w.replayOnLMDB(h)
		h.Stats["lmdb-replay"]++
	}
	// fresh node fed only the final main chain
	top := w.nodeOfTop(h.NUT)
	if top != nil {
		var chain []*TNode
		for x := top; x != nil && x.Parent != nil; x = x.Parent {
			chain = append([]*TNode{x}, chain...)
		}
		fresh := w.freshDB()
		ok := true
		for _, b := range chain {
			acc, _, _, _ := w.deliverTo(fresh, b)
			ok = ok && acc
			if !acc && os.Getenv("VERIF_DEBUG") != "" {
				blockchain.Log.SetLogLevel(1)
				w.deliverTo(fresh, b)
				blockchain.Log.SetLogLevel(0)
				fmt.Fprintf(os.Stderr, "fresh node refused block height %d note=%q txs=%d\n", b.Block.Height, b.Note, len(b.Txs))
				for _, t := range b.Txs {
					fmt.Fprintln(os.Stderr, t.String())
				}
			}
		}
		h.Fresh = w.dump(fresh)
		h.FreshOK = ok
	}
	return h
}

var _ = bytes.Equal
var _ = transaction.TX_VERSION_STAKE
var _ adb.DB


// scenarioDeepFork: two long branches from an early block, each with its own delegate registration, staking and
// staked blocks; the first branch is delivered completely, then the second (which ends heavier).
func (w *World) scenarioDeepFork(h *History, deliver func(*TNode) *Op) {
	rng := w.rng
	base := w.nodeOfTop(h.NUT)
	if base == nil {
		return
	}
	grow := func(from *TNode, n int, wal int) []*TNode {
		var out []*TNode
		cur := from
		for i := 0; i < n; i++ {
			txs, meta, _ := w.genTxs(cur, 3, 0)
			nb := w.build(cur, BlockSpec{TsDelta: 12000 + rng.UpTo(6000), Recipient: w.wallets[wal].Addr, Txs: txs, TxMeta: meta, Sign: 1})
			w.admit(nb)
			if !nb.Valid {
				break
			}
			out = append(out, nb)
			cur = nb
		}
		return out
	}
	a := grow(base, 11, 1)
	b := grow(base, 13, 2)
	for _, n := range a {
		deliver(n)
	}
	for _, n := range b {
		deliver(n)
	}
	h.Stats["scenario-deepfork"]++
}

// scenarioBigBlock: one block whose transactions exceed MAX_BLOCK_SIZE in total virtual size.
func (w *World) scenarioBigBlock(h *History, deliver func(*TNode) *Op) {
	parent := w.nodeOfTop(h.NUT)
	if parent == nil || parent.Snap == nil {
		return
	}
	height := parent.Block.Height + 1
	var txs []*transaction.Transaction
	var meta []TxMeta
	w.view(parent.Snap, func(v *View) {
		// the richest wallet signs a run of maximal-size transfers
		best, bal := 0, uint64(0)
		for i, wl := range w.wallets {
			if b := v.State(wl.Addr).Balance; b > bal {
				best, bal = i, b
			}
		}
		wal := w.wallets[best]
		st := v.State(wal.Addr)
		vs := uint64(99 + config.MAX_OUTPUTS*24)
		fee := minFee(height, vs)
		n := int(config.MAX_BLOCK_SIZE/vs) + 2
		if bal < uint64(n)*(fee+uint64(config.MAX_OUTPUTS)) {
			return
		}
		for k := 0; k < n; k++ {
			outs := make([]transaction.Output, config.MAX_OUTPUTS)
			for i := range outs {
				outs[i] = transaction.Output{Recipient: w.wallets[(best+1+i)%len(w.wallets)].Addr, Amount: 1}
			}
			t := &transaction.Transaction{Version: transaction.TX_VERSION_TRANSFER, Signer: wal.Pub, Nonce: st.LastNonce + 1 + uint64(k),
				Data: &transaction.Transfer{Outputs: outs}, Fee: fee}
			meta = append(meta, w.sign(t, wal))
			txs = append(txs, t)
		}
	})
	if len(txs) == 0 {
		h.Stats["scenario-bigblock-skipped"]++
		return
	}
	nb := w.build(parent, BlockSpec{TsDelta: 15000, Recipient: w.wallets[0].Addr, Txs: txs, TxMeta: meta, Note: "oversize"})
	w.admit(nb)
	deliver(nb)
	h.Stats["scenario-bigblock"]++
}


// scenarioUndoKinds: for each transaction kind in turn, a block X carrying one transaction of that kind is connected and
// then disconnected again by a competing two-block branch from X's parent (undo of every kind, on a live stake state).
func (w *World) scenarioUndoKinds(h *History, deliver func(*TNode) *Op) {
	rng := w.rng
	for round := 0; round < 14; round++ {
		parent := w.nodeOfTop(h.NUT)
		if parent == nil || parent.Snap == nil {
			return
		}
		kind := []int{4, 5, 4, 3, 2, 5, 1}[round%7]
		var txs []*transaction.Transaction
		var meta []TxMeta
		start := rng.Intn(len(w.wallets))
		// candidate signers; for a stake, first those whose fund has unlock height 0 (the fund the staker reward creates
		// for a pool owner): staking into it and undoing must bring the 0 back
		order := make([]int, 0, len(w.wallets))
		for k := 0; k < len(w.wallets); k++ {
			order = append(order, (start+k)%len(w.wallets))
		}
		if kind == 4 {
			var first, rest []int
			w.view(parent.Snap, func(v *View) {
				for _, wi := range order {
					zero := false
					if d := v.Delegate(v.State(w.wallets[wi].Addr).DelegateId); d != nil {
						for _, f := range d.Funds {
							if f.Owner == w.wallets[wi].Addr && f.Unlock == 0 {
								zero = true
							}
						}
					}
					if zero {
						first = append(first, wi)
					} else {
						rest = append(rest, wi)
					}
				}
			})
			if len(first) > 0 {
				h.Stats["undo-stake-into-unlock0-fund"]++
			}
			order = append(first, rest...)
		}
		for _, wi := range order {
			w.forceKind, w.forceWallet, w.forceZeroOut = kind, wi, kind == 1 && round >= 7
			t, m, _ := w.genTxs(parent, 1, 0)
			w.forceKind, w.forceZeroOut = 0, false
			if len(t) == 1 && int(t[0].Version) == kind {
				txs, meta = t, m
				break
			}
		}
		if len(txs) == 1 {
			h.Stats[fmt.Sprintf("undo-kind-%d", kind)]++
		}
		x := w.build(parent, BlockSpec{TsDelta: 14000 + rng.UpTo(2000), Recipient: w.wallets[rng.Intn(len(w.wallets))].Addr, Txs: txs, TxMeta: meta, Sign: 1})
		w.admit(x)
		deliver(x)
		y1 := w.build(parent, BlockSpec{TsDelta: 15000, Recipient: w.wallets[rng.Intn(len(w.wallets))].Addr, Sign: 1})
		w.admit(y1)
		deliver(y1)
		if !y1.Valid {
			continue
		}
		ytx, ymeta, _ := w.genTxs(y1, 2, 0)
		y2 := w.build(y1, BlockSpec{TsDelta: 15000, Recipient: w.wallets[rng.Intn(len(w.wallets))].Addr, Txs: ytx, TxMeta: ymeta, Sign: 1})
		w.admit(y2)
		deliver(y2)
	}
	h.Stats["scenario-undokinds"]++
}

// scenarioShortHeavy: a long branch of slowly spaced blocks and a short branch of quickly spaced blocks (rising
// difficulty) from the same parent; the node follows the long one, reorganises to the heavier SHORTER one, and then
// back to the long one once that has been extended.
func (w *World) scenarioShortHeavy(h *History, deliver func(*TNode) *Op) {
	base := w.nodeOfTop(h.NUT)
	if base == nil || base.Snap == nil {
		return
	}
	grow := func(from *TNode, n int, delta uint64) []*TNode {
		var out []*TNode
		cur := from
		for i := 0; i < n; i++ {
			nb := w.build(cur, BlockSpec{TsDelta: delta, Recipient: w.wallets[i%len(w.wallets)].Addr})
			w.admit(nb)
			if !nb.Valid {
				break
			}
			out = append(out, nb)
			cur = nb
		}
		return out
	}
	long := grow(base, 9, 15000)
	short := grow(base, 5, 100)
	if len(long) < 9 || len(short) < 5 {
		return
	}
	sEnd := short[len(short)-1]
	// deliver the long branch while it is lighter than the short one's end but already higher
	k := 0
	for k < len(long) && long[k].Block.CumulativeDiff.Cmp(sEnd.Block.CumulativeDiff) < 0 {
		deliver(long[k])
		k++
	}
	for _, n := range short {
		deliver(n)
	}
	for ; k < len(long); k++ {
		deliver(long[k])
	}
	if k > len(short) {
		h.Stats["scenario-shortheavy"]++
	}
}


// scenarioStaleKey: the alternative-tip table is keyed by the hash under which a tip was first recorded. Main chain
// a1-a2 and an alternative branch b-c of the same weight from the same parent (no reorganisation), then a SIBLING d of
// c (child of b) that is heavier because it commits to a1 as a side block: the node must follow d and its statistics
// must name d's real height; afterwards the chain is extended on d and on c.
func (w *World) scenarioStaleKey(h *History, deliver func(*TNode) *Op) {
	base := w.nodeOfTop(h.NUT)
	if base == nil || base.Snap == nil {
		return
	}
	mk := func(parent *TNode, wi int, sides ...*TNode) *TNode {
		n := w.build(parent, BlockSpec{TsDelta: 15000, Recipient: w.wallets[wi%len(w.wallets)].Addr, Sides: sides})
		w.admit(n)
		return n
	}
	a1 := mk(base, 0)
	a2 := mk(a1, 1)
	b := mk(base, 2)
	c := mk(b, 3)
	d := mk(b, 4, a1)
	if !a1.Valid || !a2.Valid || !b.Valid || !c.Valid {
		return
	}
	for _, n := range []*TNode{a1, a2, b, c} {
		deliver(n)
	}
	op := deliver(d) // d's side block is unknown on b's own snapshot: its validity is decided by the node under test
	op.Dump = w.dump(h.NUT)
	if w.nodeOfTop(h.NUT) != d {
		return
	}
	d.Snap, d.Valid = h.NUT.Snapshot(), true
	e := mk(d, 0)
	f := mk(c, 1)
	for _, n := range []*TNode{e, f} {
		if n.Valid {
			op = deliver(n)
			op.Dump = w.dump(h.NUT)
		}
	}
	h.Stats["scenario-stalekey"]++
}

// scenarioBadFork: an alternative branch x1-x2-x3 that outweighs the main chain m1-m2 but whose second block breaks a
// rule that is only examined when the block is applied to the ledger (the published lottery result). x1 and x2 are
// stored as alternative blocks; x3 makes the branch heavier, the reorganisation fails while connecting x2, and the whole
// delivery must leave the store as it was (then the main chain goes on).
func (w *World) scenarioBadFork(h *History, deliver func(*TNode) *Op) {
	base := w.nodeOfTop(h.NUT)
	if base == nil || base.Snap == nil || base.Block.Height+2 < config.HARDFORK_V3_HEIGHT {
		return
	}
	mk := func(parent *TNode, wi int, corrupt string) *TNode {
		n := w.build(parent, BlockSpec{TsDelta: 15000, Recipient: w.wallets[wi%len(w.wallets)].Addr, Corrupt: corrupt})
		w.admit(n)
		return n
	}
	m1 := mk(base, 0, "")
	m2 := mk(m1, 1, "")
	x1 := mk(base, 2, "")
	if !m1.Valid || !m2.Valid || !x1.Valid {
		return
	}
	x2 := mk(x1, 3, "next-delegate")
	if x2.Valid {
		return
	}
	for _, n := range []*TNode{m1, m2, x1, x2} {
		deliver(n)
	}
	stored := false
	w.view(h.NUT, func(v *View) { stored = v.Block(x2.Hash) != nil })
	if !stored {
		return
	}
	x2.Snap = h.NUT.Snapshot() // only to compute the header fields of its child
	x3 := w.build(x2, BlockSpec{TsDelta: 15000, Recipient: w.wallets[4%len(w.wallets)].Addr})
	w.nodes = append(w.nodes, x3)
	w.byHash[x3.Hash] = x3
	op := deliver(x3)
	op.Dump = w.dump(h.NUT)
	m3 := mk(m2, 0, "")
	if m3.Valid {
		op = deliver(m3)
		op.Dump = w.dump(h.NUT)
	}
	h.Stats["scenario-badfork"]++
}

// scenarioH440: mainnet block 440 repeats a side block and PrevalidateBlock exempts that height from the duplicate
// side block checks. The chain is grown to height 439 with empty blocks; a block at height 440 (and, for comparison,
// one at 441) that lists the same side block twice - counting its work twice - must be refused wherever height 440 is
// not pinned by a checkpoint.
func (w *World) scenarioH440(h *History, deliver func(*TNode) *Op) {
	cur := w.nodeOfTop(h.NUT)
	if cur == nil || cur.Snap == nil {
		return
	}
	mk := func(parent *TNode, wi int, spec BlockSpec) *TNode {
		spec.TsDelta, spec.Recipient = 15000, w.wallets[wi%len(w.wallets)].Addr
		n := w.build(parent, spec)
		w.admit(n)
		return n
	}
	for cur.Block.Height < 439 {
		n := mk(cur, int(cur.Block.Height), BlockSpec{})
		if !n.Valid {
			return
		}
		deliver(n)
		cur = n
	}
	for _, target := range []uint64{440, 441} {
		if cur.Parent == nil || cur.Parent.Snap == nil {
			return
		}
		sib := w.build(cur.Parent, BlockSpec{TsDelta: 16000, Recipient: w.wallets[1].Addr})
		w.admit(sib)
		deliver(sib)
		twice := mk(cur, 2, BlockSpec{Sides: []*TNode{sib}, Corrupt: "side-dup"})
		op := deliver(twice)
		op.Dump = w.dump(h.NUT)
		h.Stats[fmt.Sprintf("h440:side-twice-at-%d", target)]++
		if target == 440 {
			nxt := mk(cur, 3, BlockSpec{})
			if !nxt.Valid {
				return
			}
			deliver(nxt)
			cur = nxt
		}
	}
	h.Stats["scenario-h440"]++
}

// txCorruptions: every single-rule corruption of a transaction with the kind of transaction it applies to
var txCorruptions = []struct {
	name string
	kind int
}{{"sig-bit", 1}, {"sig-other-key", 1}, {"sig-foreign", 1}, {"sig-masterchain", 1}, {"sig-netid+1", 1}, {"sig-masterchain", 4},
	{"sig-foreign", 5}, {"nonce+1", 1}, {"nonce-1", 1}, {"fee-1", 1}, {"overdraft", 1}, {"tamper-after-sign", 1}, {"outputs-33", 1},
	{"outputs-0", 1}, {"overflow-outputs", 1}, {"overflow-outputs-mid", 1}, {"overflow-outputs-small-total", 1}, {"version-0", 1}, {"version-6-as-1", 1}, {"dup-delegate", 2}, {"delegate-id-0", 2},
	{"delegate-id-1", 2}, {"name-too-long", 2}, {"wrong-prev-delegate", 3}, {"set-delegate-missing", 3}, {"set-delegate-with-funds", 3},
	{"stake-below-min", 4}, {"stake-wrong-delegate", 4}, {"stake-wrong-prevunlock", 4}, {"early-unstake", 5}, {"foreign-fund", 5},
	{"unstake-too-much", 5}, {"unstake-fee-gt-amount", 5}}

// scenarioBadTxSweep: each transaction corruption once, in a block of its own on the live chain state (the block must
// be refused, or accepted where the corruption happens to be harmless in that state: the model decides), with a valid
// block in between now and then.
func (w *World) scenarioBadTxSweep(h *History, deliver func(*TNode) *Op) {
	rng := w.rng
	for _, c := range txCorruptions {
		parent := w.nodeOfTop(h.NUT)
		if parent == nil || parent.Snap == nil {
			return
		}
		var txs []*transaction.Transaction
		var meta []TxMeta
		start := rng.Intn(len(w.wallets))
		for k := 0; k < len(w.wallets); k++ {
			w.forceKind, w.forceWallet, w.forceCorrupt = c.kind, (start+k)%len(w.wallets), c.name
			t, m, _ := w.genTxs(parent, 1, 0)
			w.forceKind, w.forceCorrupt = 0, ""
			if len(t) == 1 && (int(t[0].Version) == c.kind || c.name == "version-0" || c.name == "version-6-as-1") {
				txs, meta = t, m
				break
			}
		}
		if len(txs) == 1 {
			h.Stats["badtx-sweep:"+c.name]++
			x := w.build(parent, BlockSpec{TsDelta: 14000 + rng.UpTo(2000), Recipient: w.wallets[rng.Intn(len(w.wallets))].Addr, Txs: txs, TxMeta: meta, Sign: 1})
			w.admit(x)
			deliver(x)
		}
		if rng.Intn(3) == 0 {
			ytx, ymeta, _ := w.genTxs(parent, 2, 0)
			y := w.build(parent, BlockSpec{TsDelta: 15000, Recipient: w.wallets[rng.Intn(len(w.wallets))].Addr, Txs: ytx, TxMeta: ymeta, Sign: 1})
			w.admit(y)
			deliver(y)
		}
	}
	h.Stats["scenario-badtxsweep"]++
}

// scenarioUnlockEdge: a stake, then on every tip from there until past the unlock height a block carrying the staker's
// unstake: refused on every tip below the unlock height, accepted on the first tip that reaches it (the block that
// carried a refused unstake is replaced by an empty one so that the tip moves on one block at a time).
func (w *World) scenarioUnlockEdge(h *History, deliver func(*TNode) *Op) {
	rng := w.rng
	force := func(parent *TNode, kind, wi int, corrupt string) ([]*transaction.Transaction, []TxMeta) {
		w.forceKind, w.forceWallet, w.forceCorrupt = kind, wi, corrupt
		t, m, _ := w.genTxs(parent, 1, 0)
		w.forceKind, w.forceCorrupt = 0, ""
		if len(t) == 1 && int(t[0].Version) == kind {
			return t, m
		}
		return nil, nil
	}
	for round := 0; round < 2; round++ {
		parent := w.nodeOfTop(h.NUT)
		if parent == nil || parent.Snap == nil {
			return
		}
		staker := -1
		for k, start := 0, rng.Intn(len(w.wallets)); k < len(w.wallets) && staker < 0; k++ {
			wi := (start + k) % len(w.wallets)
			if txs, meta := force(parent, 4, wi, ""); txs != nil {
				x := w.build(parent, BlockSpec{TsDelta: 15000, Recipient: w.wallets[rng.Intn(len(w.wallets))].Addr, Txs: txs, TxMeta: meta, Sign: 1})
				w.admit(x)
				deliver(x)
				if x.Valid && w.nodeOfTop(h.NUT) == x {
					staker = wi
				}
			}
		}
		if staker < 0 {
			return
		}
		for step := uint64(0); step < config.STAKE_UNLOCK_TIME+3; step++ {
			parent = w.nodeOfTop(h.NUT)
			if parent == nil || parent.Snap == nil {
				return
			}
			done := false
			if txs, meta := force(parent, 5, staker, "early-unstake"); txs != nil {
				x := w.build(parent, BlockSpec{TsDelta: 15000, Recipient: w.wallets[rng.Intn(len(w.wallets))].Addr, Txs: txs, TxMeta: meta, Sign: 1})
				w.admit(x)
				op := deliver(x)
				op.Dump = w.dump(h.NUT)
				h.Stats["unlock-edge-attempt"]++
				done = w.nodeOfTop(h.NUT) == x
			}
			if done {
				h.Stats["unlock-edge-unstaked"]++
				break
			}
			y := w.build(parent, BlockSpec{TsDelta: 15000, Recipient: w.wallets[rng.Intn(len(w.wallets))].Addr, Sign: 1})
			w.admit(y)
			deliver(y)
		}
	}
	h.Stats["scenario-unlockedge"]++
}

// scenarioBatches: chains and forks handed to the node in batches - out of order, with duplicates, children before
// parents, a parent missing from the batch and supplied by a later one. Every block that was handed over at least once
// after its parent must end up stored and the tip must be the heaviest.
func (w *World) scenarioBatches(h *History, deliver func(*TNode) *Op, deliverBatch func([]*TNode)) {
	rng := w.rng
	grow := func(from *TNode, n int, wi int) []*TNode {
		var out []*TNode
		cur := from
		for i := 0; i < n; i++ {
			txs, meta, _ := w.genTxs(cur, 2, 0)
			nb := w.build(cur, BlockSpec{TsDelta: 12000 + rng.UpTo(6000), Recipient: w.wallets[(wi+i)%len(w.wallets)].Addr, Txs: txs, TxMeta: meta, Sign: 1})
			w.admit(nb)
			if !nb.Valid {
				break
			}
			out = append(out, nb)
			cur = nb
		}
		return out
	}
	for round := 0; round < 6; round++ {
		base := w.nodeOfTop(h.NUT)
		if base == nil || base.Snap == nil {
			return
		}
		c := grow(base, 3+rng.Intn(2), round)
		if len(c) < 3 {
			return
		}
		var batch []*TNode
		switch round {
		case 0: // the last block first, then the chain in order, the last block again
			batch = append([]*TNode{c[len(c)-1]}, c...)
		case 1: // twice the last block first
			batch = append([]*TNode{c[len(c)-1], c[len(c)-1]}, c...)
		case 2: // every block twice, the last one first
			batch = []*TNode{c[len(c)-1]}
			for _, x := range c[:len(c)-1] {
				batch = append(batch, x, x)
			}
			batch = append(batch, c[len(c)-1])
		case 3: // reversed
			for i := len(c) - 1; i >= 0; i-- {
				batch = append(batch, c[i])
			}
		case 4: // the first block is missing from the batch (all orphans), a second batch supplies everything
			deliverBatch(c[1:])
			batch = append([]*TNode{}, c...)
			rng2 := rng.Intn(len(batch))
			batch[0], batch[rng2] = batch[rng2], batch[0]
		default: // a random permutation with duplicates of the chain and of a competing branch from the same parent
			f := grow(base, len(c), round+2)
			batch = append(append(append([]*TNode{}, c...), f...), c[rng.Intn(len(c))])
			for i := len(batch) - 1; i > 0; i-- {
				j := rng.Intn(i + 1)
				batch[i], batch[j] = batch[j], batch[i]
			}
		}
		deliverBatch(batch)
	}
	h.Stats["scenario-batches"]++
}

// scenarioSidePow: quickly spaced blocks (the difficulty climbs through every residue modulo 3); on every tip a block
// whose side block carries just less than two thirds of the block's work (must be refused) and one whose side block
// carries just that much (accepted, becomes the tip).
func (w *World) scenarioSidePow(h *History, deliver func(*TNode) *Op) {
	for step := 0; step < 9; step++ {
		parent := w.nodeOfTop(h.NUT)
		if parent == nil || parent.Snap == nil || parent.Parent == nil || parent.Parent.Snap == nil {
			return
		}
		sib := w.build(parent.Parent, BlockSpec{TsDelta: 300, Recipient: w.wallets[step%len(w.wallets)].Addr})
		w.admit(sib)
		deliver(sib)
		for _, c := range []string{"side-pow-below", "side-pow-at"} {
			x := w.build(parent, BlockSpec{TsDelta: 200, Recipient: w.wallets[(step+1)%len(w.wallets)].Addr, Sides: []*TNode{sib}, Corrupt: c})
			w.admit(x)
			deliver(x)
			h.Stats[fmt.Sprintf("%s:diff%%3=%d", c, x.Block.Difficulty.Lo%3)]++
		}
		if w.nodeOfTop(h.NUT) == parent {
			y := w.build(parent, BlockSpec{TsDelta: 200, Recipient: w.wallets[(step+2)%len(w.wallets)].Addr})
			w.admit(y)
			deliver(y)
		}
	}
	h.Stats["scenario-sidepow"]++
}

// scenarioHighLight: the node ends on a short heavy branch (blocks 100 ms apart: the difficulty climbs) while it also holds
// a competing branch from the same parent that is HIGHER than its tip and lighter (blocks 15 s apart): stored blocks above
// the top of the main chain that are on no main chain. Transactions ride on both branches.
func (w *World) scenarioHighLight(h *History, deliver func(*TNode) *Op) {
	base := w.nodeOfTop(h.NUT)
	if base == nil || base.Snap == nil {
		return
	}
	grow := func(from *TNode, n int, delta uint64, withTx bool) []*TNode {
		var out []*TNode
		cur := from
		for i := 0; i < n; i++ {
			spec := BlockSpec{TsDelta: delta, Recipient: w.wallets[i%len(w.wallets)].Addr}
			if withTx && i%2 == 0 {
				spec.Txs, spec.TxMeta, _ = w.genTxs(cur, 2, 0)
			}
			nb := w.build(cur, spec)
			w.admit(nb)
			if !nb.Valid {
				nb = w.build(cur, BlockSpec{TsDelta: delta, Recipient: w.wallets[i%len(w.wallets)].Addr})
				w.admit(nb)
				if !nb.Valid {
					break
				}
			}
			out = append(out, nb)
			cur = nb
		}
		return out
	}
	short := grow(base, 5, 100, true)
	long := grow(base, 12, 15000, true)
	if len(short) < 5 {
		return
	}
	sEnd := short[len(short)-1]
	// half of the light branch first (the node follows it), then the heavy branch (reorganisation), then more of the light
	// branch for as long as it stays lighter
	k := 0
	for k < len(long) && k < 3 && long[k].Block.CumulativeDiff.Cmp(sEnd.Block.CumulativeDiff) < 0 {
		deliver(long[k])
		k++
	}
	for _, n := range short {
		deliver(n)
	}
	for k < len(long) && long[k].Block.CumulativeDiff.Cmp(sEnd.Block.CumulativeDiff) < 0 {
		deliver(long[k])
		k++
	}
	if k > 0 && long[k-1].Block.Height > sEnd.Block.Height && w.nodeOfTop(h.NUT) == sEnd {
		h.Stats["scenario-highlight"]++
	}
}

// scenarioSideChains: a sibling block that was merge-mined with two other chains becomes a side block of the next
// block; later blocks reference it again, unchanged and with its chain list in the other order (same base hash,
// timestamp, nonces, mining blob and proof of work: the same side block). Both must be refused - its work is counted
// once - from the child and from the grandchild of the block that referenced it.
func (w *World) scenarioSideChains(h *History, deliver func(*TNode) *Op) {
	parent := w.nodeOfTop(h.NUT)
	if parent == nil || parent.Snap == nil || parent.Parent == nil || parent.Parent.Snap == nil {
		return
	}
	sib := w.build(parent.Parent, BlockSpec{TsDelta: 300, Recipient: w.wallets[0].Addr, Corrupt: "otherchain-ok"})
	w.admit(sib)
	deliver(sib)
	x := w.build(parent, BlockSpec{TsDelta: 200, Recipient: w.wallets[1%len(w.wallets)].Addr, Sides: []*TNode{sib}})
	w.admit(x)
	deliver(x)
	cur := x
	for depth := 0; depth < 2 && w.nodeOfTop(h.NUT) == cur && cur.Snap != nil; depth++ {
		for _, c := range []string{"side-rereference", "side-rereference-permuted"} {
			y := w.build(cur, BlockSpec{TsDelta: 200, Recipient: w.wallets[2%len(w.wallets)].Addr, Corrupt: c})
			w.admit(y)
			deliver(y)
			h.Stats[fmt.Sprintf("%s:depth%d:sides%d", c, depth+1, len(y.Block.SideBlocks))]++
		}
		z := w.build(cur, BlockSpec{TsDelta: 200, Recipient: w.wallets[3%len(w.wallets)].Addr})
		w.admit(z)
		deliver(z)
		cur = z
	}
	h.Stats["scenario-sidechains"]++
}

// scenarioSharedTx: the SAME transactions - a stake S and, once its lock has expired, the unstake T that empties the
// fund again - are included on three branches from one parent, at different heights: branch A (S in the first block),
// branch B (S one block later, so the fund's unlock height differs; T connected a second time), branch C (shares B's
// blocks up to before T and outweighs it: T is undone a second time). What the node keeps under a transaction id when
// the transaction is connected must be what THIS connection saw.
func (w *World) scenarioSharedTx(h *History, deliver func(*TNode) *Op) {
	rng := w.rng
	base := w.nodeOfTop(h.NUT)
	if base == nil || base.Snap == nil {
		return
	}
	force := func(parent *TNode, kind, wi int) ([]*transaction.Transaction, []TxMeta) {
		w.forceKind, w.forceWallet, w.forceFullUnstake = kind, wi, true
		t, m, _ := w.genTxs(parent, 1, 0)
		w.forceKind, w.forceFullUnstake = 0, false
		if len(t) == 1 && int(t[0].Version) == kind {
			return t, m
		}
		return nil, nil
	}
	mk := func(parent *TNode, txs []*transaction.Transaction, meta []TxMeta) *TNode {
		n := w.build(parent, BlockSpec{TsDelta: 15000, Recipient: w.wallets[rng.Intn(len(w.wallets))].Addr, Txs: txs, TxMeta: meta})
		w.admit(n)
		return n
	}
	// branch A: S, the lock time, T
	var sTx []*transaction.Transaction
	var sMeta []TxMeta
	staker := -1
	for k, start := 0, rng.Intn(len(w.wallets)); k < len(w.wallets) && staker < 0; k++ {
		wi := (start + k) % len(w.wallets)
		if t, m := force(base, 4, wi); t != nil {
			sTx, sMeta, staker = t, m, wi
		}
	}
	if staker < 0 {
		return
	}
	a := []*TNode{mk(base, sTx, sMeta)}
	if !a[0].Valid {
		return
	}
	for i := uint64(0); i < config.STAKE_UNLOCK_TIME; i++ {
		n := mk(a[len(a)-1], nil, nil)
		if !n.Valid {
			return
		}
		a = append(a, n)
	}
	tTx, tMeta := force(a[len(a)-1], 5, staker)
	if tTx == nil {
		return
	}
	at := mk(a[len(a)-1], tTx, tMeta)
	if !at.Valid {
		return
	}
	a = append(a, at)
	for _, n := range a {
		deliver(n)
	}
	// branch B: one empty block, S, the lock time, T, one more block
	b := []*TNode{mk(base, nil, nil)}
	b = append(b, mk(b[0], sTx, sMeta))
	for i := uint64(0); i < config.STAKE_UNLOCK_TIME; i++ {
		b = append(b, mk(b[len(b)-1], nil, nil))
	}
	nBeforeT := len(b)
	b = append(b, mk(b[len(b)-1], tTx, tMeta))
	b = append(b, mk(b[len(b)-1], nil, nil))
	for _, n := range b {
		if !n.Valid {
			return
		}
	}
	for _, n := range b {
		deliver(n)
	}
	if w.nodeOfTop(h.NUT) != b[len(b)-1] {
		return
	}
	h.Stats["sharedtx:unstake-connected-twice"]++
	// branch C: B without T, longer
	c := []*TNode{mk(b[nBeforeT-1], nil, nil)}
	for i := 0; i < 3; i++ {
		c = append(c, mk(c[len(c)-1], nil, nil))
	}
	for _, n := range c {
		if !n.Valid {
			return
		}
		op := deliver(n)
		op.Dump = w.dump(h.NUT)
	}
	if w.nodeOfTop(h.NUT) == c[len(c)-1] {
		h.Stats["sharedtx:unstake-undone-twice"]++
	}
	h.Stats["scenario-sharedtx"]++
}

// scenarioCorruptSweep: every single-rule corruption of an otherwise valid block, once each, on a live chain state
// (a fork with candidate side blocks is created first so that the side-block corruptions have material).
func (w *World) scenarioCorruptSweep(h *History, deliver func(*TNode) *Op) {
	rng := w.rng
	top := w.nodeOfTop(h.NUT)
	if top == nil || top.Snap == nil || top.Parent == nil {
		return
	}
	// a sibling of the tip and a child referencing it as side block
	sib := w.build(top.Parent, BlockSpec{TsDelta: 15000, Recipient: w.wallets[0].Addr, Sign: 1})
	w.admit(sib)
	deliver(sib)
	withSide := w.build(top, BlockSpec{TsDelta: 15000, Recipient: w.wallets[1].Addr, Sign: 1, Sides: []*TNode{sib}})
	w.admit(withSide)
	deliver(withSide)
	for _, c := range corruptions {
		parent := w.nodeOfTop(h.NUT)
		if parent == nil || parent.Snap == nil {
			return
		}
		txs, meta, _ := w.genTxs(parent, 2, 0)
		n := w.build(parent, BlockSpec{TsDelta: 12000 + rng.UpTo(6000), Recipient: w.wallets[rng.Intn(len(w.wallets))].Addr,
			Txs: txs, TxMeta: meta, Sign: 1, Corrupt: c})
		if len(n.Block.SideBlocks) > config.MAX_SIDE_BLOCKS {
			continue
		}
		w.admit(n)
		deliver(n)
		h.Stats["corrupt:"+c]++
		if rng.Intn(3) == 0 {
			// keep the chain moving so that later corruptions meet other states
			ok := w.build(parent, BlockSpec{TsDelta: 15000, Recipient: w.wallets[rng.Intn(len(w.wallets))].Addr, Sign: 1})
			w.admit(ok)
			deliver(ok)
		}
	}
	h.Stats["scenario-corruptsweep"]++
}


// replayOnLMDB delivers the history's operations to a node over the repository's LMDB back-end and compares the
// resulting store with the in-memory one: every index key by key, the "info" index through the decoded statistics
// (gob encodes maps in iteration order; mempool entries carry wall-clock expiry times).
func (w *World) replayOnLMDB(h *History) bool {
	dir, err := os.MkdirTemp(os.Getenv("VERIF_SCRATCH"), "verif-lmdb-")
	if err != nil {
		panic(err)
	}
	defer os.RemoveAll(dir)
	ldb, err := lmdb.New(dir+"/", 0o700, logger.DiscardLog)
	if err != nil {
		panic(err)
	}
	names := []string{"info", "block", "topo", "state", "tx", "intx", "outtx", "delegate", "stakesig", "delegatehistory"}
	mkIndex := func(db adb.DB) blockchain.Index {
		return blockchain.Index{Info: db.Index("info"), Block: db.Index("block"), Topo: db.Index("topo"), State: db.Index("state"),
			Tx: db.Index("tx"), InTx: db.Index("intx"), OutTx: db.Index("outtx"), Delegate: db.Index("delegate"),
			StakeSig: db.Index("stakesig"), DelegateHistory: db.Index("delegatehistory")}
	}
	memIndex := w.bc.Index
	lIndex := mkIndex(ldb)
	lidx := map[string]adb.Index{} // handles are opened outside any transaction (Index() runs its own write transaction)
	for _, n := range names {
		lidx[n] = ldb.Index(n)
	}
	// start from the same genesis-only store
	gen := w.genesis.Snap.Dump()
	err = ldb.Update(func(txn adb.Txn) error {
		for _, n := range names {
			for _, kv := range gen[n] {
				if err := txn.Put(lidx[n], kv[0], kv[1]); err != nil {
					return err
				}
			}
		}
		return nil
	})
	if err != nil {
		panic(err)
	}
	w.bc.DB, w.bc.Index = ldb, lIndex
	for _, op := range h.Ops {
		func() {
			defer func() { recover() }()
			w.bc.VerifDeliverRaw(op.Node.Raw)
		}()
	}
	same := true
	mem := h.NUT.Dump()
	var lstats, mstats *blockchain.Stats
	ldb.View(func(txn adb.Txn) error {
		lstats = w.bc.GetStats(txn)
		for _, n := range names {
			if n == "info" {
				continue
			}
			var rows [][2][]byte
			txn.ForEach(lidx[n], func(k, v []byte) error {
				rows = append(rows, [2][]byte{append([]byte{}, k...), append([]byte{}, v...)})
				return nil
			})
			if len(rows) != len(mem[n]) {
				same = false
				continue
			}
			for i := range rows {
				if !bytes.Equal(rows[i][0], mem[n][i][0]) || !bytes.Equal(rows[i][1], mem[n][i][1]) {
					same = false
				}
			}
		}
		return nil
	})
	var lmem, mmem *blockchain.Mempool
	ldb.View(func(txn adb.Txn) error { lmem = w.bc.GetMempool(txn); return nil })
	w.bc.DB, w.bc.Index = h.NUT, memIndex
	h.NUT.View(func(txn adb.Txn) error { mstats = w.bc.GetStats(txn); mmem = w.bc.GetMempool(txn); return nil })
	if lstats.TopHash != mstats.TopHash || lstats.TopHeight != mstats.TopHeight || !lstats.CumulativeDiff.Equals(mstats.CumulativeDiff) ||
		lstats.StakedAmount != mstats.StakedAmount || len(lstats.Tips) != len(mstats.Tips) || len(lstats.Orphans) != len(mstats.Orphans) {
		same = false
	}
	// the alternative tips and orphans entry by entry, the mempool by transaction ids in order (expiry times are wall-clock)
	for k, a := range lstats.Tips {
		b, ok := mstats.Tips[k]
		if !ok || a.Hash != b.Hash || a.Height != b.Height || !a.CumulativeDiff.Equals(b.CumulativeDiff) {
			same = false
		}
	}
	for k, a := range lstats.Orphans {
		b, ok := mstats.Orphans[k]
		if !ok || a.Hash != b.Hash || a.PrevHash != b.PrevHash {
			same = false
		}
	}
	if len(lmem.Entries) != len(mmem.Entries) {
		same = false
	} else {
		for i := range lmem.Entries {
			if lmem.Entries[i].TXID != mmem.Entries[i].TXID {
				same = false
			}
		}
	}
	ldb.Close()
	return same
}
