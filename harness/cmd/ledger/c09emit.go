package main

import (
	"fmt"
	"os"
	"sort"
	"strconv"
	"strings"

	"verifharness/coqgen"
	"verifharness/hutil"

	"github.com/virel-project/virel-blockchain/v3/address"
	"github.com/virel-project/virel-blockchain/v3/bitcrypto"
	"github.com/virel-project/virel-blockchain/v3/block"
	"github.com/virel-project/virel-blockchain/v3/config"
	"github.com/virel-project/virel-blockchain/v3/transaction"
	"github.com/virel-project/virel-blockchain/v3/util"
)

func (w *World) commitEq(c block.Commitment) uint64 {
	ke := fmt.Sprintf("%x|%d|%d|%x", c.BaseHash, c.Timestamp, c.Nonce, c.NonceExtra)
	return dense(w.ids.cmEq, ke)
}

func (c *c9) idList(ids []transaction.TXID) string {
	out := []string{}
	for _, id := range ids {
		out = append(out, coqgen.N(c.w.ids.H(util.Hash(id))))
	}
	return coqgen.List(out)
}

func (c *c9) term() string {
	w := c.w
	idx := map[*TNode]int{}
	blocks := []string{}
	for _, n := range w.nodes[1:] {
		idx[n] = len(blocks)
		blocks = append(blocks, w.blockTerm(n))
	}
	nl := func(ns []*TNode) string {
		out := []string{}
		for _, n := range ns {
			out = append(out, strconv.Itoa(idx[n])+"%nat")
		}
		return coqgen.List(out)
	}
	txs := []string{}
	for i, t := range c.txs {
		txs = append(txs, w.txTerm(t, c.metas[i]))
	}
	ops := []string{}
	for _, op := range c.ops {
		mp := c.idList(op.Mp)
		switch op.Kind {
		case "deliver":
			ops = append(ops, fmt.Sprintf("ODeliver %d %d %s %s %s %s %s %d %s", idx[op.Node], op.Now, coqgen.Bool(op.FromTpl), coqgen.Bool(op.Acc),
				coqgen.Bool(op.Crashed), nl(op.Conn), nl(op.Disc), op.NowS, mp))
		case "submit":
			ex := op.Expires
			if ex < 0 {
				ex = 0
			}
			ops = append(ops, fmt.Sprintf("OSubmit %d %d %d %s %s %s", op.Tx, op.NowS, ex, coqgen.Bool(op.Admitted), coqgen.Bool(op.Crashed), mp))
		case "sig":
			ops = append(ops, fmt.Sprintf("OSig %d %d %d %d %s %s", w.ids.H(op.SigHash), op.SigDid, op.SigKey, w.ids.H(op.SigMsg), coqgen.Bool(op.SigStore), mp))
		case "template":
			o := "(mktplobs true 0 0 0 [] 0 0 0 0 false [] [])"
			if !op.TplErr {
				b := op.Tpl
				anc := []string{}
				for _, a := range b.Ancestors {
					anc = append(anc, coqgen.N(w.ids.H(a)))
				}
				sides := []string{}
				for _, s := range b.SideBlocks {
					sides = append(sides, coqgen.N(w.commitEq(s)))
				}
				o = fmt.Sprintf("(mktplobs false %d %d %d %s %s %s %d %d %s %s %s)", b.Height, b.Version, b.Timestamp, coqgen.List(anc),
					u128(b.Difficulty), u128(b.CumulativeDiff), b.DelegateId, b.NextDelegateId,
					coqgen.Bool(b.StakeSignature != bitcrypto.BlankSignature), c.idList(op.TplTxs), coqgen.List(sides))
			}
			ops = append(ops, fmt.Sprintf("OTemplate %d %d %s %d %s %s", op.NowLo, op.NowHi, w.ids.Addr(op.Rcpt), op.NowS, o, mp))
		case "expire":
			ops = append(ops, fmt.Sprintf("OExpire %s %s", c.idList(op.Ids), mp))
		}
	}
	var sb strings.Builder
	fmt.Fprintf(&sb, "(mkc9case %s %d %d\n %s\n %s\n %s\n %s)", w.ids.Addr(address.GenesisAddress), w.ids.Key(teamKey()),
		uint64(config.MEMPOOL_EXPIRATION.Seconds()), w.blockTerm(w.genesis), coqgen.List(blocks), coqgen.List(txs), "["+strings.Join(ops, ";\n  ")+"]")
	return sb.String()
}

type c9scenario struct {
	name string
	run  func(c *c9)
}

func c9Scripted() []c9scenario {
	return []c9scenario{
		{"unlock-boundary", scenUnlockBoundary},
		{"foreign-set-delegate", scenForeignSetDelegate},
		{"restake", scenRestake},
		{"stale-stake-signature-nothing-staked", func(c *c9) { scenStaleStakeSig(c, false) }},
		{"stale-stake-signature-delegate-emptied", func(c *c9) { scenStaleStakeSig(c, true) }},
		{"stake-signature-delegate-emptied-in-same-block-nothing-left", func(c *c9) { scenStakeSigSameBlock(c, false) }},
		{"stake-signature-delegate-emptied-in-same-block", func(c *c9) { scenStakeSigSameBlock(c, true) }},
		{"wrong-ancestors-tip", scenWrongAncestorsTip},
		{"happy-all-kinds", scenHappy},
		{"reorg", scenReorg},
		{"side-tips", scenSideTips},
		{"twin-side-blocks", scenTwinSideBlocks},
		{"twin-ts-side-blocks", scenTwinTsSideBlocks},
		{"refused-block-with-mempool-txs", scenRefusedBlockWithMempoolTxs},
		{"expiry", scenExpiry},
		{"size-cap", scenSizeCap},
	}
}

func famC09(out string) {
	initShared()
	nrand := 38
	if hutil.Tier() == "thorough" {
		nrand = 300
	}
	nrand *= budget()
	shard, nshards := 0, 1
	if v, err := strconv.Atoi(os.Getenv("VERIF_SHARD")); err == nil {
		shard = v
	}
	if v, err := strconv.Atoi(os.Getenv("VERIF_NSHARDS")); err == nil && v > 0 {
		nshards = v
	}
	scens := c9Scripted()
	for i := 0; i < nrand; i++ {
		scens = append(scens, c9scenario{fmt.Sprintf("random-%d", i), scenRandom})
	}
	sink := coqgen.NewSink(out, fmt.Sprintf("c09s%d", shard), "c9case", 2)
	tot := map[string]int{}
	for i, sc := range scens {
		if i%nshards != shard {
			continue
		}
		if v := os.Getenv("VERIF_C09_ONLY"); v != "" && v != sc.name {
			continue
		}
		rng := hutil.NewRng(9000 + uint64(i))
		w := worldFromShared(rng, 5)
		c := newC9(w, sc.name)
		sc.run(c)
		keys := []string{}
		for k, v := range c.stats {
			tot[k] += v
			keys = append(keys, k)
		}
		sort.Strings(keys)
		kind := sc.name
		if strings.HasPrefix(kind, "random-") {
			kind = "random"
		}
		class := "c09/" + kind + "/" + strings.Join(keys, ",")
		var final uint64
		w.view(c.nut, func(v *View) { final = v.Stats().TopHeight })
		sample := map[string]any{"scenario": sc.name, "index": i, "ops": len(c.ops), "blocks": len(w.nodes) - 1, "stats": c.stats,
			"templates_rejected": c.TplRejected, "final_height": final, "trace": c.trace(), "rejected_templates": c.rejectedTemplates()}
		sink.Add(c.term(), class, sample)
	}
	sink.Meta["totals"] = tot
	sink.Meta["rule"] = "one real node over an in-memory store (verifnet): chain states built by other miners' blocks (stake set-up, forks, reorganisations, candidate side tips), TX packets of all five kinds by several signers interleaved through packetTx (Prevalidate at TopHeight+1, AddTransaction into the mempool), stake signatures through HandleStakeSignature, GetBlockTemplate inside DB.Update, the template completed with a mined nonce and delivered to the same node; mempool read back after every operation. Scripted scenarios (unlock boundary, foreign set-delegate, restake, stale stake signature x2, all kinds, reorganisation, side tips, expiry, size cap) run always; random walks add to them. A class is (scenario kind, set of event kinds that occurred)."
	if err := sink.Close(); err != nil {
		panic(err)
	}
}

// trace: a human-readable account of the scenario for replay files
func (c *c9) trace() []string {
	out := []string{}
	for i, op := range c.ops {
		switch op.Kind {
		case "deliver":
			k := "block"
			if op.FromTpl {
				k = "COMPLETED TEMPLATE"
			}
			out = append(out, fmt.Sprintf("%d deliver %s height=%d txs=%d sides=%d signed=%v -> accepted=%v crashed=%v connected=%d disconnected=%d mempool=%d", i, k,
				op.Node.Block.Height, len(op.Node.Txs), len(op.Node.Block.SideBlocks), op.Node.Block.StakeSignature != bitcrypto.BlankSignature, op.Acc, op.Crashed,
				len(op.Conn), len(op.Disc), len(op.Mp)))
		case "submit":
			t := c.txs[op.Tx]
			out = append(out, fmt.Sprintf("%d submit tx#%d v%d signer=key%d nonce=%d {%s} -> prevalidate=%v admitted=%v mempool=%d", i, op.Tx, t.Version, c.w.ids.Key(t.Signer),
				t.Nonce, strings.ReplaceAll(strings.TrimSpace(t.Data.String()), "\n", " "), op.PreOK, op.Admitted, len(op.Mp)))
		case "sig":
			out = append(out, fmt.Sprintf("%d stake signature for block #%d delegate=%d by key%d -> stored=%v", i, c.w.ids.H(op.SigHash), op.SigDid, op.SigKey, op.SigStore))
		case "template":
			if op.TplErr {
				out = append(out, fmt.Sprintf("%d template -> error", i))
			} else {
				out = append(out, fmt.Sprintf("%d template height=%d txs=%d sides=%d delegate=%d next=%d signed=%v mempool-after=%d", i, op.Tpl.Height, len(op.TplTxs),
					len(op.Tpl.SideBlocks), op.Tpl.DelegateId, op.Tpl.NextDelegateId, op.Tpl.StakeSignature != bitcrypto.BlankSignature, len(op.Mp)))
			}
		case "expire":
			out = append(out, fmt.Sprintf("%d expire %d entries", i, len(op.Ids)))
		}
	}
	return out
}

// rejectedTemplates: for every completed template the node refused, whether the template's ancestor list was the list
// of its real predecessors (it is not only when the node had accepted a block with a wrong ancestor list: finding R13a)
func (c *c9) rejectedTemplates() []map[string]any {
	out := []map[string]any{}
	for i, op := range c.ops {
		if op.Kind != "deliver" || !op.FromTpl || op.Acc {
			continue
		}
		real := true
		x := op.Node.Parent
		for k := 0; k < len(op.Node.Block.Ancestors); k++ {
			var want util.Hash
			if x != nil {
				want = x.Hash
				x = x.Parent
			}
			if op.Node.Block.Ancestors[k] != want {
				real = false
			}
		}
		out = append(out, map[string]any{"op": i, "height": op.Node.Block.Height, "ancestors_real": real})
	}
	return out
}
