package main

// Family c12pk (property C12, peer packets on a live node): a real node - blockchain.Blockchain over the in-memory store,
// the real P2P stack listening on loopback TCP, started in a CHILD PROCESS - is sent packets of every wire type by a peer
// that this file implements from the protocol description (handshake, X25519 + BLAKE3 key, AES-GCM frames), so that it can
// also write what the repository's own sender never writes: plaintexts shorter than the two type bytes, reserved wire types,
// decodable but hostile payloads (repeated or own network ids in chain lists, heights near 2^63 and 2^64, counts near the
// limits, truncations at every field boundary). After every group of packets the peer asks for block 1 (on the same
// connection when the node kept it, otherwise on a fresh one) and the child is asked for its tip and memory: the process
// must be running, must answer, must not have changed its chain and must not have grown by more than the allowance.
// A failing group is replayed packet by packet on a fresh child to name the packet.

import (
	"bufio"
	"bytes"
	"crypto/ecdh"
	"crypto/rand"
	"encoding/binary"
	"encoding/json"
	"fmt"
	"io"
	"net"
	"os"
	"os/exec"
	"path/filepath"
	"runtime"
	"strings"
	"sync"
	"time"

	"verifharness/coqgen"
	"verifharness/hutil"

	"github.com/virel-project/go-randomvirel"
	vbinary "github.com/virel-project/virel-blockchain/v3/binary"
	"github.com/virel-project/virel-blockchain/v3/bitcrypto"
	"github.com/virel-project/virel-blockchain/v3/block"
	"github.com/virel-project/virel-blockchain/v3/blockchain"
	"github.com/virel-project/virel-blockchain/v3/config"
	"github.com/virel-project/virel-blockchain/v3/p2p"
	"github.com/virel-project/virel-blockchain/v3/p2p/packet"
	"github.com/virel-project/virel-blockchain/v3/transaction"
	"github.com/virel-project/virel-blockchain/v3/util"
	"github.com/virel-project/virel-blockchain/v3/util/uint128"
	"github.com/zeebo/blake3"
)

const pkMark = "@@C12PK "

// ---------------------------------------------------------------- the child: one live node

func c12pkNode(chainPath string) {
	b, err := os.ReadFile(chainPath)
	if err != nil {
		panic(err)
	}
	var raws [][]byte
	if err := json.Unmarshal(b, &raws); err != nil {
		panic(err)
	}
	blockchain.Log.SetLogLevel(0)
	randomvirel.InitHash(4, false)
	liveExclusive = false // the peer-list packet (wire type 1) is handled, not ignored
	n := newLive("c12pk", raws)
	n.start(true, nil, false)
	fmt.Printf("%sADDR %s\n", pkMark, n.addr())
	in := bufio.NewScanner(os.Stdin)
	for in.Scan() {
		switch strings.TrimSpace(in.Text()) {
		case "obs":
			o := n.observe()
			runtime.GC()
			var ms runtime.MemStats
			runtime.ReadMemStats(&ms)
			fmt.Printf("%sOBS %x %d %d %d\n", pkMark, o.Top, o.Height, ms.HeapAlloc>>20, ms.Sys>>20)
		case "quit":
			os.RemoveAll(n.dir)
			return
		}
	}
	os.RemoveAll(n.dir)
}

type pkChild struct {
	cmd   *exec.Cmd
	in    io.WriteCloser
	lines chan string
	done  chan struct{}
	addr  string
	mu    sync.Mutex
	tail  []string // last lines of the child's output (a crash report ends up here)
}

func startPkChild(bin, dir, chainPath string) *pkChild {
	c := &pkChild{lines: make(chan string, 64), done: make(chan struct{})}
	c.cmd = exec.Command(bin, "c12pk-node", chainPath)
	c.cmd.Env = append(os.Environ(), "TMPDIR="+dir)
	c.in, _ = c.cmd.StdinPipe()
	pr, pw := io.Pipe()
	c.cmd.Stdout, c.cmd.Stderr = pw, pw
	if err := c.cmd.Start(); err != nil {
		panic(err)
	}
	go func() {
		sc := bufio.NewScanner(pr)
		sc.Buffer(make([]byte, 1<<20), 1<<24)
		for sc.Scan() {
			l := sc.Text()
			if i := strings.Index(l, pkMark); i >= 0 {
				c.lines <- l[i+len(pkMark):]
				continue
			}
			c.mu.Lock()
			c.tail = append(c.tail, l)
			if len(c.tail) > 60 {
				c.tail = c.tail[len(c.tail)-60:]
			}
			c.mu.Unlock()
		}
	}()
	go func() { c.cmd.Wait(); pw.Close(); close(c.done) }()
	select {
	case l := <-c.lines:
		c.addr = strings.TrimPrefix(l, "ADDR ")
	case <-c.done:
		panic("c12pk: the node process ended before listening:\n" + c.report())
	case <-time.After(60 * time.Second):
		panic("c12pk: the node process did not start listening")
	}
	return c
}

func (c *pkChild) alive() bool {
	select {
	case <-c.done:
		return false
	default:
		return true
	}
}

func (c *pkChild) report() string {
	c.mu.Lock()
	defer c.mu.Unlock()
	return strings.Join(c.tail, "\n")
}

type pkObs struct {
	Top          string
	Height       uint64
	HeapMB, SysMB uint64
	OK           bool
}

func (c *pkChild) obs() pkObs {
	if !c.alive() {
		return pkObs{}
	}
	fmt.Fprintln(c.in, "obs")
	select {
	case l := <-c.lines:
		var o pkObs
		if _, err := fmt.Sscanf(l, "OBS %s %d %d %d", &o.Top, &o.Height, &o.HeapMB, &o.SysMB); err == nil {
			o.OK = true
		}
		return o
	case <-c.done:
		return pkObs{}
	case <-time.After(20 * time.Second):
		return pkObs{}
	}
}

func (c *pkChild) stop() {
	if c.alive() {
		fmt.Fprintln(c.in, "quit")
		select {
		case <-c.done:
		case <-time.After(5 * time.Second):
			c.cmd.Process.Kill()
			<-c.done
		}
	}
}

// ---------------------------------------------------------------- the peer (written from the protocol description)

type pkFrame struct {
	wire uint16
	data []byte
}

type pkPeer struct {
	c      net.Conn
	ci     bitcrypto.Cipher
	frames chan pkFrame
	closed chan struct{}
}

func pkDial(addr string) (*pkPeer, error) {
	c, err := net.DialTimeout("tcp", addr, 3*time.Second)
	if err != nil {
		return nil, err
	}
	key, err := ecdh.X25519().GenerateKey(rand.Reader)
	if err != nil {
		panic(err)
	}
	h := &p2p.Handshake{Version: config.VERSION, P2PVersion: config.P2P_VERSION}
	copy(h.PeerID[:], key.PublicKey().Bytes())
	c.SetDeadline(time.Now().Add(5 * time.Second))
	if _, err := h.WriteTo(c); err != nil {
		c.Close()
		return nil, err
	}
	nh := &p2p.Handshake{}
	if _, err := nh.ReadFrom(c); err != nil {
		c.Close()
		return nil, err
	}
	c.SetDeadline(time.Time{})
	pub, err := ecdh.X25519().NewPublicKey(nh.PeerID[:])
	if err != nil {
		c.Close()
		return nil, err
	}
	shared, err := key.ECDH(pub)
	if err != nil {
		c.Close()
		return nil, err
	}
	in := make([]byte, 8, 40)
	binary.LittleEndian.PutUint64(in, config.NETWORK_ID)
	in = append(in, shared...)
	ci, err := bitcrypto.NewCipher(blake3.Sum256(in))
	if err != nil {
		panic(err)
	}
	p := &pkPeer{c: c, ci: ci, frames: make(chan pkFrame, 4096), closed: make(chan struct{})}
	go func() {
		defer close(p.closed)
		for {
			var l [4]byte
			if _, err := io.ReadFull(c, l[:]); err != nil {
				return
			}
			n := binary.LittleEndian.Uint32(l[:])
			if n > 64<<20 {
				return
			}
			body := make([]byte, n)
			if _, err := io.ReadFull(c, body); err != nil {
				return
			}
			pl, err := p.ci.Decrypt(body)
			if err != nil || len(pl) < 2 {
				continue
			}
			select {
			case p.frames <- pkFrame{binary.LittleEndian.Uint16(pl), pl[2:]}:
			default: // nobody is interested in a backlog
			}
		}
	}()
	return p, nil
}

func (p *pkPeer) isClosed() bool {
	select {
	case <-p.closed:
		return true
	default:
		return false
	}
}

func (p *pkPeer) sendPlain(pl []byte) error {
	body, err := p.ci.Encrypt(pl)
	if err != nil {
		return err
	}
	raw := make([]byte, 4, 4+len(body))
	binary.LittleEndian.PutUint32(raw, uint32(len(body)))
	raw = append(raw, body...)
	p.c.SetWriteDeadline(time.Now().Add(10 * time.Second))
	_, err = p.c.Write(raw)
	return err
}

func plainOf(wire uint16, data []byte) []byte {
	b := make([]byte, 2, 2+len(data))
	binary.LittleEndian.PutUint16(b, wire)
	return append(b, data...)
}

// probe: ask for block 1 by height; answered = a BLOCK frame that decodes to a block of height 1
func (p *pkPeer) probe(timeout time.Duration) bool {
	for len(p.frames) > 0 {
		<-p.frames
	}
	if p.sendPlain(plainOf(packet.BLOCK_REQUEST+2, packet.PacketBlockRequest{Height: 1, Count: 0}.Serialize())) != nil {
		return false
	}
	deadline := time.After(timeout)
	for {
		select {
		case f := <-p.frames:
			if f.wire == packet.BLOCK+2 {
				bl := &block.Block{}
				if _, err := bl.DeserializeFull(f.data); err == nil && bl.Height == 1 {
					return true
				}
			}
		case <-p.closed:
			return false
		case <-deadline:
			return false
		}
	}
}

// ---------------------------------------------------------------- the packets

type pkCase struct {
	Wire  uint16
	Class string
	Plain []byte // the whole plaintext of the frame (normally the two type bytes and the payload)
}

func uvar(v uint64) []byte {
	s := vbinary.NewSer(make([]byte, 0, 10))
	s.AddUvarint(v)
	return s.Output()
}

func pkCases(rng *hutil.Rng, t *c11Tree, thorough bool) []pkCase {
	var out []pkCase
	add := func(wire uint16, class string, data []byte) {
		out = append(out, pkCase{wire, class, plainOf(wire, data)})
	}
	names := map[uint16]string{0: "reserved0", 1: "addpeer", 2: "ping", 3: "block", 4: "tx", 5: "stats", 6: "blockreq", 7: "stakesig", 8: "unknown8", 9: "unknown9", 255: "unknown255", 65535: "unknown65535"}
	wires := []uint16{0, 1, 2, 3, 4, 5, 6, 7, 8, 9, 255, 65535}
	// plaintexts shorter than the type field
	out = append(out, pkCase{0, "short/empty-plaintext", []byte{}}, pkCase{0, "short/one-byte-plaintext", []byte{3}})
	// every wire type with generic payloads
	generic := map[string][]byte{
		"empty": {}, "one-byte": {0}, "two-bytes": {0xff, 0xff}, "three-bytes": {1, 0, 0},
		"zeros-64": make([]byte, 64), "ff-64": bytes.Repeat([]byte{0xff}, 64), "ff-11": bytes.Repeat([]byte{0xff}, 11),
		"random-100": rng.Bytes(100), "random-1000": rng.Bytes(1000), "varint-2^63": uvar(1 << 63), "varint-max": uvar(^uint64(0)),
		"zeros-256KiB": make([]byte, 256<<10), "ff-256KiB": bytes.Repeat([]byte{0xff}, 256<<10),
	}
	gnames := []string{"empty", "one-byte", "two-bytes", "three-bytes", "zeros-64", "ff-64", "ff-11", "random-100", "random-1000", "varint-2^63", "varint-max", "zeros-256KiB", "ff-256KiB"}
	for _, w := range wires {
		for _, g := range gnames {
			add(w, names[w]+"/generic/"+g, generic[g])
		}
	}
	// ---- BLOCK
	K := t.forkK
	base := t.main[K]
	var withTx *TNode
	for _, n := range t.main[1:] {
		if len(n.Txs) > 0 {
			withTx = n
		}
	}
	mut := func(class string, src *TNode, f func(bl *block.Block)) {
		bl := *src.Block
		bl.OtherChains = append([]block.HashingID{}, bl.OtherChains...)
		bl.SideBlocks = append([]block.Commitment{}, bl.SideBlocks...)
		f(&bl)
		add(3, "block/"+class, wireForm(&bl, src.Txs))
	}
	hid := func(net uint64, b byte) block.HashingID { return block.HashingID{NetworkID: net, Hash: [32]byte{b}} }
	add(3, "block/known-again", base.Raw)
	add(3, "block/known-old", t.main[1].Raw)
	for _, h := range []uint64{1 << 63, ^uint64(0), 10_000_000_000_000, 1 << 32, 524160 * 4000, 0} {
		h := h
		mut(fmt.Sprintf("height=%d", h), base, func(bl *block.Block) { bl.Height = h })
	}
	mut("otherchains-repeat-network", base, func(bl *block.Block) { bl.OtherChains = []block.HashingID{hid(77, 9), hid(77, 8)} })
	mut("otherchains-own-network", base, func(bl *block.Block) { bl.OtherChains = []block.HashingID{hid(config.NETWORK_ID, 9)} })
	mut("otherchains-unsorted", base, func(bl *block.Block) { bl.OtherChains = []block.HashingID{hid(90, 1), hid(80, 2), hid(85, 3)} })
	for _, n := range []int{config.MAX_MERGE_MINED_CHAINS - 1, config.MAX_MERGE_MINED_CHAINS, config.MAX_MERGE_MINED_CHAINS + 1, 300} {
		n := n
		mut(fmt.Sprintf("otherchains-%d", n), base, func(bl *block.Block) {
			for i := 0; i < n; i++ {
				bl.OtherChains = append(bl.OtherChains, hid(1000+uint64(i), byte(i)))
			}
		})
	}
	side := t.main[K-1].Block.Commitment()
	mut("side-chains-repeat-network", base, func(bl *block.Block) {
		s := side
		s.OtherChains = []block.HashingID{hid(77, 9), hid(77, 8)}
		bl.SideBlocks = append(bl.SideBlocks, s)
	})
	mut("side-chains-own-network", base, func(bl *block.Block) {
		s := side
		s.OtherChains = []block.HashingID{hid(config.NETWORK_ID, 9)}
		bl.SideBlocks = append(bl.SideBlocks, s)
	})
	mut("side-is-itself", base, func(bl *block.Block) { bl.SideBlocks = append(bl.SideBlocks, bl.Commitment()) })
	for _, n := range []int{config.MAX_SIDE_BLOCKS, config.MAX_SIDE_BLOCKS + 1, 40, 300} {
		n := n
		mut(fmt.Sprintf("sides-%d", n), base, func(bl *block.Block) {
			for i := 0; i < n; i++ {
				s := side
				s.Nonce = uint32(i)
				bl.SideBlocks = append(bl.SideBlocks, s)
			}
		})
	}
	mut("difficulty-0", base, func(bl *block.Block) { bl.Difficulty = uint128.Zero })
	mut("difficulty-max", base, func(bl *block.Block) { bl.Difficulty = uint128.Max })
	mut("difficulty-2^64", base, func(bl *block.Block) { bl.Difficulty = uint128.Uint128{Hi: 1} })
	mut("cumdiff-max", base, func(bl *block.Block) { bl.CumulativeDiff = uint128.Max })
	mut("cumdiff-0", base, func(bl *block.Block) { bl.CumulativeDiff = uint128.Zero })
	mut("timestamp-0", base, func(bl *block.Block) { bl.Timestamp = 0 })
	mut("timestamp-max", base, func(bl *block.Block) { bl.Timestamp = ^uint64(0) })
	mut("timestamp-2^63", base, func(bl *block.Block) { bl.Timestamp = 1 << 63 })
	for _, v := range []uint8{0, 2, 3, 255} {
		v := v
		mut(fmt.Sprintf("version-%d", v), base, func(bl *block.Block) { bl.Version = v })
	}
	mut("unknown-parent", base, func(bl *block.Block) {
		for i := range bl.Ancestors {
			bl.Ancestors[i] = util.Hash{byte(200 + i), 7}
		}
	})
	mut("unknown-parent-high", base, func(bl *block.Block) {
		bl.Height += 1000
		for i := range bl.Ancestors {
			bl.Ancestors[i] = util.Hash{byte(210 + i), 7}
		}
	})
	mut("delegate-id-max", base, func(bl *block.Block) { bl.DelegateId = ^uint64(0); bl.StakeSignature[0] = 1 })
	mut("next-delegate-id-max", base, func(bl *block.Block) { bl.NextDelegateId = ^uint64(0) })
	mut("nonce-changed", base, func(bl *block.Block) { bl.Nonce ^= 0x55555555 })
	{
		hdr := wireForm(base.Block, nil)
		hdr = hdr[:len(hdr)-1] // without the transaction count
		for _, c := range []uint64{1, 2, config.MAX_TX_PER_BLOCK, config.MAX_TX_PER_BLOCK + 1, 1 << 31, 1 << 63, ^uint64(0)} {
			add(3, fmt.Sprintf("block/tx-count=%d-no-txs", c), append(append([]byte{}, hdr...), uvar(c)...))
		}
		for _, l := range []uint64{1, 1 << 20, 1 << 31, 1 << 62, ^uint64(0)} {
			add(3, fmt.Sprintf("block/tx-length=%d-no-bytes", l), append(append(append([]byte{}, hdr...), uvar(1)...), uvar(l)...))
		}
		add(3, "block/tx-empty-slices", append(append(append([]byte{}, hdr...), uvar(3)...), 0, 0, 0))
	}
	srcs := []*TNode{base}
	if withTx != nil {
		srcs = append(srcs, withTx)
		add(3, "block/with-txs-known-again", withTx.Raw)
	}
	for si, src := range srcs {
		raw := src.Raw
		step := 1
		if !thorough {
			step = 1 + len(raw)/40
		}
		for k := 0; k < len(raw); k += step {
			add(3, fmt.Sprintf("block/truncated-src%d", si), raw[:k])
		}
		nflip := 24
		if thorough {
			nflip = 200
		}
		for i := 0; i < nflip; i++ {
			m := append([]byte{}, raw...)
			m[rng.Intn(len(m))] ^= byte(1 << uint(rng.Intn(8)))
			add(3, fmt.Sprintf("block/bit-flip-src%d", si), m)
		}
		for i := 0; i < nflip/2; i++ {
			m := append([]byte{}, raw...)
			m[rng.Intn(len(m))] = 0xff
			add(3, fmt.Sprintf("block/byte-ff-src%d", si), m)
		}
		add(3, fmt.Sprintf("block/trailing-junk-src%d", si), append(append([]byte{}, raw...), rng.Bytes(100)...))
	}
	for nm, raw := range t.file.Invalid {
		add(3, "block/invalid-"+nm, raw)
	}
	// ---- TX
	var txs []*transaction.Transaction
	tip := t.main[len(t.main)-1]
	for try := 0; try < 6 && len(txs) < 6; try++ {
		g, _, _ := t.w.genTxs(tip, 4, 0)
		txs = append(txs, g...)
	}
	for i, x := range txs {
		raw := x.Serialize()
		add(4, fmt.Sprintf("tx/well-formed-kind%d", x.Version), raw)
		if i < 3 {
			for k := 0; k < len(raw); k++ {
				add(4, "tx/truncated", raw[:k])
			}
			for j := 0; j < 16; j++ {
				m := append([]byte{}, raw...)
				m[rng.Intn(len(m))] ^= byte(1 << uint(rng.Intn(8)))
				add(4, "tx/bit-flip", m)
			}
		}
		for v := 0; v < 10; v++ {
			m := append([]byte{}, raw...)
			m[0] = byte(v)
			add(4, fmt.Sprintf("tx/version-byte=%d", v), m)
		}
	}
	for _, raw := range t.file.BadTx {
		add(4, "tx/invalid", raw)
	}
	for v := 0; v < 8; v++ {
		for _, c := range []uint64{0, 1, 33, 1 << 31, 1 << 63, ^uint64(0)} {
			b := append([]byte{byte(v)}, rng.Bytes(32+64)...)
			b = append(b, uvar(c)...)
			add(4, fmt.Sprintf("tx/kind%d-first-field=%d", v, c), b)
			add(4, fmt.Sprintf("tx/kind%d-first-field=%d-junk", v, c), append(b, rng.Bytes(60)...))
		}
	}
	// ---- STATS
	tipHash := [32]byte(tip.Hash)
	for _, h := range []uint64{0, 1, tip.Block.Height, 1 << 32, 1 << 63, ^uint64(0)} {
		for _, cd := range []uint128.Uint128{uint128.Zero, tip.Block.CumulativeDiff, {Hi: 1}, uint128.Max} {
			add(5, "stats/well-formed", packet.PacketStats{Height: h, CumulativeDiff: cd, Hash: tipHash}.Serialize())
		}
	}
	for _, l := range []uint64{17, 255, 1 << 20, 1 << 31, 1 << 63, ^uint64(0)} {
		add(5, fmt.Sprintf("stats/diff-length=%d", l), append(append(uvar(5), uvar(l)...), rng.Bytes(60)...))
	}
	{
		raw := packet.PacketStats{Height: 7, CumulativeDiff: uint128.From64(1000), Hash: tipHash}.Serialize()
		for k := 0; k < len(raw); k++ {
			add(5, "stats/truncated", raw[:k])
		}
	}
	// ---- BLOCK_REQUEST
	top := tip.Block.Height
	for _, h := range []uint64{1, 2, top - 1, top, top + 1, top + 100, 1 << 32, 1 << 63, ^uint64(0) - 60, ^uint64(0) - 1, ^uint64(0)} {
		for _, c := range []uint8{0, 1, uint8(config.PARALLEL_BLOCKS_DOWNLOAD - 1), uint8(config.PARALLEL_BLOCKS_DOWNLOAD), uint8(config.PARALLEL_BLOCKS_DOWNLOAD + 1), 255} {
			add(6, fmt.Sprintf("blockreq/height-count=%d", c), packet.PacketBlockRequest{Height: h, Count: c}.Serialize())
		}
	}
	add(6, "blockreq/by-hash-known", packet.PacketBlockRequest{Hash: [32]byte(base.Hash)}.Serialize())
	add(6, "blockreq/by-hash-unknown", packet.PacketBlockRequest{Hash: [32]byte{9, 9}}.Serialize())
	add(6, "blockreq/by-hash-short", packet.PacketBlockRequest{Hash: [32]byte{9, 9}}.Serialize()[:20])
	add(6, "blockreq/height-without-count", uvar(3))
	// ---- STAKE_SIGNATURE
	for _, d := range []uint64{0, 1, 2, 3, 1 << 63, ^uint64(0)} {
		for _, h := range []util.Hash{base.Hash, tip.Hash, t.main[1].Hash, {7, 7}} {
			s := packet.PacketStakeSignature{DelegateId: d, Hash: h}
			copy(s.Signature[:], rng.Bytes(64))
			add(7, "stakesig/well-formed-bad-signature", s.Serialize())
		}
	}
	{
		s := packet.PacketStakeSignature{DelegateId: 2, Hash: tip.Hash}
		raw := s.Serialize()
		for k := 0; k < len(raw); k += 7 {
			add(7, "stakesig/truncated", raw[:k])
		}
	}
	// ---- peer list (wire type 1): entries are port(2) | string(ip)
	ent := func(port uint16, ip string) []byte {
		s := vbinary.NewSer(make([]byte, 0, 20))
		s.AddUint16(port)
		s.AddString(ip)
		return s.Output()
	}
	add(1, "addpeer/one-entry", ent(6000, "10.1.2.3"))
	add(1, "addpeer/port-0", ent(0, "10.1.2.3"))
	add(1, "addpeer/not-an-ip", ent(6000, "not-an-ip"))
	add(1, "addpeer/empty-ip", ent(6000, ""))
	add(1, "addpeer/ipv6", ent(6000, "fe80::1"))
	add(1, "addpeer/long-string", ent(6000, strings.Repeat("1", 70000)))
	add(1, "addpeer/string-length-2^63", append([]byte{1, 1}, uvar(1<<63)...))
	{
		var many []byte
		for i := 0; i < 300; i++ {
			many = append(many, ent(uint16(7000+i), fmt.Sprintf("10.9.%d.%d", i/250, i%250))...)
		}
		add(1, "addpeer/300-entries", many)
		add(1, "addpeer/300-entries-cut", many[:len(many)-3])
	}
	return out
}

// ---------------------------------------------------------------- the run

type pkResult struct {
	Alive, Responsive, Unchanged bool
	GrowthMB                     uint64
	Note                         string
}

func famC12pk(out string) {
	initShared()
	thorough := hutil.Tier() == "thorough"
	rng := hutil.NewRng(1212)
	tree := buildC12Tree(rng)
	cases := pkCases(rng, tree, thorough)
	var raws [][]byte
	for _, n := range tree.main[1:] {
		raws = append(raws, n.Raw)
	}
	chainPath := filepath.Join(out, "c12pk_chain.json")
	writeJSON(chainPath, raws)
	bin, _ := os.Executable()
	tipHex := fmt.Sprintf("%x", tree.main[len(tree.main)-1].Hash)

	child := startPkChild(bin, out, chainPath)
	base := child.obs()
	if !base.OK || base.Top != tipHex {
		panic(fmt.Sprintf("c12pk: the node did not start on the prepared chain (top %s, want %s)\n%s", base.Top, tipHex, child.report()))
	}
	var peer *pkPeer
	stats := map[string]int{}
	connect := func(c *pkChild) *pkPeer {
		for try := 0; try < 5 && c.alive(); try++ {
			if p, err := pkDial(c.addr); err == nil {
				return p
			}
			time.Sleep(100 * time.Millisecond)
		}
		return nil
	}
	// check: node process alive, answers a request (on this connection or a fresh one), chain unchanged, memory bounded
	check := func(c *pkChild, pp **pkPeer, base pkObs, maxLen int) pkResult {
		r := pkResult{}
		ok := false
		if *pp != nil && !(*pp).isClosed() {
			ok = (*pp).probe(4 * time.Second)
		}
		if !ok {
			if *pp != nil {
				(*pp).c.Close()
				if (*pp).isClosed() {
					stats["connections-closed-by-the-node"]++
				} else {
					stats["probes-unanswered-on-the-open-connection"]++
				}
			}
			*pp = connect(c)
			if *pp != nil {
				ok = (*pp).probe(8 * time.Second)
			}
			if !ok && c.alive() {
				// a loaded machine is not an unresponsive node: one more connection with a long wait before the verdict
				if *pp != nil {
					(*pp).c.Close()
				}
				stats["probes-repeated-with-long-wait"]++
				*pp = connect(c)
				if *pp != nil {
					ok = (*pp).probe(45 * time.Second)
				}
			}
		}
		r.Responsive = ok
		o := c.obs()
		r.Alive = c.alive() && o.OK
		r.Unchanged = o.OK && o.Top == base.Top && o.Height == base.Height
		if o.OK && o.HeapMB > base.HeapMB {
			r.GrowthMB = o.HeapMB - base.HeapMB
		}
		if !r.Alive {
			r.Note = c.report()
		}
		return r
	}
	good := func(r pkResult) bool { return r.Alive && r.Responsive && r.Unchanged && r.GrowthMB <= 64 }
	results := make([]pkResult, len(cases))
	G := 12
	for lo := 0; lo < len(cases); lo += G {
		hi := min(lo+G, len(cases))
		maxLen := 0
		for _, cs := range cases[lo:hi] {
			if peer == nil || peer.isClosed() {
				if peer != nil {
					peer.c.Close()
					stats["connections-closed-by-the-node"]++
				}
				peer = connect(child)
			}
			if peer != nil {
				peer.sendPlain(cs.Plain)
			}
			maxLen = max(maxLen, len(cs.Plain))
		}
		time.Sleep(30 * time.Millisecond)
		r := check(child, &peer, base, maxLen)
		if good(r) {
			for i := lo; i < hi; i++ {
				results[i] = r
			}
			continue
		}
		// replay the group packet by packet on a fresh node to name the packet
		stats["groups-replayed"]++
		child.stop()
		if peer != nil {
			peer.c.Close()
			peer = nil
		}
		found := false
		child = startPkChild(bin, out, chainPath)
		base2 := child.obs()
		for i := lo; i < hi; i++ {
			if peer == nil || peer.isClosed() {
				peer = connect(child)
			}
			if peer != nil {
				peer.sendPlain(cases[i].Plain)
			}
			time.Sleep(400 * time.Millisecond)
			ri := check(child, &peer, base2, len(cases[i].Plain))
			results[i] = ri
			if !good(ri) {
				found = true
				child.stop()
				if peer != nil {
					peer.c.Close()
					peer = nil
				}
				child = startPkChild(bin, out, chainPath)
				base2 = child.obs()
			}
		}
		if !found {
			// not reproduced packet by packet: the group as a whole is reported
			for i := lo; i < hi; i++ {
				results[i] = r
				results[i].Note = "group failed, no single packet reproduced it: " + r.Note
			}
		}
		base = base2
	}
	// at the end the node still accepts a good block
	final := tree.extra
	accepted := false
	if peer == nil || peer.isClosed() {
		peer = connect(child)
	}
	if peer != nil {
		peer.sendPlain(plainOf(packet.BLOCK+2, final.Raw))
		want := fmt.Sprintf("%x", final.Hash)
		for t0 := time.Now(); time.Since(t0) < 15*time.Second; time.Sleep(50 * time.Millisecond) {
			if o := child.obs(); o.OK && o.Top == want {
				accepted = true
				break
			}
			if !child.alive() {
				break
			}
		}
	}
	finalNote := ""
	if !accepted {
		finalNote = child.report()
	}
	child.stop()
	os.Remove(chainPath)

	sink := coqgen.NewSink(out, "c12pk", "c12pk_case", 400)
	for i, cs := range cases {
		r := results[i]
		verdict := "ok"
		if !good(r) {
			verdict = "FAILED"
		}
		sample := map[string]any{"wire_type": cs.Wire, "class": cs.Class, "plaintext_len": len(cs.Plain), "alive": r.Alive, "responsive": r.Responsive,
			"chain_unchanged": r.Unchanged, "heap_growth_mib": r.GrowthMB}
		if !good(r) {
			sample["plaintext_hex"] = fmt.Sprintf("%x", cs.Plain[:min(len(cs.Plain), 4096)])
			sample["node_output"] = r.Note
		}
		sink.Add(fmt.Sprintf("CPk %d %d %s %s %s %d", cs.Wire, len(cs.Plain), coqgen.Bool(r.Alive), coqgen.Bool(r.Responsive), coqgen.Bool(r.Unchanged), r.GrowthMB),
			"c12pk/"+cs.Class+"/"+verdict, sample)
	}
	sink.Add(fmt.Sprintf("CPkFinal %s", coqgen.Bool(accepted)), fmt.Sprintf("c12pk/final-good-block/accepted=%v", accepted),
		map[string]any{"kind": "final", "accepted": accepted, "node_output": finalNote})
	sink.Meta["rule"] = "one live node in a child process (real Blockchain over harness/memdb, real P2P stack on loopback TCP, verifnet) with a chain of " +
		fmt.Sprint(len(raws)) + " blocks; a peer written from the protocol description sends every generated plaintext in groups of " + fmt.Sprint(G) +
		"; after each group: request for block 1 answered (same or fresh connection), process alive, tip unchanged, heap growth <= 64 MiB; a failing group is replayed packet by packet on a fresh node; at the end a new valid block must still be accepted"
	sink.Meta["stats"] = stats
	sink.Meta["packets"] = len(cases)
	sink.Close()
}

// buildC12Tree: a main chain with transactions and staked blocks (the c11 tree without its long branches would do, but that
// one costs minutes of proof of work)
func buildC12Tree(rng *hutil.Rng) *c11Tree {
	w := worldFromShared(rng, 5)
	t := &c11Tree{w: w, forks: map[int][]*TNode{}, invalid: map[string]*TNode{}, idx: map[*TNode]int{}, file: &TreeFile{Invalid: map[string][]byte{}}}
	t.idx[w.genesis] = 0
	t.main = []*TNode{w.genesis}
	for h := 1; h <= 14; h++ {
		n := w.validBlock(t.main[h-1], 1, 9000+rng.UpTo(3000), true)
		t.main = append(t.main, n)
	}
	t.forkK = 12
	base := t.main[len(t.main)-1]
	// (no "ts-future": a block stamped 70 s ahead of the clock becomes acceptable while a slow run is still going)
	for _, c := range []string{"bad-pow", "diff+1", "cumdiff+1", "ts-before-parent", "otherchain-own", "otherchain-dup", "side-dup", "height+1", "height-1", "version"} {
		n := w.build(base, BlockSpec{TsDelta: 9000, Recipient: w.wallets[0].Addr, Sign: 1, Corrupt: c})
		w.admit(n)
		if n.Valid {
			continue // the corruption did not apply to this block (e.g. no side block to duplicate): it is a good block
		}
		t.file.Invalid[c] = n.Raw
	}
	if tx := w.c11BadSigTx(base); tx != nil {
		t.file.BadTx = append(t.file.BadTx, tx.Serialize())
	}
	t.file.BadTx = append(t.file.BadTx, rng.Bytes(120), []byte{1, 2, 3})
	t.extra = w.validBlock(base, 1, 9500, false)
	return t
}
