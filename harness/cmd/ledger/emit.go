package main

import (
	"fmt"
	"strings"

	"verifharness/coqgen"

	"github.com/virel-project/virel-blockchain/v3/address"
	"github.com/virel-project/virel-blockchain/v3/bitcrypto"
	"github.com/virel-project/virel-blockchain/v3/block"
	"github.com/virel-project/virel-blockchain/v3/chaintype"
	"github.com/virel-project/virel-blockchain/v3/config"
	"github.com/virel-project/virel-blockchain/v3/transaction"
	"github.com/virel-project/virel-blockchain/v3/util"
	"github.com/virel-project/virel-blockchain/v3/util/uint128"
)

func u128(x uint128.Uint128) string { return x.String() }

func lotteryOf(h util.Hash) string { return uint128.FromBytes(h[:16]).String() }

func badChains(c block.Commitment) bool {
	seen := map[uint64]bool{config.NETWORK_ID: true}
	for _, x := range c.OtherChains {
		if seen[x.NetworkID] {
			return true
		}
		seen[x.NetworkID] = true
	}
	return false
}

func (w *World) commitTerm(c block.Commitment, pow string) string {
	ke := fmt.Sprintf("%x|%d|%d|%x", c.BaseHash, c.Timestamp, c.Nonce, c.NonceExtra)
	kd := fmt.Sprintf("%x|%d|%x", c.BaseHash, c.Nonce, c.NonceExtra)
	anc := []string{}
	for _, a := range c.Ancestors {
		anc = append(anc, coqgen.N(w.ids.H(a)))
	}
	return fmt.Sprintf("(mkcommit %d %d %s %d %s %s)", dense(w.ids.cmEq, ke), dense(w.ids.cmDup, kd), coqgen.List(anc), c.Timestamp, pow, coqgen.Bool(badChains(c)))
}

func (w *World) txTerm(t *transaction.Transaction, m TxMeta) string {
	var data string
	switch d := t.Data.(type) {
	case *transaction.Transfer:
		outs := []string{}
		for _, o := range d.Outputs {
			outs = append(outs, coqgen.Pair(w.ids.Addr(o.Recipient), coqgen.N(o.Amount)))
		}
		data = "(TTransfer " + coqgen.List(outs) + ")"
	case *transaction.RegisterDelegate:
		data = fmt.Sprintf("(TRegister %d %d %d)", len(d.Name), w.ids.Name(d.Name), d.Id)
	case *transaction.SetDelegate:
		data = fmt.Sprintf("(TSetDelegate %d %d)", d.DelegateId, d.PreviousDelegate)
	case *transaction.Stake:
		data = fmt.Sprintf("(TStake %d %d %d)", d.Amount, d.DelegateId, d.PrevUnlock)
	case *transaction.Unstake:
		data = fmt.Sprintf("(TUnstake %d %d)", d.Amount, d.DelegateId)
	}
	inv := address.FromPubKey(t.Signer) == address.INVALID_ADDRESS
	return fmt.Sprintf("(mktx %d %d %d %d %s %s %s %d %d)", w.ids.H(util.Hash(t.Hash())), t.Version, w.ids.Key(t.Signer),
		m.SigBy, coqgen.Bool(m.MsgOK), coqgen.Bool(inv), data, t.Nonce, t.Fee)
}

func (w *World) blockTerm(n *TNode) string {
	b := n.Block
	anc := []string{}
	for _, a := range b.Ancestors {
		anc = append(anc, coqgen.N(w.ids.H(a)))
	}
	sides := []string{}
	for i, s := range b.SideBlocks {
		p := "0"
		if i < len(n.SidePow) {
			p = u128(n.SidePow[i])
		}
		sides = append(sides, w.commitTerm(s, p))
	}
	txs := []string{}
	for i, t := range n.Txs {
		txs = append(txs, w.txTerm(t, n.TxMeta[i]))
	}
	chains := []string{}
	for _, c := range b.OtherChains {
		chains = append(chains, coqgen.Pair(coqgen.N(c.NetworkID), coqgen.N(w.ids.H(util.Hash(c.Hash)))))
	}
	blank := b.StakeSignature == bitcrypto.BlankSignature
	did, ndid := b.DelegateId, b.NextDelegateId
	if b.Version == 0 {
		// the proof-of-stake fields are not part of a version-0 block's encoding: the receiver sees zero values
		did, ndid, blank = 0, 0, true
	}
	return fmt.Sprintf("(mkblock %d %d %d %d %s %s %s %d %d %s %d %d %s %s %s %s %s %s %s false)",
		w.ids.H(n.Hash), b.Version, b.Height, b.Timestamp, coqgen.List(anc), coqgen.List(sides), w.ids.Addr(b.Recipient),
		did, ndid, coqgen.Bool(blank), n.SigKey, w.ids.H(n.SigMsg),
		u128(b.Difficulty), u128(b.CumulativeDiff), coqgen.List(txs), coqgen.List(chains), u128(n.Pow), lotteryOf(n.Hash),
		w.commitTerm(b.Commitment(), "0"))
}

func (w *World) obsTerm(o Obs) string {
	return fmt.Sprintf("(mkobs %s %s %d %d %s %d %d %d %d %s %s)", coqgen.Bool(o.Accepted), coqgen.Bool(o.Crashed), w.ids.H(o.Top), o.TopH,
		u128(o.TopCD), o.Staked, o.Sum, o.NAccts, o.Commits, coqgen.Bool(o.NoTrace), coqgen.Bool(o.Skip))
}

func (w *World) dlgTerm(d *chaintype.Delegate) string {
	fs := []string{}
	for _, f := range d.Funds {
		fs = append(fs, fmt.Sprintf("(mkfund %s %d %d)", w.ids.Addr(f.Owner), f.Amount, f.Unlock))
	}
	return fmt.Sprintf("(mkdlg %d %d %d %s)", d.Id, w.ids.Key(d.Owner), w.ids.Name(d.Name), coqgen.List(fs))
}

func (w *World) dumpTerm(d *Dump) string {
	ac := []string{}
	for _, a := range d.Accts {
		ac = append(ac, fmt.Sprintf("(%s, mkacct %d %d %d %d)", w.ids.Addr(a.Addr), a.St.Balance, a.St.LastNonce, a.St.LastIncoming, a.St.DelegateId))
	}
	dl := []string{}
	for _, x := range d.Dlgs {
		dl = append(dl, w.dlgTerm(x))
	}
	topo := []string{}
	for _, t := range d.Topo {
		topo = append(topo, fmt.Sprintf("(%d, %d)", t[0].(uint64), w.ids.H(t[1].(util.Hash))))
	}
	txh := []string{}
	for _, t := range d.TxH {
		txh = append(txh, fmt.Sprintf("(%d, %d)", w.ids.H(t[0].(util.Hash)), t[1].(uint64)))
	}
	pm := func(rows [][3]any) string {
		out := []string{}
		for _, r := range rows {
			out = append(out, fmt.Sprintf("((%s, %d), %d)", w.ids.Addr(r[0].(address.Address)), r[1].(uint64), w.ids.H(r[2].(util.Hash))))
		}
		return coqgen.List(out)
	}
	return fmt.Sprintf("(mkdump %s %s %d %d %d %s %s %s %s %s)", coqgen.List(ac), coqgen.List(dl), d.Staked, w.ids.H(d.Top), d.TopH,
		u128(d.TopCD), coqgen.List(topo), coqgen.List(txh), pm(d.InTx), pm(d.OutTx))
}

func optDump(w *World, d *Dump) string {
	if d == nil {
		return "None"
	}
	return "(Some " + w.dumpTerm(d) + ")"
}

// histTerm prints one history as a Coq term of type hist.
func (h *History) histTerm() string {
	w := h.W
	idx := map[*TNode]int{}
	blocks := []string{}
	valid := []string{}
	for _, n := range w.nodes[1:] {
		idx[n] = len(blocks)
		blocks = append(blocks, w.blockTerm(n))
		valid = append(valid, coqgen.Bool(n.Valid))
	}
	ops := []string{}
	for _, op := range h.Ops {
		ops = append(ops, fmt.Sprintf("HDeliver %d %d %s %s", idx[op.Node], op.Now, w.obsTerm(op.Obs), optDump(w, op.Dump)))
	}
	crashes := []string{}
	for _, c := range h.Crashes {
		crashes = append(crashes, fmt.Sprintf("(mkcrash %d %d %s %s %s)", c.Op, c.Resume, coqgen.Bool(c.RestartErr), w.dumpTerm(c.Restart), w.dumpTerm(c.Final)))
	}
	var sb strings.Builder
	fmt.Fprintf(&sb, "(mkhist %s %d\n %s\n %s\n %s\n %s\n %s %s\n %s %s)",
		w.ids.Addr(address.GenesisAddress), w.ids.Key(teamKey()),
		w.blockTerm(w.genesis),
		coqgen.List(blocks), coqgen.List(valid), "["+strings.Join(ops, ";\n  ")+"]", optDump(w, h.Fresh), coqgen.Bool(h.FreshOK),
		"["+strings.Join(crashes, ";\n  ")+"]", coqgen.Bool(!h.LMDBChecked || h.LMDBSame))
	return sb.String()
}
