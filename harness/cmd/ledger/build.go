package main

import (
	"bytes"
	"slices"

	"verifharness/memdb"

	vbinary "github.com/virel-project/virel-blockchain/v3/binary"

	"github.com/virel-project/go-randomvirel"
	"github.com/virel-project/virel-blockchain/v3/adb"
	"github.com/virel-project/virel-blockchain/v3/address"
	"github.com/virel-project/virel-blockchain/v3/bitcrypto"
	"github.com/virel-project/virel-blockchain/v3/block"
	"github.com/virel-project/virel-blockchain/v3/config"
	"github.com/virel-project/virel-blockchain/v3/transaction"
	"github.com/virel-project/virel-blockchain/v3/util"
	"github.com/virel-project/virel-blockchain/v3/util/uint128"
)

type BlockSpec struct {
	TsDelta   uint64
	Recipient address.Address
	Txs       []*transaction.Transaction
	TxMeta    []TxMeta
	Sides     []*TNode
	Sign      int // 0 none, 1 valid (if possible), 2 wrong key, 3 wrong message, 4 garbage
	Corrupt   string
	Note      string
}

func powVal(h [32]byte) uint128.Uint128 { return block.HashToVal(h) }

// mine searches a nonce meeting the block's difficulty (or, when wantInvalid, NOT meeting it).
func mine(bl *block.Block, wantInvalid bool) uint128.Uint128 {
	for {
		c := bl.Commitment()
		mb := c.MiningBlob()
		h := randomvirel.PowHash(mb.GetSeed(), mb.Serialize())
		ok := block.ValidPowHash32(h, bl.Difficulty)
		if ok != wantInvalid {
			return powVal(h)
		}
		bl.Nonce++
	}
}

// wireForm is SerializeFullBlock with the transactions at hand instead of read back from a database
// (the repository's function re-decodes every transaction, which fails for deliberately malformed ones).
func wireForm(bl *block.Block, txs []*transaction.Transaction) []byte {
	s := vbinary.NewSer(make([]byte, 0, 80))
	s.AddFixedByteArray(bl.BlockHeader.Serialize())
	for _, d := range []uint128.Uint128{bl.Difficulty, bl.CumulativeDiff} {
		diff := make([]byte, 16)
		d.PutBytes(diff)
		for len(diff) > 0 && diff[len(diff)-1] == 0 {
			diff = diff[:len(diff)-1]
		}
		s.AddByteSlice(diff)
	}
	s.AddUvarint(uint64(len(txs)))
	for _, t := range txs {
		s.AddByteSlice(t.Serialize())
	}
	return s.Output()
}

func (w *World) serializeFull(bl *block.Block, txs []*transaction.Transaction) []byte {
	mine := wireForm(bl, txs)
	// cross-check against the repository's SerializeFullBlock whenever that one succeeds
	db := memdb.New()
	save := w.bc.DB
	w.bc.DB = db
	var out []byte
	err := db.Update(func(txn adb.Txn) error {
		for _, t := range txs {
			// filed under the block's height: with height 0 GetTx would try both transaction formats and could read a
			// deliberately malformed transaction back as a different, shorter one
			if err := w.bc.SetTx(txn, t, t.Hash(), bl.Height); err != nil {
				return err
			}
		}
		var err error
		out, err = w.bc.SerializeFullBlock(txn, bl)
		return err
	})
	w.bc.DB = save
	if err == nil && !bytes.Equal(out, mine) {
		panic("harness wire form differs from SerializeFullBlock")
	}
	return mine
}

// build creates a block on top of parent according to spec. The block is valid unless spec says otherwise.
func (w *World) build(parent *TNode, spec BlockSpec) *TNode {
	pb := parent.Block
	height := pb.Height + 1
	var version uint8
	if height >= config.HARDFORK_V3_HEIGHT {
		version = 1
	}
	bl := &block.Block{
		BlockHeader: block.BlockHeader{
			Version:     version,
			Height:      height,
			Timestamp:   pb.Timestamp + spec.TsDelta,
			Recipient:   spec.Recipient,
			Ancestors:   pb.Ancestors.AddHash(parent.Hash),
			SideBlocks:  []block.Commitment{},
			OtherChains: []block.HashingID{},
		},
		Transactions: []transaction.TXID{},
	}
	if pb.Height == 0 && pb.Timestamp == 0 {
		bl.Timestamp = w.tsBase + spec.TsDelta
	}
	copy(bl.NonceExtra[:], w.rng.Bytes(16))
	bl.Nonce = uint32(w.rng.U64())
	for _, t := range spec.Txs {
		bl.Transactions = append(bl.Transactions, t.Hash())
	}
	for _, s := range spec.Sides {
		bl.SideBlocks = append(bl.SideBlocks, s.Block.Commitment())
	}
	n := &TNode{Parent: parent, Txs: spec.Txs, TxMeta: spec.TxMeta, Note: spec.Note}
	w.view(parent.Snap, func(v *View) {
		var err error
		bl.Difficulty, err = w.bc.GetNextDifficulty(v.txn, pb)
		if err != nil {
			panic(err)
		}
		if version > 0 {
			st, err := w.bc.GetStaker(v.txn, parent.Hash, v.Stats())
			if err != nil {
				panic(err)
			}
			bl.NextDelegateId = st.Id
			if height > config.MINIDAG_ANCESTORS {
				old := v.Block(bl.BlockStakedHash())
				if old != nil {
					bl.DelegateId = old.NextDelegateId
				}
			}
			// stake signature
			if spec.Sign != 0 && height > config.MINIDAG_ANCESTORS {
				msgHash := bl.BlockStakedHash()
				var signer *Wallet
				if d := v.Delegate(bl.DelegateId); d != nil {
					signer = w.walletOfKey(d.Owner)
				}
				switch spec.Sign {
				case 1:
					if signer == nil || bl.DelegateId == 0 || v.Stats().StakedAmount == 0 {
						break
					}
				case 2:
					other := w.wallets[w.rng.Intn(len(w.wallets))]
					if signer != nil && other == signer {
						other = w.wallets[(w.rng.Intn(len(w.wallets)-1)+1+indexOf(w.wallets, signer))%len(w.wallets)]
					}
					signer = other
				case 3:
					if signer == nil {
						signer = w.wallets[0]
					}
					msgHash = parent.Hash
				}
				if spec.Sign == 4 {
					copy(bl.StakeSignature[:], w.rng.Bytes(64))
					bl.StakeSignature[0] |= 1
					n.SigKey, n.SigMsg = 0, util.Hash{}
				} else if signer != nil && !(spec.Sign == 1 && (bl.DelegateId == 0 || v.Stats().StakedAmount == 0)) {
					sig, err := bitcrypto.Sign(append(append([]byte{}, config.STAKE_SIGN_PREFIX...), msgHash[:]...), signer.Priv)
					if err != nil {
						panic(err)
					}
					bl.StakeSignature = sig
					n.SigKey, n.SigMsg = w.ids.Key(signer.Pub), msgHash
				}
			}
		}
	})
	bl.CumulativeDiff = pb.CumulativeDiff.Add(bl.ContributionToCumulativeDiff())

	wantBadPow := false
	// ---- single-rule corruptions (applied before mining so that the proof of work covers the final content) ----
	switch spec.Corrupt {
	case "":
	case "diff+1":
		bl.Difficulty = bl.Difficulty.Add64(1)
		bl.CumulativeDiff = pb.CumulativeDiff.Add(bl.ContributionToCumulativeDiff())
	case "diff-1":
		bl.Difficulty = bl.Difficulty.Sub64(1)
		bl.CumulativeDiff = pb.CumulativeDiff.Add(bl.ContributionToCumulativeDiff())
	case "cumdiff+1":
		bl.CumulativeDiff = bl.CumulativeDiff.Add64(1)
	case "cumdiff-1":
		bl.CumulativeDiff = bl.CumulativeDiff.Sub64(1)
	case "height+1":
		bl.Height++
	case "height-1":
		bl.Height--
	case "ts-before-parent":
		if pb.Timestamp > 0 {
			bl.Timestamp = pb.Timestamp - 1
		}
	case "ts-future":
		bl.Timestamp = util.Time() + config.FUTURE_TIME_LIMIT*1000 + 60_000
	case "version":
		bl.Version ^= 1
	case "bad-pow":
		wantBadPow = true
	case "next-delegate":
		bl.NextDelegateId += 1 + uint64(w.rng.Intn(3))
	case "delegate-id":
		bl.DelegateId += 1 + uint64(w.rng.Intn(3))
	case "anc1":
		bl.Ancestors[1] = util.Hash{byte(w.rng.U64()), 1}
	case "anc2":
		bl.Ancestors[2] = util.Hash{byte(w.rng.U64()), 2}
	case "anc2-other":
		// point the entitlement slot at another existing block
		o := w.nodes[w.rng.Intn(len(w.nodes))]
		bl.Ancestors[2] = o.Hash
	case "otherchain-own":
		bl.OtherChains = append(bl.OtherChains, block.HashingID{NetworkID: config.NETWORK_ID, Hash: [32]byte{9}})
	case "otherchain-dup":
		bl.OtherChains = append(bl.OtherChains, block.HashingID{NetworkID: 77, Hash: [32]byte{9}}, block.HashingID{NetworkID: 77, Hash: [32]byte{8}})
	case "otherchain-ok":
		bl.OtherChains = append(bl.OtherChains, block.HashingID{NetworkID: 77, Hash: [32]byte{9}}, block.HashingID{NetworkID: 78, Hash: [32]byte{8}})
	case "side-dup":
		if len(bl.SideBlocks) > 0 {
			bl.SideBlocks = append(bl.SideBlocks, bl.SideBlocks[0])
			bl.CumulativeDiff = pb.CumulativeDiff.Add(bl.ContributionToCumulativeDiff())
		}
	case "side-is-parent":
		// the parent's own commitment as a side block (its work is already counted)
		bl.SideBlocks = append(bl.SideBlocks, pb.Commitment())
		bl.CumulativeDiff = pb.CumulativeDiff.Add(bl.ContributionToCumulativeDiff())
	case "side-is-grandparent":
		if parent.Parent != nil && parent.Parent.Block.Height > 0 {
			bl.SideBlocks = append(bl.SideBlocks, parent.Parent.Block.Commitment())
			bl.CumulativeDiff = pb.CumulativeDiff.Add(bl.ContributionToCumulativeDiff())
		}
	case "side-rereference":
		// a side block that one of the three predecessors already references
		for x, i := parent, 0; x != nil && i < 3; x, i = x.Parent, i+1 {
			if len(x.Block.SideBlocks) > 0 {
				bl.SideBlocks = append(bl.SideBlocks, x.Block.SideBlocks[0])
				bl.CumulativeDiff = pb.CumulativeDiff.Add(bl.ContributionToCumulativeDiff())
				break
			}
		}
	case "side-rereference-permuted":
		// the same, with the side block's list of merge-mined chains in another order (the mining blob sorts it: the
		// same work)
		for x, i := parent, 0; x != nil && i < 3; x, i = x.Parent, i+1 {
			if len(x.Block.SideBlocks) > 0 {
				sc := x.Block.SideBlocks[0]
				oc := append([]block.HashingID{}, sc.OtherChains...)
				slices.Reverse(oc)
				sc.OtherChains = oc
				bl.SideBlocks = append(bl.SideBlocks, sc)
				bl.CumulativeDiff = pb.CumulativeDiff.Add(bl.ContributionToCumulativeDiff())
				break
			}
		}
	case "side-pow-below", "side-pow-at":
		// the first side block gets another nonce whose proof-of-work value lies just below (must be refused) or just at
		// (accepted) two thirds of this block's difficulty: fails at D = floor(2d/3) but passes at D-1, resp. passes at D
		if len(bl.SideBlocks) > 0 {
			d23 := bl.Difficulty.Mul64(2).Div64(3)
			if !d23.IsZero() && d23.Cmp(uint128.From64(1)) > 0 {
				seedS := block.MiningBlob{Timestamp: bl.Timestamp}.GetSeed()
				sc := bl.SideBlocks[0]
				for try := 0; try < 4000; try++ {
					sc.Nonce = uint32(w.rng.U64())
					var hsh [32]byte
					okHash := true
					func() {
						defer func() {
							if recover() != nil {
								okHash = false
							}
						}()
						hsh = randomvirel.PowHash(seedS, sc.MiningBlob().Serialize())
					}()
					if !okHash {
						break
					}
					atD := block.ValidPowHash32(hsh, d23)
					atD1 := block.ValidPowHash32(hsh, d23.Sub64(1))
					if (spec.Corrupt == "side-pow-below" && !atD && atD1) || (spec.Corrupt == "side-pow-at" && atD && !block.ValidPowHash32(hsh, d23.Add64(1))) {
						bl.SideBlocks[0] = sc
						break
					}
				}
			}
		}
	case "drop-tx":
		// block lists a transaction that is not supplied: handled by the caller through Txs
	}
	func() {
		// Commitment.MiningBlob panics on duplicate network ids; such blocks are rejected before the proof of
		// work is looked at, so their proof-of-work value is irrelevant
		defer func() { recover() }()
		n.Pow = mine(bl, wantBadPow)
	}()
	seed := block.MiningBlob{Timestamp: bl.Timestamp}.GetSeed()
	for _, s := range bl.SideBlocks {
		var pv uint128.Uint128
		func() {
			defer func() { recover() }() // MiningBlob panics on repeated network ids (the node does too)
			pv = powVal(randomvirel.PowHash(seed, s.MiningBlob().Serialize()))
		}()
		n.SidePow = append(n.SidePow, pv)
	}
	n.Block = bl
	n.Hash = bl.Hash()
	n.Raw = w.serializeFull(bl, spec.Txs)
	w.ids.H(n.Hash)
	return n
}

func indexOf(ws []*Wallet, x *Wallet) int {
	for i, v := range ws {
		if v == x {
			return i
		}
	}
	return 0
}

// deliverTo hands the block's wire form to the node whose database is db; reports acceptance
// (= the block is retrievable by hash afterwards), and whether the node code panicked.
func (w *World) deliverTo(db *memdb.DB, n *TNode) (accepted bool, stage int, panicked bool, now uint64) {
	w.bc.DB = db
	now = util.Time()
	func() {
		defer func() {
			if r := recover(); r != nil {
				panicked = true
			}
		}()
		stage, _, _ = w.bc.VerifDeliverRaw(n.Raw)
	}()
	db.View(func(txn adb.Txn) error {
		_, err := w.bc.GetBlock(txn, n.Hash)
		accepted = err == nil
		return nil
	})
	return
}

// admit delivers n to a copy of its parent's builder database to obtain the builder snapshot
// (the state of a node whose main chain ends at n).
func (w *World) admit(n *TNode) {
	if n.Parent == nil || n.Parent.Snap == nil {
		return
	}
	snap := n.Parent.Snap.Snapshot()
	wasDup := false
	snap.View(func(txn adb.Txn) error {
		w.bc.DB = snap
		_, err := w.bc.GetBlock(txn, n.Hash)
		wasDup = err == nil
		return nil
	})
	acc, _, _, _ := w.deliverTo(snap, n)
	if acc && !wasDup {
		ok := false
		w.view(snap, func(v *View) { ok = v.Stats().TopHash == n.Hash })
		if ok {
			n.Snap = snap
			n.Valid = true
		}
	}
	w.nodes = append(w.nodes, n)
	w.byHash[n.Hash] = n
}
