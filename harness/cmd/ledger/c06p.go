package main

// Family c06p: the staking lottery (GetStaker) and the staker reward split (ApplyPosReward) of the real node on
// stake distributions far from what block histories reach: many pools, fund sizes from 1 unit to 2^63, delegate ids
// whose little-endian database keys order differently from the numbers, lottery values exactly at interval borders,
// rewards of every magnitude.

import (
	"encoding/binary"
	"fmt"
	"math/big"
	"strings"

	"verifharness/coqgen"
	"verifharness/hutil"

	"github.com/virel-project/virel-blockchain/v3/adb"
	"github.com/virel-project/virel-blockchain/v3/address"
	"github.com/virel-project/virel-blockchain/v3/chaintype"
	"github.com/virel-project/virel-blockchain/v3/transaction"
	"github.com/virel-project/virel-blockchain/v3/util"
	"github.com/virel-project/virel-blockchain/v3/util/uint128"
)

func nlist(xs []uint64) string {
	s := make([]string, len(xs))
	for i, x := range xs {
		s[i] = fmt.Sprint(x)
	}
	return "[" + strings.Join(s, "; ") + "]"
}

// fund sizes: 1 unit .. 2^63, several magnitudes
func fundSize(rng *hutil.Rng) uint64 {
	switch rng.Intn(8) {
	case 0:
		return 1
	case 1:
		return 1 + rng.UpTo(100)
	case 2:
		return 1 + rng.UpTo(1_000_000_000)
	case 3:
		return 1 + rng.UpTo(1<<40)
	case 4:
		return 1 + rng.UpTo(1<<55)
	case 5:
		return 1 << uint(rng.Intn(63))
	case 6:
		return (1 << uint(1+rng.Intn(62))) - 1
	}
	return 1 + rng.UpTo(1<<62)
}

func delegateID(rng *hutil.Rng, used map[uint64]bool) uint64 {
	for {
		var id uint64
		switch rng.Intn(6) {
		case 0:
			id = 1 + rng.UpTo(20)
		case 1:
			id = 1 + rng.UpTo(70000) // two and three key bytes
		case 2:
			id = (1 + rng.UpTo(255)) << (8 * uint(rng.Intn(8))) // one non-zero byte anywhere
		case 3:
			id = 256*(1+rng.UpTo(300)) + rng.UpTo(3) // low byte small, higher bytes vary
		case 4:
			id = rng.U64() | 1
		default:
			id = 1 + rng.UpTo(1<<32)
		}
		if id != 0 && !used[id] {
			used[id] = true
			return id
		}
	}
}

func famC06p(out string) {
	initShared()
	sink := coqgen.NewSink(out, "c06p", "c06p_case", 150)
	rng := hutil.NewRng(6060)
	w := worldFromShared(rng, 24)
	thorough := hutil.Tier() == "thorough"
	nLot, nRew := 60, 600
	if thorough {
		nLot, nRew = 1200, 8000
	}

	// ------------------------------------------------------------------ lottery
	for c := 0; c < nLot; c++ {
		nd := 1 + rng.Intn(6)
		switch rng.Intn(4) {
		case 1:
			nd = 1 + rng.Intn(30)
		case 2:
			nd = 30 + rng.Intn(90)
		}
		used := map[uint64]bool{}
		type dd struct {
			id    uint64
			funds []uint64
		}
		var ds []dd
		total := new(big.Int)
		shape := "fits"
		overflow := rng.Intn(25) == 0
		for i := 0; i < nd; i++ {
			d := dd{id: delegateID(rng, used)}
			nf := rng.Intn(4)
			if rng.Intn(5) == 0 {
				nf = 0 // a registered pool without funds
			}
			for k := 0; k < nf; k++ {
				a := fundSize(rng)
				if !overflow {
					// keep the grand total below 2^64 (the invariant of C01)
					lim := new(big.Int).Sub(new(big.Int).Lsh(big.NewInt(1), 64), big.NewInt(1))
					lim.Sub(lim, total)
					if !lim.IsUint64() || lim.Uint64() == 0 {
						break
					}
					if a > lim.Uint64() {
						a = 1 + rng.UpTo(lim.Uint64())
					}
				}
				d.funds = append(d.funds, a)
				total.Add(total, new(big.Int).SetUint64(a))
			}
			ds = append(ds, d)
		}
		if total.Sign() == 0 {
			ds[0].funds = append(ds[0].funds, 1+rng.UpTo(1000))
			total.SetUint64(ds[0].funds[len(ds[0].funds)-1])
		}
		staked := total.Uint64() // exact when it fits
		if !total.IsUint64() {
			shape = "sum-overflows"
			staked = rng.U64() | 1
		} else if rng.Intn(12) == 0 {
			// statistics out of step with the pools (cannot happen by C01; the code must still not crash)
			shape = "staked-differs"
			if rng.Intn(2) == 0 && staked > 1 {
				staked = 1 + rng.UpTo(staked-1)
			} else if staked < 1<<63 {
				staked += 1 + rng.UpTo(1000)
			}
		}
		db := w.freshDB()
		w.bc.DB = db
		var order []uint64
		var prefix []*big.Int // cumulated totals in iteration order
		err := db.Update(func(txn adb.Txn) error {
			for _, d := range ds {
				g := &chaintype.Delegate{Id: d.id, Name: []byte("p")}
				for k, a := range d.funds {
					var ad address.Address
					binary.LittleEndian.PutUint64(ad[:8], d.id)
					ad[8], ad[9] = byte(k), 0x77
					g.Funds = append(g.Funds, &chaintype.DelegatedFund{Owner: ad, Amount: a})
				}
				if err := w.bc.SetDelegate(txn, g); err != nil {
					return err
				}
			}
			acc := new(big.Int)
			return w.bc.GetDelegates(txn, func(d *chaintype.Delegate) (bool, error) {
				order = append(order, d.Id)
				for _, f := range d.Funds {
					acc.Add(acc, new(big.Int).SetUint64(f.Amount))
				}
				prefix = append(prefix, new(big.Int).Set(acc))
				return false, nil
			})
		})
		if err != nil {
			panic(err)
		}
		// lottery values: random hashes plus values that land exactly on, just before and just after every border
		var hvs []*big.Int
		nh := 4
		if thorough {
			nh = 12
		}
		for i := 0; i < nh; i++ {
			hvs = append(hvs, new(big.Int).SetBytes(rng.Bytes(16)))
		}
		if shape == "fits" {
			cand := []*big.Int{big.NewInt(0), new(big.Int).SetUint64(staked - 1)}
			for _, p := range prefix {
				for _, dlt := range []int64{-1, 0, 1} {
					x := new(big.Int).Add(p, big.NewInt(dlt))
					if x.Sign() >= 0 && x.Cmp(total) < 0 {
						cand = append(cand, x)
					}
				}
			}
			for i := len(cand) - 1; i > 0; i-- {
				j := rng.Intn(i + 1)
				cand[i], cand[j] = cand[j], cand[i]
			}
			if len(cand) > 2*nh {
				cand = cand[:2*nh]
			}
			for _, x := range cand {
				// the same index reached through a multiple of the staked total
				k := new(big.Int).SetUint64(rng.UpTo(1 << 40))
				v := new(big.Int).Mul(k, total)
				v.Add(v, x)
				if v.BitLen() > 128 {
					v = x
				}
				hvs = append(hvs, v)
			}
		}
		for _, hv := range hvs {
			var hash util.Hash
			b := hv.Bytes() // big endian
			for i := 0; i < len(b) && i < 16; i++ {
				hash[i] = b[len(b)-1-i]
			}
			if uint128.FromBytes(hash[:16]).Big().Cmp(hv) != 0 {
				panic("lottery value encoding")
			}
			copy(hash[16:], rng.Bytes(16))
			res, rid := uint64(0), uint64(0)
			func() {
				defer func() {
					if recover() != nil {
						res = 2
					}
				}()
				w.view(db, func(v *View) {
					st := v.Stats()
					st.StakedAmount = staked
					d, err := w.bc.GetStaker(v.txn, hash, st)
					if err != nil {
						res = 1
					} else {
						rid = d.Id
					}
				})
			}()
			var ins []string
			for _, d := range ds {
				ins = append(ins, fmt.Sprintf("(%d, %s)", d.id, nlist(d.funds)))
			}
			term := fmt.Sprintf("CLot [%s] %s %d %s %d %d", strings.Join(ins, "; "), nlist(order), staked, hv.String(), res, rid)
			class := fmt.Sprintf("lot/%s/pools=%d/res=%d", shape, bucket(len(ds)), res)
			sink.Add(term, class, map[string]any{"kind": "lottery", "shape": shape, "pools": len(ds), "staked_total": staked,
				"lottery_value": hv.String(), "result": []string{"delegate", "error", "panic"}[res], "delegate_id": rid,
				"iteration_order": order})
		}
	}

	// ------------------------------------------------------------------ reward split
	for c := 0; c < nRew; c++ {
		nf := 1 + rng.Intn(4)
		if rng.Intn(4) == 0 {
			nf = 4 + rng.Intn(17)
		}
		ownerW := w.wallets[rng.Intn(len(w.wallets))]
		ownerHasFund := rng.Intn(2) == 0
		perm := make([]int, len(w.wallets))
		for i := range perm {
			perm[i] = i
		}
		for i := len(perm) - 1; i > 0; i-- {
			j := rng.Intn(i + 1)
			perm[i], perm[j] = perm[j], perm[i]
		}
		type ff struct {
			key  uint64 // key id of the owner (address id 2k+1)
			addr address.Address
			amt  uint64
			unl  uint64
		}
		var funds []ff
		sum := new(big.Int)
		for _, wi := range perm {
			if len(funds) >= nf {
				break
			}
			wl := w.wallets[wi]
			if wl == ownerW && !ownerHasFund {
				continue
			}
			a := fundSize(rng)
			lim := new(big.Int).Sub(new(big.Int).Lsh(big.NewInt(1), 64), big.NewInt(1))
			lim.Sub(lim, sum)
			if !lim.IsUint64() || lim.Uint64() == 0 {
				break
			}
			if a > lim.Uint64() && rng.Intn(30) != 0 {
				a = 1 + rng.UpTo(lim.Uint64())
			}
			funds = append(funds, ff{w.ids.Key(wl.Pub), wl.Addr, a, rng.UpTo(100000)})
			sum.Add(sum, new(big.Int).SetUint64(a))
		}
		if ownerHasFund {
			found := false
			for _, f := range funds {
				if f.addr == ownerW.Addr {
					found = true
				}
			}
			if !found && len(funds) > 0 {
				funds[rng.Intn(len(funds))] = ff{w.ids.Key(ownerW.Pub), ownerW.Addr, fundSize(rng) % (1 << 50), 0}
				sum = new(big.Int)
				for _, f := range funds {
					sum.Add(sum, new(big.Int).SetUint64(f.amt))
				}
			}
		}
		if rng.Intn(40) == 0 {
			funds = nil // pool without funds
			sum = new(big.Int)
		}
		var reward uint64
		switch rng.Intn(6) {
		case 0:
			reward = rng.UpTo(100)
		case 1:
			reward = 1 + rng.UpTo(1_000_000_000_000)
		case 2:
			reward = 1 << uint(rng.Intn(64))
		case 3:
			reward = rng.U64()
		default:
			reward = 1 + rng.UpTo(20_000_000_000)
		}
		shape := "fits"
		if !sum.IsUint64() {
			shape = "pool-sum-overflows"
		}
		other := uint64(0)
		if sum.IsUint64() && rng.Intn(2) == 0 {
			room := ^uint64(0) - sum.Uint64()
			if room > 0 {
				other = rng.UpTo(room)
			}
		}
		staked := sum.Uint64() + other // wraps only in the overflow shape
		id := 1 + rng.UpTo(1000)
		db := w.freshDB()
		w.bc.DB = db
		res := uint64(0)
		var after []ff
		stakedAfter := staked
		var bh util.Hash
		copy(bh[:], rng.Bytes(32))
		func() {
			defer func() {
				if recover() != nil {
					res = 2
				}
			}()
			err := db.Update(func(txn adb.Txn) error {
				g := &chaintype.Delegate{Id: id, Owner: ownerW.Pub, Name: []byte("p")}
				for _, f := range funds {
					g.Funds = append(g.Funds, &chaintype.DelegatedFund{Owner: f.addr, Amount: f.amt, Unlock: f.unl})
				}
				if err := w.bc.SetDelegate(txn, g); err != nil {
					panic(err)
				}
				st := w.bc.GetStats(txn)
				st.StakedAmount = staked
				o := &transaction.StateOutput{Type: transaction.OUT_COINBASE_POS, Amount: reward, ExtraData: id}
				if err := w.bc.ApplyPosReward(txn, bh, o, transaction.TXID(bh), st); err != nil {
					res = 1
					return nil
				}
				stakedAfter = st.StakedAmount
				d, err := w.bc.GetDelegate(txn, id)
				if err != nil {
					panic(err)
				}
				for _, f := range d.Funds {
					after = append(after, ff{w.ids.keyOfAddr(f.Owner), f.Owner, f.Amount, f.Unlock})
				}
				return nil
			})
			if err != nil {
				panic(err)
			}
		}()
		fl := func(fs []ff) string {
			var s []string
			for _, f := range fs {
				s = append(s, fmt.Sprintf("(%d, %d, %d)", 2*f.key+1, f.amt, f.unl))
			}
			return "[" + strings.Join(s, "; ") + "]"
		}
		term := fmt.Sprintf("CRew %d %s %d %d %d %s %d", w.ids.Key(ownerW.Pub), fl(funds), staked, reward, res, fl(after), stakedAfter)
		class := fmt.Sprintf("rew/%s/funds=%d/owner-fund=%v/reward-bits=%d/res=%d", shape, bucket(len(funds)), ownerHasFund, bucket(bitlen(reward)), res)
		sink.Add(term, class, map[string]any{"kind": "reward", "shape": shape, "funds": len(funds), "owner_has_fund": ownerHasFund,
			"pool_total": sum.String(), "staked_total": staked, "reward": reward, "result": []string{"applied", "error", "panic"}[res]})
	}
	sink.Meta["rule"] = "lottery: GetStaker of the real node on generated pool tables (1..120 pools, ids whose little-endian database keys order differently from the numbers, pools without funds, fund sizes 1 unit..2^63, grand total up to 2^64-1, a few tables whose total overflows or whose statistics are out of step) with random 128-bit lottery values and values that land exactly on, one before and one after every interval border (also through multiples of the staked total); reward: ApplyPosReward on pools of 1..20 funds (sizes 1 unit..2^63, owner's fund present or absent, pool without funds) with rewards of every magnitude up to 2^64-1. A class is (kind, shape, size bucket, outcome)."
	sink.Close()
}

func bucket(n int) int {
	switch {
	case n <= 1:
		return n
	case n <= 4:
		return 4
	case n <= 16:
		return 16
	case n <= 40:
		return 40
	}
	return 64
}

func bitlen(x uint64) int {
	n := 0
	for x != 0 {
		n++
		x >>= 1
	}
	return n
}
