package main

import (
	"encoding/binary"

	"github.com/virel-project/virel-blockchain/v3/address"
	"github.com/virel-project/virel-blockchain/v3/bitcrypto"
	"github.com/virel-project/virel-blockchain/v3/config"
	"github.com/virel-project/virel-blockchain/v3/transaction"
)

func minFee(height uint64, vsize uint64) uint64 {
	if height >= config.HARDFORK_V3_HEIGHT {
		return config.FEE_PER_BYTE_V2 * vsize
	}
	return config.FEE_PER_BYTE * vsize
}

func (w *World) sign(t *transaction.Transaction, by *Wallet) TxMeta {
	if err := t.Sign(by.Priv); err != nil {
		panic(err)
	}
	return TxMeta{SigBy: w.ids.Key(by.Pub), MsgOK: true}
}

// signForeign signs the transaction as if for another network id.
func (w *World) signForeign(t *transaction.Transaction, by *Wallet, netid uint64) TxMeta {
	c := *t
	c.Signature = bitcrypto.Signature{}
	// netid 0: the master chain signs with an all-zero placeholder (no network tag at all)
	binary.LittleEndian.PutUint64(c.Signature[:], netid)
	data := c.Serialize()
	sig, err := bitcrypto.Sign(data, by.Priv)
	if err != nil {
		panic(err)
	}
	t.Signature = sig
	return TxMeta{SigBy: w.ids.Key(by.Pub), MsgOK: false, Note: "foreign-network-signature"}
}

// genTxs produces the transactions of a block built on parent (height = parent height + 1).
// Mostly valid; with probability pBad one single-field corruption is injected (the block then has to be rejected).
// Returns the transactions, their symbolic signature data and whether a corruption was injected.
func (w *World) genTxs(parent *TNode, maxTx int, pBad int) (txs []*transaction.Transaction, meta []TxMeta, bad string) {
	height := parent.Block.Height + 1
	if height < config.HARDFORK_V2_HEIGHT {
		return nil, nil, ""
	}
	ntx := w.rng.Intn(maxTx + 1)
	if w.forceKind != 0 {
		ntx = 1
	}
	if ntx == 0 {
		return nil, nil, ""
	}
	badAt := -1
	if pBad > 0 && w.rng.Intn(100) < pBad {
		badAt = w.rng.Intn(ntx)
	}
	if w.forceCorrupt != "" {
		badAt = 0
	}
	w.view(parent.Snap, func(v *View) {
		st := v.Stats()
		topH := st.TopHeight
		used := map[int]uint64{} // wallet index -> number of txs already issued in this block
		spent := map[int]uint64{}
		pendingDelegates := map[uint64]bool{}
		for k := 0; k < ntx; k++ {
			wi := w.rng.Intn(len(w.wallets))
			if w.forceKind != 0 {
				wi = w.forceWallet
			}
			wal := w.wallets[wi]
			s := v.State(wal.Addr)
			if used[wi] > 0 && w.rng.Intn(3) != 0 {
				continue // mostly one transaction per signer and block
			}
			nonce := s.LastNonce + 1 + used[wi]
			avail := uint64(0)
			if s.Balance > spent[wi] {
				avail = s.Balance - spent[wi]
			}
			t := &transaction.Transaction{Version: transaction.TX_VERSION_TRANSFER, Signer: wal.Pub, Nonce: nonce}
			kind := 1
			if height >= config.HARDFORK_V3_HEIGHT && used[wi] == 0 {
				kind = 1 + w.rng.Intn(5)
				// bias towards progress along register -> set delegate -> stake -> unstake
				anyDelegate := false
				for d := uint64(1); d < 12; d++ {
					if v.Delegate(d) != nil {
						anyDelegate = true
					}
				}
				if w.rng.Intn(100) < 65 {
					sd := v.Delegate(s.DelegateId)
					funded := false
					if sd != nil {
						for _, f := range sd.Funds {
							if f.Owner == wal.Addr {
								funded = true
							}
						}
					}
					switch {
					case !anyDelegate:
						kind = 2
					case s.DelegateId == 0 || sd == nil:
						kind = 3
					case !funded:
						kind = 4
					default:
						kind = 4 + w.rng.Intn(2)
					}
				}
			}
			if w.forceKind != 0 {
				kind = w.forceKind
			}
			corrupt := ""
			if k == badAt {
				corrupt = []string{"sig-bit", "sig-other-key", "sig-foreign", "sig-masterchain", "sig-netid+1", "nonce+1", "nonce-1", "fee-1", "overdraft",
					"tamper-after-sign", "early-unstake", "foreign-fund", "dup-delegate", "wrong-prev-delegate",
					"delegate-id-0", "delegate-id-1", "outputs-33", "outputs-0", "overflow-outputs", "stake-below-min",
					"stake-wrong-delegate", "stake-wrong-prevunlock", "unstake-too-much", "unstake-fee-gt-amount",
					"set-delegate-missing", "set-delegate-with-funds", "name-too-long", "version-0", "version-6-as-1",
					"overflow-outputs-mid", "overflow-outputs-small-total"}[w.rng.Intn(31)]
				if w.forceCorrupt != "" {
					corrupt = w.forceCorrupt
				}
			}
			var del = v.Delegate(s.DelegateId)
			var myFund uint64
			var myUnlock uint64
			hasFund := false
			if del != nil {
				for _, f := range del.Funds {
					if f.Owner == wal.Addr {
						myFund, myUnlock, hasFund = f.Amount, f.Unlock, true
					}
				}
			}
			// decide the data
			switch kind {
			case 2: // register delegate
				id := uint64(2 + w.rng.Intn(6))
				for tries := 0; tries < 8 && (v.Delegate(id) != nil || pendingDelegates[id]); tries++ {
					id = uint64(2 + w.rng.Intn(8))
				}
				if v.Delegate(id) != nil || pendingDelegates[id] || avail < config.REGISTER_DELEGATE_BURN+minFee(height, 99+16+8) {
					kind = 1
					break
				}
				name := w.rng.Bytes(w.rng.Intn(9))
				if corrupt == "name-too-long" {
					name = w.rng.Bytes(17)
				}
				if corrupt == "dup-delegate" {
					// an id that exists already (if any)
					for d := uint64(1); d < 12; d++ {
						if v.Delegate(d) != nil {
							id = d
						}
					}
				}
				if corrupt == "delegate-id-0" {
					id = 0
				}
				if corrupt == "delegate-id-1" {
					id = 1
				}
				t.Version = transaction.TX_VERSION_REGISTER_DELEGATE
				t.Data = &transaction.RegisterDelegate{Name: name, Id: id}
				pendingDelegates[id] = true
			case 3: // set delegate
				var cands []uint64
				for d := uint64(1); d < 12; d++ {
					if v.Delegate(d) != nil && d != s.DelegateId {
						cands = append(cands, d)
					}
				}
				if len(cands) == 0 || (hasFund && corrupt != "set-delegate-with-funds") || avail < minFee(height, 99+1000) {
					kind = 1
					break
				}
				nd := cands[w.rng.Intn(len(cands))]
				prev := s.DelegateId
				if corrupt == "wrong-prev-delegate" {
					prev++
				}
				if corrupt == "set-delegate-missing" {
					nd = 40 + uint64(w.rng.Intn(5))
				}
				t.Version = transaction.TX_VERSION_SET_DELEGATE
				t.Data = &transaction.SetDelegate{DelegateId: nd, PreviousDelegate: prev}
			case 4: // stake
				if s.DelegateId == 0 || del == nil || avail < config.MIN_STAKE_AMOUNT+minFee(height, 99+256) {
					kind = 1
					break
				}
				room := avail - minFee(height, 99+256)
				amt := config.MIN_STAKE_AMOUNT + w.rng.UpTo(room-config.MIN_STAKE_AMOUNT)/uint64(1+w.rng.Intn(4))
				did := s.DelegateId
				pu := myUnlock
				if !hasFund && w.rng.Intn(2) == 0 {
					pu = w.rng.UpTo(50) // not checked for a new fund
				}
				if corrupt == "stake-below-min" {
					amt = config.MIN_STAKE_AMOUNT - 1
				}
				if corrupt == "stake-wrong-delegate" {
					did = s.DelegateId + 1
				}
				if corrupt == "stake-wrong-prevunlock" && hasFund {
					pu = myUnlock + 1
				}
				t.Version = transaction.TX_VERSION_STAKE
				t.Data = &transaction.Stake{Amount: amt, DelegateId: did, PrevUnlock: pu}
			case 5: // unstake
				fee := minFee(height, 99+8)
				early := hasFund && myUnlock > topH
				if !hasFund || myFund < fee || (early && corrupt != "early-unstake") {
					if corrupt == "foreign-fund" && s.DelegateId != 0 && del != nil && len(del.Funds) > 0 {
						// try to unstake somebody else's fund
						t.Version = transaction.TX_VERSION_UNSTAKE
						t.Data = &transaction.Unstake{Amount: del.Funds[0].Amount, DelegateId: s.DelegateId}
						break
					}
					kind = 1
					break
				}
				amt := myFund
				if !w.forceFullUnstake && w.rng.Intn(2) == 0 && myFund > fee {
					amt = fee + w.rng.UpTo(myFund-fee)
				}
				if corrupt == "unstake-too-much" {
					amt = myFund + 1
				}
				if corrupt == "unstake-fee-gt-amount" {
					amt = fee - 1
				}
				t.Version = transaction.TX_VERSION_UNSTAKE
				t.Data = &transaction.Unstake{Amount: amt, DelegateId: s.DelegateId}
			}
			if kind == 1 {
				t.Version = transaction.TX_VERSION_TRANSFER
				nout := 1 + w.rng.Intn(3)
				if w.rng.Intn(12) == 0 {
					nout = 1 + w.rng.Intn(config.MAX_OUTPUTS)
				}
				if corrupt == "outputs-33" {
					nout = config.MAX_OUTPUTS + 1
				}
				if corrupt == "outputs-0" {
					nout = 0
				}
				fee := minFee(height, 99+uint64(nout)*24)
				if avail <= fee+uint64(nout) {
					continue
				}
				room := (avail - fee) / uint64(1+w.rng.Intn(6))
				outs := make([]transaction.Output, nout)
				for i := range outs {
					var rcpt address.Address
					switch w.rng.Intn(10) {
					case 0:
						rcpt = address.INVALID_ADDRESS
					case 1:
						rcpt = address.NewDelegateAddress(uint64(1 + w.rng.Intn(8)))
					case 2:
						rcpt = wal.Addr // to self
					case 3:
						copy(rcpt[:], w.rng.Bytes(22)) // unknown address
						rcpt[0] |= 1
					default:
						rcpt = w.wallets[w.rng.Intn(len(w.wallets))].Addr
					}
					a := uint64(0)
					if nout > 0 {
						a = w.rng.UpTo(room / uint64(nout))
					}
					if w.rng.Intn(6) == 0 || (w.forceZeroOut && i == 0) {
						a = 0 // an output that moves nothing still counts as an incoming event of its recipient
					}
					outs[i] = transaction.Output{Recipient: rcpt, PaymentId: w.rng.UpTo(3), Amount: a}
				}
				if corrupt == "overdraft" && nout > 0 {
					outs[0].Amount = avail + 1 + w.rng.UpTo(1000)
				}
				if corrupt == "overflow-outputs" {
					if nout < 2 {
						outs = append(outs, outs[0])
					}
					outs[0].Amount = ^uint64(0) - 5
					outs[1].Amount = 10
				}
				if corrupt == "overflow-outputs-mid" {
					// the running sum wraps before the last output: 2^63 + 2^63 + small amounts (the wrapped total is affordable)
					for len(outs) < 3 {
						outs = append(outs, outs[0])
					}
					outs[0].Amount = 1 << 63
					outs[1].Amount = 1 << 63
					for k := 2; k < len(outs); k++ {
						outs[k].Amount = 1 + w.rng.UpTo(1000)
					}
				}
				if corrupt == "overflow-outputs-small-total" {
					// two outputs whose sum wraps, in the last addition, to a small affordable total (far below the maximum supply)
					outs = outs[:1]
					outs = append(outs, outs[0])
					outs[0].Amount = 1 << 63
					outs[1].Amount = 1<<63 + 1 + w.rng.UpTo(1000)
				}
				t.Data = &transaction.Transfer{Outputs: outs}
			}
			t.Fee = minFee(height, t.GetVirtualSize())
			if w.rng.Intn(4) == 0 {
				t.Fee += w.rng.UpTo(1000)
			}
			if corrupt == "fee-1" && t.Fee > 0 {
				t.Fee = minFee(height, t.GetVirtualSize()) - 1
			}
			if corrupt == "nonce+1" {
				t.Nonce++
			}
			if corrupt == "nonce-1" {
				t.Nonce--
			}
			if corrupt == "version-0" {
				if _, ok := t.Data.(*transaction.Transfer); ok {
					t.Version = 0
				}
			}
			var m TxMeta
			switch corrupt {
			case "sig-other-key":
				m = w.sign(t, w.wallets[(wi+1)%len(w.wallets)])
			case "sig-foreign":
				m = w.signForeign(t, wal, 0x1122334455667788)
			case "sig-masterchain":
				m = w.signForeign(t, wal, 0)
			case "sig-netid+1":
				m = w.signForeign(t, wal, config.NETWORK_ID+1)
			case "sig-bit":
				m = w.sign(t, wal)
				t.Signature[w.rng.Intn(64)] ^= 1 << uint(w.rng.Intn(8))
				m = TxMeta{SigBy: 0, MsgOK: false}
			case "tamper-after-sign":
				m = w.sign(t, wal)
				t.Fee++
				m.MsgOK = false
			default:
				m = w.sign(t, wal)
			}
			m.Note = corrupt
			if corrupt != "" {
				bad = corrupt
			}
			txs = append(txs, t)
			meta = append(meta, m)
			used[wi]++
			if ta, err := t.TotalAmount(); err == nil && t.Version != transaction.TX_VERSION_UNSTAKE {
				spent[wi] += ta
			}
		}
	})
	return
}
