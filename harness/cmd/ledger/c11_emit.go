package main

import (
	"fmt"
	"sort"
	"strings"

	"verifharness/coqgen"

	"github.com/virel-project/virel-blockchain/v3/address"
	"github.com/virel-project/virel-blockchain/v3/util"
)

// invalidOrder: the decodable invalid blocks, in the order of cw_invalid
func (t *c11Tree) invalidOrder() []string {
	var names []string
	for n := range t.invalid {
		names = append(names, n)
	}
	sort.Strings(names)
	return names
}

// prelude defines the block table shared by all cases of the run.
func (t *c11Tree) prelude() string {
	w := t.w
	blocks := make([]string, len(t.file.Blocks)-1)
	for n, i := range t.idx {
		if i > 0 {
			blocks[i-1] = w.blockTerm(n)
		}
	}
	inv := []string{}
	for _, nm := range t.invalidOrder() {
		inv = append(inv, w.blockTerm(t.invalid[nm]))
	}
	var sb strings.Builder
	fmt.Fprintf(&sb, "Definition c11_blocks : list block := [\n%s].\n", strings.Join(blocks, ";\n"))
	fmt.Fprintf(&sb, "Definition c11_invalid : list block := [\n%s].\n", strings.Join(inv, ";\n"))
	fmt.Fprintf(&sb, "Definition c11_w : c11world := mkc11world %s %d\n %s\n c11_blocks c11_invalid.\n",
		w.ids.Addr(address.GenesisAddress), w.ids.Key(teamKey()), w.blockTerm(w.genesis))
	return sb.String()
}

func natList(l []int) string {
	s := []string{}
	for _, x := range l {
		s = append(s, fmt.Sprintf("%d%%nat", x))
	}
	return coqgen.List(s)
}

var c11Digests = map[string]uint64{}

func (t *c11Tree) lobsTerm(o ObsJ) string {
	top := uint64(999999)
	for n := range t.idx {
		if fmt.Sprintf("%x", n.Hash) == o.Top {
			top = t.w.ids.H(n.Hash)
		}
	}
	for _, n := range t.invalid {
		if fmt.Sprintf("%x", n.Hash) == o.Top {
			top = t.w.ids.H(n.Hash)
		}
	}
	cd := o.CD
	if cd == "" {
		cd = "0"
	}
	return fmt.Sprintf("(mklobs %d %d %s %d %d)", top, o.Height, cd, o.Staked, dense(c11Digests, o.Digest))
}

// script: the logical-level faults of the scenario for the scheduler model
func (t *c11Tree) script(sc *Scen) (rounds []string, cont bool) {
	cont = true
	rd := func(a string, extra []int, inv []int) string {
		return fmt.Sprintf("(%s, %s, %s)", a, natList(extra), natList(inv))
	}
	rep := func(a string, k int) {
		for i := 0; i < k; i++ {
			rounds = append(rounds, rd(a, nil, nil))
		}
	}
	switch sc.Fault {
	case "kick", "cut":
		rounds = append(rounds, rd(fmt.Sprintf("ArrCut %d", sc.Param), nil, nil))
	case "dup":
		rep("ArrDup", 3)
	case "reorder", "reverse":
		rep("ArrRev", 3)
	case "unsolicited":
		var extra []int
		for _, nm := range sc.FakePush {
			var idx int
			if n, _ := fmt.Sscanf(nm, "tree:%d", &idx); n == 1 {
				extra = append(extra, idx)
			}
		}
		rounds = append(rounds, rd("ArrId", extra, nil))
	case "invalid":
		cont = false
		var inv []int
		for i := range t.invalidOrder() {
			inv = append(inv, i)
		}
		for i := 0; i < 3; i++ {
			rounds = append(rounds, rd("ArrNone", nil, inv))
		}
	}
	return
}

func (t *c11Tree) caseTerm(r *c11Run) (term, class string, sample any) {
	sc := r.Scen
	outcome := "synced"
	switch {
	case r.Crashed:
		outcome = "crash"
	case r.Deadlock:
		outcome = "deadlock-report"
	case r.Race:
		outcome = "race-report"
	case r.Res.TimedOut:
		outcome = "timeout"
	case sc.Expect == "unchanged":
		outcome = "observed-unchanged"
	case sc.Expect == "none":
		outcome = "shut-down"
	}
	class = fmt.Sprintf("%s/%s/%s/dir=%s/%s", sc.Kind, sc.Shape, sc.Fault, sc.Dir, outcome)
	res := r.Res
	if res == nil {
		res = &ScenResult{}
	}
	sample = map[string]any{"scenario": sc.Name, "kind": sc.Kind, "shape": sc.Shape, "fault": sc.Fault, "expect": sc.Expect, "dials": sc.Dir,
		"connect_delay_ms": sc.DelayMs, "timeout_ms": sc.TimeoutMs,
		"A": res.A, "B_before": res.B0, "B": res.B, "C": res.C, "reference": res.R, "elapsed_ms": res.ElapsedMs, "faults_injected": res.Faults,
		"synced": res.Synced, "timed_out": res.TimedOut, "shutdown_ok": res.ShutdownOK, "sync_target_height": res.SyncTarget,
		"attempts": r.Attempts, "crashed": r.Crashed, "race_report": r.Race, "deadlock_report": r.Deadlock,
		"exit": r.Exit, "wall_ms": r.WallMs, "under_race_detector": sc.Race, "stderr": r.Stderr,
		"chains": map[string]any{"A": len(sc.A), "B": len(sc.B), "C": len(sc.C), "ref": len(sc.Ref)}}
	kind := map[string]int{"pair": 0, "relay": 1, "fake": 2, "triple": 3}[sc.Kind]
	others := []string{}
	others1 := []string{}
	if sc.Kind != "fake" {
		others = append(others, natList(sc.A))
		others1 = append(others1, t.lobsTerm(res.A))
	}
	if sc.Kind == "triple" {
		others = append(others, natList(sc.C))
		others1 = append(others1, t.lobsTerm(res.C))
	}
	rounds, cont := t.script(sc)
	term = fmt.Sprintf("(mkc11 c11_w %d %s %s %s %s %s %s %s %d\n  %s %s %s %s\n  %s %s %s %s %s %d %d)",
		kind, coqgen.Bool(sc.Expect == "sync"), coqgen.Bool(sc.Expect == "unchanged"), natList(sc.Ref), natList(sc.B), coqgen.List(others), coqgen.List(rounds), coqgen.Bool(cont), t.now,
		t.lobsTerm(res.R), t.lobsTerm(res.B0), t.lobsTerm(res.B), coqgen.List(others1),
		coqgen.Bool(r.Crashed), coqgen.Bool(r.Deadlock), coqgen.Bool(r.Race), coqgen.Bool(res.TimedOut), coqgen.Bool(res.ShutdownOK || r.Crashed),
		res.ElapsedMs, r.Attempts)
	return
}

var _ util.Hash
