// ledger: correspondence harness for the node and ledger families (C01-C06, C10, C17).
// It drives real blockchain.Blockchain values over in-memory databases with generated block trees.
// usage: ledger <family> <outdir>
package main

import (
	"fmt"
	"os"
	"strconv"

	"verifharness/coqgen"
	"verifharness/hutil"

	"github.com/virel-project/virel-blockchain/v3/bitcrypto"
	"github.com/virel-project/virel-blockchain/v3/config"
	"github.com/virel-project/virel-blockchain/v3/util"
)

func teamKey() bitcrypto.Pubkey {
	return bitcrypto.Pubkey(util.AssertHexDec(config.TEAM_STAKE_PUBKEY))
}

func budget() int {
	b, _ := strconv.Atoi(os.Getenv("VERIF_BUDGET"))
	if b < 1 {
		b = 1
	}
	return b
}

func main() {
	if len(os.Args) < 3 {
		fmt.Println("usage: ledger <family> <outdir>")
		os.Exit(2)
	}
	switch os.Args[1] {
	case "hist":
		famHist(os.Args[2])
	case "c09":
		famC09(os.Args[2])
	case "c11":
		famC11(os.Args[2])
	case "c06p":
		famC06p(os.Args[2])
	case "c12pk":
		famC12pk(os.Args[2])
	case "c17rpc":
		famC17rpc(os.Args[2])
	case "c12pk-node":
		c12pkNode(os.Args[2])
	default:
		fmt.Println("unknown family", os.Args[1])
		os.Exit(2)
	}
}

func famHist(out string) {
	initShared()
	nh, steps := 36, 26
	if hutil.Tier() == "thorough" {
		nh, steps = 400, 45
	}
	nh *= budget()
	if v, err := strconv.Atoi(os.Getenv("VERIF_HIST_N")); err == nil && v > 0 {
		nh = v
	}
	shard, nshards := 0, 1
	if v, err := strconv.Atoi(os.Getenv("VERIF_SHARD")); err == nil {
		shard = v
	}
	if v, err := strconv.Atoi(os.Getenv("VERIF_NSHARDS")); err == nil && v > 0 {
		nshards = v
	}
	sink := coqgen.NewSink(out, fmt.Sprintf("hist%d", shard), "hist", 2)
	tot := map[string]int{}
	for i := 0; i < nh; i++ {
		if i%nshards != shard {
			continue
		}
		if v, err := strconv.Atoi(os.Getenv("VERIF_HIST_ONLY")); err == nil && v != i {
			continue
		}
		rng := hutil.NewRng(1000 + uint64(i))
		w := worldFromShared(rng, 5)
		p := HistParams{Steps: steps - 8 + rng.Intn(16), Wallets: 5, PBadTx: 10, PCorrupt: 10, PFork: 20, PReorg: 12, DumpEvery: 7, Crashes: 2}
		switch i % 14 {
		case 1:
			p.PFork = 45 // fork heavy
		case 2:
			p.PBadTx, p.PCorrupt = 25, 25 // rejection heavy
		case 3:
			p.PBadTx, p.PCorrupt, p.PFork, p.PReorg = 0, 0, 15, 25 // clean reorganisations
		case 4:
			p.Steps, p.PBadTx, p.PCorrupt, p.Scenario = 6, 0, 0, "deepfork"
		case 5:
			p.PBadTx, p.PCorrupt, p.Scenario = 0, 5, "bigblock"
		case 6:
			p.Steps, p.PBadTx, p.PCorrupt, p.PFork, p.PReorg, p.Scenario = 20, 0, 0, 5, 5, "undokinds"
		case 7:
			p.Steps, p.PBadTx, p.PCorrupt, p.Scenario = 8, 0, 0, "shortheavy"
		case 8:
			p.Steps, p.PBadTx, p.PCorrupt, p.Scenario = 14, 0, 0, "corruptsweep"
		case 9:
			p.Steps, p.PBadTx, p.PCorrupt, p.PFork, p.PReorg, p.Scenario = 6, 0, 0, 0, 0, "stalekey"
		case 10:
			p.Steps, p.PBadTx, p.PCorrupt, p.PFork, p.PReorg, p.Scenario = 6, 0, 0, 0, 0, "badfork"
		case 13:
			p.Steps, p.PBadTx, p.PCorrupt, p.PFork, p.PReorg, p.Scenario = 24, 0, 0, 5, 5, "sharedtx"
		case 12:
			p.Steps, p.PBadTx, p.PCorrupt, p.PFork, p.PReorg, p.Scenario = 8, 0, 0, 0, 0, "batches"
		case 11:
			// one long history per run is enough: the stretch to height 440
			if i == 11 {
				p.Steps, p.PBadTx, p.PCorrupt, p.PFork, p.PReorg, p.DumpEvery, p.Crashes, p.Scenario = 4, 0, 0, 0, 0, 1000, 0, "h440"
			} else {
				p.Steps, p.PBadTx, p.PCorrupt, p.PFork, p.PReorg, p.Scenario = 24, 0, 0, 5, 5, "badtxsweep"
			}
		}
		// every history (but the long one) is replayed on the real LMDB back-end, delivery after delivery with nothing in
		// between: the node under test shares its Blockchain value with the block builder of this harness, which reads
		// other stores between two deliveries; a process-wide cache that survives a rolled-back transaction shows only in
		// the uninterrupted replay
		p.LMDB = p.Scenario != "h440"
		h := w.genHistory(p)
		class := fmt.Sprintf("hist/fork=%d/bad=%d", p.PFork, p.PBadTx)
		for k, v := range h.Stats {
			tot[k] += v
			class += fmt.Sprintf("/%s", k)
		}
		sample := map[string]any{"history": i, "deliveries": len(h.Ops), "blocks": len(w.nodes) - 1, "stats": h.Stats,
			"branch_valid_refused_ops": h.BranchValidRefused, "final_height": h.Ops[len(h.Ops)-1].Obs.TopH}
		sink.Add(h.histTerm(), class, sample)
	}
	sink.Meta["totals"] = tot
	sink.Meta["rule"] = "generated block trees delivered to a real node over an in-memory store (verifnet): linear extension, forks and reorganisations, duplicates, children before parents, all five transaction kinds, staked/unstaked blocks, side blocks, single-field corruptions of blocks and transactions. A class is the set of event kinds that occurred in the history."
	if err := sink.Close(); err != nil {
		panic(err)
	}
}
