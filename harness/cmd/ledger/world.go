package main

import (
	"crypto/ed25519"
	"encoding/binary"
	"fmt"

	"verifharness/hutil"
	"verifharness/memdb"

	"github.com/virel-project/go-randomvirel"
	"github.com/virel-project/virel-blockchain/v3/adb"
	"github.com/virel-project/virel-blockchain/v3/address"
	"github.com/virel-project/virel-blockchain/v3/bitcrypto"
	"github.com/virel-project/virel-blockchain/v3/block"
	"github.com/virel-project/virel-blockchain/v3/blockchain"
	"github.com/virel-project/virel-blockchain/v3/chaintype"
	"github.com/virel-project/virel-blockchain/v3/config"
	"github.com/virel-project/virel-blockchain/v3/p2p"
	"github.com/virel-project/virel-blockchain/v3/transaction"
	"github.com/virel-project/virel-blockchain/v3/util"
	"github.com/virel-project/virel-blockchain/v3/util/uint128"
)

type Wallet struct {
	Priv bitcrypto.Privkey
	Pub  bitcrypto.Pubkey
	Addr address.Address
}

func newWallet(seed []byte) *Wallet {
	k := ed25519.NewKeyFromSeed(seed)
	w := &Wallet{}
	copy(w.Priv[:], k)
	w.Pub = w.Priv.Public()
	w.Addr = address.FromPubKey(w.Pub)
	return w
}

// Ids renumbers hashes, keys and addresses densely (the model never looks inside them).
//   hash id: 0 = all-zero hash
//   key id k >= 1 ; address of key k = 2k+1 ; delegate address of id d = 2d (d=0: burn address)
type Ids struct {
	hash   map[util.Hash]uint64
	addr   map[address.Address]uint64 // -> key id
	cmEq   map[string]uint64
	cmDup  map[string]uint64
	names  map[string]uint64
	nextH  uint64
	nextK  uint64
}

func newIds() *Ids {
	return &Ids{hash: map[util.Hash]uint64{{}: 0}, addr: map[address.Address]uint64{}, cmEq: map[string]uint64{},
		cmDup: map[string]uint64{}, names: map[string]uint64{}, nextH: 1, nextK: 1}
}
func (i *Ids) H(h util.Hash) uint64 {
	if v, ok := i.hash[h]; ok {
		return v
	}
	i.hash[h] = i.nextH
	i.nextH++
	return i.nextH - 1
}
func (i *Ids) keyOfAddr(a address.Address) uint64 {
	if v, ok := i.addr[a]; ok {
		return v
	}
	i.addr[a] = i.nextK
	i.nextK++
	return i.nextK - 1
}
func (i *Ids) Key(p bitcrypto.Pubkey) uint64 { return i.keyOfAddr(address.FromPubKey(p)) }
func (i *Ids) Addr(a address.Address) string {
	if a.IsDelegate() {
		// 2*d as a decimal string (d up to 2^64-1)
		d := a.DecodeDelegateId()
		if d < 1<<63 {
			return fmt.Sprintf("%d", 2*d)
		}
		return fmt.Sprintf("(2 * %d)", d)
	}
	return fmt.Sprintf("%d", 2*i.keyOfAddr(a)+1)
}
func (i *Ids) Name(n []byte) uint64 {
	if v, ok := i.names[string(n)]; ok {
		return v
	}
	i.names[string(n)] = uint64(len(i.names) + 1)
	return i.names[string(n)]
}
func dense(m map[string]uint64, k string) uint64 {
	if v, ok := m[k]; ok {
		return v
	}
	m[k] = uint64(len(m) + 1)
	return m[k]
}

// TNode is a block of the generated tree.
type TNode struct {
	Block  *block.Block
	Txs    []*transaction.Transaction
	TxMeta []TxMeta
	Hash   util.Hash
	Raw    []byte // wire form
	Parent *TNode
	Snap   *memdb.DB // builder database with this block as main tip (nil for invalid blocks)
	Valid  bool
	Pow    uint128.Uint128
	SidePow []uint128.Uint128
	SigKey uint64 // key id that produced the stake signature (0 = none / garbage)
	SigMsg util.Hash
	Note   string
}

type TxMeta struct {
	SigBy  uint64 // key id that signed (0 = garbage)
	MsgOK  bool
	Note   string
}

type World struct {
	rng     *hutil.Rng
	ids     *Ids
	wallets []*Wallet
	bc      *blockchain.Blockchain // one Blockchain value; its DB field is swapped between databases
	genesis *TNode
	nodes   []*TNode
	byHash  map[util.Hash]*TNode
	tsBase  uint64
	forceKind   int // when non-zero genTxs produces one transaction of this kind by wallet forceWallet (if possible)
	forceWallet int
	forceFullUnstake bool // a generated unstake takes the whole fund
	forceZeroOut bool   // the first output of a generated transfer has amount 0
	forceCorrupt string // when set, the first generated transaction carries this corruption
}

var sharedBC *blockchain.Blockchain

func getBC(db adb.DB) *blockchain.Blockchain {
	if sharedBC == nil {
		blockchain.Log.SetLogLevel(0)
		randomvirel.InitHash(4, false)
		sharedBC = blockchain.New("/nonexistent-verif-datadir", db)
		sharedBC.P2P = &p2p.P2P{Connections: map[string]*p2p.Connection{}}
		sharedBC.Stratum = nil
		// no goroutine of the validator may drain its queues behind the harness' back (VerifDeliverBatch runs the
		// post-processor itself)
		sharedBC.Validator.Close()
	}
	return sharedBC
}

// freshDB returns a database holding only the genesis block.
func (w *World) freshDB() *memdb.DB {
	return w.genesis.Snap.Snapshot()
}

var genesisDB *memdb.DB

// initShared creates the single Blockchain value and remembers the genesis-only database.
func initShared() {
	db := memdb.New()
	getBC(db)
	genesisDB = db.Snapshot()
}

func worldFromShared(rng *hutil.Rng, nw int) *World {
	w := &World{rng: rng, ids: newIds(), byHash: map[util.Hash]*TNode{}, bc: sharedBC}
	for i := 0; i < nw; i++ {
		seed := make([]byte, 32)
		binary.LittleEndian.PutUint64(seed, uint64(i+1)*0x1234567)
		w.wallets = append(w.wallets, newWallet(seed))
		w.ids.Key(w.wallets[i].Pub)
	}
	snap := genesisDB.Snapshot()
	w.bc.DB = snap
	var g *block.Block
	snap.View(func(txn adb.Txn) error {
		var err error
		g, err = w.bc.GetBlockByHeight(txn, 0)
		if err != nil {
			panic(err)
		}
		return nil
	})
	w.genesis = &TNode{Block: g, Hash: g.Hash(), Snap: snap, Valid: true}
	w.ids.H(w.genesis.Hash)
	w.nodes = []*TNode{w.genesis}
	w.byHash[w.genesis.Hash] = w.genesis
	w.tsBase = 1_000_000
	return w
}

func (w *World) walletOfKey(p bitcrypto.Pubkey) *Wallet {
	for _, x := range w.wallets {
		if x.Pub == p {
			return x
		}
	}
	return nil
}

// ---- reading a database through the real node code ----

type View struct {
	w   *World
	txn adb.Txn
}

func (w *World) view(db *memdb.DB, f func(v *View)) {
	w.bc.DB = db
	db.View(func(txn adb.Txn) error {
		f(&View{w, txn})
		return nil
	})
}
func (v *View) Stats() *blockchain.Stats { return v.w.bc.GetStats(v.txn) }
func (v *View) State(a address.Address) *chaintype.State {
	s, err := v.w.bc.GetState(v.txn, a)
	if err != nil {
		return &chaintype.State{}
	}
	return s
}
func (v *View) Delegate(id uint64) *chaintype.Delegate {
	d, err := v.w.bc.GetDelegate(v.txn, id)
	if err != nil {
		return nil
	}
	return d
}
func (v *View) Block(h util.Hash) *block.Block {
	b, err := v.w.bc.GetBlock(v.txn, h)
	if err != nil {
		return nil
	}
	return b
}

var _ = config.COIN
