package main

import (
	"encoding/binary"
	"encoding/hex"
	"fmt"

	"github.com/virel-project/virel-blockchain/v3/address"
	"github.com/virel-project/virel-blockchain/v3/bitcrypto"
	"github.com/virel-project/virel-blockchain/v3/checkpoints"
	"github.com/virel-project/virel-blockchain/v3/config"
	"github.com/virel-project/virel-blockchain/v3/transaction"
	"github.com/zeebo/blake3"
)

func b2s(b bool) string {
	if b {
		return "true"
	}
	return "false"
}

// byteList prints a string as a Coq list of byte codes without needing list notations
func byteList(s string) string {
	out := "nil"
	for i := len(s) - 1; i >= 0; i-- {
		out = fmt.Sprintf("(cons %d %s)", s[i], out)
	}
	return out
}

func extraImpl(p func(string, any)) {
	p("base_overhead", uint64(transaction.VerifBaseOverhead))
	p("output_overhead", uint64(transaction.VerifOutputOverhead))
	p("max_tx_size", uint64(transaction.VerifMaxTxSize))
	p("max_tx_version", uint64(transaction.MAX_TX_VERSION))
	p("addr_size", uint64(address.SIZE))
	p("pubkey_size", uint64(bitcrypto.PUBKEY_SIZE))
	p("signature_size", uint64(bitcrypto.SIGNATURE_SIZE))
	p("wallet_prefix", byteList(config.WALLET_PREFIX))
	p("delegate_prefix", byteList(config.DELEGATE_ADDRESS_PREFIX))
	bin := checkpoints.VerifBin()
	p("cp_bin_len", uint64(len(bin)))
	p("cp_interval", checkpoints.CheckpointInterval)
	p("cp_max", checkpoints.MaxCheckpoint)
	hdr := uint64(0)
	if len(bin) >= 4 {
		hdr = uint64(binary.LittleEndian.Uint32(bin))
	}
	p("cp_bin_header", hdr)
	digOK := true
	if len(bin) != 0 || checkpoints.CHECKPOINTS_BLAKE3 != "" {
		h := blake3.Sum256(bin)
		digOK = hex.EncodeToString(h[:]) == checkpoints.CHECKPOINTS_BLAKE3
	}
	p("cp_digest_ok", b2s(digOK))
}
