package main

func extra(p func(string, any)) { extraImpl(p) }
