// paramdump prints the constants of the current build configuration of /repo as a Coq record.
// Values are evaluated by the Go compiler; nothing is parsed.
package main

import (
	"fmt"
	"os"

	"github.com/virel-project/virel-blockchain/v3/config"
)

func main() {
	name := os.Args[1]
	p := func(k string, v any) { fmt.Printf("  %s := %v;\n", k, v) }
	fmt.Printf("Definition cfg_%s : config := {|\n", name)
	p("coin", uint64(config.COIN))
	p("block_reward", uint64(config.BLOCK_REWARD))
	p("reduction_interval", uint64(config.REDUCTION_INTERVAL))
	p("max_supply", uint64(config.MAX_SUPPLY))
	p("max_height", uint64(config.MAX_HEIGHT))
	p("fee_percent", uint64(config.BLOCK_REWARD_FEE_PERCENT))
	p("fee_per_byte", uint64(config.FEE_PER_BYTE))
	p("fee_per_byte_v2", uint64(config.FEE_PER_BYTE_V2))
	p("min_difficulty", uint64(config.MIN_DIFFICULTY))
	p("difficulty_n", uint64(config.DIFFICULTY_N))
	p("target_block_time", uint64(config.TARGET_BLOCK_TIME))
	p("genesis_timestamp", uint64(config.GENESIS_TIMESTAMP))
	p("future_time_limit", uint64(config.FUTURE_TIME_LIMIT))
	p("network_id", uint64(config.NETWORK_ID))
	p("hf_v2", uint64(config.HARDFORK_V2_HEIGHT))
	p("hf_v3", uint64(config.HARDFORK_V3_HEIGHT))
	p("min_stake", uint64(config.MIN_STAKE_AMOUNT))
	p("register_burn", uint64(config.REGISTER_DELEGATE_BURN))
	p("unlock_time", uint64(config.STAKE_UNLOCK_TIME))
	p("minidag_ancestors", uint64(config.MINIDAG_ANCESTORS))
	p("max_side_blocks", uint64(config.MAX_SIDE_BLOCKS))
	p("max_tx_per_block", uint64(config.MAX_TX_PER_BLOCK))
	p("max_block_size", uint64(config.MAX_BLOCK_SIZE))
	p("max_outputs", uint64(config.MAX_OUTPUTS))
	p("max_mm_chains", uint64(config.MAX_MERGE_MINED_CHAINS))
	p("seedhash_duration", uint64(config.SEEDHASH_DURATION))
	p("stratum_jobs_history", uint64(config.STRATUM_JOBS_HISTORY))
	p("parallel_blocks", uint64(config.PARALLEL_BLOCKS_DOWNLOAD))
	extra(p)
	fmt.Printf("  cfg_end := tt |}.\n\n")
}
