// walletc: harness of property C19 (wallet: mnemonic restore, wallet file, transaction builders).
// usage: walletc <family> <outdir>
//        walletc open <hexfile> <hexpass> <memlimit-bytes>   (child process: one OpenWallet under a memory limit)
package main

import (
	"fmt"
	"os"
)

var families = map[string]func(out string){}

func main() {
	if len(os.Args) >= 2 && os.Args[1] == "open" {
		childOpen(os.Args[2:])
		return
	}
	if len(os.Args) < 3 {
		fmt.Println("usage: walletc <family> <outdir>")
		os.Exit(2)
	}
	f, ok := families[os.Args[1]]
	if !ok {
		fmt.Println("unknown family", os.Args[1])
		os.Exit(2)
	}
	f(os.Args[2])
}
