package main

import (
	"strings"
	"bytes"
	crand "crypto/rand"
	"encoding/binary"
	"encoding/hex"
	"fmt"
	"os"
	"strconv"
	"time"

	"verifharness/coqgen"
	"verifharness/hutil"

	bip39 "github.com/tyler-smith/go-bip39"
	"github.com/virel-project/virel-blockchain/v3/address"
	"github.com/virel-project/virel-blockchain/v3/config"
	"github.com/virel-project/virel-blockchain/v3/wallet"
)

func init() { families["c19"] = c19 }

const rpcAddr = "127.0.0.1:1" // never contacted: the builders and the file functions do not use the daemon

// Specification-level bound on what a wallet file header may ask for before the password is checked
// (iterations, KiB, iterations*KiB).  A header asking for more must be refused promptly: the harness gives
// such a call a short time limit in a child process and classifies no answer as Hang, a dead process as Crash.
const (
	specMaxTime = 4096
	specMaxMem  = 1 << 20
	specMaxCost = 1 << 26
	cheapCost   = 1 << 22 // parameter sets up to this cost (about 1.3 x a default wallet) are run in the quick tier
	childMem    = 3 << 30 // RLIMIT_AS of a child process
)

func specAccept(t, m uint32) bool {
	return t >= 1 && t <= specMaxTime && m <= specMaxMem && uint64(t)*uint64(m) <= specMaxCost
}

// detReader replaces crypto/rand.Reader: scripted bytes first (the entropy CreateWallet draws), then the harness PRNG.
type detReader struct {
	rng    *hutil.Rng
	script []byte
}

func (d *detReader) Read(p []byte) (int, error) {
	for i := range p {
		if len(d.script) > 0 {
			p[i] = d.script[0]
			d.script = d.script[1:]
		} else {
			p[i] = byte(d.rng.U64())
		}
	}
	return len(p), nil
}

type env struct {
	sink     *coqgen.Sink
	thorough bool
	shard    int
	nshards  int
	next     int
	det      *detReader
	skipped  map[string]int
}

// mine reports whether the next work item belongs to this process
func (e *env) mine() bool {
	i := e.next
	e.next++
	return i%e.nshards == e.shard
}

func envInt(name string, def int) int {
	if v, err := strconv.Atoi(os.Getenv(name)); err == nil {
		return v
	}
	return def
}

func c19(out string) {
	e := &env{thorough: hutil.Tier() == "thorough", shard: envInt("VERIF_SHARD", 0), nshards: envInt("VERIF_NSHARDS", 1), skipped: map[string]int{}}
	if e.nshards < 1 {
		e.nshards = 1
	}
	e.sink = coqgen.NewSink(out, fmt.Sprintf("c19s%d", e.shard), "c19_case", 400)
	e.det = &detReader{rng: hutil.NewRng(19)}
	crand.Reader = e.det
	full := config.NETWORK_NAME != "verifnet" // the second configuration only adds the middle height regime of the builders
	if full {
		e.partRestore()
		e.partFiles()
		e.partCorpus()
	}
	e.partTx()
	e.sink.Meta["skipped_slow_parameter_sets"] = e.skipped
	e.sink.Meta["rule"] = "restore: entropies (zero, ones, single bits, random, other BIP-39 lengths) through newMnemonic/decodeMnemonic and through CreateWallet (scripted crypto/rand) -> CreateWalletFromMnemonic -> OpenWallet of both files; " +
		"file: OpenWallet on files written with explicit and with the API's Argon2 parameters: right/wrong passwords, every bit of the 24 header bytes, sampled ciphertext bits, every truncation, extensions, header/ciphertext swaps, parameter edges, headers asking for more than the specification bound run in a child process under RLIMIT_AS with a time limit; " +
		"tx: requests through Wallet.Transfer/RegisterDelegate/SetDelegate/Stake/Unstake (1..40 outputs, duplicate destinations, balances exact/short/ample, boundary and malformed stream) checked with Transaction.Prevalidate at the regime's height. A class is (part, generator, shape, outcome)."
	if err := e.sink.Close(); err != nil {
		panic(err)
	}
}

// ------------------------------------------------------------------ part (a): create -> mnemonic -> restore

func (e *env) partRestore() {
	nlow, napi := 400, 16
	if e.thorough {
		nlow, napi = 4000, 160
	}
	for i := 0; i < nlow; i++ {
		if !e.mine() {
			continue
		}
		rng := hutil.NewRng(1000 + uint64(i))
		ent := make([]byte, wallet.SEED_ENTROPY)
		gen := "random"
		switch {
		case i == 0:
			gen = "zero"
		case i == 1:
			gen = "ones"
			for k := range ent {
				ent[k] = 0xff
			}
		case i < 2+8*wallet.SEED_ENTROPY:
			gen = "onebit"
			ent[(i-2)/8] = 1 << uint((i-2)%8)
		case i%25 == 0:
			gen = "otherlen"
			ent = rng.Bytes([]int{16, 20, 28, 32}[rng.Intn(4)])
		default:
			ent = rng.Bytes(wallet.SEED_ENTROPY)
		}
		var mn string
		var samePriv, sameAddr, samePub, sameMnem bool
		panicked := catch(func() {
			m, priv := wallet.VerifNewMnemonic(ent)
			mn = m
			priv2, err := wallet.VerifDecodeMnemonic(m)
			samePriv = err == nil && priv == priv2
			sameAddr = err == nil && address.FromPubKey(priv.Public()) == address.FromPubKey(priv2.Public())
			samePub = err == nil && priv.Public() == priv2.Public()
			e2, err2 := bip39.EntropyFromMnemonic(m) // the library law the Coq statement assumes
			sameMnem = err2 == nil && bytes.Equal(e2, ent)
		})
		ok := !panicked && samePriv && sameAddr && samePub && sameMnem
		e.sink.Add(fmt.Sprintf("CRestore %d %s %s %s %s true", i, coqgen.Bool(samePriv), coqgen.Bool(sameAddr), coqgen.Bool(samePub), coqgen.Bool(sameMnem)),
			fmt.Sprintf("restore/lowlevel/%s/len=%d/ok=%v", gen, len(ent), ok),
			map[string]any{"kind": "restore-lowlevel", "entropy": hex.EncodeToString(ent), "mnemonic": mn, "same_priv": samePriv, "entropy_roundtrip": sameMnem, "panic": panicked})
	}
	for i := 0; i < napi; i++ {
		if !e.mine() {
			continue
		}
		rng := hutil.NewRng(2000 + uint64(i))
		ent := rng.Bytes(wallet.SEED_ENTROPY)
		gen := "random"
		if i == 0 {
			gen, ent = "zero", make([]byte, wallet.SEED_ENTROPY)
		} else if i-1 < len(witnessEntropies) {
			gen = "witness"
			ent, _ = hex.DecodeString(witnessEntropies[i-1])
		}
		pass1, pass2 := passwords[i%len(passwords)], passwords[(i+3)%len(passwords)]
		var samePriv, sameAddr, samePub, sameMnem, reopen, scripted bool
		panicked := catch(func() {
			e.det.script = append([]byte{}, ent...)
			w1, f1, err := wallet.CreateWallet(rpcAddr, pass1, true)
			if err != nil {
				return
			}
			mn, _ := wallet.VerifNewMnemonic(ent)
			scripted = w1.GetMnemonic() == mn // CreateWallet used the scripted entropy
			w2, f2, err := wallet.CreateWalletFromMnemonic(rpcAddr, w1.GetMnemonic(), pass2, true)
			if err != nil {
				return
			}
			samePriv = w1.VerifPrivateKey() == w2.VerifPrivateKey()
			sameAddr = w1.GetAddress() == w2.GetAddress()
			samePub = w1.GetPubKey() == w2.GetPubKey()
			sameMnem = w1.GetMnemonic() == w2.GetMnemonic()
			r1, r2 := openInProcess(f1, pass1), openInProcess(f2, pass2)
			want := resultOf(w1)
			reopen = r1 == want && r2 == want
		})
		ok := !panicked && scripted && samePriv && sameAddr && samePub && sameMnem && reopen
		e.sink.Add(fmt.Sprintf("CRestore %d %s %s %s %s %s", 100000+i, coqgen.Bool(samePriv && scripted), coqgen.Bool(sameAddr), coqgen.Bool(samePub), coqgen.Bool(sameMnem), coqgen.Bool(reopen)),
			fmt.Sprintf("restore/api/%s/priv=%v/addr=%v/pub=%v/mnem=%v/reopen=%v", gen, samePriv && scripted, sameAddr, samePub, sameMnem, reopen),
			map[string]any{"kind": "restore-api", "entropy": hex.EncodeToString(ent), "pass_create": pass1, "pass_restore": pass2,
				"same_priv": samePriv, "same_addr": sameAddr, "same_pub": samePub, "same_mnemonic": sameMnem, "reopened_same": reopen, "scripted_entropy_used": scripted, "panic": panicked, "ok": ok})
	}
}

// entropies kept from findings: the address of this key has a checksum whose first byte is 0 (R7): before the fix of
// the address text form the wallet file just written could not be opened again ("invalid address size: 23")
var witnessEntropies = []string{"bd806f1bc62439d39cd99fc2b43f6bba35a4d9c01de1898e"}

// every pair (written with p, opened with q) is tried: passwords that differ only by a line ending, a space, a NUL, case or
// Unicode normal form must be different passwords on the open path exactly as they are on the write path
var passwords = []string{"pw", "", "correct horse battery staple", "pässwörd ☃", "a", string(bytes.Repeat([]byte("x"), 300)), "pw ", "Pw",
	"pw\n", "pw\r\n", "pw\r", "pw\n\n", "\n", " pw", "pw\x00", "pw\t", "pa\u0308sswo\u0308rd ☃"}

func catch(f func()) (panicked bool) {
	defer func() {
		if recover() != nil {
			panicked = true
		}
	}()
	f()
	return false
}

func resultOf(w *wallet.Wallet) openResult {
	priv, pub := w.VerifPrivateKey(), w.GetPubKey()
	return openResult{Outcome: "ok", Priv: hex.EncodeToString(priv[:]), Pub: hex.EncodeToString(pub[:]), Addr: w.GetAddress().String(), Mnem: w.GetMnemonic()}
}

// ------------------------------------------------------------------ part (b): wallet files

type baseFile struct {
	name string
	data []byte
	pass string
	want openResult // what the writer holds
}

func hdrOf(f []byte) []byte {
	if len(f) > 24 {
		return f[:24]
	}
	return f
}

func params(f []byte) (uint32, uint32) {
	return binary.LittleEndian.Uint32(f[16:]), binary.LittleEndian.Uint32(f[20:])
}

// openCase runs one OpenWallet on `file` (derived from base) and records it.
func (e *env) openCase(base baseFile, file []byte, pass string, gen string) {
	ctSame := len(file) >= 24 && len(base.data) >= 24 && bytes.Equal(file[24:], base.data[24:])
	e.openCaseX(base, hdrOf(base.data), ctSame, file, pass, gen)
}

func (e *env) openCaseX(base baseFile, origHdr []byte, ctSame bool, file []byte, pass string, gen string) {
	pwSame := pass == base.pass
	where := "inprocess"
	var r openResult
	cls, msg := -1, ""
	if len(file) >= 24 {
		t, m := params(file)
		cost := uint64(t) * uint64(m)
		switch {
		case specAccept(t, m) && cost > cheapCost && !e.thorough:
			e.skipped[fmt.Sprintf("time=%d/mem=%d", t, m)]++
			return
		case !specAccept(t, m):
			// must be refused before any work: short time limit
			where = "child"
			to := 4 * time.Second
			if e.thorough {
				to = 15 * time.Second
			}
			r, cls, msg = openInChild(file, pass, childMem, to)
		case m > 1<<16 || cost > cheapCost:
			where = "child"
			r, cls, msg = openInChild(file, pass, childMem, 600*time.Second)
		default:
			r = openInProcess(file, pass)
		}
	} else {
		r = openInProcess(file, pass)
	}
	if cls < 0 {
		switch r.Outcome {
		case "ok":
			r.Msg = ""
			if r == base.want {
				cls = OkSame
			} else {
				cls = OkDiff
			}
		case "err":
			cls = ErrOut
		default:
			cls, msg = Panic, r.Msg
		}
	}
	hdr := hdrOf(file)
	shape := "short"
	if len(file) >= 24 {
		t, m := params(file)
		shape = fmt.Sprintf("hdr=%v/ct=%v/pw=%v/spec=%v", bytes.Equal(hdr, origHdr), ctSame, pwSame, specAccept(t, m))
	}
	if gen == "intact" && strings.HasPrefix(base.name, "api-") {
		// a file exactly as the wallet API wrote it (its own choice of key-derivation parameters), opened with its password
		e.sink.Add(fmt.Sprintf("CApi %s %d %d", coqgen.PackBytes(hdr), len(file), cls),
			fmt.Sprintf("api/%s/%s", base.name, []string{"ok-same", "ok-different", "err", "panic", "crash", "hang"}[cls]),
			map[string]any{"kind": "api-written file", "base": base.name, "header": hex.EncodeToString(hdr), "password": pass,
				"outcome": []string{"ok-same-key", "ok-different-key", "err", "panic", "process-died", "no-answer"}[cls], "detail": msg, "run": where})
	}
	e.sink.Add(fmt.Sprintf("CFile %s %d %s %s %s %d", coqgen.PackBytes(hdr), len(file), coqgen.PackBytes(origHdr), coqgen.Bool(ctSame), coqgen.Bool(pwSame), cls),
		fmt.Sprintf("file/%s/%s/%s/%s", base.name, gen, shape, []string{"ok-same", "ok-different", "err", "panic", "crash", "hang"}[cls]),
		map[string]any{"kind": "file", "base": base.name, "generator": gen, "file_hex": hex.EncodeToString(file), "password": pass, "written_with_password": base.pass,
			"written_with_header": hex.EncodeToString(origHdr), "outcome": []string{"ok-same-key", "ok-different-key", "err", "panic", "process-died", "no-answer"}[cls],
			"detail": msg, "run": where})
}

func flip(f []byte, bit int) []byte {
	g := append([]byte{}, f...)
	g[bit/8] ^= 1 << uint(bit%8)
	return g
}

func (e *env) partFiles() {
	// the same set-up in every process (deterministic: scripted crypto/rand)
	ent := hutil.NewRng(3000).Bytes(wallet.SEED_ENTROPY)
	mn, _ := wallet.VerifNewMnemonic(ent)
	w, fastFile, err := wallet.CreateWalletFromMnemonic(rpcAddr, mn, "pw", true)
	if err != nil {
		panic(err)
	}
	// CreateWalletFromMnemonic leaves the public key unset in memory; a wallet opened from a file always has it
	want := openInProcess(fastFile, "pw")
	if want.Outcome != "ok" {
		panic("cannot reopen the base wallet: " + want.Msg)
	}
	save := func(name, pass string, t, m uint32) baseFile {
		d, err := w.VerifSaveDatabase(pass, t, m)
		if err != nil {
			panic(err)
		}
		return baseFile{name: name, data: d, pass: pass, want: want}
	}
	small := save("small", "pw", 1, 8)
	small2 := save("small", "pw", 1, 8) // same password and parameters, other salt and nonce
	fast := baseFile{name: "api-fast", data: fastFile, pass: "pw", want: want}

	// --- small file: dense
	if e.mine() {
		e.openCase(small, small.data, "pw", "intact")
	}
	for i, p := range passwords {
		b := save("small", p, 1, 8)
		if e.mine() {
			e.openCase(b, b.data, p, "intact")
		}
		for j, q := range passwords {
			if i != j && e.mine() {
				e.openCase(b, b.data, q, "wrongpw")
			}
		}
	}
	for bit := 0; bit < 24*8; bit++ {
		if e.mine() {
			e.openCase(small, flip(small.data, bit), "pw", hdrField(bit/8))
		}
	}
	nct := 96
	if e.thorough {
		nct = (len(small.data) - 24) * 8
	}
	for k := 0; k < nct; k++ {
		if !e.mine() {
			continue
		}
		bit := 24*8 + k
		if !e.thorough {
			rng := hutil.NewRng(3100 + uint64(k))
			switch {
			case k < 24: // nonce
				bit = 24*8 + rng.Intn(12*8)
			case k < 48: // tag
				bit = (len(small.data)-16)*8 + rng.Intn(16*8)
			default:
				bit = 24*8 + rng.Intn((len(small.data)-24)*8)
			}
		}
		e.openCase(small, flip(small.data, bit), "pw", "flip-ciphertext")
	}
	for n := 0; n < len(small.data); n++ {
		if e.mine() {
			e.openCase(small, small.data[:n], "pw", "truncate")
		}
	}
	for _, extra := range [][]byte{{0}, {1, 2, 3}, bytes.Repeat([]byte{0xff}, 64)} {
		if e.mine() {
			e.openCase(small, append(append([]byte{}, small.data...), extra...), "pw", "extend")
		}
	}
	// header of one file on the ciphertext of the other (same password, same parameters)
	if e.mine() {
		e.openCaseX(small, hdrOf(small.data), true, append(append([]byte{}, hdrOf(small2.data)...), small.data[24:]...), "pw", "swap-header")
	}
	if e.mine() {
		e.openCaseX(small, hdrOf(small.data), false, append(append([]byte{}, hdrOf(small.data)...), small2.data[24:]...), "pw", "swap-ciphertext")
	}
	// crafted headers on the small file: the values R15 is about, and the specification's edges
	crafted := [][2]uint32{{0, 8}, {0, 0}, {1, 0}, {0, 1 << 31}, {1, 1<<20 + 1}, {1, 1<<20 + 8}, {1, 3 << 19}, {1, 1 << 21}, {1, 1 << 31}, {1, 0xffffffff}, {2, 0xffffffff},
		{4097, 8}, {1 << 16, 8}, {1 << 24, 8}, {1 << 31, 8}, {0xffffffff, 8}, {0xffffffff, 0xffffffff}, {4096, 1<<14 + 1}, {65, 1 << 20}, {8192, 8192}, {1 << 16, 1 << 16}}
	for _, c := range crafted {
		if e.mine() {
			g := append([]byte{}, small.data...)
			binary.LittleEndian.PutUint32(g[16:], c[0])
			binary.LittleEndian.PutUint32(g[20:], c[1])
			e.openCase(small, g, "pw", "craft-params")
		}
	}
	// files really written with parameters at the accepted/refused edge of the iteration bound
	for _, c := range [][2]uint32{{2, 8}, {3, 64}, {4096, 8}, {4097, 8}, {5000, 8}} {
		if e.mine() {
			b := save("edge", "pw", c[0], c[1])
			e.openCase(b, b.data, "pw", "intact")
		}
	}
	if e.thorough {
		// memory and cost edges: writing the file needs the memory itself (1 GiB at most)
		for _, c := range [][2]uint32{{1, 1 << 20}, {1, 1<<20 + 1}, {4096, 1 << 14}, {4096, 1<<14 + 1}} {
			if e.mine() {
				b := save("edge", "pw", c[0], c[1])
				e.openCase(b, b.data, "pw", "intact")
			}
		}
	}

	// --- file written by the API with the fast parameter set (a quarter of a second per call): sparse
	if e.mine() {
		e.openCase(fast, fast.data, "pw", "intact")
	}
	if e.mine() {
		e.openCase(fast, fast.data, "pw2", "wrongpw")
	}
	for by := 0; by < 24; by++ {
		for bi := 0; bi < 8; bi++ {
			if !e.thorough && by < 16 && bi != (by*3)%8 {
				continue // one bit per salt byte in the quick tier
			}
			if e.mine() {
				e.openCase(fast, flip(fast.data, by*8+bi), "pw", hdrField(by))
			}
		}
	}
	for k := 0; k < 8; k++ {
		if e.mine() {
			e.openCase(fast, flip(fast.data, 24*8+hutil.NewRng(3200+uint64(k)).Intn((len(fast.data)-24)*8)), "pw", "flip-ciphertext")
		}
	}
	for _, n := range []int{0, 1, 15, 16, 19, 20, 23, 24, 25, 35, 36, 37, 51, 52, 53, len(fast.data) - 17, len(fast.data) - 16, len(fast.data) - 1} {
		if e.mine() {
			e.openCase(fast, fast.data[:n], "pw", "truncate")
		}
	}
	// --- file written by the API with the default parameter set (2.5 s per call): must still open
	if e.mine() {
		e.det.script = append([]byte{}, ent...)
		wd, fd, err := wallet.CreateWallet(rpcAddr, "default pw", false)
		if err != nil {
			panic(err)
		}
		def := baseFile{name: "api-default", data: fd, pass: "default pw", want: resultOf(wd)}
		e.openCase(def, def.data, "default pw", "intact")
	}
	// --- the same for a wallet RESTORED from its mnemonic with the default parameter set (the second place where the
	// API chooses Argon2 parameters): the file it writes must open with its password to the same key
	if e.mine() {
		wr, fr, err := wallet.CreateWalletFromMnemonic(rpcAddr, mn, "restored pw", false)
		if err != nil {
			panic(err)
		}
		_ = wr
		// same mnemonic as the base wallet: the key and address a file-opened wallet reports
		res := baseFile{name: "api-restore-default", data: fr, pass: "restored pw", want: want}
		e.openCase(res, res.data, "restored pw", "intact")
	}
}

func hdrField(by int) string {
	switch {
	case by < 16:
		return "flip-salt"
	case by < 20:
		return "flip-time"
	}
	return "flip-mem"
}
