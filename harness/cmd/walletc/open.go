package main

import (
	"bytes"
	"context"
	"encoding/hex"
	"encoding/json"
	"fmt"
	"os"
	"os/exec"
	"strconv"
	"strings"
	"syscall"
	"time"

	"github.com/virel-project/virel-blockchain/v3/wallet"
)

// outcome classes of one OpenWallet call
const (
	OkSame = 0 // opened, same private key / address / mnemonic as the wallet that wrote the file
	OkDiff = 1 // opened with a different key
	ErrOut = 2 // returned an error
	Panic  = 3 // panicked (caught by recover)
	Crash  = 4 // the process died (Go runtime "out of memory" under the memory limit)
	Hang   = 5 // did not return within the time limit
)

type openResult struct {
	Outcome string `json:"outcome"` // ok | err | panic
	Priv    string `json:"priv,omitempty"`
	Pub     string `json:"pub,omitempty"`
	Addr    string `json:"addr,omitempty"`
	Mnem    string `json:"mnem,omitempty"`
	Msg     string `json:"msg,omitempty"`
}

// openInProcess calls the real wallet.OpenWallet under recover()
func openInProcess(file []byte, pass string) (r openResult) {
	defer func() {
		if e := recover(); e != nil {
			r = openResult{Outcome: "panic", Msg: fmt.Sprint(e)}
		}
	}()
	w, err := wallet.OpenWallet("127.0.0.1:1", file, pass)
	if err != nil {
		return openResult{Outcome: "err", Msg: err.Error()}
	}
	priv := w.VerifPrivateKey()
	pub := w.GetPubKey()
	return openResult{Outcome: "ok", Priv: hex.EncodeToString(priv[:]), Pub: hex.EncodeToString(pub[:]),
		Addr: w.GetAddress().String(), Mnem: w.GetMnemonic()}
}

// childOpen: "walletc open <hexfile> <hexpass> <memlimit>"; sets RLIMIT_AS on itself before touching the file
func childOpen(a []string) {
	if len(a) < 3 {
		os.Exit(2)
	}
	lim, _ := strconv.ParseUint(a[2], 10, 64)
	rl := syscall.Rlimit{Cur: lim, Max: lim}
	if err := syscall.Setrlimit(syscall.RLIMIT_AS, &rl); err != nil {
		fmt.Println(`{"outcome":"nolimit"}`)
		os.Exit(3)
	}
	var chk syscall.Rlimit
	if syscall.Getrlimit(syscall.RLIMIT_AS, &chk) != nil || chk.Cur != lim {
		fmt.Println(`{"outcome":"nolimit"}`)
		os.Exit(3)
	}
	file, _ := hex.DecodeString(a[0])
	pass, _ := hex.DecodeString(a[1])
	b, _ := json.Marshal(openInProcess(file, string(pass)))
	fmt.Println(string(b))
}

// openInChild runs one OpenWallet in a child process with an address-space limit and a time limit.
// The harness itself never allocates what the file header asks for.
func openInChild(file []byte, pass string, memLimit uint64, timeout time.Duration) (openResult, int, string) {
	ctx, cancel := context.WithTimeout(context.Background(), timeout)
	defer cancel()
	cmd := exec.CommandContext(ctx, os.Args[0], "open", hex.EncodeToString(file), hex.EncodeToString([]byte(pass)), strconv.FormatUint(memLimit, 10))
	var so, se bytes.Buffer
	cmd.Stdout, cmd.Stderr = &so, &se
	err := cmd.Run()
	if ctx.Err() == context.DeadlineExceeded {
		return openResult{}, Hang, "timeout"
	}
	var r openResult
	if json.Unmarshal(bytes.TrimSpace(so.Bytes()), &r) == nil && r.Outcome != "" && r.Outcome != "nolimit" {
		return r, -1, ""
	}
	if r.Outcome == "nolimit" {
		panic("child could not set its memory limit")
	}
	msg := se.String()
	if i := strings.Index(msg, "\n"); i > 0 {
		msg = msg[:i]
	}
	_ = err
	return openResult{}, Crash, msg
}
