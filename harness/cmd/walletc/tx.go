package main

import (
	"fmt"
	"strings"

	"verifharness/coqgen"
	"verifharness/hutil"

	"github.com/virel-project/virel-blockchain/v3/address"
	"github.com/virel-project/virel-blockchain/v3/bitcrypto"
	"github.com/virel-project/virel-blockchain/v3/chaintype"
	"github.com/virel-project/virel-blockchain/v3/config"
	"github.com/virel-project/virel-blockchain/v3/transaction"
	"github.com/virel-project/virel-blockchain/v3/wallet"
)

// ------------------------------------------------------------------ part (c): the transaction builders

const feeRate = uint64(config.FEE_PER_BYTE_V2)

type txEnv struct {
	w    *wallet.Wallet
	self address.Address
	pool []address.Address // other recipients
	ids  map[address.Address]uint64
}

// addrId renumbers addresses as Model/Ledger.v does: key k -> 2k+1, delegate d -> 2d (0 = burn address)
func (t *txEnv) addrId(a address.Address) uint64 {
	if a == t.self {
		return 3 // the wallet's key is number 1
	}
	if a.IsDelegate() || a == address.INVALID_ADDRESS {
		return 2 * a.DecodeDelegateId()
	}
	if v, ok := t.ids[a]; ok {
		return v
	}
	v := 2*uint64(len(t.ids)+10) + 1
	t.ids[a] = v
	return v
}

func nameNum(name []byte) uint64 {
	var h uint64 = 1469598103934665603
	for _, c := range name {
		h = (h ^ uint64(c)) * 1099511628211
	}
	return h % 1000003
}

type req struct {
	kind       string // transfer | register | setdelegate | stake | unstake
	outs       []transaction.Output
	hasVersion bool
	name       string
	id, prev   uint64
	amount     uint64
	prevUnlock uint64
}

func (t *txEnv) reqTerm(r req) string {
	switch r.kind {
	case "transfer":
		items := make([]string, len(r.outs))
		for i, o := range r.outs {
			items[i] = fmt.Sprintf("mkwout %d %d %d", t.addrId(o.Recipient), o.PaymentId, o.Amount)
		}
		return fmt.Sprintf("(RTransfer %s %s)", coqgen.List(items), coqgen.Bool(r.hasVersion))
	case "register":
		return fmt.Sprintf("(RRegister %d %d %d)", len(r.name), nameNum([]byte(r.name)), r.id)
	case "setdelegate":
		return fmt.Sprintf("(RSetDelegate %d %d)", r.id, r.prev)
	case "stake":
		return fmt.Sprintf("(RStake %d %d %d)", r.id, r.amount, r.prevUnlock)
	}
	return fmt.Sprintf("(RUnstake %d %d)", r.id, r.amount)
}

func (t *txEnv) dataTerm(d transaction.TransactionData) (string, string) {
	switch x := d.(type) {
	case *transaction.Transfer:
		items, pids := make([]string, len(x.Outputs)), make([]string, len(x.Outputs))
		for i, o := range x.Outputs {
			items[i] = coqgen.Pair(coqgen.N(t.addrId(o.Recipient)), coqgen.N(o.Amount))
			pids[i] = coqgen.N(o.PaymentId)
		}
		return "(TTransfer " + coqgen.List(items) + ")", coqgen.List(pids)
	case *transaction.RegisterDelegate:
		return fmt.Sprintf("(TRegister %d %d %d)", len(x.Name), nameNum(x.Name), x.Id), "[]"
	case *transaction.SetDelegate:
		return fmt.Sprintf("(TSetDelegate %d %d)", x.DelegateId, x.PreviousDelegate), "[]"
	case *transaction.Stake:
		return fmt.Sprintf("(TStake %d %d %d)", x.Amount, x.DelegateId, x.PrevUnlock), "[]"
	case *transaction.Unstake:
		return fmt.Sprintf("(TUnstake %d %d)", x.Amount, x.DelegateId), "[]"
	}
	panic("unknown transaction data")
}

// vsize the wallet will charge for (generation only: to place balances exactly at / just below the need)
func (r req) vsize(merged int) uint64 {
	base := uint64(transaction.VerifBaseOverhead)
	switch r.kind {
	case "transfer":
		return base + uint64(merged)*uint64(transaction.VerifOutputOverhead)
	case "register":
		return base + 16 + uint64(len(r.name))
	case "setdelegate":
		return base + config.MAX_TX_PER_BLOCK
	case "stake":
		return base + 256
	}
	return base + 8
}

func mergedCount(outs []transaction.Output) int {
	type k struct {
		a address.Address
		p uint64
	}
	m := map[k]bool{}
	for _, o := range outs {
		m[k{o.Recipient, o.PaymentId}] = true
	}
	return len(m)
}

func (e *env) partTx() {
	n := 3000
	if config.NETWORK_NAME == "verifnet" {
		n = 1200
	}
	if e.thorough {
		n *= 10
	}
	n *= max(1, envInt("VERIF_BUDGET", 1))
	ent := hutil.NewRng(4000).Bytes(wallet.SEED_ENTROPY)
	mn, _ := wallet.VerifNewMnemonic(ent)
	w, _, err := wallet.CreateWalletFromMnemonic(rpcAddr, mn, "pw", true)
	if err != nil {
		panic(err)
	}
	t := &txEnv{w: w, self: w.GetAddress().Addr, ids: map[address.Address]uint64{}}
	prng := hutil.NewRng(4001)
	for i := 0; i < 12; i++ {
		var pk bitcrypto.Pubkey
		copy(pk[:], prng.Bytes(32))
		t.pool = append(t.pool, address.FromPubKey(pk))
		t.addrId(t.pool[i])
	}
	for i := 0; i < n; i++ {
		if !e.mine() {
			continue
		}
		e.oneTx(t, i)
	}
}

type regime struct {
	name    string
	heights []uint64
}

func regimes() []regime {
	var rs []regime
	v2, v3 := uint64(config.HARDFORK_V2_HEIGHT), uint64(config.HARDFORK_V3_HEIGHT)
	if v2 > 0 {
		rs = append(rs, regime{"pre", []uint64{0, v2 - 1}})
	}
	if v2 < v3 {
		rs = append(rs, regime{"mid", []uint64{v2, v3 - 1}})
	}
	rs = append(rs, regime{"post", []uint64{v3, v3 + 1, v3 + 1000000, 1 << 40}})
	return rs
}

func (e *env) oneTx(t *txEnv, i int) {
	rng := hutil.NewRng(5000 + uint64(i))
	rs := regimes()
	rg := rs[rng.Intn(len(rs))]
	if rng.Intn(3) > 0 {
		rg = rs[len(rs)-1]
	}
	height := rg.heights[rng.Intn(len(rg.heights))]
	var r req
	gen := "valid"
	boundary := rng.Intn(4) == 0 // the boundary / malformed stream
	kinds := []string{"transfer", "transfer", "transfer", "register", "setdelegate", "stake", "unstake"}
	r.kind = kinds[rng.Intn(len(kinds))]
	if rg.name != "post" && rng.Intn(8) > 0 {
		r.kind = "transfer"
	}
	r.hasVersion = rg.name != "pre"
	if rng.Intn(12) == 0 {
		r.hasVersion = !r.hasVersion
		if r.kind == "transfer" {
			gen = "wrong-regime"
		}
	}
	if r.kind != "transfer" && rg.name != "post" {
		gen = "wrong-regime"
	}
	pickAddr := func() address.Address {
		switch rng.Intn(14) {
		case 0:
			return address.NewDelegateAddress(uint64(rng.Intn(3)))
		default:
			return t.pool[rng.Intn(1+rng.Intn(len(t.pool)))]
		}
	}
	var need uint64 // what the request moves out of the wallet's balance, without the fee
	overflow := false
	switch r.kind {
	case "transfer":
		n := 1 + rng.Intn(6)
		switch rng.Intn(6) {
		case 0:
			n = 1
		case 1:
			n = 28 + rng.Intn(13) // around MAX_OUTPUTS, before merging
		}
		npid := 1 + rng.Intn(3)
		for k := 0; k < n; k++ {
			amt := rng.UpTo(1000 * config.COIN)
			switch rng.Intn(10) {
			case 0:
				amt = 0
			case 1:
				amt = uint64(rng.Intn(3))
			}
			r.outs = append(r.outs, transaction.Output{Recipient: pickAddr(), PaymentId: uint64(rng.Intn(npid)), Amount: amt})
		}
		if boundary {
			switch rng.Intn(7) {
			case 0:
				gen = "self-transfer"
				r.outs[rng.Intn(len(r.outs))].Recipient = t.self
			case 1:
				gen = "no-outputs"
				r.outs = nil
			case 2:
				gen = "many-distinct"
				r.outs = nil
				for k := 0; k < 31+rng.Intn(4); k++ {
					r.outs = append(r.outs, transaction.Output{Recipient: t.pool[k%len(t.pool)], PaymentId: uint64(k / len(t.pool)), Amount: rng.UpTo(config.COIN)})
				}
			case 3:
				gen = "huge-amounts"
				for k := range r.outs {
					r.outs[k].Amount = rng.Interesting()
				}
			case 4:
				gen = "all-same-destination"
				for k := range r.outs {
					r.outs[k].Recipient, r.outs[k].PaymentId = r.outs[0].Recipient, r.outs[0].PaymentId
				}
			case 5:
				gen = "near-max-total"
				r.outs = r.outs[:1]
				r.outs[0].Amount = ^uint64(0) - rng.UpTo(3*feeRate*r.vsize(1))
			}
		}
		for _, o := range r.outs {
			if need+o.Amount < need {
				overflow = true
			}
			need += o.Amount
		}
	case "register":
		r.name = strings.Repeat("n", rng.Intn(17))
		r.id = 2 + rng.UpTo(1000)
		need = config.REGISTER_DELEGATE_BURN
		if boundary {
			switch rng.Intn(4) {
			case 0:
				gen, r.name = "long-name", strings.Repeat("n", 17+rng.Intn(40))
			case 1:
				gen, r.id = "id-zero", 0
			case 2:
				gen, r.id = "id-one", 1
			case 3:
				gen, r.id = "id-huge", rng.Interesting()
			}
		}
	case "setdelegate":
		r.id, r.prev = rng.UpTo(20), rng.UpTo(20)
		if boundary {
			gen, r.id, r.prev = "ids-huge", rng.Interesting(), rng.Interesting()
		}
	case "stake":
		r.id, r.prevUnlock = rng.UpTo(20), rng.UpTo(1000)
		r.amount = config.MIN_STAKE_AMOUNT + rng.UpTo(5000*config.COIN)
		if boundary {
			switch rng.Intn(4) {
			case 0:
				gen, r.amount = "min-stake", config.MIN_STAKE_AMOUNT
			case 1:
				gen, r.amount = "below-min-stake", config.MIN_STAKE_AMOUNT-1-rng.UpTo(3)
			case 2:
				gen, r.amount = "huge-stake", ^uint64(0)-rng.UpTo(2*feeRate*r.vsize(0))
			case 3:
				gen, r.amount = "interesting-stake", rng.Interesting()
			}
		}
		need = r.amount
	case "unstake":
		r.id = rng.UpTo(20)
		fee := feeRate * r.vsize(0)
		r.amount = fee + rng.UpTo(5000*config.COIN)
		if boundary {
			switch rng.Intn(4) {
			case 0:
				gen, r.amount = "unstake-equals-fee", fee
			case 1:
				gen, r.amount = "unstake-below-fee", fee-1-rng.UpTo(3)
			case 2:
				gen, r.amount = "unstake-zero", 0
			case 3:
				gen, r.amount = "unstake-huge", ^uint64(0)-uint64(rng.Intn(3))
			}
		}
	}
	// balance: exact, one short, ample, random, maximal
	fee := feeRate * r.vsize(mergedCount(r.outs))
	total := need + fee
	if total < need || overflow {
		total = ^uint64(0)
	}
	var bal uint64
	balGen := ""
	switch rng.Intn(8) {
	case 0:
		bal, balGen = total, "exact"
	case 1:
		bal, balGen = total-1, "one-short"
		if total == 0 {
			bal = 0
		}
	case 2:
		bal, balGen = ^uint64(0), "max"
	case 3:
		bal, balGen = rng.UpTo(total), "random-below"
	default:
		bal, balGen = total+rng.UpTo(1000*config.COIN), "ample"
		if bal < total {
			bal = ^uint64(0)
		}
	}
	nonce := rng.UpTo(1000)
	if rng.Intn(20) == 0 {
		nonce = ^uint64(0) - uint64(rng.Intn(2))
	}
	// the request term before the builder runs (Transfer merges in place)
	rqTerm := t.reqTerm(r)
	rqRec := map[string]any{"kind": r.kind, "has_version": r.hasVersion, "name": r.name, "id": r.id, "prev": r.prev, "amount": r.amount, "prev_unlock": r.prevUnlock}
	if r.kind == "transfer" {
		var os_ []any
		for _, o := range r.outs {
			os_ = append(os_, map[string]any{"recipient": o.Recipient.String(), "recipient_num": t.addrId(o.Recipient), "payment_id": o.PaymentId, "amount": o.Amount})
		}
		rqRec["outputs"] = os_
	}
	nraw, nmerged := len(r.outs), mergedCount(r.outs)

	t.w.ManualRefresh(&chaintype.State{Balance: bal, LastNonce: nonce, DelegateId: r.prev}, height)
	var txn *transaction.Transaction
	var berr error
	buildPanic := catch(func() {
		switch r.kind {
		case "transfer":
			txn, berr = t.w.Transfer(r.outs, r.hasVersion)
		case "register":
			txn, berr = t.w.RegisterDelegate(r.name, r.id)
		case "setdelegate":
			txn, berr = t.w.SetDelegate(r.id, r.prev)
		case "stake":
			txn, berr = t.w.Stake(r.id, r.amount, r.prevUnlock)
		case "unstake":
			txn, berr = t.w.Unstake(r.id, r.amount)
		}
	})
	goTx, pv, pvName := "None", 3, "not-run"
	var txRec any
	built := !buildPanic && berr == nil && txn != nil
	if built {
		data, pids := t.dataTerm(txn.Data)
		signerOK := txn.Signer == t.w.VerifPrivateKey().Public()
		sigOK := bitcrypto.VerifySignature(txn.Signer, txn.SignatureData(), txn.Signature)
		goTx = fmt.Sprintf("(Some (mkgotx %d %s %s %d %d %s %s))", txn.Version, data, pids, txn.Nonce, txn.Fee, coqgen.Bool(signerOK), coqgen.Bool(sigOK))
		var perr error
		if catch(func() { perr = txn.Prevalidate(height) }) {
			pv, pvName = 2, "panic"
		} else if perr != nil {
			pv, pvName = 1, "refused"
		} else {
			pv, pvName = 0, "accepted"
		}
		txRec = map[string]any{"version": txn.Version, "nonce": txn.Nonce, "fee": txn.Fee, "vsize": txn.GetVirtualSize(), "hex": fmt.Sprintf("%x", txn.Serialize()), "signature_valid": sigOK}
		if perr != nil {
			txRec.(map[string]any)["prevalidate_error"] = perr.Error()
		}
	}
	berrS := ""
	if berr != nil {
		berrS = berr.Error()
	}
	shape := ""
	if r.kind == "transfer" {
		shape = fmt.Sprintf("/raw=%s/merged=%s", bucket(nraw), bucket(nmerged))
	}
	e.sink.Add(fmt.Sprintf("CTx %d (mkwstate 1 false %d %d) %s %s %s %d", height, bal, nonce, rqTerm, goTx, coqgen.Bool(buildPanic), pv),
		fmt.Sprintf("tx/%s/%s/%s/bal=%s%s/built=%v/%s", r.kind, rg.name, gen, balGen, shape, built, pvName),
		map[string]any{"kind": "tx", "height": height, "regime": rg.name, "generator": gen, "balance": bal, "balance_generator": balGen, "nonce": nonce,
			"request": rqRec, "built": built, "builder_error": berrS, "builder_panic": buildPanic, "tx": txRec, "prevalidate": pvName})
}

func bucket(n int) string {
	switch {
	case n == 0:
		return "0"
	case n == 1:
		return "1"
	case n < 32:
		return "2-31"
	case n == 32:
		return "32"
	}
	return ">32"
}
