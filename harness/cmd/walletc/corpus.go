package main

import (
	"embed"
	"encoding/hex"
	"encoding/json"
	"sort"
)

// Witness files of findings (kept after the fix so that a regression is reported again).
// Each entry: a wallet file, the password to try, the password it was written with and the intact file it was made from.
//
//go:embed corpus/*.json
var corpusFS embed.FS

type corpusEntry struct {
	Id          string `json:"id"`
	Name        string `json:"name"`
	Note        string `json:"note"`
	Password    string `json:"password"`
	WrittenWith string `json:"written_with_password"`
	FileHex     string `json:"file_hex"`
	IntactHex   string `json:"intact_file_hex"`
}

func (e *env) partCorpus() {
	ents, _ := corpusFS.ReadDir("corpus")
	var names []string
	for _, d := range ents {
		names = append(names, d.Name())
	}
	sort.Strings(names)
	for _, n := range names {
		raw, err := corpusFS.ReadFile("corpus/" + n)
		if err != nil {
			panic(err)
		}
		var list []corpusEntry
		if err := json.Unmarshal(raw, &list); err != nil {
			panic(err)
		}
		for _, c := range list {
			if !e.mine() {
				continue
			}
			file, _ := hex.DecodeString(c.FileHex)
			intact, _ := hex.DecodeString(c.IntactHex)
			want := openInProcess(intact, c.WrittenWith)
			if want.Outcome != "ok" {
				panic("corpus " + c.Name + ": the intact file does not open: " + want.Msg)
			}
			e.openCase(baseFile{name: "corpus-" + c.Id, data: intact, pass: c.WrittenWith, want: want}, file, c.Password, c.Name)
		}
	}
}
