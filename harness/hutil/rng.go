// Package hutil: the single PRNG every harness derives its random choices from (splitmix64 seeded by VERIF_SEED).
package hutil

import (
	"os"
	"strconv"
)

type Rng struct{ s uint64 }

func NewRng(stream uint64) *Rng {
	seed := uint64(1)
	if v := os.Getenv("VERIF_SEED"); v != "" {
		if x, err := strconv.ParseUint(v, 10, 64); err == nil {
			seed = x
		}
	}
	r := &Rng{s: seed*0x9E3779B97F4A7C15 + stream*0xD1B54A32D192ED03}
	r.U64()
	return r
}

func (r *Rng) U64() uint64 {
	r.s += 0x9E3779B97F4A7C15
	z := r.s
	z = (z ^ (z >> 30)) * 0xBF58476D1CE4E5B9
	z = (z ^ (z >> 27)) * 0x94D049BB133111EB
	return z ^ (z >> 31)
}

// Intn returns a value in [0,n)
func (r *Rng) Intn(n int) int { return int(r.U64() % uint64(n)) }

// Below returns a value in [0,n]
func (r *Rng) UpTo(n uint64) uint64 {
	if n == ^uint64(0) {
		return r.U64()
	}
	return r.U64() % (n + 1)
}

func (r *Rng) Bytes(n int) []byte {
	b := make([]byte, n)
	for i := range b {
		b[i] = byte(r.U64())
	}
	return b
}

// Interesting returns a boundary-biased uint64
func (r *Rng) Interesting() uint64 {
	switch r.Intn(8) {
	case 0:
		return uint64(r.Intn(4))
	case 1:
		return ^uint64(0) - uint64(r.Intn(3))
	case 2:
		return (uint64(1) << uint(r.Intn(64))) - uint64(r.Intn(2))
	case 3:
		return (uint64(1) << uint(r.Intn(64))) + uint64(r.Intn(2))
	case 4:
		return r.U64() >> uint(r.Intn(64))
	default:
		return r.U64()
	}
}

func Tier() string {
	if os.Getenv("VERIF_TIER") == "thorough" {
		return "thorough"
	}
	return "quick"
}
