(* Property C19 - wallets restore from mnemonic, open only with the password, sign valid transactions.
   Only theorem statements, closed by [exact]. *)
From Virel Require Import Lib.Config Lib.U64 Model.Ledger Model.Wallet Proofs.Wallet Gen.Params.
Open Scope N_scope.
Open Scope bool_scope.

(* the side condition holds at every generated configuration (non-vacuity of C19_wallet_tx_valid) *)
Theorem C19_cfg_ok_mainnet : cfg_ok_wallet cfg_mainnet = true. Proof. vm_compute. reflexivity. Qed.
Theorem C19_cfg_ok_testnet : cfg_ok_wallet cfg_testnet = true. Proof. vm_compute. reflexivity. Qed.
Theorem C19_cfg_ok_unittest : cfg_ok_wallet cfg_unittest = true. Proof. vm_compute. reflexivity. Qed.
Theorem C19_cfg_ok_verifnet : cfg_ok_wallet cfg_verifnet = true. Proof. vm_compute. reflexivity. Qed.

(* Every request in the domain of the property (usable key, balance < 2^64; transfer: no output to the wallet itself,
   at least one output, at most MAX_OUTPUTS after merging equal destinations, amounts + fee within the balance;
   register: name <= 16 bytes, id <> 0, id 1 only for the team key, burn + fee within the balance; set delegate: fee
   within the balance; stake: amount >= minimum, amount + fee within the balance; unstake: amount >= fee), built for
   the height regime [h] belongs to, is accepted by the node's stateless validation at [h]; the transaction is signed
   by the wallet key over its own content, carries the requested data, fee = rate * virtual size, nonce = last + 1. *)
Theorem C19_wallet_tx_valid : forall cfg, cfg_ok_wallet cfg = true ->
  forall team_key st rq h,
  in_domain cfg team_key st rq = true -> regime_ok cfg rq h = true ->
  exists t, build cfg st rq = Ok t /\ prevalidate_tx cfg team_key t h = Ok tt /\
            tx_signer t = w_key st /\ tx_sig_by t = w_key st /\ tx_sig_msg t = true /\
            tx_data t = request_data rq /\ tx_fee t = request_fee cfg rq /\ tx_nonce t = wadd (w_nonce st) 1.
Proof. exact wallet_tx_valid_l. Qed.
Print Assumptions C19_wallet_tx_valid.

(* merging equal destinations keeps the total and never empties a non-empty request *)
Theorem C19_merge_keeps_total : forall outs, sum_amts outs < two64 ->
  sum_amts (merge_outputs outs) = sum_amts outs /\ (outs <> [] -> merge_outputs outs <> []).
Proof. exact merge_keeps_total_l. Qed.
Print Assumptions C19_merge_keeps_total.

(* create and restore: given the BIP-39 law (decode (encode e) = e), restoring from the mnemonic of a created wallet
   yields the same mnemonic, key and address, for every entropy and whatever the derivation function is *)
Theorem C19_restore_same_key :
  forall (entropy mnemonic key address : Type) (mnemonic_of : entropy -> mnemonic)
         (entropy_of : mnemonic -> option entropy) (derive : entropy -> key) (address_of : key -> address),
  (forall e, entropy_of (mnemonic_of e) = Some e) ->
  forall e,
  restore_wallet entropy mnemonic key address entropy_of derive address_of
    (fst (fst (create_wallet entropy mnemonic key address mnemonic_of derive address_of e))) =
  Ok (create_wallet entropy mnemonic key address mnemonic_of derive address_of e).
Proof. exact restore_same_key_l. Qed.
Print Assumptions C19_restore_same_key.

Theorem C19_restore_invalid_mnemonic :
  forall (entropy mnemonic key address : Type) (entropy_of : mnemonic -> option entropy)
         (derive : entropy -> key) (address_of : key -> address) m,
  entropy_of m = None -> restore_wallet entropy mnemonic key address entropy_of derive address_of m = Err 701.
Proof. exact restore_invalid_l. Qed.
Print Assumptions C19_restore_invalid_mnemonic.

(* a file opens with a password exactly when its cost parameters are within the bounds and its ciphertext was
   sealed under the key derived from that password, the file's salt and the file's parameters *)
Theorem C19_open_ok_iff : forall avail, kdf_mem_max <= avail -> forall f pw key,
  open_wallet avail f pw = Ok key <->
  exists s t m n, f = WFile s t m (Sealed (Kdf pw s t m) n key) /\ params_ok t m = true.
Proof. exact open_ok_iff_l. Qed.
Print Assumptions C19_open_ok_iff.

(* the file written for (key, password) opens with the password to the key; and for every password and every
   corruption of the file (any salt, any parameters, ciphertext either untouched or no longer an AEAD output,
   or fewer than 24 bytes): it opens - to the same key - only if nothing at all was changed, otherwise it is an error *)
Theorem C19_file_opens_only_with_password : forall avail, kdf_mem_max <= avail ->
  forall key pw s t m n, params_ok t m = true ->
  let c0 := Sealed (Kdf pw s t m) n key in
  open_wallet avail (WFile s t m c0) pw = Ok key /\
  forall f' pw', (f' = WShort \/ exists s' t' m' c', f' = WFile s' t' m' c' /\ (c' = c0 \/ c' = Junk)) ->
    (pw' = pw /\ f' = WFile s t m c0 /\ open_wallet avail f' pw' = Ok key) \/
    ((pw' <> pw \/ f' <> WFile s t m c0) /\ exists code, open_wallet avail f' pw' = Err code).
Proof. exact file_opens_only_with_password_l. Qed.
Print Assumptions C19_file_opens_only_with_password.

(* byte level: the 24 header bytes determine salt, time and memory, and are determined by them *)
Theorem C19_header_bytes_injective : forall h h' len len' c c',
  length h = 24%nat -> length h' = 24%nat -> Forall is_byte h -> Forall is_byte h' -> 24 <= len -> 24 <= len' ->
  parse_file h len c = parse_file h' len' c' -> h = h' /\ c = c'.
Proof. exact header_bytes_injective_l. Qed.
Print Assumptions C19_header_bytes_injective.

(* the file as bytes (24 header bytes ++ ciphertext): the written file opens with its password to its key; after any
   change of any header byte (every bit flip), of the password or of the ciphertext, and after every truncation
   (below the header: [flen' < 24]; inside the ciphertext: the ciphertext is no longer an AEAD output) the result
   is an error - never a panic, never another key *)
Theorem C19_file_bytes : forall avail, kdf_mem_max <= avail ->
  forall key pw n h flen,
  length h = 24%nat -> Forall is_byte h -> 24 <= flen -> params_ok (hdr_time h) (hdr_mem h) = true ->
  let c0 := Sealed (Kdf pw (hdr_salt h) (hdr_time h) (hdr_mem h)) n key in
  open_wallet avail (parse_file h flen c0) pw = Ok key /\
  forall h' flen' c' pw', Forall is_byte h' -> (c' = c0 \/ c' = Junk) -> (flen' < 24 \/ length h' = 24%nat) ->
    (24 <= flen' /\ pw' = pw /\ h' = h /\ c' = c0 /\ open_wallet avail (parse_file h' flen' c') pw' = Ok key) \/
    ((flen' < 24 \/ pw' <> pw \/ h' <> h \/ c' <> c0) /\ exists code, open_wallet avail (parse_file h' flen' c') pw' = Err code).
Proof. exact file_bytes_l. Qed.
Print Assumptions C19_file_bytes.

(* saveDatabase followed by decodeDatabase, and the two parameter sets of CreateWallet are within the bounds *)
Theorem C19_save_then_open : forall avail, kdf_mem_max <= avail ->
  forall key pw s t m n, params_ok t m = true ->
  save_wallet avail key pw s t m n = Ok (WFile s t m (Sealed (Kdf pw s t m) n key)) /\
  open_wallet avail (WFile s t m (Sealed (Kdf pw s t m) n key)) pw = Ok key.
Proof. exact save_then_open_l. Qed.
Print Assumptions C19_save_then_open.

Theorem C19_writer_params_ok :
  params_ok (fst kdf_default) (snd kdf_default) = true /\ params_ok (fst kdf_fast) (snd kdf_fast) = true.
Proof. exact writer_params_ok_l. Qed.
Print Assumptions C19_writer_params_ok.

(* whatever the 24 header bytes say: no panic and no out-of-memory death; either an error, or parameters within the bounds *)
Theorem C19_file_header_no_panic : forall avail, kdf_mem_max <= avail -> forall f pw,
  (forall c, open_wallet avail f pw <> Panic c) /\
  ((exists c, open_wallet avail f pw = Err c) \/
   exists s t m ct, f = WFile s t m ct /\ 1 <= t /\ t <= kdf_time_max /\ m <= kdf_mem_max /\ t * m <= kdf_cost_max).
Proof. exact file_header_no_panic_l. Qed.
Print Assumptions C19_file_header_no_panic.

(* finding R15, as it was before the repair: decodeDatabase without the bounds check panics on time = 0 and dies
   when the header asks for more memory than there is *)
Theorem C19_R15_unchecked_open_panics : forall avail,
  (forall s m c pw, open_wallet_unchecked avail (WFile s 0 m c) pw = Panic 601) /\
  (forall s t m c pw, t <> 0 -> avail < m -> open_wallet_unchecked avail (WFile s t m c) pw = Panic 602).
Proof. exact unchecked_open_panics_l. Qed.
Print Assumptions C19_R15_unchecked_open_panics.
