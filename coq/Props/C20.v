(* Property C20 - checkpoints pin history without opening a gap in proof-of-work checking.
   Only theorem statements, closed by [exact].  The model follows the code after the repairs of R2 and R3
   (KNOWN_FINDINGS.json, status fixed); before them C20_secured_is_pinned and C20_cp_index_in_range were refuted. *)
From Coq Require Import Bool.
From Virel Require Import Lib.Config Lib.U64 Lib.CheckLib Model.Checkpoints Check.C20 Proofs.Checkpoints Gen.Params.
Open Scope N_scope.

(* the side condition holds at every generated configuration (non-vacuity of everything below); it includes
   cp_digest_ok: the embedded data has the BLAKE3 digest the source declares (computed by the translator on every run) *)
Theorem C20_cfg_ok_mainnet : cfg_ok_cp cfg_mainnet = true. Proof. vm_compute. reflexivity. Qed.
Theorem C20_cfg_ok_testnet : cfg_ok_cp cfg_testnet = true. Proof. vm_compute. reflexivity. Qed.
Theorem C20_cfg_ok_unittest : cfg_ok_cp cfg_unittest = true. Proof. vm_compute. reflexivity. Qed.

Theorem C20_cp_digest_mainnet : cp_digest_ok cfg_mainnet = true /\ cp_bin_len cfg_mainnet <> 0 /\ 1 <= cp_max cfg_mainnet.
Proof. vm_compute. repeat split; discriminate. Qed.
Print Assumptions C20_cp_digest_mainnet.

(* checkpoint-free, or header = interval >= 1 and whole entries; MaxCheckpoint is the number of entries *)
Theorem C20_cp_table_shape : forall cfg, cfg_ok_cp cfg = true ->
  (cp_bin_len cfg = 0 /\ cp_max cfg = 0) \/
  (cp_bin_len cfg = 4 + 32 * cp_max cfg /\ 1 <= cp_interval cfg /\ cp_interval cfg = init_interval cfg /\
   cp_max cfg = init_max cfg /\ cp_max cfg = spec_count cfg).
Proof. exact cp_table_shape. Qed.
Print Assumptions C20_cp_table_shape.

(* no index underflow, no out-of-range slice: at a height reported as checkpoint, GetCheckpoint returns entry h/interval-1 *)
Theorem C20_cp_index_in_range : forall cfg, cfg_ok_cp cfg = true ->
  forall h, is_checkpoint cfg h = true ->
  1 <= h / cp_interval cfg /\ 4 + 32 * (h / cp_interval cfg - 1) + 32 <= cp_bin_len cfg /\
  get_checkpoint cfg h = GcSlot (h / cp_interval cfg - 1).
Proof. exact cp_index_in_range. Qed.
Print Assumptions C20_cp_index_in_range.

(* every height whose proof-of-work check is skipped lies at or below an embedded checkpoint *)
Theorem C20_secured_is_pinned : forall cfg, cfg_ok_cp cfg = true ->
  forall h, is_secured cfg h = true -> exists c, is_checkpoint cfg c = true /\ h <= c.
Proof. exact secured_is_pinned. Qed.
Print Assumptions C20_secured_is_pinned.

Theorem C20_pow_or_pinned : forall cfg, cfg_ok_cp cfg = true ->
  forall h, is_secured cfg h = false \/ exists c, is_checkpoint cfg c = true /\ h <= c.
Proof. exact pow_or_pinned. Qed.
Print Assumptions C20_pow_or_pinned.

Theorem C20_pinned_is_secured : forall cfg, cfg_ok_cp cfg = true ->
  forall h c, is_checkpoint cfg c = true -> h <= c -> is_secured cfg h = true.
Proof. exact pinned_is_secured. Qed.
Print Assumptions C20_pinned_is_secured.

(* the comparison with the checkpoint is reached: it sits in the secured branch of PrevalidateBlock *)
Theorem C20_checkpoint_is_secured : forall cfg, cfg_ok_cp cfg = true ->
  forall h, is_checkpoint cfg h = true -> is_secured cfg h = true.
Proof. exact checkpoint_is_secured. Qed.
Print Assumptions C20_checkpoint_is_secured.

(* the two predicates are exactly what the embedded data says (entry i pins height (i+1)*header) *)
Theorem C20_functions_agree_with_data : forall cfg, cfg_ok_cp cfg = true ->
  forall h, is_checkpoint cfg h = spec_cp_height cfg h /\ is_secured cfg h = spec_pinned cfg h.
Proof. intros cfg H h. split; [exact (is_checkpoint_spec cfg H h) | exact (is_secured_spec cfg H h)]. Qed.
Print Assumptions C20_functions_agree_with_data.

(* PrevalidateBlock's last branch, for any hash type with a sound equality test and any table contents *)
Theorem C20_cp_accept_only_matching : forall cfg, cfg_ok_cp cfg = true ->
  forall (H : Type) (Heqb : H -> H -> bool), (forall a b, Heqb a b = true -> a = b) ->
  forall (table : N -> H) (zero : H) h pow hash,
  prevalidate_tail cfg H Heqb table zero h pow hash = PvAccept -> is_checkpoint cfg h = true ->
  hash = table (h / cp_interval cfg - 1).
Proof. exact cp_accept_only_matching. Qed.
Print Assumptions C20_cp_accept_only_matching.

Theorem C20_unsecured_needs_pow : forall cfg (H : Type) (Heqb : H -> H -> bool) (table : N -> H) (zero : H) h pow hash,
  is_secured cfg h = false -> prevalidate_tail cfg H Heqb table zero h pow hash = PvAccept -> pow = true.
Proof. exact unsecured_needs_pow. Qed.
Print Assumptions C20_unsecured_needs_pow.

Theorem C20_accept_pow_or_pinned : forall cfg, cfg_ok_cp cfg = true ->
  forall (H : Type) (Heqb : H -> H -> bool) (table : N -> H) (zero : H) h pow hash,
  prevalidate_tail cfg H Heqb table zero h pow hash = PvAccept ->
  pow = true \/ exists c, is_checkpoint cfg c = true /\ h <= c.
Proof. exact accept_pow_or_pinned. Qed.
Print Assumptions C20_accept_pow_or_pinned.

Theorem C20_prevalidate_no_panic : forall cfg, cfg_ok_cp cfg = true ->
  forall (H : Type) (Heqb : H -> H -> bool) (table : N -> H) (zero : H) h pow hash,
  prevalidate_tail cfg H Heqb table zero h pow hash <> PvPanic.
Proof. exact prevalidate_no_panic. Qed.
Print Assumptions C20_prevalidate_no_panic.

(* checkpoint-free configurations: every height goes through the proof-of-work check *)
Theorem C20_cp_free_configs : forall cfg, cp_bin_len cfg = 0 ->
  forall h, is_secured cfg h = false /\ is_checkpoint cfg h = false.
Proof. exact cp_free_configs. Qed.
Print Assumptions C20_cp_free_configs.

Theorem C20_cp_free_testnet_unittest : cp_bin_len cfg_testnet = 0 /\ cp_bin_len cfg_unittest = 0.
Proof. vm_compute. split; reflexivity. Qed.
Print Assumptions C20_cp_free_testnet_unittest.

(* the cheaper form evaluated by the correspondence sweep is the transcription of the code *)
Theorem C20_fast_form_agrees : forall cfg h, get_checkpoint_fast cfg h = get_checkpoint cfg h.
Proof. exact get_checkpoint_fast_eq. Qed.
Print Assumptions C20_fast_form_agrees.

(* the predicate the run-time checker evaluates on Go's observations refers to the same specification
   (spec_cp_height, spec_pinned) as C20_functions_agree_with_data *)
Theorem C20_checker_reference : forall cfg h sec cp gc,
  prop_height cfg h sec cp gc =
  first_fail [
    (1, implb cp (match gc with OSlot i => i + 1 =? h / cp_bin_header cfg | _ => false end));
    (2, implb sec (spec_pinned cfg h));
    (3, Bool.eqb cp (spec_cp_height cfg h));
    (4, implb (spec_cp_height cfg h) sec);
    (5, if cp_bin_len cfg =? 0 then negb sec && negb cp else true)].
Proof. exact checker_reference. Qed.
Print Assumptions C20_checker_reference.
