(* Property C12 - no bytes can crash the node.  Only theorem statements, closed by [exact].
   [result_of (run D bs)] is the outcome of the Go decoder D on the byte string bs (ROk / RErr / RPanic),
   [alloc_of (run D bs)] the bytes it allocates through make / append / new driven by the input. *)
From Virel Require Import Lib.Config Lib.U64 Model.Des Model.Codec Model.CodecBlock Proofs.Des Proofs.DesSafe Proofs.Codec Proofs.CodecSafe Proofs.CodecBlock Proofs.CodecBlockSafe Gen.Params.
Open Scope N_scope.

Theorem C12_cfg_ok_mainnet : cfg_ok_codec cfg_mainnet = true. Proof. vm_compute. reflexivity. Qed.
Theorem C12_cfg_ok_testnet : cfg_ok_codec cfg_testnet = true. Proof. vm_compute. reflexivity. Qed.
Theorem C12_cfg_ok_unittest : cfg_ok_codec cfg_unittest = true. Proof. vm_compute. reflexivity. Qed.

(* R4 (fixed in /repo): the ReadByteSlice that compared len(data) with int(length) panics on a length of 2^63 *)
Theorem C12_R4_as_found_panics :
  result_of (run (read_byte_slice_gen false) (put_uvarint 9223372036854775808 ++ [1; 2; 3])) = RPanic.
Proof. exact read_byte_slice_as_found_panics. Qed.
Print Assumptions C12_R4_as_found_panics.

Theorem C12_uvarint_no_panic : forall bs,
  result_of (run (x <- read_uvarint ;; ret_err x) bs) <> RPanic /\ alloc_of (run (x <- read_uvarint ;; ret_err x) bs) <= 0.
Proof. exact uvarint_no_panic. Qed.
Print Assumptions C12_uvarint_no_panic.

Theorem C12_byte_slice_no_panic : forall bs,
  result_of (run (x <- read_byte_slice ;; ret_err x) bs) <> RPanic /\ alloc_of (run (x <- read_byte_slice ;; ret_err x) bs) <= 0.
Proof. exact byte_slice_no_panic. Qed.
Print Assumptions C12_byte_slice_no_panic.

(* Transaction.Deserialize, all kinds, with and without version byte: never panics; allocation bounded by a constant
   (96 bytes of zero key/signature arrays on the error path + 62 bytes per output, at most MAX_OUTPUTS outputs) *)
Theorem C12_tx_no_panic_alloc : forall cfg, cfg_ok_codec cfg = true -> forall has_version bs,
  result_of (run (dec_tx cfg has_version) bs) <> RPanic /\
  alloc_of (run (dec_tx cfg has_version) bs) <= 96 + (40 + 22) * max_outputs cfg.
Proof. exact tx_no_panic. Qed.
Print Assumptions C12_tx_no_panic_alloc.

Theorem C12_state_no_panic_alloc : forall bs,
  result_of (run dec_state bs) <> RPanic /\ alloc_of (run dec_state bs) <= 0.
Proof. exact state_no_panic. Qed.
Print Assumptions C12_state_no_panic_alloc.

Theorem C12_delegate_no_panic_alloc : forall cfg, cfg_ok_codec cfg = true -> forall bs,
  result_of (run (dec_delegate cfg) bs) <> RPanic /\ alloc_of (run (dec_delegate cfg) bs) <= 4 * blen bs + 32.
Proof. exact delegate_no_panic. Qed.
Print Assumptions C12_delegate_no_panic_alloc.

(* ---- blocks, commitments, mining blobs, packets, handshake, AddPeer.
   The constants are those of Proofs/CodecBlockSafe.v; their values at the generated configurations follow. *)
Theorem C12_cfg_ok_block_mainnet : cfg_ok_block cfg_mainnet = true. Proof. vm_compute. reflexivity. Qed.
Theorem C12_cfg_ok_block_testnet : cfg_ok_block cfg_testnet = true. Proof. vm_compute. reflexivity. Qed.
Theorem C12_cfg_ok_block_unittest : cfg_ok_block cfg_unittest = true. Proof. vm_compute. reflexivity. Qed.

Theorem C12_constants_mainnet :
  (C_COMMIT cfg_mainnet, C_HEADER cfg_mainnet, C_BLOCK cfg_mainnet, C_BLOB cfg_mainnet, C_FULL cfg_mainnet)
  = (1224, 4094, 68126, 1815, 2516126).
Proof. vm_compute. reflexivity. Qed.
Theorem C12_constants_unittest :
  (C_COMMIT cfg_unittest, C_HEADER cfg_unittest, C_BLOCK cfg_unittest, C_BLOB cfg_unittest, C_FULL cfg_unittest)
  = (1224, 4094, 68126, 1815, 2516126).
Proof. vm_compute. reflexivity. Qed.

Theorem C12_commitment_no_panic_alloc : forall cfg bs,
  result_of (run (dec_commitment cfg) bs) <> RPanic /\ alloc_of (run (dec_commitment cfg) bs) <= C_COMMIT cfg.
Proof. exact commitment_no_panic. Qed.
Print Assumptions C12_commitment_no_panic_alloc.

Theorem C12_header_no_panic_alloc : forall cfg, cfg_ok_block cfg = true -> forall bs,
  result_of (run (dec_header cfg) bs) <> RPanic /\ alloc_of (run (dec_header cfg) bs) <= C_HEADER cfg.
Proof. exact header_no_panic. Qed.
Print Assumptions C12_header_no_panic_alloc.

(* Block.Deserialize (stored form): constant bound, dominated by the 1000-entry transaction id table *)
Theorem C12_block_no_panic_alloc : forall cfg, cfg_ok_block cfg = true -> forall bs,
  result_of (run (dec_block cfg) bs) <> RPanic /\ alloc_of (run (dec_block cfg) bs) <= C_BLOCK cfg.
Proof. exact block_no_panic. Qed.
Print Assumptions C12_block_no_panic_alloc.

(* Block.DeserializeFull (peer BLOCK packet): twice the input plus a constant.  The constant is coarse
   (MAX_TX_PER_BLOCK times the worst case of one transaction decode, error paths included). *)
Theorem C12_full_block_no_panic_alloc : forall cfg, cfg_ok_block cfg = true -> forall bs,
  result_of (run (dec_full_block cfg) bs) <> RPanic /\ alloc_of (run (dec_full_block cfg) bs) <= 2 * blen bs + C_FULL cfg.
Proof. exact full_block_no_panic. Qed.
Print Assumptions C12_full_block_no_panic_alloc.

Theorem C12_mining_blob_no_panic_alloc : forall cfg bs,
  result_of (run (dec_blob cfg) bs) <> RPanic /\ alloc_of (run (dec_blob cfg) bs) <= C_BLOB cfg.
Proof. exact blob_no_panic. Qed.
Print Assumptions C12_mining_blob_no_panic_alloc.

Theorem C12_packet_stats_no_panic_alloc : forall bs,
  result_of (run dec_pstats bs) <> RPanic /\ alloc_of (run dec_pstats bs) <= 48.
Proof. exact pstats_no_panic. Qed.
Print Assumptions C12_packet_stats_no_panic_alloc.

Theorem C12_packet_block_request_no_panic_alloc : forall bs,
  result_of (run dec_pblockreq bs) <> RPanic /\ alloc_of (run dec_pblockreq bs) <= 32.
Proof. exact pblockreq_no_panic. Qed.
Print Assumptions C12_packet_block_request_no_panic_alloc.

Theorem C12_packet_stake_signature_no_panic_alloc : forall cfg, cfg_ok_block cfg = true -> forall bs,
  result_of (run (dec_pstakesig cfg) bs) <> RPanic /\ alloc_of (run (dec_pstakesig cfg) bs) <= 96.
Proof. exact pstakesig_no_panic. Qed.
Print Assumptions C12_packet_stake_signature_no_panic_alloc.

Theorem C12_handshake_no_panic_alloc : forall bs,
  result_of (run dec_handshake bs) <> RPanic /\ alloc_of (run dec_handshake bs) <= 32.
Proof. exact handshake_no_panic. Qed.
Print Assumptions C12_handshake_no_panic_alloc.

Theorem C12_frame_type_no_panic_alloc : forall bs,
  result_of (run dec_frame_type bs) <> RPanic /\ alloc_of (run dec_frame_type bs) <= 0.
Proof. exact frame_type_no_panic. Qed.
Print Assumptions C12_frame_type_no_panic_alloc.

(* P2P.OnAddPeerPacket, whatever net.ParseIP answers: no panic, the string copies are paid by the input *)
Theorem C12_add_peer_no_panic_alloc : forall (parse_ip : list N -> bool) bs,
  result_of (run (dec_add_peer parse_ip) bs) <> RPanic /\ alloc_of (run (dec_add_peer parse_ip) bs) <= 1 * blen bs + 0.
Proof. exact add_peer_no_panic. Qed.
Print Assumptions C12_add_peer_no_panic_alloc.

(* R5 (fixed in /repo): the nonce parameter of a stratum submit line, after hex decoding *)
Theorem C12_R5_as_found_panics : result_of (run (stratum_nonce_gen false) [168]) = RPanic.
Proof. exact stratum_nonce_as_found_panics. Qed.
Print Assumptions C12_R5_as_found_panics.

Theorem C12_stratum_nonce_no_panic : forall bs,
  result_of (run stratum_nonce bs) <> RPanic /\ alloc_of (run stratum_nonce bs) <= 0.
Proof. exact stratum_nonce_no_panic. Qed.
Print Assumptions C12_stratum_nonce_no_panic.
