(* Property C12 - no bytes can crash the node.  Only theorem statements, closed by [exact].
   [result_of (run D bs)] is the outcome of the Go decoder D on the byte string bs (ROk / RErr / RPanic),
   [alloc_of (run D bs)] the bytes it allocates through make / append / new driven by the input. *)
From Virel Require Import Lib.Config Lib.U64 Model.Des Model.Codec Model.CodecBlock Proofs.Des Proofs.DesSafe Proofs.Codec Proofs.CodecSafe Proofs.CodecBlock Proofs.CodecBlockSafe Model.Address Model.Lines Proofs.Lines Gen.Params.
Open Scope N_scope.

Theorem C12_cfg_ok_mainnet : cfg_ok_codec cfg_mainnet = true. Proof. vm_compute. reflexivity. Qed.
Theorem C12_cfg_ok_testnet : cfg_ok_codec cfg_testnet = true. Proof. vm_compute. reflexivity. Qed.
Theorem C12_cfg_ok_unittest : cfg_ok_codec cfg_unittest = true. Proof. vm_compute. reflexivity. Qed.

(* R4 (fixed in /repo): the ReadByteSlice that compared len(data) with int(length) panics on a length of 2^63 *)
Theorem C12_R4_as_found_panics :
  result_of (run (read_byte_slice_gen false) (put_uvarint 9223372036854775808 ++ [1; 2; 3])) = RPanic.
Proof. exact read_byte_slice_as_found_panics. Qed.
Print Assumptions C12_R4_as_found_panics.

Theorem C12_uvarint_no_panic : forall bs,
  result_of (run (x <- read_uvarint ;; ret_err x) bs) <> RPanic /\ alloc_of (run (x <- read_uvarint ;; ret_err x) bs) <= 0.
Proof. exact uvarint_no_panic. Qed.
Print Assumptions C12_uvarint_no_panic.

Theorem C12_byte_slice_no_panic : forall bs,
  result_of (run (x <- read_byte_slice ;; ret_err x) bs) <> RPanic /\ alloc_of (run (x <- read_byte_slice ;; ret_err x) bs) <= 0.
Proof. exact byte_slice_no_panic. Qed.
Print Assumptions C12_byte_slice_no_panic.

(* Transaction.Deserialize, all kinds, with and without version byte: never panics; allocation bounded by a constant
   (96 bytes of zero key/signature arrays on the error path + 62 bytes per output, at most MAX_OUTPUTS outputs) *)
Theorem C12_tx_no_panic_alloc : forall cfg, cfg_ok_codec cfg = true -> forall has_version bs,
  result_of (run (dec_tx cfg has_version) bs) <> RPanic /\
  alloc_of (run (dec_tx cfg has_version) bs) <= 96 + (40 + 22) * max_outputs cfg.
Proof. exact tx_no_panic. Qed.
Print Assumptions C12_tx_no_panic_alloc.

Theorem C12_state_no_panic_alloc : forall bs,
  result_of (run dec_state bs) <> RPanic /\ alloc_of (run dec_state bs) <= 0.
Proof. exact state_no_panic. Qed.
Print Assumptions C12_state_no_panic_alloc.

Theorem C12_delegate_no_panic_alloc : forall cfg, cfg_ok_codec cfg = true -> forall bs,
  result_of (run (dec_delegate cfg) bs) <> RPanic /\ alloc_of (run (dec_delegate cfg) bs) <= 4 * blen bs + 32.
Proof. exact delegate_no_panic. Qed.
Print Assumptions C12_delegate_no_panic_alloc.

(* ---- blocks, commitments, mining blobs, packets, handshake, AddPeer.
   The constants are those of Proofs/CodecBlockSafe.v; their values at the generated configurations follow. *)
Theorem C12_cfg_ok_block_mainnet : cfg_ok_block cfg_mainnet = true. Proof. vm_compute. reflexivity. Qed.
Theorem C12_cfg_ok_block_testnet : cfg_ok_block cfg_testnet = true. Proof. vm_compute. reflexivity. Qed.
Theorem C12_cfg_ok_block_unittest : cfg_ok_block cfg_unittest = true. Proof. vm_compute. reflexivity. Qed.

Theorem C12_constants_mainnet :
  (C_COMMIT cfg_mainnet, C_HEADER cfg_mainnet, C_BLOCK cfg_mainnet, C_BLOB cfg_mainnet, C_FULL cfg_mainnet)
  = (1224, 4094, 68126, 1815, 2516126).
Proof. vm_compute. reflexivity. Qed.
Theorem C12_constants_unittest :
  (C_COMMIT cfg_unittest, C_HEADER cfg_unittest, C_BLOCK cfg_unittest, C_BLOB cfg_unittest, C_FULL cfg_unittest)
  = (1224, 4094, 68126, 1815, 2516126).
Proof. vm_compute. reflexivity. Qed.

Theorem C12_commitment_no_panic_alloc : forall cfg bs,
  result_of (run (dec_commitment cfg) bs) <> RPanic /\ alloc_of (run (dec_commitment cfg) bs) <= C_COMMIT cfg.
Proof. exact commitment_no_panic. Qed.
Print Assumptions C12_commitment_no_panic_alloc.

Theorem C12_header_no_panic_alloc : forall cfg, cfg_ok_block cfg = true -> forall bs,
  result_of (run (dec_header cfg) bs) <> RPanic /\ alloc_of (run (dec_header cfg) bs) <= C_HEADER cfg.
Proof. exact header_no_panic. Qed.
Print Assumptions C12_header_no_panic_alloc.

(* Block.Deserialize (stored form): constant bound, dominated by the 1000-entry transaction id table *)
Theorem C12_block_no_panic_alloc : forall cfg, cfg_ok_block cfg = true -> forall bs,
  result_of (run (dec_block cfg) bs) <> RPanic /\ alloc_of (run (dec_block cfg) bs) <= C_BLOCK cfg.
Proof. exact block_no_panic. Qed.
Print Assumptions C12_block_no_panic_alloc.

(* Block.DeserializeFull (peer BLOCK packet): twice the input plus a constant.  The constant is coarse
   (MAX_TX_PER_BLOCK times the worst case of one transaction decode, error paths included). *)
Theorem C12_full_block_no_panic_alloc : forall cfg, cfg_ok_block cfg = true -> forall bs,
  result_of (run (dec_full_block cfg) bs) <> RPanic /\ alloc_of (run (dec_full_block cfg) bs) <= 2 * blen bs + C_FULL cfg.
Proof. exact full_block_no_panic. Qed.
Print Assumptions C12_full_block_no_panic_alloc.

Theorem C12_mining_blob_no_panic_alloc : forall cfg bs,
  result_of (run (dec_blob cfg) bs) <> RPanic /\ alloc_of (run (dec_blob cfg) bs) <= C_BLOB cfg.
Proof. exact blob_no_panic. Qed.
Print Assumptions C12_mining_blob_no_panic_alloc.

Theorem C12_packet_stats_no_panic_alloc : forall bs,
  result_of (run dec_pstats bs) <> RPanic /\ alloc_of (run dec_pstats bs) <= 48.
Proof. exact pstats_no_panic. Qed.
Print Assumptions C12_packet_stats_no_panic_alloc.

Theorem C12_packet_block_request_no_panic_alloc : forall bs,
  result_of (run dec_pblockreq bs) <> RPanic /\ alloc_of (run dec_pblockreq bs) <= 32.
Proof. exact pblockreq_no_panic. Qed.
Print Assumptions C12_packet_block_request_no_panic_alloc.

Theorem C12_packet_stake_signature_no_panic_alloc : forall cfg, cfg_ok_block cfg = true -> forall bs,
  result_of (run (dec_pstakesig cfg) bs) <> RPanic /\ alloc_of (run (dec_pstakesig cfg) bs) <= 96.
Proof. exact pstakesig_no_panic. Qed.
Print Assumptions C12_packet_stake_signature_no_panic_alloc.

Theorem C12_handshake_no_panic_alloc : forall bs,
  result_of (run dec_handshake bs) <> RPanic /\ alloc_of (run dec_handshake bs) <= 32.
Proof. exact handshake_no_panic. Qed.
Print Assumptions C12_handshake_no_panic_alloc.

Theorem C12_frame_type_no_panic_alloc : forall bs,
  result_of (run dec_frame_type bs) <> RPanic /\ alloc_of (run dec_frame_type bs) <= 0.
Proof. exact frame_type_no_panic. Qed.
Print Assumptions C12_frame_type_no_panic_alloc.

(* P2P.OnAddPeerPacket, whatever net.ParseIP answers: no panic, the string copies are paid by the input *)
Theorem C12_add_peer_no_panic_alloc : forall (parse_ip : list N -> bool) bs,
  result_of (run (dec_add_peer parse_ip) bs) <> RPanic /\ alloc_of (run (dec_add_peer parse_ip) bs) <= 1 * blen bs + 0.
Proof. exact add_peer_no_panic. Qed.
Print Assumptions C12_add_peer_no_panic_alloc.

(* R5 (fixed in /repo): the nonce parameter of a stratum submit line, after hex decoding *)
Theorem C12_R5_as_found_panics : result_of (run (stratum_nonce_gen false) [168]) = RPanic.
Proof. exact stratum_nonce_as_found_panics. Qed.
Print Assumptions C12_R5_as_found_panics.

Theorem C12_stratum_nonce_no_panic : forall bs,
  result_of (run stratum_nonce bs) <> RPanic /\ alloc_of (run stratum_nonce bs) <= 0.
Proof. exact stratum_nonce_no_panic. Qed.
Print Assumptions C12_stratum_nonce_no_panic.

(* ---- text-line handlers (Model/Lines.v): what happens to a line AFTER encoding/json, which is not modelled.
   A token is the raw JSON text of a field value as encoding/json hands it to UnmarshalJSON. *)

(* util/enc/hex.go Hex.UnmarshalJSON: never panics on any token; an accepted token is a quoted even-length hex string
   (or any two-byte token, which yields the empty value) *)
Theorem C12_hex_token_no_panic : forall c, hex_unmarshal_json c <> RPanic.
Proof. exact hex_unmarshal_json_no_panic. Qed.
Print Assumptions C12_hex_token_no_panic.

Theorem C12_hex_token_accepts : forall c b, hex_unmarshal_json c = ROk b ->
  (blen c = 2 /\ b = []) \/ (2 < blen c /\ hd 0 c = QUOTE /\ last_byte c = QUOTE /\ hex_decode (middle c) = Some b /\ 2 * blen b = blen c - 2).
Proof. exact hex_unmarshal_json_accepts. Qed.
Print Assumptions C12_hex_token_accepts.

(* util/hash.go Hash.UnmarshalJSON: never panics (the slice-to-array conversion always sees 32 bytes); accepts only 66-byte tokens *)
Theorem C12_hash_token_no_panic : forall c, hash_unmarshal_json c <> RPanic.
Proof. exact hash_unmarshal_json_no_panic. Qed.
Print Assumptions C12_hash_token_no_panic.

Theorem C12_hash_token_accepts : forall c b, hash_unmarshal_json c = ROk b -> blen c = 66 /\ blen b = 32.
Proof. exact hash_unmarshal_json_accepts. Qed.
Print Assumptions C12_hash_token_accepts.

Theorem C12_address_token_no_panic : forall cfg c, integrated_unmarshal_json cfg c <> RPanic.
Proof. exact integrated_unmarshal_json_no_panic. Qed.
Print Assumptions C12_address_token_no_panic.

(* util.ByteTargetToDiff panics exactly on targets that are not 4, 8 or 16 bytes long *)
Theorem C12_byte_target_panics_iff : forall t,
  byte_target_to_diff t = RPanic <-> (blen t <> 16 /\ blen t <> 8 /\ blen t <> 4).
Proof. exact byte_target_panics_iff. Qed.
Print Assumptions C12_byte_target_panics_iff.

(* blockchain/mergestratum.go, the body of AddStratum's loop: no job (any blob bytes, any target, any job id) makes it panic;
   a job is accepted only with a target of 4, 8 or 16 bytes and a blob that decodes to exactly one chain *)
Theorem C12_merge_client_job_no_panic : forall cfg blob target jid, add_stratum_job cfg blob target jid <> SCPanic.
Proof. exact add_stratum_job_no_panic. Qed.
Print Assumptions C12_merge_client_job_no_panic.

Theorem C12_merge_client_job_accepts : forall cfg blob target jid j d n,
  add_stratum_job cfg blob target jid = SCAccept j d n ->
  (blen target = 4 \/ blen target = 8 \/ blen target = 16) /\ j = jid /\ byte_target_to_diff target = ROk d /\
  exists m s c, run (dec_blob cfg) blob = MOk m s /\ mb_chains m = [c] /\ n = hid_network c.
Proof. exact add_stratum_job_accepts. Qed.
Print Assumptions C12_merge_client_job_accepts.

(* the target-length test is what keeps the loop alive: without it a five-byte target kills the goroutine *)
Theorem C12_merge_client_unguarded_panics :
  add_stratum_job_gen cfg_mainnet false (enc_blob witness_blob) [0; 0; 0; 0; 0] [106] = SCPanic
  /\ add_stratum_job_gen cfg_mainnet true (enc_blob witness_blob) [0; 0; 0; 0; 0] [106] = SCRefuse
  /\ add_stratum_job_gen cfg_mainnet true (enc_blob witness_blob) [0; 0; 0; 128] [106] = SCAccept [106] 8589934591 3.
Proof. exact add_stratum_unguarded_panics. Qed.
Print Assumptions C12_merge_client_unguarded_panics.

(* the whole conversation: whatever the login response and the following lines decode to, neither Client.Start nor
   AddStratum's loop panics *)
Theorem C12_merge_client_login_no_panic : forall l, sc_login l <> 2.
Proof. exact sc_login_no_panic. Qed.
Print Assumptions C12_merge_client_login_no_panic.

Theorem C12_merge_client_run_no_panic : forall cfg evs st, fst (sc_run cfg st evs) <> 2.
Proof. exact sc_run_no_panic. Qed.
Print Assumptions C12_merge_client_run_no_panic.

(* blockchain/bc-stratum.go handleConn: the login line and every later line, for every decoded content *)
Theorem C12_stratum_login_line_no_panic : forall cfg json_ok method std_ok text, srv_login cfg json_ok method std_ok text <> LPanic.
Proof. exact srv_login_no_panic. Qed.
Print Assumptions C12_stratum_login_line_no_panic.

Theorem C12_stratum_line_no_panic : forall cfg json_ok method std_ok nonce blob extra known,
  srv_line cfg json_ok method std_ok nonce blob extra known <> LPanic.
Proof. exact srv_line_no_panic. Qed.
Print Assumptions C12_stratum_line_no_panic.

(* rpc/rpcserver/handler.go + parameter decoding of cmd/virel-node/noderpc.go: envelope, custom-typed parameters,
   the length test of submit_stake_signature, the transaction decoder of submit_transaction, the address parser *)
Theorem C12_rpc_body_no_panic : forall cfg, cfg_ok_codec cfg = true ->
  forall http body_len json_ok jsonrpc method has_params std_ok fields addr ttype top,
  fields_shape method fields ->
  rpc_expect cfg http body_len json_ok jsonrpc method has_params std_ok fields addr ttype top <> RPanicX.
Proof. exact rpc_expect_no_panic. Qed.
Print Assumptions C12_rpc_body_no_panic.
