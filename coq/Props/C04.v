(* Property C04 - nodes that have seen the same blocks agree on the heaviest chain.
   Statements only; proofs in Proofs/ForkChoice.v. *)
From Virel Require Import Lib.Config Lib.U64 Lib.AMap Model.Ledger Model.Node Proofs.NodeBasics Proofs.ForkChoice Proofs.Agreement Gen.Params.
Open Scope N_scope.

(* For every configuration, every genesis, and EVERY sequence of deliveries (any blocks - valid, invalid, forked,
   duplicated, children before parents - with any clock readings), the node's tip is a stored block and no stored
   block has a larger cumulative difficulty: the main chain always ends at a block of maximal cumulative difficulty
   among the blocks the node has accepted. *)
Theorem C04_tip_always_maximal : forall cfg genesis_addr team_key g n0 ops,
  node0 cfg genesis_addr g = Ok n0 -> b_cd g = b_diff g ->
  let n := run cfg genesis_addr team_key n0 ops in
  (exists t, get_block n (top n) = Some t /\ b_cd t = top_cd n) /\
  (forall h b, get_block n h = Some b -> b_cd b <= top_cd n).
Proof. exact tip_always_maximal. Qed.
Print Assumptions C04_tip_always_maximal.

(* AGREEMENT: two nodes started from the same genesis that were handed blocks in ANY two orders (with any clocks,
   duplicates, invalid or orphaned blocks in between) and ended up storing the same blocks have main chains of the same
   cumulative difficulty; when a single stored block reaches that cumulative difficulty they have the same tip, hence
   - the tip determining its ancestors - the same main chain.  (With two stored blocks of the same maximal cumulative
   difficulty the code keeps the one it connected first: the tie is broken by arrival order, which the property's
   "heaviest chain" leaves open; the correspondence run reports such states through the ambiguity flag.) *)
Theorem C04_agreement : forall cfg genesis_addr team_key g n0 ops1 ops2,
  node0 cfg genesis_addr g = Ok n0 -> b_cd g = b_diff g ->
  let n1 := run cfg genesis_addr team_key n0 ops1 in
  let n2 := run cfg genesis_addr team_key n0 ops2 in
  (forall h, get_block n1 h = get_block n2 h) ->
  top_cd n1 = top_cd n2 /\
  ((forall h h' b b', get_block n1 h = Some b -> get_block n1 h' = Some b' ->
                      b_cd b = top_cd n1 -> b_cd b' = top_cd n1 -> h = h') -> top n1 = top n2).
Proof. exact agreement. Qed.
Print Assumptions C04_agreement.

(* the invariant is inductive for single deliveries as well (used by the other node-level properties) *)
Theorem C04_deliver_preserves_invariant : forall cfg genesis_addr team_key n b now n' out amb,
  FInv n -> deliver cfg genesis_addr team_key n b now = (n', out, amb) -> FInv n'.
Proof. exact deliver_inv. Qed.
Print Assumptions C04_deliver_preserves_invariant.

(* non-vacuity: the genesis node of the verification configuration exists and satisfies the premises *)
Definition g_example : block := genesis_block cfg_verifnet 7 1 123 (mkcommit 1 1 [0; 0; 0] 0 0 false).
Theorem C04_premises_satisfiable : exists n0, node0 cfg_verifnet 7 g_example = Ok n0 /\ b_cd g_example = b_diff g_example.
Proof. eexists. split; [vm_compute; reflexivity|reflexivity]. Qed.
Print Assumptions C04_premises_satisfiable.

(* a refused delivery returns exactly the node it was given *)
Theorem C04_rejected_unchanged : forall cfg genesis_addr team_key n b now n' c amb,
  deliver cfg genesis_addr team_key n b now = (n', Rejected c, amb) -> n' = n.
Proof. exact deliver_rejected_unchanged. Qed.
Print Assumptions C04_rejected_unchanged.
