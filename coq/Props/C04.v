(* Property C04 - nodes that have seen the same blocks agree on the heaviest chain.
   Statements only; proofs in Proofs/ForkChoice.v, Proofs/Agreement.v, Proofs/BranchRefuted.v, Proofs/AgreementLedger.v
   (same blocks => same main chain and same ledger), Proofs/AgreementLedgerEx.v. *)
From Virel Require Import Lib.Config Lib.U64 Lib.AMap Model.Ledger Model.Node Proofs.NodeBasics Proofs.ForkChoice Proofs.Agreement Proofs.BranchRefuted Gen.Params.
From Virel Require Import Model.Emission Spec.Chain Proofs.Emission Proofs.Conservation Proofs.Pointwise Proofs.ChainInv Proofs.Refine2
  Proofs.Replay1 Proofs.Replay2 Proofs.Replay3 Proofs.Replay4 Proofs.Replay5 Proofs.Replay6 Proofs.ChainExamples
  Proofs.AgreementLedger Proofs.AgreementLedgerEx.
Open Scope N_scope.

(* For every configuration, every genesis, and EVERY sequence of deliveries (any blocks - valid, invalid, forked,
   duplicated, children before parents - with any clock readings), the node's tip is a stored block and no stored
   block has a larger cumulative difficulty: the main chain always ends at a block of maximal cumulative difficulty
   among the blocks the node has accepted. *)
Theorem C04_tip_always_maximal : forall cfg genesis_addr team_key g n0 ops,
  node0 cfg genesis_addr g = Ok n0 -> b_cd g = b_diff g ->
  let n := run cfg genesis_addr team_key n0 ops in
  (exists t, get_block n (top n) = Some t /\ b_cd t = top_cd n) /\
  (forall h b, get_block n h = Some b -> b_cd b <= top_cd n).
Proof. exact tip_always_maximal. Qed.
Print Assumptions C04_tip_always_maximal.

(* AGREEMENT: two nodes started from the same genesis that were handed blocks in ANY two orders (with any clocks,
   duplicates, invalid or orphaned blocks in between) and ended up storing the same blocks have main chains of the same
   cumulative difficulty; when a single stored block reaches that cumulative difficulty they have the same tip, hence
   - the tip determining its ancestors - the same main chain.  (With two stored blocks of the same maximal cumulative
   difficulty the code keeps the one it connected first: the tie is broken by arrival order, which the property's
   "heaviest chain" leaves open; the correspondence run reports such states through the ambiguity flag.) *)
Theorem C04_agreement : forall cfg genesis_addr team_key g n0 ops1 ops2,
  node0 cfg genesis_addr g = Ok n0 -> b_cd g = b_diff g ->
  let n1 := run cfg genesis_addr team_key n0 ops1 in
  let n2 := run cfg genesis_addr team_key n0 ops2 in
  (forall h, get_block n1 h = get_block n2 h) ->
  top_cd n1 = top_cd n2 /\
  ((forall h h' b b', get_block n1 h = Some b -> get_block n1 h' = Some b' ->
                      b_cd b = top_cd n1 -> b_cd b' = top_cd n1 -> h = h') -> top n1 = top n2).
Proof. exact agreement. Qed.
Print Assumptions C04_agreement.

(* AGREEMENT ON THE LEDGER, not only on the tip.  Two nodes started from the same genesis that were handed blocks in any two
   orders, store the same blocks, and whose heaviest stored block is unique (the hypothesis of C04_agreement) have the same
   tip, the same tip height, the same MAIN CHAIN (the list of blocks filed in the height index under 1 .. top_h: a path of
   stored blocks from genesis is determined by its last block, Proofs/AgreementLedger.v up_unique) and the same LEDGER:
   accounts as functions (an absent record = an all-zero record; a node that reorganised keeps emptied records, see the
   remark at the end of Props/C03.v), delegate table as a list, staked total.
   The other premises are those of C03_ledger_is_replay (Props/C03.v), stated on the store of the first node only - the
   second holds the same blocks: constants (the C03_cfg_ok_ and C03_cfg_feepos_ theorems), genesis at height 0, fewer than 2^64 - 1
   deliveries each, typed transactions in stored blocks (derivable from the decoder: C03_ledger_is_replay_decoded) and
   along every chain of stored blocks distinct hashes / transaction ids and counters that cannot wrap. *)
Theorem C04_agreement_ledger : forall cfg genesis_addr team_key g n0 ops1 ops2,
  cfg_ok_emission cfg = true -> cfg_ok_feepos cfg = true ->
  node0 cfg genesis_addr g = Ok n0 -> b_height g = 0 -> b_cd g = b_diff g ->
  N.of_nat (length ops1) < two64 - 1 -> N.of_nat (length ops2) < two64 - 1 ->
  let n1 := run cfg genesis_addr team_key n0 ops1 in
  let n2 := run cfg genesis_addr team_key n0 ops2 in
  Forall (tx_c cfg) (b_txs g) ->
  (forall h b, get_block n1 h = Some b -> Forall (fun t => wf_tx cfg t /\ ver_ok t = true) (b_txs b)) ->
  (forall bs, up (b_hash g) (blocks n1) (b_hash g) bs ->
     NoDup (bkeys g ++ flat_map bkeys bs) /\ c0 g + bnouts bs < two64 /\ c0 g + bntx bs < two64) ->
  (forall h, get_block n1 h = get_block n2 h) ->
  (forall h h' b b', get_block n1 h = Some b -> get_block n1 h' = Some b' ->
                     b_cd b = top_cd n1 -> b_cd b' = top_cd n1 -> h = h') ->
  top n1 = top n2 /\ top_h n1 = top_h n2 /\ top_cd n1 = top_cd n2 /\ mchain n1 = mchain n2 /\
  same_accounts (ldg n1) (ldg n2) /\ dlgs (ldg n1) = dlgs (ldg n2) /\ staked (ldg n1) = staked (ldg n2).
Proof. exact agreement_ledger. Qed.
Print Assumptions C04_agreement_ledger.

(* non-vacuity: the five blocks of the reorganising history of Proofs/ChainExamples.v in two orders.  Node 1 (A1, A2, A3, B,
   D) follows G-A1-A2-A3 and reorganises to the heavier G-B-D; node 2 (B, D, A1, A2, A3) follows G-B-D from the start and
   never reorganises.  Every premise holds (D is the only block of cumulative difficulty 14); the stores list the blocks in
   different orders; both end with tip D, main chain [B; D] and agreeing ledgers. *)
Theorem C04_agreement_ledger_example :
  let n1 := run cfg_verifnet 7 0 ex_n0 sr_ops in
  let n2 := run cfg_verifnet 7 0 ex_n0 sr_ops_perm in
  node0 cfg_verifnet 7 w_genesis = Ok ex_n0 /\
  cfg_ok_emission cfg_verifnet = true /\ cfg_ok_feepos cfg_verifnet = true /\
  b_height w_genesis = 0 /\ b_cd w_genesis = b_diff w_genesis /\
  N.of_nat (length sr_ops) < two64 - 1 /\ N.of_nat (length sr_ops_perm) < two64 - 1 /\
  Forall (tx_c cfg_verifnet) (b_txs w_genesis) /\
  (forall h b, get_block n1 h = Some b -> Forall (fun t => wf_tx cfg_verifnet t /\ ver_ok t = true) (b_txs b)) /\
  (forall bs, up (b_hash w_genesis) (blocks n1) (b_hash w_genesis) bs ->
     NoDup (bkeys w_genesis ++ flat_map bkeys bs) /\ c0 w_genesis + bnouts bs < two64 /\ c0 w_genesis + bntx bs < two64) /\
  (forall h, get_block n1 h = get_block n2 h) /\
  (forall h h' b b', get_block n1 h = Some b -> get_block n1 h' = Some b' ->
                     b_cd b = top_cd n1 -> b_cd b' = top_cd n1 -> h = h') /\
  map fst (blocks n1) = [1; 2; 3; 8; 4; 6] /\ map fst (blocks n2) = [1; 4; 6; 2; 3; 8] /\
  top (run cfg_verifnet 7 0 ex_n0 (firstn 4 sr_ops)) = 8 /\ top (run cfg_verifnet 7 0 ex_n0 (firstn 4 sr_ops_perm)) = 6 /\
  tips n1 = [(8, mktip 8 3 11)] /\ tips n2 = [(8, mktip 8 3 11)] /\
  top n1 = 6 /\ top n2 = 6 /\ top_h n1 = 2 /\ top_h n2 = 2 /\ map b_hash (mchain n1) = [4; 6] /\
  top n1 = top n2 /\ top_h n1 = top_h n2 /\ top_cd n1 = top_cd n2 /\ mchain n1 = mchain n2 /\
  same_accounts (ldg n1) (ldg n2) /\ dlgs (ldg n1) = dlgs (ldg n2) /\ staked (ldg n1) = staked (ldg n2).
Proof. exact agreement_ledger_example. Qed.
Print Assumptions C04_agreement_ledger_example.

(* the invariant is inductive for single deliveries as well (used by the other node-level properties) *)
Theorem C04_deliver_preserves_invariant : forall cfg genesis_addr team_key n b now n' out amb,
  FInv n -> deliver cfg genesis_addr team_key n b now = (n', out, amb) -> FInv n'.
Proof. exact deliver_inv. Qed.
Print Assumptions C04_deliver_preserves_invariant.

(* non-vacuity: the genesis node of the verification configuration exists and satisfies the premises *)
Definition g_example : block := genesis_block cfg_verifnet 7 1 123 (mkcommit 1 1 [0; 0; 0] 0 0 false).
Theorem C04_premises_satisfiable : exists n0, node0 cfg_verifnet 7 g_example = Ok n0 /\ b_cd g_example = b_diff g_example.
Proof. eexists. split; [vm_compute; reflexivity|reflexivity]. Qed.
Print Assumptions C04_premises_satisfiable.

(* a refused delivery returns exactly the node it was given *)
Theorem C04_rejected_unchanged : forall cfg genesis_addr team_key n b now n' c amb,
  deliver cfg genesis_addr team_key n b now = (n', Rejected c, amb) -> n' = n.
Proof. exact deliver_rejected_unchanged. Qed.
Print Assumptions C04_rejected_unchanged.

(* THE CLAUSE "a block that is valid on its own branch is never refused because of the state of the branch the node
   currently follows" IS FALSE OF THE CODE (open finding R14), and its refutation is a theorem of the model.
   checkBlock judges the stake signature of every delivered block - also of one that extends a side branch - against the
   ledger of the chain the node follows at that moment (staked total, delegate table).  The history of
   Proofs/BranchRefuted.v (verification configuration; hashes in brackets):

        G(1) - A1(2) - A2(3) - A3(13) - A4(14) - A5(15) - A6(16) - A7(17)      r_trunk ++ r_main, weight 19
                           \
                            S3(23) - S4(24) - S5(25) - S6(26) - S7(27)          r_branch, then r_staked = S7 (weight 21)

   S3 registers pool 2 by key 3, makes it the delegate of key 3's account and stakes one coin; S4, S5, S6 name pool 2
   as next delegate (the lottery of the branch has no other pool); S7 = r_staked, three blocks above S4, names delegate 2
   and carries the signature of key 3 over S4's hash.  The node that follows the branch accepts S7 as its tip.  The node
   that follows the main chain has accepted and stored S3 .. S6, yet refuses S7 with code 717 ("nothing is staked" - on
   ITS chain) and stays as it was, although the branch with S7 outweighs its main chain: it can never adopt that branch.
   (Reading check_block: 717 when nothing is staked on the followed chain, as here; 718 when something is staked there
   but the delegate is not registered there; 719 when the delegate registered there has another owner.)
   NOT REPAIRED: at validation time only the ledger of the followed chain exists; judging a side-branch block needs the
   state of its own branch (replaying the branch from the fork point) or deferring the stake check to the
   reorganisation - a change of the validation design, not a local patch. *)
Theorem C04_branch_validity_refuted :
  node0 cfg_verifnet 7 r_genesis = Ok r_node0 /\ b_cd r_genesis = b_diff r_genesis /\
  (* the node on the branch: every block accepted, main chain ends at the parent of S7, the pool has its stake;
     S7 is accepted and becomes the tip *)
  r_node_branch = run cfg_verifnet 7 0 r_node0 (r_at (r_trunk ++ r_branch)) /\
  r_outcomes r_node0 (r_at (r_trunk ++ r_branch)) = [Accepted; Accepted; Accepted; Accepted; Accepted; Accepted] /\
  top r_node_branch = prev_hash r_staked /\
  staked (ldg r_node_branch) = 1000000000 /\
  get_dlg (ldg r_node_branch) 2 = Some (mkdlg 2 3 50 [mkfund 7 1000000000 5]) /\
  deliver cfg_verifnet 7 0 r_node_branch r_staked r_now = (r_node_branch', Accepted, false) /\
  top r_node_branch' = b_hash r_staked /\
  (* the node on the main chain: every block accepted - those of the branch too, they are stored -, main chain ends at A7;
     S7, whose parent it stores and with which the branch would outweigh its main chain, is refused: nothing is staked
     on the chain it follows *)
  r_node_main = run cfg_verifnet 7 0 r_node0 (r_at (r_trunk ++ r_main ++ r_branch)) /\
  r_outcomes r_node0 (r_at (r_trunk ++ r_main ++ r_branch)) =
    [Accepted; Accepted; Accepted; Accepted; Accepted; Accepted; Accepted; Accepted; Accepted; Accepted; Accepted] /\
  top r_node_main = 17 /\ top_cd r_node_main = 19 /\
  (exists p, get_block r_node_main (prev_hash r_staked) = Some p /\ nth_error r_branch 3 = Some p) /\
  (forall b, In b r_branch -> get_block r_node_main (b_hash b) = Some b) /\
  top_cd r_node_main < b_cd r_staked /\
  staked (ldg r_node_main) = 0 /\
  deliver cfg_verifnet 7 0 r_node_main r_staked r_now = (r_node_main, Rejected 717, false).
Proof. exact branch_validity_refuted. Qed.
Print Assumptions C04_branch_validity_refuted.

(* the clause as a statement about all histories of all configurations, negated: "whenever a node whose main chain ends at
   the parent of b accepts b, every node (of the same genesis) that stores the parent and not yet b accepts b" *)
Theorem C04_branch_validity_clause_false :
  ~ (forall cfg genesis_addr team_key g n0 ops_n ops_m b now,
       node0 cfg genesis_addr g = Ok n0 -> b_cd g = b_diff g ->
       let n := run cfg genesis_addr team_key n0 ops_n in
       let m := run cfg genesis_addr team_key n0 ops_m in
       top m = prev_hash b -> snd (fst (deliver cfg genesis_addr team_key m b now)) = Accepted ->
       get_block n (prev_hash b) <> None -> get_block n (b_hash b) = None ->
       snd (fst (deliver cfg genesis_addr team_key n b now)) = Accepted).
Proof. exact branch_validity_clause_false. Qed.
Print Assumptions C04_branch_validity_clause_false.
