(* Property C06 - proof of stake: weighted lottery, owner-only signing, locked funds, exact payout. *)
From Virel Require Import Lib.Config Lib.U64 Lib.AMap Model.Ledger Model.Node Proofs.NodeBasics.
Open Scope N_scope.

Theorem C06_rejected_unchanged : forall cfg genesis_addr team_key n b now n' c amb,
  deliver cfg genesis_addr team_key n b now = (n', Rejected c, amb) -> n' = n.
Proof. exact deliver_rejected_unchanged. Qed.
Print Assumptions C06_rejected_unchanged.
