(* Property C06 - proof of stake: weighted lottery, owner-only signing, locked funds, exact payout.
   Statements only; proofs in Proofs/Staking.v and Proofs/Lottery.v (the counting statements). *)
From Virel Require Import Lib.Config Lib.U64 Lib.AMap Model.Emission Model.Ledger Model.Node Spec.Chain
  Proofs.Emission Proofs.Conservation Proofs.Staking Proofs.NodeBasics Proofs.ForkChoice Proofs.ChainInv Proofs.StakedSum
  Proofs.Lottery Proofs.Refine2 Proofs.Replay2 Proofs.Replay4 Proofs.Replay5 Proofs.KeyInv Proofs.NodeConservation.
Open Scope N_scope.

(* THE LOTTERY.  When the staked total S is the sum over all pools (invariant of C01) and positive, then for EVERY
   128-bit lottery value hv the lottery selects a registered pool d, deterministically, and the coin index
   idx = hv mod S lies in d's interval: above the cumulated stake of every earlier pool (in database order), at most
   the cumulated stake including d.  The intervals of the pools partition 0..S, each of width [tot d]: every pool is
   chosen for a share of index values equal to its stake, to within one unit at the two ends. *)
Theorem C06_lottery_interval : forall l hv,
  staked l = sum_tot (dlgs l) -> 0 < staked l -> staked l < two64 ->
  exists pre k d post,
    dlgs l = pre ++ (k, d) :: post /\ get_staker l hv = Ok (d_id d) /\
    let idx := hv mod staked l in
    idx <= sum_tot pre + tot d /\
    (forall p1 kd p2, pre = p1 ++ kd :: p2 -> sum_tot p1 + tot (snd kd) < idx).
Proof. exact get_staker_selects. Qed.
Print Assumptions C06_lottery_interval.

(* conversely, an index inside a pool's interval selects exactly that pool *)
Theorem C06_lottery_interval_complete : forall pre k d post idx seen,
  seen + sum_tot (pre ++ (k, d) :: post) < two64 ->
  (pre <> [] -> seen + sum_tot pre < idx) ->
  (forall p1 kd p2, pre = p1 ++ kd :: p2 -> seen + sum_tot p1 + tot (snd kd) < idx) ->
  idx <= seen + sum_tot pre + tot d ->
  walk_delegates (pre ++ (k, d) :: post) idx seen = Ok (Some d).
Proof. exact walk_hits. Qed.
Print Assumptions C06_lottery_interval_complete.

(* THE LOTTERY, COUNTED.  SInv (Proofs/StakedSum.v, the invariant of C01): the table is in database order, every record
   is filed under its identifier, the staked total S is the exact sum over the pools and fits 64 bits.
   [count_below f n] is the number of i < n with f i = true; [lottery_pos l hv] is the position in the table at which
   the walk for the coin index  hv mod S  stops; [ind b] is 1 when b holds. *)
Theorem C06_count_is_cardinality : forall f n,
  count_below f n = N.of_nat (length (filter (fun k => f (N.of_nat k)) (seq 0 (N.to_nat n)))).
Proof. exact count_below_filter. Qed.
Print Assumptions C06_count_is_cardinality.

(* the pool GetStaker names is the one at the position where the walk stops *)
Theorem C06_lottery_position : forall l hv,
  SInv l -> 0 < staked l ->
  exists k d, nth_error (dlgs l) (lottery_pos l hv) = Some (k, d) /\ get_staker l hv = Ok (d_id d).
Proof. exact get_staker_pos. Qed.
Print Assumptions C06_lottery_position.

(* (1) COIN INDICES.  Of the S coin indices 0 .. S-1, the pool at any position of the table is chosen for exactly as
   many as it holds coins - plus one if it is the first pool of the table (index 0 falls to it, even when it is empty),
   minus one if it is the last pool holding coins (the index S closing its interval is never produced by mod).
   The two corrections cancel when the same pool is both. *)
Theorem C06_lottery_counts_indices : forall l pre post k d,
  SInv l -> 0 < staked l -> dlgs l = pre ++ (k, d) :: post ->
  count_below (fun i => Nat.eqb (lottery_pos l i) (length pre)) (staked l) + ind (is_last_funded d post)
  = tot d + ind (is_first pre).
Proof. exact lottery_counts_indices. Qed.
Print Assumptions C06_lottery_counts_indices.

(* ... hence to within one coin unit for every pool *)
Theorem C06_lottery_counts_within_one : forall l pre post k d,
  SInv l -> 0 < staked l -> dlgs l = pre ++ (k, d) :: post ->
  let c := count_below (fun i => Nat.eqb (lottery_pos l i) (length pre)) (staked l) in
  c <= tot d + 1 /\ tot d <= c + 1.
Proof. exact lottery_counts_within_one. Qed.
Print Assumptions C06_lottery_counts_within_one.

(* the same count by identifier (what GetStaker returns), the identifiers of the table being distinct (for the ledgers of
   reachable nodes and of chains from the empty ledger that is proved: C06_pool_ids_distinct_reachable / _chain below) *)
Theorem C06_lottery_counts_indices_by_id : forall l pre k d post,
  SInv l -> 0 < staked l -> NoDup (map fst (dlgs l)) -> dlgs l = pre ++ (k, d) :: post ->
  count_below (elects l (d_id d)) (staked l) + ind (is_last_funded d post) = tot d + ind (is_first pre).
Proof. exact lottery_counts_indices_by_id. Qed.
Print Assumptions C06_lottery_counts_indices_by_id.

(* (2) HASH VALUES.  Of the 2^128 lottery values, 2^128 / S or one more are reduced to any given coin index ... *)
Theorem C06_lottery_values_per_index : forall s i,
  0 < s -> i < s ->
  count_below (fun hv => hv mod s =? i) two128 = two128 / s + (if i <? two128 mod s then 1 else 0).
Proof. exact (fun s i => count_residue s two128 i). Qed.
Print Assumptions C06_lottery_values_per_index.

(* ... so a pool chosen for c coin indices is chosen for  (2^128 / S) * c + e  lottery values, 0 <= e <= c ... *)
Theorem C06_lottery_counts_values : forall l (pre : list (N * dlg)),
  0 < staked l ->
  let c := count_below (fun i => Nat.eqb (lottery_pos l i) (length pre)) (staked l) in
  let n := count_below (fun hv => Nat.eqb (lottery_pos l hv) (length pre)) two128 in
  exists e, n = (two128 / staked l) * c + e /\ e <= c /\ e <= two128 mod staked l.
Proof. exact (fun l pre Hpos => lottery_counts_values l pre Hpos two128). Qed.
Print Assumptions C06_lottery_counts_values.

(* ... and its share n / 2^128 of the lottery values is proportional to its share  tot d / S  of the stake to within
   one coin unit:   (tot d - 1) / S - tot d / 2^128  <=  n / 2^128  <=  (tot d + 1) / S + (tot d + 1) / 2^128
   (cross-multiplied; the terms over 2^128 are the bias of mod, at most 2^-64). *)
Theorem C06_lottery_share_of_hash_values : forall l pre post k d,
  SInv l -> 0 < staked l -> dlgs l = pre ++ (k, d) :: post ->
  let n := count_below (fun hv => Nat.eqb (lottery_pos l hv) (length pre)) two128 in
  n * staked l <= (tot d + 1) * two128 + (tot d + 1) * staked l /\
  tot d * two128 <= (n + tot d) * staked l + two128.
Proof. exact (fun l pre post k d HI Hpos Eds => lottery_share_of_values l pre post k d HI Hpos Eds two128). Qed.
Print Assumptions C06_lottery_share_of_hash_values.

Theorem C06_lottery_share_of_hash_values_by_id : forall l pre k d post,
  SInv l -> 0 < staked l -> NoDup (map fst (dlgs l)) -> dlgs l = pre ++ (k, d) :: post ->
  let n := count_below (elects l (d_id d)) two128 in
  n * staked l <= (tot d + 1) * two128 + (tot d + 1) * staked l /\
  tot d * two128 <= (n + tot d) * staked l + two128.
Proof. exact (fun l pre k d post => lottery_share_of_values_by_id l pre k d post two128). Qed.
Print Assumptions C06_lottery_share_of_hash_values_by_id.

(* THE IDENTIFIERS OF THE TABLE ARE DISTINCT - no longer a hypothesis for the ledgers that occur (Proofs/KeyInv.v).
   "No two records under one id" is an invariant of the delegate table together with its database-key order: the empty
   table has it; put_dlg (replace the record of the same id, else insert in key order: because the table is ordered, an
   id inserted before a record with a larger key cannot occur again behind it) and del_dlg keep it; nothing else writes
   the table.  Hence every ledger operation keeps it - ApplyTxToState, ApplyBlockToState, RemoveTxFromState,
   RemoveBlockFromState, with no condition on the transactions - and so does every delivery. *)
Theorem C06_pool_ids_distinct_kept :
  (dsorted (dlgs ledger0) /\ NoDup (map fst (dlgs ledger0))) /\
  (forall l d, dsorted (dlgs l) -> NoDup (map fst (dlgs l)) ->
     dsorted (dlgs (put_dlg l d)) /\ NoDup (map fst (dlgs (put_dlg l d)))) /\
  (forall l id, dsorted (dlgs l) -> NoDup (map fst (dlgs l)) ->
     dsorted (dlgs (del_dlg l id)) /\ NoDup (map fst (dlgs (del_dlg l id)))).
Proof. exact (conj (proj2 KInv0) (conj put_dlg_ids_distinct del_dlg_ids_distinct)). Qed.
Print Assumptions C06_pool_ids_distinct_kept.

(* KInv l = at most one account record per address, delegate table in key order, at most one pool record per id *)
Theorem C06_pool_ids_distinct_ledger_ops : forall cfg genesis_addr,
  (forall l t h bh top_h l', KInv l -> apply_tx cfg l t h bh top_h = Ok l' -> KInv l') /\
  (forall l b top_h l', KInv l -> apply_block cfg genesis_addr l b top_h = Ok l' -> KInv l') /\
  (forall bs l l', KInv l -> apply_chain cfg genesis_addr l bs = Ok l' -> KInv l') /\
  (forall l t bh top_h l', KInv l -> remove_tx cfg l t bh top_h = Ok l' -> KInv l') /\
  (forall l b top_h l', KInv l -> remove_block cfg genesis_addr l b top_h = Ok l' -> KInv l').
Proof.
  exact (fun cfg ga => conj (KInv_apply_tx cfg) (conj (KInv_apply_block cfg ga) (conj (KInv_apply_chain cfg ga)
           (conj (KInv_remove_tx cfg) (KInv_remove_block cfg ga))))).
Qed.
Print Assumptions C06_pool_ids_distinct_ledger_ops.

(* every node state reachable from genesis by any deliveries (extensions, reorganisations, refusals): NO premise on
   the blocks *)
Theorem C06_pool_ids_distinct_reachable : forall cfg genesis_addr team_key g n0 ops,
  node0 cfg genesis_addr g = Ok n0 ->
  NoDup (map fst (dlgs (ldg (run cfg genesis_addr team_key n0 ops)))).
Proof. exact (fun cfg ga tk g n0 ops H => proj2 (proj2 (reachable_KInv cfg ga tk g n0 ops H))). Qed.
Print Assumptions C06_pool_ids_distinct_reachable.

(* every chain of blocks applied to the empty ledger *)
Theorem C06_pool_ids_distinct_chain : forall cfg genesis_addr bs l,
  apply_chain cfg genesis_addr ledger0 bs = Ok l -> NoDup (map fst (dlgs l)).
Proof. exact chain_ids_distinct. Qed.
Print Assumptions C06_pool_ids_distinct_chain.

(* THE LOTTERY BY IDENTIFIER WITHOUT THE HYPOTHESIS, on the ledger of a reachable node ... *)
Theorem C06_lottery_counts_indices_by_id_reachable : forall cfg genesis_addr team_key g n0 ops pre k d post,
  node0 cfg genesis_addr g = Ok n0 ->
  let l := ldg (run cfg genesis_addr team_key n0 ops) in
  SInv l -> 0 < staked l -> dlgs l = pre ++ (k, d) :: post ->
  count_below (elects l (d_id d)) (staked l) + ind (is_last_funded d post) = tot d + ind (is_first pre).
Proof. exact reachable_lottery_counts_indices_by_id. Qed.
Print Assumptions C06_lottery_counts_indices_by_id_reachable.

Theorem C06_lottery_share_of_hash_values_by_id_reachable : forall cfg genesis_addr team_key g n0 ops pre k d post,
  node0 cfg genesis_addr g = Ok n0 ->
  let l := ldg (run cfg genesis_addr team_key n0 ops) in
  SInv l -> 0 < staked l -> dlgs l = pre ++ (k, d) :: post ->
  let n := count_below (elects l (d_id d)) two128 in
  n * staked l <= (tot d + 1) * two128 + (tot d + 1) * staked l /\
  tot d * two128 <= (n + tot d) * staked l + two128.
Proof. exact (fun cfg ga tk g n0 ops pre k d post => reachable_lottery_share_by_id cfg ga tk g n0 ops pre k d post two128). Qed.
Print Assumptions C06_lottery_share_of_hash_values_by_id_reachable.

(* ... on the ledger after any chain of blocks from the empty ledger ... *)
Theorem C06_lottery_counts_indices_by_id_chain : forall cfg genesis_addr bs l pre k d post,
  apply_chain cfg genesis_addr ledger0 bs = Ok l ->
  SInv l -> 0 < staked l -> dlgs l = pre ++ (k, d) :: post ->
  count_below (elects l (d_id d)) (staked l) + ind (is_last_funded d post) = tot d + ind (is_first pre).
Proof. exact chain_lottery_counts_indices_by_id. Qed.
Print Assumptions C06_lottery_counts_indices_by_id_chain.

Theorem C06_lottery_share_of_hash_values_by_id_chain : forall cfg genesis_addr bs l pre k d post,
  apply_chain cfg genesis_addr ledger0 bs = Ok l ->
  SInv l -> 0 < staked l -> dlgs l = pre ++ (k, d) :: post ->
  let n := count_below (elects l (d_id d)) two128 in
  n * staked l <= (tot d + 1) * two128 + (tot d + 1) * staked l /\
  tot d * two128 <= (n + tot d) * staked l + two128.
Proof. exact (fun cfg ga bs l pre k d post => chain_lottery_share_by_id cfg ga bs l pre k d post two128). Qed.
Print Assumptions C06_lottery_share_of_hash_values_by_id_chain.

(* ... and with the staked-sum invariant discharged as well (premises of C03_ledger_is_replay, Props/C03.v; SInv of the
   node's ledger is C01_reachable_staked_sum): for every reachable node with something staked, every pool of its table
   is elected by identifier for a share of the 2^128 lottery values proportional to its stake. *)
Theorem C06_lottery_counts_indices_by_id_node : forall cfg genesis_addr team_key g n0 ops,
  cfg_ok_emission cfg = true -> cfg_ok_feepos cfg = true ->
  node0 cfg genesis_addr g = Ok n0 -> b_height g = 0 -> b_cd g = b_diff g ->
  N.of_nat (length ops) < two64 - 1 ->
  Forall (tx_c cfg) (b_txs g) ->
  (forall h b, get_block (run cfg genesis_addr team_key n0 ops) h = Some b ->
     Forall (fun t => wf_tx cfg t /\ ver_ok t = true) (b_txs b)) ->
  (forall bs, up (b_hash g) (blocks (run cfg genesis_addr team_key n0 ops)) (b_hash g) bs ->
     NoDup (bkeys g ++ flat_map bkeys bs) /\ c0 g + bnouts bs < two64 /\ c0 g + bntx bs < two64) ->
  forall pre k d post,
  let l := ldg (run cfg genesis_addr team_key n0 ops) in
  0 < staked l -> dlgs l = pre ++ (k, d) :: post ->
  count_below (elects l (d_id d)) (staked l) + ind (is_last_funded d post) = tot d + ind (is_first pre).
Proof. exact reachable_lottery_counts_indices_by_id_full. Qed.
Print Assumptions C06_lottery_counts_indices_by_id_node.

Theorem C06_lottery_share_of_hash_values_by_id_node : forall cfg genesis_addr team_key g n0 ops,
  cfg_ok_emission cfg = true -> cfg_ok_feepos cfg = true ->
  node0 cfg genesis_addr g = Ok n0 -> b_height g = 0 -> b_cd g = b_diff g ->
  N.of_nat (length ops) < two64 - 1 ->
  Forall (tx_c cfg) (b_txs g) ->
  (forall h b, get_block (run cfg genesis_addr team_key n0 ops) h = Some b ->
     Forall (fun t => wf_tx cfg t /\ ver_ok t = true) (b_txs b)) ->
  (forall bs, up (b_hash g) (blocks (run cfg genesis_addr team_key n0 ops)) (b_hash g) bs ->
     NoDup (bkeys g ++ flat_map bkeys bs) /\ c0 g + bnouts bs < two64 /\ c0 g + bntx bs < two64) ->
  forall pre k d post,
  let l := ldg (run cfg genesis_addr team_key n0 ops) in
  0 < staked l -> dlgs l = pre ++ (k, d) :: post ->
  let n := count_below (elects l (d_id d)) two128 in
  n * staked l <= (tot d + 1) * two128 + (tot d + 1) * staked l /\
  tot d * two128 <= (n + tot d) * staked l + two128.
Proof.
  exact (fun cfg ga tk g n0 ops Hok Hfp H0 Hg0 Hcd Hlen Hgen Hty Hp pre k d post =>
           reachable_lottery_share_by_id_full cfg ga tk g n0 ops Hok Hfp H0 Hg0 Hcd Hlen Hgen Hty Hp pre k d post two128).
Qed.
Print Assumptions C06_lottery_share_of_hash_values_by_id_node.

(* a delegate with no stake never receives a staker reward *)
Theorem C06_no_stake_no_reward : forall l bh o l',
  apply_pos_reward l bh o = Ok l' ->
  exists d t, get_dlg l (o_extra o) = Some d /\ d_funds d <> [] /\ total_amount d = Ok t /\ t <> 0.
Proof. exact pos_reward_needs_stake. Qed.
Print Assumptions C06_no_stake_no_reward.

(* every staker reward sums exactly: the pool's total and the network-wide staked total grow by the reward *)
Theorem C06_reward_exact : forall l bh o l',
  apply_pos_reward l bh o = Ok l' ->
  exists d d' t t',
    get_dlg l (o_extra o) = Some d /\ total_amount d = Ok t /\
    get_dlg l' (d_id d) = Some d' /\ total_amount d' = Ok t' /\
    t' = wadd t (o_amt o) /\ staked l' = wadd (staked l) (o_amt o) /\
    d_id d' = d_id d /\ d_owner d' = d_owner d.
Proof. exact pos_reward_exact. Qed.
Print Assumptions C06_reward_exact.

(* ... split among the funds in proportion to their size: each fund f receives floor(floor(f*r/100)*99/total) *)
Theorem C06_reward_shares : forall fs reward total added r,
  pos_distribute fs reward total added = Ok r ->
  fst r = map (fun f => mkfund (f_owner f) (wadd (f_amt f) (share f reward total)) (f_unlock f)) fs /\
  snd r = fold_left (fun a f => wadd a (share f reward total)) fs added /\
  Forall (fun f => f_amt f <= wadd (f_amt f) (share f reward total)) fs.
Proof. exact pos_distribute_spec. Qed.
Print Assumptions C06_reward_shares.

(* staked coins leave a pool only by their owner, only at or after the unlock height, never more than the fund *)
Theorem C06_lock_respected : forall l amt id signer top_h txid pu l',
  apply_unstake l amt id signer top_h txid false pu = Ok l' ->
  exists d f, get_dlg l id = Some d /\ find_fund (d_funds d) signer = Some f /\
    f_owner f = signer /\ f_unlock f <= top_h /\ amt <= f_amt f.
Proof. exact unstake_respects_lock. Qed.
Print Assumptions C06_lock_respected.

Theorem C06_stake_sets_lock : forall cfg l amt id pu signer top_h txid l',
  apply_stake cfg l amt id pu signer top_h txid false = Ok l' ->
  exists d d', get_dlg l id = Some d /\ get_dlg l' (d_id d) = Some d' /\
    exists f, find_fund (d_funds d') signer = Some f /\ f_unlock f = wadd top_h (unlock_time cfg).
Proof. exact stake_sets_lock. Qed.
Print Assumptions C06_stake_sets_lock.

(* a block validated as staked carries a signature by the entitled delegate's owner key over the block it names as
   entitling it, the delegate is the one published by that block, and something is staked *)
Theorem C06_staked_only_if_signed : forall cfg n b prev,
  check_block cfg n b prev = Ok tt ->
  (0 <? b_version b) = true -> (minidag_ancestors cfg <? b_height b) = true ->
  exists old, get_block n (staked_hash b) = Some old /\ b_next_delegate_id old = b_delegate_id b /\
    (b_sig_blank b = false ->
       staked (ldg n) <> 0 /\
       exists d, get_dlg (ldg n) (b_delegate_id b) = Some d /\ b_sig_key b = d_owner d /\ b_sig_key b <> 0 /\
                 b_sig_msg b = staked_hash b).
Proof. exact staked_block_signed. Qed.
Print Assumptions C06_staked_only_if_signed.

(* full weight in fork choice iff staked *)
Theorem C06_weight : forall b c,
  contribution b = Ok c ->
  let full := b_diff b + b_diff b * (wmul 2 (N.of_nat (length (b_sides b)))) / 3 in
  c = if (0 <? b_version b) && b_sig_blank b then full / 2 else full.
Proof. exact contribution_weight. Qed.
Print Assumptions C06_weight.
