(* Property C08 - difficulty retarget.  Only theorem statements, closed by [exact].
   next_difficulty cfg parent_height parent_ts parent_diff grand_ts is a function of the parent's height, timestamp
   and difficulty and of the grandparent's timestamp only ("depends only on parent and grandparent" is its type). *)
From Virel Require Import Lib.Config Lib.U64 Lib.U128 Model.Difficulty Proofs.U128 Proofs.Difficulty Gen.Params.
Open Scope N_scope.

(* the side condition holds at every generated configuration (non-vacuity of everything below) *)
Theorem C08_cfg_ok_mainnet : cfg_ok_difficulty cfg_mainnet = true. Proof. vm_compute. reflexivity. Qed.
Theorem C08_cfg_ok_testnet : cfg_ok_difficulty cfg_testnet = true. Proof. vm_compute. reflexivity. Qed.
Theorem C08_cfg_ok_unittest : cfg_ok_difficulty cfg_unittest = true. Proof. vm_compute. reflexivity. Qed.

(* ---- util/uint128: the word-level code computes the exact operation and panics exactly when it must ---- *)

Theorem C08_u128_mul64 : forall u v, u < two128 -> v < two64 ->
  mul64 u v = if u * v <? two128 then Ok (u * v) else Panic.
Proof. exact mul64_spec. Qed.
Print Assumptions C08_u128_mul64.

Theorem C08_u128_quorem64 : forall u v, u < two128 -> v < two64 ->
  quorem64 u v = if v =? 0 then Panic else Ok (u / v, u mod v).
Proof. exact quorem64_spec. Qed.
Print Assumptions C08_u128_quorem64.

Theorem C08_u128_quorem : forall u v, u < two128 -> v < two128 ->
  quorem u v = if v =? 0 then Panic else Ok (u / v, u mod v).
Proof. exact quorem_spec. Qed.
Print Assumptions C08_u128_quorem.

Theorem C08_u128_add : forall u v, u < two128 -> v < two128 ->
  add u v = if u + v <? two128 then Ok (u + v) else Panic.
Proof. exact add_spec. Qed.
Print Assumptions C08_u128_add.

(* ---- difficultyEMA ---- *)

(* exact rational formula rounded down, whenever the product fits 128 bits and the denominator does not wrap *)
Theorem C08_ema_exact : forall cfg, cfg_ok_difficulty cfg = true ->
  forall st d,
  d * (difficulty_n cfg * (target_block_time cfg * 1000)) < two128 ->
  (difficulty_n cfg - 1) * (target_block_time cfg * 1000) + st < two64 ->
  1 <= (difficulty_n cfg - 1) * (target_block_time cfg * 1000) + st ->
  difficulty_ema cfg st d =
    Ok (d * difficulty_n cfg * (target_block_time cfg * 1000) / ((difficulty_n cfg - 1) * (target_block_time cfg * 1000) + st)).
Proof. exact ema_exact. Qed.
Print Assumptions C08_ema_exact.

(* ---- GetNextDifficulty ---- *)

(* never below the configured minimum and never zero: for ALL inputs, whenever a value is returned *)
Theorem C08_nd_ge_min : forall cfg, cfg_ok_difficulty cfg = true ->
  forall h pts d gts r, next_difficulty cfg h pts d gts = Ok r -> min_difficulty cfg <= r /\ r <> 0.
Proof. exact nd_ge_min. Qed.
Print Assumptions C08_nd_ge_min.

(* exact characterisation of the panics: Mul64 overflow, or the wrapped uint64 denominator is 0 *)
Theorem C08_nd_panic_iff : forall cfg, cfg_ok_difficulty cfg = true ->
  forall h pts d gts, 2 <= h -> d < two128 ->
  (next_difficulty cfg h pts d gts = Panic <->
   two128 <= d * (difficulty_n cfg * (target_block_time cfg * 1000)) \/
   wadd ((difficulty_n cfg - 1) * (target_block_time cfg * 1000)) (lttc_adjust cfg h pts (delta0 pts gts)) = 0).
Proof. exact nd_panic_iff. Qed.
Print Assumptions C08_nd_panic_iff.

(* no panic, weakest form proved: any height, any uint64 timestamps (even decreasing ones, whose difference wraps),
   provided the product fits 128 bits and the clamped wrapped solve time is not exactly 2^64 - (N-1)*T *)
Theorem C08_nd_no_panic : forall cfg, cfg_ok_difficulty cfg = true ->
  forall h pts d gts,
  d * (difficulty_n cfg * (target_block_time cfg * 1000)) < two128 ->
  delta0 pts gts + (difficulty_n cfg - 1) * (target_block_time cfg * 1000) <> two64 ->
  exists r, next_difficulty cfg h pts d gts = Ok r.
Proof. exact nd_no_panic. Qed.
Print Assumptions C08_nd_no_panic.

(* no panic on the stated domain: every height, difficulties up to 2^100, consecutive timestamps below 2^63 ms *)
Theorem C08_nd_no_panic_domain : forall cfg, cfg_ok_difficulty cfg = true ->
  forall h pts d gts, d <= two100 -> gts <= pts -> pts < two63 ->
  exists r, next_difficulty cfg h pts d gts = Ok r.
Proof. exact nd_no_panic_domain. Qed.
Print Assumptions C08_nd_no_panic_domain.

(* outside the domain, at and above the Mul64 overflow edge 2^128/(N*T) every call panics (for heights >= 2) *)
Theorem C08_nd_panic_overflow : forall cfg, cfg_ok_difficulty cfg = true ->
  forall h pts d gts, 2 <= h -> d < two128 ->
  two128 <= d * (difficulty_n cfg * (target_block_time cfg * 1000)) ->
  next_difficulty cfg h pts d gts = Panic.
Proof. exact nd_panic_overflow. Qed.
Print Assumptions C08_nd_panic_overflow.

(* agrees with exact rational arithmetic rounded down:
     next = MIN                                                         for parent height < 2
     next = max MIN floor( d*N*T / ((N-1)*T + st') )                    otherwise,
   st' = max 100 (pts - gts), scaled by 3/2 (rounded down) when pts - (h*T + G) > 2*N*T, by 2/3 (rounded down) when
   pts - (h*T + G) < -2*N*T (LTTC, only when G <> 0), all in unbounded integers (spec_next / spec_solve_time / spec_ema
   of Model/Difficulty.v).  Hypotheses: no uint64/int64 wrap can occur. *)
Theorem C08_nd_exact : forall cfg, cfg_ok_difficulty cfg = true ->
  forall h pts d gts,
  d * (difficulty_n cfg * (target_block_time cfg * 1000)) < two128 ->
  gts <= pts -> pts < two63 -> (pts - gts) * 3 < two64 ->
  h * (target_block_time cfg * 1000) + genesis_timestamp cfg < two63 ->
  next_difficulty cfg h pts d gts = Ok (spec_next cfg h pts d gts).
Proof. exact nd_exact. Qed.
Print Assumptions C08_nd_exact.

(* the adjusted solve time of the formula is at least 66 ms: the denominator is never small *)
Theorem C08_spec_solve_time_bounds : forall cfg h pts gts,
  66 <= spec_solve_time cfg h pts gts /\ spec_solve_time cfg h pts gts <= N.max 100 (pts - gts) * 3 / 2.
Proof. exact spec_solve_time_bounds. Qed.
Print Assumptions C08_spec_solve_time_bounds.

(* never rises by more than the smoothing bound N/(N-1) per block; needs only that the unscaled denominator does not wrap *)
Theorem C08_nd_rise_bound : forall cfg, cfg_ok_difficulty cfg = true ->
  forall h pts d gts r,
  min_difficulty cfg <= d -> d < two128 ->
  delta0 pts gts + (difficulty_n cfg - 1) * (target_block_time cfg * 1000) < two64 ->
  next_difficulty cfg h pts d gts = Ok r -> r * (difficulty_n cfg - 1) <= d * difficulty_n cfg.
Proof. exact nd_rise_bound. Qed.
Print Assumptions C08_nd_rise_bound.

Theorem C08_nd_rise_bound_domain : forall cfg, cfg_ok_difficulty cfg = true ->
  forall h pts d gts r,
  min_difficulty cfg <= d -> d < two128 -> gts <= pts -> pts < two63 ->
  next_difficulty cfg h pts d gts = Ok r -> r * (difficulty_n cfg - 1) <= d * difficulty_n cfg.
Proof. exact nd_rise_bound_domain. Qed.
Print Assumptions C08_nd_rise_bound_domain.

(* never rises when the solve time grows: antitone in the parent timestamp, everything else fixed *)
Theorem C08_nd_antitone : forall cfg, cfg_ok_difficulty cfg = true ->
  forall h pts pts' d gts r r',
  d * (difficulty_n cfg * (target_block_time cfg * 1000)) < two128 ->
  gts <= pts -> pts <= pts' -> pts' < two63 -> (pts' - gts) * 3 < two64 ->
  h * (target_block_time cfg * 1000) + genesis_timestamp cfg < two63 ->
  next_difficulty cfg h pts d gts = Ok r -> next_difficulty cfg h pts' d gts = Ok r' -> r' <= r.
Proof. exact nd_antitone. Qed.
Print Assumptions C08_nd_antitone.

(* ---- tightness of the timestamp hypotheses: with a DECREASING timestamp (rejected by the protocol rule of checkBlock,
        outside the property's domain) the uint64 subtraction wraps and the retarget panics (denominator 0) or jumps by
        the factor N*T (denominator 1).  [sched_ok] is a bound on the constants, true at every configuration. ---- *)

Definition sched_ok (cfg : config) : Prop :=
  2 * (target_block_time cfg * 1000) + genesis_timestamp cfg + (difficulty_n cfg - 1) * (target_block_time cfg * 1000) < two63.
Theorem C08_sched_ok_mainnet : sched_ok cfg_mainnet. Proof. vm_compute. reflexivity. Qed.
Theorem C08_sched_ok_testnet : sched_ok cfg_testnet. Proof. vm_compute. reflexivity. Qed.
Theorem C08_sched_ok_unittest : sched_ok cfg_unittest. Proof. vm_compute. reflexivity. Qed.

Theorem C08_outside_decreasing_timestamps_panic : forall cfg, cfg_ok_difficulty cfg = true -> sched_ok cfg ->
  exists h pts d gts, min_difficulty cfg <= d /\ d <= two100 /\ gts < two64 /\ pts < gts /\
    next_difficulty cfg h pts d gts = Panic.
Proof. exact nd_panic_decreasing_timestamps. Qed.
Print Assumptions C08_outside_decreasing_timestamps_panic.

Theorem C08_outside_decreasing_timestamps_rise : forall cfg, cfg_ok_difficulty cfg = true -> sched_ok cfg ->
  exists h pts d gts r, min_difficulty cfg <= d /\ d <= two100 /\ gts < two64 /\ pts < gts /\
    next_difficulty cfg h pts d gts = Ok r /\ d * difficulty_n cfg < r * (difficulty_n cfg - 1).
Proof. exact nd_rise_unbounded_decreasing_timestamps. Qed.
Print Assumptions C08_outside_decreasing_timestamps_rise.

(* ---- checking the proof of work: uint128.Max.Div(diff) ---- *)

Theorem C08_pow_target_defined : forall d, 1 <= d -> d < two128 -> pow_target d = Ok ((two128 - 1) / d).
Proof. exact pow_target_spec. Qed.
Print Assumptions C08_pow_target_defined.

Theorem C08_valid_pow_value : forall val d, 1 <= d -> d < two128 ->
  valid_pow_value val d = Ok (val <=? (two128 - 1) / d).
Proof. exact valid_pow_value_spec. Qed.
Print Assumptions C08_valid_pow_value.

(* side blocks: Difficulty.Mul64(2).Div64(3) is defined below 2^127 (and panics from 2^127 on) *)
Theorem C08_side_difficulty_defined : forall d, d * 2 < two128 -> side_difficulty d = Ok (2 * d / 3).
Proof. exact side_difficulty_spec. Qed.
Print Assumptions C08_side_difficulty_defined.

(* ---- stratum job target util.GetTarget: the full-strength statement (defined for every difficulty >= 1) is FALSE ---- *)

Theorem C08_get_target_refuted : exists d, 1 <= d /\ d <= two100 /\ get_target d = Panic.
Proof. exact get_target_refuted. Qed.
Print Assumptions C08_get_target_refuted.

Theorem C08_get_target_ignores_high_word_refuted :
  exists d t, two64 < d /\ d <= two100 /\ get_target d = Ok t /\ t <> max_u64 / d.
Proof. exact get_target_ignores_high_word. Qed.
Print Assumptions C08_get_target_ignores_high_word_refuted.

Theorem C08_get_target_partial : forall d, 1 <= d -> d < two64 -> get_target d = Ok (max_u64 / d).
Proof. exact get_target_partial. Qed.
Print Assumptions C08_get_target_partial.

(* ---- the retarget that validation demands is this function ----
   The node model (Model/Node.v: check_block demands b_diff = get_next_difficulty of the parent; every node-level
   theorem of C04/C05/C09/C10 speaks about that one) carries its own, independently written transcription of
   GetNextDifficulty over plain N arithmetic.  It computes the same outcome (value, or panic) as the word-level
   transcription above, for every parent height >= 2 (below 2 both return the minimum), every timestamp and every
   128-bit difficulty: the theorems of this file are theorems about the difficulty the block rules enforce. *)
From Virel Require Model.Node Proofs.DifficultyLink.
Theorem C08_node_model_uses_this_retarget : forall cfg, cfg_ok_difficulty cfg = true ->
  forall h ts d gts, 2 <= h -> ts < two64 -> d < two128 ->
  DifficultyLink.same_outcome (Node.next_difficulty cfg h ts d gts) (next_difficulty cfg h ts d gts).
Proof. exact DifficultyLink.next_difficulty_agree. Qed.
Print Assumptions C08_node_model_uses_this_retarget.
