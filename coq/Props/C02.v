(* Property C02 - only authorised, well-formed transactions move coins, exactly as the rules say.
   The rules are Spec/Rules.v (preconditions and effects in exact arithmetic).  Statements only. *)
From Virel Require Import Lib.Config Lib.U64 Lib.AMap Model.Emission Model.Ledger Model.Node Spec.Rules
  Proofs.Conservation Proofs.Pointwise Proofs.Emission Proofs.Refine Proofs.Refine2 Proofs.Refine2W Proofs.Refine3 Proofs.Refine4
  Proofs.StakedSum Proofs.NodeBasics
  Gen.Params.
Open Scope N_scope.

(* FULL STATEMENT: for every kind, whenever the code applies a stateless-valid transaction, the rules accept it and
   prescribe the same ledger (accounts, delegate records as sets of funds, staked total). *)
Definition C02_full : Prop := forall cfg team_key l t h bh l1,
  total_bal l < two64 -> wf_tx cfg t ->
  prevalidate_tx cfg team_key t h = Ok tt ->
  apply_tx cfg l t h bh (h - 1) = Ok l1 ->
  fst (spec_tx cfg team_key l t h) = 0 /\ same_accounts l1 (snd (spec_tx cfg team_key l t h)) /\
  staked l1 = staked (snd (spec_tx cfg team_key l t h)).

(* C02_full, read literally (EVERY transaction object, EVERY ledger, no side condition), is FALSE: see
   C02_full_refuted below.  It holds under the explicit hypotheses of C02_tx_refines (all five kinds). *)

(* Transfers (all ledgers, all amounts, 1..32 outputs, duplicates, transfers to self, to pools and to the burn
   address): the rules accept what the code applies - signature by the debited account's key, next nonce, minimum fee,
   size, version regime, amounts + fee within 64 bits and within the balance - and both produce the same accounts,
   delegate table and staked total.  "partial" = this statement is the transfer case only; the other four kinds are
   the next four theorems and C02_tx_refines joins the five. *)
Theorem C02_transfer_refines_partial : forall cfg team_key l t outs0 h bh top_h l1,
  cfg_ok_fee cfg = true ->
  tx_data t = TTransfer outs0 -> (tx_version t = 0 \/ tx_version t = 1) ->
  total_bal l < two64 -> wf_tx cfg t ->
  (forall a, inc (acct_at l a) + N.of_nat (length outs0) < two64) ->
  nonce (acct_at l (addr_of_key (tx_signer t))) + 1 < two64 ->
  prevalidate_tx cfg team_key t h = Ok tt ->
  apply_tx cfg l t h bh top_h = Ok l1 ->
  let '(c, ls) := spec_tx cfg team_key l t h in
  c = 0 /\ same_accounts l1 ls /\ dlgs l1 = dlgs ls /\ staked l1 = staked ls.
Proof. exact transfer_refines. Qed.
Print Assumptions C02_transfer_refines_partial.

(* ---- the four staking kinds.  Hypotheses common to all: the side condition on the fee constants, uint64-typed
   amounts, sum of balances < 2^64, counters and nonce not at the very end of the uint64 range, stateless validation
   passed, version byte = the one of the payload kind.  For stake/unstake also the staked-total invariant SInv of C01
   (every reachable ledger has it: C01_staked_sum_chain) and top height = h - 1.
   Delegate side: the two delegate tables are EQUAL AS LISTS (same records in the same database order, funds in the
   same order) - stronger than the comparison of Check/C02.v (records as sets of funds). ---- *)

(* version 2: burns REGISTER_DELEGATE_BURN to the burn address, files an empty pool owned by the signer's key under a
   free id (the rules' clauses 21-25: name length, id <> 0, id 1 reserved to the team key, id free, funds) *)
Theorem C02_register_refines : forall cfg team_key l t nl name id h bh top_h l1,
  cfg_ok_fee cfg = true ->
  tx_data t = TRegister nl name id -> tx_version t = 2 ->
  total_bal l < two64 -> wf_tx cfg t ->
  (forall a, inc (acct_at l a) + 1 < two64) ->
  nonce (acct_at l (addr_of_key (tx_signer t))) + 1 < two64 ->
  prevalidate_tx cfg team_key t h = Ok tt ->
  apply_tx cfg l t h bh top_h = Ok l1 ->
  let '(c, ls) := spec_tx cfg team_key l t h in
  c = 0 /\ same_accounts l1 ls /\ dlgs l1 = dlgs ls /\ staked l1 = staked ls.
Proof. exact register_refines. Qed.
Print Assumptions C02_register_refines.

(* version 3: the account's pool changes only when the transaction names the current pool, the signer has no fund
   left in it and the new pool exists (clauses 31-34) *)
Theorem C02_set_delegate_refines : forall cfg team_key l t nw pv h bh top_h l1,
  cfg_ok_fee cfg = true ->
  tx_data t = TSetDelegate nw pv -> tx_version t = 3 ->
  total_bal l < two64 -> wf_tx cfg t ->
  (forall a, inc (acct_at l a) + 1 < two64) ->
  nonce (acct_at l (addr_of_key (tx_signer t))) + 1 < two64 ->
  prevalidate_tx cfg team_key t h = Ok tt ->
  apply_tx cfg l t h bh top_h = Ok l1 ->
  let '(c, ls) := spec_tx cfg team_key l t h in
  c = 0 /\ same_accounts l1 ls /\ dlgs l1 = dlgs ls /\ staked l1 = staked ls.
Proof. exact set_delegate_refines. Qed.
Print Assumptions C02_set_delegate_refines.

(* version 4: the pool is the account's pool, amount >= minimum stake, amount + fee debited, amount credited to the
   pool address, the signer's fund created or topped up (exact sum), unlock height = tip + lock time, staked total
   raised by the amount (clauses 40-45) *)
Theorem C02_stake_refines : forall cfg team_key l t amt id pu h bh top_h l1,
  cfg_ok_fee cfg = true ->
  tx_data t = TStake amt id pu -> tx_version t = 4 ->
  total_bal l < two64 -> wf_tx cfg t -> SInv l ->
  (forall a, inc (acct_at l a) + 1 < two64) ->
  nonce (acct_at l (addr_of_key (tx_signer t))) + 1 < two64 ->
  top_h = h - 1 -> h - 1 + unlock_time cfg < two64 ->
  prevalidate_tx cfg team_key t h = Ok tt ->
  apply_tx cfg l t h bh top_h = Ok l1 ->
  let '(c, ls) := spec_tx cfg team_key l t h in
  c = 0 /\ same_accounts l1 ls /\ dlgs l1 = dlgs ls /\ staked l1 = staked ls.
Proof. exact stake_refines. Qed.
Print Assumptions C02_stake_refines.

(* version 5: only the signer's own fund in the account's pool, only once the tip has reached the unlock height, at
   most the fund, the fee taken out of the amount, fund removed when emptied, staked total lowered (clauses 50-57) *)
Theorem C02_unstake_refines : forall cfg team_key l t amt id h bh top_h l1,
  cfg_ok_fee cfg = true ->
  tx_data t = TUnstake amt id -> tx_version t = 5 ->
  total_bal l < two64 -> wf_tx cfg t -> SInv l ->
  (forall a, inc (acct_at l a) + 1 < two64) ->
  nonce (acct_at l (addr_of_key (tx_signer t))) + 1 < two64 ->
  top_h = h - 1 ->
  prevalidate_tx cfg team_key t h = Ok tt ->
  apply_tx cfg l t h bh top_h = Ok l1 ->
  let '(c, ls) := spec_tx cfg team_key l t h in
  c = 0 /\ same_accounts l1 ls /\ dlgs l1 = dlgs ls /\ staked l1 = staked ls.
Proof. exact unstake_refines. Qed.
Print Assumptions C02_unstake_refines.

(* ALL FIVE KINDS: the full statement under its explicit hypotheses.  [ver_ok t]: version byte 0 with a transfer, or
   the version byte of the payload kind.  [tx_ctr t] = number of outputs of a transfer, 1 otherwise. *)
Theorem C02_tx_refines : forall cfg team_key l t h bh l1,
  cfg_ok_fee cfg = true -> ver_ok t = true ->
  total_bal l < two64 -> wf_tx cfg t -> SInv l ->
  (forall a, inc (acct_at l a) + tx_ctr t < two64) ->
  nonce (acct_at l (addr_of_key (tx_signer t))) + 1 < two64 ->
  h - 1 + unlock_time cfg < two64 ->
  prevalidate_tx cfg team_key t h = Ok tt ->
  apply_tx cfg l t h bh (h - 1) = Ok l1 ->
  fst (spec_tx cfg team_key l t h) = 0 /\ same_accounts l1 (snd (spec_tx cfg team_key l t h)) /\
  dlgs l1 = dlgs (snd (spec_tx cfg team_key l t h)) /\ staked l1 = staked (snd (spec_tx cfg team_key l t h)).
Proof. exact tx_refines. Qed.
Print Assumptions C02_tx_refines.

(* contrapositive: a transaction the rules refuse (any clause) is refused by the code *)
Theorem C02_refused_by_rules_refused_by_code : forall cfg team_key l t h bh,
  cfg_ok_fee cfg = true -> ver_ok t = true ->
  total_bal l < two64 -> wf_tx cfg t -> SInv l ->
  (forall a, inc (acct_at l a) + tx_ctr t < two64) ->
  nonce (acct_at l (addr_of_key (tx_signer t))) + 1 < two64 ->
  h - 1 + unlock_time cfg < two64 ->
  prevalidate_tx cfg team_key t h = Ok tt ->
  fst (spec_tx cfg team_key l t h) <> 0 ->
  forall l1, apply_tx cfg l t h bh (h - 1) <> Ok l1.
Proof. exact refused_by_rules_refused_by_code. Qed.
Print Assumptions C02_refused_by_rules_refused_by_code.

(* ---- the staker reward: ApplyPosReward against the rule.  Every fund gets floor(floor(amount * reward / 100) * 99 /
   pool total) (no 64-bit truncation can occur), the remainder goes to the pool owner's fund (created with unlock
   height 0 when absent); same delegate table (as a list), same staked total; accounts untouched by both. ---- *)
Theorem C02_pos_reward_refines : forall l bh o l1,
  SInv l -> o_amt o < two64 ->
  apply_pos_reward l bh o = Ok l1 ->
  let '(c, ls) := spec_pos_reward l bh (o_extra o) (o_amt o) in
  c = 0 /\ accts l1 = accts ls /\ dlgs l1 = dlgs ls /\ staked l1 = staked ls.
Proof. exact pos_reward_refines. Qed.
Print Assumptions C02_pos_reward_refines.

(* ---- blocks: ApplyBlockToState against the block rule (lottery result, transactions in order with accumulated
   fees, coinbase split, staker reward).
   [tx_side cfg team_key h t] = wf_tx cfg t, ver_ok t = true, prevalidate_tx cfg team_key t h = Ok tt.
   [ctr_ok l K] = every incoming-transfer counter and nonce of l is at least K below 2^64;
   [txs_ctr txs] = sum over the transactions of (tx_ctr t + 1).  cfg_ok_emission: see C01_cfg_ok_*. ---- *)
Theorem C02_block_refines : forall cfg genesis_addr team_key,
  cfg_ok_fee cfg = true -> cfg_ok_emission cfg = true ->
  forall l b l1,
  total_bal l + reward cfg (lb_height b) <= max_supply cfg ->
  Forall (tx_side cfg team_key (lb_height b)) (lb_txs b) -> SInv l ->
  ctr_ok l (txs_ctr (lb_txs b) + 4) ->
  lb_height b - 1 + unlock_time cfg < two64 ->
  apply_block cfg genesis_addr l b (lb_height b - 1) = Ok l1 ->
  let '(c, ls) := spec_block cfg genesis_addr team_key l b in
  c = 0 /\ same_accounts l1 ls /\ dlgs l1 = dlgs ls /\ staked l1 = staked ls.
Proof. exact block_refines_same. Qed.
Print Assumptions C02_block_refines.

Theorem C02_block_refused_by_rules_refused_by_code : forall cfg genesis_addr team_key,
  cfg_ok_fee cfg = true -> cfg_ok_emission cfg = true ->
  forall l b,
  total_bal l + reward cfg (lb_height b) <= max_supply cfg ->
  Forall (tx_side cfg team_key (lb_height b)) (lb_txs b) -> SInv l ->
  ctr_ok l (txs_ctr (lb_txs b) + 4) ->
  lb_height b - 1 + unlock_time cfg < two64 ->
  fst (spec_block cfg genesis_addr team_key l b) <> 0 ->
  forall l1, apply_block cfg genesis_addr l b (lb_height b - 1) <> Ok l1.
Proof. exact block_refused_by_rules_refused_by_code. Qed.
Print Assumptions C02_block_refused_by_rules_refused_by_code.

(* ---- chains: apply_chain against ledger_of_chain, from any ledger holding the scheduled supply of height h with the
   invariant, and from the empty ledger (genesis block first) - the latter is what Check/C02.v evaluates on the
   implementation's main chains.  [chain_ctr bs] = sum over the blocks of (txs_ctr + 4). ---- *)
Theorem C02_chain_refines : forall cfg genesis_addr team_key,
  cfg_ok_fee cfg = true -> cfg_ok_emission cfg = true ->
  forall bs l (h : nat) l',
  total_bal l = sum_rewards cfg h -> heights_from h bs ->
  Forall (fun b => Forall (tx_side cfg team_key (lb_height b)) (lb_txs b)) bs -> SInv l ->
  ctr_ok l (chain_ctr bs) ->
  Forall (fun b => lb_height b - 1 + unlock_time cfg < two64) bs ->
  apply_chain cfg genesis_addr l bs = Ok l' ->
  let '(c, ls) := ledger_of_chain cfg genesis_addr team_key l bs in
  c = 0 /\ same_accounts l' ls /\ dlgs l' = dlgs ls /\ staked l' = staked ls.
Proof. exact chain_refines_same. Qed.
Print Assumptions C02_chain_refines.

Theorem C02_chain_refines_from_genesis : forall cfg genesis_addr team_key,
  cfg_ok_fee cfg = true -> cfg_ok_emission cfg = true ->
  forall b0 bs l',
  lb_height b0 = 0 -> heights_from 0 bs ->
  Forall (fun b => Forall (tx_side cfg team_key (lb_height b)) (lb_txs b)) (b0 :: bs) ->
  chain_ctr (b0 :: bs) < two64 ->
  Forall (fun b => lb_height b - 1 + unlock_time cfg < two64) (b0 :: bs) ->
  apply_chain cfg genesis_addr ledger0 (b0 :: bs) = Ok l' ->
  let '(c, ls) := ledger_of_chain cfg genesis_addr team_key ledger0 (b0 :: bs) in
  c = 0 /\ same_accounts l' ls /\ dlgs l' = dlgs ls /\ staked l' = staked ls.
Proof. exact chain_refines_from_genesis. Qed.
Print Assumptions C02_chain_refines_from_genesis.

(* WITNESS (main-net constants): the hypothesis on the version byte cannot be dropped.  A transaction object with a
   Stake payload under version byte 1 passes Prevalidate and is applied by ApplyTxToState as a bare debit/credit
   without any staking effect, while the rules refuse it (clause 8).  Neither Prevalidate nor ApplyTxToState compares
   Version with Data.AssociatedTransactionVersion(); only Deserialize ties the two (so no such object can come from
   the wire or the database). *)
Theorem C02_version_mismatch_witness :
  exists l1,
    ver_ok w_tx = false /\
    prevalidate_tx cfg_mainnet 0 w_tx 300000 = Ok tt /\
    apply_tx cfg_mainnet w_ledger w_tx 300000 1 299999 = Ok l1 /\
    fst (spec_tx cfg_mainnet 0 w_ledger w_tx 300000) = 8 /\
    bal (acct_at l1 (delegate_addr 9)) = 100000000000 /\
    get_dlg l1 9 = Some (mkdlg 9 3 0 []) /\ staked l1 = 0.
Proof. exact version_mismatch_witness. Qed.
Print Assumptions C02_version_mismatch_witness.

Theorem C02_full_refuted : ~ C02_full.
Proof. exact full_statement_refuted. Qed.
Print Assumptions C02_full_refuted.

Theorem C02_cfg_ok_fee_mainnet : cfg_ok_fee cfg_mainnet = true. Proof. vm_compute. reflexivity. Qed.
Theorem C02_cfg_ok_fee_testnet : cfg_ok_fee cfg_testnet = true. Proof. vm_compute. reflexivity. Qed.
Theorem C02_cfg_ok_fee_verifnet : cfg_ok_fee cfg_verifnet = true. Proof. vm_compute. reflexivity. Qed.

(* all five kinds: stateless validation only passes a transaction signed by the signer's own key over this content for
   this network, paying at least the minimum fee, within the size limit, with amounts + fee free of overflow *)
Theorem C02_authorised : forall cfg team_key t h,
  prevalidate_tx cfg team_key t h = Ok tt ->
  tx_sig_by t = tx_signer t /\ tx_sig_by t <> 0 /\ tx_sig_msg t = true /\
  wmul (if hf_v3 cfg <=? h then fee_per_byte_v2 cfg else fee_per_byte cfg) (tx_vsize cfg t) <= tx_fee t /\
  tx_vsize cfg t <= max_tx_size cfg /\ tx_total cfg t <> None.
Proof. exact prevalidate_authorised. Qed.
Print Assumptions C02_authorised.

(* all five kinds: a transaction takes effect only with the account's next nonce *)
Theorem C02_next_nonce : forall cfg l t h bh top_h l',
  apply_tx cfg l t h bh top_h = Ok l' ->
  exists st, get_state l (addr_of_key (tx_signer t)) = Some st /\ tx_nonce t = wadd (nonce st) 1.
Proof. exact apply_tx_next_nonce. Qed.
Print Assumptions C02_next_nonce.

(* all five kinds: the fee, and nothing else, leaves the accounts (it goes to the block's coinbase: C01) *)
Theorem C02_fee_only : forall cfg l t h bh top_h l' tot,
  total_bal l < two64 -> wf_tx cfg t -> tx_total cfg t = Some tot ->
  apply_tx cfg l t h bh top_h = Ok l' -> total_bal l' + tx_fee t = total_bal l.
Proof. exact apply_tx_total. Qed.
Print Assumptions C02_fee_only.

(* anything refused leaves the ledger untouched *)
Theorem C02_rejected_unchanged : forall cfg genesis_addr team_key n b now n' c amb,
  deliver cfg genesis_addr team_key n b now = (n', Rejected c, amb) -> n' = n.
Proof. exact deliver_rejected_unchanged. Qed.
Print Assumptions C02_rejected_unchanged.
