(* Property C02 - only authorised, well-formed transactions move coins, exactly as the rules say. *)
From Virel Require Import Lib.Config Lib.U64 Lib.AMap Model.Ledger Model.Node Proofs.NodeBasics.
Open Scope N_scope.

Theorem C02_rejected_unchanged : forall cfg genesis_addr team_key n b now n' c amb,
  deliver cfg genesis_addr team_key n b now = (n', Rejected c, amb) -> n' = n.
Proof. exact deliver_rejected_unchanged. Qed.
Print Assumptions C02_rejected_unchanged.
