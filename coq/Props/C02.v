(* Property C02 - only authorised, well-formed transactions move coins, exactly as the rules say.
   The rules are Spec/Rules.v (preconditions and effects in exact arithmetic).  Statements only. *)
From Virel Require Import Lib.Config Lib.U64 Lib.AMap Model.Emission Model.Ledger Model.Node Spec.Rules
  Proofs.Conservation Proofs.Pointwise Proofs.Emission Proofs.Refine Proofs.Refine2 Proofs.Refine2W Proofs.Refine3 Proofs.Refine4
  Proofs.StakedSum Proofs.NodeBasics
  Gen.Params.
From Virel Require Import Spec.Chain Proofs.ForkChoice Proofs.ChainInv Proofs.Undo Proofs.Undo2 Proofs.Replay1 Proofs.Replay2 Proofs.Replay3 Proofs.Replay4
  Proofs.Replay5 Proofs.BranchRefuted Proofs.NonceOnce Proofs.NonceOnceNode Proofs.StorePaths Proofs.NonceOnceEx.
Open Scope N_scope.

(* FULL STATEMENT: for every kind, whenever the code applies a stateless-valid transaction, the rules accept it and
   prescribe the same ledger (accounts, delegate records as sets of funds, staked total). *)
Definition C02_full : Prop := forall cfg team_key l t h bh l1,
  total_bal l < two64 -> wf_tx cfg t ->
  prevalidate_tx cfg team_key t h = Ok tt ->
  apply_tx cfg l t h bh (h - 1) = Ok l1 ->
  fst (spec_tx cfg team_key l t h) = 0 /\ same_accounts l1 (snd (spec_tx cfg team_key l t h)) /\
  staked l1 = staked (snd (spec_tx cfg team_key l t h)).

(* C02_full, read literally (EVERY transaction object, EVERY ledger, no side condition), is FALSE: see
   C02_full_refuted below.  It holds under the explicit hypotheses of C02_tx_refines (all five kinds). *)

(* Transfers (all ledgers, all amounts, 1..32 outputs, duplicates, transfers to self, to pools and to the burn
   address): the rules accept what the code applies - signature by the debited account's key, next nonce, minimum fee,
   size, version regime, amounts + fee within 64 bits and within the balance - and both produce the same accounts,
   delegate table and staked total.  "partial" = this statement is the transfer case only; the other four kinds are
   the next four theorems and C02_tx_refines joins the five. *)
Theorem C02_transfer_refines_partial : forall cfg team_key l t outs0 h bh top_h l1,
  cfg_ok_fee cfg = true ->
  tx_data t = TTransfer outs0 -> (tx_version t = 0 \/ tx_version t = 1) ->
  total_bal l < two64 -> wf_tx cfg t ->
  (forall a, inc (acct_at l a) + N.of_nat (length outs0) < two64) ->
  nonce (acct_at l (addr_of_key (tx_signer t))) + 1 < two64 ->
  prevalidate_tx cfg team_key t h = Ok tt ->
  apply_tx cfg l t h bh top_h = Ok l1 ->
  let '(c, ls) := spec_tx cfg team_key l t h in
  c = 0 /\ same_accounts l1 ls /\ dlgs l1 = dlgs ls /\ staked l1 = staked ls.
Proof. exact transfer_refines. Qed.
Print Assumptions C02_transfer_refines_partial.

(* ---- the four staking kinds.  Hypotheses common to all: the side condition on the fee constants, uint64-typed
   amounts, sum of balances < 2^64, counters and nonce not at the very end of the uint64 range, stateless validation
   passed, version byte = the one of the payload kind.  For stake/unstake also the staked-total invariant SInv of C01
   (every reachable ledger has it: C01_staked_sum_chain) and top height = h - 1.
   Delegate side: the two delegate tables are EQUAL AS LISTS (same records in the same database order, funds in the
   same order) - stronger than the comparison of Check/C02.v (records as sets of funds). ---- *)

(* version 2: burns REGISTER_DELEGATE_BURN to the burn address, files an empty pool owned by the signer's key under a
   free id (the rules' clauses 21-25: name length, id <> 0, id 1 reserved to the team key, id free, funds) *)
Theorem C02_register_refines : forall cfg team_key l t nl name id h bh top_h l1,
  cfg_ok_fee cfg = true ->
  tx_data t = TRegister nl name id -> tx_version t = 2 ->
  total_bal l < two64 -> wf_tx cfg t ->
  (forall a, inc (acct_at l a) + 1 < two64) ->
  nonce (acct_at l (addr_of_key (tx_signer t))) + 1 < two64 ->
  prevalidate_tx cfg team_key t h = Ok tt ->
  apply_tx cfg l t h bh top_h = Ok l1 ->
  let '(c, ls) := spec_tx cfg team_key l t h in
  c = 0 /\ same_accounts l1 ls /\ dlgs l1 = dlgs ls /\ staked l1 = staked ls.
Proof. exact register_refines. Qed.
Print Assumptions C02_register_refines.

(* version 3: the account's pool changes only when the transaction names the current pool, the signer has no fund
   left in it and the new pool exists (clauses 31-34) *)
Theorem C02_set_delegate_refines : forall cfg team_key l t nw pv h bh top_h l1,
  cfg_ok_fee cfg = true ->
  tx_data t = TSetDelegate nw pv -> tx_version t = 3 ->
  total_bal l < two64 -> wf_tx cfg t ->
  (forall a, inc (acct_at l a) + 1 < two64) ->
  nonce (acct_at l (addr_of_key (tx_signer t))) + 1 < two64 ->
  prevalidate_tx cfg team_key t h = Ok tt ->
  apply_tx cfg l t h bh top_h = Ok l1 ->
  let '(c, ls) := spec_tx cfg team_key l t h in
  c = 0 /\ same_accounts l1 ls /\ dlgs l1 = dlgs ls /\ staked l1 = staked ls.
Proof. exact set_delegate_refines. Qed.
Print Assumptions C02_set_delegate_refines.

(* version 4: the pool is the account's pool, amount >= minimum stake, amount + fee debited, amount credited to the
   pool address, the signer's fund created or topped up (exact sum), unlock height = tip + lock time, staked total
   raised by the amount (clauses 40-45) *)
Theorem C02_stake_refines : forall cfg team_key l t amt id pu h bh top_h l1,
  cfg_ok_fee cfg = true ->
  tx_data t = TStake amt id pu -> tx_version t = 4 ->
  total_bal l < two64 -> wf_tx cfg t -> SInv l ->
  (forall a, inc (acct_at l a) + 1 < two64) ->
  nonce (acct_at l (addr_of_key (tx_signer t))) + 1 < two64 ->
  top_h = h - 1 -> h - 1 + unlock_time cfg < two64 ->
  prevalidate_tx cfg team_key t h = Ok tt ->
  apply_tx cfg l t h bh top_h = Ok l1 ->
  let '(c, ls) := spec_tx cfg team_key l t h in
  c = 0 /\ same_accounts l1 ls /\ dlgs l1 = dlgs ls /\ staked l1 = staked ls.
Proof. exact stake_refines. Qed.
Print Assumptions C02_stake_refines.

(* version 5: only the signer's own fund in the account's pool, only once the tip has reached the unlock height, at
   most the fund, the fee taken out of the amount, fund removed when emptied, staked total lowered (clauses 50-57) *)
Theorem C02_unstake_refines : forall cfg team_key l t amt id h bh top_h l1,
  cfg_ok_fee cfg = true ->
  tx_data t = TUnstake amt id -> tx_version t = 5 ->
  total_bal l < two64 -> wf_tx cfg t -> SInv l ->
  (forall a, inc (acct_at l a) + 1 < two64) ->
  nonce (acct_at l (addr_of_key (tx_signer t))) + 1 < two64 ->
  top_h = h - 1 ->
  prevalidate_tx cfg team_key t h = Ok tt ->
  apply_tx cfg l t h bh top_h = Ok l1 ->
  let '(c, ls) := spec_tx cfg team_key l t h in
  c = 0 /\ same_accounts l1 ls /\ dlgs l1 = dlgs ls /\ staked l1 = staked ls.
Proof. exact unstake_refines. Qed.
Print Assumptions C02_unstake_refines.

(* ALL FIVE KINDS: the full statement under its explicit hypotheses.  [ver_ok t]: version byte 0 with a transfer, or
   the version byte of the payload kind.  [tx_ctr t] = number of outputs of a transfer, 1 otherwise. *)
Theorem C02_tx_refines : forall cfg team_key l t h bh l1,
  cfg_ok_fee cfg = true -> ver_ok t = true ->
  total_bal l < two64 -> wf_tx cfg t -> SInv l ->
  (forall a, inc (acct_at l a) + tx_ctr t < two64) ->
  nonce (acct_at l (addr_of_key (tx_signer t))) + 1 < two64 ->
  h - 1 + unlock_time cfg < two64 ->
  prevalidate_tx cfg team_key t h = Ok tt ->
  apply_tx cfg l t h bh (h - 1) = Ok l1 ->
  fst (spec_tx cfg team_key l t h) = 0 /\ same_accounts l1 (snd (spec_tx cfg team_key l t h)) /\
  dlgs l1 = dlgs (snd (spec_tx cfg team_key l t h)) /\ staked l1 = staked (snd (spec_tx cfg team_key l t h)).
Proof. exact tx_refines. Qed.
Print Assumptions C02_tx_refines.

(* contrapositive: a transaction the rules refuse (any clause) is refused by the code *)
Theorem C02_refused_by_rules_refused_by_code : forall cfg team_key l t h bh,
  cfg_ok_fee cfg = true -> ver_ok t = true ->
  total_bal l < two64 -> wf_tx cfg t -> SInv l ->
  (forall a, inc (acct_at l a) + tx_ctr t < two64) ->
  nonce (acct_at l (addr_of_key (tx_signer t))) + 1 < two64 ->
  h - 1 + unlock_time cfg < two64 ->
  prevalidate_tx cfg team_key t h = Ok tt ->
  fst (spec_tx cfg team_key l t h) <> 0 ->
  forall l1, apply_tx cfg l t h bh (h - 1) <> Ok l1.
Proof. exact refused_by_rules_refused_by_code. Qed.
Print Assumptions C02_refused_by_rules_refused_by_code.

(* ---- the staker reward: ApplyPosReward against the rule.  Every fund gets floor(floor(amount * reward / 100) * 99 /
   pool total) (no 64-bit truncation can occur), the remainder goes to the pool owner's fund (created with unlock
   height 0 when absent); same delegate table (as a list), same staked total; accounts untouched by both. ---- *)
Theorem C02_pos_reward_refines : forall l bh o l1,
  SInv l -> o_amt o < two64 ->
  apply_pos_reward l bh o = Ok l1 ->
  let '(c, ls) := spec_pos_reward l bh (o_extra o) (o_amt o) in
  c = 0 /\ accts l1 = accts ls /\ dlgs l1 = dlgs ls /\ staked l1 = staked ls.
Proof. exact pos_reward_refines. Qed.
Print Assumptions C02_pos_reward_refines.

(* ---- blocks: ApplyBlockToState against the block rule (lottery result, transactions in order with accumulated
   fees, coinbase split, staker reward).
   [tx_side cfg team_key h t] = wf_tx cfg t, ver_ok t = true, prevalidate_tx cfg team_key t h = Ok tt.
   [ctr_ok l K] = every incoming-transfer counter and nonce of l is at least K below 2^64;
   [txs_ctr txs] = sum over the transactions of (tx_ctr t + 1).  cfg_ok_emission: see C01_cfg_ok_*. ---- *)
Theorem C02_block_refines : forall cfg genesis_addr team_key,
  cfg_ok_fee cfg = true -> cfg_ok_emission cfg = true ->
  forall l b l1,
  total_bal l + reward cfg (lb_height b) <= max_supply cfg ->
  Forall (tx_side cfg team_key (lb_height b)) (lb_txs b) -> SInv l ->
  ctr_ok l (txs_ctr (lb_txs b) + 4) ->
  lb_height b - 1 + unlock_time cfg < two64 ->
  apply_block cfg genesis_addr l b (lb_height b - 1) = Ok l1 ->
  let '(c, ls) := spec_block cfg genesis_addr team_key l b in
  c = 0 /\ same_accounts l1 ls /\ dlgs l1 = dlgs ls /\ staked l1 = staked ls.
Proof. exact block_refines_same. Qed.
Print Assumptions C02_block_refines.

Theorem C02_block_refused_by_rules_refused_by_code : forall cfg genesis_addr team_key,
  cfg_ok_fee cfg = true -> cfg_ok_emission cfg = true ->
  forall l b,
  total_bal l + reward cfg (lb_height b) <= max_supply cfg ->
  Forall (tx_side cfg team_key (lb_height b)) (lb_txs b) -> SInv l ->
  ctr_ok l (txs_ctr (lb_txs b) + 4) ->
  lb_height b - 1 + unlock_time cfg < two64 ->
  fst (spec_block cfg genesis_addr team_key l b) <> 0 ->
  forall l1, apply_block cfg genesis_addr l b (lb_height b - 1) <> Ok l1.
Proof. exact block_refused_by_rules_refused_by_code. Qed.
Print Assumptions C02_block_refused_by_rules_refused_by_code.

(* ---- chains: apply_chain against ledger_of_chain, from any ledger holding the scheduled supply of height h with the
   invariant, and from the empty ledger (genesis block first) - the latter is what Check/C02.v evaluates on the
   implementation's main chains.  [chain_ctr bs] = sum over the blocks of (txs_ctr + 4). ---- *)
Theorem C02_chain_refines : forall cfg genesis_addr team_key,
  cfg_ok_fee cfg = true -> cfg_ok_emission cfg = true ->
  forall bs l (h : nat) l',
  total_bal l = sum_rewards cfg h -> heights_from h bs ->
  Forall (fun b => Forall (tx_side cfg team_key (lb_height b)) (lb_txs b)) bs -> SInv l ->
  ctr_ok l (chain_ctr bs) ->
  Forall (fun b => lb_height b - 1 + unlock_time cfg < two64) bs ->
  apply_chain cfg genesis_addr l bs = Ok l' ->
  let '(c, ls) := ledger_of_chain cfg genesis_addr team_key l bs in
  c = 0 /\ same_accounts l' ls /\ dlgs l' = dlgs ls /\ staked l' = staked ls.
Proof. exact chain_refines_same. Qed.
Print Assumptions C02_chain_refines.

Theorem C02_chain_refines_from_genesis : forall cfg genesis_addr team_key,
  cfg_ok_fee cfg = true -> cfg_ok_emission cfg = true ->
  forall b0 bs l',
  lb_height b0 = 0 -> heights_from 0 bs ->
  Forall (fun b => Forall (tx_side cfg team_key (lb_height b)) (lb_txs b)) (b0 :: bs) ->
  chain_ctr (b0 :: bs) < two64 ->
  Forall (fun b => lb_height b - 1 + unlock_time cfg < two64) (b0 :: bs) ->
  apply_chain cfg genesis_addr ledger0 (b0 :: bs) = Ok l' ->
  let '(c, ls) := ledger_of_chain cfg genesis_addr team_key ledger0 (b0 :: bs) in
  c = 0 /\ same_accounts l' ls /\ dlgs l' = dlgs ls /\ staked l' = staked ls.
Proof. exact chain_refines_from_genesis. Qed.
Print Assumptions C02_chain_refines_from_genesis.

(* WITNESS (main-net constants): the hypothesis on the version byte cannot be dropped.  A transaction object with a
   Stake payload under version byte 1 passes Prevalidate and is applied by ApplyTxToState as a bare debit/credit
   without any staking effect, while the rules refuse it (clause 8).  Neither Prevalidate nor ApplyTxToState compares
   Version with Data.AssociatedTransactionVersion(); only Deserialize ties the two (so no such object can come from
   the wire or the database). *)
Theorem C02_version_mismatch_witness :
  exists l1,
    ver_ok w_tx = false /\
    prevalidate_tx cfg_mainnet 0 w_tx 300000 = Ok tt /\
    apply_tx cfg_mainnet w_ledger w_tx 300000 1 299999 = Ok l1 /\
    fst (spec_tx cfg_mainnet 0 w_ledger w_tx 300000) = 8 /\
    bal (acct_at l1 (delegate_addr 9)) = 100000000000 /\
    get_dlg l1 9 = Some (mkdlg 9 3 0 []) /\ staked l1 = 0.
Proof. exact version_mismatch_witness. Qed.
Print Assumptions C02_version_mismatch_witness.

Theorem C02_full_refuted : ~ C02_full.
Proof. exact full_statement_refuted. Qed.
Print Assumptions C02_full_refuted.

Theorem C02_cfg_ok_fee_mainnet : cfg_ok_fee cfg_mainnet = true. Proof. vm_compute. reflexivity. Qed.
Theorem C02_cfg_ok_fee_testnet : cfg_ok_fee cfg_testnet = true. Proof. vm_compute. reflexivity. Qed.
Theorem C02_cfg_ok_fee_verifnet : cfg_ok_fee cfg_verifnet = true. Proof. vm_compute. reflexivity. Qed.

(* all five kinds: stateless validation only passes a transaction signed by the signer's own key over this content for
   this network, paying at least the minimum fee, within the size limit, with amounts + fee free of overflow *)
Theorem C02_authorised : forall cfg team_key t h,
  prevalidate_tx cfg team_key t h = Ok tt ->
  tx_sig_by t = tx_signer t /\ tx_sig_by t <> 0 /\ tx_sig_msg t = true /\
  wmul (if hf_v3 cfg <=? h then fee_per_byte_v2 cfg else fee_per_byte cfg) (tx_vsize cfg t) <= tx_fee t /\
  tx_vsize cfg t <= max_tx_size cfg /\ tx_total cfg t <> None.
Proof. exact prevalidate_authorised. Qed.
Print Assumptions C02_authorised.

(* all five kinds: a transaction takes effect only with the account's next nonce *)
Theorem C02_next_nonce : forall cfg l t h bh top_h l',
  apply_tx cfg l t h bh top_h = Ok l' ->
  exists st, get_state l (addr_of_key (tx_signer t)) = Some st /\ tx_nonce t = wadd (nonce st) 1.
Proof. exact apply_tx_next_nonce. Qed.
Print Assumptions C02_next_nonce.

(* all five kinds: the fee, and nothing else, leaves the accounts (it goes to the block's coinbase: C01) *)
Theorem C02_fee_only : forall cfg l t h bh top_h l' tot,
  total_bal l < two64 -> wf_tx cfg t -> tx_total cfg t = Some tot ->
  apply_tx cfg l t h bh top_h = Ok l' -> total_bal l' + tx_fee t = total_bal l.
Proof. exact apply_tx_total. Qed.
Print Assumptions C02_fee_only.

(* anything refused leaves the ledger untouched *)
Theorem C02_rejected_unchanged : forall cfg genesis_addr team_key n b now n' c amb,
  deliver cfg genesis_addr team_key n b now = (n', Rejected c, amb) -> n' = n.
Proof. exact deliver_rejected_unchanged. Qed.
Print Assumptions C02_rejected_unchanged.

(* ================================================================================================================ *)
(* "EACH TRANSACTION CHANGES THE LEDGER EXACTLY ONCE", the at-most-once half as theorems about chains and nodes
   (Proofs/NonceOnce.v, NonceOnceNode.v).  ApplyTxToState accepts a transaction only with the signer's next nonce
   (C02_next_nonce) and advances that nonce by one; credits, debits, staking operations and coinbases keep every nonce.
     nonce_at l a        = nonce (acct_at l a);
     signed_by k t       = (tx_signer t =? k);   sig_at a t = (addr_of_key (tx_signer t) =? a);
     chain_txs bs        = the transactions of the blocks of bs in chain order (flat_map lb_txs bs);
     nonce_seq x n       = [x+1; x+2; ...; x+n],  nonce_after x n = x+n, both in uint64 arithmetic (wadd), as the code
                           computes them;
     tx_key t            = (tx_signer t, tx_nonce t).
   No hypothesis besides "the chain applies": any ledger, any blocks. *)
Theorem C02_chain_nonces_consecutive : forall cfg genesis_addr bs l l',
  apply_chain cfg genesis_addr l bs = Ok l' ->
  forall k, let mine := filter (signed_by k) (chain_txs bs) in
            let x := nonce_at l (addr_of_key k) in
    map tx_nonce mine = nonce_seq x (length mine) /\ nonce_at l' (addr_of_key k) = nonce_after x (length mine).
Proof. exact chain_nonces_consecutive. Qed.
Print Assumptions C02_chain_nonces_consecutive.

(* every address (also the even ones, which belong to no key): its nonce moves only with transactions signed by its key *)
Theorem C02_chain_nonce_by_address : forall cfg genesis_addr bs l l',
  apply_chain cfg genesis_addr l bs = Ok l' ->
  forall a, nonce_at l' a = nonce_after (nonce_at l a) (length (filter (sig_at a) (chain_txs bs))).
Proof. exact chain_nonce_by_address. Qed.
Print Assumptions C02_chain_nonce_by_address.

(* as long as the signer's nonce does not pass 2^64: the nonces are x+1, ..., x+n as numbers, pairwise distinct, and the
   signer's nonce after the chain is x + the number of its transactions *)
Theorem C02_chain_nonces_exact : forall cfg genesis_addr bs l l',
  apply_chain cfg genesis_addr l bs = Ok l' ->
  forall k, let mine := filter (signed_by k) (chain_txs bs) in
            let x := nonce_at l (addr_of_key k) in
    x + N.of_nat (length mine) < two64 ->
    map tx_nonce mine = map (fun i => x + N.of_nat i) (seq 1 (length mine)) /\
    nonce_at l' (addr_of_key k) = x + N.of_nat (length mine) /\
    NoDup (map tx_nonce mine).
Proof. exact chain_nonces_exact. Qed.
Print Assumptions C02_chain_nonces_exact.

(* AT MOST ONCE: along a chain that applies, no two transaction occurrences share (signer, nonce).  The hypothesis
   excludes only the wrap-around of a uint64 nonce (2^64 transactions of one signer), where the code itself would accept
   the nonce 1 again (wadd in the check 362 of apply_tx: the model follows the code). *)
Theorem C02_chain_at_most_once : forall cfg genesis_addr bs l l',
  apply_chain cfg genesis_addr l bs = Ok l' ->
  (forall k, nonce_at l (addr_of_key k) + N.of_nat (length (filter (signed_by k) (chain_txs bs))) < two64) ->
  NoDup (map tx_key (chain_txs bs)).
Proof. exact chain_at_most_once. Qed.
Print Assumptions C02_chain_at_most_once.

(* the same, position by position *)
Theorem C02_chain_no_replay : forall cfg genesis_addr bs l l',
  apply_chain cfg genesis_addr l bs = Ok l' ->
  (forall k, nonce_at l (addr_of_key k) + N.of_nat (length (filter (signed_by k) (chain_txs bs))) < two64) ->
  forall i j t t', nth_error (chain_txs bs) i = Some t -> nth_error (chain_txs bs) j = Some t' ->
    tx_signer t = tx_signer t' -> tx_nonce t = tx_nonce t' -> i = j.
Proof. exact chain_no_replay. Qed.
Print Assumptions C02_chain_no_replay.

(* THE NODE: on the main chain of every reachable node (premises of C03_ledger_is_replay, Props/C03.v; the premise
   "counters cannot wrap along a chain of stored blocks" is what excludes the nonce wrap-around), genesis block included:
   no two transaction occurrences share (signer, nonce); each signer's transactions carry the nonces 1, 2, 3, ... in chain
   order; the nonce the node's ledger holds for a signer is the number of its transactions on the main chain - whatever
   blocks of other branches were connected and disconnected on the way; and every address's nonce is the number of main
   chain transactions signed with its key (0 for addresses of no key). *)
Theorem C02_reachable_at_most_once : forall cfg genesis_addr team_key g n0 ops,
  cfg_ok_emission cfg = true -> cfg_ok_feepos cfg = true ->
  node0 cfg genesis_addr g = Ok n0 -> b_height g = 0 -> b_cd g = b_diff g ->
  N.of_nat (length ops) < two64 - 1 ->
  let n := run cfg genesis_addr team_key n0 ops in
  Forall (tx_c cfg) (b_txs g) ->
  (forall h b, get_block n h = Some b -> Forall (fun t => wf_tx cfg t /\ ver_ok t = true) (b_txs b)) ->
  (forall bs, up (b_hash g) (blocks n) (b_hash g) bs ->
     NoDup (bkeys g ++ flat_map bkeys bs) /\ c0 g + bnouts bs < two64 /\ c0 g + bntx bs < two64) ->
  let txs := flat_map b_txs (g :: mchain n) in
  NoDup (map tx_key txs) /\
  NoDup (map tx_key (chain_txs (lbs n (mchain n)))) /\
  (forall k, let mine := filter (signed_by k) txs in
     map tx_nonce mine = map N.of_nat (seq 1 (length mine)) /\
     nonce (acct_at (ldg n) (addr_of_key k)) = N.of_nat (length mine)) /\
  (forall a, nonce (acct_at (ldg n) a) = N.of_nat (length (filter (sig_at a) txs))).
Proof. exact reachable_at_most_once. Qed.
Print Assumptions C02_reachable_at_most_once.

(* the premise on the chains of stored blocks follows from a condition on the store as a whole: hashes and transaction
   ids of all stored blocks pairwise distinct, counters summed over all stored blocks below 2^64 (BInv: the store is a
   tree rooted at genesis, an invariant of every reachable node: Props/C10.v) *)
Theorem C02_paths_of_store : forall g bl,
  BInv (b_hash g) bl -> nget bl (b_hash g) = Some g ->
  let all := map snd bl in
  NoDup (flat_map bkeys all) -> c0 g + bnouts all < two64 -> c0 g + bntx all < two64 ->
  forall bs, up (b_hash g) bl (b_hash g) bs ->
    NoDup (bkeys g ++ flat_map bkeys bs) /\ c0 g + bnouts bs < two64 /\ c0 g + bntx bs < two64.
Proof. exact paths_of_store. Qed.
Print Assumptions C02_paths_of_store.

(* non-vacuity: the node of Proofs/BranchRefuted.v that follows G - A1 - A2 - S3 - S4 - S5 - S6; S3 carries three
   transactions of key 3 (register pool 2, choose it, stake one coin).  Every premise holds *)
Theorem C02_at_most_once_premises :
  node0 cfg_verifnet 7 r_genesis = Ok r_node0 /\
  let n := run cfg_verifnet 7 0 r_node0 nx_ops in
  cfg_ok_emission cfg_verifnet = true /\ cfg_ok_feepos cfg_verifnet = true /\
  b_height r_genesis = 0 /\ b_cd r_genesis = b_diff r_genesis /\ N.of_nat (length nx_ops) < two64 - 1 /\
  Forall (tx_c cfg_verifnet) (b_txs r_genesis) /\
  (forall h b, get_block n h = Some b -> Forall (fun t => wf_tx cfg_verifnet t /\ ver_ok t = true) (b_txs b)) /\
  (forall bs, up (b_hash r_genesis) (blocks n) (b_hash r_genesis) bs ->
     NoDup (bkeys r_genesis ++ flat_map bkeys bs) /\ c0 r_genesis + bnouts bs < two64 /\ c0 r_genesis + bntx bs < two64).
Proof. exact at_most_once_premises. Qed.
Print Assumptions C02_at_most_once_premises.

(* ... and the conclusion on it: keys (3,1), (3,2), (3,3); the ledger holds nonce 3 for the address of key 3 *)
Theorem C02_at_most_once_example :
  let n := run cfg_verifnet 7 0 r_node0 nx_ops in
  let txs := flat_map b_txs (r_genesis :: mchain n) in
  map b_hash (mchain n) = [2; 3; 23; 24; 25; 26] /\
  map tx_key txs = [(3, 1); (3, 2); (3, 3)] /\
  NoDup (map tx_key txs) /\
  NoDup (map tx_key (chain_txs (lbs n (mchain n)))) /\
  (forall k, let mine := filter (signed_by k) txs in
     map tx_nonce mine = map N.of_nat (seq 1 (length mine)) /\
     nonce (acct_at (ldg n) (addr_of_key k)) = N.of_nat (length mine)) /\
  (forall a, nonce (acct_at (ldg n) a) = N.of_nat (length (filter (sig_at a) txs))) /\
  nonce (acct_at (ldg n) (addr_of_key 3)) = 3.
Proof. exact at_most_once_example. Qed.
Print Assumptions C02_at_most_once_example.

(* the rule at work: the replay of that chain up to S3 leaves nonce 3; a further block that carries the stake
   transaction (nonce 3) a second time does not apply (code 362, "wrong nonce") *)
Theorem C02_replayed_tx_refused :
  let n := run cfg_verifnet 7 0 r_node0 nx_ops in
  (exists l, apply_chain cfg_verifnet 7 (ldg r_node0) (firstn 3 (lbs n (mchain n))) = Ok l /\
             nonce (acct_at l (addr_of_key 3)) = 3) /\
  apply_chain cfg_verifnet 7 (ldg r_node0) (firstn 3 (lbs n (mchain n)) ++ [nx_replayed]) = Err 362.
Proof. exact replayed_tx_refused. Qed.
Print Assumptions C02_replayed_tx_refused.
