(* Property C02 - only authorised, well-formed transactions move coins, exactly as the rules say.
   The rules are Spec/Rules.v (preconditions and effects in exact arithmetic).  Statements only. *)
From Virel Require Import Lib.Config Lib.U64 Lib.AMap Model.Emission Model.Ledger Model.Node Spec.Rules
  Proofs.Conservation Proofs.Pointwise Proofs.Refine Proofs.NodeBasics Gen.Params.
Open Scope N_scope.

(* FULL STATEMENT: for every kind, whenever the code applies a stateless-valid transaction, the rules admit it and
   prescribe the same ledger (accounts, delegate records as sets of funds, staked total). *)
Definition C02_full : Prop := forall cfg team_key l t h bh l1,
  total_bal l < two64 -> wf_tx cfg t ->
  prevalidate_tx cfg team_key t h = Ok tt ->
  apply_tx cfg l t h bh (h - 1) = Ok l1 ->
  fst (spec_tx cfg team_key l t h) = 0 /\ same_accounts l1 (snd (spec_tx cfg team_key l t h)) /\
  staked l1 = staked (snd (spec_tx cfg team_key l t h)).

(* PROVED for transfers (all ledgers, all amounts, 1..32 outputs, duplicates, transfers to self, to pools and to the burn
   address): the rules admit what the code applies - signature by the debited account's key, next nonce, minimum fee,
   size, version regime, amounts + fee within 64 bits and within the balance - and both produce the same accounts,
   delegate table and staked total.  Consequently a transfer the rules refuse is refused by the code.
   The other four kinds are covered by the evaluation of the rules on the implementation's main chains (Check/C02.v:
   ledger_of_chain on every dump) and by the conservation theorems of C01; their refinement proof is MISSING. *)
Theorem C02_transfer_refines_partial : forall cfg team_key l t outs0 h bh top_h l1,
  cfg_ok_fee cfg = true ->
  tx_data t = TTransfer outs0 -> (tx_version t = 0 \/ tx_version t = 1) ->
  total_bal l < two64 -> wf_tx cfg t ->
  (forall a, inc (acct_at l a) + N.of_nat (length outs0) < two64) ->
  nonce (acct_at l (addr_of_key (tx_signer t))) + 1 < two64 ->
  prevalidate_tx cfg team_key t h = Ok tt ->
  apply_tx cfg l t h bh top_h = Ok l1 ->
  let '(c, ls) := spec_tx cfg team_key l t h in
  c = 0 /\ same_accounts l1 ls /\ dlgs l1 = dlgs ls /\ staked l1 = staked ls.
Proof. exact transfer_refines. Qed.
Print Assumptions C02_transfer_refines_partial.

Theorem C02_cfg_ok_fee_mainnet : cfg_ok_fee cfg_mainnet = true. Proof. vm_compute. reflexivity. Qed.
Theorem C02_cfg_ok_fee_testnet : cfg_ok_fee cfg_testnet = true. Proof. vm_compute. reflexivity. Qed.
Theorem C02_cfg_ok_fee_verifnet : cfg_ok_fee cfg_verifnet = true. Proof. vm_compute. reflexivity. Qed.

(* all five kinds: stateless validation only passes a transaction signed by the signer's own key over this content for
   this network, paying at least the minimum fee, within the size limit, with amounts + fee free of overflow *)
Theorem C02_authorised : forall cfg team_key t h,
  prevalidate_tx cfg team_key t h = Ok tt ->
  tx_sig_by t = tx_signer t /\ tx_sig_by t <> 0 /\ tx_sig_msg t = true /\
  wmul (if hf_v3 cfg <=? h then fee_per_byte_v2 cfg else fee_per_byte cfg) (tx_vsize cfg t) <= tx_fee t /\
  tx_vsize cfg t <= max_tx_size cfg /\ tx_total cfg t <> None.
Proof. exact prevalidate_authorised. Qed.
Print Assumptions C02_authorised.

(* all five kinds: a transaction takes effect only with the account's next nonce *)
Theorem C02_next_nonce : forall cfg l t h bh top_h l',
  apply_tx cfg l t h bh top_h = Ok l' ->
  exists st, get_state l (addr_of_key (tx_signer t)) = Some st /\ tx_nonce t = wadd (nonce st) 1.
Proof. exact apply_tx_next_nonce. Qed.
Print Assumptions C02_next_nonce.

(* all five kinds: the fee, and nothing else, leaves the accounts (it goes to the block's coinbase: C01) *)
Theorem C02_fee_only : forall cfg l t h bh top_h l' tot,
  total_bal l < two64 -> wf_tx cfg t -> tx_total cfg t = Some tot ->
  apply_tx cfg l t h bh top_h = Ok l' -> total_bal l' + tx_fee t = total_bal l.
Proof. exact apply_tx_total. Qed.
Print Assumptions C02_fee_only.

(* anything refused leaves the ledger untouched *)
Theorem C02_rejected_unchanged : forall cfg genesis_addr team_key n b now n' c amb,
  deliver cfg genesis_addr team_key n b now = (n', Rejected c, amb) -> n' = n.
Proof. exact deliver_rejected_unchanged. Qed.
Print Assumptions C02_rejected_unchanged.
