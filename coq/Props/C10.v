(* Property C10 - each committed store state is a consistent chain; crashes lose whole blocks only.
   In the model one delivery is one database commit (the harness checks on the implementation that a delivery makes
   at most one commit and that a refused one leaves the store byte-identical), so "every committed state" = every
   state reachable by deliveries.  Statements only; proofs in Proofs/Restart.v, Proofs/ForkChoice.v. *)
From Virel Require Import Lib.Config Lib.U64 Lib.AMap Model.Ledger Model.Node Proofs.NodeBasics Proofs.ForkChoice Proofs.Restart.
Open Scope N_scope.

(* every reachable state: the tip's block exists, no stored block is heavier, and the start-up reorganisation check
   (cmd/virel-node/node.go) leaves the state exactly as it is *)
Theorem C10_restart_is_identity : forall cfg genesis_addr team_key g n0 ops,
  node0 cfg genesis_addr g = Ok n0 -> b_cd g = b_diff g ->
  exists amb, check_reorgs cfg genesis_addr (run cfg genesis_addr team_key n0 ops)
              = Ok (run cfg genesis_addr team_key n0 ops, amb).
Proof. exact reachable_startup_noop. Qed.
Print Assumptions C10_restart_is_identity.

Theorem C10_tip_exists_every_commit : forall cfg genesis_addr team_key g n0 ops,
  node0 cfg genesis_addr g = Ok n0 -> b_cd g = b_diff g ->
  let n := run cfg genesis_addr team_key n0 ops in
  (exists t, get_block n (top n) = Some t /\ b_cd t = top_cd n) /\
  (forall h b, get_block n h = Some b -> b_cd b <= top_cd n).
Proof. exact tip_always_maximal. Qed.
Print Assumptions C10_tip_exists_every_commit.

(* the lost deliveries can be offered again with overlap: an accepted block is stored, and offering a stored block again
   changes nothing *)
Theorem C10_accepted_is_stored : forall cfg genesis_addr team_key n b now n' amb,
  deliver cfg genesis_addr team_key n b now = (n', Accepted, amb) -> get_block n' (b_hash b) = Some b.
Proof. exact accepted_is_stored. Qed.
Print Assumptions C10_accepted_is_stored.

Theorem C10_redelivery_idempotent : forall cfg genesis_addr team_key n b now now' n' amb,
  deliver cfg genesis_addr team_key n b now = (n', Accepted, amb) ->
  fst (fst (deliver cfg genesis_addr team_key n' b now')) = n'.
Proof. exact delivery_idempotent. Qed.
Print Assumptions C10_redelivery_idempotent.

(* a rejected block, reorganisation or transaction changes nothing in the store *)
Theorem C10_rejected_unchanged : forall cfg genesis_addr team_key n b now n' c amb,
  deliver cfg genesis_addr team_key n b now = (n', Rejected c, amb) -> n' = n.
Proof. exact deliver_rejected_unchanged. Qed.
Print Assumptions C10_rejected_unchanged.

(* NOT PROVED (stated): the ledger of every reachable state equals the replay of its main chain, and a node restarted
   from any commit prefix reaches the same final chain.  Both are checked on the implementation for the crash points of
   every generated history (Check/C10.v), together with LMDB's own atomicity, which no model here can exhibit. *)
Definition C10_crash_recovers_full : Prop := forall cfg genesis_addr team_key n0 (ops : list (block * N)) k j,
  (j <= k)%nat ->
  top (run cfg genesis_addr team_key (run cfg genesis_addr team_key n0 (firstn k ops)) (skipn j ops))
  = top (run cfg genesis_addr team_key n0 ops).
