(* Property C10 - each committed store state is a consistent chain; crashes lose whole blocks only. *)
From Virel Require Import Lib.Config Lib.U64 Lib.AMap Model.Ledger Model.Node Proofs.NodeBasics.
Open Scope N_scope.

(* a rejected block, reorganisation or transaction changes nothing: the model's step returns the old node *)
Theorem C10_rejected_unchanged : forall cfg genesis_addr team_key n b now n' c amb,
  deliver cfg genesis_addr team_key n b now = (n', Rejected c, amb) -> n' = n.
Proof. exact deliver_rejected_unchanged. Qed.
Print Assumptions C10_rejected_unchanged.
