(* Property C10 - each committed store state is a consistent chain; crashes lose whole blocks only.
   In the model one delivery is one database commit (the harness checks on the implementation that a delivery makes
   at most one commit and that a refused one leaves the store byte-identical), so "every committed state" = every
   state reachable by deliveries.  Statements only; proofs in Proofs/Restart.v, Proofs/ForkChoice.v, Proofs/ChainInv.v,
   Proofs/ChainRun.v, Proofs/ChainHeights.v, Proofs/ChainExamples.v. *)
From Virel Require Import Lib.Config Lib.U64 Lib.AMap Model.Ledger Model.Node Spec.Chain Proofs.NodeBasics Proofs.ForkChoice
  Proofs.Restart Proofs.ChainInv Proofs.ChainRun Proofs.ChainHeights Proofs.ChainExamples Gen.Params
  Model.Emission Proofs.Emission Proofs.Conservation Proofs.Pointwise Proofs.Refine2 Proofs.Undo
  Proofs.Replay1 Proofs.Replay2 Proofs.Replay3 Proofs.Replay4 Proofs.Replay5.
Open Scope N_scope.

(* every reachable state: the tip's block exists, no stored block is heavier, and the start-up reorganisation check
   (cmd/virel-node/node.go) leaves the state exactly as it is *)
Theorem C10_restart_is_identity : forall cfg genesis_addr team_key g n0 ops,
  node0 cfg genesis_addr g = Ok n0 -> b_cd g = b_diff g ->
  exists amb, check_reorgs cfg genesis_addr (run cfg genesis_addr team_key n0 ops)
              = Ok (run cfg genesis_addr team_key n0 ops, amb).
Proof. exact reachable_startup_noop. Qed.
Print Assumptions C10_restart_is_identity.

Theorem C10_tip_exists_every_commit : forall cfg genesis_addr team_key g n0 ops,
  node0 cfg genesis_addr g = Ok n0 -> b_cd g = b_diff g ->
  let n := run cfg genesis_addr team_key n0 ops in
  (exists t, get_block n (top n) = Some t /\ b_cd t = top_cd n) /\
  (forall h b, get_block n h = Some b -> b_cd b <= top_cd n).
Proof. exact tip_always_maximal. Qed.
Print Assumptions C10_tip_exists_every_commit.

(* the lost deliveries can be offered again with overlap: an accepted block is stored, and offering a stored block again
   changes nothing *)
Theorem C10_accepted_is_stored : forall cfg genesis_addr team_key n b now n' amb,
  deliver cfg genesis_addr team_key n b now = (n', Accepted, amb) -> get_block n' (b_hash b) = Some b.
Proof. exact accepted_is_stored. Qed.
Print Assumptions C10_accepted_is_stored.

Theorem C10_redelivery_idempotent : forall cfg genesis_addr team_key n b now now' n' amb,
  deliver cfg genesis_addr team_key n b now = (n', Accepted, amb) ->
  fst (fst (deliver cfg genesis_addr team_key n' b now')) = n'.
Proof. exact delivery_idempotent. Qed.
Print Assumptions C10_redelivery_idempotent.

(* a rejected block, reorganisation or transaction changes nothing in the store *)
Theorem C10_rejected_unchanged : forall cfg genesis_addr team_key n b now n' c amb,
  deliver cfg genesis_addr team_key n b now = (n', Rejected c, amb) -> n' = n.
Proof. exact deliver_rejected_unchanged. Qed.
Print Assumptions C10_rejected_unchanged.

(* "each committed store state is a consistent chain": after EVERY sequence of fewer than 2^64 - 1 deliveries (any
   blocks - valid, invalid, forked, duplicated, children before parents - with any clock readings; the bound is there
   because checkBlock compares heights in uint64 arithmetic)
   (a) the block store is a tree rooted at genesis: keys are the blocks' hashes, genesis is stored at height 0, every other
       stored block has a stored parent exactly one height below (no orphans);
   (c) the tip fields are the height and the cumulative difficulty of the stored block named by the tip hash;
   (b) the height index is exactly the main chain: index[top_h] = tip, index[0] = genesis, every entry up to top_h is a
       stored block of that height whose parent is the entry below, and there is NO entry above top_h (a reorganisation
       to a heavier but shorter chain removes them). *)
Theorem C10_every_commit_consistent_chain : forall cfg genesis_addr team_key g n0 ops,
  node0 cfg genesis_addr g = Ok n0 -> b_height g = 0 -> b_cd g = b_diff g ->
  N.of_nat (length ops) < two64 - 1 ->
  let n := run cfg genesis_addr team_key n0 ops in
  (forall h b, get_block n h = Some b -> b_hash b = h) /\
  (exists g0, get_block n (b_hash g) = Some g0 /\ b_height g0 = 0) /\
  (forall h b, get_block n h = Some b -> h <> b_hash g ->
     exists p, get_block n (prev_hash b) = Some p /\ b_height b = b_height p + 1) /\
  (exists t, get_block n (top n) = Some t /\ b_height t = top_h n /\ b_cd t = top_cd n) /\
  get_topo n (top_h n) = Some (top n) /\
  get_topo n 0 = Some (b_hash g) /\
  (forall ht, top_h n < ht -> get_topo n ht = None) /\
  (forall ht, ht <= top_h n ->
     exists y yb, get_topo n ht = Some y /\ get_block n y = Some yb /\ b_height yb = ht /\
                  (0 < ht -> get_topo n (ht - 1) = Some (prev_hash yb))).
Proof. exact chain_structure_always. Qed.
Print Assumptions C10_every_commit_consistent_chain.

(* the invariants behind it are inductive for a single commit (any outcome), on any state holding fewer than 2^64 blocks *)
Theorem C10_commit_preserves_chain : forall cfg genesis_addr team_key gh n b now n' out amb,
  CInv gh n -> FInv n -> N.of_nat (length (blocks n)) < two64 ->
  deliver cfg genesis_addr team_key n b now = (n', out, amb) -> CInv gh n'.
Proof. exact deliver_CInv. Qed.
Print Assumptions C10_commit_preserves_chain.

Theorem C10_commit_preserves_heights : forall cfg genesis_addr team_key gh n b now n' out amb,
  CInv gh n -> FInv n -> HInv n -> N.of_nat (length (blocks n)) < two64 ->
  deliver cfg genesis_addr team_key n b now = (n', out, amb) -> HInv n'.
Proof. exact deliver_HInv. Qed.
Print Assumptions C10_commit_preserves_heights.

(* clause (c) by itself: the stored height of the tip (stats.TopHeight) is the height of the tip block.
   This clause was REFUTED for the code before /repo 82cbb1b (finding R20): stats.Tips was keyed by the hash of the
   block that opened an alternative tip, addAltchainBlock found the entry by the new block's parent hash and did Height++
   on it even when the entry already named a descendant of that parent; a reorganisation to such a block ended with
   TopHeight one too high.  It was found while proving this invariant (the induction step of add_altchain_block needs the
   recorded height of the entry to be the height of its key block) and witnessed by a five-block history, now
   [stale_key_history_example] in Proofs/ChainExamples.v and the ledger scenario "stalekey" (Check/C17 code 1). *)
Theorem C10_top_height_is_tip_height : forall cfg genesis_addr team_key g n0 ops,
  node0 cfg genesis_addr g = Ok n0 -> b_height g = 0 -> b_cd g = b_diff g ->
  N.of_nat (length ops) < two64 - 1 ->
  let n := run cfg genesis_addr team_key n0 ops in
  exists t, get_block n (top n) = Some t /\ b_height t = top_h n /\ b_cd t = top_cd n.
Proof. exact top_height_is_tip_height. Qed.
Print Assumptions C10_top_height_is_tip_height.

(* every alternative tip entry is filed under the hash of the block it names and records that block's height and weight *)
Theorem C10_tip_entries_exact : forall cfg genesis_addr team_key g n0 ops,
  node0 cfg genesis_addr g = Ok n0 -> b_height g = 0 -> b_cd g = b_diff g ->
  N.of_nat (length ops) < two64 - 1 ->
  let n := run cfg genesis_addr team_key n0 ops in
  forall k tp, In (k, tp) (tips n) ->
    k = t_hash tp /\ exists tb, get_block n (t_hash tp) = Some tb /\ b_height tb = t_height tp /\ b_cd tb = t_cd tp.
Proof. exact tips_always_exact. Qed.
Print Assumptions C10_tip_entries_exact.

(* non-vacuity: the premises hold for a concrete history with a reorganisation to a heavier but shorter chain; the index
   loses its entry of height 3 *)
Theorem C10_chain_premises_satisfiable :
  exists n0, node0 cfg_verifnet 7 w_genesis = Ok n0 /\ b_height w_genesis = 0 /\ b_cd w_genesis = b_diff w_genesis /\
    N.of_nat (length sr_ops) < two64 - 1 /\
    w_outcomes n0 sr_ops = [Accepted; Accepted; Accepted; Accepted; Accepted] /\
    (let n := run cfg_verifnet 7 0 n0 (firstn 4 sr_ops) in
     topo n = [(0, 1); (1, 2); (2, 3); (3, 8)] /\ top n = 8 /\ top_h n = 3) /\
    (let n := run cfg_verifnet 7 0 n0 sr_ops in
     topo n = [(0, 1); (1, 4); (2, 6)] /\ top n = 6 /\ top_h n = 2 /\ walk (blocks n) 2 (top n) = [6; 4; 1] /\
     tips n = [(8, mktip 8 3 11)]).
Proof. exact shorter_heavier_reorg_example. Qed.
Print Assumptions C10_chain_premises_satisfiable.

(* the history that refuted clause (c) before the repair: now the reorganisation to the second child D of B ends with
   top_h = 2 = height of D, and the sibling tip C keeps its own entry *)
Theorem C10_stale_key_history :
  exists n0, node0 cfg_verifnet 7 w_genesis = Ok n0 /\
    w_outcomes n0 w_ops = [Accepted; Accepted; Accepted; Accepted; Accepted] /\
    let n := run cfg_verifnet 7 0 n0 w_ops in
    topo n = [(0, 1); (1, 4); (2, 6)] /\ top n = 6 /\ top_h n = 2 /\
    tips n = [(5, mktip 5 2 9); (3, mktip 3 2 9)].
Proof. exact stale_key_history_example. Qed.
Print Assumptions C10_stale_key_history.

(* the ledger component: in every committed state (= every state reachable by deliveries) the ledger is the replay of the
   main chain the store describes: the blocks filed under the heights 1 .. top_h apply one after the other to the genesis
   ledger and the result agrees with the stored ledger on every account (as functions), the delegate table and the staked
   total.  Premises and proof: Props/C03.v (C03_ledger_is_replay), Proofs/Replay1-5.v; the premise on the typing of the
   stored transactions is derived from the byte-level decoder in C03_ledger_is_replay_decoded (Proofs/CodecBridge*.v). *)
Theorem C10_ledger_is_replay_of_main_chain : forall cfg genesis_addr team_key g n0 ops,
  cfg_ok_emission cfg = true -> cfg_ok_feepos cfg = true ->
  node0 cfg genesis_addr g = Ok n0 -> b_height g = 0 -> b_cd g = b_diff g ->
  N.of_nat (length ops) < two64 - 1 ->
  let n := run cfg genesis_addr team_key n0 ops in
  Forall (tx_c cfg) (b_txs g) ->
  (forall h b, get_block n h = Some b -> Forall (fun t => wf_tx cfg t /\ ver_ok t = true) (b_txs b)) ->
  (forall bs, up (b_hash g) (blocks n) (b_hash g) bs ->
     NoDup (bkeys g ++ flat_map bkeys bs) /\ c0 g + bnouts bs < two64 /\ c0 g + bntx bs < two64) ->
  exists lr, apply_chain cfg genesis_addr (ldg n0) (lbs n (mchain n)) = Ok lr /\
    same_accounts (ldg n) lr /\ dlgs (ldg n) = dlgs lr /\ staked (ldg n) = staked lr.
Proof. exact ledger_is_replay_validated. Qed.
Print Assumptions C10_ledger_is_replay_of_main_chain.

(* consequence: EVERY committed state conserves coins (C01 for every history): the balances of the stored ledger sum
   to the emission scheduled for the heights 0 .. top_h, at most the maximum supply; the staked total is the exact sum
   of all pool funds; nothing wraps.  Proof: Proofs/NodeConservation.v (Props/C01.v: the C01_reachable theorems). *)
From Virel Require Proofs.StakedSum Proofs.KeyInv Proofs.NodeConservation.
Theorem C10_every_commit_conserves : forall cfg genesis_addr team_key g n0 ops,
  cfg_ok_emission cfg = true -> cfg_ok_feepos cfg = true ->
  node0 cfg genesis_addr g = Ok n0 -> b_height g = 0 -> b_cd g = b_diff g ->
  N.of_nat (length ops) < two64 - 1 ->
  let n := run cfg genesis_addr team_key n0 ops in
  Forall (tx_c cfg) (b_txs g) ->
  (forall h b, get_block n h = Some b -> Forall (fun t => wf_tx cfg t /\ ver_ok t = true) (b_txs b)) ->
  (forall bs, up (b_hash g) (blocks n) (b_hash g) bs ->
     NoDup (bkeys g ++ flat_map bkeys bs) /\ c0 g + bnouts bs < two64 /\ c0 g + bntx bs < two64) ->
  total_bal (ldg n) = sum_rewards cfg (N.to_nat (top_h n)) /\ total_bal (ldg n) <= max_supply cfg /\
  StakedSum.SInv (ldg n) /\
  (forall a s, get_state (ldg n) a = Some s -> bal s < two64) /\ staked (ldg n) < two64 /\
  NoDup (map fst (accts (ldg n))) /\ NoDup (map fst (dlgs (ldg n))) /\
  (forall id d f, get_dlg (ldg n) id = Some d -> In f (d_funds d) -> 0 < f_amt f) /\
  (forall id d, get_dlg (ldg n) id = Some d -> NoDup (map f_owner (d_funds d))).
Proof. exact NodeConservation.reachable_conserved. Qed.
Print Assumptions C10_every_commit_conserves.

(* CRASH AND REDELIVERY.  A node stopped after its k-th delivery holds the state after those k deliveries (whole
   deliveries only); the restart check is the identity (C10_restart_is_identity); the deliveries are then offered again
   from an earlier point j <= k.  When the re-offered deliveries j..k-1 are blocks the node holds (they were accepted
   before the crash), the node ends in EXACTLY the state - tip, chain, index, ledger, every table - of the run that was
   never interrupted. *)
From Virel Require Proofs.Crash.
Theorem C10_crash_recovers : forall cfg genesis_addr team_key n0 (ops : list (block * N)) (k j : nat),
  (j <= k)%nat ->
  Forall (fun op => get_block (run cfg genesis_addr team_key n0 (firstn k ops)) (b_hash (fst op)) <> None)
         (skipn j (firstn k ops)) ->
  run cfg genesis_addr team_key (run cfg genesis_addr team_key n0 (firstn k ops)) (skipn j ops)
  = run cfg genesis_addr team_key n0 ops.
Proof. exact Crash.crash_recovers. Qed.
Print Assumptions C10_crash_recovers.

(* The unconditional statement below is NOT a theorem of the model and is not claimed: a re-offered delivery that was
   REFUSED the first time (a child that arrived before its parent, a block whose timestamp was still in the future) can
   be accepted the second time, so the restarted node may hold more blocks - and a heavier tip - than the node that
   never crashed; with equally heavy tips the kept tip depends on arrival order.  What the implementation check
   (Check/C10.v) compares for the crash points of every generated history is therefore the final chain and ledger of
   histories whose overlap is at most three deliveries; LMDB's own atomicity no model here can exhibit. *)
Definition C10_crash_recovers_full : Prop := forall cfg genesis_addr team_key n0 (ops : list (block * N)) k j,
  (j <= k)%nat ->
  top (run cfg genesis_addr team_key (run cfg genesis_addr team_key n0 (firstn k ops)) (skipn j ops))
  = top (run cfg genesis_addr team_key n0 ops).
