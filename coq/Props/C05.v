(* Property C05 - only well-formed blocks can extend any chain the node keeps.
   The property's clause list is Spec/WellFormed.v (one boolean per clause).  Statements only. *)
From Virel Require Import Lib.Config Lib.U64 Lib.AMap Model.Ledger Model.Node Spec.WellFormed
  Proofs.NodeBasics Proofs.WellFormedProof Proofs.ForkChoice Proofs.WellFormed2 Gen.Params.
From Virel Require Model.Des Model.CodecBlock Proofs.DesVal Proofs.WellFormedDecoder.
Open Scope N_scope.

(* the full statement: every accepted new block satisfies every clause (all 14).
   It is FALSE of the code.  Clauses refuted by an accepted block (theorems below):
      7  ancestor list = real predecessors    C05_ancestors_refuted   (open finding R13a)
      9  total transaction size               C05_size_refuted        (open finding R13b)
     10  at most max_side_blocks side blocks  C05_nsides_refuted      (validation never counts them; the wire decoder
                                                                       does: C05_nsides_decoder)
     11  side blocks pairwise distinct        C05_distinct_440_mainnet_refuted, BY DESIGN and only at height 440 of a
                                              configuration whose checkpoints cover that height (mainnet's historical
                                              block 440): the code skips its duplicate tests there.  Until /repo 7c12eb4
                                              it skipped them at height 440 of EVERY network (finding R22, found by the
                                              former witness of this file, replayed by the ledger scenario h440, fixed);
                                              C05_twice_440_verifnet_rejected is the regression.  Proved everywhere else,
                                              and at every height of a checkpoint-free configuration.
   Every other clause (1-6, 8, 12, 13, 14) is proved: C05_accepted_wellformed. *)
Definition C05_full : Prop := forall cfg genesis_addr team_key n b now n' amb,
  deliver cfg genesis_addr team_key n b now = (n', Accepted, amb) ->
  get_block n (b_hash b) = None -> wellformed cfg n b now = 0.

(* PROVED PART (for all configurations, node states, blocks and clock readings): an accepted block has a stored parent,
   was not stored before, and satisfies: proof of work at its declared difficulty outside the checkpointed range (1),
   difficulty = retarget of its parent (2), height = parent + 1 (3), parent time <= time <= now + future limit (4),
   cumulative difficulty = parent's + its own contribution (5), version required at its height (6), no merge-mining
   duplicates (8), side blocks pairwise distinct (11; not at height 440 under a checkpoint, see above), no side block is the commitment of
   or listed by one of the three predecessors (12), every side block shares an ancestor with the block (13), every side
   block carries at least 2/3 of the block's work (14), difficulty >= minimum.
   Hypotheses: the clock, the difficulty and the parent's height are far from the uint64/uint128 limits; for clause 11
   the two symbolic identity classes of the side blocks are coherent ([commits_coherent]: equal under Commitment.Equals
   implies equal (BaseHash, Nonce, NonceExtra), which holds of real commitments because Equals compares a superset of
   those fields; C05_distinct_needs_coherence shows the model needs it said).
   MISSING for the full statement: clauses 7, 9, 10 (false of the code, refuted below). *)
Theorem C05_accepted_wellformed : forall cfg genesis_addr team_key n b now n' amb,
  deliver cfg genesis_addr team_key n b now = (n', Accepted, amb) ->
  now + future_time_limit cfg * 1000 < two64 -> b_diff b * 2 < two128 ->
  (forall p, get_block n (prev_hash b) = Some p -> b_height p + 1 < two64) ->
  exists p, get_block n (prev_hash b) = Some p /\ get_block n (b_hash b) = None /\
    wf_pow cfg b = true /\ wf_diff cfg n p b = true /\ wf_height p b = true /\ wf_time cfg p b now = true /\
    wf_cd p b = true /\ wf_version cfg b = true /\ wf_chains cfg b = true /\
    ((b_height b <> 440 \/ is_secured cfg (b_height b) = false) -> commits_coherent (b_sides b) -> wf_distinct b = true) /\
    wf_unref n b = true /\ wf_shared b = true /\ wf_sidework cfg b = true /\
    min_difficulty cfg <= b_diff b.
Proof. exact accepted_wellformed. Qed.
Print Assumptions C05_accepted_wellformed.

(* the same through the specification's clause list: the only clauses an accepted new block can fail are 7, 9 and 10 *)
Theorem C05_accepted_wellformed_code : forall cfg genesis_addr team_key n b now n' amb,
  deliver cfg genesis_addr team_key n b now = (n', Accepted, amb) ->
  now + future_time_limit cfg * 1000 < two64 -> b_diff b * 2 < two128 ->
  (forall p, get_block n (prev_hash b) = Some p -> b_height p + 1 < two64) ->
  (b_height b <> 440 \/ is_secured cfg (b_height b) = false) -> commits_coherent (b_sides b) ->
  let c := wellformed cfg n b now in c = 0 \/ c = 7 \/ c = 9 \/ c = 10.
Proof. exact accepted_wellformed_code. Qed.
Print Assumptions C05_accepted_wellformed_code.

(* ... and a block that has them is well formed: C05_full with the three unenforced clauses as hypotheses *)
Theorem C05_full_modulo_7_9_10 : forall cfg genesis_addr team_key n b now n' amb p,
  deliver cfg genesis_addr team_key n b now = (n', Accepted, amb) ->
  now + future_time_limit cfg * 1000 < two64 -> b_diff b * 2 < two128 ->
  (forall p, get_block n (prev_hash b) = Some p -> b_height p + 1 < two64) ->
  (b_height b <> 440 \/ is_secured cfg (b_height b) = false) -> commits_coherent (b_sides b) ->
  get_block n (prev_hash b) = Some p -> wf_anc p b = true -> wf_size cfg b = true -> wf_nsides cfg b = true ->
  wellformed cfg n b now = 0.
Proof. exact accepted_wellformed_modulo. Qed.
Print Assumptions C05_full_modulo_7_9_10.

(* the single side-block clauses, without the numeric hypotheses *)
Theorem C05_side_blocks_unreferenced : forall cfg genesis_addr team_key n b now n' amb,
  deliver cfg genesis_addr team_key n b now = (n', Accepted, amb) -> wf_unref n b = true.
Proof. exact accepted_unref. Qed.
Print Assumptions C05_side_blocks_unreferenced.

Theorem C05_side_blocks_share_ancestor : forall cfg genesis_addr team_key n b now n' amb,
  deliver cfg genesis_addr team_key n b now = (n', Accepted, amb) -> wf_shared b = true.
Proof. exact accepted_shared. Qed.
Print Assumptions C05_side_blocks_share_ancestor.

Theorem C05_side_blocks_distinct : forall cfg genesis_addr team_key n b now n' amb,
  deliver cfg genesis_addr team_key n b now = (n', Accepted, amb) ->
  (b_height b <> 440 \/ is_secured cfg (b_height b) = false) -> commits_coherent (b_sides b) -> wf_distinct b = true.
Proof. exact accepted_distinct. Qed.
Print Assumptions C05_side_blocks_distinct.

(* the code's own duplicate rule (pairwise different (BaseHash, Nonce, NonceExtra)), no coherence needed *)
Theorem C05_side_blocks_dup_free : forall cfg genesis_addr team_key n b now n' amb,
  deliver cfg genesis_addr team_key n b now = (n', Accepted, amb) ->
  (b_height b <> 440 \/ is_secured cfg (b_height b) = false) -> sides_dup_free (b_sides b) = true.
Proof. exact accepted_dup_free. Qed.
Print Assumptions C05_side_blocks_dup_free.

(* configurations without checkpoints (testnet, unittest, verifnet): no exempt height at all *)
Theorem C05_side_blocks_distinct_no_checkpoints : forall cfg genesis_addr team_key, cp_max cfg = 0 ->
  forall n b now n' amb,
  deliver cfg genesis_addr team_key n b now = (n', Accepted, amb) ->
  commits_coherent (b_sides b) -> wf_distinct b = true.
Proof. exact accepted_distinct_no_cp. Qed.
Print Assumptions C05_side_blocks_distinct_no_checkpoints.

Theorem C05_side_blocks_dup_free_no_checkpoints : forall cfg genesis_addr team_key, cp_max cfg = 0 ->
  forall n b now n' amb,
  deliver cfg genesis_addr team_key n b now = (n', Accepted, amb) -> sides_dup_free (b_sides b) = true.
Proof. exact accepted_dup_free_no_cp. Qed.
Print Assumptions C05_side_blocks_dup_free_no_checkpoints.

Theorem C05_accepted_wellformed_code_no_checkpoints : forall cfg genesis_addr team_key, cp_max cfg = 0 ->
  forall n b now n' amb,
  deliver cfg genesis_addr team_key n b now = (n', Accepted, amb) ->
  now + future_time_limit cfg * 1000 < two64 -> b_diff b * 2 < two128 ->
  (forall p, get_block n (prev_hash b) = Some p -> b_height p + 1 < two64) ->
  commits_coherent (b_sides b) ->
  let c := wellformed cfg n b now in c = 0 \/ c = 7 \/ c = 9 \/ c = 10.
Proof. exact accepted_wellformed_code_no_cp. Qed.
Print Assumptions C05_accepted_wellformed_code_no_checkpoints.

Theorem C05_no_checkpoints_testnet : cp_max cfg_testnet = 0. Proof. reflexivity. Qed.
Print Assumptions C05_no_checkpoints_testnet.
Theorem C05_no_checkpoints_unittest : cp_max cfg_unittest = 0. Proof. reflexivity. Qed.
Print Assumptions C05_no_checkpoints_unittest.
Theorem C05_no_checkpoints_verifnet : cp_max cfg_verifnet = 0. Proof. reflexivity. Qed.
Print Assumptions C05_no_checkpoints_verifnet.

(* ---------------- refuted clauses: accepted blocks on reachable nodes of the verification network ---------------- *)
(* clause 7, "ancestor list equal to the hashes of its actual predecessors" (open finding R13a) *)
Theorem C05_ancestors_refuted :
  exists n b now n' amb p,
    deliver cfg_verifnet 7 0 n b now = (n', Accepted, amb) /\ get_block n (prev_hash b) = Some p /\
    wf_anc p b = false.
Proof. exact accepted_wellformed_anc_refuted. Qed.
Print Assumptions C05_ancestors_refuted.

(* clause 9, total virtual transaction size (open finding R13b): block [w2_big] of height 1, 76 transfers of 32 outputs,
   65892 > 65536; all other clauses hold *)
Theorem C05_size_refuted :
  exists n b now n' amb,
    node0 cfg_verifnet 7 wit_g = Ok n /\
    deliver cfg_verifnet 7 0 n b now = (n', Accepted, amb) /\ get_block n (b_hash b) = None /\
    tx_sizes cfg_verifnet b = 65892 /\ max_block_size cfg_verifnet = 65536 /\
    wf_size cfg_verifnet b = false /\ wellformed cfg_verifnet n b now = 9 /\
    wf_nsides cfg_verifnet b = true /\ wf_distinct b = true /\ wf_unref n b = true /\ wf_shared b = true /\
    wf_sidework cfg_verifnet b = true.
Proof. exact accepted_size_refuted. Qed.
Print Assumptions C05_size_refuted.

(* clause 10, number of side blocks: block [w2_three_sides] of height 2 with three side blocks; all other clauses hold *)
Theorem C05_nsides_refuted :
  exists n b now n' amb,
    node0 cfg_verifnet 7 wit_g = Ok w2_n0 /\ n = run cfg_verifnet 7 0 w2_n0 [(wit_b1, 5000)] /\
    deliver cfg_verifnet 7 0 n b now = (n', Accepted, amb) /\ get_block n (b_hash b) = None /\
    length (b_sides b) = 3%nat /\ max_side_blocks cfg_verifnet = 2 /\
    wf_nsides cfg_verifnet b = false /\ wellformed cfg_verifnet n b now = 10 /\
    wf_distinct b = true /\ wf_unref n b = true /\ wf_shared b = true /\ wf_sidework cfg_verifnet b = true.
Proof. exact accepted_nsides_refuted. Qed.
Print Assumptions C05_nsides_refuted.

(* ... the bound is the wire decoder's: whatever Block.DeserializeFull returns on a byte string has at most
   max_side_blocks side blocks *)
Theorem C05_nsides_decoder : forall cfg, CodecBlock.cfg_ok_block cfg = true -> forall bs b txs s',
  DesVal.bytes bs -> Des.blen bs < two64 ->
  Des.run (CodecBlock.dec_full_block cfg) bs = Des.MOk (b, txs) s' ->
  Des.blen (CodecBlock.hd_side (CodecBlock.bl_header b)) <= max_side_blocks cfg.
Proof. exact WellFormedDecoder.decoded_full_block_nsides. Qed.
Print Assumptions C05_nsides_decoder.

(* clause 11 at height 440, regression of finding R22 (fixed in /repo 7c12eb4): on the verification network, after 439
   blocks, the block [w2_twice 440] that lists one side block twice is refused by the duplicate test and the node is
   unchanged; the same block with two different side blocks is accepted and well formed *)
Theorem C05_twice_440_verifnet_rejected :
  node0 cfg_verifnet 7 wit_g = Ok w2_n0 /\
  let n := run cfg_verifnet 7 0 w2_n0 (w2_chain 439) in
  top_h n = 439 /\ b_height (w2_twice 440) = 440 /\ wf_distinct (w2_twice 440) = false /\
  deliver cfg_verifnet 7 0 n (w2_twice 440) 6600000 = (n, Rejected 607, false) /\
  snd (fst (deliver cfg_verifnet 7 0 n (w2_two_sides 440) 6600000)) = Accepted /\
  wellformed cfg_verifnet n (w2_two_sides 440) 6600000 = 0.
Proof. exact twice_440_verifnet_rejected. Qed.
Print Assumptions C05_twice_440_verifnet_rejected.

(* clause 11 at height 440 of mainnet, BY DESIGN (the exemption of the historical block 440, which the checkpoints pin):
   after 439 blocks matching the checkpoints of their heights, [w2m_twice 440] lists one side block twice and is
   accepted; one height lower it is refused *)
Theorem C05_distinct_440_mainnet_refuted :
  exists n b now n' amb,
    node0 cfg_mainnet 7 w2m_g = Ok w2m_n0 /\ n = run cfg_mainnet 7 0 w2m_n0 (w2m_chain 439) /\
    deliver cfg_mainnet 7 0 n b now = (n', Accepted, amb) /\ get_block n (b_hash b) = None /\
    b_height b = 440 /\ is_secured cfg_mainnet 440 = true /\ commits_coherent (b_sides b) /\
    wf_distinct b = false /\ sides_dup_free (b_sides b) = false /\ wellformed cfg_mainnet n b now = 11 /\
    snd (fst (deliver cfg_mainnet 7 0 (run cfg_mainnet 7 0 w2m_n0 (w2m_chain 438)) (w2m_twice 439) now)) = Rejected 607.
Proof. exact accepted_distinct_440_mainnet_refuted. Qed.
Print Assumptions C05_distinct_440_mainnet_refuted.

(* the coherence hypothesis of clause 11 cannot be dropped in the symbolic model (model artefact, not a code finding) *)
Theorem C05_distinct_needs_coherence :
  exists n b now n' amb,
    deliver cfg_verifnet 7 0 n b now = (n', Accepted, amb) /\ b_height b <> 440 /\
    ~ commits_coherent (b_sides b) /\ wf_distinct b = false.
Proof. exact accepted_distinct_needs_coherence. Qed.
Print Assumptions C05_distinct_needs_coherence.

(* a block that fails any rule is rejected and leaves no trace: the step returns the node it was given *)
Theorem C05_rejected_no_trace : forall cfg genesis_addr team_key n b now n' c amb,
  deliver cfg genesis_addr team_key n b now = (n', Rejected c, amb) -> n' = n.
Proof. exact deliver_rejected_unchanged. Qed.
Print Assumptions C05_rejected_no_trace.

(* non-vacuity of the decoder statement's side condition *)
Theorem C05_cfg_ok_block_mainnet : CodecBlock.cfg_ok_block cfg_mainnet = true. Proof. vm_compute. reflexivity. Qed.
Print Assumptions C05_cfg_ok_block_mainnet.
Theorem C05_cfg_ok_block_testnet : CodecBlock.cfg_ok_block cfg_testnet = true. Proof. vm_compute. reflexivity. Qed.
Print Assumptions C05_cfg_ok_block_testnet.
Theorem C05_cfg_ok_block_verifnet : CodecBlock.cfg_ok_block cfg_verifnet = true. Proof. vm_compute. reflexivity. Qed.
Print Assumptions C05_cfg_ok_block_verifnet.
