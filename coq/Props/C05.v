(* Property C05 - only well-formed blocks can extend any chain the node keeps.
   The property's clause list is Spec/WellFormed.v (one boolean per clause).  Statements only. *)
From Virel Require Import Lib.Config Lib.U64 Lib.AMap Model.Ledger Model.Node Spec.WellFormed
  Proofs.NodeBasics Proofs.WellFormedProof Gen.Params.
Open Scope N_scope.

(* the full statement: every accepted new block satisfies every clause *)
Definition C05_full : Prop := forall cfg genesis_addr team_key n b now n' amb,
  deliver cfg genesis_addr team_key n b now = (n', Accepted, amb) ->
  get_block n (b_hash b) = None -> wellformed cfg n b now = 0.

(* PROVED PART (for all configurations, node states, blocks and clock readings): an accepted block has a stored parent,
   was not stored before, and satisfies: proof of work at its declared difficulty outside the checkpointed range (1),
   difficulty = retarget of its parent (2), height = parent + 1 (3), parent time <= time <= now + future limit (4),
   cumulative difficulty = parent's + its own contribution (5), version required at its height (6), no merge-mining
   duplicates (8), every side block carries at least 2/3 of the block's work (14), difficulty >= minimum.
   Hypotheses: the clock, the difficulty and the parent's height are far from the uint64/uint128 limits.
   MISSING for the full statement: clause 7 is false of the code (refuted below: open finding R13a); clause 9 (total
   transaction size) is not enforced by the code either; clause 10 (at most two side blocks) is enforced by the wire
   decoder, not by validation; clauses 11-13 (side blocks distinct, unreferenced, sharing an ancestor) are covered by
   the correspondence check only. *)
Theorem C05_accepted_wellformed_partial : forall cfg genesis_addr team_key n b now n' amb,
  deliver cfg genesis_addr team_key n b now = (n', Accepted, amb) ->
  now + future_time_limit cfg * 1000 < two64 -> b_diff b * 2 < two128 ->
  (forall p, get_block n (prev_hash b) = Some p -> b_height p + 1 < two64) ->
  exists p, get_block n (prev_hash b) = Some p /\ get_block n (b_hash b) = None /\
    wf_pow cfg b = true /\ wf_diff cfg n p b = true /\ wf_height p b = true /\ wf_time cfg p b now = true /\
    wf_cd p b = true /\ wf_version cfg b = true /\ wf_chains cfg b = true /\ wf_sidework cfg b = true /\
    min_difficulty cfg <= b_diff b.
Proof. exact accepted_wellformed_core. Qed.
Print Assumptions C05_accepted_wellformed_partial.

(* the clause "ancestor list equal to the hashes of its actual predecessors" does NOT hold of the code: witness *)
Theorem C05_ancestors_refuted :
  exists n b now n' amb p,
    deliver cfg_verifnet 7 0 n b now = (n', Accepted, amb) /\ get_block n (prev_hash b) = Some p /\
    wf_anc p b = false.
Proof. exact accepted_wellformed_anc_refuted. Qed.
Print Assumptions C05_ancestors_refuted.

(* a block that fails any rule is rejected and leaves no trace: the step returns the node it was given *)
Theorem C05_rejected_no_trace : forall cfg genesis_addr team_key n b now n' c amb,
  deliver cfg genesis_addr team_key n b now = (n', Rejected c, amb) -> n' = n.
Proof. exact deliver_rejected_unchanged. Qed.
Print Assumptions C05_rejected_no_trace.
