(* Property C05 - only well-formed blocks can extend any chain the node keeps. *)
From Virel Require Import Lib.Config Lib.U64 Lib.AMap Model.Ledger Model.Node Proofs.NodeBasics.
Open Scope N_scope.

Theorem C05_rejected_no_trace : forall cfg genesis_addr team_key n b now n' c amb,
  deliver cfg genesis_addr team_key n b now = (n', Rejected c, amb) -> n' = n.
Proof. exact deliver_rejected_unchanged. Qed.
Print Assumptions C05_rejected_no_trace.
