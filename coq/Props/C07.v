(* Property C07 - emission schedule and coinbase split.  Only theorem statements, closed by [exact]. *)
From Virel Require Import Lib.Config Lib.U64 Model.Emission Proofs.Emission Gen.Params.
Open Scope N_scope.

(* the side condition holds at every generated configuration (non-vacuity of everything below) *)
Theorem C07_cfg_ok_mainnet : cfg_ok_emission cfg_mainnet = true. Proof. vm_compute. reflexivity. Qed.
Theorem C07_cfg_ok_testnet : cfg_ok_emission cfg_testnet = true. Proof. vm_compute. reflexivity. Qed.
Theorem C07_cfg_ok_unittest : cfg_ok_emission cfg_unittest = true. Proof. vm_compute. reflexivity. Qed.

Theorem C07_reward_antitone : forall cfg, cfg_ok_emission cfg = true ->
  forall h1 h2, h1 <= h2 -> reward cfg h2 <= reward cfg h1.
Proof. exact reward_antitone. Qed.
Print Assumptions C07_reward_antitone.

Theorem C07_reward_flat : forall cfg, cfg_ok_emission cfg = true ->
  forall h, h < 2 * reduction_interval cfg -> reward cfg h = block_reward cfg.
Proof. exact reward_flat. Qed.
Print Assumptions C07_reward_flat.

Theorem C07_reward_const_in_phase : forall cfg, cfg_ok_emission cfg = true ->
  forall k h, k * reduction_interval cfg <= h -> h < (k + 1) * reduction_interval cfg ->
  reward cfg h = reward cfg (k * reduction_interval cfg).
Proof. exact reward_const_in_phase. Qed.
Print Assumptions C07_reward_const_in_phase.

Theorem C07_reward_step : forall cfg, cfg_ok_emission cfg = true ->
  forall k, 1 <= k ->
  reward cfg ((k + 1) * reduction_interval cfg) = reward cfg (k * reduction_interval cfg) * 9 / 10.
Proof. exact reward_step. Qed.
Print Assumptions C07_reward_step.

Theorem C07_reward_eventually_zero : forall cfg, cfg_ok_emission cfg = true ->
  exists H, H <= max_height cfg /\ forall h, H <= h -> reward cfg h = 0.
Proof. exact reward_eventually_zero. Qed.
Print Assumptions C07_reward_eventually_zero.

(* the supply function of the code (with its uint64 arithmetic) is the sum of rewards 0..h, for every uint64 height *)
Theorem C07_supply_is_sum : forall cfg, cfg_ok_emission cfg = true ->
  forall n : nat, N.of_nat n < two64 -> supply_at cfg (N.of_nat n) = sum_rewards cfg n.
Proof. exact supply_is_sum. Qed.
Print Assumptions C07_supply_is_sum.

Theorem C07_supply_le_max : forall cfg, cfg_ok_emission cfg = true ->
  forall h, h < two64 -> supply_at cfg h <= max_supply cfg.
Proof. exact supply_le_max. Qed.
Print Assumptions C07_supply_le_max.

Theorem C07_sum_rewards_le_max : forall cfg, cfg_ok_emission cfg = true ->
  forall n : nat, sum_rewards cfg n <= max_supply cfg.
Proof. exact sum_rewards_le_max. Qed.
Print Assumptions C07_sum_rewards_le_max.

(* for both versions, both stake statuses, every total up to max supply + one reward:
   no panic, outputs sum to the total exactly (so no uint64 wrap or underflow occurred), governance = 10% *)
Theorem C07_coinbase_sum : forall cfg, cfg_ok_emission cfg = true ->
  forall version signed t, version <= 1 -> t <= max_supply cfg + block_reward cfg ->
  exists outs, coinbase cfg version signed t = CbOuts outs /\ sum_amounts outs = t /\
    nth_error outs 0 = Some (OUT_COINBASE_DEV, t * 10 / 100).
Proof. exact coinbase_sum. Qed.
Print Assumptions C07_coinbase_sum.

Theorem C07_coinbase_v1_unsigned_shape : forall cfg, cfg_ok_emission cfg = true ->
  forall t, t <= max_supply cfg + block_reward cfg ->
  let gov := t * 10 / 100 in let pow := t / 2 * 3 / 4 in let burn := t - gov - pow in
  coinbase cfg 1 false t =
    CbOuts ([(OUT_COINBASE_DEV, gov); (OUT_COINBASE_POW, pow)] ++ (if burn =? 0 then [] else [(OUT_COINBASE_BURN, burn)]))
  /\ gov + pow + burn = t.
Proof. exact coinbase_v1_unsigned. Qed.
Print Assumptions C07_coinbase_v1_unsigned_shape.

Theorem C07_coinbase_v1_signed_shape : forall cfg, cfg_ok_emission cfg = true ->
  forall t, t <= max_supply cfg + block_reward cfg ->
  let gov := t * 10 / 100 in let pow := t / 2 in let pos := t - pow - gov in
  coinbase cfg 1 true t =
    CbOuts ([(OUT_COINBASE_DEV, gov); (OUT_COINBASE_POW, pow)] ++ (if pos =? 0 then [] else [(OUT_COINBASE_POS, pos)]))
  /\ gov + pow + pos = t.
Proof. exact coinbase_v1_signed. Qed.
Print Assumptions C07_coinbase_v1_signed_shape.

(* the linear-time forms evaluated by the correspondence check are the transcriptions of the code *)
Theorem C07_fast_forms_agree : forall cfg, cfg_ok_emission cfg = true ->
  forall h, h < two64 -> reward cfg h = reward_fast cfg h /\ supply_at cfg h = supply_fast cfg h.
Proof. intros cfg H h Hh. split; [exact (reward_fast_eq cfg H h) | exact (supply_fast_eq cfg H h Hh)]. Qed.
Print Assumptions C07_fast_forms_agree.
