(* Property C16 - merge-mined work binds to exactly one block per chain.
   Only theorem statements, closed by [exact].  The model follows block.setMiningBlob / Commitment.MiningBlob after
   the repairs recorded in KNOWN_FINDINGS.json (status fixed); before them C16_slave_reconstructs and
   C16_slave_refuses_iff were refuted (two other chains truncated to one; blob without this network accepted).

   Hashes are symbolic.  H is the type of 32-byte values, Heqb its equality test; hash_block stands for Block.Hash
   and hash_hid for the BLAKE3 call of Commitment.HashingID.  Collision-freeness appears only as explicit premises
   of C16_blob_commits*, never as an axiom.  lt_net orders hashing ids by network id. *)
From Coq Require Import Bool Sorting.Sorted Sorting.Permutation.
From Virel Require Import Lib.Config Lib.U64 Lib.CheckLib Model.MergeMining Check.C16 Proofs.MergeMining Gen.Params.
Open Scope N_scope.

(* ---- the sort used by SortOtherChains and Commitment.MiningBlob ---- *)
Theorem C16_sort_total : forall (H : Type) (l : list (hashing_id H)),
  NoDup (map (hid_net H) l) ->
  exists s, sort_chains H l = Some s /\ StronglySorted (lt_net H) s /\ Permutation l s.
Proof. exact sort_chains_some. Qed.
Print Assumptions C16_sort_total.

Theorem C16_sort_panics_iff_duplicate : forall (H : Type) (l : list (hashing_id H)),
  sort_chains H l = None <-> ~ NoDup (map (hid_net H) l).
Proof. exact sort_chains_none_iff. Qed.
Print Assumptions C16_sort_panics_iff_duplicate.

(* ---- a blob's chain list is strictly ordered with one entry per network ----
   for every block whose OtherChains pass PrevalidateBlock's checks: no panic, timestamp and nonces of the block,
   strictly sorted, the block's other chains plus its own hashing id, exactly one entry of this network *)
Theorem C16_blob_chains_sorted : forall cfg (H : Type) (Heqb : H -> H -> bool) hash_block hash_hid (b : block H),
  validated_other_chains cfg H Heqb (b_other_chains H b) = true ->
  exists m, mining_blob cfg H hash_block hash_hid b = Some m /\
    m_timestamp H m = b_timestamp H b /\ m_nonce H m = b_nonce H b /\ m_nonce_extra H m = b_nonce_extra H b /\
    StronglySorted (lt_net H) (m_chains H m) /\ NoDup (map (hid_net H) (m_chains H m)) /\
    Permutation (b_other_chains H b ++ [own_hid cfg H hash_block hash_hid b]) (m_chains H m) /\
    filter (fun v => hid_net H v =? network_id cfg) (m_chains H m) = [own_hid cfg H hash_block hash_hid b].
Proof. exact blob_chains_sorted. Qed.
Print Assumptions C16_blob_chains_sorted.

(* ---- slave_reconstructs ----
   any strictly sorted chain list that contains the job's hashing id (in any position: first, last, in between;
   any number of other chains) and whose other chains pass the duplicate test: setMiningBlob succeeds, the block
   gets the blob's timestamp and nonces and ALL other chains in order, nothing else changes, and the block's own
   mining blob is the blob received, so the proof-of-work input is the one that was mined *)
Theorem C16_slave_reconstructs : forall cfg (H : Type) (Heqb : H -> H -> bool) hash_block hash_hid
    (job : block H) ts n ne (cs : list (hashing_id H)),
  StronglySorted (lt_net H) cs -> In (own_hid cfg H hash_block hash_hid job) cs ->
  nodup_chains H Heqb (filter (nonown cfg H) cs) = true ->
  let m := mkblob H ts n ne cs in
  let b' := with_blob H job m (filter (nonown cfg H) cs) in
  set_mining_blob cfg H Heqb job m = SmbOk b' /\ mining_blob cfg H hash_block hash_hid b' = Some m.
Proof. exact slave_reconstructs. Qed.
Print Assumptions C16_slave_reconstructs.

(* the same from the mining side: every validated set of other chains (any number, ids above and below this
   chain's id), blob built by the sort *)
Theorem C16_slave_reconstructs_any_others : forall cfg (H : Type) (Heqb : H -> H -> bool),
  (forall a b, Heqb a b = true <-> a = b) ->
  forall hash_block hash_hid (job : block H) ts n ne (others : list (hashing_id H)),
  validated_other_chains cfg H Heqb others = true ->
  exists cs, sort_chains H (others ++ [own_hid cfg H hash_block hash_hid job]) = Some cs /\
    let m := mkblob H ts n ne cs in
    exists b', set_mining_blob cfg H Heqb job m = SmbOk b' /\ mining_blob cfg H hash_block hash_hid b' = Some m /\
               b_timestamp H b' = ts /\ b_nonce H b' = n /\ b_nonce_extra H b' = ne /\
               Permutation (b_other_chains H b') others.
Proof. exact slave_reconstructs_any_others. Qed.
Print Assumptions C16_slave_reconstructs_any_others.

(* ---- slave_refuses ----
   setMiningBlob succeeds exactly when the chain list is strictly sorted (all entries, this network's included: no
   duplicate network id, nothing out of order), contains this network's id, and no two other chains share a hash;
   in every other case it returns an error *)
Theorem C16_slave_refuses_iff : forall cfg (H : Type) (Heqb : H -> H -> bool) (b : block H) (m : blob H),
  set_mining_blob cfg H Heqb b m = SmbErr <->
  ~ (StronglySorted (lt_net H) (m_chains H m) /\ In (network_id cfg) (map (hid_net H) (m_chains H m)) /\
     nodup_chains H Heqb (filter (nonown cfg H) (m_chains H m)) = true).
Proof. exact set_mining_blob_err_iff. Qed.
Print Assumptions C16_slave_refuses_iff.

Theorem C16_set_ok_iff : forall cfg (H : Type) (Heqb : H -> H -> bool) (b : block H) (m : blob H) b',
  set_mining_blob cfg H Heqb b m = SmbOk b' <->
  StronglySorted (lt_net H) (m_chains H m) /\ In (network_id cfg) (map (hid_net H) (m_chains H m)) /\
  nodup_chains H Heqb (filter (nonown cfg H) (m_chains H m)) = true /\
  b' = with_blob H b m (filter (nonown cfg H) (m_chains H m)).
Proof. exact set_mining_blob_ok_iff. Qed.
Print Assumptions C16_set_ok_iff.

(* the block that comes out passes PrevalidateBlock's checks on OtherChains (so MiningBlob cannot panic on it) *)
Theorem C16_set_ok_validated : forall cfg (H : Type) (Heqb : H -> H -> bool) (b : block H) (m : blob H) b',
  set_mining_blob cfg H Heqb b m = SmbOk b' -> validated_other_chains cfg H Heqb (b_other_chains H b') = true.
Proof. exact set_mining_blob_validated. Qed.
Print Assumptions C16_set_ok_validated.

(* a blob without the job's hashing id (this network absent, or present with another hash) is never credited:
   either setMiningBlob refuses it or the block's own mining blob differs from it *)
Theorem C16_accept_needs_own_hid : forall cfg (H : Type) (Heqb : H -> H -> bool) hash_block hash_hid
    (job : block H) (m : blob H) b',
  set_mining_blob cfg H Heqb job m = SmbOk b' -> mining_blob cfg H hash_block hash_hid b' = Some m ->
  In (own_hid cfg H hash_block hash_hid job) (m_chains H m).
Proof. exact accept_needs_own_hid. Qed.
Print Assumptions C16_accept_needs_own_hid.

(* ---- blob_commits ----
   premises: Block.Hash identifies what Block.Serialize writes (ser_norm: nothing when the difficulty is zero, no
   proof-of-stake fields in version 0), the hashing-id hash identifies base hash and ancestors.
   Two blocks with the same proof-of-work input agree on everything BaseHash covers (base_mask: all fields except
   timestamp, nonce, nonce extra, other chains, stake signature, next delegate id), on the ancestors, timestamp and
   nonces, and carry the same other chains UP TO THEIR ORDER *)
Theorem C16_blob_commits : forall cfg (H : Type) (hash_block : block H -> H) (hash_hid : H -> list H -> H),
  (forall b1 b2, hash_block b1 = hash_block b2 -> ser_norm H b1 = ser_norm H b2) ->
  (forall x a y a', hash_hid x a = hash_hid y a' -> x = y /\ a = a') ->
  forall b1 b2 m,
  mining_blob cfg H hash_block hash_hid b1 = Some m -> mining_blob cfg H hash_block hash_hid b2 = Some m ->
  ser_norm H (base_mask H b1) = ser_norm H (base_mask H b2) /\
  b_ancestors H b1 = b_ancestors H b2 /\
  b_timestamp H b1 = b_timestamp H b2 /\ b_nonce H b1 = b_nonce H b2 /\ b_nonce_extra H b1 = b_nonce_extra H b2 /\
  Permutation (b_other_chains H b1) (b_other_chains H b2).
Proof. exact blob_commits. Qed.
Print Assumptions C16_blob_commits.

(* partial form of "equal except stake signature and next delegate id": needs the two blocks to list their other
   chains in the same order, which validation does not enforce (see C16_blob_commits_full_refuted) *)
Theorem C16_blob_commits_partial : forall cfg (H : Type) (hash_block : block H -> H) (hash_hid : H -> list H -> H),
  (forall b1 b2, hash_block b1 = hash_block b2 -> ser_norm H b1 = ser_norm H b2) ->
  (forall x a y a', hash_hid x a = hash_hid y a' -> x = y /\ a = a') ->
  forall b1 b2 m, ser_wf H b1 -> ser_wf H b2 ->
  mining_blob cfg H hash_block hash_hid b1 = Some m -> mining_blob cfg H hash_block hash_hid b2 = Some m ->
  b_other_chains H b1 = b_other_chains H b2 ->
  clear_ps H b1 = clear_ps H b2.
Proof. exact blob_commits_sorted. Qed.
Print Assumptions C16_blob_commits_partial.

(* the full-strength statement (blob_commits_full: validated blocks with the same proof-of-work input have the same
   list of other chains) is false: PrevalidateBlock does not require OtherChains to be sorted, MiningBlob sorts them.
   Open finding C16-otherchains-order in KNOWN_FINDINGS.json. *)
Theorem C16_blob_commits_full_refuted : forall cfg (H : Type) (Heqb : H -> H -> bool),
  (forall a b, Heqb a b = true <-> a = b) ->
  forall hash_block hash_hid (h1 h2 : H), h1 <> h2 -> ~ blob_commits_full cfg H Heqb hash_block hash_hid.
Proof. exact blob_commits_full_refuted. Qed.
Print Assumptions C16_blob_commits_full_refuted.

(* ---- the run-time checker's notion of a well-formed chain list (Check/C16.v, conjunct 4: "anything else must be
   refused") is exactly the condition of C16_slave_refuses_iff / C16_set_ok_iff, at H := N ---- *)
Theorem C16_checker_reference : forall cfg (ch : list (hashing_id N)),
  blob_wellformed cfg ch = true <->
  StronglySorted (lt_net N) ch /\ In (network_id cfg) (map (hid_net N) ch) /\
  nodup_chains N N.eqb (filter (nonown cfg N) ch) = true.
Proof. exact checker_wellformed_iff. Qed.
Print Assumptions C16_checker_reference.

(* ---- non-vacuity: a concrete blob with this chain between 15 other chains (ids below and above), unittest ids ---- *)
Definition ex_chains (own : N) : list (hashing_id N) :=
  [(0, 100); (own + 1, 101); (own + 2, 102); (own + 3, 103); (own + 5, 104); (own + 8, 105); (own + 13, 106);
   (own + 21, 107); (own + 34, 108); (own + 55, 109); (own + 89, 110); (own + 144, 111); (own + 233, 112);
   (own + 377, 113); (18446744073709551615, 114)].
Theorem C16_example_15_others :
  let own := network_id cfg_unittest in
  let cs := (0, 100) :: (own, 7) :: tl (ex_chains own) in
  let job := mkblock N 1 100 0 0 0 [(55, 55)] 7 [11; 12; 13] 0 3 4 5 1000 2000 0 in
  exists b', set_mining_blob cfg_unittest N N.eqb job (mkblob N 5 6 7 cs) = SmbOk b' /\
             b_other_chains N b' = ex_chains own /\
             mining_blob_with N (own, 7) b' = Some (mkblob N 5 6 7 cs).
Proof. vm_compute. eexists. repeat split. Qed.
Print Assumptions C16_example_15_others.
