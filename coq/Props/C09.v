(* Property C09 - a node never hands out work it would reject; the mempool stays mineable.  Statements only.
   Model: Model/Mempool.v ([legacy = false] = the code as it is, after the repairs R11a, R11b, R11c, R12; [legacy = true] =
   the code before them; both variants were compared with the corresponding Go build on the same scenarios). *)
From Virel Require Import Lib.Config Lib.U64 Lib.AMap Model.Emission Model.Ledger Model.Node Model.Mempool Spec.Chain
  Proofs.Emission Proofs.Conservation Proofs.StakedSum Proofs.Mempool Proofs.Mempool2 Proofs.Mempool3 Proofs.Mempool4 Proofs.Mempool5 Proofs.Mempool6
  Proofs.ForkChoice Proofs.ChainInv Proofs.Refine2 Proofs.Replay2 Proofs.Replay3 Proofs.Replay4 Proofs.Replay5 Proofs.ChainExamples Proofs.Replay6
  Proofs.KeyInv Proofs.NodeConservation Proofs.NodeConservationEx Gen.Params.
From Virel Require Import Proofs.MempoolPot Proofs.BranchRefuted Proofs.NonceOnceEx Proofs.StakedBound Proofs.StakedBoundNode
  Proofs.MempoolInv Proofs.TemplateReach Proofs.TemplateReachEx.
From Virel Require Model.Des Model.Codec Spec.TxAbs Proofs.CodecBridge Proofs.CodecBridgeNode.
Open Scope N_scope.

(* ---- the full statement ---- *)
(* for every reachable state of the node (blocks, TX packets, stake signatures, templates in any order), every completion
   of the template with a valid nonce, delivered to the same node in time, is accepted *)
Definition C09_full : Prop := C09_full_stmt.

(* C09_full is FALSE of the model of the code as it is: once the tip is a block whose ancestor slot 1 is not its
   grandparent (accepted because checkBlock never compares the slots: open finding R13a), the template inherits that
   slot as its entitlement slot and the node rejects every completion.  Open finding R13a-C09; replayed on Go on every
   run (scenario wrong-ancestors-tip). *)
Theorem C09_full_refuted : ~ C09_full.
Proof. exact Proofs.Mempool.C09_full_refuted. Qed.
Print Assumptions C09_full_refuted.

(* ---- PROVED PART 1: the header of the template ---- *)
(* For every configuration, both variants of the code, every node state whose statistics record names a stored tip
   (whatever the mempool, the stored signatures, the tips and the ledger are) and every completion b of the template:
   the template call changes only the mempool; b's parent is the tip and is stored; height = parent + 1; version = the
   one required at that height; time >= parent's; difficulty = retarget of the parent and >= the minimum; cumulative
   difficulty = parent's + b's own contribution (side blocks and signature included); no merge-mining duplicates; the
   published lottery result is GetStaker of the current ledger.
   NOT covered by this theorem (correspondence run only): the side-block clauses of checkBlock for the chosen tips, the
   stake signature clause, the future-time limit (a premise about the miner's clock), proof of work (the miner's part).
   The transaction list of the template: C09_template_txs_ok below. *)
Theorem C09_template_header_ok : forall cfg legacy w rcpt now now_s t w' b,
  tip_inv w -> get_block_template cfg legacy w rcpt now now_s = Ok (t, w') -> completes t b ->
  exists prev,
    wn w' = wn w /\ sigs w' = sigs w /\ txstore w' = txstore w /\
    prev_hash b = top (wn w) /\ get_block (wn w) (prev_hash b) = Some prev /\
    b_height b = wadd (b_height prev) 1 /\
    b_version b = (if hf_v3 cfg <=? b_height b then 1 else 0) /\
    (b_ts prev <=? b_ts b) = true /\
    get_next_difficulty cfg (wn w) prev = Ok (b_diff b) /\ min_difficulty cfg <= b_diff b /\
    (exists c, contribution b = Ok c /\ add128 (b_cd prev) c = Ok (b_cd b)) /\
    chains_ok cfg (b_chains b) = true /\
    (0 < b_version b -> get_staker (ldg (wn w)) (lottery_of (wn w) (prev_hash b)) = Ok (b_next_delegate_id b)).
Proof. exact template_header_ok. Qed.
Print Assumptions C09_template_header_ok.

(* the entitlement clause (delegate id = lottery result published three blocks below), when the entitlement slot names a
   stored block - exactly the premise that fails in C09_full_refuted - and stored signatures name their block's result *)
Theorem C09_template_entitlement_ok : forall cfg legacy w rcpt now now_s t w' old,
  sigs_inv w -> get_block_template cfg legacy w rcpt now now_s = Ok (t, w') ->
  0 < b_version t -> get_block (wn w) (staked_hash t) = Some old ->
  b_next_delegate_id old = b_delegate_id t.
Proof. exact template_entitlement_ok. Qed.
Print Assumptions C09_template_entitlement_ok.

(* ---- PROVED PART 2: the mempool's second implementation of the transaction rules ---- *)
(* The promise of the simulation ([simulation_sound_stmt false]: what validateMempoolTx accepts for t after the entries of
   the transactions ts, simulated on private copies starting from the ledger l, is applied by ApplyTxToState on the ledger
   l1 reached by really applying ts to l) is PROVED for earlier entries of ALL five kinds - transfer, register delegate,
   set delegate, stake, unstake - by any signers, interleaved in any order, under these hypotheses:
     height: 0 < h < 2^64 (h = tip height + 1);
     earlier transactions ([tx_good]): version byte names the payload, amounts are uint64 values, the total exists
       (Prevalidate and validateMempoolTx check it), no registration of delegate id 0 (Prevalidate); distinct ids;
     ledger l ([linv]): the staked-sum invariant SInv (order, filing, staked = sum of funds < 2^64: kept by every ledger
       operation, Proofs/StakedSum.v), no owner with two funds in one pool (the ledger appends a fund only when the owner
       has none), no delegate 0; staked total + sum of all balances < 2^64;
     t: version byte names the payload, uint64 amounts, virtual size within MAX_TX_SIZE.
   The invariant between the simulation and the real ledger (Proofs/Mempool2.v, Mempool3.v): tracked account states are
   equal; every pool the simulation knows (its own copy, else the record of l) has, owner by owner, the real fund's amount
   and unlock height, and a simulated fund without a real one is an emptied fund (the simulation keeps a fund emptied by a
   pending unstake, the ledger drops it); a pool exists in the one exactly when it exists in the other.  That a pending
   stake cannot push the staked total over 2^64 follows from "staked total + balances at key addresses never grows"
   (Proofs/MempoolPot.v).  No refutation was found: the model of the code as it is (after R11a-c) satisfies the promise. *)
Theorem C09_simulation_sound : forall cfg, cfg_ok_c09 cfg = true -> forall l ts es t h l1,
  0 < h < two64 -> Forall (tx_good cfg) ts -> NoDup (map tx_id ts) ->
  entries_of cfg ts = Ok es -> apply_all cfg l ts h = Ok l1 ->
  linv l -> staked l + total_bal l < two64 ->
  tx_typed t -> wf_tx cfg t -> tx_vsize cfg t <= max_tx_size cfg ->
  validate_mempool_tx cfg false l (store_of ts) t es h = Ok tt ->
  exists l2, apply_tx cfg l1 t h 0 (h - 1) = Ok l2.
Proof. exact simulation_sound_all_kinds. Qed.
Print Assumptions C09_simulation_sound.

(* the same for any transaction store that returns each earlier transaction under its id (the Tx index holds many more)
   and entries with any expiry times ([entry_rel t e]: e is the MempoolEntry made from t) *)
Theorem C09_simulation_sound_general : forall cfg, cfg_ok_c09 cfg = true -> forall l store ts es t h l1,
  0 < h < two64 -> Forall (tx_good cfg) ts -> (forall t', In t' ts -> nget store (tx_id t') = Some t') ->
  Forall2 (entry_rel cfg) ts es -> apply_all cfg l ts h = Ok l1 ->
  linv l -> staked l + total_bal l < two64 ->
  tx_typed t -> wf_tx cfg t -> tx_vsize cfg t <= max_tx_size cfg ->
  validate_mempool_tx cfg false l store t es h = Ok tt ->
  exists l2, apply_tx cfg l1 t h 0 (h - 1) = Ok l2.
Proof. exact simulation_sound_general. Qed.
Print Assumptions C09_simulation_sound_general.

(* the transaction list of EVERY template passes the transaction loop of ApplyBlockToState on the node's ledger at the
   template's height, whatever the block hash will be: every chosen entry was validated against the entries chosen before
   it, so the list is applicable in order (induction with the theorem above); the fee counter cannot wrap.
   [mp_inv]: every pending entry whose transaction is in the Tx index was made from that transaction, and that
   transaction is [tx_adm] (= [tx_good] and size within the limit: what Prevalidate checks, lemma below). *)
Theorem C09_template_txs_ok : forall cfg, cfg_ok_c09 cfg = true -> forall w rcpt now now_s t w' bh,
  get_block_template cfg false w rcpt now now_s = Ok (t, w') ->
  top_h (wn w) + 1 < two64 -> mp_inv cfg w ->
  linv (ldg (wn w)) -> staked (ldg (wn w)) + total_bal (ldg (wn w)) < two64 ->
  exists l1 fee, apply_txs cfg (ldg (wn w)) (b_txs t) (b_height t) bh (top_h (wn w)) 0 = Ok (l1, fee).
Proof. exact template_txs_applicable. Qed.
Print Assumptions C09_template_txs_ok.

(* [tx_adm] is what Prevalidate establishes of a decoded transaction; [mp_inv] is kept by every TX packet *)
Theorem C09_mempool_invariant : forall cfg,
  (forall tk t h, tx_typed t -> wf_tx cfg t -> prevalidate_tx cfg tk t h = Ok tt -> tx_adm cfg t) /\
  (forall tk w t now_s expires w' adm, tx_typed t -> wf_tx cfg t -> mp_inv cfg w ->
     packet_tx cfg tk false w t now_s expires = Ok (w', adm) -> mp_inv cfg w').
Proof. intros cfg. exact (conj (prevalidate_adm cfg) (packet_tx_mp_inv cfg)). Qed.
Print Assumptions C09_mempool_invariant.

(* the ledger hypothesis [linv] holds of the empty ledger and is kept by ApplyTxToState and by ApplyBlockToState (staker
   rewards included) as long as no transaction registers delegate 0.  The undo direction (RemoveBlockFromState) is not
   treated operation by operation; it is covered for every ledger that occurs by C09_linv_reachable below. *)
Theorem C09_linv_kept : forall cfg ga, cfg_ok_emission cfg = true ->
  linv ledger0 /\
  (forall l t h bh th l', linv l -> tx_good cfg t -> apply_tx cfg l t h bh th = Ok l' -> linv l') /\
  (forall l b th l', total_bal l + reward cfg (lb_height b) <= max_supply cfg -> Forall (tx_good cfg) (lb_txs b) ->
     linv l -> apply_block cfg ga l b th = Ok l' -> linv l').
Proof. intros cfg ga Hok. exact (conj linv0 (conj (apply_tx_linv cfg) (apply_block_linv cfg ga Hok))). Qed.
Print Assumptions C09_linv_kept.

(* non-vacuity: all hypotheses of C09_simulation_sound hold together on a scenario with earlier entries of all five kinds
   by two signers (register, set delegate, stake by key 2; unstake, transfer to three recipients, restake by key 1; then
   a second stake of key 2 naming the unlock height its own pending stake will write) *)
Theorem C09_simulation_sound_nonvacuous :
  exists es l1,
    0 < 10 < two64 /\ Forall (tx_good cfg_verifnet) k_ts /\ NoDup (map tx_id k_ts) /\
    entries_of cfg_verifnet k_ts = Ok es /\ apply_all cfg_verifnet (wit_ledger 2 0) k_ts 10 = Ok l1 /\
    linv (wit_ledger 2 0) /\ staked (wit_ledger 2 0) + total_bal (wit_ledger 2 0) < two64 /\
    tx_typed k_t /\ wf_tx cfg_verifnet k_t /\ tx_vsize cfg_verifnet k_t <= max_tx_size cfg_verifnet /\
    validate_mempool_tx cfg_verifnet false (wit_ledger 2 0) (store_of k_ts) k_t es 10 = Ok tt /\
    exists l2, apply_tx cfg_verifnet l1 k_t 10 0 (10 - 1) = Ok l2.
Proof. exact all_kinds_nonvacuous. Qed.
Print Assumptions C09_simulation_sound_nonvacuous.

(* [linv] ACROSS REMOVAL: PROVED FOR EVERY REACHABLE LEDGER.  For every state n of the node reachable from genesis by any
   sequence of deliveries - reorganisations, i.e. RemoveBlockFromState with its re-insertion of emptied funds from the
   delegate history and its restoration of saved pool records, included - [linv (ldg n)] holds: the staked-sum invariant,
   no owner with two funds in one pool, no record under delegate id 0.  Premises: those of C03_ledger_is_replay
   (Props/C03.v) and that the genesis block registers no delegate 0 (it has no transactions).
   Route (Proofs/NodeConservation.v): the delegate table and the staked total of the node's ledger are EQUAL to those of
   the replay of its main chain from genesis (C03: what an undo reads from the delegate history is what the matching
   application wrote, Proofs/Replay2.v RInv); the replay is a pure application, for which SInv / one fund per owner
   (Proofs/Undo4.v: PInv along chains) and "no record under id 0" (Proofs/KeyInv.v: ZInv; every block of the main chain
   passed Transaction.Prevalidate, which refuses the registration of delegate 0, code 208) hold.  No condition on the
   version byte beyond the one of C03 is needed (C09_linv_kept asks for tx_good, which excludes the version-0 transfers
   of the first heights; this theorem does not).
   The statement is about reachable ledgers, not about RemoveBlockFromState on an arbitrary ledger satisfying [linv]:
   RemovePosReward puts back whatever record the delegate history holds under the block hash, so the operation-level
   statement is FALSE without an invariant on the delegate history (C09_linv_remove_reward_needs_history below: a history
   entry listing one owner twice) - that invariant is what RInv carries for reachable ledgers. *)
Theorem C09_linv_reachable : forall cfg genesis_addr team_key g n0 ops,
  cfg_ok_emission cfg = true -> cfg_ok_feepos cfg = true ->
  node0 cfg genesis_addr g = Ok n0 -> b_height g = 0 -> b_cd g = b_diff g ->
  N.of_nat (length ops) < two64 - 1 ->
  Forall (tx_c cfg) (b_txs g) -> Forall (fun t => forall nl nm, tx_data t <> TRegister nl nm 0) (b_txs g) ->
  (forall h b, get_block (run cfg genesis_addr team_key n0 ops) h = Some b ->
     Forall (fun t => wf_tx cfg t /\ ver_ok t = true) (b_txs b)) ->
  (forall bs, up (b_hash g) (blocks (run cfg genesis_addr team_key n0 ops)) (b_hash g) bs ->
     NoDup (bkeys g ++ flat_map bkeys bs) /\ c0 g + bnouts bs < two64 /\ c0 g + bntx bs < two64) ->
  linv (ldg (run cfg genesis_addr team_key n0 ops)).
Proof. exact reachable_linv. Qed.
Print Assumptions C09_linv_reachable.

(* the same with the typing premise discharged from the byte-level decoder model (as C03_ledger_is_replay_decoded) *)
Theorem C09_linv_reachable_decoded :
  forall (txid_of key_id addr_id name_id : list N -> N) (sig_by : Model.Codec.tx -> N) (sig_msg : Model.Codec.tx -> bool)
         (signer_invalid : list N -> bool) cfg genesis_addr team_key g n0 ops,
  cfg_ok_emission cfg = true -> cfg_ok_feepos cfg = true -> CodecBridge.cfg_ok_burn cfg = true ->
  node0 cfg genesis_addr g = Ok n0 -> b_height g = 0 -> b_cd g = b_diff g ->
  N.of_nat (length ops) < two64 - 1 ->
  Forall (tx_c cfg) (b_txs g) ->
  (forall h b, get_block (run cfg genesis_addr team_key n0 ops) h = Some b -> h <> b_hash g ->
     Forall (fun x => exists hv bs t,
               Model.Des.result_of (Model.Des.run (Model.Codec.dec_tx cfg hv) bs) = Model.Des.ROk t /\
               x = TxAbs.abs_tx txid_of key_id addr_id name_id sig_by sig_msg signer_invalid t) (b_txs b)) ->
  (forall bs, up (b_hash g) (blocks (run cfg genesis_addr team_key n0 ops)) (b_hash g) bs ->
     NoDup (bkeys g ++ flat_map bkeys bs) /\ c0 g + bnouts bs < two64 /\ c0 g + bntx bs < two64) ->
  Forall (fun t => forall nl nm, tx_data t <> TRegister nl nm 0) (b_txs g) ->
  linv (ldg (run cfg genesis_addr team_key n0 ops)).
Proof. exact reachable_linv_decoded. Qed.
Print Assumptions C09_linv_reachable_decoded.

(* a ledger with [linv] whose delegate-history entry under the block hash is not the one ApplyPosReward wrote: undoing
   the staker reward yields a pool with two funds of one owner (the staked total still matches) *)
Theorem C09_linv_remove_reward_needs_history :
  linv hist_wit /\ remove_pos_reward hist_wit 99 hist_wit_out = Ok hist_wit' /\
  SInv hist_wit' /\ ~ fnodup hist_wit'.
Proof. exact remove_reward_needs_history. Qed.
Print Assumptions C09_linv_remove_reward_needs_history.

(* non-vacuity: the premises hold together for the reorganising history of Proofs/ChainExamples.v *)
Theorem C09_linv_reachable_example :
  let n := run cfg_verifnet 7 0 ex_n0 sr_ops in
  top_h n = 2 /\ map b_hash (mchain n) = [4; 6] /\ linv (ldg n).
Proof. exact reachable_example_linv. Qed.
Print Assumptions C09_linv_reachable_example.

(* ================================================================================================================ *)
(* THE TWO REMAINING HYPOTHESES OF C09_template_txs_ok, DERIVED FOR REACHABLE STATES
   (Proofs/StakedBound.v, StakedBoundNode.v, MempoolInv.v, TemplateReach.v, TemplateReachEx.v).

   (a) staked + sum of balances < 2^64.  Staked coins are HELD at the pool addresses: a stake debits amount + fee at the
   signer's key address and credits the amount to the delegate address while the staked total grows by it; an unstake
   debits the delegate address and lowers the staked total by the same amount; a staker reward is credited to the delegate
   address of the rewarded pool while the staked total grows by it; nothing else debits a delegate address.  Key addresses
   are odd numbers in the model, delegate addresses and the burn address even.  With
       odd_bal l = the balances at odd (key) addresses,   DInv l :  staked l + odd_bal l <= total_bal l
   (the staked total never exceeds what lies at even addresses) DInv holds along every chain (tx_d = uint64-typed amounts,
   overflow-free total, version byte of the payload kind or 0 with a transfer): *)
Theorem C09_staked_le_balances_chain : forall cfg genesis_addr, cfg_ok_emission cfg = true ->
  forall bs l (h : nat) l',
  total_bal l = sum_rewards cfg h -> heights_from h bs ->
  Forall (fun b => Forall (tx_d cfg) (lb_txs b)) bs -> SInv l ->
  apply_chain cfg genesis_addr l bs = Ok l' -> DInv l -> DInv l'.
Proof. exact apply_chain_DInv. Qed.
Print Assumptions C09_staked_le_balances_chain.

Theorem C09_staked_le_balances_initial : DInv ledger0 /\ (forall l, DInv l -> staked l <= total_bal l).
Proof. exact (conj DInv0 DInv_staked_le). Qed.
Print Assumptions C09_staked_le_balances_initial.

(* ... and in every reachable node state (premises of C03_ledger_is_replay; reorganisations included: delegate table and
   staked total equal those of the replay of the main chain, the sum of balances is the scheduled emission in both):
   staked <= sum of balances <= MAX_SUPPLY, and 2 * MAX_SUPPLY < 2^64 is part of cfg_ok_emission (C03_cfg_ok_ theorems
   for the four configurations), so hypothesis (a) holds.  No new condition on the constants. *)
Theorem C09_staked_bound_reachable : forall cfg genesis_addr team_key g n0 ops,
  cfg_ok_emission cfg = true -> cfg_ok_feepos cfg = true ->
  node0 cfg genesis_addr g = Ok n0 -> b_height g = 0 -> b_cd g = b_diff g ->
  N.of_nat (length ops) < two64 - 1 ->
  let n := run cfg genesis_addr team_key n0 ops in
  Forall (tx_c cfg) (b_txs g) ->
  (forall h b, get_block n h = Some b -> Forall (fun t => wf_tx cfg t /\ ver_ok t = true) (b_txs b)) ->
  (forall bs, up (b_hash g) (blocks n) (b_hash g) bs ->
     NoDup (bkeys g ++ flat_map bkeys bs) /\ c0 g + bnouts bs < two64 /\ c0 g + bntx bs < two64) ->
  staked (ldg n) <= total_bal (ldg n) /\
  staked (ldg n) + total_bal (ldg n) <= 2 * max_supply cfg /\
  staked (ldg n) + total_bal (ldg n) < two64.
Proof. exact reachable_staked_bound. Qed.
Print Assumptions C09_staked_bound_reachable.

(* the height hypothesis of C09_template_txs_ok as well: the tip height is below the number of deliveries *)
Theorem C09_height_bound_reachable : forall cfg genesis_addr team_key g n0 ops,
  node0 cfg genesis_addr g = Ok n0 -> b_height g = 0 -> b_cd g = b_diff g ->
  N.of_nat (length ops) < two64 - 1 ->
  top_h (run cfg genesis_addr team_key n0 ops) + 1 < two64.
Proof. exact reachable_height_bound. Qed.
Print Assumptions C09_height_bound_reachable.

(* C09_template_txs_ok FOR REACHABLE NODE STATES WITHOUT HYPOTHESIS (a), without [linv] and without the height bound: w is
   any wrapped state whose node is the reachable n; [mp_inv] stays (next theorems) *)
Theorem C09_template_txs_ok_reachable_ledger : forall cfg genesis_addr team_key g n0 ops,
  cfg_ok_c09 cfg = true -> cfg_ok_emission cfg = true -> cfg_ok_feepos cfg = true ->
  node0 cfg genesis_addr g = Ok n0 -> b_height g = 0 -> b_cd g = b_diff g ->
  N.of_nat (length ops) < two64 - 1 ->
  let n := run cfg genesis_addr team_key n0 ops in
  Forall (tx_c cfg) (b_txs g) -> Forall (fun t => forall nl nm, tx_data t <> TRegister nl nm 0) (b_txs g) ->
  (forall h b, get_block n h = Some b -> Forall (fun t => wf_tx cfg t /\ ver_ok t = true) (b_txs b)) ->
  (forall bs, up (b_hash g) (blocks n) (b_hash g) bs ->
     NoDup (bkeys g ++ flat_map bkeys bs) /\ c0 g + bnouts bs < two64 /\ c0 g + bntx bs < two64) ->
  forall w rcpt now now_s t w' bh,
  wn w = n -> mp_inv cfg w ->
  get_block_template cfg false w rcpt now now_s = Ok (t, w') ->
  exists l1 fee, apply_txs cfg (ldg (wn w)) (b_txs t) (b_height t) bh (top_h (wn w)) 0 = Ok (l1, fee).
Proof. exact template_txs_applicable_reachable. Qed.
Print Assumptions C09_template_txs_ok_reachable_ledger.

(* non-vacuity of (a) with a non-zero stake: the node of Proofs/BranchRefuted.v that follows G-A1-A2-S3-S4-S5-S6 (one coin
   staked in pool 2; premises: C02_at_most_once_premises of Props/C02.v) *)
Theorem C09_staked_bound_example :
  let n := run cfg_verifnet 7 0 r_node0 nx_ops in
  staked (ldg n) = 1000000000 /\ total_bal (ldg n) = 1225000000000 /\
  staked (ldg n) <= total_bal (ldg n) /\
  staked (ldg n) + total_bal (ldg n) <= 2 * max_supply cfg_verifnet /\
  staked (ldg n) + total_bal (ldg n) < two64.
Proof. exact staked_bound_example. Qed.
Print Assumptions C09_staked_bound_example.

(* (b) THE MEMPOOL INVARIANT ACROSS BLOCK REMOVAL AND REORGANISATION.  [mp_inv] alone is not inductive across a
   disconnection (the re-added entries are made from the transactions of the disconnected blocks); the inductive
   invariant is
     WInv w : (1) every pending entry has its transaction in the Tx index, was made from it, and that transaction is tx_adm;
              (2) every transaction of every stored block is in the Tx index under its own id and is tx_adm.
   It is kept by every event of the wrapped node: a BLOCK packet (wdeliver: PrevalidateBlock, AddBlock with any
   reorganisation, the mempool maintenance: transactions of the disconnected blocks re-added, those of the connected blocks
   removed, pruning), a TX packet, a stake signature, a template call.  Side condition on a delivered block
   ([block_side w b]): its transactions are typed (uint64 amounts, version byte of the payload kind: the decoder, Props/C13.v)
   and a transaction id names one transaction (a transaction of b whose id the Tx index already holds IS the stored one;
   two transactions of b with one id are the same: ids are hashes).  Both are needed: C09_mp_inv_disconnect_needs_ids /
   _needs_typed below. *)
Theorem C09_mempool_invariant_steps : forall cfg genesis_addr team_key,
  (forall g w0, b_txs g = [] -> wnode0 cfg genesis_addr g = Ok w0 -> WInv cfg w0) /\
  (forall w b now now_s exp w' o amb, WInv cfg w -> block_side cfg w b ->
     wdeliver cfg genesis_addr team_key w b now now_s exp = (w', o, amb) -> WInv cfg w') /\
  (forall w t now_s expires w' adm, tx_typed t -> wf_tx cfg t -> WInv cfg w ->
     packet_tx cfg team_key false w t now_s expires = Ok (w', adm) -> WInv cfg w') /\
  (forall w h did key msg w', WInv cfg w -> handle_stake_sig w h did key msg = Ok w' -> WInv cfg w') /\
  (forall w rcpt now now_s t w', WInv cfg w -> get_block_template cfg false w rcpt now now_s = Ok (t, w') -> WInv cfg w') /\
  (forall w, WInv cfg w -> mp_inv cfg w).
Proof.
  intros cfg genesis_addr team_key.
  exact (conj (wnode0_WInv cfg genesis_addr)
        (conj (wdeliver_WInv cfg genesis_addr team_key)
        (conj (packet_tx_WInv cfg team_key)
        (conj (handle_stake_sig_WInv cfg)
        (conj (template_WInv cfg) (WInv_mp_inv cfg)))))).
Qed.
Print Assumptions C09_mempool_invariant_steps.

(* [reachable_t cfg ga tk g w]: w is reached from the genesis state by BLOCK packets satisfying [block_side], TX packets
   with typed transactions, stake signatures and template calls, in any order (the [reachable] of C09_full with the side
   conditions on the events).  In every such state the mempool invariant holds. *)
Theorem C09_mempool_invariant_reachable : forall cfg genesis_addr team_key g w,
  b_txs g = [] -> reachable_t cfg genesis_addr team_key g w -> mp_inv cfg w.
Proof. exact reachable_mp_inv. Qed.
Print Assumptions C09_mempool_invariant_reachable.

Theorem C09_reachable_t_is_reachable : forall cfg genesis_addr team_key g w,
  reachable_t cfg genesis_addr team_key g w -> reachable cfg genesis_addr team_key g w.
Proof. exact reachable_t_reachable. Qed.
Print Assumptions C09_reachable_t_is_reachable.

(* C09_template_txs_ok WITH EVERY HYPOTHESIS ABOUT THE STATE DERIVED: w reachable (with the side conditions on the events),
   its node the result of the deliveries ops with the premises of C03_ledger_is_replay on the final store, genesis without
   transactions: the transaction list of every template passes the transaction loop of ApplyBlockToState. *)
Theorem C09_template_txs_ok_reachable : forall cfg genesis_addr team_key g n0 ops,
  cfg_ok_c09 cfg = true -> cfg_ok_emission cfg = true -> cfg_ok_feepos cfg = true ->
  node0 cfg genesis_addr g = Ok n0 -> b_height g = 0 -> b_cd g = b_diff g -> b_txs g = [] ->
  N.of_nat (length ops) < two64 - 1 ->
  let n := run cfg genesis_addr team_key n0 ops in
  (forall h b, get_block n h = Some b -> Forall (fun t => wf_tx cfg t /\ ver_ok t = true) (b_txs b)) ->
  (forall bs, up (b_hash g) (blocks n) (b_hash g) bs ->
     NoDup (bkeys g ++ flat_map bkeys bs) /\ c0 g + bnouts bs < two64 /\ c0 g + bntx bs < two64) ->
  forall w rcpt now now_s t w' bh,
  reachable_t cfg genesis_addr team_key g w -> wn w = n ->
  get_block_template cfg false w rcpt now now_s = Ok (t, w') ->
  exists l1 fee, apply_txs cfg (ldg (wn w)) (b_txs t) (b_height t) bh (top_h (wn w)) 0 = Ok (l1, fee).
Proof. exact template_txs_ok_reachable. Qed.
Print Assumptions C09_template_txs_ok_reachable.

(* the same without the hypothesis "the node of w is the result of a delivery sequence": [reachable_k .. g k w] is
   [reachable_t] with the number k of BLOCK packets counted; the node of such a state IS the result of at most k deliveries
   (Proofs/TemplateReach.v reachable_k_run).  The premises about the store are stated on the store of w itself. *)
Theorem C09_template_txs_ok_reachable_k : forall cfg genesis_addr team_key g n0 k w,
  cfg_ok_c09 cfg = true -> cfg_ok_emission cfg = true -> cfg_ok_feepos cfg = true ->
  node0 cfg genesis_addr g = Ok n0 -> b_height g = 0 -> b_cd g = b_diff g -> b_txs g = [] ->
  reachable_k cfg genesis_addr team_key g k w -> N.of_nat k < two64 - 1 ->
  (forall h b, get_block (wn w) h = Some b -> Forall (fun t => wf_tx cfg t /\ ver_ok t = true) (b_txs b)) ->
  (forall bs, up (b_hash g) (blocks (wn w)) (b_hash g) bs ->
     NoDup (bkeys g ++ flat_map bkeys bs) /\ c0 g + bnouts bs < two64 /\ c0 g + bntx bs < two64) ->
  forall rcpt now now_s t w' bh,
  get_block_template cfg false w rcpt now now_s = Ok (t, w') ->
  exists l1 fee, apply_txs cfg (ldg (wn w)) (b_txs t) (b_height t) bh (top_h (wn w)) 0 = Ok (l1, fee).
Proof. exact template_txs_ok_reachable_k. Qed.
Print Assumptions C09_template_txs_ok_reachable_k.

Theorem C09_reachable_t_counted : forall cfg genesis_addr team_key g w,
  reachable_t cfg genesis_addr team_key g w <-> exists k, reachable_k cfg genesis_addr team_key g k w.
Proof.
  intros cfg genesis_addr team_key g w.
  exact (conj (reachable_t_k cfg genesis_addr team_key g w)
              (fun H => match H with ex_intro _ k Hk => reachable_k_t cfg genesis_addr team_key g k w Hk end)).
Qed.
Print Assumptions C09_reachable_t_counted.

(* non-vacuity, across a reorganisation: G - A1 with a transfer of key 3 (m_tx), then B1 (child of G) and B2 (child of B1):
   the node reorganises to G - B1 - B2, RemoveBlockFromState re-adds the transfer to the mempool (m_entry), the invariant
   holds, every premise of the theorem above holds, the next template carries the transfer and its list is applicable *)
Theorem C09_template_reach_example :
  top (wn m_w1) = 2 /\ mpool m_w1 = [] /\ top (wn m_w2) = 2 /\ top (wn m_w3) = 5 /\
  map b_hash (mchain (wn m_w3)) = [4; 5] /\
  mpool m_w3 = [m_entry] /\ nget (txstore m_w3) 101 = Some m_tx /\
  reachable_t cfg_verifnet 7 0 r_genesis m_w3 /\ mp_inv cfg_verifnet m_w3 /\
  wn m_w3 = run cfg_verifnet 7 0 r_node0 m_ops /\
  (forall h b, get_block (wn m_w3) h = Some b -> Forall (fun t => wf_tx cfg_verifnet t /\ ver_ok t = true) (b_txs b)) /\
  (forall bs, up (b_hash r_genesis) (blocks (wn m_w3)) (b_hash r_genesis) bs ->
     NoDup (bkeys r_genesis ++ flat_map bkeys bs) /\ c0 r_genesis + bnouts bs < two64 /\ c0 r_genesis + bntx bs < two64) /\
  exists t w', get_block_template cfg_verifnet false m_w3 9 r_now 0 = Ok (t, w') /\ b_txs t = [m_tx] /\ b_height t = 3 /\
    forall bh, exists l1 fee, apply_txs cfg_verifnet (ldg (wn m_w3)) (b_txs t) (b_height t) bh (top_h (wn m_w3)) 0 = Ok (l1, fee).
Proof. exact template_reach_example. Qed.
Print Assumptions C09_template_reach_example.

(* the side conditions cannot be dropped: [mp_inv] IS FALSE ACROSS A DISCONNECTION WITHOUT THEM (witnesses on the operation
   that re-adds the transactions of a disconnected block, RemoveBlockFromState's mempool part):
   ids - the Tx index holds ANOTHER transaction (x_other: same id 101, amount 5000 instead of 1000) under the id of the
   block's transaction; the index never overwrites, so the re-added entry is made from the block's transaction while the
   index answers with the other one.  With real transaction hashes this needs a hash collision. *)
Theorem C09_mp_inv_disconnect_needs_ids :
  mp_inv cfg_verifnet (x_w [] [(101, x_other)]) /\
  mp_disconnect cfg_verifnet [] m_A1 0 7200 = Ok [m_entry] /\
  tx_adm cfg_verifnet x_other /\
  ~ mp_inv cfg_verifnet (x_w [m_entry] [(101, x_other)]).
Proof. exact mp_inv_disconnect_needs_ids. Qed.
Print Assumptions C09_mp_inv_disconnect_needs_ids.

(* typed - a version-0 transfer (what the blocks below HARDFORK_V2_HEIGHT carry; wf_tx and ver_ok hold of it) in the
   disconnected block: the re-added entry's transaction is not tx_adm (tx_typed asks for the version byte of the payload
   kind).  [mp_inv] as defined therefore does not survive the disconnection of a block of the version-0 era that carries
   transactions; TX packets of that era are not modelled either (packet_tx code 940). *)
Theorem C09_mp_inv_disconnect_needs_typed :
  mp_inv cfg_verifnet (x_w [] [(101, x_v0)]) /\
  mp_disconnect cfg_verifnet [] x_A1 0 7200 = Ok [x_entry0] /\
  wf_tx cfg_verifnet x_v0 /\ ver_ok x_v0 = true /\
  ~ mp_inv cfg_verifnet (x_w [x_entry0] [(101, x_v0)]).
Proof. exact mp_inv_disconnect_needs_typed. Qed.
Print Assumptions C09_mp_inv_disconnect_needs_typed.

(* STILL NOT PROVED (correspondence run only): the side-block, stake-signature and coinbase clauses for a completed
   template; C09_full itself is refuted (above).  Blocks of the version-0 era that carry transactions are outside (b); the
   premise on transaction ids of (b) and the premise [paths] of C03 are stated, not derived (ids are symbolic numbers).
   OBSERVATION, outside the property (which asks for soundness only): the simulation is not complete.  While an unstake
   that empties a fund is pending, validateMempoolTx refuses a change of delegate (925) and a stake naming another
   prev_unlock than the emptied fund's (916) of the same signer, which the ledger would apply after the unstake: the
   simulated pool keeps the emptied fund, the ledger drops it.  Harmless false refusals (the transactions pass once the
   unstake is mined). *)
Theorem C09_simulation_not_complete :
  exists es l1, entries_of cfg_verifnet [g_unst] = Ok es /\ apply_all cfg_verifnet (wit_ledger 2 0) [g_unst] 10 = Ok l1 /\
    validate_mempool_tx cfg_verifnet false (wit_ledger 2 0) (store_of [g_unst]) g_setd es 10 = Err 925 /\
    (exists l2, apply_tx cfg_verifnet l1 g_setd 10 0 (10 - 1) = Ok l2) /\
    validate_mempool_tx cfg_verifnet false (wit_ledger 2 0) (store_of [g_unst]) (g_stake 0) es 10 = Err 916 /\
    (exists l2, apply_tx cfg_verifnet l1 (g_stake 0) 10 0 (10 - 1) = Ok l2) /\
    validate_mempool_tx cfg_verifnet false (wit_ledger 2 0) (store_of [g_unst]) (g_stake 7) es 10 = Ok tt /\
    (exists l2, apply_tx cfg_verifnet l1 (g_stake 7) 10 0 (10 - 1) = Ok l2).
Proof. exact simulation_not_complete. Qed.
Print Assumptions C09_simulation_not_complete.

(* earlier results, now special cases (with weaker hypotheses on the ledger: no [linv], no bound on the height):
   no earlier entries ... *)
Theorem C09_simulation_sound_single : forall cfg, cfg_ok_c09 cfg = true -> forall l store t h bh,
  tx_typed t -> wf_tx cfg t -> tx_vsize cfg t <= max_tx_size cfg ->
  get_dlg l 0 = None -> staked l < two64 ->
  (forall id d f, get_dlg l id = Some d -> find_fund (d_funds d) (addr_of_key (tx_signer t)) = Some f -> f_amt f <= staked l) ->
  (forall a id pu, tx_data t = TStake a id pu -> staked l + a < two64) ->
  validate_mempool_tx cfg false l store t [] h = Ok tt ->
  exists l', apply_tx cfg l t h bh (h - 1) = Ok l'.
Proof. exact simulation_sound_single. Qed.
Print Assumptions C09_simulation_sound_single.

(* ... and earlier entries that are plain transfers *)
Theorem C09_simulation_sound_transfers : forall cfg, cfg_ok_c09 cfg = true -> forall l ts es t h l1,
  Forall (is_transfer cfg) ts -> entries_of cfg ts = Ok es -> apply_all cfg l ts h = Ok l1 ->
  total_bal l < two64 ->
  tx_typed t -> wf_tx cfg t -> tx_vsize cfg t <= max_tx_size cfg ->
  get_dlg l 0 = None -> staked l < two64 ->
  (forall id d f, get_dlg l id = Some d -> find_fund (d_funds d) (addr_of_key (tx_signer t)) = Some f -> f_amt f <= staked l) ->
  (forall a id pu, tx_data t = TStake a id pu -> staked l + a < two64) ->
  validate_mempool_tx cfg false l (store_of ts) t es h = Ok tt ->
  exists l2, apply_tx cfg l1 t h 0 (h - 1) = Ok l2.
Proof. exact simulation_sound_transfers. Qed.
Print Assumptions C09_simulation_sound_transfers.

(* ---- PROVED PART 3: mempool maintenance (the list operations of the model) ---- *)
(* transactions of a connected block leave the mempool (ids in the mempool are distinct); transactions of a disconnected
   block that are not pending come back; an entry survives a serialisation exactly when it has not expired.
   That a reorganisation composes these steps in the order disconnect (top down), connect (bottom up) is the model's
   [wdeliver], compared with the implementation's mempool after every delivery. *)
Theorem C09_mempool_maintenance : forall cfg,
  (forall mp b now_s t, NoDup (map me_id mp) -> In t (b_txs b) -> has_entry (mp_connect mp b now_s) (tx_id t) = false) /\
  (forall mp b now_s exp mp' t, mp_disconnect cfg mp b now_s exp = Ok mp' -> In t (b_txs b) ->
     has_entry mp (tx_id t) = false -> has_entry mp' (tx_id t) = true) /\
  (forall now_s es e, In e (prune now_s es) <-> In e es /\ now_s <= me_expires e).
Proof. intros cfg. exact (conj mp_connect_removes (conj (mp_disconnect_returns cfg) prune_spec)). Qed.
Print Assumptions C09_mempool_maintenance.

Theorem C09_cfg_ok_verifnet : cfg_ok_c09 cfg_verifnet = true. Proof. vm_compute; reflexivity. Qed.
Print Assumptions C09_cfg_ok_verifnet.
Theorem C09_cfg_ok_mainnet : cfg_ok_c09 cfg_mainnet = true. Proof. vm_compute; reflexivity. Qed.
Print Assumptions C09_cfg_ok_mainnet.
Theorem C09_cfg_ok_testnet : cfg_ok_c09 cfg_testnet = true. Proof. vm_compute; reflexivity. Qed.
Print Assumptions C09_cfg_ok_testnet.

(* ---- REFUTED: the code before the repairs ---- *)
(* the simulation's promise was false of validateMempoolTx as it was (found by this check, fixed in the repository;
   the witnesses run against the Go code on every check: scenarios unlock-boundary, foreign-set-delegate, restake) *)
Theorem C09_simulation_sound_prefix_refuted : ~ simulation_sound_stmt true.
Proof. exact legacy_simulation_refuted. Qed.
Print Assumptions C09_simulation_sound_prefix_refuted.

(* R11a: a fund unlocking at the next height: admitted before the repair, refused by the ledger (313) and by the code as
   it is (921) *)
Theorem C09_R11a_unlock_boundary :
  validate_mempool_tx cfg_verifnet true (wit_ledger 2 0) [] wit_unstake [] 7 = Ok tt /\
  apply_tx cfg_verifnet (wit_ledger 2 0) wit_unstake 7 0 (7 - 1) = Err 313 /\
  validate_mempool_tx cfg_verifnet false (wit_ledger 2 0) [] wit_unstake [] 7 = Err 921.
Proof. exact legacy_unlock_boundary_refuted. Qed.
Print Assumptions C09_R11a_unlock_boundary.

(* R11b: a pending set-delegate of another signer *)
Theorem C09_R11b_foreign_set_delegate :
  exists es l1, entries_of cfg_verifnet [wit_setdel] = Ok es /\ apply_all cfg_verifnet (wit_ledger 0 0) [wit_setdel] 6 = Ok l1 /\
    validate_mempool_tx cfg_verifnet true (wit_ledger 0 0) (store_of [wit_setdel]) wit_stake2 es 6 = Ok tt /\
    apply_tx cfg_verifnet l1 wit_stake2 6 0 (6 - 1) = Err 364 /\
    validate_mempool_tx cfg_verifnet false (wit_ledger 0 0) (store_of [wit_setdel]) wit_stake2 es 6 = Err 917.
Proof. exact legacy_foreign_set_delegate_refuted. Qed.
Print Assumptions C09_R11b_foreign_set_delegate.

(* R11c: two pending stakes of one signer *)
Theorem C09_R11c_restake :
  exists es l1, entries_of cfg_verifnet [wit_stake_a] = Ok es /\ apply_all cfg_verifnet (wit_ledger 2 0) [wit_stake_a] 6 = Ok l1 /\
    validate_mempool_tx cfg_verifnet true (wit_ledger 2 0) (store_of [wit_stake_a]) (wit_stake_b 9) es 6 = Ok tt /\
    apply_tx cfg_verifnet l1 (wit_stake_b 9) 6 0 (6 - 1) = Err 302 /\
    validate_mempool_tx cfg_verifnet true (wit_ledger 2 0) (store_of [wit_stake_a]) (wit_stake_b 8) es 6 = Err 916 /\
    validate_mempool_tx cfg_verifnet false (wit_ledger 2 0) (store_of [wit_stake_a]) (wit_stake_b 9) es 6 = Err 916 /\
    validate_mempool_tx cfg_verifnet false (wit_ledger 2 0) (store_of [wit_stake_a]) (wit_stake_b 8) es 6 = Ok tt /\
    (exists l2, apply_tx cfg_verifnet l1 (wit_stake_b 8) 6 0 (6 - 1) = Ok l2).
Proof. exact legacy_restake_refuted. Qed.
Print Assumptions C09_R11c_restake.
