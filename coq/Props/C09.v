(* Property C09 - a node never hands out work it would reject; the mempool stays mineable.  Statements only.
   Model: Model/Mempool.v ([legacy = false] = the code as it is, after the repairs R11a, R11b, R11c, R12; [legacy = true] =
   the code before them; both variants were compared with the corresponding Go build on the same scenarios). *)
From Virel Require Import Lib.Config Lib.U64 Lib.AMap Model.Emission Model.Ledger Model.Node Model.Mempool
  Proofs.Conservation Proofs.Mempool Gen.Params.
Open Scope N_scope.

(* ---- the full statement ---- *)
(* for every reachable state of the node (blocks, TX packets, stake signatures, templates in any order), every completion
   of the template with a valid nonce, delivered to the same node in time, is accepted *)
Definition C09_full : Prop := C09_full_stmt.

(* C09_full is FALSE of the model of the code as it is: once the tip is a block whose ancestor slot 1 is not its
   grandparent (accepted because checkBlock never compares the slots: open finding R13a), the template inherits that
   slot as its entitlement slot and the node rejects every completion.  Open finding R13a-C09; replayed on Go on every
   run (scenario wrong-ancestors-tip). *)
Theorem C09_full_refuted : ~ C09_full.
Proof. exact Proofs.Mempool.C09_full_refuted. Qed.
Print Assumptions C09_full_refuted.

(* ---- PROVED PART 1: the header of the template ---- *)
(* For every configuration, both variants of the code, every node state whose statistics record names a stored tip
   (whatever the mempool, the stored signatures, the tips and the ledger are) and every completion b of the template:
   the template call changes only the mempool; b's parent is the tip and is stored; height = parent + 1; version = the
   one required at that height; time >= parent's; difficulty = retarget of the parent and >= the minimum; cumulative
   difficulty = parent's + b's own contribution (side blocks and signature included); no merge-mining duplicates; the
   published lottery result is GetStaker of the current ledger.
   NOT covered by this theorem (correspondence run only): the side-block clauses of checkBlock for the chosen tips, the
   stake signature clause, the future-time limit (a premise about the miner's clock), proof of work (the miner's part). *)
Theorem C09_template_header_ok : forall cfg legacy w rcpt now now_s t w' b,
  tip_inv w -> get_block_template cfg legacy w rcpt now now_s = Ok (t, w') -> completes t b ->
  exists prev,
    wn w' = wn w /\ sigs w' = sigs w /\ txstore w' = txstore w /\
    prev_hash b = top (wn w) /\ get_block (wn w) (prev_hash b) = Some prev /\
    b_height b = wadd (b_height prev) 1 /\
    b_version b = (if hf_v3 cfg <=? b_height b then 1 else 0) /\
    (b_ts prev <=? b_ts b) = true /\
    get_next_difficulty cfg (wn w) prev = Ok (b_diff b) /\ min_difficulty cfg <= b_diff b /\
    (exists c, contribution b = Ok c /\ add128 (b_cd prev) c = Ok (b_cd b)) /\
    chains_ok cfg (b_chains b) = true /\
    (0 < b_version b -> get_staker (ldg (wn w)) (lottery_of (wn w) (prev_hash b)) = Ok (b_next_delegate_id b)).
Proof. exact template_header_ok. Qed.
Print Assumptions C09_template_header_ok.

(* the entitlement clause (delegate id = lottery result published three blocks below), when the entitlement slot names a
   stored block - exactly the premise that fails in C09_full_refuted - and stored signatures name their block's result *)
Theorem C09_template_entitlement_ok : forall cfg legacy w rcpt now now_s t w' old,
  sigs_inv w -> get_block_template cfg legacy w rcpt now now_s = Ok (t, w') ->
  0 < b_version t -> get_block (wn w) (staked_hash t) = Some old ->
  b_next_delegate_id old = b_delegate_id t.
Proof. exact template_entitlement_ok. Qed.
Print Assumptions C09_template_entitlement_ok.

(* ---- PROVED PART 2: the mempool's second implementation of the transaction rules ---- *)
(* the full promise of the simulation ([simulation_sound_stmt false]) is NOT proved; proved is the case of an empty list
   of earlier entries, for all five kinds of transaction: what validateMempoolTx accepts, ApplyTxToState applies.
   Hypotheses: version byte matches the payload; amounts are uint64 values; virtual size within MAX_TX_SIZE
   (Prevalidate); no delegate 0; the staked total is a uint64 value bounding every fund of the signer; a stake does not
   push it over 2^64.  Earlier entries (several signers interleaved, all kinds) are covered by the correspondence run. *)
Theorem C09_simulation_sound_single_partial : forall cfg, cfg_ok_c09 cfg = true -> forall l store t h bh,
  tx_typed t -> wf_tx cfg t -> tx_vsize cfg t <= max_tx_size cfg ->
  get_dlg l 0 = None -> staked l < two64 ->
  (forall id d f, get_dlg l id = Some d -> find_fund (d_funds d) (addr_of_key (tx_signer t)) = Some f -> f_amt f <= staked l) ->
  (forall a id pu, tx_data t = TStake a id pu -> staked l + a < two64) ->
  validate_mempool_tx cfg false l store t [] h = Ok tt ->
  exists l', apply_tx cfg l t h bh (h - 1) = Ok l'.
Proof. exact simulation_sound_single. Qed.
Print Assumptions C09_simulation_sound_single_partial.

(* ... and after earlier entries that are plain transfers (any signers, any recipients, any number): the ledger [l1]
   reached by applying those transfers accepts what the simulation, started from [l], accepts.  Additional hypothesis:
   the sum of all balances is a uint64 value.  Earlier entries of the other four kinds: correspondence run only. *)
Theorem C09_simulation_sound_transfers_partial : forall cfg, cfg_ok_c09 cfg = true -> forall l ts es t h l1,
  Forall (is_transfer cfg) ts -> entries_of cfg ts = Ok es -> apply_all cfg l ts h = Ok l1 ->
  total_bal l < two64 ->
  tx_typed t -> wf_tx cfg t -> tx_vsize cfg t <= max_tx_size cfg ->
  get_dlg l 0 = None -> staked l < two64 ->
  (forall id d f, get_dlg l id = Some d -> find_fund (d_funds d) (addr_of_key (tx_signer t)) = Some f -> f_amt f <= staked l) ->
  (forall a id pu, tx_data t = TStake a id pu -> staked l + a < two64) ->
  validate_mempool_tx cfg false l (store_of ts) t es h = Ok tt ->
  exists l2, apply_tx cfg l1 t h 0 (h - 1) = Ok l2.
Proof. exact simulation_sound_transfers. Qed.
Print Assumptions C09_simulation_sound_transfers_partial.

(* ---- PROVED PART 3: mempool maintenance (the list operations of the model) ---- *)
(* transactions of a connected block leave the mempool (ids in the mempool are distinct); transactions of a disconnected
   block that are not pending come back; an entry survives a serialisation exactly when it has not expired.
   That a reorganisation composes these steps in the order disconnect (top down), connect (bottom up) is the model's
   [wdeliver], compared with the implementation's mempool after every delivery. *)
Theorem C09_mempool_maintenance : forall cfg,
  (forall mp b now_s t, NoDup (map me_id mp) -> In t (b_txs b) -> has_entry (mp_connect mp b now_s) (tx_id t) = false) /\
  (forall mp b now_s exp mp' t, mp_disconnect cfg mp b now_s exp = Ok mp' -> In t (b_txs b) ->
     has_entry mp (tx_id t) = false -> has_entry mp' (tx_id t) = true) /\
  (forall now_s es e, In e (prune now_s es) <-> In e es /\ now_s <= me_expires e).
Proof. intros cfg. exact (conj mp_connect_removes (conj (mp_disconnect_returns cfg) prune_spec)). Qed.
Print Assumptions C09_mempool_maintenance.

Theorem C09_cfg_ok_verifnet : cfg_ok_c09 cfg_verifnet = true. Proof. vm_compute; reflexivity. Qed.
Print Assumptions C09_cfg_ok_verifnet.
Theorem C09_cfg_ok_mainnet : cfg_ok_c09 cfg_mainnet = true. Proof. vm_compute; reflexivity. Qed.
Print Assumptions C09_cfg_ok_mainnet.
Theorem C09_cfg_ok_testnet : cfg_ok_c09 cfg_testnet = true. Proof. vm_compute; reflexivity. Qed.
Print Assumptions C09_cfg_ok_testnet.

(* ---- REFUTED: the code before the repairs ---- *)
(* the simulation's promise was false of validateMempoolTx as it was (found by this check, fixed in the repository;
   the witnesses run against the Go code on every check: scenarios unlock-boundary, foreign-set-delegate, restake) *)
Theorem C09_simulation_sound_prefix_refuted : ~ simulation_sound_stmt true.
Proof. exact legacy_simulation_refuted. Qed.
Print Assumptions C09_simulation_sound_prefix_refuted.

(* R11a: a fund unlocking at the next height: admitted before the repair, refused by the ledger (313) and by the code as
   it is (921) *)
Theorem C09_R11a_unlock_boundary :
  validate_mempool_tx cfg_verifnet true (wit_ledger 2 0) [] wit_unstake [] 7 = Ok tt /\
  apply_tx cfg_verifnet (wit_ledger 2 0) wit_unstake 7 0 (7 - 1) = Err 313 /\
  validate_mempool_tx cfg_verifnet false (wit_ledger 2 0) [] wit_unstake [] 7 = Err 921.
Proof. exact legacy_unlock_boundary_refuted. Qed.
Print Assumptions C09_R11a_unlock_boundary.

(* R11b: a pending set-delegate of another signer *)
Theorem C09_R11b_foreign_set_delegate :
  exists es l1, entries_of cfg_verifnet [wit_setdel] = Ok es /\ apply_all cfg_verifnet (wit_ledger 0 0) [wit_setdel] 6 = Ok l1 /\
    validate_mempool_tx cfg_verifnet true (wit_ledger 0 0) (store_of [wit_setdel]) wit_stake2 es 6 = Ok tt /\
    apply_tx cfg_verifnet l1 wit_stake2 6 0 (6 - 1) = Err 364 /\
    validate_mempool_tx cfg_verifnet false (wit_ledger 0 0) (store_of [wit_setdel]) wit_stake2 es 6 = Err 917.
Proof. exact legacy_foreign_set_delegate_refuted. Qed.
Print Assumptions C09_R11b_foreign_set_delegate.

(* R11c: two pending stakes of one signer *)
Theorem C09_R11c_restake :
  exists es l1, entries_of cfg_verifnet [wit_stake_a] = Ok es /\ apply_all cfg_verifnet (wit_ledger 2 0) [wit_stake_a] 6 = Ok l1 /\
    validate_mempool_tx cfg_verifnet true (wit_ledger 2 0) (store_of [wit_stake_a]) (wit_stake_b 9) es 6 = Ok tt /\
    apply_tx cfg_verifnet l1 (wit_stake_b 9) 6 0 (6 - 1) = Err 302 /\
    validate_mempool_tx cfg_verifnet true (wit_ledger 2 0) (store_of [wit_stake_a]) (wit_stake_b 8) es 6 = Err 916 /\
    validate_mempool_tx cfg_verifnet false (wit_ledger 2 0) (store_of [wit_stake_a]) (wit_stake_b 9) es 6 = Err 916 /\
    validate_mempool_tx cfg_verifnet false (wit_ledger 2 0) (store_of [wit_stake_a]) (wit_stake_b 8) es 6 = Ok tt /\
    (exists l2, apply_tx cfg_verifnet l1 (wit_stake_b 8) 6 0 (6 - 1) = Ok l2).
Proof. exact legacy_restake_refuted. Qed.
Print Assumptions C09_R11c_restake.
