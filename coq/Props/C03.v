(* Property C03 - the ledger is a function of the main chain alone (reorganisations are exact).
   Statements only; proofs in Proofs/Pointwise.v, Proofs/Undo.v (transactions of every kind, staker reward),
   Proofs/Undo2.v (lists of transactions, blocks), Proofs/Undo3.v (the same up to the order of the funds of a pool),
   Proofs/Undo4.v (the invariants along chains, several blocks), Proofs/UndoRefuted.v (counterexamples),
   Proofs/NodeBasics.v. *)
From Virel Require Import Lib.Config Lib.U64 Lib.AMap Gen.Params Model.Emission Model.Ledger Model.Node
  Proofs.Emission Proofs.Conservation Proofs.Pointwise Proofs.StakedSum Proofs.NodeBasics
  Proofs.Undo Proofs.Undo2 Proofs.Undo3 Proofs.Undo4 Proofs.UndoRefuted.
Open Scope N_scope.

Theorem C03_cfg_ok_mainnet : cfg_ok_emission cfg_mainnet = true. Proof. vm_compute. reflexivity. Qed.
Theorem C03_cfg_ok_testnet : cfg_ok_emission cfg_testnet = true. Proof. vm_compute. reflexivity. Qed.
Theorem C03_cfg_ok_unittest : cfg_ok_emission cfg_unittest = true. Proof. vm_compute. reflexivity. Qed.
Theorem C03_cfg_ok_verifnet : cfg_ok_emission cfg_verifnet = true. Proof. vm_compute. reflexivity. Qed.

(* FULL STATEMENT as first written (lemma B of DESIGN.md): for every block and every ledger on which it applies,
   disconnecting it again restores the accounts, the delegate records and the staked total.
   In this literal, hypothesis-free form it is FALSE of the model (and of the Go code the model transcribes):
   C03_undo_block_full_refuted below.  The reason that matters: the undo of an unstake that emptied a fund re-creates
   the fund at the END of the pool's fund list, so a pool's record comes back with its funds in another order
   (chaintype.Delegate.SortFunds is never called).  Kept as the reference statement. *)
Definition C03_undo_block_full : Prop := forall cfg genesis_addr l b top_h l1,
  apply_block cfg genesis_addr l b top_h = Ok l1 ->
  exists l2, remove_block cfg genesis_addr l1 b top_h = Ok l2 /\ same_accounts l2 l /\
             (forall id, get_dlg l2 id = get_dlg l id) /\ staked l2 = staked l.

Theorem C03_undo_block_full_refuted : ~ C03_undo_block_full.
Proof. exact undo_block_full_refuted. Qed.
Print Assumptions C03_undo_block_full_refuted.

(* The hypotheses under which the statement is PROVED, for all configurations with a sound emission schedule, all
   ledgers and all blocks (no bound on sizes):
     SInv l        delegate table in database-key order, filed under its ids, staked total = sum of all funds < 2^64
                   (kept by every operation: Props/C01.v);
     FPos l        no fund with amount 0 (a fund that reaches 0 is dropped; stakes are >= MIN_STAKE_AMOUNT; the
                   rounding remainder of a non-zero staker reward is >= 1% of it);
     FUniq l       the funds of a pool have distinct owners (a fund is appended only for an owner without one);
     room for the block reward below the maximum supply (holds along every chain: Props/C01.v);
     tx_ok         uint64-typed amounts and an overflow-free total (what Transaction.Prevalidate checks, code 212);
     stake_pos     staked amounts > 0 (check 210 of prevalidate_tx: amount >= MIN_STAKE_AMOUNT > 0);
     the transaction ids of the block are pairwise distinct and differ from the block hash (they are hashes of
                   different contents; the delegate history is keyed by both);
     the per-address counters (incoming count, nonce) do not wrap within the block.
   [top'] (stats.TopHeight when the block is disconnected) is arbitrary: reorg_disconnect of Model/Node.v passes the
   block's own height = top_h + 1, where top_h (the parent's height) is what apply_block_node / reorg_connect pass
   when the block is connected (after the repair R8 TopHeight follows the chain); the removal never reads it because
   the unlock height of a re-created fund comes from the delegate history. *)
Definition C03_block_hyps : config -> ledger -> lblock -> Prop := block_hyps.

(* PROVED: the full statement with the delegate records compared up to the order of their funds
   (dperm: same id, owner, name, and the funds are a permutation: same owners, amounts, unlock heights).
   This is also how the implementation-side check compares pools (Check/C03.v looks funds up by owner). *)
Definition C03_undo_block_upto_fund_order : Prop := forall cfg genesis_addr l b top_h l1,
  C03_block_hyps cfg l b ->
  apply_block cfg genesis_addr l b top_h = Ok l1 ->
  forall top', exists l2, remove_block cfg genesis_addr l1 b top' = Ok l2 /\ same_accounts l2 l /\
    (forall id, match get_dlg l id, get_dlg l2 id with
                | Some d, Some d' => dperm d d'
                | None, None => True
                | _, _ => False
                end) /\ staked l2 = staked l.

Theorem C03_undo_block : C03_undo_block_upto_fund_order.
Proof. exact undo_block_upto_fund_order. Qed.
Print Assumptions C03_undo_block.

(* PROVED: the full statement exactly as written (delegate records equal, even the table as a list) when in addition
   every unstake of the block that empties a fund empties the LAST fund of its pool ([unstakes_last], evaluated on
   the ledgers the transactions are applied to) - in particular for blocks without a full unstake. *)
Theorem C03_undo_block_exact_partial : forall cfg genesis_addr l b top_h l1,
  C03_block_hyps cfg l b ->
  unstakes_last cfg l (lb_txs b) (lb_height b) (lb_hash b) top_h ->
  apply_block cfg genesis_addr l b top_h = Ok l1 ->
  forall top', exists l2, remove_block cfg genesis_addr l1 b top' = Ok l2 /\ same_accounts l2 l /\
    dlgs l2 = dlgs l /\ (forall id, get_dlg l2 id = get_dlg l id) /\ staked l2 = staked l.
Proof. exact undo_block_exact. Qed.
Print Assumptions C03_undo_block_exact_partial.

(* The block theorems in the form needed to chain them (several blocks disconnected in a row): the removal starts
   from ANY ledger that agrees with the result of the application on accounts, delegate table and staked total
   (leqv_p: up to fund order; leqv: exactly) and on the delegate-history entries of this block; the wallet indexes
   and the other delegate-history entries may differ (they do after an undo: stale entries stay and are overwritten
   by the next application before they are read). *)
Theorem C03_undo_block_general : forall cfg genesis_addr l b top_h lB,
  C03_block_hyps cfg l b ->
  apply_block cfg genesis_addr l b top_h = Ok lB ->
  forall l' top', leqv_p lB l' ->
    (forall k, k = lb_hash b \/ In k (map tx_id (lb_txs b)) -> nget (dhist l') k = nget (dhist lB) k) ->
    exists l2, remove_block cfg genesis_addr l' b top' = Ok l2 /\ leqv_p l l2 /\ dhist l2 = dhist l'.
Proof. exact undo_block_general. Qed.
Print Assumptions C03_undo_block_general.

(* ---- the invariants are not assumptions about reachable ledgers: they hold along every chain ---- *)
(* PInv l = SInv l /\ FPos l /\ FUniq l holds for the empty ledger and is kept by ApplyBlockToState (transactions of
   every kind and the staker reward: its rounding remainder is at least 1% of a non-zero reward), hence holds after
   every chain of blocks applied to the empty ledger (heights 1, 2, ... and the scheduled supply as in Props/C01.v) *)
Theorem C03_invariants_initial : PInv ledger0.
Proof. exact PInv0. Qed.
Print Assumptions C03_invariants_initial.

Theorem C03_invariants_chain : forall cfg genesis_addr, cfg_ok_emission cfg = true ->
  forall bs l (h : nat) l',
  total_bal l = sum_rewards cfg h -> heights_from h bs ->
  Forall (fun b => Forall (tx_ok cfg) (lb_txs b) /\ Forall stake_pos (lb_txs b)) bs -> PInv l ->
  apply_chain cfg genesis_addr l bs = Ok l' -> PInv l'.
Proof. exact apply_chain_PInv. Qed.
Print Assumptions C03_invariants_chain.

(* stake_pos is what stateless validation guarantees when MIN_STAKE_AMOUNT > 0 *)
Theorem C03_prevalidate_stake_pos : forall cfg team_key t h,
  0 < min_stake cfg -> prevalidate_tx cfg team_key t h = Ok tt -> stake_pos t.
Proof. exact prevalidate_stake_pos. Qed.
Print Assumptions C03_prevalidate_stake_pos.

(* ---- several blocks: what a reorganisation disconnects ---- *)
(* the blocks of a chain segment connected lowest first (TopHeight = the parent's height) and then disconnected highest
   first (TopHeight = the block's own height, as reorg_disconnect does), starting from any ledger that agrees with
   the tip ledger: accounts, staked total and delegate records (up to fund order) are back to what they were below
   the segment.  chain_keys = the hashes of the blocks and the ids of their transactions, pairwise distinct. *)
Theorem C03_undo_chain : forall cfg genesis_addr, cfg_ok_emission cfg = true ->
  forall bs l (h : nat) ln,
  total_bal l = sum_rewards cfg h -> heights_from h bs -> PInv l ->
  Forall (fun b => Forall (tx_ok cfg) (lb_txs b) /\ Forall stake_pos (lb_txs b)) bs ->
  NoDup (chain_keys bs) ->
  (forall a, inc (acct_at l a) + chain_nouts bs < two64) ->
  (forall a, nonce (acct_at l a) + chain_ntx bs < two64) ->
  apply_chain cfg genesis_addr l bs = Ok ln ->
  forall l', leqv_p ln l' -> (forall k, In k (chain_keys bs) -> nget (dhist l') k = nget (dhist ln) k) ->
  exists l2, remove_chain cfg genesis_addr l' (rev bs) = Ok l2 /\ leqv_p l l2 /\ dhist l2 = dhist l'.
Proof. exact undo_chain. Qed.
Print Assumptions C03_undo_chain.

(* ---- transactions: RemoveTxFromState after ApplyTxToState, all five kinds and the mismatching version bytes ---- *)
(* exact form (same conclusion as the transfer theorem below) *)
Theorem C03_undo_tx : forall cfg l t h bh top_h l1 tot,
  SInv l -> FPos l -> total_bal l < two64 -> wf_tx cfg t -> tx_total cfg t = Some tot ->
  (forall a, inc (acct_at l a) + tx_nouts t < two64) ->
  nonce (acct_at l (addr_of_key (tx_signer t))) + 1 < two64 ->
  unstake_last l t ->
  apply_tx cfg l t h bh top_h = Ok l1 ->
  forall top', exists l2, remove_tx cfg l1 t bh top' = Ok l2 /\ same_accounts l2 l /\ dlgs l2 = dlgs l /\ staked l2 = staked l.
Proof. exact remove_apply_tx. Qed.
Print Assumptions C03_undo_tx.

(* up to fund order, without the side condition on full unstakes, from any agreeing ledger *)
Theorem C03_undo_tx_upto_fund_order : forall cfg l t h bh top_h l1 tot,
  SInv l -> FPos l -> FUniq l -> total_bal l < two64 -> wf_tx cfg t -> tx_total cfg t = Some tot ->
  (forall a, inc (acct_at l a) + tx_nouts t < two64) ->
  nonce (acct_at l (addr_of_key (tx_signer t))) + 1 < two64 ->
  apply_tx cfg l t h bh top_h = Ok l1 ->
  forall l' top', leqv_p l1 l' -> nget (dhist l') (tx_id t) = nget (dhist l1) (tx_id t) ->
  exists l2, remove_tx cfg l' t bh top' = Ok l2 /\ leqv_p l l2 /\ dhist l2 = dhist l'.
Proof. exact undo_tx_perm. Qed.
Print Assumptions C03_undo_tx_upto_fund_order.

(* what exactly the undo of an unstake produces: the pool's funds with the signer's fund moved to the end when the
   unstake had emptied it (with its amount and its saved unlock height), unchanged otherwise *)
Theorem C03_undo_unstake_exact_result : forall cfg l amt id signer top txid l1 d f,
  SInv l -> amt < two64 ->
  get_dlg l id = Some d -> find_fund (d_funds d) signer = Some f ->
  (f_amt f = amt -> find_fund (upd_fund (d_funds d) signer None) signer = None) ->
  apply_unstake l amt id signer top txid false 0 = Ok l1 ->
  forall l' top', dlgs l' = dlgs l1 -> staked l' = staked l1 -> nget (dhist l') txid = nget (dhist l1) txid ->
  exists l2, apply_stake cfg l' amt id 0 signer top' txid true = Ok l2 /\
    dlgs l2 = dins (dlgs l) id (mkdlg (d_id d) (d_owner d) (d_name d)
                 (if f_amt f =? amt then upd_fund (d_funds d) signer None ++ [f] else d_funds d)) /\
    staked l2 = staked l /\ accts l2 = accts l' /\ dhist l2 = dhist l'.
Proof. exact undo_unstake_gen. Qed.
Print Assumptions C03_undo_unstake_exact_result.

(* the staker reward: RemovePosReward after ApplyPosReward restores the delegate table and the staked total
   (the delegate history keeps the saved record) *)
Theorem C03_undo_pos_reward : forall l bh o l1,
  SInv l -> o_amt o < two64 -> apply_pos_reward l bh o = Ok l1 ->
  forall l', dlgs l' = dlgs l1 -> staked l' = staked l1 -> nget (dhist l') bh = nget (dhist l1) bh ->
  exists l2, remove_pos_reward l' bh o = Ok l2 /\
    dlgs l2 = dlgs l /\ staked l2 = staked l /\ accts l2 = accts l' /\ dhist l2 = dhist l'.
Proof. exact undo_pos_reward. Qed.
Print Assumptions C03_undo_pos_reward.

(* lists of transactions: applied in order, removed in reverse order *)
Theorem C03_undo_txs : forall cfg txs l h bh top fee ln fee',
  SInv l -> FPos l -> FUniq l -> total_bal l < two64 ->
  Forall (tx_ok cfg) txs -> Forall stake_pos txs -> NoDup (map tx_id txs) ->
  (forall a, inc (acct_at l a) + nouts_sum txs < two64) ->
  (forall a, nonce (acct_at l a) + N.of_nat (length txs) < two64) ->
  apply_txs cfg l txs h bh top fee = Ok (ln, fee') ->
  forall l' top', leqv_p ln l' ->
    (forall t, In t txs -> nget (dhist l') (tx_id t) = nget (dhist ln) (tx_id t)) ->
    exists l2, remove_txs cfg l' (rev txs) bh top' = Ok l2 /\ leqv_p l l2 /\ dhist l2 = dhist l'.
Proof. exact undo_txs_perm. Qed.
Print Assumptions C03_undo_txs.

Theorem C03_undo_txs_exact_partial : forall cfg txs l h bh top fee ln fee',
  SInv l -> FPos l -> total_bal l < two64 -> Forall (tx_ok cfg) txs -> Forall stake_pos txs -> NoDup (map tx_id txs) ->
  (forall a, inc (acct_at l a) + nouts_sum txs < two64) ->
  (forall a, nonce (acct_at l a) + N.of_nat (length txs) < two64) ->
  unstakes_last cfg l txs h bh top ->
  apply_txs cfg l txs h bh top fee = Ok (ln, fee') ->
  forall l' top', leqv ln l' ->
    (forall t, In t txs -> nget (dhist l') (tx_id t) = nget (dhist ln) (tx_id t)) ->
    exists l2, remove_txs cfg l' (rev txs) bh top' = Ok l2 /\ leqv l l2 /\ dhist l2 = dhist l'.
Proof. exact undo_txs. Qed.
Print Assumptions C03_undo_txs_exact_partial.

(* ---- counterexamples (unittest configuration; every other hypothesis of the theorems holds) ---- *)
(* a full unstake of a fund that is not the last of its pool: the pool comes back with its funds reordered *)
Theorem C03_undo_unstake_order_refuted :
  SInv wit_ledger /\ FPos wit_ledger /\ total_bal wit_ledger < two64 /\
  wf_tx cfg_unittest wit_tx /\ tx_total cfg_unittest wit_tx = Some 100 /\
  apply_tx cfg_unittest wit_ledger wit_tx 5 99 4 = Ok wit_l1 /\
  remove_tx cfg_unittest wit_l1 wit_tx 99 5 = Ok wit_l2 /\
  get_dlg wit_ledger 7 = Some (mkdlg 7 9 0 [mkfund 3 100 0; mkfund 5 50 0]) /\
  get_dlg wit_l2 7 = Some (mkdlg 7 9 0 [mkfund 5 50 0; mkfund 3 100 0]) /\
  get_dlg wit_l2 7 <> get_dlg wit_ledger 7.
Proof. exact undo_unstake_order_refuted. Qed.
Print Assumptions C03_undo_unstake_order_refuted.

(* FPos cannot be dropped: staking into a fund of amount 0 and undoing the stake drops the fund (no reachable ledger
   has such a fund) *)
Theorem C03_undo_stake_zero_fund_refuted :
  SInv zero_ledger /\ total_bal zero_ledger < two64 /\ wf_tx cfg_unittest zero_tx /\
  apply_tx cfg_unittest zero_ledger zero_tx 5 99 4 = Ok zero_l1 /\
  remove_tx cfg_unittest zero_l1 zero_tx 99 5 = Ok zero_l2 /\
  get_dlg zero_l2 7 = Some (mkdlg 7 9 0 [mkfund 5 50 0]) /\
  get_dlg zero_l2 7 <> get_dlg zero_ledger 7.
Proof. exact undo_stake_zero_fund_refuted. Qed.
Print Assumptions C03_undo_stake_zero_fund_refuted.

(* ---- the account part alone (Proofs/Pointwise.v) ---- *)
Theorem C03_undo_outputs : forall outs l bh txid l1,
  no_pos outs -> total_bal l + sum_souts outs < two64 ->
  (forall a, inc (acct_at l a) + out_cnt outs a < two64) ->
  apply_outputs l bh outs txid = (l1, None) ->
  exists l2, remove_outputs l1 bh outs = (l2, None) /\ same_accounts l2 l /\
    dlgs l2 = dlgs l /\ staked l2 = staked l /\ dhist l2 = dhist l.
Proof. exact remove_apply_outputs. Qed.
Print Assumptions C03_undo_outputs.

Theorem C03_undo_inputs : forall ins l l1,
  total_bal l < two64 -> apply_inputs l ins = Ok l1 ->
  exists l2, remove_inputs l1 ins = Ok l2 /\ same_accounts l2 l /\
    dlgs l2 = dlgs l /\ staked l2 = staked l /\ dhist l2 = dhist l.
Proof. exact remove_apply_inputs. Qed.
Print Assumptions C03_undo_inputs.

(* transfers (special case of C03_undo_tx without the staking invariants) *)
Theorem C03_undo_transfer : forall cfg l t outs0 h bh top_h l1 tot,
  tx_data t = TTransfer outs0 ->
  total_bal l < two64 -> wf_tx cfg t -> tx_total cfg t = Some tot ->
  (forall a, inc (acct_at l a) + N.of_nat (length outs0) < two64) ->
  nonce (acct_at l (addr_of_key (tx_signer t))) + 1 < two64 ->
  apply_tx cfg l t h bh top_h = Ok l1 ->
  exists l2, remove_tx cfg l1 t bh top_h = Ok l2 /\ same_accounts l2 l /\ dlgs l2 = dlgs l /\ staked l2 = staked l.
Proof. exact remove_apply_transfer. Qed.
Print Assumptions C03_undo_transfer.

(* a refused block or reorganisation changes nothing *)
Theorem C03_reject_unchanged : forall cfg genesis_addr team_key n b now n' c amb,
  deliver cfg genesis_addr team_key n b now = (n', Rejected c, amb) -> n' = n.
Proof. exact deliver_rejected_unchanged. Qed.
Print Assumptions C03_reject_unchanged.

(* STILL MISSING for "the ledger is a function of the main chain alone" as a theorem about the node:
   that connecting the blocks of the other branch from a ledger that agrees up to fund order (what C03_undo_chain
   delivers at the common ancestor) yields ledgers that agree up to fund order with those of a node that applied the
   main chain only (ApplyBlockToState respects leqv_p: the lottery, the reward split and the fund lookups do not depend
   on the order of the funds), and the composition with check_reorgs of Model/Node.v.  That half remains covered by the
   implementation-side comparison with a fresh node (Check/C03.v), which compares the funds of a pool by owner. *)
