(* Property C03 - the ledger is a function of the main chain alone (reorganisations are exact).
   Statements only; proofs in Proofs/Pointwise.v, Proofs/Undo.v (transactions of every kind, staker reward),
   Proofs/Undo2.v (lists of transactions, blocks), Proofs/Undo4.v (the invariants along chains, several blocks),
   Proofs/UndoRefuted.v (concrete evaluations), Proofs/NodeBasics.v; the node-level theorem "ledger = replay of the
   main chain" in Proofs/Replay1.v (ApplyBlockToState respects agreement), Replay2.v (ledgers), Replay3.v (the loops of
   CheckReorgs on the ledger), Replay4.v (every delivery sequence), Replay5.v (premises reduced by stateless validation),
   CodecBridge.v / CodecBridgeAlloc.v / CodecBridgeNode.v (the typing premise derived from the byte-level decoder). *)
From Virel Require Import Lib.Config Lib.U64 Lib.AMap Gen.Params Model.Emission Model.Ledger Model.Node Spec.Chain
  Proofs.Emission Proofs.Conservation Proofs.Pointwise Proofs.StakedSum Proofs.NodeBasics Proofs.ForkChoice Proofs.ChainInv
  Proofs.Refine2 Proofs.Undo Proofs.Undo2 Proofs.Undo4 Proofs.UndoRefuted
  Proofs.Replay1 Proofs.Replay2 Proofs.Replay3 Proofs.Replay4 Proofs.Replay5 Proofs.Replay6 Proofs.ChainExamples.
From Virel Require Model.Des Model.Codec Model.CodecBlock Spec.TxAbs Proofs.CodecBridge Proofs.CodecBridgeAlloc Proofs.CodecBridgeNode.
Open Scope N_scope.

Theorem C03_cfg_ok_mainnet : cfg_ok_emission cfg_mainnet = true. Proof. vm_compute. reflexivity. Qed.
Theorem C03_cfg_ok_testnet : cfg_ok_emission cfg_testnet = true. Proof. vm_compute. reflexivity. Qed.
Theorem C03_cfg_ok_unittest : cfg_ok_emission cfg_unittest = true. Proof. vm_compute. reflexivity. Qed.
Theorem C03_cfg_ok_verifnet : cfg_ok_emission cfg_verifnet = true. Proof. vm_compute. reflexivity. Qed.

(* FULL STATEMENT as first written (lemma B of DESIGN.md), without hypotheses: for every block and every ledger on
   which it applies, disconnecting it again restores the accounts, the delegate records and the staked total.
   Kept as the reference statement; it is proved below (C03_undo_block) under an explicit bundle of hypotheses that
   hold for every ledger reached from the empty ledger and every block that passes stateless validation.  Without
   them it is false for uninteresting reasons (ill-typed amounts, a fund of amount 0: C03_undo_stake_zero_fund_refuted).

   HISTORY (finding R21).  For the code before /repo commit d31bf91 the conclusion was false even under these
   hypotheses: the undo of an unstake that had emptied a fund (ApplyStake with reverse = true) re-created the fund at
   the END of the pool's fund list (chaintype.Delegate.SortFunds exists but is never called), so a pool whose emptied
   fund was not its last one came back with the same funds in another order.  This file then contained
   C03_undo_block_full_refuted : ~ C03_undo_block_full  and  C03_undo_unstake_order_refuted, by evaluation on the
   witness of Proofs/UndoRefuted.v (pool 7 with funds [3:100; 5:50], key 1 unstakes 100: after apply + remove the pool
   was [5:50; 3:100]), and the theorems only held up to the order of the funds or when every fully unstaked fund was
   the last of its pool.  The implementation confirmed it (Check/C03.v code 9).  After the repair the fund is
   re-inserted at the index it has in the pool record saved under the transaction id, which is its original position
   (Proofs/Undo.v: insert_at_fund_index), and the statements are exact; the old witness now evaluates to an exact
   restoration (C03_undo_unstake_order_witness_restored). *)
Definition C03_undo_block_full : Prop := forall cfg genesis_addr l b top_h l1,
  apply_block cfg genesis_addr l b top_h = Ok l1 ->
  exists l2, remove_block cfg genesis_addr l1 b top_h = Ok l2 /\ same_accounts l2 l /\
             (forall id, get_dlg l2 id = get_dlg l id) /\ staked l2 = staked l.

(* The hypotheses under which the statement is PROVED, for all configurations with a sound emission schedule, all
   ledgers and all blocks (no bound on sizes):
     SInv l        delegate table in database-key order, filed under its ids, staked total = sum of all funds < 2^64;
     FPos l        no fund with amount 0 (a fund that reaches 0 is dropped; stakes are >= MIN_STAKE_AMOUNT; the
                   rounding remainder of a non-zero staker reward is >= 1% of it);
     FUniq l       the funds of a pool have distinct owners (a fund is appended only for an owner without one);
                   these three hold along every chain from the empty ledger: C03_invariants_chain;
     room for the block reward below the maximum supply (holds along every chain: Props/C01.v);
     tx_ok         uint64-typed amounts and an overflow-free total (what Transaction.Prevalidate checks, code 212);
     stake_pos     staked amounts > 0 (check 210 of prevalidate_tx: C03_prevalidate_stake_pos);
     the transaction ids of the block are pairwise distinct and differ from the block hash (they are hashes of
                   different contents; the delegate history is keyed by both);
     the per-address counters (incoming count, nonce) do not wrap within the block.
   [top'] (stats.TopHeight when the block is disconnected) is arbitrary: reorg_disconnect of Model/Node.v passes the
   block's own height = top_h + 1, where top_h (the parent's height) is what apply_block_node / reorg_connect pass
   when the block is connected (after the repair R8 TopHeight follows the chain); the removal never reads it because
   the unlock height of a re-created fund comes from the delegate history. *)
Definition C03_block_hyps : config -> ledger -> lblock -> Prop := block_hyps.

Definition C03_undo_block_statement : Prop := forall cfg genesis_addr l b top_h l1,
  C03_block_hyps cfg l b ->
  apply_block cfg genesis_addr l b top_h = Ok l1 ->
  forall top', exists l2, remove_block cfg genesis_addr l1 b top' = Ok l2 /\ same_accounts l2 l /\
    dlgs l2 = dlgs l /\ (forall id, get_dlg l2 id = get_dlg l id) /\ staked l2 = staked l.

(* PROVED: the literal conclusion of C03_undo_block_full (and the delegate table even equal as a list) *)
Theorem C03_undo_block : C03_undo_block_statement.
Proof. exact remove_apply_block. Qed.
Print Assumptions C03_undo_block.

(* The same in the form needed to chain it: the removal starts from ANY ledger that agrees with the result of the
   application on accounts (extensionally), delegate table and staked total (leqv) and on the delegate-history entries
   of this block; the wallet indexes and the other delegate-history entries may differ (they do after an undo: stale
   entries stay; every entry is written by an application before the matching removal reads it). *)
Theorem C03_undo_block_general : forall cfg genesis_addr l b top_h lB,
  C03_block_hyps cfg l b ->
  apply_block cfg genesis_addr l b top_h = Ok lB ->
  forall l' top', leqv lB l' ->
    (forall k, k = lb_hash b \/ In k (map tx_id (lb_txs b)) -> nget (dhist l') k = nget (dhist lB) k) ->
    exists l2, remove_block cfg genesis_addr l' b top' = Ok l2 /\ leqv l l2 /\ dhist l2 = dhist l'.
Proof. exact undo_block. Qed.
Print Assumptions C03_undo_block_general.

(* ---- the invariants are not assumptions about reachable ledgers: they hold along every chain ---- *)
(* PInv l = SInv l /\ FPos l /\ FUniq l holds for the empty ledger and is kept by ApplyBlockToState (transactions of
   every kind and the staker reward), hence holds after every chain of blocks applied to the empty ledger *)
Theorem C03_invariants_initial : PInv ledger0.
Proof. exact PInv0. Qed.
Print Assumptions C03_invariants_initial.

Theorem C03_invariants_chain : forall cfg genesis_addr, cfg_ok_emission cfg = true ->
  forall bs l (h : nat) l',
  total_bal l = sum_rewards cfg h -> heights_from h bs ->
  Forall (fun b => Forall (tx_ok cfg) (lb_txs b) /\ Forall stake_pos (lb_txs b)) bs -> PInv l ->
  apply_chain cfg genesis_addr l bs = Ok l' -> PInv l'.
Proof. exact apply_chain_PInv. Qed.
Print Assumptions C03_invariants_chain.

(* stake_pos is what stateless validation guarantees when MIN_STAKE_AMOUNT > 0 *)
Theorem C03_prevalidate_stake_pos : forall cfg team_key t h,
  0 < min_stake cfg -> prevalidate_tx cfg team_key t h = Ok tt -> stake_pos t.
Proof. exact prevalidate_stake_pos. Qed.
Print Assumptions C03_prevalidate_stake_pos.

(* ---- several blocks: what a reorganisation disconnects ---- *)
(* the blocks of a chain segment connected lowest first (TopHeight = the parent's height) and then disconnected highest
   first (TopHeight = the block's own height, as reorg_disconnect does): accounts, delegate records and staked total
   are back to what they were below the segment.  chain_keys = the hashes of the blocks and the ids of their
   transactions, pairwise distinct. *)
Theorem C03_undo_chain : forall cfg genesis_addr, cfg_ok_emission cfg = true ->
  forall bs l (h : nat) ln,
  total_bal l = sum_rewards cfg h -> heights_from h bs -> PInv l ->
  Forall (fun b => Forall (tx_ok cfg) (lb_txs b) /\ Forall stake_pos (lb_txs b)) bs ->
  NoDup (chain_keys bs) ->
  (forall a, inc (acct_at l a) + chain_nouts bs < two64) ->
  (forall a, nonce (acct_at l a) + chain_ntx bs < two64) ->
  apply_chain cfg genesis_addr l bs = Ok ln ->
  exists l2, remove_chain cfg genesis_addr ln (rev bs) = Ok l2 /\ same_accounts l2 l /\
    dlgs l2 = dlgs l /\ (forall id, get_dlg l2 id = get_dlg l id) /\ staked l2 = staked l.
Proof. exact remove_apply_chain. Qed.
Print Assumptions C03_undo_chain.

(* from any ledger that agrees with the tip ledger *)
Theorem C03_undo_chain_general : forall cfg genesis_addr, cfg_ok_emission cfg = true ->
  forall bs l (h : nat) ln,
  total_bal l = sum_rewards cfg h -> heights_from h bs -> PInv l ->
  Forall (fun b => Forall (tx_ok cfg) (lb_txs b) /\ Forall stake_pos (lb_txs b)) bs ->
  NoDup (chain_keys bs) ->
  (forall a, inc (acct_at l a) + chain_nouts bs < two64) ->
  (forall a, nonce (acct_at l a) + chain_ntx bs < two64) ->
  apply_chain cfg genesis_addr l bs = Ok ln ->
  forall l', leqv ln l' -> (forall k, In k (chain_keys bs) -> nget (dhist l') k = nget (dhist ln) k) ->
  exists l2, remove_chain cfg genesis_addr l' (rev bs) = Ok l2 /\ leqv l l2 /\ dhist l2 = dhist l'.
Proof. exact undo_chain. Qed.
Print Assumptions C03_undo_chain_general.

(* ---- transactions: RemoveTxFromState after ApplyTxToState, all five kinds and the mismatching version bytes ---- *)
Theorem C03_undo_tx : forall cfg l t h bh top_h l1 tot,
  SInv l -> FPos l -> FUniq l -> total_bal l < two64 -> wf_tx cfg t -> tx_total cfg t = Some tot ->
  (forall a, inc (acct_at l a) + tx_nouts t < two64) ->
  nonce (acct_at l (addr_of_key (tx_signer t))) + 1 < two64 ->
  apply_tx cfg l t h bh top_h = Ok l1 ->
  forall top', exists l2, remove_tx cfg l1 t bh top' = Ok l2 /\ same_accounts l2 l /\ dlgs l2 = dlgs l /\ staked l2 = staked l.
Proof. exact remove_apply_tx. Qed.
Print Assumptions C03_undo_tx.

(* from any agreeing ledger *)
Theorem C03_undo_tx_general : forall cfg l t h bh top_h l1 tot,
  SInv l -> FPos l -> FUniq l -> total_bal l < two64 -> wf_tx cfg t -> tx_total cfg t = Some tot ->
  (forall a, inc (acct_at l a) + tx_nouts t < two64) ->
  nonce (acct_at l (addr_of_key (tx_signer t))) + 1 < two64 ->
  apply_tx cfg l t h bh top_h = Ok l1 ->
  forall l' top', leqv l1 l' -> nget (dhist l') (tx_id t) = nget (dhist l1) (tx_id t) ->
  exists l2, remove_tx cfg l' t bh top' = Ok l2 /\ leqv l l2 /\ dhist l2 = dhist l'.
Proof. exact undo_tx. Qed.
Print Assumptions C03_undo_tx_general.

(* the two staking operations by themselves.  Stake: existing fund (amount and unlock height back, PrevUnlock was
   checked against the fund) or new fund (appended, dropped again when its amount returns to 0).  Unstake: partial
   (amount added back) or full (fund dropped, pool saved under the transaction id, fund re-inserted with the saved
   unlock height at the saved position). *)
Theorem C03_undo_stake : forall cfg l amt id pu signer top txid l1,
  SInv l -> FPos l -> amt < two64 ->
  apply_stake cfg l amt id pu signer top txid false = Ok l1 ->
  forall l' top', dlgs l' = dlgs l1 -> staked l' = staked l1 ->
  exists l2, apply_unstake l' amt id signer top' txid true pu = Ok l2 /\
    dlgs l2 = dlgs l /\ staked l2 = staked l /\ accts l2 = accts l' /\ dhist l2 = dhist l'.
Proof. exact undo_stake. Qed.
Print Assumptions C03_undo_stake.

Theorem C03_undo_unstake : forall cfg l amt id signer top txid l1,
  SInv l -> FUniq l -> amt < two64 ->
  apply_unstake l amt id signer top txid false 0 = Ok l1 ->
  forall l' top', dlgs l' = dlgs l1 -> staked l' = staked l1 -> nget (dhist l') txid = nget (dhist l1) txid ->
  exists l2, apply_stake cfg l' amt id 0 signer top' txid true = Ok l2 /\
    dlgs l2 = dlgs l /\ staked l2 = staked l /\ accts l2 = accts l' /\ dhist l2 = dhist l'.
Proof. exact undo_unstake. Qed.
Print Assumptions C03_undo_unstake.

(* the staker reward: RemovePosReward after ApplyPosReward restores the delegate table and the staked total
   (the delegate history keeps the saved record) *)
Theorem C03_undo_pos_reward : forall l bh o l1,
  SInv l -> o_amt o < two64 -> apply_pos_reward l bh o = Ok l1 ->
  forall l', dlgs l' = dlgs l1 -> staked l' = staked l1 -> nget (dhist l') bh = nget (dhist l1) bh ->
  exists l2, remove_pos_reward l' bh o = Ok l2 /\
    dlgs l2 = dlgs l /\ staked l2 = staked l /\ accts l2 = accts l' /\ dhist l2 = dhist l'.
Proof. exact undo_pos_reward. Qed.
Print Assumptions C03_undo_pos_reward.

(* lists of transactions: applied in order, removed in reverse order *)
Theorem C03_undo_txs : forall cfg txs l h bh top fee ln fee',
  SInv l -> FPos l -> FUniq l -> total_bal l < two64 ->
  Forall (tx_ok cfg) txs -> Forall stake_pos txs -> NoDup (map tx_id txs) ->
  (forall a, inc (acct_at l a) + nouts_sum txs < two64) ->
  (forall a, nonce (acct_at l a) + N.of_nat (length txs) < two64) ->
  apply_txs cfg l txs h bh top fee = Ok (ln, fee') ->
  forall l' top', leqv ln l' ->
    (forall t, In t txs -> nget (dhist l') (tx_id t) = nget (dhist ln) (tx_id t)) ->
    exists l2, remove_txs cfg l' (rev txs) bh top' = Ok l2 /\ leqv l l2 /\ dhist l2 = dhist l'.
Proof. exact undo_txs. Qed.
Print Assumptions C03_undo_txs.

(* ---- concrete evaluations (unittest configuration) ---- *)
(* the witness that refuted exactness before the repair of R21 (full unstake of a fund that is not the last of its
   pool) now restores the delegate table exactly, as a transaction and inside a block *)
Theorem C03_undo_unstake_order_witness_restored :
  apply_tx cfg_unittest wit_ledger wit_tx 5 99 4 = Ok wit_l1 /\
  get_dlg wit_l1 7 = Some (mkdlg 7 9 0 [mkfund 5 50 0]) /\
  remove_tx cfg_unittest wit_l1 wit_tx 99 5 = Ok wit_l2 /\
  dlgs wit_l2 = dlgs wit_ledger /\ accts wit_l2 = accts wit_ledger /\ staked wit_l2 = staked wit_ledger /\
  apply_block cfg_unittest 201 wit_ledger wit_block 4 = Ok wit_lB /\
  remove_block cfg_unittest 201 wit_lB wit_block 5 = Ok wit_lB2 /\
  dlgs wit_lB2 = dlgs wit_ledger /\ staked wit_lB2 = staked wit_ledger.
Proof. exact undo_unstake_order_witness_restored. Qed.
Print Assumptions C03_undo_unstake_order_witness_restored.

(* FPos cannot be dropped: staking into a fund of amount 0 and undoing the stake drops the fund (no reachable ledger
   has such a fund) *)
Theorem C03_undo_stake_zero_fund_refuted :
  SInv zero_ledger /\ total_bal zero_ledger < two64 /\ wf_tx cfg_unittest zero_tx /\
  apply_tx cfg_unittest zero_ledger zero_tx 5 99 4 = Ok zero_l1 /\
  remove_tx cfg_unittest zero_l1 zero_tx 99 5 = Ok zero_l2 /\
  get_dlg zero_l2 7 = Some (mkdlg 7 9 0 [mkfund 5 50 0]) /\
  get_dlg zero_l2 7 <> get_dlg zero_ledger 7.
Proof. exact undo_stake_zero_fund_refuted. Qed.
Print Assumptions C03_undo_stake_zero_fund_refuted.

(* ---- the account part alone (Proofs/Pointwise.v) ---- *)
Theorem C03_undo_outputs : forall outs l bh txid l1,
  no_pos outs -> total_bal l + sum_souts outs < two64 ->
  (forall a, inc (acct_at l a) + out_cnt outs a < two64) ->
  apply_outputs l bh outs txid = (l1, None) ->
  exists l2, remove_outputs l1 bh outs = (l2, None) /\ same_accounts l2 l /\
    dlgs l2 = dlgs l /\ staked l2 = staked l /\ dhist l2 = dhist l.
Proof. exact remove_apply_outputs. Qed.
Print Assumptions C03_undo_outputs.

Theorem C03_undo_inputs : forall ins l l1,
  total_bal l < two64 -> apply_inputs l ins = Ok l1 ->
  exists l2, remove_inputs l1 ins = Ok l2 /\ same_accounts l2 l /\
    dlgs l2 = dlgs l /\ staked l2 = staked l /\ dhist l2 = dhist l.
Proof. exact remove_apply_inputs. Qed.
Print Assumptions C03_undo_inputs.

(* transfers (special case of C03_undo_tx without the staking invariants) *)
Theorem C03_undo_transfer : forall cfg l t outs0 h bh top_h l1 tot,
  tx_data t = TTransfer outs0 ->
  total_bal l < two64 -> wf_tx cfg t -> tx_total cfg t = Some tot ->
  (forall a, inc (acct_at l a) + N.of_nat (length outs0) < two64) ->
  nonce (acct_at l (addr_of_key (tx_signer t))) + 1 < two64 ->
  apply_tx cfg l t h bh top_h = Ok l1 ->
  exists l2, remove_tx cfg l1 t bh top_h = Ok l2 /\ same_accounts l2 l /\ dlgs l2 = dlgs l /\ staked l2 = staked l.
Proof. exact remove_apply_transfer. Qed.
Print Assumptions C03_undo_transfer.

(* a refused block or reorganisation changes nothing *)
Theorem C03_reject_unchanged : forall cfg genesis_addr team_key n b now n' c amb,
  deliver cfg genesis_addr team_key n b now = (n', Rejected c, amb) -> n' = n.
Proof. exact deliver_rejected_unchanged. Qed.
Print Assumptions C03_reject_unchanged.

(* ================================================================================================================ *)
(* THE FIRST SENTENCE OF THE PROPERTY, as a theorem about the node: whatever route a node took to its current main chain
   (extensions, any number of reorganisations, refused or crashing deliveries, blocks of other branches stored), its
   ledger is the one of a node that applied that main chain from genesis.

   n0 = the node after the genesis block; n = the node after any sequence of deliveries (any blocks, any order, any clock
   readings).  [mchain n] = the stored blocks filed in the height index under the heights 1 .. top_h, lowest first
   (C03_main_chain_is_height_index); [lbs n] turns each into the ledger's view of it, with the lottery value of its stored
   parent (what apply_block_node passes); Conservation.apply_chain applies them one after the other to the genesis ledger,
   each with top height = its height - 1 (what add_mainchain_block and reorg_connect pass: TopHeight follows the chain).
   CONCLUSION: that replay succeeds and its result agrees with the node's ledger: accounts as functions (an absent record
   = an all-zero record: a reorganisation leaves the emptied records behind), delegate table as a list, staked total.

   PREMISES, all about the final block store (which only grows):
     cfg_ok_emission, cfg_ok_feepos          conditions on the constants (hold for the four configurations, below);
     genesis at height 0 with b_cd = b_diff, fewer than 2^64 - 1 deliveries (the chain-structure theorems of C10);
     Forall tx_c (b_txs g)                   the genesis block's own transactions are well formed (it has none);
     typed                                   every transaction of a stored block has uint64-typed amounts and the version
                                             byte of its payload kind (Refine2W.v shows that ApplyTxToState itself does not
                                             check the version byte).  These are facts about the codec and they are DERIVED
                                             from the byte-level decoder model: Transaction.Deserialize returns nothing else
                                             (C13_decoded_tx_is_typed); C03_ledger_is_replay_decoded below has the premise
                                             "is the abstraction of a decoder output" in their place;
     paths                                   along every chain of stored blocks from genesis the block hashes and the
                                             transaction ids are pairwise distinct (they key the delegate history; for real
                                             hashes this is the nonce rule) and the per-address counters cannot wrap
                                             (fewer than 2^64 outputs and transactions along a chain).
   Everything else the undo and the congruence need is PROVED to hold: every stored block passed PrevalidateBlock
   (overflow-free totals, fee > 0, stakes > 0), the staking invariants SInv/FPos/FUniq hold on every ledger of the replay,
   the supply leaves room for each reward, the delegate-history entries a disconnection reads are those the connection
   wrote (stale entries of abandoned branches are never read). *)
Theorem C03_cfg_feepos_mainnet : cfg_ok_feepos cfg_mainnet = true. Proof. vm_compute. reflexivity. Qed.
Theorem C03_cfg_feepos_testnet : cfg_ok_feepos cfg_testnet = true. Proof. vm_compute. reflexivity. Qed.
Theorem C03_cfg_feepos_unittest : cfg_ok_feepos cfg_unittest = true. Proof. vm_compute. reflexivity. Qed.
Theorem C03_cfg_feepos_verifnet : cfg_ok_feepos cfg_verifnet = true. Proof. vm_compute. reflexivity. Qed.

Theorem C03_ledger_is_replay : forall cfg genesis_addr team_key g n0 ops,
  cfg_ok_emission cfg = true -> cfg_ok_feepos cfg = true ->
  node0 cfg genesis_addr g = Ok n0 -> b_height g = 0 -> b_cd g = b_diff g ->
  N.of_nat (length ops) < two64 - 1 ->
  let n := run cfg genesis_addr team_key n0 ops in
  Forall (tx_c cfg) (b_txs g) ->
  (forall h b, get_block n h = Some b -> Forall (fun t => wf_tx cfg t /\ ver_ok t = true) (b_txs b)) ->
  (forall bs, up (b_hash g) (blocks n) (b_hash g) bs ->
     NoDup (bkeys g ++ flat_map bkeys bs) /\ c0 g + bnouts bs < two64 /\ c0 g + bntx bs < two64) ->
  exists lr, apply_chain cfg genesis_addr (ldg n0) (lbs n (mchain n)) = Ok lr /\
    same_accounts (ldg n) lr /\ dlgs (ldg n) = dlgs lr /\ staked (ldg n) = staked lr.
Proof. exact ledger_is_replay_validated. Qed.
Print Assumptions C03_ledger_is_replay.

(* the same with the per-transaction conditions as one premise on the store (no use of stateless validation) *)
Theorem C03_ledger_is_replay_general : forall cfg genesis_addr team_key g n0 ops,
  cfg_ok_emission cfg = true ->
  node0 cfg genesis_addr g = Ok n0 -> b_height g = 0 -> b_cd g = b_diff g ->
  N.of_nat (length ops) < two64 - 1 ->
  let n := run cfg genesis_addr team_key n0 ops in
  store_pre cfg g (blocks n) ->
  exists lr, apply_chain cfg genesis_addr (ldg n0) (lbs n (mchain n)) = Ok lr /\
    same_accounts (ldg n) lr /\ dlgs (ldg n) = dlgs lr /\ staked (ldg n) = staked lr.
Proof. exact ledger_is_replay. Qed.
Print Assumptions C03_ledger_is_replay_general.

(* THE SAME WITH THE TYPING PREMISE DISCHARGED FROM THE CODEC.  [typed] is replaced by [decoded]: every transaction x of a
   stored block other than genesis is the abstraction (TxAbs.abs_tx of Spec/TxAbs.v, under ANY numbering of transaction
   ids, keys, addresses, names and any reading of the signature bytes: the seven functions quantified first) of a value t
   that Transaction.Deserialize returned on some byte string bs in one of its two modes hv.  That is what a node fed by
   Block.DeserializeFull holds (C03_decoded_block_feeds_premise).  The typing follows because the decoder returns nothing
   else (Proofs/CodecBridge.v, Props/C13.v: C13_decoded_tx_is_typed); cfg_ok_burn = REGISTER_BURN < 2^64 (the third
   conjunct of wf_tx; the C13_cfg_ok_burn theorems).  The genesis block is a constant of the program: its transactions keep their
   own premise (it has none). *)
Theorem C03_ledger_is_replay_decoded :
  forall (txid_of key_id addr_id name_id : list N -> N) (sig_by : Model.Codec.tx -> N) (sig_msg : Model.Codec.tx -> bool)
         (signer_invalid : list N -> bool) cfg genesis_addr team_key g n0 ops,
  cfg_ok_emission cfg = true -> cfg_ok_feepos cfg = true -> CodecBridge.cfg_ok_burn cfg = true ->
  node0 cfg genesis_addr g = Ok n0 -> b_height g = 0 -> b_cd g = b_diff g ->
  N.of_nat (length ops) < two64 - 1 ->
  let n := run cfg genesis_addr team_key n0 ops in
  Forall (tx_c cfg) (b_txs g) ->
  (forall h b, get_block n h = Some b -> h <> b_hash g ->
     Forall (fun x => exists hv bs t,
               Model.Des.result_of (Model.Des.run (Model.Codec.dec_tx cfg hv) bs) = Model.Des.ROk t /\
               x = TxAbs.abs_tx txid_of key_id addr_id name_id sig_by sig_msg signer_invalid t) (b_txs b)) ->
  (forall bs, up (b_hash g) (blocks n) (b_hash g) bs ->
     NoDup (bkeys g ++ flat_map bkeys bs) /\ c0 g + bnouts bs < two64 /\ c0 g + bntx bs < two64) ->
  exists lr, apply_chain cfg genesis_addr (ldg n0) (lbs n (mchain n)) = Ok lr /\
    same_accounts (ldg n) lr /\ dlgs (ldg n) = dlgs lr /\ staked (ldg n) = staked lr.
Proof. exact CodecBridgeNode.ledger_is_replay_decoded. Qed.
Print Assumptions C03_ledger_is_replay_decoded.

(* where [decoded] comes from: the transactions of a block returned by Block.DeserializeFull on ANY input are, one by
   one, values Transaction.Deserialize returns on a byte string (their own length-prefixed slice), in the mode the block's
   height prescribes (version byte from HARDFORK_V2_HEIGHT on) *)
Theorem C03_decoded_block_feeds_premise :
  forall (txid_of key_id addr_id name_id : list N -> N) (sig_by : Model.Codec.tx -> N) (sig_msg : Model.Codec.tx -> bool)
         (signer_invalid : list N -> bool) cfg bs b txs,
  Model.Des.result_of (Model.Des.run (Model.CodecBlock.dec_full_block cfg) bs) = Model.Des.ROk (b, txs) ->
  Forall (fun x => exists sl t,
            Model.Des.result_of (Model.Des.run
              (Model.Codec.dec_tx cfg (hf_v2 cfg <=? Model.CodecBlock.hd_height (Model.CodecBlock.bl_header b))) sl) = Model.Des.ROk t /\
            x = TxAbs.abs_tx txid_of key_id addr_id name_id sig_by sig_msg signer_invalid t)
         (map (TxAbs.abs_tx txid_of key_id addr_id name_id sig_by sig_msg signer_invalid) txs).
Proof. exact CodecBridgeAlloc.decoded_block_txs_decoded. Qed.
Print Assumptions C03_decoded_block_feeds_premise.

(* non-vacuity: every premise holds for the history of Proofs/ChainExamples.v that reorganises from G-A1-A2-A3 to the
   heavier chain G-B-D (three blocks disconnected, two connected); its final ledger is the replay of [B; D] *)
Theorem C03_replay_premises_satisfiable :
  node0 cfg_verifnet 7 w_genesis = Ok ex_n0 /\
  let n := run cfg_verifnet 7 0 ex_n0 sr_ops in
  cfg_ok_emission cfg_verifnet = true /\ cfg_ok_feepos cfg_verifnet = true /\
  b_height w_genesis = 0 /\ b_cd w_genesis = b_diff w_genesis /\ N.of_nat (length sr_ops) < two64 - 1 /\
  Forall (tx_c cfg_verifnet) (b_txs w_genesis) /\
  (forall h b, get_block n h = Some b -> Forall (fun t => wf_tx cfg_verifnet t /\ ver_ok t = true) (b_txs b)) /\
  (forall bs, up (b_hash w_genesis) (blocks n) (b_hash w_genesis) bs ->
     NoDup (bkeys w_genesis ++ flat_map bkeys bs) /\ c0 w_genesis + bnouts bs < two64 /\ c0 w_genesis + bntx bs < two64) /\
  map b_hash (mchain n) = [4; 6] /\
  exists lr, apply_chain cfg_verifnet 7 (ldg ex_n0) (lbs n (mchain n)) = Ok lr /\
    same_accounts (ldg n) lr /\ dlgs (ldg n) = dlgs lr /\ staked (ldg n) = staked lr.
Proof. exact replay_premises_satisfiable. Qed.
Print Assumptions C03_replay_premises_satisfiable.

(* [mchain n] is the main chain: its hashes are the entries 1 .. top_h of the height index, and each is a stored block *)
Theorem C03_main_chain_is_height_index : forall cfg genesis_addr team_key g n0 ops,
  node0 cfg genesis_addr g = Ok n0 -> b_height g = 0 -> b_cd g = b_diff g ->
  N.of_nat (length ops) < two64 - 1 ->
  let n := run cfg genesis_addr team_key n0 ops in
  map (fun b => Some (b_hash b)) (mchain n) = map (fun j => get_topo n (N.of_nat j)) (seq 1 (N.to_nat (top_h n))) /\
  Forall (fun b => get_block n (b_hash b) = Some b) (mchain n).
Proof. exact mchain_is_height_index. Qed.
Print Assumptions C03_main_chain_is_height_index.

(* the application side respects agreement (the half that was missing next to the undo theorems): when a chain of blocks
   applies to a ledger [lb], it applies to every ledger [ls] that agrees with it and carries at most fewer all-zero
   account records, with agreeing results and the same writes [W] to the delegate history.
   tx_cond = uint64-typed amounts, overflow-free total, fee > 0, version byte of the payload kind. *)
Theorem C03_apply_respects_agreement : forall cfg genesis_addr bs ls lb lbn,
  leqv ls lb -> Forall (fun b => Forall (tx_cond cfg) (lb_txs b)) bs ->
  apply_chain cfg genesis_addr lb bs = Ok lbn ->
  exists lsn W, apply_chain cfg genesis_addr ls bs = Ok lsn /\ leqv lsn lbn /\
    (forall k, In k (map fst W) -> In k (chain_keys bs)) /\
    dhist lsn = wr W (dhist ls) /\ dhist lbn = wr W (dhist lb).
Proof. exact cong_apply_chain. Qed.
Print Assumptions C03_apply_respects_agreement.

(* the ledger-level step of a reorganisation: disconnect the blocks O above the prefix P, connect the blocks N *)
Theorem C03_reorganisation_keeps_replay : forall cfg genesis_addr, cfg_ok_emission cfg = true ->
  forall l0 gk c0 P O N L L2 L3,
  base_ok cfg l0 gk c0 -> chain_ok cfg gk c0 (P ++ O) -> chain_ok cfg gk c0 (P ++ N) ->
  RInv cfg genesis_addr l0 (P ++ O) L ->
  remove_chain cfg genesis_addr L (rev O) = Ok L2 ->
  apply_chain cfg genesis_addr L2 N = Ok L3 ->
  RInv cfg genesis_addr l0 (P ++ N) L3.
Proof. exact RInv_reorg. Qed.
Print Assumptions C03_reorganisation_keeps_replay.

(* REMAINING GAPS of the first sentence of C03:
   - the premise [paths] above is stated on the store, not derived (transaction ids and block hashes are symbolic
     numbers in the model).  The premise [typed] IS derived from the byte-level decoder model (C03_ledger_is_replay_decoded,
     C13_decoded_tx_is_typed); what stays a modelling step there is the abstraction itself: that the symbolic block the
     node model stores is the abstraction of the decoded block under a numbering that is consistent with address
     derivation and signature verification (Spec/TxAbs.v lists the conditions; the structural theorems need none);
   - the conclusion compares accounts as functions: the node's account index may hold all-zero records (left by the undo
     of the blocks of an abandoned branch) that a node which never saw that branch does not hold.  That difference is
     real in the model and invisible to every rule as long as fees are positive (it is exactly what C03_apply_respects_
     agreement handles); the wallet indexes (intx, outtx, txh) and stale delegate-history entries are outside the
     statement (C17 speaks about the wallet indexes). *)
