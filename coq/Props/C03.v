(* Property C03 - the ledger is a function of the main chain alone (reorganisations are exact).
   Statements only; proofs in Proofs/Pointwise.v, Proofs/NodeBasics.v. *)
From Virel Require Import Lib.Config Lib.U64 Lib.AMap Model.Emission Model.Ledger Model.Node
  Proofs.Conservation Proofs.Pointwise Proofs.NodeBasics.
Open Scope N_scope.

(* FULL STATEMENT (lemma B of DESIGN.md): for every block and every ledger on which it applies, disconnecting it again
   restores the accounts, the delegate records and the staked total. *)
Definition C03_undo_block_full : Prop := forall cfg genesis_addr l b top_h l1,
  apply_block cfg genesis_addr l b top_h = Ok l1 ->
  exists l2, remove_block cfg genesis_addr l1 b top_h = Ok l2 /\ same_accounts l2 l /\
             (forall id, get_dlg l2 id = get_dlg l id) /\ staked l2 = staked l.

(* PROVED PARTS, each for ALL ledgers and all values:
   - undoing the outputs of a transaction / of a coinbase without staker reward restores every account exactly;
   - undoing the inputs restores every account exactly;
   - undoing a whole transfer transaction (ApplyTxToState then RemoveTxFromState) restores every account, the delegate
     table and the staked total.
   MISSING for the full statement: the same composition for the four staking-related kinds and for the staker reward
   (their delegate-record bookkeeping), and the lifting from transactions to blocks.  Those are covered by the
   correspondence run (model = implementation on generated reorganisations) together with the implementation-side
   check "a fresh node fed only the final main chain has the same ledger" (Check/C03.v), not by a theorem. *)
Theorem C03_undo_outputs : forall outs l bh txid l1,
  no_pos outs -> total_bal l + sum_souts outs < two64 ->
  (forall a, inc (acct_at l a) + out_cnt outs a < two64) ->
  apply_outputs l bh outs txid = (l1, None) ->
  exists l2, remove_outputs l1 bh outs = (l2, None) /\ same_accounts l2 l /\
    dlgs l2 = dlgs l /\ staked l2 = staked l /\ dhist l2 = dhist l.
Proof. exact remove_apply_outputs. Qed.
Print Assumptions C03_undo_outputs.

Theorem C03_undo_inputs : forall ins l l1,
  total_bal l < two64 -> apply_inputs l ins = Ok l1 ->
  exists l2, remove_inputs l1 ins = Ok l2 /\ same_accounts l2 l /\
    dlgs l2 = dlgs l /\ staked l2 = staked l /\ dhist l2 = dhist l.
Proof. exact remove_apply_inputs. Qed.
Print Assumptions C03_undo_inputs.

Theorem C03_undo_transfer_partial : forall cfg l t outs0 h bh top_h l1 tot,
  tx_data t = TTransfer outs0 ->
  total_bal l < two64 -> wf_tx cfg t -> tx_total cfg t = Some tot ->
  (forall a, inc (acct_at l a) + N.of_nat (length outs0) < two64) ->
  nonce (acct_at l (addr_of_key (tx_signer t))) + 1 < two64 ->
  apply_tx cfg l t h bh top_h = Ok l1 ->
  exists l2, remove_tx cfg l1 t bh top_h = Ok l2 /\ same_accounts l2 l /\ dlgs l2 = dlgs l /\ staked l2 = staked l.
Proof. exact remove_apply_transfer. Qed.
Print Assumptions C03_undo_transfer_partial.

(* a refused block or reorganisation changes nothing *)
Theorem C03_reject_unchanged : forall cfg genesis_addr team_key n b now n' c amb,
  deliver cfg genesis_addr team_key n b now = (n', Rejected c, amb) -> n' = n.
Proof. exact deliver_rejected_unchanged. Qed.
Print Assumptions C03_reject_unchanged.
